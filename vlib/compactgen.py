"""Generators and oracles shared by the compaction properties C08 / C10."""
from . import gen, spec


def parse_list(a):
    if not a.startswith("ok "):
        return None
    return [] if a[3:] == "-" else [int(x) for x in a[3:].split(",")]


def fmt(cells):
    return ",".join(map(str, cells)) if cells else "-"


def random_root(rng):
    m = rng.random()
    if m < 0.25:
        return 0
    if m < 0.45:
        return spec.encode(0, rng.randrange(12), ())
    if m < 0.6:
        return spec.encode(1, rng.randrange(60), ())
    return gen.rand_cell(rng, rng.randint(2, 26))


def antichain(rng, max_cells=1500):
    """non-overlapping set built by recursive subdivision and deletion; several roots, mixing
    base cells, quintants and deep cells of several faces"""
    out = []
    nroots = rng.choice([1, 1, 2, 3, 5])
    roots = []
    for _ in range(nroots):
        r = random_root(rng)
        if any(spec.is_ancestor_or_equal(x, r) or spec.is_ancestor_or_equal(r, x) for x in roots):
            continue
        roots.append(r)
    for r in roots:
        out.extend(gen.antichain(rng, r, max_depth=rng.choice([1, 2, 3, 4, 5]), p_split=rng.choice([0.4, 0.6, 0.8, 1.0]),
                                 p_drop=rng.choice([0.0, 0.0, 0.1, 0.3]), max_cells=max_cells // max(1, len(roots))))
    return out


def staged_complete(rng):
    """antichain whose sibling groups only become complete after earlier merges: a full subdivision of a
    root to uneven depths (no deletion), optionally with one leaf removed"""
    root = random_root(rng)
    cells = gen.antichain(rng, root, max_depth=rng.choice([2, 3, 4, 5]), p_split=rng.choice([0.5, 0.7, 0.9]), p_drop=0.0, max_cells=1200)
    if rng.random() < 0.4 and len(cells) > 1:
        cells.pop(rng.randrange(len(cells)))
    return cells


def chain_cover(rng, root, depth):
    """the longest merge cascade: `root` refined along ONE branch down to resolution `depth` (at each level one child is split further,
    its siblings stay) - 3 or 4 cells per level; every group completes only after the one below it has merged, so compacting it back
    to `root` takes one pass per level (30 passes from resolution 29 to the world cell)"""
    out = []
    c = root
    while spec.decode(c)[0] < depth:
        ch = spec.children(c)
        keep = rng.randrange(len(ch))
        out.extend(x for i, x in enumerate(ch) if i != keep)
        c = ch[keep]
    out.append(c)
    return out


def overlapping(rng):
    base = antichain(rng, 300)
    extra = []
    for c in rng.sample(base, min(len(base), rng.randint(1, 6))) if base else []:
        res = spec.decode(c)[0]
        if res >= 0 and rng.random() < 0.6:
            extra.append(spec.ancestor_at(c, rng.randint(-1, res)))   # an ancestor (or the cell itself)
        elif res < 28:
            extra.extend(rng.sample(spec.children(c), 2))              # some descendants
        extra.append(c)                                                # a duplicate
    return base + extra


def max_res(cells):
    return max([spec.decode(c)[0] for c in cells], default=-1)


def canonical_cover(cells):
    """independent oracle: the canonical (maximal) cover of the region of an antichain, by bottom-up merging on the tree"""
    cur = set(cells)
    changed = True
    while changed:
        changed = False
        by_parent = {}
        for c in cur:
            p = spec.parent(c)
            if p is not None:
                by_parent.setdefault(p, []).append(c)
        for p, ch in by_parent.items():
            if len(ch) == len(spec.children(p)):
                cur.difference_update(ch)
                cur.add(p)
                changed = True
    return cur


def has_complete_group(cells):
    s = set(cells)
    seen = set()
    for c in s:
        p = spec.parent(c)
        if p is None or p in seen:
            continue
        seen.add(p)
        if all(x in s for x in spec.children(p)):
            return p
    return None


class Cover:
    """set-of-cells with fast 'is c covered by the set' / 'is c completely tiled by the set' queries"""

    def __init__(self, cells):
        self.S = set(cells)
        self.anc = set()
        for c in self.S:
            p = spec.parent(c)
            while p is not None and p not in self.anc:
                self.anc.add(p)
                p = spec.parent(p)

    def covers(self, c):
        while c is not None:
            if c in self.S:
                return True
            c = spec.parent(c)
        return False

    def tiles(self, c):
        """every finest descendant of c lies under a member"""
        if self.covers(c):
            return True
        if c not in self.anc:
            return False
        return all(self.tiles(ch) for ch in spec.children(c))


def same_region(a, b):
    ca, cb = Cover(a), Cover(b)
    for x in ca.S:
        if not cb.tiles(x):
            return f"input cell {x:#x} is not completely covered by the result"
    for x in cb.S:
        if not ca.tiles(x):
            return f"result cell {x:#x} covers area that the input does not"
    return None
