"""Independent spherical geometry for the oracles (not used by the model or the library):
WGS84 authalic latitude in closed form, spherical polygon area, point-in-spherical-polygon."""
import math, struct

E2 = 0.00669437999014          # WGS84 first eccentricity squared
E = math.sqrt(E2)


def hx(x):
    return "x" + format(struct.unpack("<Q", struct.pack("<d", x))[0], "016x")


def fx(tok):
    return float("nan") if tok == "xnan" else struct.unpack("<d", struct.pack("<Q", int(tok[1:], 16)))[0]


def _q(phi):
    s = math.sin(phi)
    return (1 - E2) * (s / (1 - E2 * s * s) - (1 / (2 * E)) * math.log((1 - E * s) / (1 + E * s)))


QP = _q(math.pi / 2)


_GL = [(-0.9739065285171717, 0.0666713443086881), (-0.8650633666889845, 0.1494513491505806), (-0.6794095682990244, 0.2190863625159820),
       (-0.4333953941292472, 0.2692667193099963), (-0.1488743389816312, 0.2955242247147529), (0.1488743389816312, 0.2955242247147529),
       (0.4333953941292472, 0.2692667193099963), (0.6794095682990244, 0.2190863625159820), (0.8650633666889845, 0.1494513491505806),
       (0.9739065285171717, 0.0666713443086881)]


def authalic_colat_from_colat(theta):
    """authalic colatitude (radians, measured from the nearer pole) of a geodetic colatitude theta in [0, pi/2]; accurate at the pole:
    q_p - q(s) = integral_s^1 2(1-e^2)/(1-e^2 t^2)^2 dt with 1 - s = 2 sin^2(theta/2), by 10-point Gauss-Legendre"""
    delta = 2.0 * math.sin(theta / 2.0) ** 2          # 1 - sin(phi)
    half = delta / 2.0
    mid = 1.0 - half
    integral = 0.0
    for x, w in _GL:
        t = mid + half * x
        integral += w * 2.0 * (1 - E2) / (1 - E2 * t * t) ** 2
    integral *= half
    one_minus_x = integral / QP
    return 2.0 * math.asin(math.sqrt(max(0.0, min(1.0, one_minus_x / 2.0))))


def authalic_lat(phi):
    """closed-form WGS84 authalic latitude of geodetic latitude phi (radians)"""
    if abs(phi) > 1.0:
        t = authalic_colat_from_colat(math.pi / 2 - abs(phi))
        return math.copysign(math.pi / 2 - t, phi)
    x = _q(phi) / QP
    return math.asin(max(-1.0, min(1.0, x)))


def sphere_vec(lon_deg, lat_deg):
    """unit vector on the authalic sphere of a geodetic lon/lat (degrees)"""
    lam = math.radians(lon_deg)
    if abs(lat_deg) > 60.0:
        t = authalic_colat_from_colat(math.radians(90.0 - abs(lat_deg)))     # 90 - |lat| is exact in floating point near the pole
        cb, sb = math.sin(t), math.copysign(math.cos(t), lat_deg)
    else:
        beta = authalic_lat(math.radians(lat_deg))
        cb, sb = math.cos(beta), math.sin(beta)
    return (cb * math.cos(lam), cb * math.sin(lam), sb)


def dot(a, b):
    return a[0] * b[0] + a[1] * b[1] + a[2] * b[2]


def cross(a, b):
    return (a[1] * b[2] - a[2] * b[1], a[2] * b[0] - a[0] * b[2], a[0] * b[1] - a[1] * b[0])


def norm(a):
    return math.sqrt(dot(a, a))


def unit(a):
    n = norm(a)
    return (a[0] / n, a[1] / n, a[2] / n)


def ang(a, b):
    return math.atan2(norm(cross(a, b)), dot(a, b))


def tri_area(a, b, c):
    """signed spherical excess of triangle abc (positive when counter-clockwise seen from outside)"""
    A, B, C = ang(b, c), ang(a, c), ang(a, b)
    s = (A + B + C) / 2
    t = math.tan(s / 2) * math.tan((s - A) / 2) * math.tan((s - B) / 2) * math.tan((s - C) / 2)
    e = 4 * math.atan(math.sqrt(max(t, 0.0)))
    return e if dot(cross(a, b), c) >= 0 else -e


def ring_area(ring):
    """signed area (steradians on the unit authalic sphere) of a ring of (lon, lat) degrees; positive = counter-clockwise"""
    vs = [sphere_vec(lon, lat) for lon, lat in ring]
    if vs and vs[0] == vs[-1]:
        vs = vs[:-1]
    c = unit((sum(v[0] for v in vs), sum(v[1] for v in vs), sum(v[2] for v in vs)))
    diam = max(ang(c, v) for v in vs)
    n = len(vs)
    if diam > 1e-6:
        return sum(tri_area(c, vs[i], vs[(i + 1) % n]) for i in range(n))
    # tiny cell: tangent plane at c with difference vectors (avoids cancellation in the excess formula)
    e1 = unit(cross((0.0, 0.0, 1.0), c)) if abs(c[2]) < 0.999999 else (1.0, 0.0, 0.0)
    e2 = cross(c, e1)
    pts = []
    for v in vs:
        d = (v[0] - c[0], v[1] - c[1], v[2] - c[2])
        pts.append((dot(d, e1), dot(d, e2)))
    a = 0.0
    for i in range(n):
        x1, y1 = pts[i]
        x2, y2 = pts[(i + 1) % n]
        a += x1 * y2 - x2 * y1
    return a / 2


def winding_contains(ring, lon, lat, tol=0.0):
    """is the point inside the ring?  sum of signed angles subtended at the point (3-D, on the authalic sphere).
    Returns (inside, min angular distance to the ring's vertices polyline in radians)"""
    p = sphere_vec(lon, lat)
    vs = [sphere_vec(a, b) for a, b in ring]
    if vs and vs[0] == vs[-1]:
        vs = vs[:-1]
    # orthonormal tangent basis at p (Gram-Schmidt, so that p itself projects to the origin also next to the poles)
    a0 = (0.0, 0.0, 1.0) if abs(p[2]) < 0.9 else (1.0, 0.0, 0.0)
    e1 = unit(cross(a0, p))
    e2 = cross(p, e1)
    total = 0.0
    dmin = 10.0
    n = len(vs)
    prev = None
    # a cell is at most ~40 degrees across: if some vertex of the ring is 90 degrees or more away, the point is not inside
    if any(dot(p, v) <= 0.05 for v in vs):
        return False, min(ang(p, v) for v in vs)
    for i in range(n + 1):
        v = vs[i % n]
        w = dot(p, v)
        # gnomonic projection on the tangent plane at p: great-circle edges become straight segments
        x, y = dot(v, e1) / w, dot(v, e2) / w
        dmin = min(dmin, math.hypot(x, y))
        if prev is not None:
            px, py = prev
            total += math.atan2(px * y - py * x, px * x + py * y)
            # distance from p to the segment prev->(x,y) in the tangent plane
            sx, sy = x - px, y - py
            L2 = sx * sx + sy * sy
            if L2 > 0:
                t = max(0.0, min(1.0, -(px * sx + py * sy) / L2))
                dmin = min(dmin, math.hypot(px + t * sx, py + t * sy))
        prev = (x, y)
    return abs(total) > math.pi, dmin


def parse_ring(resp):
    if not resp.startswith("ok ") or resp[3:] == "-":
        return None
    return [tuple(fx(x) for x in p.split(",")) for p in resp[3:].split(";")]
