"""C07 - parent/children form one consistent tree over all resolutions."""
from .. import bulk, core, gen, spec

LEVEL = "proof"
MAXFAN = 4 ** 8


def parse_list(a):
    if not a.startswith("ok "):
        return None
    return [] if a[3:] == "-" else [int(x) for x in a[3:].split(",")]


def oracle(q, a):
    t = q.split()
    op = t[0]
    if a in ("panic", "abort", "hang", "lost"):
        return f"{op} did not return normally: {a}"
    c = int(t[1])
    d = spec.decode(c)
    if d is None:
        return None
    res = d[0]
    tgt = (res + (1 if op == "cell_to_children" else -1)) if t[2] == "none" else int(t[2])
    if op == "cell_to_children":
        if res <= tgt <= 29 and spec.fanout(res, tgt) <= MAXFAN and tgt - max(res, 1) <= 20:
            v = parse_list(a)
            if v is None:
                return f"children of a valid cell at an admissible resolution failed: {a}"
            if len(set(v)) != len(v):
                return "children are not pairwise distinct"
            if len(v) != spec.fanout(res, tgt):
                return f"{len(v)} children, the hierarchy dictates {spec.fanout(res, tgt)}"
            for x in v:
                dx = spec.decode(x)
                if dx is None or dx[0] != tgt:
                    return f"child {x:#x} is not a canonical id of resolution {tgt}"
                if spec.ancestor_at(x, res) != c:
                    return f"child {x:#x} does not have the cell as its ancestor at resolution {res}"
        elif tgt < res and not a.startswith("err"):
            return "target coarser than the cell was not rejected"
    else:
        if -1 <= tgt <= res:
            if a != f"ok {spec.ancestor_at(c, tgt)}":
                return f"ancestor at resolution {tgt} is {a}, the tree says {spec.ancestor_at(c, tgt)}"
        elif not a.startswith("err"):
            return f"out-of-range parent resolution {tgt} was not rejected: {a}"
    return None


def run(run):
    rng = run.rng
    run.do_ties()
    quick = run.quick
    rmax = 3 if quick else 4
    reqs = ["get_res0_cells"]
    cells = [c for r in range(-1, rmax + 1) for c in gen.all_cells(r)]
    for c in cells:
        res = spec.decode(c)[0]
        for tgt in range(res, 30):
            fo = spec.fanout(res, tgt)
            if fo > MAXFAN:
                break
            # every target with a small fan-out; the large ones (up to 4^8 cells per call) for a sample of the cells
            if fo > 1024 and rng.random() > (0.01 if quick else 0.004):
                continue
            reqs.append(f"cell_to_children {c} {tgt}")
        for tgt in range(-2, res + 2):
            reqs.append(f"cell_to_parent {c} {tgt}")
        reqs.append(f"cell_to_children {c} none")
        reqs.append(f"cell_to_parent {c} none")
    for _ in range(run.n(1500, 40000)):
        c = gen.rand_cell(rng, lo=rmax + 1)
        res = spec.decode(c)[0]
        m = rng.random()
        if m < 0.5:
            tgt = rng.randint(res, min(29, res + rng.choice([1, 2, 3, 5, 8])))
            reqs.append(f"cell_to_children {c} {tgt}")
        elif m < 0.9:
            reqs.append(f"cell_to_parent {c} {rng.randint(-1, res)}")
        else:
            reqs.append(rng.choice([f"cell_to_children {c} none", f"cell_to_parent {c} none", f"cell_to_children {c} {res - 1}",
                                    f"cell_to_parent {c} {res + 1}", f"cell_to_children {c} {res + 21}",
                                    # target 30 is rejected only by the encoder of the first child; keep the (honest) enumeration small
                                    f"cell_to_children {c} 30" if res >= 24 else f"cell_to_children {c} 31"]))
    # the aperture changes -1 -> 0 -> 1 -> 2 for every face
    for f in range(12):
        b = spec.encode(0, f, ())
        for tgt in (0, 1, 2, 3):
            reqs.append(f"cell_to_children {b} {tgt}")
    for tgt in (-1, 0, 1, 2, 3, 4):
        reqs.append(f"cell_to_children 0 {tgt}")
    impl, model = core.both(run, reqs, "hierarchy")
    kids = {}
    for q, a in zip(reqs, impl):
        run.evaluations += 1
        if q == "get_res0_cells":
            if a != "ok " + ",".join(str(spec.encode(0, f, ())) for f in range(12)):
                run.violation("get_res0_cells is not the 12 base cells", q, a)
            continue
        msg = oracle(q, a)
        if msg:
            run.violation(msg, q, a[:300])
        t = q.split()
        if t[0] == "cell_to_children" and t[2] != "none" and a.startswith("ok "):
            kids[(int(t[1]), int(t[2]))] = parse_list(a)
            if spec.decode(int(t[1])) and spec.decode(int(t[1]))[0] < int(t[2]):
                run.nontrivial.add((t[1], t[2]))
    # composition: children of children == children at the deeper level (as sets), on the exhaustive part
    comp = 0
    for (c, tgt), v in kids.items():
        res = spec.decode(c)[0]
        if res < tgt - 1 and (c, res + 1) in kids:
            deeper = []
            okc = True
            for ch in kids[(c, res + 1)]:
                if (ch, tgt) not in kids:
                    okc = False
                    break
                deeper.extend(kids[(ch, tgt)])
            if okc:
                comp += 1
                run.evaluations += 1
                if sorted(deeper) != sorted(v):
                    run.violation("children of children differ from children at the deeper level", f"cell_to_children {c} {tgt}", "composition mismatch")
    # every cell of level r+1 is a child of exactly one cell of level r (exhaustive levels)
    for r in range(-1, rmax):
        allk = []
        for c in gen.all_cells(r):
            v = kids.get((c, r + 1))
            if v is not None:
                allk.extend(v)
        if len(allk) and (sorted(allk) != sorted(gen.all_cells(r + 1))):
            run.violation(f"children of all cells of resolution {r} do not enumerate resolution {r + 1} exactly once", f"level {r}", f"{len(allk)} children")
    # bulk: fan-outs of 8*10^4 .. 4*10^6 children (world cell, base cells, quintants, deep cells), compared through digests
    bulk.check(run, bulk.children_requests(run), "cell_to_children (bulk)", profiles=("release", "debug"))
    run.rule = ("bulk fan-outs (8e4..4e6 children of the world cell, base cells, quintants and deep cells: length, order-sensitive hash, sum and xor of the ids vs the model and vs closed forms from the tree); every cell of resolution -1..%d x every admissible child target (fan-out <= 4^8) x every parent target -2..res+1 incl. defaults, random cells up to r=29, "
                "aperture changes -1->0->1->2 on all faces; oracle = independent tree semantics written from the documented layout; non-trivial = distinct (cell, finer target) expansions" % rmax)
    run.samples = [{"request": reqs[i], "impl": impl[i][:160], "model": model[i][:160]} for i in rng.sample(range(len(reqs)), 6)]
    run.extra["exhaustive_up_to_resolution"] = rmax
    run.extra["compositions_checked"] = comp
