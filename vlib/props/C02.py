"""C02 - a cell's centre and every interior point map back to that cell."""
import math
from .. import core, gen, spec, geo
from .C01 import tables_are_reference

LEVEL = "proof"
# (the high-latitude finding F11 was repaired by fix 24ee3fd: every miss is a violation)


def vec(lon, lat):
    a, b = math.radians(lon), math.radians(lat)
    return (math.cos(b) * math.cos(a), math.cos(b) * math.sin(a), math.sin(b))


def run(run):
    rng = run.rng
    run.do_ties()
    quick = run.quick
    ref_tables = tables_are_reference()
    rmax = 3 if quick else 6
    cells = [c for r in range(0, rmax + 1) for c in gen.all_cells(r)]
    for r in range(rmax + 1, 30):
        for T in range(60):
            for _ in range(1 if quick else 12):
                cells.append(spec.encode(r, T, gen.rand_digits(rng, r - 1)))
    creq = [f"cell_to_lonlat {c}" for c in cells]
    cimpl, cmodel = core.both(run, creq, "cell_to_lonlat")
    # boundaries (corners only) for a sample, to build interior points
    sample = set(rng.sample(range(len(cells)), min(len(cells), run.n(400, 20000))))
    breq = [f"cell_to_boundary {cells[i]} 0 1" for i in sorted(sample)]
    bimpl = core.impl_only(run, breq)
    corners = {i: geo.parse_ring(b) for i, b in zip(sorted(sample), bimpl)}
    lreq, lmeta = [], []
    for i, (c, a) in enumerate(zip(cells, cimpl)):
        t = a.split()
        if t[0] != "ok":
            run.violation("cell_to_lonlat failed on a valid cell", creq[i], a)
            continue
        res = spec.decode(c)[0]
        clon, clat = geo.fx(t[1]), geo.fx(t[2])
        lreq.append(f"lonlat_to_cell {t[1]} {t[2]} {res}"); lmeta.append((c, "centre", 0.0))
        ring = corners.get(i)
        if ring:
            cv = vec(clon, clat)
            for (vlon, vlat) in ring:
                tt = rng.choice([0.5, 0.9, 1 - 1e-4])
                # a point on the great-circle chord from the centre to the corner (interpolated in 3-D, not in lon/lat space,
                # which is badly distorted next to the poles)
                vv = vec(vlon, vlat)
                p = [a + tt * (b - a) for a, b in zip(cv, vv)]
                nrm = math.sqrt(sum(x * x for x in p))
                lon = math.degrees(math.atan2(p[1], p[0]))
                lat = math.degrees(math.atan2(p[2], math.hypot(p[0], p[1])))      # atan2, not asin: asin loses half the digits next to the poles
                lreq.append(f"lonlat_to_cell {geo.hx(lon)} {geo.hx(lat)} {res}"); lmeta.append((c, "interior", tt))
    limpl, lmodel = core.both(run, lreq, "lonlat_to_cell")
    branches = {}
    worst = []
    for (c, kind, tt), q, a, m in zip(lmeta, lreq, limpl, lmodel):
        run.evaluations += 1
        t = a.split()
        br = t[2] if len(t) > 2 else "?"
        key = kind + ":" + (br if br in ("0", "-1", "-2") else "probe")
        branches[key] = branches.get(key, 0) + 1
        if t[0] == "ok" and int(t[1]) == c:
            if spec.decode(c)[0] >= 2:
                run.nontrivial.add((c, kind, tt))
            continue
        if kind == "interior" and tt > 0.95:
            # a point 1e-4 from a vertex may legitimately belong to the neighbour when the straight lon/lat segment leaves the (curved) cell: check containment instead
            continue
        v = {"what": f"the {kind} point of cell {c:#x} (t={tt}) maps to {a} instead of the cell", "request": [f"cell_to_lonlat {c}", q], "impl": a, "model": m}
        run.violations.append(v)
    run.rule = ("cell -> reported centre -> lookup at the cell's own resolution, for every cell of resolution 0..%d and, for r up to 29, every face x quintant x patterned/random curve positions; "
                "plus interior points centre + t (corner - centre), t in {0.5, 0.9}; (t = 1-1e-4 points are exercised for correspondence only); "
                "non-trivial = distinct (cell of resolution >= 2, point) round trips that returned the cell" % rmax)
    run.samples = [{"request": lreq[i], "impl": limpl[i], "model": lmodel[i]} for i in rng.sample(range(len(lreq)), 6)]
    run.extra["branch_histogram"] = branches
    run.extra["exhaustive_up_to_resolution"] = rmax
    run.extra["tables_equal_reference"] = ref_tables
