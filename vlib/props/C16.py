"""C16 - the face projection is area-preserving at every point."""
import math
from .. import core, geo
from .C15 import cart

LEVEL = "proof"
TOL = 1e-4
D_EDGE = 0.6180339887498949


def sector(x, y):
    g = math.atan2(y, x)
    idx = int(math.floor(g / (math.pi / 5))) % 10
    seg = g / (2 * math.pi / 5)
    beta = (seg - round(seg)) * (2 * math.pi / 5)
    refl = math.hypot(x, y) * math.cos(beta) > D_EDGE
    return idx, refl


def _inside_convex(poly, x, y):
    """strictly inside a convex polygon given in either orientation; returns the smallest distance to an edge line (negative outside)"""
    n = len(poly)
    area = sum(poly[i][0] * poly[(i + 1) % n][1] - poly[(i + 1) % n][0] * poly[i][1] for i in range(n))
    sgn = 1.0 if area > 0 else -1.0
    best = 1e9
    for i in range(n):
        x1, y1 = poly[i]; x2, y2 = poly[(i + 1) % n]
        ex, ey = x2 - x1, y2 - y1
        L = math.hypot(ex, ey)
        if L == 0:
            continue
        best = min(best, sgn * (ex * (y - y1) - ey * (x - x1)) / L)
    return best


def corner_cell_probes(run, rng, face, count):
    from .. import spec
    # sphere points at the face corners and edge midpoints of every face, through the library's own inverse projection
    req = []
    n5 = len(face)
    pts2 = list(face) + [((face[i][0] + face[(i + 1) % n5][0]) / 2, (face[i][1] + face[(i + 1) % n5][1]) / 2) for i in range(n5)]
    for o in range(12):
        for (x, y) in pts2:
            req.append(f"dodeca_inverse {geo.hx(x * 0.999)} {geo.hx(y * 0.999)} {o}")
    inv = core.impl_only(run, req)
    tl = core.impl_only(run, [f"to_lonlat {a.split()[1]} {a.split()[2]}" for a in inv if a.startswith("ok ")])
    look = []
    for a in tl:
        t = a.split()
        if t[0] != "ok":
            continue
        lon, lat = geo.fx(t[1]), geo.fx(t[2])
        for r in (2, 3, 4, 5):
            s_ = math.degrees(math.sqrt(4 * math.pi / (60 * 4 ** (r - 1))))
            for dx, dy in ((0, 0), (0.5, 0.3), (-0.4, 0.5), (0.2, -0.6)):
                look.append(f"lonlat_to_cell {geo.hx(lon + dx * s_ / max(0.05, math.cos(math.radians(lat))))} {geo.hx(max(-89.9, min(89.9, lat + dy * s_)))} {r}")
    li = core.impl_only(run, look)
    cells = sorted({int(a.split()[1]) for a in li if a.startswith("ok ")})
    rng.shuffle(cells)
    cells = cells[: max(40, count)]
    rings = core.impl_only(run, [f"cell_to_boundary {c} 0 3" for c in cells])
    probes = []
    freq, fmeta = [], []
    for c, a in zip(cells, rings):
        ring = geo.parse_ring(a)
        d = spec.decode(c)
        if not ring or d is None:
            continue
        o = d[1] // 5
        fl = core.impl_only(run, [f"from_lonlat {geo.hx(lo)} {geo.hx(la)}" for lo, la in ring])
        fw = core.impl_only(run, [f"dodeca_forward {x.split()[1]} {x.split()[2]} {o}" for x in fl if x.startswith("ok ")])
        poly = [(geo.fx(x.split()[1]), geo.fx(x.split()[2])) for x in fw if x.startswith("ok ")]
        if len(poly) < 9:
            continue
        # the ring with 3 segments per edge is a slightly curved polygon: shrink towards its centroid to stay inside the cell
        cx = sum(p_[0] for p_ in poly) / len(poly); cy = sum(p_[1] for p_ in poly) / len(poly)
        diam = max(math.hypot(p_[0] - cx, p_[1] - cy) for p_ in poly)
        for _ in range(40):
            if len(probes) >= count:
                break
            i, j = rng.randrange(len(poly)), rng.randrange(len(poly))
            t, u = rng.random(), rng.uniform(0.15, 0.85)
            px = poly[i][0] + t * (poly[j][0] - poly[i][0]); py = poly[i][1] + t * (poly[j][1] - poly[i][1])
            x0 = cx + u * (px - cx); y0 = cy + u * (py - cy)
            size = diam * rng.uniform(0.01, 0.04)
            if _inside_convex(face, x0, y0) > -3 * size:
                continue            # not in the overhanging part
            a_ = rng.uniform(0, 2 * math.pi)
            tri = [(x0 + size * math.cos(a_ + k * 2 * math.pi / 3), y0 + size * math.sin(a_ + k * 2 * math.pi / 3)) for k in range(3)]
            secs = {sector(x, y) for x, y in tri + [(x0, y0)]}
            if len(secs) != 1:
                continue
            probes.append((tri, o, size, secs.pop()))
    return probes


SPECIAL = (0.5, 0.5, 0.5, 0.25, 0.75, 1.0 / 3.0, 2.0 / 3.0, 0.125, 0.2, 0.4, 0.6, 0.8, 0.9, 0.1)


def targeted_points(run, rng, count):
    """face points at which an INTERNAL parameter of the inverse projection - q, the position of the foot point on the far edge of the
    triangle, or t, the fraction of the way from the apex - takes a 'round' value (1/2 above all, 1/4, 1/3, ...) up to an offset of
    0 .. 1e-8: found by bisection against the model's own q(point), t(point) (`inverse_qt`, model only).  A special case keyed on such
    a value (a snap, a shortcut for the bisector) occupies a band of measure ~1e-9 of the face that no random probe ever meets."""
    tg = []
    for _ in range(count):
        o = rng.randrange(12)
        idx = rng.randrange(10)
        kind = rng.choice("qqt")
        v = rng.choice(SPECIAL) + rng.choice([0.0, 0.0, 1.0, -1.0]) * 10 ** rng.uniform(-13, -8)
        lo_g, hi_g = idx * math.pi / 5 + 1e-6, (idx + 1) * math.pi / 5 - 1e-6
        tg.append({"o": o, "kind": kind, "v": v, "g": rng.uniform(lo_g, hi_g), "rho": rng.uniform(0.05, 0.55), "lo": lo_g, "hi": hi_g})
    def ask(pts):
        out = core.run_driver([f"inverse_qt {geo.hx(r * math.cos(g))} {geo.hx(r * math.sin(g))} {o}" for (r, g, o) in pts])
        return [(geo.fx(a.split()[1]), geo.fx(a.split()[2])) if a.startswith("ok ") else (float("nan"), float("nan")) for a in out]
    # orientation of q along the angle in each target's sector
    ends = ask([(t["rho"], t["lo"], t["o"]) for t in tg] + [(t["rho"], t["hi"], t["o"]) for t in tg])
    for i, t in enumerate(tg):
        t["up"] = ends[len(tg) + i][0] > ends[i][0]
        if t["kind"] == "t":
            seg = t["g"] / (2 * math.pi / 5); beta = (seg - round(seg)) * (2 * math.pi / 5)
            t["lo"], t["hi"] = 1e-4, 0.999 * D_EDGE / math.cos(beta)
    for _ in range(64):
        mids = [0.5 * (t["lo"] + t["hi"]) for t in tg]
        vals = ask([(t["rho"], m, t["o"]) if t["kind"] == "q" else (m, t["g"], t["o"]) for t, m in zip(tg, mids)])
        for t, m, (q, tt) in zip(tg, mids, vals):
            cur = q if t["kind"] == "q" else tt
            below = cur < t["v"]
            if t["kind"] == "q" and not t["up"]:
                below = not below
            if below:
                t["lo"] = m
            else:
                t["hi"] = m
    pts = []
    for t in tg:
        m = 0.5 * (t["lo"] + t["hi"])
        r, g = (t["rho"], m) if t["kind"] == "q" else (m, t["g"])
        pts.append((r * math.cos(g), r * math.sin(g), t["o"], t["kind"], t["v"]))
    chk = ask([(math.hypot(x, y), math.atan2(y, x), o) for (x, y, o, _, _) in pts])
    good = [p for p, (q, tt) in zip(pts, chk) if abs((q if p[3] == "q" else tt) - p[4]) < 1e-9]
    return good


def run(run):
    rng = run.rng
    run.do_ties()
    quick = run.quick
    i0, _ = core.both(run, ["face_vertices"], "runtime-constants")
    face = [tuple(geo.fx(x) for x in p.split(",")) for p in i0[0][3:].split(";")]
    n5 = len(face)
    F = abs(sum(face[i][0] * face[(i + 1) % n5][1] - face[(i + 1) % n5][0] * face[i][1] for i in range(n5))) / 2
    K = 4 * math.pi / (12 * F)
    probes = []
    n = run.n(1500, 150000)
    while len(probes) < n:
        m = rng.random()
        size = 10 ** rng.uniform(-5, -3)
        if m < 0.08:
            # very close to the face centre (apex of all ten triangles): the radial part of the inverse runs through the small-angle
            # branch of safe_acos here; the probe is small compared with its distance from the centre
            rho = 10 ** rng.uniform(-10.0, -3.5); g = rng.uniform(-math.pi, math.pi)
            size = rho * rng.uniform(1 / 64, 1 / 6)
        elif m < 0.35:
            rho = D_EDGE * 1.3 * math.sqrt(rng.random()); g = rng.uniform(-math.pi, math.pi)
        elif m < 0.6:
            # both sides of an internal seam (multiples of 36 degrees)
            g = rng.randrange(10) * math.pi / 5 + rng.choice([1, -1]) * size * rng.uniform(3, 30) / 0.4
            rho = rng.uniform(0.05, 0.75)
        elif m < 0.8:
            # both sides of the face edge, incl. the reflected margin out to 1.3 * distance-to-edge
            g = rng.uniform(-math.pi, math.pi)
            seg = g / (2 * math.pi / 5); beta = (seg - round(seg)) * (2 * math.pi / 5)
            rho = (D_EDGE + rng.choice([1, -1]) * size * rng.uniform(3, 30) + rng.choice([0, 0, 0.1, 0.18]) * rng.random()) / math.cos(beta)
            if rng.random() < 0.4:
                # the corners of the strip beyond the edge: outside the mirror triangle, inside the strip
                lx_ = D_EDGE * rng.uniform(1.03, 1.28)
                ly_ = rng.choice([1, -1]) * D_EDGE * math.tan(math.pi / 5) * rng.uniform(0.55, 0.9)
                g0 = round(seg) * (2 * math.pi / 5)
                g = g0 + math.atan2(ly_, lx_); rho = math.hypot(lx_, ly_)
        elif m < 0.9:
            rho = rng.choice([1e-4, 1e-3, 1e-2]) + 10 * size; g = rng.uniform(-math.pi, math.pi)      # near the face centre (the chart has a cone point there)
        else:
            g = (2 * rng.randrange(5) + 1) * math.pi / 5 + rng.uniform(-0.02, 0.02); rho = 0.7639320225002103 - rng.uniform(3, 30) * size   # near a vertex
        x0, y0 = rho * math.cos(g), rho * math.sin(g)
        if math.hypot(x0, y0) > 1.32 * D_EDGE / max(0.3, math.cos(((g / (2 * math.pi / 5)) - round(g / (2 * math.pi / 5))) * (2 * math.pi / 5))):
            continue
        a = rng.uniform(0, 2 * math.pi)
        tri = [(x0 + size * math.cos(a + k * 2 * math.pi / 3 + (0.3 if k == 1 else 0)), y0 + size * math.sin(a + k * 2 * math.pi / 3 + (0.3 if k == 1 else 0))) for k in range(3)]
        secs = {sector(x, y) for x, y in tri + [(x0, y0)]}
        if len(secs) != 1:
            continue          # the probe triangle straddles a seam: excluded by the property
        if list(secs)[0][1]:
            # beyond the face edge the chart is the mirror image of the base triangle (edge midpoint, vertex, reflected centre):
            # stay inside it - points beyond the edge next to a pentagon vertex belong to another neighbour's chart
            okm = True
            for x, y in tri:
                g_ = math.atan2(y, x); sg = g_ / (2 * math.pi / 5); b_ = (sg - round(sg)) * (2 * math.pi / 5)
                lx, ly = math.hypot(x, y) * math.cos(b_), abs(math.hypot(x, y) * math.sin(b_))
                # measured on the reference tree: the chart beyond an edge is area-preserving on the whole strip between the
                # perpendiculars through the edge's two vertices (also outside the tapering mirror triangle, where the
                # inverse extrapolates the edge parameter q beyond [0, 1]) out to 1.3 x distance-to-edge; not beyond a vertex
                if not (ly < D_EDGE * math.tan(math.pi / 5) * 0.93 and lx < 1.3 * D_EDGE):
                    okm = False
            if not okm:
                continue
        # keep a margin to the seams so that rounding cannot move a vertex across
        probes.append((tri, rng.randrange(12), size, secs.pop()))
    # probes (tiny: 3e-9 .. 1e-6) centred on points where an internal parameter of the inverse takes a round value
    tpts = targeted_points(run, rng, run.n(60, 1200))
    run.extra["targeted_internal_parameter_points"] = len(tpts)
    for (x0, y0, o, kind, v) in tpts:
        size = 10 ** rng.uniform(-8.5, -6)
        a = rng.uniform(0, 2 * math.pi)
        tri = [(x0 + size * math.cos(a + k * 2 * math.pi / 3 + (0.3 if k == 1 else 0)), y0 + size * math.sin(a + k * 2 * math.pi / 3 + (0.3 if k == 1 else 0))) for k in range(3)]
        secs = {sector(x, y) for x, y in tri + [(x0, y0)]}
        if len(secs) == 1 and not list(secs)[0][1]:
            probes.append((tri, o, size, secs.pop()))
    # probes inside the part of real cells that hangs over a face edge or corner ("the margin beyond a face edge that cells
    # reach into"): cells around the 5 x 12 face corners and edge midpoints at r = 2..5, their rings pulled back into the
    # plane of their own face, probe triangles inside the overhanging part
    corner = corner_cell_probes(run, rng, face, 60 if quick else 1500)
    run.extra["probes_in_overhanging_parts_of_cells"] = len(corner)
    probes += corner

    def outline(tri, M):
        out = []
        for e in range(3):
            (xa, ya), (xb, yb) = tri[e], tri[(e + 1) % 3]
            for j in range(M):
                t = j / M
                out.append((xa + t * (xb - xa), ya + t * (yb - ya)))
        return out

    def measure(rs, tri):
        P = len(rs)
        vs = [cart(geo.fx(r.split()[1]), geo.fx(r.split()[2])) for r in rs]
        c = geo.unit((sum(v[0] for v in vs), sum(v[1] for v in vs), sum(v[2] for v in vs)))
        a0 = (0.0, 0.0, 1.0) if abs(c[2]) < 0.9 else (1.0, 0.0, 0.0)
        e1 = geo.unit(geo.cross(a0, c)); e2 = geo.cross(c, e1)
        pl = []
        for v in vs:
            d = (v[0] - vs[0][0], v[1] - vs[0][1], v[2] - vs[0][2])
            pl.append((geo.dot(d, e1), geo.dot(d, e2)))
        sph_area = abs(sum(pl[i][0] * pl[(i + 1) % P][1] - pl[(i + 1) % P][0] * pl[i][1] for i in range(P))) / 2
        (x1, y1), (x2, y2), (x3, y3) = tri
        pl_area = abs((x2 - x1) * (y3 - y1) - (x3 - x1) * (y2 - y1)) / 2
        return sph_area, pl_area, abs(sph_area - K * pl_area) / (K * pl_area)

    M = 12      # points per edge: the image of a straight edge is curved, so the image REGION is traced, not just its three corners
    reqs = []
    for tri, o, size, sec in probes:
        for (x, y) in outline(tri, M):
            reqs.append(f"dodeca_inverse {geo.hx(x)} {geo.hx(y)} {o}")
    impl, model = core.both(run, reqs, "dodeca_inverse", timeout=3000)
    treqs = [f"dodeca_inverse {geo.hx(x)} {geo.hx(y)} {o}" for (x, y, o, _, _) in tpts]
    if treqs:
        timpl, _ = core.both(run, treqs, "dodeca_inverse at round values of its internal parameters")
        # ... and locally one-to-one: two face points 1e-10 apart across the targeted value must not land on the same sphere point
        nreq = [f"dodeca_inverse {geo.hx(x * (1 + 1e-10) - y * 1e-10)} {geo.hx(y * (1 + 1e-10) + x * 1e-10)} {o}" for (x, y, o, _, _) in tpts]
        nimpl, _ = core.both(run, nreq, "dodeca_inverse next to round values", reorder=False)
        for q1, q2, a1, a2, tp in zip(treqs, nreq, timpl, nimpl, tpts):
            run.evaluations += 1
            if a1.startswith("ok ") and a1 == a2:
                run.violation(f"two different face points (1.4e-10 apart, where the inverse's internal parameter {tp[3]} is {tp[4]!r}) are sent to the same point of the sphere: the map collapses area there",
                              [q1, q2], a1)
    worst = 0.0
    hist = {}
    P = 3 * M
    again = []
    first = {}
    for k, (tri, o, size, sec) in enumerate(probes):
        run.evaluations += 1
        rs = impl[P * k: P * k + P]
        key = f"sector{sec[0]}{'R' if sec[1] else ''}"
        hist[key] = hist.get(key, 0) + 1
        if any(not r.startswith("ok ") for r in rs):
            run.violation("unprojecting a probe point failed", reqs[P * k: P * k + 3], str(rs[:3]))
            continue
        first[k] = measure(rs, tri)
        if 2e-5 < first[k][2] <= 1e-3:
            again.append(k)      # close to the limit: the 12-point outline may be too coarse; measure again with 60 points per edge
        # (a distortion above 1e-3 cannot come from the coarse outline and is NOT re-measured: the second measurement runs in a fresh
        # process, where a fault that depends on the order of the calls would not show again)
        run.nontrivial.add(k)
    M2 = 60
    areq = []
    for k in again:
        tri, o, size, sec = probes[k]
        for (x, y) in outline(tri, M2):
            areq.append(f"dodeca_inverse {geo.hx(x)} {geo.hx(y)} {o}")
    aimpl = core.impl_only(run, areq) if areq else []
    for j, k in enumerate(again):
        rs = aimpl[3 * M2 * j: 3 * M2 * (j + 1)]
        if all(r.startswith("ok ") for r in rs):
            first[k] = measure(rs, probes[k][0])
    for k, (sph_area, pl_area, rel) in first.items():
        tri, o, size, sec = probes[k]
        worst = max(worst, rel)
        if rel > TOL:
            run.violation(f"area distortion {rel:.3e}: spherical area {sph_area:.6e} vs planar area x 4pi/(12F) = {K * pl_area:.6e} (probe size {size:.1e}, sector {sec})",
                          reqs[P * k: P * k + 3], str(impl[P * k: P * k + 3]))
    run.rule = ("probe triangles (random orientation, size 1e-6..1e-3, not straddling a seam) in every sector of every face: 8% at 1e-10..3e-4 from the face centre with size 1/64..1/6 of that distance (small-angle branch of the inverse), 27% anywhere out to 1.3 x distance-to-edge, 25% on either side of the ten internal seams, "
                "20% on either side of the face edge incl. the reflected margin, 10% at the face centre, 10% at the pentagon vertices; spherical area of the unprojected outline (12 points per edge, 60 when the first measurement exceeds 2e-5; tangent-plane shoelace) vs planar area x 4*pi/(12*F); "
                "plus tiny probes (3e-9..1e-6) centred on face points where an internal parameter of the inverse (edge position q, radial fraction t) is within 0..1e-8 of 1/2, 1/4, 1/3, ... (found by bisection against the model), those points themselves through the correspondence, and a one-to-one test across them; "
                "plus probe triangles inside the overhanging parts (beyond a face edge or corner) of real cells of r = 2..5 around all face corners and edge midpoints; non-trivial = distinct probes measured")
    run.samples = [{"request": reqs[3 * M * k], "impl": impl[3 * M * k]} for k in rng.sample(range(len(probes)), 4)]
    run.extra["worst_relative_distortion"] = worst
    run.extra["probes_remeasured_finely"] = len(again)
    run.extra["face_area"] = F
    run.extra["probes_per_sector"] = hist
