"""C06 - cell IDs keep denoting the same place as in the reference release (v0.6.2)."""
import gzip, os, struct
from .. import core, spec

LEVEL = "proof"
GOLDEN = os.path.join(core.VERIF, "golden", "v0.6.2.txt.gz")
TOL_DEG = 1e-9


def unhx(s):
    return struct.unpack("<d", struct.pack("<Q", int(s, 16)))[0]


def fx(tok):
    """'x<16 hex>' -> float"""
    return float("nan") if tok == "xnan" else unhx(tok[1:])


def load():
    C, L = [], []
    with gzip.open(GOLDEN, "rt") as f:
        for line in f:
            if line.startswith("C "):
                C.append(line.split())
            elif line.startswith("L "):
                L.append(line.split())
    return C, L


def dlon(a, b):
    d = (a - b) % 360.0
    return min(d, 360.0 - d)


def near_pole(lat):
    return abs(abs(lat) - 90.0) < 1e-6


def lat_tol(glat):
    """tolerance on a latitude of the golden table: 1e-9 degrees, widened by the reference release's OWN rounding uncertainty next
    to the poles.  The reference computed the polar angle as acos(z/r), whose result carries an error of up to ~3.3e-16/colatitude
    radians (two roundings of a value next to 1) = 1.08e-12/colatitude_in_degrees degrees; a golden latitude is only known to that
    accuracy (defect F14, repaired by fix e88aa12: the current tree is the more accurate one there).  Exactly +-90 in the table
    means 'colatitude below resolution': only |lat| > 89.99 is required."""
    colat = 90.0 - abs(glat)
    if colat <= 0.0:
        return 0.01
    return TOL_DEG + 1.08e-12 / colat


def check_centre(t, resp):
    if not resp.startswith("ok "):
        return f"cell_to_lonlat failed: {resp}"
    a = resp.split()
    lon, lat = fx(a[1]), fx(a[2])
    glon, glat = unhx(t[2]), unhx(t[3])
    if abs(lat - glat) > lat_tol(glat) or (dlon(lon, glon) > TOL_DEG and not near_pole(glat)):
        return f"centre moved: reference ({glon!r},{glat!r}) now ({lon!r},{lat!r})"
    return None


def check_corners(t, resp):
    if not resp.startswith("ok "):
        return f"cell_to_boundary failed: {resp}"
    pts = [tuple(fx(x) for x in p.split(",")) for p in resp[3:].split(";")]
    gold = [tuple(unhx(x) for x in p.split(",")) for p in t[4].split(";")]
    if len(pts) != len(gold):
        return f"number of corners changed: {len(gold)} -> {len(pts)}"
    for (lon, lat), (glon, glat) in zip(pts, gold):
        if abs(lat - glat) > lat_tol(glat) or (dlon(lon, glon) > TOL_DEG and not near_pole(glat)):
            return f"corner moved: reference ({glon!r},{glat!r}) now ({lon!r},{lat!r})"
    return None


def run(run):
    rng = run.rng
    ok = run.do_ties()
    quick = run.quick
    C, L = load()
    if quick and ok:
        # stratified subset: every face x quintant x resolution is still hit by the C rows kept
        Cs = [c for i, c in enumerate(C) if i % 6 == run.seed % 6][:2500]
        Ls = rng.sample(L, 6000)
    else:
        Cs, Ls = C, L   # thorough, or a tie is broken: replay the whole table to look for a failing input
    reqs = []
    for t in Cs:
        reqs.append(f"cell_to_lonlat {t[1]}")
        reqs.append(f"cell_to_boundary {t[1]} 0 1")
    nC = len(reqs)
    for t in Ls:
        reqs.append(f"lonlat_to_cell x{t[1]} x{t[2]} {t[3]}")
    impl, model = core.both(run, reqs, "golden-requests")
    # oracle: the frozen table
    changed_wrong_rows = []
    for i, t in enumerate(Cs):
        run.evaluations += 2
        m = check_centre(t, impl[2 * i])
        if m:
            run.violation(m, reqs[2 * i], impl[2 * i], {"reference": t[2:4]})
        m = check_corners(t, impl[2 * i + 1])
        if m:
            run.violation(m, reqs[2 * i + 1], impl[2 * i + 1][:300], {"reference": t[4]})
        run.nontrivial.add(("C", t[1]))
    per_res = {}
    for j, t in enumerate(Ls):
        run.evaluations += 1
        q, a = reqs[nC + j], impl[nC + j]
        gid, contained, stable = t[4], t[5] == "1", t[6] == "1"
        per_res[t[3]] = per_res.get(t[3], 0) + 1
        if gid == "none":
            continue
        if contained and stable:
            got = a.split()[1] if a.startswith("ok ") else None
            if got != gid:
                run.violation(f"lookup changed: reference release returned {int(gid):#x}, current tree returns {a}", q, a, {"reference_id": gid})
            else:
                run.nontrivial.add(("L", t[1], t[2], t[3]))
        elif not contained and a.startswith("ok ") and a.split()[1] != gid:
            changed_wrong_rows.append((q, a.split()[1]))
    # rows where the reference was wrong may change, but only to an answer that contains the point
    if changed_wrong_rows:
        creq = [f"contains {cid} {q.split()[1]} {q.split()[2]}" for q, cid in changed_wrong_rows]
        cres = core.impl_only(run, creq)
        for (q, cid), r in zip(changed_wrong_rows, cres):
            run.evaluations += 1
            if not (r.startswith("ok ") and fx(r.split()[1]) > 0.0):
                run.violation("a lookup that was wrong in the reference changed to another wrong answer", q, f"{cid} / {r}")
    run.rule = ("replay of the frozen golden table generated from the reference release (git d731376): id -> centre + corners for %d cells covering every "
                "face x quintant x resolution, and (lon,lat,res) -> id for %d points (cell centres, interior points, uniform, polar caps, antimeridian, poles x all resolutions); "
                "ids compared where the reference contained the point and was stable under 1e-9 degree perturbation; non-trivial = distinct rows that were compared and agreed"
                % (len(Cs), len(Ls)))
    run.samples = [{"request": reqs[i], "impl": impl[i][:200], "model": model[i][:200]} for i in rng.sample(range(len(reqs)), 6)]
    run.extra["lookups_per_resolution"] = per_res
    run.extra["golden_rows_total"] = {"cells": len(C), "lookups": len(L)}
    run.extra["reference_wrong_rows_that_changed"] = len(changed_wrong_rows)
