"""C01 - point lookup returns a cell of the requested resolution that contains the point."""
import math, os, re
from .. import core, gen, spec, geo

LEVEL = "proof"
# (the polar-cap finding F11 was repaired by fix 24ee3fd: every miss is a violation)


def tables_are_reference():
    """the known finding F11 is only recognised while the regenerated tables (probe count, probe scale, ...) are the reference's"""
    g = open(os.path.join(core.LEAN, "A5", "Gen", "Tables.lean")).read()
    r = open(os.path.join(core.LEAN, "A5", "Ref", "Tables.lean")).read()
    body = lambda s: re.sub(r"A5\.(Gen|Ref)", "A5.X", s[s.index("namespace"):])
    return body(g) == body(r)


def cell_size(res):
    return math.sqrt(4 * math.pi / (12 if res == 0 else 60 * 4 ** (res - 1)))


def points(rng, n, impl_rings):
    pts = []
    for _ in range(n):
        m = rng.random()
        if m < 0.30:
            z = rng.uniform(-1, 1)
            pts.append(("uniform", rng.uniform(-180, 180), math.degrees(math.asin(z))))
        elif m < 0.45:
            k = rng.random()
            lat = 90.0 if k < 0.1 else (90 - rng.uniform(0, 1e-6) if k < 0.3 else (90 - rng.uniform(0, 0.1) if k < 0.6 else 90 - rng.uniform(0.1, 10)))
            pts.append(("polar", rng.uniform(-540, 540), lat * rng.choice([1, -1])))
        elif m < 0.75 and impl_rings:
            # on / next to an edge or vertex of a coarse cell (dodecahedron edges, vertices, quintant borders)
            ring = rng.choice(impl_rings)
            i = rng.randrange(len(ring) - 1)
            t = rng.choice([0.0, 0.5, rng.random()])
            lon = ring[i][0] + t * (ring[i + 1][0] - ring[i][0])
            lat = ring[i][1] + t * (ring[i + 1][1] - ring[i][1])
            e = rng.choice([0.0, 1e-12, 1e-9, 1e-6, 1e-3]) * rng.choice([1, -1])
            pts.append(("seam", lon + e, max(-90.0, min(90.0, lat + e * rng.choice([1, -1, 0])))))
        elif m < 0.87:
            pts.append(("antimeridian", rng.choice([180.0, -180.0, 179.999999999, -179.999999999, 180.0 + 1e-9]), rng.uniform(-85, 85)))
        else:
            pts.append(("lon-wrap", rng.uniform(-180, 180) + 360.0 * rng.choice([-2, -1, 1, 2]), rng.uniform(-89, 89)))
    return pts


def run(run):
    rng = run.rng
    run.do_ties()
    quick = run.quick
    ref_tables = tables_are_reference()
    # rings of the coarse cells (for the seam generator)
    coarse = [spec.encode(0, f, ()) for f in range(12)] + [spec.encode(1, T, ()) for T in range(60)]
    cr = core.impl_only(run, [f"cell_to_boundary {c} 1 6" for c in coarse])
    rings = [geo.parse_ring(a) for a in cr if geo.parse_ring(a)]
    n = run.n(700, 40000)
    pts = points(rng, n, rings)
    reqs, meta = [], []
    for kind, lon, lat in pts:
        r = rng.randint(0, 29)
        reqs.append(f"lonlat_to_cell {geo.hx(lon)} {geo.hx(lat)} {r}")
        meta.append((kind, lon, lat, r))
    # second family: points derived from a random cell: its vertices / edge midpoints pulled slightly inside
    cells = [gen.rand_cell(rng, rng.randint(0, 29)) for _ in range(run.n(150, 8000))]
    br = core.impl_only(run, [f"cell_to_boundary {c} 0 2" for c in cells])
    cl = core.impl_only(run, [f"cell_to_lonlat {c}" for c in cells])
    for c, b, ce in zip(cells, br, cl):
        ring = geo.parse_ring(b)
        if not ring or not ce.startswith("ok "):
            continue
        clon, clat = geo.fx(ce.split()[1]), geo.fx(ce.split()[2])
        res = spec.decode(c)[0]
        for (vlon, vlat) in rng.sample(ring, 2):
            if abs(vlon - clon) > 90 or abs(clat) > 88:
                continue
            t = 1 - rng.choice([1e-2, 1e-4, 1e-6, 0.5])
            lon, lat = clon + t * (vlon - clon), clat + t * (vlat - clat)
            reqs.append(f"lonlat_to_cell {geo.hx(lon)} {geo.hx(lat)} {res}")
            meta.append(("hug-edge", lon, lat, res))
    # third family: EVERY vertex and edge midpoint of every cell of resolutions 2 and 3 (and of a sample of resolution 4), looked up at the
    # cell's own resolution and one finer: exact tie points of the lattice, where the lookup runs deepest into its probe sequence
    sweep = list(gen.all_cells(2)) + list(gen.all_cells(3))
    r4 = list(gen.all_cells(4))
    sweep += r4 if not quick else rng.sample(r4, 3000)
    sb = core.impl_only(run, [f"cell_to_boundary {c} 0 2" for c in sweep])
    seen_pts = set()
    for c, b in zip(sweep, sb):
        ring = geo.parse_ring(b)
        if not ring:
            continue
        res = spec.decode(c)[0]
        for (vlon, vlat) in ring:
            if (vlon, vlat, res) in seen_pts:
                continue
            seen_pts.add((vlon, vlat, res))
            reqs.append(f"lonlat_to_cell {geo.hx(vlon)} {geo.hx(vlat)} {res}")
            meta.append(("lattice-point", vlon, vlat, res))
            if rng.random() < 0.15:
                reqs.append(f"lonlat_to_cell {geo.hx(vlon)} {geo.hx(vlat)} {res + 1}")
                meta.append(("lattice-point", vlon, vlat, res + 1))
    # fourth family: hard-case mining.  The harness itself draws 6*10^6 (quick) / 3*10^8 (thorough) uniform points (16 processes, ~7 us per
    # lookup) and hands back only the lookups that ended in the fallback or needed >= 5 distinct estimates; those go through the model and
    # the oracle like every other request.  A random point never reaches the fallback on the reference tree (only tie points do), so a
    # change that sends a sliver of ordinary points there shows up here even when the sliver has measure 1e-7.
    import subprocess
    exe = core.harness(run, "release")
    per = run.n(400000, 20000000) if quick else 20000000
    import tempfile
    tmpd = tempfile.mkdtemp(prefix="a5mine-")
    procs = []
    for k in range(16):
        fo = open(f"{tmpd}/{k}.txt", "w")
        procs.append((subprocess.Popen([exe, "mine", str(run.seed * 1000 + k), str(per), "2", "29", "5"], stdout=fo), fo))
    fallbacks, hard, mhist = [], [], {}
    for k, (pr, fo) in enumerate(procs):
        pr.wait()
        fo.close()
        for line in open(f"{tmpd}/{k}.txt"):
            line = line.rstrip("\n")
            if line.startswith("F "):
                fallbacks.append(line[2:])
            elif line.startswith("H "):
                hard.append(line[2:])
            elif line.startswith("# branches"):
                for tok in line.split()[2:]:
                    k_, v_ = tok.rsplit(":", 1)
                    mhist[k_] = mhist.get(k_, 0) + int(v_)
    import shutil
    shutil.rmtree(tmpd, ignore_errors=True)
    run.extra["mined_points_drawn"] = 16 * per
    run.extra["mined_branch_histogram"] = mhist
    run.extra["mined_fallbacks"] = len(fallbacks)
    run.extra["mined_hard_cases"] = len(hard)
    # every lookup of a random point that ended in the fallback, and a sample of those that needed many estimates
    mined = fallbacks[:20000] + (hard if len(hard) <= 6000 else rng.sample(hard, 6000))
    for line in mined:
        t = line.split()
        reqs.append(line)
        meta.append(("mined", geo.fx(t[1]), geo.fx(t[2]), int(t[3])))
    n_dis0 = len(run.corr_disagreements)
    impl, model = core.both(run, reqs, "lonlat_to_cell")
    # where implementation and model part ways, the property itself is examined around that input: 400 points at log-uniform
    # distances (1e-9 .. 1 cell size) from each of the first disagreeing lookups, same resolution, judged by the same oracle
    around = []
    for d in run.corr_disagreements[n_dis0:]:
        t = d["request"].split()
        if t[0] != "lonlat_to_cell" or len(around) >= 12:
            continue
        lon0, lat0, r0 = geo.fx(t[1]), geo.fx(t[2]), int(t[3])
        if not (lon0 == lon0 and lat0 == lat0) or abs(lat0) > 89.0 or not 0 <= r0 <= 29:
            continue
        around.append((lon0, lat0, r0))
    for (lon0, lat0, r0) in around:
        sz = math.degrees(cell_size(r0))
        for _ in range(400):
            rad = sz * 10 ** rng.uniform(-9, 0)
            ang = rng.uniform(0, 2 * math.pi)
            lon, lat = lon0 + rad * math.cos(ang) / max(0.02, math.cos(math.radians(lat0))), max(-90.0, min(90.0, lat0 + rad * math.sin(ang)))
            reqs.append(f"lonlat_to_cell {geo.hx(lon)} {geo.hx(lat)} {r0}")
            meta.append(("around-disagreement", lon, lat, r0))
    if around:
        more = core.impl_only(run, reqs[len(impl):])
        mmore = core.run_driver(reqs[len(impl):])
        impl = impl + more
        model = model + mmore
        run.extra["points_searched_around_disagreements"] = len(more)
    # oracle: the returned cell's reported boundary must contain the point (independent spherical winding test)
    breq, idx = [], []
    for i, ((kind, lon, lat, r), a) in enumerate(zip(meta, impl)):
        run.evaluations += 1
        t = a.split()
        if t[0] != "ok":
            run.violation(f"lookup failed at a supported resolution: {a}", reqs[i], a)
            continue
        cid = int(t[1])
        d = spec.decode(cid)
        if d is None or d[0] != r:
            run.violation(f"lookup at resolution {r} returned {cid:#x}, which is not a canonical id of that resolution", reqs[i], a)
            continue
        breq.append(f"cell_to_boundary {cid} 1 {16 if r > 2 else 48}")
        idx.append(i)
    bimpl = core.impl_only(run, breq)
    branches = {}
    misses = []
    for i, q, b in zip(idx, breq, bimpl):
        kind, lon, lat, r = meta[i]
        t = impl[i].split()
        br_ = t[2] if len(t) > 2 else "?"
        branches[br_ if br_ in ("-1", "-2", "0") else "probe"] = branches.get(br_ if br_ in ("-1", "-2", "0") else "probe", 0) + 1
        ring = geo.parse_ring(b)
        if ring is None:
            run.violation("boundary of the returned cell could not be computed", q, b[:100])
            continue
        inside, dist = geo.winding_contains(ring, lon, lat)
        size = cell_size(r)
        band = max(1e-12, 2e-3 * size)     # the ring is a 16-segment polyline approximation of curved edges: no verdict inside this band
        if dist < band:
            continue
        if br_ != "0":
            run.nontrivial.add(reqs[i])
        if not inside:
            misses.append((i, dist / size, br_))
    for i, rel, br_ in misses:
        kind, lon, lat, r = meta[i]
        mt = model[i].split()
        v = {"what": f"the returned cell does not contain the point (distance {rel:.3g} cell sizes outside; answer produced by the {'fallback' if br_ == '-1' else 'branch ' + br_}; point class {kind})",
             "request": reqs[i], "impl": impl[i], "model": model[i]}
        run.violations.append(v)
    # longitudes differing by a multiple of 360 give a cell containing the same point; every longitude at a pole gives a cell containing the pole
    wreq, wmeta = [], []
    for _ in range(run.n(60, 3000)):
        lon, lat, r = rng.uniform(-180, 180), rng.uniform(-89.9, 89.9), rng.randint(0, 29)
        k = rng.choice([-2, -1, 1, 2])
        wreq += [f"lonlat_to_cell {geo.hx(lon)} {geo.hx(lat)} {r}", f"lonlat_to_cell {geo.hx(lon + 360.0 * k)} {geo.hx(lat)} {r}"]
        wmeta.append((lon, lat, r, k))
    wi, wm = core.both(run, wreq, "lon-periodicity")
    creq, cmeta = [], []
    for j, (lon, lat, r, k) in enumerate(wmeta):
        a, b = wi[2 * j].split(), wi[2 * j + 1].split()
        run.evaluations += 1
        if a[0] == "ok" and b[0] == "ok" and a[1] != b[1]:
            # different ids are allowed only if the second cell also contains the point
            creq.append(f"contains {b[1]} {geo.hx(lon)} {geo.hx(lat)}"); cmeta.append((wreq[2 * j + 1], b[1]))
    if creq:
        ci = core.impl_only(run, creq)
        for (q, cid), r_ in zip(cmeta, ci):
            if not (r_.startswith("ok ") and geo.fx(r_.split()[1]) > 0):
                run.violation("a longitude shifted by a multiple of 360 degrees gives a cell that does not contain the point", q, cid)
    run.rule = ("points: 30% uniform, 15% polar caps (to the pole itself), 30% on / within 1e-12..1e-3 degrees of edges and vertices of base cells and quintants (dodecahedron seams, vertices, quintant borders), "
                "12% antimeridian, 13% longitudes wrapped by multiples of 360, plus points hugging vertices / edge midpoints of random cells from inside (1e-2..1e-6 relative) x random resolutions 0..29, plus every vertex and edge midpoint of every cell of resolutions 2, 3 (and 4: sample in the quick tier) at its own resolution; "
                "plus hard-case mining: the harness draws 6.4e6 (quick) / 3.2e8 (thorough) uniform points x resolutions 2..29 and returns the lookups that ended in the fallback or needed >= 5 distinct estimates, which are then judged by model and oracle; "
                "when implementation and model disagree on a lookup, 400 points at log-uniform distances around it are judged by the oracle (the search for a concrete failing input); "
                "oracle = spherical winding test against the returned cell's own reported boundary (independent of contains_point), no verdict within 0.2% of a cell size of the ring; "
                "non-trivial = distinct decided lookups that needed a probe or the fallback")
    run.samples = [{"request": reqs[i], "impl": impl[i], "model": model[i]} for i in rng.sample(range(len(reqs)), 6)]
    run.extra["branch_histogram"] = branches
    run.extra["misses"] = len(misses)
    run.extra["misses_by_class"] = {k: sum(1 for i, _, _ in misses if meta[i][0] == k) for k in set(m[0] for m in meta)}
    run.extra["tables_equal_reference"] = ref_tables
