"""C01 - point lookup returns a cell of the requested resolution that contains the point."""
import math, os, re
from .. import core, gen, spec, geo

LEVEL = "proof"
# (the polar-cap finding F11 was repaired by fix 24ee3fd: every miss is a violation)


def tables_are_reference():
    """the known finding F11 is only recognised while the regenerated tables (probe count, probe scale, ...) are the reference's"""
    g = open(os.path.join(core.LEAN, "A5", "Gen", "Tables.lean")).read()
    r = open(os.path.join(core.LEAN, "A5", "Ref", "Tables.lean")).read()
    body = lambda s: re.sub(r"A5\.(Gen|Ref)", "A5.X", s[s.index("namespace"):])
    return body(g) == body(r)


def cell_size(res):
    return math.sqrt(4 * math.pi / (12 if res == 0 else 60 * 4 ** (res - 1)))


def points(rng, n, impl_rings):
    pts = []
    for _ in range(n):
        m = rng.random()
        if m < 0.30:
            z = rng.uniform(-1, 1)
            pts.append(("uniform", rng.uniform(-180, 180), math.degrees(math.asin(z))))
        elif m < 0.45:
            k = rng.random()
            lat = 90.0 if k < 0.1 else (90 - rng.uniform(0, 1e-6) if k < 0.3 else (90 - rng.uniform(0, 0.1) if k < 0.6 else 90 - rng.uniform(0.1, 10)))
            pts.append(("polar", rng.uniform(-540, 540), lat * rng.choice([1, -1])))
        elif m < 0.75 and impl_rings:
            # on / next to an edge or vertex of a coarse cell (dodecahedron edges, vertices, quintant borders)
            ring = rng.choice(impl_rings)
            i = rng.randrange(len(ring) - 1)
            t = rng.choice([0.0, 0.5, rng.random()])
            lon = ring[i][0] + t * (ring[i + 1][0] - ring[i][0])
            lat = ring[i][1] + t * (ring[i + 1][1] - ring[i][1])
            e = rng.choice([0.0, 1e-12, 1e-9, 1e-6, 1e-3]) * rng.choice([1, -1])
            pts.append(("seam", lon + e, max(-90.0, min(90.0, lat + e * rng.choice([1, -1, 0])))))
        elif m < 0.87:
            pts.append(("antimeridian", rng.choice([180.0, -180.0, 179.999999999, -179.999999999, 180.0 + 1e-9]), rng.uniform(-85, 85)))
        else:
            pts.append(("lon-wrap", rng.uniform(-180, 180) + 360.0 * rng.choice([-2, -1, 1, 2]), rng.uniform(-89, 89)))
    return pts


def run(run):
    rng = run.rng
    run.do_ties()
    quick = run.quick
    ref_tables = tables_are_reference()
    # rings of the coarse cells (for the seam generator)
    coarse = [spec.encode(0, f, ()) for f in range(12)] + [spec.encode(1, T, ()) for T in range(60)]
    cr = core.impl_only(run, [f"cell_to_boundary {c} 1 6" for c in coarse])
    rings = [geo.parse_ring(a) for a in cr if geo.parse_ring(a)]
    n = run.n(700, 40000)
    pts = points(rng, n, rings)
    reqs, meta = [], []
    for kind, lon, lat in pts:
        r = rng.randint(0, 29)
        reqs.append(f"lonlat_to_cell {geo.hx(lon)} {geo.hx(lat)} {r}")
        meta.append((kind, lon, lat, r))
    # second family: points derived from a random cell: its vertices / edge midpoints pulled slightly inside
    cells = [gen.rand_cell(rng, rng.randint(0, 29)) for _ in range(run.n(150, 8000))]
    br = core.impl_only(run, [f"cell_to_boundary {c} 0 2" for c in cells])
    cl = core.impl_only(run, [f"cell_to_lonlat {c}" for c in cells])
    for c, b, ce in zip(cells, br, cl):
        ring = geo.parse_ring(b)
        if not ring or not ce.startswith("ok "):
            continue
        clon, clat = geo.fx(ce.split()[1]), geo.fx(ce.split()[2])
        res = spec.decode(c)[0]
        for (vlon, vlat) in rng.sample(ring, 2):
            if abs(vlon - clon) > 90 or abs(clat) > 88:
                continue
            t = 1 - rng.choice([1e-2, 1e-4, 1e-6, 0.5])
            lon, lat = clon + t * (vlon - clon), clat + t * (vlat - clat)
            reqs.append(f"lonlat_to_cell {geo.hx(lon)} {geo.hx(lat)} {res}")
            meta.append(("hug-edge", lon, lat, res))
    impl, model = core.both(run, reqs, "lonlat_to_cell")
    # oracle: the returned cell's reported boundary must contain the point (independent spherical winding test)
    breq, idx = [], []
    for i, ((kind, lon, lat, r), a) in enumerate(zip(meta, impl)):
        run.evaluations += 1
        t = a.split()
        if t[0] != "ok":
            run.violation(f"lookup failed at a supported resolution: {a}", reqs[i], a)
            continue
        cid = int(t[1])
        d = spec.decode(cid)
        if d is None or d[0] != r:
            run.violation(f"lookup at resolution {r} returned {cid:#x}, which is not a canonical id of that resolution", reqs[i], a)
            continue
        breq.append(f"cell_to_boundary {cid} 1 {16 if r > 2 else 48}")
        idx.append(i)
    bimpl = core.impl_only(run, breq)
    branches = {}
    misses = []
    for i, q, b in zip(idx, breq, bimpl):
        kind, lon, lat, r = meta[i]
        t = impl[i].split()
        br_ = t[2] if len(t) > 2 else "?"
        branches[br_ if br_ in ("-1", "-2", "0") else "probe"] = branches.get(br_ if br_ in ("-1", "-2", "0") else "probe", 0) + 1
        ring = geo.parse_ring(b)
        if ring is None:
            run.violation("boundary of the returned cell could not be computed", q, b[:100])
            continue
        inside, dist = geo.winding_contains(ring, lon, lat)
        size = cell_size(r)
        band = max(1e-12, 2e-3 * size)     # the ring is a 16-segment polyline approximation of curved edges: no verdict inside this band
        if dist < band:
            continue
        if br_ != "0":
            run.nontrivial.add(reqs[i])
        if not inside:
            misses.append((i, dist / size, br_))
    for i, rel, br_ in misses:
        kind, lon, lat, r = meta[i]
        mt = model[i].split()
        v = {"what": f"the returned cell does not contain the point (distance {rel:.3g} cell sizes outside; answer produced by the {'fallback' if br_ == '-1' else 'branch ' + br_}; point class {kind})",
             "request": reqs[i], "impl": impl[i], "model": model[i]}
        run.violations.append(v)
    # longitudes differing by a multiple of 360 give a cell containing the same point; every longitude at a pole gives a cell containing the pole
    wreq, wmeta = [], []
    for _ in range(run.n(60, 3000)):
        lon, lat, r = rng.uniform(-180, 180), rng.uniform(-89.9, 89.9), rng.randint(0, 29)
        k = rng.choice([-2, -1, 1, 2])
        wreq += [f"lonlat_to_cell {geo.hx(lon)} {geo.hx(lat)} {r}", f"lonlat_to_cell {geo.hx(lon + 360.0 * k)} {geo.hx(lat)} {r}"]
        wmeta.append((lon, lat, r, k))
    wi, wm = core.both(run, wreq, "lon-periodicity")
    creq, cmeta = [], []
    for j, (lon, lat, r, k) in enumerate(wmeta):
        a, b = wi[2 * j].split(), wi[2 * j + 1].split()
        run.evaluations += 1
        if a[0] == "ok" and b[0] == "ok" and a[1] != b[1]:
            # different ids are allowed only if the second cell also contains the point
            creq.append(f"contains {b[1]} {geo.hx(lon)} {geo.hx(lat)}"); cmeta.append((wreq[2 * j + 1], b[1]))
    if creq:
        ci = core.impl_only(run, creq)
        for (q, cid), r_ in zip(cmeta, ci):
            if not (r_.startswith("ok ") and geo.fx(r_.split()[1]) > 0):
                run.violation("a longitude shifted by a multiple of 360 degrees gives a cell that does not contain the point", q, cid)
    run.rule = ("points: 30% uniform, 15% polar caps (to the pole itself), 30% on / within 1e-12..1e-3 degrees of edges and vertices of base cells and quintants (dodecahedron seams, vertices, quintant borders), "
                "12% antimeridian, 13% longitudes wrapped by multiples of 360, plus points hugging vertices / edge midpoints of random cells from inside (1e-2..1e-6 relative) x random resolutions 0..29; "
                "oracle = spherical winding test against the returned cell's own reported boundary (independent of contains_point), no verdict within 0.2% of a cell size of the ring; "
                "non-trivial = distinct decided lookups that needed a probe or the fallback")
    run.samples = [{"request": reqs[i], "impl": impl[i], "model": model[i]} for i in rng.sample(range(len(reqs)), 6)]
    run.extra["branch_histogram"] = branches
    run.extra["misses"] = len(misses)
    run.extra["misses_by_class"] = {k: sum(1 for i, _, _ in misses if meta[i][0] == k) for k in set(m[0] for m in meta)}
    run.extra["tables_equal_reference"] = ref_tables
