"""C13 - every call is a pure function of its arguments: no history or thread effects."""
import math, struct, subprocess
from .. import core, gen, spec

LEVEL = "proof"
TRUSTED_EXTRA = ["Rust runtime: thread_local!, OnceLock/LazyLock/lazy_static initialise once and are data-race free (assumed; exercised by the concurrent runs, not proved)",
                 "the &'static mut handed out by get_thread_local is never aliased across calls in a way that changes results (assumed; Lean cannot observe Rust's memory model)"]


def hx(x):
    return "x" + format(struct.unpack("<Q", struct.pack("<d", x))[0], "016x")


def rand_point(rng):
    z = rng.uniform(-1, 1)
    return rng.uniform(-180, 180), math.degrees(math.asin(z))


def proj_call(rng, slot=None):
    """a projection call as history item; `slot` = (origin, idx, reflected) to aim at"""
    if slot is None:
        if rng.random() < 0.5:
            theta, phi = rng.uniform(-math.pi, math.pi), math.acos(rng.uniform(-1, 1))
            return f"dodeca_forward,{hx(theta)},{hx(phi)},{rng.randrange(12)}"
        slot = (rng.randrange(12), rng.randrange(10), rng.random() < 0.3)
    o, idx, refl = slot
    gamma = (idx + rng.uniform(0.1, 0.9)) * math.pi / 5.0
    if gamma > math.pi:
        gamma -= 2 * math.pi
    rho = rng.uniform(0.70, 0.85) if refl else rng.uniform(0.05, 0.55)
    return f"dodeca_inverse,{hx(rho * math.cos(gamma))},{hx(rho * math.sin(gamma))},{o}"


def api_call(rng):
    m = rng.random()
    if m < 0.35:
        lon, lat = rand_point(rng)
        return f"lonlat_to_cell,{hx(lon)},{hx(lat)},{rng.randint(0, 29)}"
    c = gen.rand_cell(rng, lo=0)
    if m < 0.6:
        return f"cell_to_lonlat,{c}"
    if m < 0.8:
        return f"cell_to_boundary,{c},{rng.randint(0, 1)},{rng.choice(['none', '1', '2', '3'])}"
    if m < 0.9:
        lon, lat = rand_point(rng)
        return f"contains,{c},{hx(lon)},{hx(lat)}"
    return rng.choice([f"cell_to_parent,{c},none", f"cell_to_children,{c},none", f"get_resolution,{c}", f"compact,{c}", f"u64_to_hex,{c}"])


def related_calls(rng, call):
    """calls that differ from `call` in exactly one component of its arguments (another face, another quintant, one curve digit,
    one resolution level, a nudged coordinate, another option): a stale cache keyed by a subset of the arguments shows up when
    such a call precedes the real one"""
    t = call.split(",")
    op = t[0]
    out = []
    if op in ("cell_to_lonlat", "cell_to_boundary", "contains"):
        c = int(t[1])
        res, T, dg = spec.decode(c)
        alts = []
        if res >= 1:
            f, k = divmod(T, 5)
            alts.append(spec.encode(res, 5 * ((f + rng.randint(1, 11)) % 12) + k, dg))          # same quintant code + digits, other face
            alts.append(spec.encode(res, 5 * f + (k + rng.randint(1, 4)) % 5, dg))              # other quintant
            for f2 in range(12):                                                                 # same reported segment on every other face
                if f2 != f and rng.random() < 0.4:
                    alts.append(spec.encode(res, 5 * f2 + rng.randrange(5), dg))
        elif res == 0:
            alts.append(spec.encode(0, (T + rng.randint(1, 11)) % 12, ()))
        if res >= 2:
            # one curve digit changed - each value of the leading digit (the bits a packed cache key loses first), the second and a random
            # one -, the same curve position one level deeper / shallower
            alts += core._id_neighbours(c, rng)
            alts.append(spec.encode(res - 1, T, dg[:-1]))
        if 1 <= res <= 28:
            alts.append(spec.encode(res + 1, T, dg + (rng.randrange(4),)))
        for a in alts:
            out.append(",".join([op, str(a)] + t[2:]))
        if op == "cell_to_boundary":
            out.append(",".join([op, t[1], "1" if t[2] == "0" else "0", t[3]]))
            out.append(",".join([op, t[1], t[2], "3" if t[3] != "3" else "none"]))
        out.append(("cell_to_boundary," + t[1] + ",1,none") if op == "cell_to_lonlat" else ("cell_to_lonlat," + t[1]))
    elif op == "lonlat_to_cell":
        lon, lat, r = fxx(t[1]), fxx(t[2]), int(t[3])
        out.append(f"lonlat_to_cell,{hx(lon)},{hx(lat)},{(r + 1) % 30}")
        out.append(f"lonlat_to_cell,{hx(lon + 72.0)},{hx(lat)},{r}")
        out.append(f"lonlat_to_cell,{hx(-lon)},{hx(-lat)},{r}")
        out.append(f"lonlat_to_cell,{hx(lon + 1e-7)},{hx(lat)},{r}")
    rng.shuffle(out)
    return out


def fxx(tok):
    return struct.unpack("<d", struct.pack("<Q", int(tok[1:], 16)))[0]


def split_hist(resp):
    """-> (list of per-call responses, bitmap string)"""
    if " | " not in resp:
        return None, None
    body, bits = resp.rsplit(" | ", 1)
    return body.split(" ; "), bits


def run(run):
    rng = run.rng
    run.do_ties()
    quick = run.quick
    all_slots = [(o, i, r) for o in range(12) for i in range(10) for r in (False, True)]
    reqs = ["memo_sph_total"]
    kinds = ["total"]
    # (1) projection histories with predicted bitmap: random, and fill-all in random order followed by a warm replay
    nh = run.n(40, 600)
    for _ in range(nh):
        n = rng.choice([1, 2, 3, 5, 8, 13, 30])
        reqs.append("hist " + ";".join(proj_call(rng) for _ in range(n)))
        kinds.append("proj")
    for _ in range(3 if quick else 40):
        order = all_slots[:]
        rng.shuffle(order)
        calls = [proj_call(rng, s) for s in order]
        warm = [proj_call(rng, s) for s in rng.sample(all_slots, 40)]
        reqs.append("hist " + ";".join(calls + warm))
        kinds.append("fill")
    # (2) public API calls: fresh thread vs after a random prefix vs after a fill-all prefix
    fillall = [proj_call(rng, s) for s in rng.sample(all_slots, len(all_slots))]
    api = [api_call(rng) for _ in range(run.n(60, 1500))]
    base = len(reqs)
    for c in api:
        reqs.append("hist " + c); kinds.append("fresh")
    for c in api:
        pre = [api_call(rng) for _ in range(rng.randint(1, 6))]
        reqs.append("hist " + ";".join(pre + [c])); kinds.append("after-random")
    for c in api[: run.n(20, 200)]:
        reqs.append("hist " + ";".join(fillall + [c])); kinds.append("after-fill")
    # the deepest cells (resolutions 26..29: ids that use all 64 bits) with every near-collision neighbour
    deep = []
    for _ in range(run.n(24, 400)):
        c = gen.rand_cell(rng, rng.choice([29, 29, 29, 28, 28, 27, 26]))
        deep.append(rng.choice([f"cell_to_lonlat,{c}", f"cell_to_boundary,{c},{rng.randint(0, 1)},{rng.choice(['none', '1', '2'])}"]))
    for c in deep:
        reqs.append("hist " + c); kinds.append("fresh")
    for c in api + deep:
        rel = related_calls(rng, c)
        if rel:
            for r1 in rel[: (3 if quick and c not in deep else 12)]:
                reqs.append("hist " + r1 + ";" + c); kinds.append("after-related")
            reqs.append("hist " + ";".join(rel[:6] + [c])); kinds.append("after-related")
    # medium-sized compacts, each also directly after a REJECTED compact of another list of that size (scratch space a rejected call
    # leaves behind must not show in the next answer)
    from .. import bulk
    bulk.check_compact(run, bulk.light_compact_requests(run), "compact after a rejected compact")
    impl, model = core.both(run, reqs, "histories", timeout=3600)
    if model[0] != "ok 1":
        run.tie_breaks.append(("model-eval", "memoSphTotalCheck (hypothesis SphTotal of C13.crs_quiet for the float parameters)", model[0]))
    slots_cold = set()
    slots_warm = set()
    fresh = {}
    for i, (k, q, a) in enumerate(zip(kinds, reqs, impl)):
        if k == "total":
            continue
        run.evaluations += 1
        rs, bits = split_hist(a)
        if rs is None:
            run.violation("a history did not complete", q[:300], a[:200])
            continue
        calls = q[5:].split(";")
        if k in ("proj", "fill"):
            # purity inside one history: identical calls give identical results
            seen = {}
            for c, r in zip(calls, rs):
                if c in seen and seen[c] != r:
                    run.violation("the same projection call returned two different results within one thread history", q[:400], f"{seen[c]} vs {r}")
                seen[c] = r
            fb = bits.split()
            if len(fb) == 3:
                filled = [j for j, ch in enumerate(fb[1]) if ch == "1"]
                slots_cold.update(filled)
                if k == "fill":
                    slots_warm.update(filled)
                if int(fb[2]) >= 10000:
                    run.violation("CRS invocation counter reached the warning threshold (history-dependent stderr output)", q[:200], fb[2])
            run.nontrivial.add(("h", i))
        elif k == "fresh":
            fresh[calls[-1]] = rs[-1]
        else:
            want = fresh.get(calls[-1])
            if want is not None and rs[-1] != want:
                run.violation(f"result of a call differs between a fresh thread and {k} history", q[:600], f"fresh: {want[:200]} / after history: {rs[-1][:200]}")
            run.nontrivial.add((k, calls[-1]))
    # (2b) process-wide state: a "fresh thread" of this process is not fresh for state shared by all threads.  Where a history
    # line disagrees with the pure model, every call of it is repeated alone in a process of its own: a call whose answer
    # there differs from its answer inside the history depends on history
    exe0 = core.harness(run, "release")
    checked = 0
    for d in list(run.corr_disagreements):
        q = d["request"]
        if not q.startswith("hist ") or checked >= 25:
            continue
        checked += 1
        rs, _bits = split_hist(d["impl"])
        if rs is None:
            continue
        calls = q[5:].split(";")
        for c, r in list(zip(calls, rs))[-6:]:
            alone = core.run_stream(exe0, ["hist " + c], timeout=120)
            ra, _ = split_hist(alone[0]) if alone else (None, None)
            if ra and ra[-1] != r:
                run.violation("result of a call differs between a process of its own and this history (state shared by all threads of the process)",
                              q[:600], f"alone: {ra[-1][:200]} / in the history: {r[:200]}", {"call": c})
                break
    # (3) concurrency: the same API calls spread over N threads with barriers must equal the fresh-thread results
    exe = core.harness(run, "release")
    conc = [c.replace(",", " ") for c in api] * (2 if quick else 4)
    rng.shuffle(conc)
    for nthreads in ([8] if quick else [2, 8, 16]):
        p = subprocess.run([exe, "threads", str(nthreads), "3"], input="\n".join(conc) + "\n", stdout=subprocess.PIPE, stderr=subprocess.PIPE, text=True, timeout=1800)
        out = p.stdout.split("\n")[: len(conc)]
        if "Too many CRS invocations" in p.stderr:
            run.violation("stderr warning 'Too many CRS invocations' was printed during a concurrent run", f"threads {nthreads}", p.stderr[:200])
        for c, r in zip(conc, out):
            run.evaluations += 1
            want = fresh.get(c.replace(" ", ","))
            if want is not None and r != want:
                run.violation(f"result under {nthreads} concurrent threads differs from the fresh single-thread result", c, f"fresh: {want[:200]} / concurrent: {r[:200]}")
        if len(out) < len(conc):
            run.violation("concurrent run lost responses", f"threads {nthreads}", f"{len(out)} of {len(conc)}")
    run.rule = ("thread histories executed in fresh threads: random projection-call histories and fill-all-270-slots histories in random order followed by warm replays "
                "(results and slot-fill bitmap compared with the Lean memo state machine), public API calls fresh vs after random prefixes vs after a fill-all prefix vs directly after RELATED calls (same call with one argument component changed: other face / quintant / digit / level / option), "
                "histories that disagree with the pure model re-run call by call in processes of their own (process-wide state), and the same calls spread over 8 (quick) / 2, 8, 16 threads with barriers; non-trivial = distinct histories / (kind, call) pairs compared")
    run.samples = [{"request": reqs[i][:300], "impl": impl[i][:300]} for i in rng.sample(range(1, len(reqs)), 5)]
    run.extra["spherical_slots_filled_cold"] = len(slots_cold)
    run.extra["spherical_slots_rehit_warm"] = len(slots_warm)
    run.extra["histories"] = {k: kinds.count(k) for k in set(kinds)}
    run.assumptions = TRUSTED_EXTRA
