"""C17 - within a quintant the curve position <-> cell mapping is a bijection."""
import math, struct
from .. import core, gen, spec

LEVEL = "proof"


def hx(x):
    return "x" + format(struct.unpack("<Q", struct.pack("<d", x))[0], "016x")


def fx(tok):
    return float("nan") if tok == "xnan" else struct.unpack("<d", struct.pack("<Q", int(tok[1:], 16)))[0]


def euler_k6():
    """a closed walk through all 30 ordered pairs of the six orientation codes (Hierholzer on the complete digraph)"""
    out = {u: [v for v in range(6) if v != u] for u in range(6)}
    stack, walk = [0], []
    while stack:
        u = stack[-1]
        if out[u]:
            stack.append(out[u].pop())
        else:
            walk.append(stack.pop())
    return walk[::-1]


def positions(rng, n, count):
    out = set()
    N = 4 ** n
    for s in (0, 1, 2, 3, N - 1, N - 2, N // 2, N // 2 - 1, N // 4, 3 * N // 4, (N - 1) // 3, 2 * (N - 1) // 3):
        if 0 <= s < N:
            out.add(s)
    while len(out) < min(count, N):
        dg = gen.rand_digits(rng, n)
        s = 0
        for d in dg:
            s = s * 4 + d
        out.add(s)
    return sorted(out)


def run(run):
    rng = run.rng
    run.do_ties()
    quick = run.quick
    nmax = 5 if quick else 8
    impl0, _ = core.both(run, ["consts"], "runtime-constants")
    bi = [fx(t) for t in impl0[0].split(" | ")[1].split()[4:8]]     # basis_inverse m00 m01 m10 m11
    cases = []
    for n in range(1, nmax + 1):
        for o in range(6):
            for s in range(4 ** n):
                cases.append((s, n, o))
    for n in range(nmax + 1, 30):
        for o in range(6):
            for s in positions(rng, n, run.n(12, 150)):
                cases.append((s, n, o))
    state = {"min_margin": 10.0}

    def roundtrip(cases, tag):
        min_margin = state["min_margin"]
        reqs = [f"s_to_anchor {s} {n} {o}" for (s, n, o) in cases]
        impl, model = core.both(run, reqs, "s_to_anchor")
        # second round: pentagons of those anchors, then locating the pentagon's centre
        preq = []
        anchors = {}
        for (s, n, o), a in zip(cases, impl):
            t = a.split()
            if t[0] != "ok":
                run.violation("s_to_anchor failed on a valid position", f"s_to_anchor {s} {n} {o}", a)
                preq.append("face_vertices")
                continue
            k, i, j, f0, f1 = t[1:6]
            anchors[(s, n, o)] = (int(i), int(j), int(f0), int(f1), int(k))
            preq.append(f"pentagon_vertices {n} 0 {k} {i} {j} {f0} {f1}")
        pimpl, pmodel = core.both(run, preq, "pentagon_vertices")
        lreq = []
        centres = {}
        min_margin = 10.0
        seen = {}
        for (s, n, o), q, a in zip(cases, preq, pimpl):
            run.evaluations += 1
            if not a.startswith("ok ") or (s, n, o) not in anchors:
                lreq.append("get_res0_cells")
                continue
            pts = [tuple(fx(x) for x in p.split(",")) for p in a[3:].split(";")]
            # distinct positions -> distinct pentagons (exhaustive depths)
            if n <= nmax:
                key = (n, o, a)
                if key in seen and seen[key] != s:
                    run.violation(f"positions {seen[key]} and {s} (depth {n}, orientation {o}) have the same pentagon", [q], a[:200])
                seen[key] = s
            cx = sum(p[0] for p in pts) / len(pts) * (2.0 ** n)
            cy = sum(p[1] for p in pts) / len(pts) * (2.0 ** n)
            u = bi[0] * cx + bi[1] * cy
            v = bi[2] * cx + bi[3] * cy
            centres[(s, n, o)] = (u, v)
            if not (u > 0 and v > 0 and u + v < 2.0 ** n):
                run.violation("the centre of a pentagon lies outside its quintant's triangle", q, f"lattice coordinates ({u}, {v}), depth {n}")
            ai, aj, f0, f1, _ = anchors[(s, n, o)]
            # margin to the three families of lattice lines (the theorem's hypothesis: strictly inside the anchor's lattice triangle)
            fr = lambda x: abs(x - round(x))
            if n <= 20:
                min_margin = min(min_margin, fr(u), fr(v), fr(u + v))
            lreq.append(f"ij_to_s {hx(u)} {hx(v)} {n} {o}")
        limpl, lmodel = core.both(run, lreq, "ij_to_s")
        for (s, n, o), q, a in zip(cases, lreq, limpl):
            if not q.startswith("ij_to_s"):
                continue
            run.evaluations += 1
            if a != f"ok {s}":
                run.violation(f"locating the centre of the pentagon at position {s} (depth {n}, orientation {o}) returns {a}", [f"s_to_anchor {s} {n} {o}", q], a)
            if n > 1:
                run.nontrivial.add((s, n, o))
        state["min_margin"] = min_margin
        state.setdefault("first", (reqs, impl, pimpl, limpl, anchors))
        state["last_impl"] = impl
        return anchors

    anchors = roundtrip(cases, "orientation-major")
    # the same positions again with the orientation varying fastest (consecutive calls differ only in the orientation) and
    # in reverse: a position's anchor and the located position must not depend on the calls made before
    # every ordered pair of orientations occurs as two consecutive calls on the same (position, depth): an Eulerian circuit of K6
    circuit = euler_k6()
    base = sorted({(c[0], c[1]) for c in cases if c[1] <= (3 if quick else 5)} | {(c[0], c[1]) for c in cases if c[1] > nmax and c[0] % 3 == 0}, key=lambda c: (c[1], c[0]))
    inter = [(s0, n0, o) for (s0, n0) in base for o in circuit if s0 < 4 ** n0]
    resp_a = dict(zip(cases, state["first"][1]))
    roundtrip(inter, "orientation-circuit")
    for c, a in zip(inter, state["last_impl"]):
        if c in resp_a and resp_a[c] != a:
            k = inter.index(c)
            run.violation(f"s_to_anchor({c[0]}, depth {c[1]}, orientation {c[2]}) depends on the calls made before it: '{resp_a[c]}' in orientation-major order, '{a}' directly after other orientations of the same position",
                          [f"s_to_anchor {c[0]} {c[1]} {c[2]}"], a)
            break
    reqs, impl, pimpl, limpl, anchors = state["first"]
    min_margin = state["min_margin"]
    # distinct anchors on the exhaustive depths
    for n in range(1, nmax + 1):
        for o in range(6):
            al = [anchors.get((s, n, o)) for s in range(4 ** n)]
            run.evaluations += 1
            if None not in al and len({x[:4] for x in al}) != 4 ** n:
                run.violation(f"two positions share an anchor triangle at depth {n}, orientation {o}", f"s_to_anchor * {n} {o}", "duplicate (offset, flips)")
    run.rule = ("all 4^n positions for n <= %d and all 6 orientations (exhaustive; orientation-major order, and again for n <= 3 (quick) / 5 (thorough) plus a third of the deep positions along a circuit through all 30 ordered pairs of orientations, so that every orientation directly follows every other one on the same position), and for n up to 29 boundary / digit-pattern (all-0, all-3, alternating, single digit, parent-boundary) / random positions; "
                "per position: anchor, pentagon, centre in the quintant triangle, distinctness, and locating the centre returns the position; non-trivial = distinct (position, depth > 1, orientation) round trips" % nmax)
    run.samples = [{"request": reqs[i], "impl": impl[i], "pentagon": pimpl[i][:80], "locate": limpl[i]} for i in rng.sample(range(len(reqs)), 6)]
    run.extra["exhaustive_up_to_depth"] = nmax
    run.extra["min_centre_margin_to_lattice_lines"] = round(min_margin, 6)
    run.extra["exhaustive"] = False
