"""C12 - children geometrically overlap their parent and stay within its reach."""
import math
from .. import core, gen, spec, geo

LEVEL = "proof"


def gnomonic(ring, c):
    a0 = (0.0, 0.0, 1.0) if abs(c[2]) < 0.9 else (1.0, 0.0, 0.0)
    e1 = geo.unit(geo.cross(a0, c))
    e2 = geo.cross(c, e1)
    out = []
    for lon, lat in ring:
        v = geo.sphere_vec(lon, lat)
        w = geo.dot(v, c)
        if w <= 0.05:
            return None
        out.append((geo.dot(v, e1) / w, geo.dot(v, e2) / w))
    return out


def inside(poly, x, y):
    n = len(poly)
    res = False
    j = n - 1
    for i in range(n):
        xi, yi = poly[i]
        xj, yj = poly[j]
        if (yi > y) != (yj > y) and x < (xj - xi) * (y - yi) / (yj - yi) + xi:
            res = not res
        j = i
    return res


def run(run):
    rng = run.rng
    run.do_ties()
    quick = run.quick
    rmax = 1 if quick else 3
    parents = [c for r in range(0, rmax + 1) for c in gen.all_cells(r)]
    for r in range(rmax + 1, 29):
        for _ in range(4 if quick else 120):
            parents.append(gen.rand_cell(rng, r))
    reqs = []
    for p in parents:
        reqs.append(f"cell_to_children {p} none")
    impl, model = core.both(run, reqs, "children")
    breq, bmeta = [], []
    kids = {}
    for p, a in zip(parents, impl):
        if not a.startswith("ok "):
            run.violation("cell_to_children failed on a valid parent", f"cell_to_children {p} none", a)
            continue
        ks = [int(x) for x in a[3:].split(",")]
        kids[p] = ks
        for c in [p] + ks:
            breq.append(f"cell_to_boundary {c} 0 12"); bmeta.append(c)
            breq.append(f"cell_to_lonlat {c}"); bmeta.append(c)
    bimpl, bmodel = core.both(run, breq, "geometry", timeout=3000)
    ring, centre = {}, {}
    for i in range(0, len(breq), 2):
        c = bmeta[i]
        ring[c] = geo.parse_ring(bimpl[i])
        t = bimpl[i + 1].split()
        if t[0] == "ok":
            centre[c] = (geo.fx(t[1]), geo.fx(t[2]))
    worst_cov, worst_dist = 1.0, 0.0
    for p, ks in kids.items():
        run.evaluations += 1
        res = spec.decode(p)[0]
        q = f"cell_to_children {p} none"
        if ring.get(p) is None or p not in centre or any(ring.get(k) is None or k not in centre for k in ks):
            run.violation("geometry of a parent or child could not be computed", q, "missing ring/centre")
            continue
        cvec = geo.sphere_vec(*centre[p])
        pp = gnomonic(ring[p], cvec)
        cps = [gnomonic(ring[k], cvec) for k in ks]
        if pp is None or any(x is None for x in cps):
            run.violation("a child lies more than 80 degrees away from its parent's centre", q, "projection failed")
            continue
        xs = [x for x, y in pp]; ys = [y for x, y in pp]
        samples = []
        tries = 0
        while len(samples) < 300 and tries < 20000:
            tries += 1
            x, y = rng.uniform(min(xs), max(xs)), rng.uniform(min(ys), max(ys))
            if inside(pp, x, y):
                samples.append((x, y))
        covered = 0
        hit = [0] * len(ks)
        for (x, y) in samples:
            anyc = False
            for j, cp in enumerate(cps):
                if inside(cp, x, y):
                    hit[j] += 1
                    anyc = True
            covered += 1 if anyc else 0
        cov = covered / max(1, len(samples))
        if cov < 0.62:
            # close to the limit: measure again with 6000 samples (standard error 0.0065) before judging
            big, tries = 0, 0
            cnt = 0
            while cnt < 6000 and tries < 400000:
                tries += 1
                x, y = rng.uniform(min(xs), max(xs)), rng.uniform(min(ys), max(ys))
                if inside(pp, x, y):
                    cnt += 1
                    if any(inside(cp, x, y) for cp in cps):
                        big += 1
            cov = big / max(1, cnt)
        worst_cov = min(worst_cov, cov)
        if cov <= 0.5:
            run.violation(f"the children cover only {cov:.2f} of their parent's area", q, f"parent {p:#x} resolution {res}")
        area = 4 * math.pi / (12 if res == 0 else 60 * 4 ** (res - 1))
        for j, k in enumerate(ks):
            if hit[j] == 0:
                # no sample of the parent fell into this child: look from the child's side (its centre and points towards its corners)
                kc = geo.sphere_vec(*centre[k])
                w = geo.dot(kc, cvec)
                a0 = (0.0, 0.0, 1.0) if abs(cvec[2]) < 0.9 else (1.0, 0.0, 0.0)
                e1 = geo.unit(geo.cross(a0, cvec)); e2 = geo.cross(cvec, e1)
                kx, ky = geo.dot(kc, e1) / w, geo.dot(kc, e2) / w
                pts = [(kx, ky)] + [(kx + t * (vx - kx), ky + t * (vy - ky)) for (vx, vy) in cps[j][::3] for t in (0.3, 0.6, 0.9)]
                if not any(inside(pp, x, y) for x, y in pts):
                    run.violation(f"child {k:#x} shares no interior area with its parent {p:#x} (sampled)", q, f"resolution {res}")
            d = geo.ang(geo.sphere_vec(*centre[k]), cvec)
            worst_dist = max(worst_dist, d / math.sqrt(area))
            if d >= 0.8 * math.sqrt(area):
                run.violation(f"child centre is {d / math.sqrt(area):.3f} * sqrt(parent area) away from the parent centre (limit 0.8)", q, f"child {k:#x}")
        run.nontrivial.add(p)
    run.rule = ("parents: every cell of resolution 0..%d, random parents up to resolution 28 on every face; for each parent all children: boundaries (12 segments per edge) and centres from the library, "
                "overlap / coverage by 300 sample points of the parent in a gnomonic chart at its centre (independent point-in-polygon), centre distance on the authalic sphere; "
                "non-trivial = distinct parents measured" % rmax)
    run.samples = [{"request": reqs[i], "impl": impl[i][:120]} for i in rng.sample(range(len(reqs)), 4)]
    run.extra["min_coverage_of_parent_by_children"] = round(worst_cov, 4)
    run.extra["max_child_centre_distance_over_sqrt_parent_area"] = round(worst_dist, 4)
    run.extra["exhaustive_up_to_resolution"] = rmax
