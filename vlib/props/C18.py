"""C18 - the 12-face frame is a regular dodecahedron in the documented orientation."""
import math, struct
from .. import core, gen, spec

LEVEL = "proof"


def hx(x):
    return "x" + format(struct.unpack("<Q", struct.pack("<d", x))[0], "016x")


def fx(tok):
    return float("nan") if tok == "xnan" else struct.unpack("<d", struct.pack("<Q", int(tok[1:], 16)))[0]


def cart(theta, phi):
    return (math.sin(phi) * math.cos(theta), math.sin(phi) * math.sin(theta), math.cos(phi))


def dot(a, b):
    return sum(x * y for x, y in zip(a, b))


def run(run):
    rng = run.rng
    run.do_ties()
    quick = run.quick
    # the frame as the running library reports it
    impl0, model0 = core.both(run, ["consts"], "runtime-constants")
    axes = []
    try:
        for tok in impl0[0].split(" | ")[2].split():
            f = tok.split(":")
            axes.append((int(f[0]), fx(f[1]), fx(f[2]), fx(f[3]), int(f[4])))
    except Exception as e:  # noqa
        run.violation("could not read the origin table from the running library", "consts", impl0[0][:200])
        return
    centres = [cart(t, p) for (_, t, p, _, _) in axes]
    run.evaluations += 1
    if len(centres) != 12:
        run.violation("the library does not report 12 faces", "consts", str(len(centres)))
        return
    # regular dodecahedron: pairwise dot products in {-1, +-1/sqrt5}; each face has one antipode and 5 neighbours at 63.435 deg
    s5 = 1 / math.sqrt(5)
    for i in range(12):
        anti = [j for j in range(12) if j != i and abs(dot(centres[i], centres[j]) + 1) < 1e-9]
        near = [j for j in range(12) if j != i and abs(dot(centres[i], centres[j]) - s5) < 1e-9]
        far = [j for j in range(12) if j != i and abs(dot(centres[i], centres[j]) + s5) < 1e-9]
        run.evaluations += 1
        if len(anti) != 1 or len(near) != 5 or len(far) != 5:
            run.violation(f"face {i} does not sit in a regular dodecahedron frame (antipodes {len(anti)}, neighbours at 63.435 deg {len(near)})", "consts", str(centres[i]))
        if near and abs(math.degrees(math.acos(dot(centres[i], centres[near[0]]))) - 63.43494882292201) > 1e-6:
            run.violation("neighbouring face centres are not 63.435 degrees apart", "consts", str(i))
    if abs(centres[0][2] - 1) > 1e-12:
        run.violation("face 0 is not centred on the north pole", "consts", str(centres[0]))
    # base cells: cell_to_lonlat of res-0 cells are the face centres in lon/lat with the 93 degree offset; res0 lookup at the pole
    reqs = ["get_res0_cells"] + [f"cell_to_lonlat {spec.encode(0, f, ())}" for f in range(12)]
    reqs += [f"lonlat_to_cell {hx(lon)} {hx(90.0)} 0" for lon in (0.0, 93.0, -93.0, 180.0, 12.5)]
    # relabelling, exhaustively
    for o in range(12):
        for q in range(5):
            reqs.append(f"q2s {q} {o}")
            reqs.append(f"s2q {q} {o}")
    # nearest-face selection: uniform points and points within 1e-9 of a seam between two faces
    pts = []
    n = run.n(3000, 200000)
    for _ in range(n):
        m = rng.random()
        if m < 0.45:
            z = rng.uniform(-1, 1)
            pts.append((rng.uniform(-math.pi, math.pi), math.acos(z)))
        elif m < 0.6:
            # next to one of the 20 dodecahedron vertices (three faces meet): 1e-9 .. 1e-3 rad away in a random direction
            i = rng.randrange(12)
            nb = [j for j in range(12) if j != i and abs(dot(centres[i], centres[j]) - s5) < 1e-9]
            j = rng.choice(nb)
            nk = [k for k in nb if k != j and abs(dot(centres[k], centres[j]) - s5) < 1e-9]
            k = rng.choice(nk)
            v = [a_ + b_ + c_ for a_, b_, c_ in zip(centres[i], centres[j], centres[k])]
            nrm = math.sqrt(dot(v, v)); v = [x / nrm for x in v]
            d = [rng.gauss(0, 1) for _ in range(3)]
            dv = dot(d, v); d = [x - dv * y for x, y in zip(d, v)]
            dn = math.sqrt(dot(d, d)) or 1.0
            e = 10 ** rng.uniform(-9, -3)
            p = [x + e * y / dn for x, y in zip(v, d)]
            nrm = math.sqrt(dot(p, p)); p = [x / nrm for x in p]
            pts.append((math.atan2(p[1], p[0]), math.acos(max(-1.0, min(1.0, p[2])))))
        else:
            i = rng.randrange(12)
            nb = [j for j in range(12) if j != i and abs(dot(centres[i], centres[j]) - s5) < 1e-9]
            j = rng.choice(nb)
            a, b = centres[i], centres[j]
            mid = [x + y for x, y in zip(a, b)]
            # a point on the seam (equidistant from both centres), moved along the seam, then nudged by eps
            axis = [a[1] * b[2] - a[2] * b[1], a[2] * b[0] - a[0] * b[2], a[0] * b[1] - a[1] * b[0]]
            t = rng.uniform(-0.3, 0.3)
            eps = rng.choice([1e-9, -1e-9, 1e-7, -1e-7, 1e-12, 0.0])
            p = [m_ + t * ax + eps * (x - y) for m_, ax, x, y in zip(mid, axis, a, b)]
            nrm = math.sqrt(dot(p, p))
            p = [x / nrm for x in p]
            pts.append((math.atan2(p[1], p[0]), math.acos(max(-1.0, min(1.0, p[2])))))
    # the azimuth is an angle: a fifth of the points are given one to three whole turns away, in either direction (longitudes such as
    # -540 or +900 degrees reach find_nearest_origin unreduced)
    pts = [((t + gen.turns(rng) * 2 * math.pi, p) if rng.random() < 0.2 else (t, p)) for (t, p) in pts]
    base = len(reqs)
    for (t, p) in pts:
        reqs.append(f"find_nearest_origin {hx(t)} {hx(p)}")
    impl, model = core.both(run, reqs, "frame")
    if impl[0] != "ok " + ",".join(str(spec.encode(0, f, ())) for f in range(12)):
        run.violation("get_res0_cells is not the 12 base cells", reqs[0], impl[0])
    for f in range(12):
        run.evaluations += 1
        a = impl[1 + f].split()
        if a[0] != "ok":
            run.violation("cell_to_lonlat of a base cell failed", reqs[1 + f], impl[1 + f])
            continue
        lon, lat = fx(a[1]), fx(a[2])
        # expected: authalic sphere centre -> lon = deg(theta) - 93; geodetic latitude slightly differs from authalic: compare longitudes
        # exactly and latitudes through the sign/pole structure
        tlon = math.degrees(axes[f][1]) - 93.0
        if abs(lat) < 89.999999 and min((lon - tlon) % 360, (tlon - lon) % 360) > 1e-9:
            run.violation("a base cell's centre longitude is not the face azimuth minus the documented 93 degree offset", reqs[1 + f], impl[1 + f], {"expected_lon": tlon})
        alat = 90.0 - math.degrees(axes[f][2])
        if abs(lat - alat) > 0.2:
            run.violation("a base cell's centre latitude is not the face centre's latitude", reqs[1 + f], impl[1 + f], {"authalic_lat": alat})
    for k in range(5):
        a = impl[13 + k]
        run.evaluations += 1
        if a.split()[:2] != ["ok", str(spec.encode(0, 0, ()))]:
            run.violation("the north pole is not in base cell 0", reqs[13 + k], a)
    # relabelling bijection + orientation preserved
    idx = 18
    for o in range(12):
        segs = set()
        for q in range(5):
            run.evaluations += 1
            a = impl[idx].split(); idx += 2
            if a[0] != "ok":
                run.violation("quintant_to_segment failed", reqs[idx - 2], " ".join(a))
                continue
            seg, ori = int(a[1]), int(a[2])
            segs.add(seg)
        # inverse direction: s2q (seg) must give back q with the same orientation
        back = {}
        for s in range(5):
            a = impl[18 + (o * 5 + s) * 2 + 1].split()
            if a[0] == "ok":
                back[s] = (int(a[1]), int(a[2]))
        for q in range(5):
            a = impl[18 + (o * 5 + q) * 2].split()
            if a[0] != "ok":
                continue
            seg, ori = int(a[1]), int(a[2])
            if back.get(seg) != (q, ori):
                run.violation(f"quintant {q} of face {o} maps to segment {seg} (orientation {ori}) but that segment maps back to {back.get(seg)}", reqs[18 + (o * 5 + q) * 2], " ".join(a))
        if segs != set(range(5)):
            run.violation(f"the quintant->segment relabelling of face {o} is not a bijection", f"q2s * {o}", str(sorted(segs)))
    # "preserves the curve orientation": the curve is continuous across the five segments of a face - the last cell of the
    # segment with code n and the first cell of the segment with code n + 1 (ids 5*face + n, per-face rotation included)
    # are neighbours (centres within 1.2 cell sizes; 0.986 on the reference tree).  A relabelling that is still a bijection
    # but walks around the face against its layout breaks exactly this.
    from .C01 import cell_size
    creq, cmeta = [], []
    for r in (2, 3, 5):
        L = r - 1
        for f in range(12):
            for nn in range(4):
                A = spec.encode(r, 5 * f + nn, tuple([3] * L)); B = spec.encode(r, 5 * f + nn + 1, tuple([0] * L))
                creq += [f"cell_to_lonlat {A}", f"cell_to_lonlat {B}"]; cmeta.append((r, f, nn, A, B))
    ci, cm = core.both(run, creq, "curve-continuity")
    worst_gap = 0.0
    for k, (r, f, nn, A, B) in enumerate(cmeta):
        run.evaluations += 1
        a, b = ci[2 * k].split(), ci[2 * k + 1].split()
        if a[0] != "ok" or b[0] != "ok":
            run.violation("cell_to_lonlat failed on a valid cell", creq[2 * k: 2 * k + 2], ci[2 * k] + " / " + ci[2 * k + 1])
            continue
        from .. import geo as _geo
        d = _geo.ang(_geo.sphere_vec(fx(a[1]), fx(a[2])), _geo.sphere_vec(fx(b[1]), fx(b[2]))) / cell_size(r)
        worst_gap = max(worst_gap, d)
        if d > 1.2:
            run.violation(f"the curve is not continuous from segment {nn} to segment {nn + 1} of face {f} at resolution {r}: the last cell {A:#x} and the first cell {B:#x} are {d:.2f} cell sizes apart (the relabelling does not preserve the curve orientation)",
                          creq[2 * k: 2 * k + 2], ci[2 * k] + " / " + ci[2 * k + 1])
    run.extra["worst_segment_to_segment_gap_cell_sizes"] = round(worst_gap, 4)
    # nearest face = argmax of the dot product with the 12 centres (ties within 1e-12 excluded)
    ties = 0
    for (t, p), a in zip(pts, impl[base:]):
        run.evaluations += 1
        v = cart(t, p)
        ds = sorted(((dot(v, c), i) for i, c in enumerate(centres)), reverse=True)
        if ds[0][0] - ds[1][0] < 1e-12 + 8 * math.ulp(t):
            ties += 1          # (an azimuth many turns out carries an absolute rounding error of its own: a seam tie is wider there)
            continue
        if a != f"ok {ds[0][1]}":
            run.violation(f"the face chosen is not the nearest one by great-circle distance (nearest is {ds[0][1]}, margin {ds[0][0] - ds[1][0]:.3e})", f"find_nearest_origin {hx(t)} {hx(p)}", a)
        if ds[0][0] - ds[1][0] < 1e-6:
            run.nontrivial.add((t, p))
    run.rule = ("frame read from the running library (66 pairwise dot products), base-cell centres and pole lookups, all 12 x 5 relabellings in both directions, continuity of the curve across the segments of every face (r = 2, 3, 5), and nearest-face selection "
                "against a direct 3-D dot-product argmax on uniform points (45%), points 1e-9..1e-3 rad from the 20 dodecahedron vertices (15%) and points within 1e-12..1e-7 of a seam between two neighbouring faces (40%), a fifth of all of them with the azimuth 1..3, or 10..10^6, whole turns away in either direction; non-trivial = distinct points within 1e-6 of a seam that were decided")
    run.samples = [{"request": reqs[i], "impl": impl[i][:120], "model": model[i][:120]} for i in rng.sample(range(len(reqs)), 6)]
    run.extra["seam_ties_skipped"] = ties
    run.extra["points"] = len(pts)
