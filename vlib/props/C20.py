"""C20 - numeric ID order is compatible with the hierarchy from the quintant level down."""
from .. import bulk, core, gen, spec

LEVEL = "proof"


def parse_ok_int(a):
    return int(a[3:]) if a.startswith("ok ") else None


def parse_ok_list(a):
    if not a.startswith("ok "):
        return None
    return [] if a[3:] == "-" else [int(x) for x in a[3:].split(",")]


def next_same_res(c):
    """the numerically next canonical id of the same resolution (None at the end)"""
    res, T, dg = spec.decode(c)
    L = len(dg)
    s = 0
    for d in dg:
        s = s * 4 + d
    s += 1
    if s >= 4 ** L:
        s = 0
        T += 1
        if T >= 60:
            return None
    digits = tuple((s >> (2 * (L - 1 - k))) & 3 for k in range(L))
    return spec.encode(res, T, digits)


def boundary_cell(rng, res):
    """cell whose successor straddles a parent boundary at a random level"""
    L = res - 1
    T = rng.randrange(60)
    k = rng.randrange(L + 1)
    dg = tuple(rng.randrange(4) for _ in range(k)) + tuple([3] * (L - k))
    return spec.encode(res, T, dg)


def run(run):
    rng = run.rng
    run.do_ties()
    quick = run.quick
    npairs = run.n(250, 6000)
    pairs = []
    for _ in range(npairs):
        res = rng.randint(2, 29)
        m = rng.random()
        if m < 0.4:
            a = boundary_cell(rng, res)
            b = next_same_res(a)
        elif m < 0.7:
            a = gen.rand_cell(rng, res)
            b = next_same_res(a)
        else:
            a, b = gen.rand_cell(rng, res), gen.rand_cell(rng, res)
        if b is None or a == b:
            continue
        if a > b:
            a, b = b, a
        pairs.append((a, b, res))
    reqs = []
    index = []   # (kind, pair idx, extra)
    for i, (a, b, res) in enumerate(pairs):
        for k in range(1, res + 1):
            index.append(("anc", i, k, 0)); reqs.append(f"cell_to_parent {a} {k}")
            index.append(("anc", i, k, 1)); reqs.append(f"cell_to_parent {b} {k}")
        depth = rng.randint(1, 4) if res <= 25 else (rng.randint(1, 29 - res) if res < 29 else 0)
        if res + depth <= 29 and depth >= 1:
            index.append(("desc", i, depth, 0)); reqs.append(f"cell_to_children {a} {res + depth}")
            index.append(("desc", i, depth, 1)); reqs.append(f"cell_to_children {b} {res + depth}")
        index.append(("fc", i, 0, 0)); reqs.append(f"is_first_child {a} {res}")
        index.append(("fc", i, 0, 1)); reqs.append(f"is_first_child {b} {res}")
        index.append(("st", i, 0, 0)); reqs.append(f"get_stride {res}")
    # subtree intervals: p (res >= 1) vs q (res >= 1), q chosen inside, just outside and at random
    trip = []
    for _ in range(run.n(300, 8000)):
        rp = rng.randint(1, 28)
        p = gen.rand_cell(rng, rp)
        _, T, dg = spec.decode(p)
        lo = spec.encode(29, T, dg + (0,) * (28 - len(dg)))
        hi = spec.encode(29, T, dg + (3,) * (28 - len(dg)))
        m = rng.random()
        rq = rng.randint(1, 29)
        if m < 0.4 and rq >= rp:
            q = spec.encode(rq, T, dg + tuple(rng.choice([0, 3, rng.randrange(4)]) for _ in range(rq - 1 - len(dg)))) if rq >= 2 else p
        elif m < 0.7:
            # neighbour subtree: successor of hi's ancestor / predecessor region
            nb = next_same_res(spec.ancestor_at(hi, rp)) if rp >= 2 else None
            q = nb if nb is not None else gen.rand_cell(rng, rq)
            if rq > rp and nb is not None and rq >= 2:
                _, T2, dg2 = spec.decode(nb)
                q = spec.encode(rq, T2, dg2 + (0,) * (rq - 1 - len(dg2)))
        else:
            q = gen.rand_cell(rng, rq)
        trip.append((p, q, lo, hi))
        rqq = spec.decode(q)[0]
        index.append(("sub", len(trip) - 1, 0, 0))
        reqs.append(f"cell_to_parent {q} {min(rp, rqq)}")
    impl, model = core.both(run, reqs, "order")
    # ------------------------------------------------------------------ oracle on implementation output
    anc = {}
    desc = {}
    for (kind, i, k, side), q, a in zip(index, reqs, impl):
        run.evaluations += 1
        if kind == "anc":
            v = parse_ok_int(a)
            if v is None:
                run.violation("ancestor lookup failed on a valid cell", q, a)
                continue
            anc[(i, k, side)] = v
            if side == 1 and (i, k, 0) in anc:
                if anc[(i, k, 0)] > v:
                    run.violation(f"a < b but ancestor of a at resolution {k} is numerically greater than that of b", [reqs[0], q],
                                  f"{anc[(i, k, 0)]} > {v}", {"a": pairs[i][0], "b": pairs[i][1]})
                run.nontrivial.add((pairs[i][0], pairs[i][1], k))
        elif kind == "desc":
            v = parse_ok_list(a)
            if v is None:
                run.violation("children expansion failed on a valid cell", q, a)
                continue
            desc[(i, side)] = v
            if side == 1 and (i, 0) in desc and desc[(i, 0)] and v:
                if max(desc[(i, 0)]) >= min(v):
                    run.violation("a < b but a descendant of a does not precede every descendant of b", q, f"{max(desc[(i,0)])} >= {min(v)}",
                                  {"a": pairs[i][0], "b": pairs[i][1]})
                # siblings adjacent: children of one parent are consecutive same-resolution ids spaced by one stride
            if v:
                sv = sorted(v)
                r_child = spec.decode(sv[0])[0]
                stride = 1 << (2 * (30 - r_child)) if r_child >= 2 else 1 << 58
                if any(sv[j + 1] - sv[j] != stride for j in range(len(sv) - 1)):
                    run.violation("descendants of one cell are not a contiguous, stride-spaced run of same-resolution ids", q, a[:200])
        elif kind == "fc":
            c = pairs[i][side]
            res, T, dg = spec.decode(c)
            expect = 1 if dg[-1] == 0 else 0
            if a != f"ok {expect}":
                run.violation("is_first_child disagrees with the last curve digit", q, a)
        elif kind == "st":
            res = pairs[i][2]
            if a != f"ok {1 << (2 * (30 - res))}":
                run.violation("get_stride is not the id distance of adjacent siblings", q, a)
        elif kind == "sub":
            p, qq, lo, hi = trip[i]
            rp = spec.decode(p)[0]
            rq = spec.decode(qq)[0]
            v = parse_ok_int(a)
            in_sub = (rq >= rp and v == p)
            in_int = lo <= qq <= hi
            if in_sub != in_int:
                run.violation("subtree membership and id-interval membership differ", q, a, {"p": p, "q": qq, "lo": lo, "hi": hi})
            run.nontrivial.add(("sub", p, qq))
    # bulk: the descendants of one cell at a depth difference of 9..12 levels (2.6*10^5 .. 1.7*10^7 ids): all of them and only them
    bulk.check(run, bulk.children_requests(run), "cell_to_children (bulk)")
    run.rule = ("bulk expansions by 9..12 levels (up to 4e6 ids quick / 2e7 thorough; digest vs model and closed-form sum: every descendant inside the interval of its ancestor); pairs of same-resolution cells r in 2..29 (40% straddling a parent boundary at a random level, 30% adjacent, 30% random) x every ancestor level 1..r, "
                "descendant depth <= 4, first-child/stride checks; subtree-interval triples (inside, neighbouring subtree, random); "
                "non-trivial = distinct (a,b,level) and (p,q) combinations judged")
    run.samples = [{"request": reqs[i], "impl": impl[i][:160], "model": model[i][:160]} for i in rng.sample(range(len(reqs)), 6)]
    run.extra["pairs"] = len(pairs)
    run.extra["interval_triples"] = len(trip)
