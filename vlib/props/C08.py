"""C08 - compaction never changes the covered set of cells."""
from .. import bulk, core, gen, spec
from .. import compactgen as cg

LEVEL = "proof"


def run(run):
    rng = run.rng
    run.do_ties()
    quick = run.quick
    sets = []
    # corpus first: the witnesses of the repaired defects F1, F2 (DESIGN.md section 7)
    base1 = spec.encode(0, 1, ())
    sets.append(("corpus-F1", [base1] + spec.children(base1)))
    sets.append(("corpus-F2", [spec.encode(0, f, ()) for f in range(12)] + [0]))
    sets.append(("corpus-F3", spec.children(spec.encode(0, 0, ())) + [spec.encode(0, f, ()) for f in range(1, 12)]))
    sets.append(("empty", []))
    for d in (29, 28, 15):
        sets.append((f"chain-world-{d}", cg.chain_cover(rng, 0, d)))
    sets.append(("chain-face-29", cg.chain_cover(rng, spec.encode(0, rng.randrange(12), ()), 29)))
    n = run.n(150, 5000)
    for _ in range(n):
        m = rng.random()
        if m < 0.4:
            sets.append(("antichain", cg.antichain(rng)))
        elif m < 0.6:
            sets.append(("staged", cg.staged_complete(rng)))
        else:
            sets.append(("overlap", cg.overlapping(rng)))
    reqs, meta = [], []
    for k, (kind, cells) in enumerate(sets):
        variants = [list(cells)]
        for _ in range(2 if quick else 4):
            p = list(cells)
            rng.shuffle(p)
            if p and rng.random() < 0.7:
                p += rng.choices(p, k=rng.randint(1, 4))      # multiplicity
                rng.shuffle(p)
            variants.append(p)
        for v in variants:
            reqs.append("compact " + cg.fmt(v))
            meta.append((k, "compact"))
    impl, model = core.both(run, reqs, "compact", canon=lambda q, a: ("ok " + cg.fmt(sorted(cg.parse_list(a)))) if a.startswith("ok ") else core.default_canon(q, a))
    first = {}
    unreq, unmeta = [], []
    for (k, _), q, a in zip(meta, reqs, impl):
        run.evaluations += 1
        kind, cells = sets[k]
        out = cg.parse_list(a)
        if out is None:
            run.violation(f"compact failed on a list of valid cells: {a}", q[:600], a)
            continue
        if len(set(out)) != len(out):
            run.violation("the compacted result contains a duplicate", q[:600], a[:300], {"kind": kind})
        if any(spec.decode(x) is None for x in out):
            run.violation("the compacted result contains a non-canonical id", q[:600], a[:300])
            continue
        if k not in first:
            first[k] = set(out)
            msg = cg.same_region(cells, out)
            if msg:
                run.violation("compaction changed the covered region: " + msg, q[:600], a[:300], {"kind": kind})
            if len(out) < len(set(cells)):
                run.nontrivial.add(k)
            # observe through uncompact as well, when the expansion is small
            R = cg.max_res(cells)
            if cells and R <= 29 and sum(spec.fanout(spec.decode(c)[0], R) for c in set(cells)) <= 20000 and all(R - max(spec.decode(c)[0], 1) <= 20 for c in list(cells) + out):
                unreq.append(f"uncompact {cg.fmt(cells)} {R}"); unmeta.append((k, "in"))
                unreq.append(f"uncompact {cg.fmt(out)} {R}"); unmeta.append((k, "out"))
        elif set(out) != first[k]:
            run.violation("the compacted result depends on the order or multiplicity of the input", q[:600], a[:300], {"kind": kind, "first": sorted(first[k])[:20]})
    if unreq:
        ui, um = core.both(run, unreq, "uncompact-of-compact")
        for j in range(0, len(unreq), 2):
            run.evaluations += 1
            a, b = cg.parse_list(ui[j]), cg.parse_list(ui[j + 1])
            if a is None or b is None or set(a) != set(b):
                run.violation("expanding the compacted result gives a different cell set than expanding the input", [unreq[j][:300], unreq[j + 1][:300]],
                              f"{ui[j][:100]} / {ui[j + 1][:100]}")
    # bulk: 8*10^4 .. 1.4*10^6 input cells (complete fills with the parent / world cell / duplicates / non-canonical spellings mixed in)
    bulk.check_compact(run, bulk.compact_requests(run), "compact (bulk)")
    run.rule = ("bulk inputs (8e4..1.4e6 cells: complete fills with the parent itself, the world cell, duplicates and non-canonical spellings mixed in, in id order and shuffled; digest vs model and vs the expected cover); cell sets: witnesses of the repaired defects first, then random antichains (several roots incl. world/base/quintant cells, subdivision depth <= 5, deletions), "
                "fully subdivided roots whose groups complete only after earlier merges, and overlapping ancestor/descendant/duplicate mixes; each in 3 (quick) / 5 orders with multiplicities; "
                "oracle = independent tree cover computation (+ uncompact of input and result when small); non-trivial = distinct sets on which at least one merge happened")
    run.samples = [{"request": reqs[i][:200], "impl": impl[i][:200]} for i in rng.sample(range(len(reqs)), 5)]
    kinds = {}
    for kind, cells in sets:
        kinds[kind] = kinds.get(kind, 0) + 1
    run.extra["set_kinds"] = kinds
    run.extra["set_sizes"] = {"max": max(len(c) for _, c in sets), "mean": round(sum(len(c) for _, c in sets) / len(sets), 1)}
    run.extra["uncompact_observations"] = len(unreq) // 2
