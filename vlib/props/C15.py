"""C15 - the dodecahedron projection is invertible and maps each face onto its pentagon."""
import math
from .. import core, gen, geo
from .C12 import inside

LEVEL = "proof"


def cart(theta, phi):
    return (math.sin(phi) * math.cos(theta), math.sin(phi) * math.sin(theta), math.cos(phi))


def sph(v):
    return math.atan2(v[1], v[0]), math.atan2(math.hypot(v[0], v[1]), v[2])


def edge_dist(poly, x, y):
    """signed distance to the polygon boundary: > 0 inside (convex, counter-clockwise or clockwise handled)"""
    n = len(poly)
    area = sum(poly[i][0] * poly[(i + 1) % n][1] - poly[(i + 1) % n][0] * poly[i][1] for i in range(n))
    sgn = 1.0 if area > 0 else -1.0
    best = 1e9
    for i in range(n):
        x1, y1 = poly[i]; x2, y2 = poly[(i + 1) % n]
        ex, ey = x2 - x1, y2 - y1
        L = math.hypot(ex, ey)
        d = sgn * (ex * (y - y1) - ey * (x - x1)) / L
        best = min(best, d)
    return best


def run(run):
    rng = run.rng
    run.do_ties()
    quick = run.quick
    i0, _ = core.both(run, ["consts", "face_vertices"], "runtime-constants")
    axes = []
    for tok in i0[0].split(" | ")[2].split():
        f = tok.split(":")
        axes.append((geo.fx(f[1]), geo.fx(f[2])))
    centres = [cart(t, p) for t, p in axes]
    face = [tuple(geo.fx(x) for x in p.split(",")) for p in i0[1][3:].split(";")]
    rvert = max(math.hypot(x, y) for x, y in face)
    s5 = 1 / math.sqrt(5)
    # sphere points: uniform, near edges (between two centres), near vertices (three centres), at centres, on symmetry lines
    pts = []
    n = run.n(2500, 300000)
    for _ in range(n):
        m = rng.random()
        if m < 0.4:
            z = rng.uniform(-1, 1); th = rng.uniform(-math.pi, math.pi)
            v = (math.sqrt(1 - z * z) * math.cos(th), math.sqrt(1 - z * z) * math.sin(th), z)
        else:
            i = rng.randrange(12)
            nb = [j for j in range(12) if j != i and abs(geo.dot(centres[i], centres[j]) - s5) < 1e-9]
            j = rng.choice(nb)
            a, b = centres[i], centres[j]
            if m < 0.46:
                # next to the face centre (apex of the ten triangles): 3e-8 .. 3e-3 rad away, any azimuth
                r = 10 ** rng.uniform(-7.5, -2.5)
                u1 = geo.unit(geo.cross(a, b)); u2 = geo.cross(a, u1)
                az = rng.uniform(0, 2 * math.pi)
                w = [x + r * (math.cos(az) * p1 + math.sin(az) * p2) for x, p1, p2 in zip(a, u1, u2)]
            elif m < 0.7:
                # towards the shared edge: point on the great circle from centre i to centre j at fraction t (0.5 = the edge), nudged
                t = rng.choice([0.5, 0.5 + 1e-9, 0.5 - 1e-9, 0.5 + 1e-13, 0.49, 0.3, 1e-9, 0.0, rng.uniform(0, 0.5)])
                w = [x + t * (y - x) for x, y in zip(a, b)]
                ax = geo.cross(a, b)
                s = rng.uniform(-0.3, 0.3) if rng.random() < 0.7 else 0.0
                w = [x + s * y for x, y in zip(w, ax)]
            else:
                k = rng.choice([x for x in nb if abs(geo.dot(centres[x], b) - s5) < 1e-9] or nb)
                c = centres[k]
                e = rng.choice([0.0, 1e-9, 1e-6, 1e-3])
                w = [x + y + z_ + e * rng.uniform(-1, 1) for x, y, z_ in zip(a, b, c)]     # next to a dodecahedron vertex
            v = geo.unit(w)
        pts.append(v)
    reqs, meta = [], []
    for v in pts:
        th, ph = sph(v)
        if rng.random() < 0.1:
            # the same direction given with the azimuth many whole turns away; the reference point is that of the ROUNDED azimuth
            # (and the nearest / second-nearest faces are those of that point)
            th = th + gen.turns(rng) * 2 * math.pi
            v = cart(th, ph)
        ds = sorted(((geo.dot(v, c), i) for i, c in enumerate(centres)), reverse=True)
        reqs.append(f"dodeca_forward {geo.hx(th)} {geo.hx(ph)} {ds[0][1]}"); meta.append((v, "nearest", ds[0][0] - ds[1][0]))
        reqs.append(f"dodeca_forward {geo.hx(th)} {geo.hx(ph)} {ds[1][1]}"); meta.append((v, "second", ds[0][0] - ds[1][0]))
    impl, model = core.both(run, reqs, "dodeca_forward")
    ireq = []
    for q, a in zip(reqs, impl):
        t = a.split()
        ireq.append(f"dodeca_inverse {t[1]} {t[2]} {q.split()[3]}" if t[0] == "ok" else "face_vertices")
    iimpl, imodel = core.both(run, ireq, "dodeca_inverse")
    worst = {"nearest": 0.0, "second": 0.0}
    for (v, kind, gap), q, a, qi, b in zip(meta, reqs, impl, ireq, iimpl):
        run.evaluations += 1
        t = a.split()
        if t[0] != "ok":
            run.violation(f"projection relative to the {kind} face failed: {a}", q, a)
            continue
        x, y = geo.fx(t[1]), geo.fx(t[2])
        d = edge_dist(face, x, y)
        if kind == "nearest":
            if d < -1e-9 or math.hypot(x, y) > rvert + 1e-9:
                run.violation(f"projection relative to the nearest face lies outside the face pentagon by {-d:.3e}", q, a)
        else:
            if d > 1e-9 and gap > 1e-9:
                run.violation(f"projection relative to the second-nearest face lies inside that face's pentagon by {d:.3e}", q, a)
        tb = b.split()
        if tb[0] != "ok":
            run.violation(f"unprojecting the projected point failed: {b}", [q, qi], b)
            continue
        w = cart(geo.fx(tb[1]), geo.fx(tb[2]))
        err = geo.ang(v, w)
        worst[kind] = max(worst[kind], err)
        tol = 1e-12 if kind == "nearest" else 1e-11
        if not err <= tol:
            run.violation(f"forward then inverse relative to the {kind} face moves the point by {err:.3e} rad (limit {tol})", [q, qi], f"{a} / {b}")
        if gap < 1e-6:
            run.nontrivial.add(q)
    # planar points inside the face pentagon x 12 faces: inverse then forward
    preq, pmeta = [], []
    for _ in range(run.n(1500, 150000)):
        while True:
            x, y = rng.uniform(-rvert, rvert), rng.uniform(-rvert, rvert)
            if inside(face, x, y):
                break
        if rng.random() < 0.3:
            # next to the internal seams (multiples of 36 degrees), the centre, the edge
            g = rng.randrange(10) * math.pi / 5 + rng.choice([0.0, 1e-12, -1e-12, 1e-9, -1e-9])
            rho = rng.choice([1e-12, 1e-9, 1e-3, 0.3, 0.6, 10 ** rng.uniform(-7.5, -3)])
            if rng.random() < 0.3:
                g = rng.uniform(-math.pi, math.pi)
            x, y = rho * math.cos(g), rho * math.sin(g)
            if not inside(face, x, y):
                continue
        o = rng.randrange(12)
        preq.append(f"dodeca_inverse {geo.hx(x)} {geo.hx(y)} {o}"); pmeta.append((x, y, o))
    pimpl, pmodel = core.both(run, preq, "dodeca_inverse(planar)")
    freq = []
    for (x, y, o), a in zip(pmeta, pimpl):
        t = a.split()
        freq.append(f"dodeca_forward {t[1]} {t[2]} {o}" if t[0] == "ok" else "face_vertices")
    fimpl, fmodel = core.both(run, freq, "dodeca_forward(planar)")
    worst_planar = 0.0
    for (x, y, o), q, a, qf, b in zip(pmeta, preq, pimpl, freq, fimpl):
        run.evaluations += 1
        if not a.startswith("ok ") or not b.startswith("ok ") or not qf.startswith("dodeca_forward"):
            run.violation("planar point inside the face pentagon failed to unproject / re-project", [q, qf], f"{a} / {b}")
            continue
        t = b.split()
        err = math.hypot(geo.fx(t[1]) - x, geo.fx(t[2]) - y)
        worst_planar = max(worst_planar, err)
        if not err <= 1e-12:
            run.violation(f"inverse then forward moves a planar point of the face pentagon by {err:.3e}", [q, qf], f"({x!r},{y!r}) -> {b}")
    run.rule = ("sphere points: 40% uniform, 6% at 3e-8..3e-3 rad from a face centre (small-angle branch of the inverse), 24% on the great circle between two neighbouring face centres (at the shared edge +-1e-13..1e-9, near a centre, random) with lateral offset, "
                "30% within 0..1e-3 of a dodecahedron vertex; each projected relative to its nearest AND second-nearest face and unprojected again; "
                "planar points inside the face pentagon (30% next to the ten internal seams, the centre (down to 3e-8) and the edge) x all 12 faces, unprojected and re-projected; "
                "non-trivial = distinct sphere-point requests within 1e-6 (dot product) of a face seam")
    run.samples = [{"request": reqs[i], "impl": impl[i], "model": model[i]} for i in rng.sample(range(len(reqs)), 5)]
    run.extra["worst_roundtrip_nearest_rad"] = worst["nearest"]
    run.extra["worst_roundtrip_second_rad"] = worst["second"]
    run.extra["worst_planar_roundtrip"] = worst_planar
