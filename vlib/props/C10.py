"""C10 - compaction is maximal, idempotent and canonical."""
from .. import bulk, core, gen, spec
from .. import compactgen as cg

LEVEL = "proof"


def resubdivide(rng, cells):
    """another antichain covering the same region: subdivide some members, merge nothing"""
    out = []
    for c in cells:
        res = spec.decode(c)[0]
        if res < 27 and rng.random() < 0.4:
            kids = spec.children(c)
            for k in kids:
                if spec.decode(k)[0] < 28 and rng.random() < 0.3:
                    out.extend(spec.children(k))
                else:
                    out.append(k)
        else:
            out.append(c)
    return out


def run(run):
    rng = run.rng
    run.do_ties()
    quick = run.quick
    sets = []
    sets.append(("corpus-F3", spec.children(spec.encode(0, 0, ())) + [spec.encode(0, f, ()) for f in range(1, 12)]))
    sets.append(("whole-sphere-r2", [c for c in gen.all_cells(2)]))
    sets.append(("whole-sphere-mixed", [c for f in range(6) for c in spec.children(spec.encode(0, f, ()))] + [spec.encode(0, f, ()) for f in range(6, 12)]))
    # the deepest cascades: the whole sphere / a face / a quintant / a deep cell refined along one branch down to resolution 29, 28, 27, ...
    for d in (29, 29, 28, 27, 20):
        sets.append((f"chain-world-{d}", cg.chain_cover(rng, 0, d)))
    sets.append(("chain-face-29", cg.chain_cover(rng, spec.encode(0, rng.randrange(12), ()), 29)))
    sets.append(("chain-quintant-29", cg.chain_cover(rng, spec.encode(1, rng.randrange(60), ()), 29)))
    sets.append(("chain-deep-29", cg.chain_cover(rng, gen.rand_cell(rng, rng.randint(2, 12)), 29)))
    n = run.n(150, 5000)
    for _ in range(n):
        m = rng.random()
        if m < 0.45:
            sets.append(("staged", cg.staged_complete(rng)))
        else:
            sets.append(("antichain", cg.antichain(rng)))
    reqs, meta = [], []
    for k, (kind, cells) in enumerate(sets):
        alt = resubdivide(rng, cells)
        rng.shuffle(alt)
        reqs.append("compact " + cg.fmt(cells)); meta.append((k, "A"))
        reqs.append("compact " + cg.fmt(alt)); meta.append((k, "B"))
        # the same cells in ascending and in descending numeric order (an input that "looks sorted" must not take a different path)
        reqs.append("compact " + (cg.fmt(sorted(cells)) if (k < 3 or rng.random() < 0.5) else cg.fmt(cells[:1]))); meta.append((k, "S"))
        reqs.append("compact " + (cg.fmt(sorted(alt, reverse=True)) if (k < 3 or rng.random() < 0.3) else cg.fmt(cells[:1]))); meta.append((k, "D"))
    impl, model = core.both(run, reqs, "compact", canon=lambda q, a: ("ok " + cg.fmt(sorted(cg.parse_list(a)))) if a.startswith("ok ") else core.default_canon(q, a))
    again, ameta = [], []
    res = {}
    for (k, tag), q, a in zip(meta, reqs, impl):
        run.evaluations += 1
        kind, cells = sets[k]
        out = cg.parse_list(a)
        if out is None:
            run.violation(f"compact failed on a non-overlapping set of valid cells: {a}", q[:600], a)
            continue
        res[(k, tag)] = out
        p = cg.has_complete_group(out)
        if p is not None:
            run.violation(f"the compacted result still contains the complete sibling group of {p:#x}", q[:600], a[:300], {"kind": kind})
        if tag in ("S", "D") and len(q.split()[1].split(",")) < min(2, len(cells)):
            res.pop((k, tag), None)          # placeholder request (variant not generated for this set)
            continue
        if tag in ("A", "S"):
            want = cg.canonical_cover(cells)
            if set(out) != want:
                run.violation("the compacted result is not the canonical cover of the region", q[:600], a[:300], {"kind": kind, "expected": sorted(want)[:30]})
            if len(out) < len(cells):
                run.nontrivial.add(k)
        again.append("compact " + cg.fmt(out)); ameta.append((k, tag))
    for k in range(len(sets)):
        for other in ("B", "S", "D"):
            if (k, "A") in res and (k, other) in res:
                run.evaluations += 1
                if set(res[(k, "A")]) != set(res[(k, other)]):
                    j = {"B": 1, "S": 2, "D": 3}[other]
                    run.violation("two non-overlapping inputs covering the same region compact to different sets", [reqs[4 * k][:400], reqs[4 * k + j][:400]],
                                  f"{impl[4 * k][:150]} / {impl[4 * k + j][:150]}")
    ai, am = core.both(run, again, "compact-again", canon=lambda q, a: ("ok " + cg.fmt(sorted(cg.parse_list(a)))) if a.startswith("ok ") else core.default_canon(q, a))
    for (k, tag), q, a in zip(ameta, again, ai):
        run.evaluations += 1
        out = cg.parse_list(a)
        if out is None or set(out) != set(res[(k, tag)]) or len(out) != len(res[(k, tag)]):
            run.violation("compacting the compacted result changes it", q[:600], a[:300])
    bulk.check_compact(run, bulk.compact_requests(run, overlapping=None)[:4], "compact (bulk)")
    run.rule = ("bulk non-overlapping fills (2.5e5 cells, in order / shuffled / one cell missing) vs the expected canonical cover; non-overlapping sets: the repaired-defect witness and whole-sphere covers first, the longest merge cascades (world cell / face / quintant / deep cell refined along one branch down to resolution 29: one pass per level), then random antichains and fully subdivided roots (world/base/quintant/deep roots on several faces) "
                "whose groups complete only after earlier merges; each paired with a second antichain of the same region obtained by random re-subdivision, and both also given in ascending / descending numeric order; "
                "oracle = independent bottom-up canonical cover on the tree; non-trivial = distinct sets on which at least one merge happened")
    run.samples = [{"request": reqs[i][:200], "impl": impl[i][:200]} for i in rng.sample(range(len(reqs)), 5)]
    kinds = {}
    for kind, cells in sets:
        kinds[kind] = kinds.get(kind, 0) + 1
    run.extra["set_kinds"] = kinds
    run.extra["merge_levels"] = {"mean_input": round(sum(len(c) for _, c in sets) / len(sets), 1),
                                 "mean_output": round(sum(len(v) for (k, t), v in res.items() if t == "A") / max(1, len(sets)), 1)}
