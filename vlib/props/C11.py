"""C11 - cell boundary is a well-formed ring around the cell centre."""
import math
from .. import bulk, core, gen, spec, geo

LEVEL = "proof"


def lon_close(a, b, tol):
    d = (a - b) % 360.0
    return min(d, 360.0 - d) <= tol


def run(run):
    rng = run.rng
    run.do_ties()
    quick = run.quick
    # cells: random + through lookups on the antimeridian, at and around the poles
    look = []
    for r in range(0, 30):
        for lon, lat in [(180.0, 10.0), (-180.0, -33.0), (179.9999, 60.0), (0.0, 90.0), (0.0, -90.0), (45.0, 89.9), (-120.0, -89.9), (180.0, 89.5)]:
            if quick and rng.random() < 0.5:
                continue
            look.append(f"lonlat_to_cell {geo.hx(lon)} {geo.hx(lat)} {r}")
    # cells next to a pole (centroid beyond 89.99 degrees: the polar branch of normalize_longitudes) that straddle the antimeridian
    # or the +87 / -93 degree meridians (the branch cut of the internal frame) without touching the pole
    polar = []
    for r in range(10, 30):
        for eps in (9e-3, 5e-3, 1e-3, 1e-4, 1e-5, 1e-6):
            for lon in (180.0, -180.0, 179.9995, -179.998, 87.0, -93.0, 87.0004, 0.0):
                for sgn in (1, -1):
                    polar.append(f"lonlat_to_cell {geo.hx(lon)} {geo.hx(sgn * (90.0 - eps))} {r}")
    rng.shuffle(polar)
    look += polar[: (160 if quick else len(polar))]
    li = core.impl_only(run, look)
    cells = [int(a.split()[1]) for a in li if a.startswith("ok ")]
    cells += [gen.rand_cell(rng, rng.randint(0, 29)) for _ in range(run.n(200, 8000))]
    cells += [spec.encode(0, f, ()) for f in range(12)] + [spec.encode(1, T, ()) for T in range(0, 60, 7)]
    reqs, meta = [], []
    for c in cells:
        ns = [1, rng.choice([2, 3, 7]), rng.choice([16, 64]) if rng.random() < 0.3 else 5, "none"]
        for n in ns:
            closed = rng.randint(0, 1)
            reqs.append(f"cell_to_boundary {c} {closed} {n}"); meta.append((c, closed, n))
        reqs.append(f"cell_to_lonlat {c}"); meta.append((c, None, None))
        reqs.append(f"cell_to_boundary_default {c}"); meta.append((c, 1, "none"))      # options = None: closed ring, default subdivision
    impl, model = core.both(run, reqs, "boundary", timeout=3000)
    centre = {}
    corners = {}
    for (c, closed, n), q, a in zip(meta, reqs, impl):
        if closed is None and a.startswith("ok "):
            centre[c] = (geo.fx(a.split()[1]), geo.fx(a.split()[2]))
    pole_cells = 0
    for (c, closed, n), q, a in zip(meta, reqs, impl):
        if closed is None:
            continue
        run.evaluations += 1
        ring = geo.parse_ring(a)
        res = spec.decode(c)[0]
        if ring is None:
            run.violation("cell_to_boundary failed on a valid cell", q, a[:200])
            continue
        nv = 3 if res == 1 else 5
        nn = max(1, 2 ** max(6 - res, 0)) if n == "none" else n
        if len(ring) != nv * nn + closed:
            run.violation(f"ring has {len(ring)} points, expected {nv}*{nn}+{closed}", q, str(len(ring)))
            continue
        if closed and ring[0] != ring[-1]:
            run.violation("closed ring does not repeat its first point", q, f"{ring[0]} vs {ring[-1]}")
        if any(not (math.isfinite(lo) and math.isfinite(la)) for lo, la in ring):
            run.violation("ring contains a non-finite coordinate", q, a[:200])
            continue
        if any(abs(la) > 90.0 + 1e-9 for lo, la in ring):
            run.violation("ring latitude outside [-90, 90]", q, str(max(abs(la) for lo, la in ring)))
        openring = ring[:-1] if closed else ring
        area = geo.ring_area(openring)
        if not area > 0:
            run.violation("ring is not counter-clockwise (signed area on the sphere not positive)", q, str(area))
        cen = centre.get(c)
        touches_pole = False
        if cen:
            inside, dist = geo.winding_contains(openring, cen[0], cen[1])
            if not inside:
                run.violation("the cell's reported centre is not inside its reported boundary", q, f"centre {cen}")
            # does the cell touch / contain a pole?
            for plat in (90.0, -90.0):
                pin, pd = geo.winding_contains(openring, 0.0, plat)
                if pin or pd < 1e-9:
                    touches_pole = True
        lons = [lo for lo, la in openring]
        if touches_pole:
            pole_cells += 1
        elif max(lons) - min(lons) > 180.0:
            run.violation(f"ring longitudes span {max(lons) - min(lons):.3f} degrees although the cell does not touch a pole (antimeridian not unwrapped)", q, f"{min(lons)}..{max(lons)}")
        # corners are the same physical points for every n: the points at indices k*n (in the reversed ring)
        key = c
        # corners sit at multiples of n in the closed ring; the open ring is the reversed split list, so there they sit at k*n + n-1
        off = 0 if closed else nn - 1
        cs = [openring[k * nn + off] for k in range(nv)]
        if key in corners:
            ref = corners[key]
            # the ring may start at a different corner or be unwrapped by a different multiple of 360: compare as sets of physical points
            for (lo, la) in cs:
                if not any(abs(la - la2) <= 1e-9 and (lon_close(lo, lo2, 1e-9) or abs(abs(la) - 90.0) < 1e-9) for lo2, la2 in ref):
                    run.violation(f"corner points differ between subdivisions of the same cell (n={n})", q, f"{(lo, la)} not among {ref}")
                    break
        else:
            corners[key] = cs
        if abs(lons[0]) > 170 or touches_pole:
            run.nontrivial.add((c, n, closed))
    # bulk: explicit subdivision counts at and beyond 2^16 (rings of 3*10^5 .. 10^6 points): exactly 5n (+1) points, same as the model
    # (cells found by lookups on the antimeridian away from the poles, r >= 3: they straddle +-180)
    am = []
    for q_, a_ in zip(look, li):
        t_ = q_.split()
        if a_.startswith("ok ") and abs(abs(geo.fx(t_[1])) - 180.0) < 1e-3 and abs(geo.fx(t_[2])) < 80.0 and int(t_[3]) >= 3:
            am.append(int(a_.split()[1]))
    # (resolution-29 cells at the centres of the non-polar faces: one corner is the apex of the projection's triangles)
    fc = core.impl_only(run, [f"cell_to_lonlat {spec.encode(0, f, ())}" for f in range(1, 11)])
    fl = core.impl_only(run, [f"lonlat_to_cell {a_.split()[1]} {a_.split()[2]} 29" for a_ in fc if a_.startswith("ok ")])
    frame = [int(a_.split()[1]) for a_ in fl if a_.startswith("ok ")]
    bulk.check(run, bulk.boundary_requests(run, antimeridian_cells=am, frame_cells=frame), "cell_to_boundary (bulk)")
    run.rule = ("rings with 65535..70000 (thorough: ..2097152) segments per edge on resolution 28/29 and random cells, and of more than 2^20 points on cells that straddle the antimeridian (point count and text hash vs the model); cells: lookups on the antimeridian and at / next to both poles at every resolution, cells 1e-6 .. 9e-3 degrees from a pole on the antimeridian and on the internal frame's branch cut (r = 10..29), all base cells, quintants, random cells to r=29; "
                "x closed/open ring x subdivision n in {1, 2|3|7, 5|16|64, default}; checks: length, closure, finite coordinates, latitude range, counter-clockwise (positive spherical area), "
                "centre inside (independent winding test), 180-degree longitude window unless the cell touches a pole, corner points identical across n; "
                "non-trivial = distinct (cell, n, closed) cases on the antimeridian or touching a pole")
    run.samples = [{"request": reqs[i], "impl": impl[i][:160], "model": model[i][:160]} for i in rng.sample(range(len(reqs)), 5)]
    run.extra["cells"] = len(cells)
    run.extra["rings_touching_a_pole"] = pole_cells
