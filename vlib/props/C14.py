"""C14 - total API: malformed IDs and out-of-range resolutions give Err, never a crash."""
import math, struct
from .. import core, gen, spec

LEVEL = "proof"
MAXFAN = 4 ** 8


def hx(x):
    return "x" + format(struct.unpack("<Q", struct.pack("<d", x))[0], "016x")


def py_resolution(i):
    """independent re-statement of get_resolution for an arbitrary 64-bit pattern: the highest resolution whose marker bit is set"""
    for r in range(29, -1, -1):
        pos = 59 - 2 * r if r >= 2 else 57 - r
        if (i >> pos) & 1:
            return r
    return -1


def fan(res, R):
    return spec.fanout(res, R) if R >= res else 0


def rand_coord(rng):
    m = rng.random()
    if m < 0.5:
        return rng.uniform(-180, 180), rng.uniform(-90, 90)
    if m < 0.7:
        return rng.choice([0.0, -0.0, 180.0, -180.0, 360.0, 540.0, -540.0, 1e-300, 93.0, -93.0]), rng.choice([0.0, -0.0, 90.0, -90.0, 89.99999999999999, -89.99999999999999, 1e-300])
    if m < 0.85:
        return rng.uniform(-1e6, 1e6), rng.uniform(-90, 90)
    return rng.choice([1e15, -1e15, 1e300, -1e300, 1.7976931348623157e308, 5e-324]), rng.choice([90.0, -90.0, 0.0, 45.0, 91.0, -91.0, 1e6, 1.7976931348623157e308])


def canonical_of(cid, res):
    return spec.decode(cid) is not None and spec.decode(cid)[0] == res


def oracle(q, a):
    t = q.split()
    op = t[0]
    if a == "lost":
        return None        # not run: the stream was cut short after several hangs (each of which is reported)
    if a in ("panic", "abort", "hang"):
        return f"{op} did not return normally: {a}"
    if a == "bad-op":
        return None
    if op == "lonlat_to_cell" and a.startswith("ok "):
        r = int(t[3])
        cid = int(a.split()[1])
        if not (-1 <= r <= 29):
            return f"resolution {r} outside -1..29 was not rejected"
        if not canonical_of(cid, r):
            return f"lookup at resolution {r} returned {cid:#x}, which does not decode to that resolution"
    elif op == "lonlat_to_cell":
        r = int(t[3])
        if -1 <= r <= 29 and a != "err crsVertex":
            return f"lookup at a supported resolution failed: {a}"
    elif op == "cell_to_parent" and a.startswith("ok "):
        cid = int(a[3:])
        src = py_resolution(int(t[1]))
        tgt = src - 1 if t[2] == "none" else int(t[2])
        if not canonical_of(cid, tgt):
            return f"cell_to_parent returned {cid:#x}, not a canonical id of resolution {tgt}"
    elif op == "cell_to_children" and a.startswith("ok "):
        src = py_resolution(int(t[1]))
        tgt = src + 1 if t[2] == "none" else int(t[2])
        for x in ([] if a[3:] == "-" else a[3:].split(",")):
            if not canonical_of(int(x), tgt):
                return f"cell_to_children returned {int(x):#x}, not a canonical id of resolution {tgt}"
    elif op == "uncompact" and a.startswith("ok "):
        R = int(t[2])
        for x in ([] if a[3:] == "-" else a[3:].split(",")):
            if not canonical_of(int(x), R):
                return f"uncompact returned {int(x):#x}, not a canonical id of resolution {R}"
    elif op == "compact" and a.startswith("ok "):
        for x in ([] if a[3:] == "-" else a[3:].split(",")):
            if spec.decode(int(x)) is None:
                return f"compact returned the non-canonical id {int(x):#x}"
    elif op == "get_res0_cells" and a != "ok " + ",".join(str(spec.encode(0, f, ())) for f in range(12)):
        return "get_res0_cells is not the 12 base cells"
    return None


def make_requests(rng, n):
    reqs = []
    for _ in range(n):
        m = rng.random()
        cid = gen.malformed_id(rng)
        r = gen.rand_i32(rng)
        if m < 0.10:
            reqs.append(f"get_resolution {cid}")
        elif m < 0.25:
            reqs.append(f"cell_to_parent {cid} {rng.choice(['none', str(r)])}")
        elif m < 0.40:
            src = py_resolution(cid)
            tgt = rng.choice(["none", str(r)])
            tv = src + 1 if tgt == "none" else int(tgt)
            if fan(src, min(tv, 30)) > MAXFAN and tv <= 30:
                tgt = str(min(29, src + rng.randint(0, 4)))       # honest result above 4^8 cells: out of the property's scope
            reqs.append(f"cell_to_children {cid} {tgt}")
        elif m < 0.50:
            k = rng.choice([0, 1, 2, 3, 6])
            cells = [gen.malformed_id(rng) if rng.random() < 0.6 else gen.rand_cell(rng) for _ in range(k)]
            if rng.random() < 0.25:
                cells = id_run(rng)
            R = r
            if -1 <= R <= 29:
                # honest results above 4^8 cells are out of the property's scope: drop the inputs that would exceed it
                kept, budget = [], MAXFAN
                for c in cells:
                    f = fan(py_resolution(c), R)
                    if f <= budget:
                        kept.append(c)
                        budget -= f
                cells = kept
            reqs.append(f"uncompact {','.join(map(str, cells)) if cells else '-'} {R}")
        elif m < 0.60:
            k = rng.choice([0, 1, 2, 5, 12, 20])
            mode = rng.random()
            if mode < 0.3:
                # the F12 shape: top six bits 60..63 with a resolution-0 marker, followed by larger values
                cells = [((60 + j % 4) << 58) | (1 << 57) | rng.getrandbits(40) for j in range(k)] + [rng.getrandbits(64) | (63 << 58) for _ in range(8)]
            elif mode < 0.5:
                cells = id_run(rng)
            else:
                cells = [gen.malformed_id(rng) if rng.random() < 0.5 else gen.rand_cell(rng) for _ in range(k)]
            reqs.append(f"compact {','.join(map(str, cells)) if cells else '-'}")
        elif m < 0.65:
            reqs.append(f"get_num_cells {r}")
        elif m < 0.70:
            reqs.append(f"cell_area {r}")
        elif m < 0.80:
            lon, lat = rand_coord(rng)
            reqs.append(f"lonlat_to_cell {hx(lon)} {hx(lat)} {r if rng.random() < 0.6 else rng.randint(-1, 30)}")
        elif m < 0.88:
            reqs.append(f"cell_to_lonlat {cid}")
        elif m < 0.95:
            reqs.append(f"cell_to_boundary {cid} {rng.randint(0, 1)} {rng.choice(['none', '1', '2', '5'])}")
        elif m < 0.97:
            reqs.append(f"u64_to_hex {cid}")
        else:
            s = "".join(rng.choice("0123456789abcdefABCDEFxg+- _\0é") for _ in range(rng.choice([0, 1, 2, 8, 16, 17, 20])))
            b = s.encode()
            reqs.append("hex_to_u64 " + (b.hex() if b else "-"))
    return reqs


CORPUS = [
    "lonlat_to_cell x0000000000000000 x0000000000000000 30", "lonlat_to_cell x0000000000000000 x0000000000000000 -5",
    "lonlat_to_cell x0000000000000000 x0000000000000000 2147483647", "lonlat_to_cell x0000000000000000 x0000000000000000 -2147483648",
    f"cell_to_children {spec.encode(29, 7, (1,) * 28)} none", "uncompact 0 2147483647", f"uncompact {spec.encode(3, 7, (1, 2))} -2147483648",
    "get_num_cells 31", "get_num_cells 2147483647", "cell_area 2147483647", "cell_area 31", "cell_to_lonlat 1", "cell_to_boundary 1 1 none",
    "cell_to_lonlat 288230376151711744", "cell_to_lonlat 4", f"cell_to_children {spec.encode(3, 7, (1, 2)) | 1} 3", f"cell_to_parent {spec.encode(3, 7, (1, 2)) | 1} 3",
    f"uncompact {spec.encode(3, 7, (1, 2)) | 1} 3",
    "compact " + ",".join(str(((60 + j % 4) << 58) | (1 << 57)) for j in range(12)) + "," + ",".join(str((63 << 58) | (1 << 57) | (j + 1)) for j in range(8)),
    "get_res0_cells",
]


def id_run(rng):
    """a run of ids in arithmetic progression (one sibling stride apart) that walks OFF the end of something: the last cells of a
    quintant / a face / the whole id space at some resolution followed by the values the same step produces next (top six bits 60:
    not a cell).  A list that 'continues the pattern' must be validated element by element."""
    r = rng.randint(2, 29)
    stride = 1 << (58 - 2 * (r - 1))
    T = rng.choice([59, 59, 59, rng.randrange(60), 5 * rng.randrange(12) + 4])
    last = spec.encode(r, T, (3,) * (r - 1))
    before = rng.randint(0, 3)
    after = rng.randint(1, 3)
    out = [(last + j * stride) & ((1 << 64) - 1) for j in range(-before, after + 1)]
    if rng.random() < 0.2:
        out.reverse()
    return out


def run(run):
    rng = run.rng
    run.do_ties()
    quick = run.quick
    reqs = CORPUS + make_requests(rng, run.n(2500, 120000))
    outcomes = {}
    for profile in ("debug", "release"):
        exe = core.harness(run, profile)
        impl = core.run_isolated(exe, reqs, mem_bytes=2 << 30, timeout_total=1200)
        if profile == "debug":
            model = core.run_driver(reqs, timeout=1200)
        n0 = len(run.corr_disagreements)
        run.correspond(reqs, impl, model, None, f"malformed-stream[{profile}]")
        if len(run.corr_disagreements) == n0:
            # the same calls again in another order, with duplicates (a rejected call repeated must be rejected again) and
            # rejected calls of the same family in between: no call may leave a trace that changes a later answer
            core.reordered_pass(run, exe, reqs, model, None, f"malformed-stream[{profile}]", True, 900)
        for q, a in zip(reqs, impl):
            run.evaluations += 1
            msg = oracle(q, a)
            if msg:
                run.violation(f"[{profile} build] " + msg, q[:500], a[:200])
            cls = q.split()[0] + ":" + (a.split()[0] + (" " + a.split()[1] if a.startswith("err") and len(a.split()) > 1 else ""))
            outcomes[cls] = outcomes.get(cls, 0) + 1
            if not a.startswith("ok"):
                run.nontrivial.add(q)
    # results too large to allocate (up to 5 * 4^20 cells = 44 TB): outside the model (which would have to enumerate them) AND outside the
    # property's quantifier ("calls whose honest result would exceed 4^8 cells are out of scope"): what the library does there is
    # recorded as an observation in the evidence, never as a violation.  (It used to abort in the allocator - F15 - and reports an
    # error since d60a9a0.)
    b0, q7 = spec.encode(0, 0, ()), spec.encode(1, 7, ())
    huge = [f"uncompact {b0} 21", f"cell_to_children {b0} 21", f"uncompact {b0},{b0} 20", "cell_to_children 0 21", f"uncompact {q7},{b0} 21",
            f"cell_to_children {q7} 21", "uncompact 0 20", f"cell_to_children {spec.encode(2, 7, (1,))} 22", "get_res0_cells"]
    for profile in ("debug", "release"):
        hx_ = core.harness(run, profile)
        hout = core.run_stream(hx_, huge, args=["--flush"], timeout=600, isolate=True, mem_bytes=2 << 30, per_line_timeout=120, max_hangs=2)
        for q, a in zip(huge, hout):
            run.evaluations += 1
            run.extra.setdefault("huge_result_calls_observed", {})[f"{profile}: {q[:60]}"] = a[:40]
    # internal helpers (pub only for testing): the overflow-checked build must behave exactly as the model's outcome type says,
    # including the u32 doubling overflow for resolutions above 30 (correspondence only; not part of the public API the property quantifies over)
    hreq = []
    for r in [2, 29, 30, 31, 32, 45, 64, 1000, 2147483647, -1, -5, -2147483648]:
        hreq.append(f"get_stride {r}")
        hreq.append(f"is_first_child {gen.rand_cell(rng)} {r}")
    hexe = core.harness(run, "debug")
    himpl = core.run_isolated(hexe, hreq, mem_bytes=2 << 30, timeout_total=300)
    hmodel = core.run_driver(hreq, timeout=300)
    run.correspond(hreq, himpl, hmodel, None, "internal-helpers[debug]")
    run.rule = ("corpus of the repaired crash inputs first, then a malformed stream over all 13 public functions: random u64, runs of ids one stride apart that walk off the end of a quintant / a face / the id space, canonical ids with stray low bits, marker-only patterns with any top six bits, "
                "top bits 60..63, aliases of the world cell, single-bit flips x i32 resolutions (small, boundary 29/30/31, extremes) x finite coordinates incl. 1e300 and sub-normals; "
                "each line run in BOTH an overflow-checked debug build and a release build of the harness with a 2 GiB address-space limit (crash or hang = lost line, reported); "
                "calls whose honest result exceeds 4^8 cells are steered back into scope for the model comparison, and nine requests with results of up to 44 TB are run on the implementation alone and their outcome is recorded (out of the property's scope: an observation, not a verdict); a sample of the stream is run again in shuffled order with immediate duplicates and rejected calls in between (answers must equal the pure model's); non-trivial = distinct requests that did not simply succeed")
    run.samples = [{"request": q[:200], "impl": a[:120]} for q, a in list(zip(reqs, impl))[:4]] + [{"request": reqs[i][:200], "impl": impl[i][:120]} for i in rng.sample(range(len(reqs)), 4)]
    run.extra["outcome_distribution"] = dict(sorted(outcomes.items()))
