"""C05 - cell-ID codec (bits and hex) is a bijection with the documented layout."""
from .. import bulk, core, gen, spec

LEVEL = "proof"


def _cells_upto(rmax):
    for r in range(-1, rmax + 1):
        for c in gen.all_cells(r):
            yield c


def tuple_of(cid, fq):
    """(origin, segment, s, res) the library reports for canonical id `cid`; fq = first_quintant per face"""
    res, T, dg = spec.decode(cid)
    if res == -1:
        return (0, 0, 0, -1)
    if res == 0:
        return (T, 0, 0, 0)
    f, k = divmod(T, 5)
    s = 0
    for d in dg:
        s = s * 4 + d
    return (f, (k + fq[f]) % 5, s, res)


# first quintant per face as documented for the reference layout (QUINTANT_FIRST read through ORIGIN_ORDER); the stored quintant
# code of segment sg on face f is (sg + 5 - FQ[f]) % 5.  Kept as literals on purpose: the oracle must not learn the layout from the code under test.
FQ = [4, 2, 3, 0, 2, 4, 2, 2, 3, 0, 3, 0]


def oracle(q, a):
    """property verdict on one implementation response (None = fine)"""
    t = q.split()
    op = t[0]
    if op == "serialize":
        o, sg, s, r = int(t[1]), int(t[2]), int(t[3]), int(t[4])
        valid = (r == -1) or (0 <= r <= 29 and o < 12 and sg < 5 and (s < 4 ** (r - 1) if r >= 2 else True))
        if not (o < 12 and sg < 5):
            return None   # not a cell description (face 0-11, quintant 0-4): outside the property; correspondence only
        if a in ("panic", "abort", "hang", "lost"):
            return f"{op} did not return normally: {a}"
        if a.startswith("ok "):
            cid = int(a[3:])
            d = spec.decode(cid)
            if d is None:
                return f"serialize returned an id outside the documented layout: {cid:#x}"
            if d[0] != r:
                return f"encoded resolution {r} reads back as {d[0]}"
            if r >= 1 and d[1] // 5 != o:
                return "face bits wrong"
            if r >= 1 and d[1] % 5 != (sg + 5 - FQ[o]) % 5:
                return f"quintant code in the six leading bits is {d[1] % 5}, the documented layout says {(sg + 5 - FQ[o]) % 5} for segment {sg} of face {o}"
            if r == 0 and d[1] != o:
                return "face bits wrong"
            if r >= 2:
                v = 0
                for x in d[2]:
                    v = v * 4 + x
                if v != s:
                    return "curve bits wrong"
        elif valid and r >= 0:
            return f"valid cell rejected: {a}"
    elif a in ("panic", "abort", "hang", "lost"):
        return f"{op} did not return normally: {a}"
    elif op == "deserialize":
        d = spec.decode(int(t[1]))
        if d is not None and d[0] >= 0:
            want = tuple_of(int(t[1]), FQ)
            if a != "ok " + " ".join(map(str, want)):
                return f"canonical id decodes to {a}, the documented layout says {want}"
    elif op == "get_resolution":
        d = spec.decode(int(t[1]))
        if d is not None and a != f"ok {d[0]}":
            return f"resolution of a canonical id read as {a}, encoded {d[0]}"
    elif op == "u64_to_hex":
        n = int(t[1])
        if not a.startswith("ok "):
            return "u64_to_hex failed"
        h = a[3:]
        if h != format(n, "x"):
            return f"hex form {h!r} is not the canonical lower-case form of {n}"
    elif op == "hex_to_u64":
        raw = bytes.fromhex(t[1]) if t[1] != "-" else b""
        try:
            sraw = raw.decode("utf-8")
        except UnicodeDecodeError:
            return None
        body = sraw[1:] if sraw.startswith("+") else sraw
        good = len(body) > 0 and all(c in "0123456789abcdefABCDEF" for c in body)
        if good and int(body, 16) < 2 ** 64:
            if a != f"ok {int(body, 16)}":
                return f"hex string {sraw!r} parsed to {a}"
        else:
            if not a.startswith("err"):
                return f"malformed / oversized hex string {sraw!r} accepted: {a}"
    return None


def run(run):
    rng = run.rng
    run.do_ties()
    quick = run.quick
    # ---------------------------------------------------------------- correspondence + oracle
    reqs = []
    rmax = 5 if quick else 8
    cells = list(_cells_upto(rmax))
    # first_quintant per face as reported by the implementation (through deserialize of res-1 cells)
    probe = [f"deserialize {spec.encode(1, 5 * f, ())}" for f in range(12)]
    pr = core.impl_only(run, probe)
    fq = []
    for a in pr:
        t = a.split()
        fq.append(int(t[2]) if t[0] == "ok" else 0)
    n_random = run.n(3000, 60000)
    for _ in range(n_random):
        cells.append(gen.rand_cell(rng, lo=6))
    for c in cells:
        reqs.append(f"deserialize {c}")
        reqs.append(f"get_resolution {c}")
        o, sg, s, r = tuple_of(c, fq)
        reqs.append(f"serialize {o} {sg} {s} {r}")
    # invalid descriptions and malformed ids
    for _ in range(run.n(2000, 40000)):
        reqs.append(f"deserialize {gen.malformed_id(rng)}")
        reqs.append(f"get_resolution {gen.malformed_id(rng)}")
        r = rng.choice([-3, -2, -1, 0, 1, 2, 3, 15, 28, 29, 30, 31, 40])
        L = max(r - 1, 0)
        s = rng.choice([0, 4 ** L - 1 if L < 32 else 0, 4 ** L if L < 32 else 1, rng.getrandbits(64)])
        reqs.append(f"serialize {rng.randrange(14)} {rng.randrange(7)} {s} {r}")
    # hex
    hexvals = [0, 1, 15, 16, 255, 2 ** 63, 2 ** 64 - 1, 2 ** 32, 2 ** 58, 0x03ffffffffffffff] + [1 << k for k in range(64)]
    hexvals += [gen.rand_cell(rng) for _ in range(run.n(500, 20000))]
    hexvals += [rng.getrandbits(rng.randint(1, 64)) for _ in range(run.n(500, 20000))]
    for n in hexvals:
        reqs.append(f"u64_to_hex {n}")
        reqs.append("hex_to_u64 " + format(n, "x").encode().hex())
    alphabet = list("0123456789abcdefABCDEF") * 3 + list("+-_xg \0") + ["é", "٣", "Ａ"]
    strings = ["", "+", "-", "-1", "0x10", " 1", "1 ", "ff_ff", "é", "+ff", "++1", "+-1", "0" * 20 + "1", "f" * 16, "1" + "0" * 16,
               "F" * 16, "ffffffffffffffff0", "10000000000000000", "+0", "00", "g"]
    for _ in range(run.n(3000, 100000)):
        L = rng.choice([0, 1, 2, 3, 8, 15, 16, 17, 18, 20])
        if rng.random() < 0.6:
            strings.append("".join(rng.choice("0123456789abcdefABCDEF") for _ in range(L)))
        else:
            strings.append("".join(rng.choice(alphabet) for _ in range(L)))
    for s in strings:
        b = s.encode("utf-8")
        reqs.append("hex_to_u64 " + (b.hex() if b else "-"))
    impl, model = core.both(run, reqs, "codec+hex")
    ids_seen = {}
    branches = {}
    for q, a in zip(reqs, impl):
        run.evaluations += 1
        msg = oracle(q, a)
        if msg:
            run.violation(msg, q, a)
        op = q.split()[0]
        key = op + ":" + a.split()[0]
        branches[key] = branches.get(key, 0) + 1
        if op == "serialize" and a.startswith("ok "):
            cid = int(a[3:])
            t = tuple(q.split()[1:])
            r_ = int(t[3])
            normal = int(t[0]) < 12 and int(t[1]) < 5 and (r_ >= 2 or int(t[2]) == 0) and (r_ >= 1 or int(t[1]) == 0)
            if r_ != -1 and normal:   # injectivity is claimed for descriptions in normal form (no quintant at r=0, no position below r=2)
                if cid in ids_seen and ids_seen[cid] != t:
                    run.violation("two different cell descriptions share an id", [q, "serialize " + " ".join(ids_seen[cid])], a)
                ids_seen[cid] = t
                if spec.decode(cid)[0] >= 1:
                    run.nontrivial.add(cid)
    # decode . encode on the implementation: deserialize of canonical id gives back the tuple we asked to serialize
    k = 0
    for i in range(0, 3 * len(cells), 3):
        d, s = impl[i], impl[i + 2]
        cid = cells[i // 3]
        if not (d.startswith("ok ") and s == f"ok {cid}"):
            run.violation("encode(decode(id)) != id for a canonical id", reqs[i], f"{d} / {s}")
        k += 1
    # every single-bit variant of every cell of resolutions -1, 0, 1 (and of a sample of deeper cells) through every function that
    # takes ids and returns ids: whatever is returned must be canonical, and the model decides which variants are spellings of a cell
    # (a stray bit below the marker, bit 57 of a quintant id ...) and which are not cells at all
    flips = []
    low = [0] + [spec.encode(0, f, ()) for f in range(12)] + [spec.encode(1, T, ()) for T in range(60)]
    low += [gen.rand_cell(rng, lo=2) for _ in range(run.n(40, 2000))]
    for c in low:
        for b in range(64):
            flips.append(c ^ (1 << b))
    freqs = []
    for x in flips:
        m = rng.random()
        freqs.append(f"compact {x}")
        if m < 0.35:
            freqs.append(f"cell_to_parent {x} none")
            freqs.append(f"cell_to_children {x} none")
        elif m < 0.5:
            y = rng.choice(flips)
            freqs.append(f"compact {x},{y}")
            freqs.append(f"uncompact {x} {rng.randint(0, 4)}")
    fimpl, fmodel = core.both(run, freqs, "single-bit spellings")
    for q, a in zip(freqs, fimpl):
        run.evaluations += 1
        if a.startswith("ok ") and a[3:] != "-":
            try:
                outs = [int(v) for v in a[3:].split(",")]
            except ValueError:
                continue
            bad = [v for v in outs if spec.decode(v) is None]
            if bad:
                run.violation(f"an id returned by {q.split()[0]} is not in canonical form: {bad[0]:#x}", q, a[:200])
            elif q.startswith("compact ") and len(set(outs)) != len(outs):
                run.violation("compact returned the same id twice", q, a[:200])
            else:
                run.nontrivial.add(q)
    # bulk: compact on more than 2^20 ids with non-canonical spellings among them: every returned id canonical, one id per cell
    bulk.check_compact(run, bulk.compact_requests(run)[-2:], "compact (bulk, non-canonical spellings)")
    run.rule = ("every single-bit variant of every cell of resolutions -1..1 (and of sampled deeper cells) through compact / cell_to_parent / cell_to_children / uncompact (returned ids canonical, model decides what is a spelling); compact on >2^20 ids incl. duplicates and non-canonical spellings (digest vs model and vs the expected canonical cover); exhaustive over all cells of resolution <= %d, plus random/boundary/bit-pattern cells up to r=29, malformed ids, "
                "invalid descriptions, hex boundaries/single bits/random values and random short strings; "
                "non-trivial = distinct ids of resolution >= 1 produced by the implementation's serialize" % rmax)
    run.samples = [{"request": reqs[i], "impl": impl[i], "model": model[i]} for i in rng.sample(range(len(reqs)), 8)]
    run.extra["distribution"] = branches
    run.extra["exhaustive_up_to_resolution"] = rmax
