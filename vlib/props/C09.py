"""C09 - uncompact returns exactly the descendants at the target resolution."""
from .. import bulk, core, gen, spec

LEVEL = "proof"
MAXFAN = 4 ** 8


def parse_list(a):
    if not a.startswith("ok "):
        return None
    return [] if a[3:] == "-" else [int(x) for x in a[3:].split(",")]


def oracle(q, a):
    t = q.split()
    cells = [] if t[1] == "-" else [int(x) for x in t[1].split(",")]
    R = int(t[2])
    if a in ("panic", "abort", "hang", "lost"):
        return f"uncompact did not return normally: {a}"
    ress = [spec.decode(c)[0] for c in cells]
    finer = any(r > R for r in ress)
    if R > 29:
        return None if a.startswith("err") else f"target {R} above the maximum was not rejected: {a[:80]}"
    if finer:
        return None if a.startswith("err") else "an input finer than the target did not give an error (and no output)"
    if any(R - max(r, 1) > 20 for r in ress):
        return None   # beyond the per-call guard of cell_to_children: out of the property's bounded-fan-out scope
    v = parse_list(a)
    if v is None:
        return f"uncompact failed although no input is finer than the target: {a}"
    exp_len = sum(spec.fanout(r, R) for r in ress)
    if len(v) != exp_len:
        return f"{len(v)} cells returned, the sum of the fan-outs is {exp_len}"
    pos = 0
    for c, r in zip(cells, ress):
        n = spec.fanout(r, R)
        block = v[pos:pos + n]
        pos += n
        if len(set(block)) != n:
            return f"outputs of input {c:#x} are not distinct"
        for x in block:
            d = spec.decode(x)
            if d is None or d[0] != R:
                return f"output {x:#x} is not a canonical id of resolution {R}"
            if spec.ancestor_at(x, r) != c:
                return f"output {x:#x} (in the block of input {c:#x}) does not descend from it"
    return None


def run(run):
    rng = run.rng
    run.do_ties()
    quick = run.quick
    reqs = []
    for _ in range(run.n(600, 20000)):
        m = rng.random()
        n = rng.choice([0, 1, 1, 2, 3, 5, 9])
        R = rng.randint(-1, 29)
        cells = []
        budget = MAXFAN
        for _ in range(n):
            mode = rng.random()
            if mode < 0.75:
                lo = max(-1, R - rng.choice([0, 0, 1, 2, 3, 5, 8]))
                r = rng.randint(lo, max(lo, R))
            elif mode < 0.9:
                r = rng.randint(-1, 29)          # may be finer than the target
            else:
                r = rng.choice([-1, 0, 1])       # world cell / base cells / quintants
            c = gen.rand_cell(rng, r)
            f = spec.fanout(r, R) if r <= R else 0
            if f > budget:
                continue
            budget -= f
            cells.append(c)
        if 0.05 <= m < 0.25:
            # structured lists: runs of consecutive siblings (each the next cell on the curve after the previous one) expanded by
            # 3..5 levels, with cells that are already at the target resolution in between and around them, in curve order or not
            r0 = rng.randint(1, 24)
            par = gen.rand_cell(rng, r0)
            sib = spec.children(par)
            d = rng.choice([3, 4, 4, 5])
            R = min(29, r0 + 1 + d)
            run_ = sib[rng.randrange(len(sib) - 1):][: rng.choice([2, 2, 3])]
            cells = []
            for a_ in run_:
                cells.append(a_)
                for _ in range(rng.choice([0, 1, 1, 2, 3])):
                    cells.append(gen.rand_cell(rng, R))
            if rng.random() < 0.2:
                rng.shuffle(cells)
        if m < 0.05:
            R = rng.choice([30, 31, 2147483647, -2, -2147483648])
        reqs.append(f"uncompact {','.join(map(str, cells)) if cells else '-'} {R}")
    # deterministic corner cases: world and base cells through the aperture changes, duplicates, same resolution
    reqs += ["uncompact 0 -1", "uncompact 0 0", "uncompact 0 1", "uncompact 0 2", "uncompact 0 3", "uncompact 0,0 1",
             f"uncompact {spec.encode(0, 3, ())} 0", f"uncompact {spec.encode(0, 3, ())} 4", f"uncompact {spec.encode(1, 17, ())},{spec.encode(0, 3, ())} 3",
             f"uncompact {spec.encode(29, 59, (3,) * 28)} 29", f"uncompact {spec.encode(29, 59, (3,) * 28)} 28", f"uncompact {spec.encode(28, 0, (0,) * 27)} 29",
             f"uncompact {spec.encode(2, 5, (1,))},{spec.encode(5, 5, (1, 2, 3, 0))} 4"]
    impl, model = core.both(run, reqs, "uncompact")
    kinds = {}
    for q, a in zip(reqs, impl):
        run.evaluations += 1
        msg = oracle(q, a)
        if msg:
            run.violation(msg, q[:400], a[:300])
        k = a.split()[0] + (":" + a.split()[1] if a.startswith("err") else "")
        kinds[k] = kinds.get(k, 0) + 1
        if a.startswith("ok ") and "," in a:
            run.nontrivial.add(q)
    # bulk: expansions with 6*10^4 .. 6*10^6 results from lists of 5..29 cells (lengths coprime to small thread counts), mixed resolutions
    bulk.check(run, bulk.uncompact_requests(run), "uncompact (bulk)", profiles=("release", "debug"))
    run.rule = ("bulk expansions (lists of 5..29 cells, 6e4..6e6 results, mixed resolutions; digest vs model, length and id sum vs the tree in closed form); random lists (0..9 cells, mixed resolutions incl. world/base/quintant cells, duplicates) x targets -1..29 with total fan-out <= 4^8, "
                "20% structured lists (runs of consecutive siblings expanded by 3-5 levels with cells already at the target resolution in between), 15% inputs possibly finer than the target, out-of-range targets; oracle = independent tree semantics, per-input blocks in input order; "
                "non-trivial = distinct requests whose result has more than one cell")
    run.samples = [{"request": reqs[i][:200], "impl": impl[i][:200], "model": model[i][:200]} for i in rng.sample(range(len(reqs)), 6)]
    run.extra["outcome_distribution"] = kinds
