"""C03 - cells of one resolution partition the sphere: no overlaps, no gaps."""
import math
from .. import core, gen, spec, geo
from .C01 import cell_size

LEVEL = "proof"


DECIDED = 1.2e-3


def hug_points(run, cells):
    """points hugging the reported edges of the given cells from both sides, 0.25% .. 2% of a cell size away: in a partition
    the inner ones belong to the cell alone and the outer ones to exactly one neighbour - displaced edges (overlap slivers,
    gaps) show up here even when they are far too thin for random points."""
    rng = run.rng
    rr = core.impl_only(run, [f"cell_to_boundary {c} 1 6" for c in cells])
    pts = []
    for c, a in zip(cells, rr):
        ring = geo.parse_ring(a)
        r = spec.res_of(c)
        if not ring or r is None or r < 0:
            continue
        if any(abs(la) > 89.5 for lo, la in ring):
            continue
        u = lambda lo, la: (math.cos(math.radians(la)) * math.cos(math.radians(lo)), math.cos(math.radians(la)) * math.sin(math.radians(lo)), math.sin(math.radians(la)))
        vs = [u(lo, la) for lo, la in ring]
        for i in range(len(vs) - 1):
            a0, b0 = vs[i], vs[i + 1]
            nrm = geo.cross(a0, b0)
            if geo.norm(nrm) == 0:
                continue
            nrm = geo.unit(nrm)
            t = rng.random()
            m = geo.unit((a0[0] + t * (b0[0] - a0[0]), a0[1] + t * (b0[1] - a0[1]), a0[2] + t * (b0[2] - a0[2])))
            d = rng.choice([2.5e-3, 6e-3, 2e-2]) * cell_size(r) * rng.choice([1, -1])
            q = geo.unit((m[0] + d * nrm[0], m[1] + d * nrm[1], m[2] + d * nrm[2]))
            pts.append(("hug", math.degrees(math.atan2(q[1], q[0])), math.degrees(math.asin(max(-1.0, min(1.0, q[2])))), r))
    return pts


def focus_points(run, limit):
    """points around the inputs on which implementation and model disagree: the places where the behaviour of the code
    changed.  For every such input, a cloud of points within 1.5 cell sizes at the same resolution."""
    rng = run.rng
    seeds = []
    for d in run.corr_disagreements:
        t = d["request"].split()
        try:
            if t[0] == "lonlat_to_cell":
                seeds.append((geo.fx(t[1]), geo.fx(t[2]), int(t[3])))
            elif t[0] == "contains":
                r = spec.res_of(int(t[1]))
                if r is not None and r >= 0:
                    seeds.append((geo.fx(t[2]), geo.fx(t[3]), r))
        except (ValueError, IndexError):
            continue
    rng.shuffle(seeds)
    pts = []
    per = 24
    for lon, lat, r in seeds[: max(1, limit // 4)]:
        s = math.degrees(cell_size(r))
        for _ in range(per):
            rad = rng.choice([0.02, 0.1, 0.3, 0.7, 1.5]) * rng.random()
            a = rng.uniform(0, 2 * math.pi)
            la = lat + rad * s * math.sin(a)
            lo = lon + rad * s * math.cos(a) / max(0.05, math.cos(math.radians(lat)))
            if abs(la) <= 89.9999:
                pts.append(("focus", lo, la, r))
    return pts


def run(run):
    rng = run.rng
    run.do_ties()
    quick = run.quick
    # points: uniform + next to the seams between quintants / faces / at dodecahedron vertices (rings of coarse cells)
    coarse = [spec.encode(0, f, ()) for f in range(12)] + [spec.encode(1, T, ()) for T in range(60)]
    cr = core.impl_only(run, [f"cell_to_boundary {c} 1 4" for c in coarse])
    rings = [geo.parse_ring(a) for a in cr if geo.parse_ring(a)]
    pts = []
    n = run.n(220, 12000)
    for _ in range(n):
        r = rng.randint(0, 29)
        if rng.random() < 0.6:
            z = rng.uniform(-1, 1)
            lon, lat = rng.uniform(-180, 180), math.degrees(math.asin(z))
            kind = "uniform"
        else:
            ring = rng.choice(rings)
            i = rng.randrange(len(ring) - 1)
            t = rng.choice([0.0, 0.5, rng.random()])          # t = 0: a vertex of a coarse cell (dodecahedron vertex / face centre / edge midpoint)
            lon = ring[i][0] + t * (ring[i + 1][0] - ring[i][0])
            lat = ring[i][1] + t * (ring[i + 1][1] - ring[i][1])
            # step away from the seam by a fraction of a cell of resolution r, so that the point is decided
            step = math.degrees(cell_size(r)) * rng.choice([0.05, 0.2, 0.5, 1.5]) * rng.choice([1, -1])
            lat = max(-89.9, min(89.9, lat + step * rng.choice([1, 0.3])))
            lon = lon + step * rng.choice([0.0, 1.0]) / max(0.05, math.cos(math.radians(lat)))
            kind = "seam"
        if rng.random() < 0.08:
            # next to a pole (the lookup is reliable there since fix 24ee3fd): 1e-8 .. 1 degree away
            lat = rng.choice([1, -1]) * (90.0 - 10 ** rng.uniform(-8, 0)); lon = rng.uniform(-180, 180); kind = "polar"
        if abs(lat) > 89.99999999:
            continue
        pts.append((kind, lon, lat, r))
    state = {}

    def evaluate(pts, tag):
        # gather candidate cells: the lookup at the point and at 3 rings of 8 probe points around it
        lreq, owner = [], []
        for k, (kind, lon, lat, r) in enumerate(pts):
            s = math.degrees(cell_size(r))
            lreq.append(f"lonlat_to_cell {geo.hx(lon)} {geo.hx(lat)} {r}"); owner.append(k)
            for rad in (0.6, 1.2, 2.0):
                for j in range(8):
                    a = 2 * math.pi * j / 8 + rad
                    la = max(-90.0, min(90.0, lat + rad * s * math.sin(a)))
                    lo = lon + rad * s * math.cos(a) / max(0.02, math.cos(math.radians(lat)))
                    lreq.append(f"lonlat_to_cell {geo.hx(lo)} {geo.hx(la)} {r}"); owner.append(k)
        limpl, lmodel = core.both(run, lreq, "lonlat_to_cell")
        cands = {}
        for k, a in zip(owner, limpl):
            if a.startswith("ok "):
                cands.setdefault(k, set()).add(int(a.split()[1]))
        creq, cmeta = [], []
        for k, cs in cands.items():
            kind, lon, lat, r = pts[k]
            for c in sorted(cs):
                creq.append(f"contains {c} {geo.hx(lon)} {geo.hx(lat)}"); cmeta.append((k, c))
        cimpl, cmodel = core.both(run, creq, "contains")
        claims = {}
        for (k, c), a in zip(cmeta, cimpl):
            if a.startswith("ok "):
                claims.setdefault(k, []).append((c, geo.fx(a.split()[1])))
        # independent check with the reported boundaries for the cells that claim the point (and the best runner-up)
        breq, bmeta = [], []
        for k, lst in claims.items():
            kind, lon, lat, r = pts[k]
            for c, dval in sorted(lst, key=lambda x: -x[1])[:3]:
                breq.append(f"cell_to_boundary {c} 1 {32 if r > 3 else 64}"); bmeta.append((k, c, dval))
        bimpl = core.impl_only(run, breq)
        ringclaims = {}
        for (k, c, dval), b in zip(bmeta, bimpl):
            ring = geo.parse_ring(b)
            if ring:
                kind, lon, lat, r = pts[k]
                inside, dist = geo.winding_contains(ring, lon, lat)
                ringclaims.setdefault(k, []).append((c, inside, dist / cell_size(r), dval))
        for k, lst in claims.items():
            run.evaluations += 1
            kind, lon, lat, r = pts[k]
            q = f"lonlat_to_cell {geo.hx(lon)} {geo.hx(lat)} {r}"
            inside = [c for c, d in lst if d > 0.0]
            near = [d for c, d in lst if d <= 0.0 and d > -1e-9]
            rc = ringclaims.get(k, [])
            floor = max(DECIDED, 2e-11 / cell_size(r))       # never decide inside the 1e-12 rad rounding band of the projection pair
            decided = all(x[2] > floor for x in rc)          # not within 0.12% of a cell size of any candidate's ring (32/64-segment edges)
            if len(inside) >= 2 and decided:
                # two cells claim the point strictly in the planar containment test, and the point is clear of every candidate's reported edge
                both = [x for x in rc if x[0] in inside and x[1]]
                if len(both) >= 2:
                    run.violation(f"two different cells of resolution {r} contain the point strictly: {inside[0]:#x} and {inside[1]:#x} ({kind})", q, str(lst[:4]))
                else:
                    out = [x for x in rc if x[0] in inside and not x[1]]
                    # the planar test projects the point relative to the CELL's face; that chart covers the face and the mirrored
                    # triangles beyond its edges, not the far side of a neighbouring face: a positive answer for a cell that is
                    # further away than min(1 cell size, 0.15 rad) is outside the property (coarse resolutions only)
                    reach = min(1.0, 0.15 / cell_size(r))
                    if not out or all(x[2] > reach for x in out):
                        continue
                    run.violation(f"two different cells of resolution {r} claim the point strictly in the containment test ({inside[0]:#x}, {inside[1]:#x}), "
                                  f"although the point lies outside the reported boundary of {out[0][0] if out else 0:#x} by {out[0][2] if out else 0:.3g} cell sizes ({kind})", q, str(lst[:4]))
            elif len(inside) == 0 and not near and decided:
                run.violation(f"no cell of resolution {r} in the two-ring neighbourhood contains the point: gap ({kind})", q, str(sorted(lst, key=lambda x: -x[1])[:3]))
            if decided and len(lst) >= 3:
                run.nontrivial.add((tag, k))
            if decided and rc:
                n_in = sum(1 for x in rc if x[1])
                if n_in >= 2:
                    run.violation(f"the reported boundaries of two cells of resolution {r} both contain the point ({kind})", q, str([(hex(x[0]), round(x[2], 4)) for x in rc]))

        state['creq'], state['cimpl'], state['cmodel'], state['cands'] = creq, cimpl, cmodel, cands

    evaluate(pts, "main")
    main = dict(state)
    # edge-hugging points of cells next to seams (owners of the seam points) and of random cells
    seam_cells = sorted({c for k, cs in main['cands'].items() if pts[k][0] == "seam" for c in cs})
    rng.shuffle(seam_cells)
    hug_cells = seam_cells[: run.n(25, 600)] + [gen.rand_cell(rng, lo=0) for _ in range(run.n(10, 300))]
    hp = hug_points(run, hug_cells)
    rng.shuffle(hp)
    hp = hp[: run.n(500, 15000)]
    evaluate(hp, "hug")
    run.extra["edge_hugging_points"] = len(hp)
    # escalation: when implementation and model disagree, search around the disagreeing inputs (where the behaviour changed)
    if run.corr_disagreements and not run.violations:
        focus = focus_points(run, run.n(60, 400))
        fcells = set()
        for d in run.corr_disagreements:
            for side in ("impl", "model"):
                t = d[side].split()
                if d["request"].startswith("lonlat_to_cell") and len(t) >= 2 and t[0] == "ok" and t[1].isdigit():
                    fcells.add(int(t[1]))
            if d["request"].startswith("contains"):
                fcells.add(int(d["request"].split()[1]))
        fcells = sorted(fcells)
        rng.shuffle(fcells)
        fh = hug_points(run, fcells[: run.n(40, 400)])
        run.note(f"correspondence disagreements: focused search on {len(focus)} points around them and {len(fh)} edge-hugging points of the cells involved")
        if focus or fh:
            evaluate(focus + fh, "focus")
        run.extra["focused_points"] = len(focus) + len(fh)
    creq, cimpl, cmodel, cands = main['creq'], main['cimpl'], main['cmodel'], main['cands']
    run.rule = ("points (60% uniform, 40% stepped 0.05..1.5 cell sizes away from edges / vertices of base cells and quintants, i.e. quintant borders, dodecahedron edges and vertices) x random resolutions 0..29, 8% of the points 1e-8..1 degree from a pole; "
                "for each point the candidate set = cells returned for the point and for 24 probe points on three rings (0.6 / 1.2 / 2 cell sizes); "
                "the planar containment test (impl) and an independent winding test on the reported boundaries must give exactly one strict owner; "
                "plus edge-hugging points (0.25% / 0.6% / 2% of a cell size inside and outside the reported edges of cells next to seams and of random cells); "
                "when implementation and model disagree anywhere, a focused pass around the disagreeing inputs and along the edges of the cells involved; "
                "non-trivial = distinct decided points with >= 3 candidate cells")
    run.samples = [{"request": creq[i], "impl": cimpl[i], "model": cmodel[i]} for i in rng.sample(range(len(creq)), 6)]
    run.extra["points"] = len(pts)
    run.extra["candidate_cells_per_point_mean"] = round(sum(len(v) for v in cands.values()) / max(1, len(cands)), 2)
