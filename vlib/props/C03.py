"""C03 - cells of one resolution partition the sphere: no overlaps, no gaps."""
import math
from .. import core, gen, spec, geo
from .C01 import cell_size

LEVEL = "proof"


def run(run):
    rng = run.rng
    run.do_ties()
    quick = run.tier == "quick"
    # points: uniform + next to the seams between quintants / faces / at dodecahedron vertices (rings of coarse cells)
    coarse = [spec.encode(0, f, ()) for f in range(12)] + [spec.encode(1, T, ()) for T in range(60)]
    cr = core.impl_only(run, [f"cell_to_boundary {c} 1 4" for c in coarse])
    rings = [geo.parse_ring(a) for a in cr if geo.parse_ring(a)]
    pts = []
    n = 220 if quick else 12000
    for _ in range(n):
        r = rng.randint(0, 29)
        if rng.random() < 0.6:
            z = rng.uniform(-1, 1)
            lon, lat = rng.uniform(-180, 180), math.degrees(math.asin(z))
            kind = "uniform"
        else:
            ring = rng.choice(rings)
            i = rng.randrange(len(ring) - 1)
            t = rng.choice([0.0, 0.5, rng.random()])          # t = 0: a vertex of a coarse cell (dodecahedron vertex / face centre / edge midpoint)
            lon = ring[i][0] + t * (ring[i + 1][0] - ring[i][0])
            lat = ring[i][1] + t * (ring[i + 1][1] - ring[i][1])
            # step away from the seam by a fraction of a cell of resolution r, so that the point is decided
            step = math.degrees(cell_size(r)) * rng.choice([0.05, 0.2, 0.5, 1.5]) * rng.choice([1, -1])
            lat = max(-89.9, min(89.9, lat + step * rng.choice([1, 0.3])))
            lon = lon + step * rng.choice([0.0, 1.0]) / max(0.05, math.cos(math.radians(lat)))
            kind = "seam"
        if abs(lat) > 84.0:
            continue     # the lookup itself is unreliable in the polar caps (known finding F11); neighbours are gathered by lookup
        pts.append((kind, lon, lat, r))
    # gather candidate cells: the lookup at the point and at 3 rings of 8 probe points around it
    lreq, owner = [], []
    for k, (kind, lon, lat, r) in enumerate(pts):
        s = math.degrees(cell_size(r))
        lreq.append(f"lonlat_to_cell {geo.hx(lon)} {geo.hx(lat)} {r}"); owner.append(k)
        for rad in (0.6, 1.2, 2.0):
            for j in range(8):
                a = 2 * math.pi * j / 8 + rad
                la = max(-90.0, min(90.0, lat + rad * s * math.sin(a)))
                lo = lon + rad * s * math.cos(a) / max(0.02, math.cos(math.radians(lat)))
                lreq.append(f"lonlat_to_cell {geo.hx(lo)} {geo.hx(la)} {r}"); owner.append(k)
    limpl, lmodel = core.both(run, lreq, "lonlat_to_cell")
    cands = {}
    for k, a in zip(owner, limpl):
        if a.startswith("ok "):
            cands.setdefault(k, set()).add(int(a.split()[1]))
    creq, cmeta = [], []
    for k, cs in cands.items():
        kind, lon, lat, r = pts[k]
        for c in sorted(cs):
            creq.append(f"contains {c} {geo.hx(lon)} {geo.hx(lat)}"); cmeta.append((k, c))
    cimpl, cmodel = core.both(run, creq, "contains")
    claims = {}
    for (k, c), a in zip(cmeta, cimpl):
        if a.startswith("ok "):
            claims.setdefault(k, []).append((c, geo.fx(a.split()[1])))
    # independent check with the reported boundaries for the cells that claim the point (and the best runner-up)
    breq, bmeta = [], []
    for k, lst in claims.items():
        kind, lon, lat, r = pts[k]
        for c, dval in sorted(lst, key=lambda x: -x[1])[:3]:
            breq.append(f"cell_to_boundary {c} 1 {12 if r > 2 else 32}"); bmeta.append((k, c, dval))
    bimpl = core.impl_only(run, breq)
    ringclaims = {}
    for (k, c, dval), b in zip(bmeta, bimpl):
        ring = geo.parse_ring(b)
        if ring:
            kind, lon, lat, r = pts[k]
            inside, dist = geo.winding_contains(ring, lon, lat)
            ringclaims.setdefault(k, []).append((c, inside, dist / cell_size(r), dval))
    for k, lst in claims.items():
        run.evaluations += 1
        kind, lon, lat, r = pts[k]
        q = f"lonlat_to_cell {geo.hx(lon)} {geo.hx(lat)} {r}"
        inside = [c for c, d in lst if d > 0.0]
        near = [d for c, d in lst if d <= 0.0 and d > -1e-9]
        rc = ringclaims.get(k, [])
        decided = all(x[2] > 5e-3 for x in rc)       # not within 0.5% of a cell size of any candidate's ring
        if len(inside) >= 2:
            # two cells claim the point strictly in the plane test: overlap (only reported when the independent ring test agrees it is not an edge case)
            both = [x for x in rc if x[0] in inside and x[1]]
            if len(both) >= 2 and decided:
                run.violation(f"two different cells of resolution {r} contain the point strictly: {inside[0]:#x} and {inside[1]:#x} ({kind})", q, str(lst[:4]))
        elif len(inside) == 0 and not near and decided:
            run.violation(f"no cell of resolution {r} in the two-ring neighbourhood contains the point: gap ({kind})", q, str(sorted(lst, key=lambda x: -x[1])[:3]))
        if decided and len(lst) >= 3:
            run.nontrivial.add(k)
        if decided and rc:
            n_in = sum(1 for x in rc if x[1])
            if n_in >= 2:
                run.violation(f"the reported boundaries of two cells of resolution {r} both contain the point ({kind})", q, str([(hex(x[0]), round(x[2], 4)) for x in rc]))
    run.rule = ("points (60% uniform, 40% stepped 0.05..1.5 cell sizes away from edges / vertices of base cells and quintants, i.e. quintant borders, dodecahedron edges and vertices) x random resolutions 0..29, |lat| <= 84; "
                "for each point the candidate set = cells returned for the point and for 24 probe points on three rings (0.6 / 1.2 / 2 cell sizes); "
                "the planar containment test (impl) and an independent winding test on the reported boundaries must give exactly one strict owner; non-trivial = distinct decided points with >= 3 candidate cells")
    run.samples = [{"request": creq[i], "impl": cimpl[i], "model": cmodel[i]} for i in rng.sample(range(len(creq)), 6)]
    run.extra["points"] = len(pts)
    run.extra["candidate_cells_per_point_mean"] = round(sum(len(v) for v in cands.values()) / max(1, len(cands)), 2)
