"""C19 - geodetic <-> authalic and lon/lat <-> sphere conversions are exact inverses."""
import math
from .. import core, gen, geo

LEVEL = "proof"


def run(run):
    rng = run.rng
    run.do_ties()
    quick = run.quick
    n = run.n(4000, 400000)
    half = math.pi / 2
    grid = sorted(set([-half, half, 0.0, -0.0] + [half - 10.0 ** -k for k in range(1, 16)] + [-(half - 10.0 ** -k) for k in range(1, 16)]
                      + [half * (2 * i / n - 1) for i in range(n + 1)] + [rng.uniform(-half, half) for _ in range(n // 4)]
                      # both signs, every magnitude down to the smallest subnormal, around zero (and a few around the 45th parallel)
                      + [sg * 10.0 ** -k for k in range(3, 324, 3) for sg in (1, -1)] + [sg * 2.0 ** -e for e in (52, 53, 54, 1022, 1074) for sg in (1, -1)]
                      + [sg * (half / 2 + d) for d in (1e-15, -1e-15, 1e-12) for sg in (1, -1)]))
    reqs = [f"authalic_forward {geo.hx(p)}" for p in grid]
    impl, model = core.both(run, reqs, "authalic_forward")
    fwd = []
    for p, a in zip(grid, impl):
        fwd.append(geo.fx(a.split()[1]) if a.startswith("ok ") else float("nan"))
    ireq = [f"authalic_inverse {geo.hx(b)}" for b in fwd] + [f"authalic_forward {geo.hx(-p)}" for p in grid[:: max(1, len(grid) // 2000)]]
    iimpl, imodel = core.both(run, ireq, "authalic_inverse")
    worst_rt, worst_cf = 0.0, 0.0
    prev = None
    for i, (p, b) in enumerate(zip(grid, fwd)):
        run.evaluations += 1
        q = reqs[i]
        if not math.isfinite(b):
            run.violation("authalic_forward returned a non-finite value", q, impl[i])
            continue
        back = geo.fx(iimpl[i].split()[1])
        worst_rt = max(worst_rt, abs(back - p))
        if abs(back - p) > 1e-12:
            run.violation(f"geodetic -> authalic -> geodetic moves the latitude by {abs(back - p):.3e} rad", [q, ireq[i]], f"{p!r} -> {b!r} -> {back!r}")
        if prev is not None and p > prev[0] and not b > prev[1]:
            # strictly increasing (allow equality only when the inputs are closer than 4 ulp)
            if p - prev[0] > 1e-15:
                run.violation("the conversion is not strictly increasing", [reqs[i - 1], q], f"f({prev[0]!r}) = {prev[1]!r} >= f({p!r}) = {b!r}")
        prev = (p, b)
        if abs(p) <= math.radians(89.0):
            cf = geo.authalic_lat(p)
            worst_cf = max(worst_cf, abs(cf - b))
            if abs(cf - b) > 1e-11:
                run.violation(f"differs from the closed-form WGS84 authalic latitude by {abs(cf - b):.3e} rad", q, f"{b!r} vs closed form {cf!r}")
        run.nontrivial.add(p)
    # fixed points and oddness
    for p, want in ((0.0, 0.0), (half, half), (-half, -half)):
        b = fwd[grid.index(p)]
        if abs(b - want) > 1e-15:
            run.violation(f"authalic_forward({p}) = {b}, expected {want}", f"authalic_forward {geo.hx(p)}", str(b))
    sub = grid[:: max(1, len(grid) // 2000)]
    for p, a in zip(sub, iimpl[len(fwd):]):
        run.evaluations += 1
        b = fwd[grid.index(p)]
        nb = geo.fx(a.split()[1])
        if abs(nb + b) > 1e-15:
            run.violation("the conversion is not odd", f"authalic_forward {geo.hx(-p)}", f"f(-x) = {nb!r}, f(x) = {b!r}")
    # lon/lat <-> sphere
    pts = [(0.0, 90.0), (123.0, 90.0), (0.0, -90.0), (180.0, 0.0), (-180.0, 0.0), (179.99999999, 45.0), (-540.0, 10.0), (540.0, -10.0), (-93.0, 0.0), (87.0, 0.0)]
    for _ in range(run.n(1500, 100000)):
        # near the poles the distance is drawn log-uniformly over 13 decades (a snap / clamp radius can sit at any scale: the colatitude
        # there is ~ 1.75e-2 * distance in degrees, so 1e-12 rad is reached near 6e-11 deg)
        near = 10.0 ** rng.uniform(-15.0, -2.0) if rng.random() < 0.8 else 10.0 ** rng.uniform(-320.0, -15.0)      # down to subnormals
        pts.append((rng.choice([rng.uniform(-540, 540), rng.uniform(-180, 180), -180.0, 180.0, 0.0, rng.uniform(-180, 180) + 360.0 * gen.turns(rng)]),
                    rng.choice([rng.uniform(-90, 90), 90 - rng.uniform(0, 1e-6), -90 + rng.uniform(0, 1e-6), 90 - near, -90 + near, 90 - near, -90 + near, near, -near])))
    sreq = [f"from_lonlat {geo.hx(lo)} {geo.hx(la)}" for lo, la in pts]
    simpl, smodel = core.both(run, sreq, "from_lonlat")
    treq = []
    for a in simpl:
        t = a.split()
        treq.append(f"to_lonlat {t[1]} {t[2]}")
    timpl, tmodel = core.both(run, treq, "to_lonlat")
    worst_pt = 0.0
    for (lo, la), q, a in zip(pts, sreq, timpl):
        run.evaluations += 1
        t = a.split()
        lo2, la2 = geo.fx(t[1]), geo.fx(t[2])
        d = geo.ang(geo.sphere_vec(lo, la), geo.sphere_vec(lo2, la2))
        worst_pt = max(worst_pt, d)
        # beyond the property's longitude range [-540, 540] one unit in the last place of the longitude itself is more than 1e-12 rad:
        # there the round trip is held to 4 ulp of the given longitude
        tol = 1e-12 if abs(lo) <= 540.0 else 1e-12 + 4 * math.ulp(math.radians(lo))
        if not d <= tol:
            run.violation(f"lon/lat -> sphere -> lon/lat moves the point by {d:.3e} rad", q, f"({lo!r},{la!r}) -> ({lo2!r},{la2!r})")
    run.rule = ("latitude grid: %d equally spaced points on [-pi/2, pi/2], endpoints, pi/2 - 10^-k for k = 1..15, random; forward, inverse of forward, forward of the negated value; "
                "closed-form WGS84 authalic latitude (independent, pole-safe evaluation) for |lat| <= 89 deg; lon/lat pairs with lon in [-540, 540] incl. poles, within 1e-6 deg of them and at log-uniform distances 1e-15..1e-2 deg from them and from the equator; "
                "non-trivial = distinct latitudes evaluated" % n)
    run.samples = [{"request": reqs[i], "impl": impl[i], "model": model[i]} for i in rng.sample(range(len(reqs)), 5)]
    run.extra["worst_roundtrip_rad"] = worst_rt
    run.extra["worst_vs_closed_form_rad"] = worst_cf
    run.extra["worst_point_roundtrip_rad"] = worst_pt
