"""C04 - all cells of a resolution have equal area: sphere area / number of cells."""
import math
from .. import core, gen, spec, geo

LEVEL = "proof"
TOL = 1e-4
AUTHALIC_AREA = 510065624779439.1


def ncells(r):
    return 12 if r == 0 else 60 * 4 ** (r - 1)


def special_cells(rng, r, impl_lookup):
    """cells near poles, the antimeridian and dodecahedron vertices/seams at resolution r (through the library's own lookup)"""
    pts = [(0.0, 90.0), (0.0, -90.0), (10.0, 89.999), (180.0, 0.0), (-180.0, 33.0), (179.99999, -40.0)]
    # dodecahedron vertices / edge midpoints are where three / two faces meet: use points near face seams found by scanning latitude 26.57 +- and 52.62
    for lon in range(-180, 180, 36):
        pts.append((lon + 0.0 - 93.0, 52.62263186)); pts.append((lon - 93.0, 26.56505118)); pts.append((lon + 18.0 - 93.0, -26.56505118))
    return [f"lonlat_to_cell {geo.hx(lon)} {geo.hx(lat)} {r}" for lon, lat in pts]


def run(run):
    rng = run.rng
    run.do_ties()
    quick = run.quick
    # metadata
    reqs = [f"get_num_cells {r}" for r in range(-2, 33)] + [f"cell_area {r}" for r in range(-2, 33)]
    impl, model = core.both(run, reqs, "metadata")
    for r in range(0, 30):
        run.evaluations += 2
        n = impl[r + 2]
        want = ncells(r)
        if r <= 27 and n != f"ok {want}":
            run.violation(f"get_num_cells({r}) is not {want}", reqs[r + 2], n)
        if r >= 28 and (not n.startswith("ok ") or abs(int(n[3:]) - want) > want * 1e-15):
            run.violation(f"get_num_cells({r}) is not within 1e-15 of {want}", reqs[r + 2], n)
        a = impl[35 + r + 2]
        av = geo.fx(a.split()[1]) if a.startswith("ok ") else float("nan")
        if not abs(av - AUTHALIC_AREA / want) <= 1e-12 * AUTHALIC_AREA / want:
            run.violation(f"cell_area({r}) is not the authalic Earth area divided by the number of cells", reqs[35 + r + 2], a, {"expected": AUTHALIC_AREA / want})
    # polygons
    rmax = 2 if quick else 4
    cells = [c for r in range(0, rmax + 1) for c in gen.all_cells(r)]
    look = []
    for r in range(rmax + 1, 30):
        look += special_cells(rng, r, None)
    li = core.impl_only(run, look)
    extra = [int(a.split()[1]) for a in li if a.startswith("ok ")]
    rnd = [gen.rand_cell(rng, rng.randint(rmax + 1, 29)) for _ in range(run.n(250, 6000))]
    cells = cells + extra + rnd
    breq = []
    for c in cells:
        r = spec.decode(c)[0]
        seg = 64 if r <= 3 else 32
        breq.append(f"cell_to_boundary {c} 1 {seg}")
    bimpl, bmodel = core.both(run, breq, "cell_to_boundary", timeout=3000)
    worst = 0.0
    per_res_sum = {}
    for c, q, a in zip(cells, breq, bimpl):
        run.evaluations += 1
        ring = geo.parse_ring(a)
        r = spec.decode(c)[0]
        if ring is None:
            run.violation("cell_to_boundary failed on a valid cell", q, a[:200])
            continue
        area = geo.ring_area(ring)
        want = 4 * math.pi / ncells(r)
        rel = abs(abs(area) - want) / want
        worst = max(worst, rel)
        if rel > TOL:
            run.violation(f"cell area {abs(area):.12e} sr differs from 4*pi/N({r}) = {want:.12e} by {rel:.2e} relative", q, a[:160], {"cell": f"{c:#x}"})
        if r <= rmax:
            per_res_sum[r] = per_res_sum.get(r, 0.0) + abs(area)
        run.nontrivial.add(c)
    for r, s in per_res_sum.items():
        run.evaluations += 1
        if abs(s - 4 * math.pi) > 1e-6:
            run.violation(f"the areas of all cells of resolution {r} sum to {s}, not 4*pi", f"resolution {r}", str(s))
    run.rule = ("metadata for r = -2..32; polygon area (independent l'Huilier / tangent-plane integrator on the authalic sphere, WGS84 closed-form authalic latitude) of the reported boundary with 64/32 segments per edge: "
                "all cells of resolution <= %d, cells at the poles, the antimeridian and the dodecahedron vertex/seam latitudes at every resolution, random cells up to r=29; non-trivial = distinct cells measured" % rmax)
    run.samples = [{"request": breq[i], "area_rel_err": "see worst_relative_error", "impl": bimpl[i][:100]} for i in rng.sample(range(len(breq)), 4)]
    run.extra["worst_relative_error"] = worst
    run.extra["exhaustive_up_to_resolution"] = rmax
    run.extra["sum_of_areas"] = {str(k): v for k, v in per_res_sum.items()}
