"""C04 - all cells of a resolution have equal area: sphere area / number of cells."""
import math
from .. import bulk, core, gen, spec, geo

LEVEL = "proof"
TOL = 1e-4
AUTHALIC_AREA = 510065624779439.1


def ncells(r):
    return 12 if r == 0 else 60 * 4 ** (r - 1)


def special_cells(rng, r, impl_lookup):
    """cells near poles, the antimeridian and dodecahedron vertices/seams at resolution r (through the library's own lookup)"""
    pts = [(0.0, 90.0), (0.0, -90.0), (10.0, 89.999), (180.0, 0.0), (-180.0, 33.0), (179.99999, -40.0)]
    # dodecahedron vertices / edge midpoints are where three / two faces meet: use points near face seams found by scanning latitude 26.57 +- and 52.62
    for lon in range(-180, 180, 36):
        pts.append((lon + 0.0 - 93.0, 52.62263186)); pts.append((lon - 93.0, 26.56505118)); pts.append((lon + 18.0 - 93.0, -26.56505118))
    return [f"lonlat_to_cell {geo.hx(lon)} {geo.hx(lat)} {r}" for lon, lat in pts]


def generated_float(name):
    """exact value of a float constant of the regenerated tables (A5/Gen/Tables.lean)"""
    import os, re
    src = open(os.path.join(core.LEAN, "A5", "Gen", "Tables.lean")).read()
    m = re.search(r"def " + name + r" : FConst := ⟨0x[0-9a-f]+, \((-?\d+)\), \((-?\d+)\)⟩", src)
    return None if not m else int(m.group(1)) * 2.0 ** int(m.group(2))


def switch_circle_cells(run, rng, count):
    from .C15 import cart, sph
    sw = generated_float("SAFE_ACOS_SWITCH")
    if not sw or not (0 < sw < 0.5):
        return []
    rho = 2 * math.asin(sw)
    c0 = core.impl_only(run, ["consts"])[0]
    axes = []
    for tok in c0.split(" | ")[2].split():
        f = tok.split(":")
        axes.append(cart(geo.fx(f[1]), geo.fx(f[2])))
    treq, tmeta = [], []
    for _ in range(count):
        c = rng.choice(axes)
        a0 = (0.0, 0.0, 1.0) if abs(c[2]) < 0.9 else (1.0, 0.0, 0.0)
        e1 = geo.unit(geo.cross(a0, c)); e2 = geo.cross(c, e1)
        az = rng.uniform(0, 2 * math.pi)
        r = rng.choice([24, 26, 27, 28, 29])
        size = math.sqrt(4 * math.pi / ncells(r))
        d = rho + rng.uniform(-0.4, 0.4) * size
        v = [math.cos(d) * c[i] + math.sin(d) * (math.cos(az) * e1[i] + math.sin(az) * e2[i]) for i in range(3)]
        th, ph = sph(v)
        treq.append(f"to_lonlat {geo.hx(th)} {geo.hx(ph)}"); tmeta.append(r)
    tl = core.impl_only(run, treq)
    lreq = []
    for a, r in zip(tl, tmeta):
        t = a.split()
        if t[0] == "ok":
            lreq.append(f"lonlat_to_cell {t[1]} {t[2]} {r}")
    li = core.impl_only(run, lreq)
    return sorted({int(a.split()[1]) for a in li if a.startswith("ok ")})


def run(run):
    rng = run.rng
    run.do_ties()
    quick = run.quick
    # metadata
    reqs = [f"get_num_cells {r}" for r in range(-2, 33)] + [f"cell_area {r}" for r in range(-2, 33)]
    impl, model = core.both(run, reqs, "metadata")
    for r in range(0, 30):
        run.evaluations += 2
        n = impl[r + 2]
        want = ncells(r)
        if r <= 27 and n != f"ok {want}":
            run.violation(f"get_num_cells({r}) is not {want}", reqs[r + 2], n)
        if r >= 28 and (not n.startswith("ok ") or abs(int(n[3:]) - want) > want * 1e-15):
            run.violation(f"get_num_cells({r}) is not within 1e-15 of {want}", reqs[r + 2], n)
        a = impl[35 + r + 2]
        av = geo.fx(a.split()[1]) if a.startswith("ok ") else float("nan")
        if not abs(av - AUTHALIC_AREA / want) <= 1e-12 * AUTHALIC_AREA / want:
            run.violation(f"cell_area({r}) is not the authalic Earth area divided by the number of cells", reqs[35 + r + 2], a, {"expected": AUTHALIC_AREA / want})
    # polygons
    rmax = 2 if quick else 4
    cells = [c for r in range(0, rmax + 1) for c in gen.all_cells(r)]
    look = []
    for r in range(rmax + 1, 30):
        look += special_cells(rng, r, None)
    li = core.impl_only(run, look)
    extra = [int(a.split()[1]) for a in li if a.startswith("ok ")]
    rnd = [gen.rand_cell(rng, rng.randint(rmax + 1, 29)) for _ in range(run.n(250, 6000))]
    # fine cells straddling the circle around each face centre on which the inverse projection switches between the two
    # branches of safe_acos (radius 2*asin(switch), with the switch value regenerated from the source): a mismatch of the
    # branches is a step that only cells much smaller than the circle can see
    circ = switch_circle_cells(run, rng, 40 if quick else 600)
    run.extra["switch_circle_cells"] = len(circ)
    cells = cells + extra + rnd + circ
    breq = []
    for c in cells:
        r = spec.decode(c)[0]
        seg = 64 if r <= 3 else 32
        breq.append(f"cell_to_boundary {c} 1 {seg}")
    bimpl, bmodel = core.both(run, breq, "cell_to_boundary", timeout=3000)
    worst = 0.0
    per_res_sum = {}
    for c, q, a in zip(cells, breq, bimpl):
        run.evaluations += 1
        ring = geo.parse_ring(a)
        r = spec.decode(c)[0]
        if ring is None:
            run.violation("cell_to_boundary failed on a valid cell", q, a[:200])
            continue
        area = geo.ring_area(ring)
        want = 4 * math.pi / ncells(r)
        rel = abs(abs(area) - want) / want
        worst = max(worst, rel)
        if rel > TOL:
            run.violation(f"cell area {abs(area):.12e} sr differs from 4*pi/N({r}) = {want:.12e} by {rel:.2e} relative", q, a[:160], {"cell": f"{c:#x}"})
        if r <= rmax:
            per_res_sum[r] = per_res_sum.get(r, 0.0) + abs(area)
        run.nontrivial.add(c)
    # drill-down: where implementation and model report different boundary points, the behaviour of the code changed; an
    # error that is far below the tolerance for a coarse cell can be far above it for the fine cells at the same place
    # (a step of 1e-11 rad is 1e-3 of a cell of resolution 28), so the fine cells at those points are measured too
    if run.corr_disagreements and not run.violations:
        spots = []
        for d in run.corr_disagreements:
            if not d["request"].startswith("cell_to_boundary"):
                continue
            try:
                # the recorded responses are cut at 2000 characters: drop the (possibly incomplete) last point
                ri = geo.parse_ring(d["impl"][: d["impl"].rfind(";")])
                rm = geo.parse_ring(d["model"][: d["model"].rfind(";")])
            except (ValueError, IndexError, TypeError):
                continue
            if not ri or not rm:
                continue
            m = min(len(ri), len(rm))
            ri, rm = [p_ for p_ in ri[:m] if len(p_) == 2], [p_ for p_ in rm[:m] if len(p_) == 2]
            m = min(len(ri), len(rm))
            if m == 0:
                continue
            k = max(range(m), key=lambda j: abs(ri[j][0] - rm[j][0]) + abs(ri[j][1] - rm[j][1]))
            spots.append(ri[k])
        rng.shuffle(spots)
        dreq = []
        for lon, lat in spots[: (25 if quick else 200)]:
            for r in (22, 24, 26, 27, 28, 29):
                s_ = math.degrees(math.sqrt(4 * math.pi / ncells(r)))
                for dx, dy in ((0, 0), (0.7, 0.2), (-0.4, 0.6), (0.3, -0.8)):
                    dreq.append(f"lonlat_to_cell {geo.hx(lon + dx * s_ / max(0.05, math.cos(math.radians(lat))))} {geo.hx(max(-90.0, min(90.0, lat + dy * s_)))} {r}")
        di = core.impl_only(run, dreq)
        dcells = sorted({int(a.split()[1]) for a in di if a.startswith("ok ")})
        dq = [f"cell_to_boundary {c} 1 32" for c in dcells]
        db = core.impl_only(run, dq, timeout=3000)
        for c, q, a in zip(dcells, dq, db):
            run.evaluations += 1
            ring = geo.parse_ring(a)
            if ring is None:
                continue
            r = spec.decode(c)[0]
            want = 4 * math.pi / ncells(r)
            rel = abs(abs(geo.ring_area(ring)) - want) / want
            worst = max(worst, rel)
            if rel > TOL:
                run.violation(f"cell area differs from 4*pi/N({r}) by {rel:.2e} relative (fine cell at a point where implementation and model disagree)", q, a[:160], {"cell": f"{c:#x}"})
        run.extra["drill_down_cells"] = len(dcells)
    for r, s in per_res_sum.items():
        run.evaluations += 1
        if abs(s - 4 * math.pi) > 1e-6:
            run.violation(f"the areas of all cells of resolution {r} sum to {s}, not 4*pi", f"resolution {r}", str(s))
    breqs = bulk.boundary_requests(run)
    bulk.check(run, breqs[:2] if run.quick else breqs[:2] + [b for b in breqs if " 1500000" in b[0] or " 4000000" in b[0]], "cell_to_boundary (bulk)")
    run.rule = ("rings with 65535 / 65536 (thorough: also 1.5e6 and 2^21) segments per edge (point count and hash vs the model); metadata for r = -2..32; polygon area (independent l'Huilier / tangent-plane integrator on the authalic sphere, WGS84 closed-form authalic latitude) of the reported boundary with 64/32 segments per edge: "
                "all cells of resolution <= %d, cells at the poles, the antimeridian and the dodecahedron vertex/seam latitudes at every resolution, random cells up to r=29, fine cells (r = 24..29) straddling the circle of radius 2 asin(SAFE_ACOS_SWITCH) around the face centres; when implementation and model disagree on a boundary, the fine cells (r = 22..29) at the points of largest disagreement are measured as well; non-trivial = distinct cells measured" % rmax)
    run.samples = [{"request": breq[i], "area_rel_err": "see worst_relative_error", "impl": bimpl[i][:100]} for i in rng.sample(range(len(breq)), 4)]
    run.extra["worst_relative_error"] = worst
    run.extra["exhaustive_up_to_resolution"] = rmax
    run.extra["sum_of_areas"] = {str(k): v for k, v in per_res_sum.items()}
