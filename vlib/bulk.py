"""Bulk requests: calls whose argument or result has 10^5 .. 10^7 elements.

A size-triggered fast path (a block copy, a parallel expansion, a different sort for long lists, a narrower integer for a count)
is invisible to any stream of ordinary-sized calls.  These requests reach those sizes; their results are compared through the
`digest` wrapper of the line protocol (length, order-sensitive hash, sum and xor of the ids - or item count and text hash for a
ring of points), computed by the harness from the library's result and by the driver from the model's result, so a single wrong,
missing or misplaced element out of millions changes the answer.  Expected lengths / sums come from the independent tree
semantics of `spec.py` in closed form (no enumeration)."""
from . import spec, gen, compactgen

M64 = (1 << 64) - 1


def _stride(R):
    """distance between consecutive ids of resolution R >= 2 under one quintant-level ancestor"""
    return 1 << (58 - 2 * (R - 1))


def _quintant_cells(c):
    """the cells of resolution >= 1 that tile `c` (itself when its resolution is >= 1)"""
    res = spec.decode(c)[0]
    if res >= 1:
        return [c]
    out = []
    for ch in spec.children(c):
        out += _quintant_cells(ch)
    return out


def expected_digest(cells, R):
    """(n, exact sum, xor) of the descendants at resolution R of the listed cells (each counted as often as it is listed)"""
    n = s = 0
    x = 0
    for c in cells:
        res = spec.decode(c)[0]
        if res == R:
            n += 1; s += c; x ^= c
            continue
        if R == 0:          # world -> the twelve base cells
            for ch in spec.children(c):
                n += 1; s += ch; x ^= ch
            continue
        for qc in _quintant_cells(c):
            r, T, dg = spec.decode(qc)
            k = R - r
            m = 4 ** k
            first = spec.encode(R, T, dg + (0,) * k) if R >= 2 else qc
            st = _stride(R) if R >= 2 else 0
            n += m
            s += m * first + st * (m * (m - 1) // 2)
            # xor of an arithmetic run first + i*st, i < 4^k: the varying bits form a full counter => they cancel when m >= 2 (m even),
            # and the fixed bits appear m times (even) => 0; for m == 1 it is the id itself
            x ^= first if m == 1 else 0
    return n, s, x


def list_digest(cells):
    s = x = 0
    for c in cells:
        s += c
        x ^= c
    return len(cells), s, x


def parse_digest(a):
    if not a.startswith("ok n="):
        return None
    d = {}
    for tok in a[3:].split():
        k, v = tok.split("=")
        d[k] = int(v) if not v.startswith("x") else v
    return d


def children_requests(run):
    """(request, expected (n, s, x)) for cell_to_children with 8*10^4 .. 2*10^7 results"""
    rng = run.rng
    out = []
    base = [spec.encode(0, f, ()) for f in range(12)]
    picks = [(0, 8)] + [(b, 9) for b in (base if not run.quick else rng.sample(base, 4))] + [(b, 8) for b in rng.sample(base, 3)]
    picks += [(spec.encode(1, rng.randrange(60), ()), R) for R in ((10, 11, 12) if run.quick else (10, 11, 12, 13))]
    for d in ((9, 10, 11) if run.quick else (9, 10, 11, 12)):
        r = rng.randint(2, 29 - d)
        picks.append((gen.rand_cell(rng, r), r + d))
    if not run.quick:
        picks += [(0, 9), (rng.choice(base), 11), (rng.choice(base), 12)]
        r = rng.randint(1, 16)
        picks.append((gen.rand_cell(rng, r), r + 13))          # 4^13 = 6.7e7 ids (512 MiB): the largest single result explored
        picks.append((0, 11))                                  # ... and 60 * 4^10 = 6.3e7 ids across all quintant blocks
        picks.append((rng.choice(base), 13))                   # ... and 5 * 4^12 = 8.4e7 ids from a base cell
    for c, R in picks:
        out.append((f"digest cell_to_children {c} {R}", expected_digest([c], R)))
    return out


def uncompact_requests(run):
    """(request, expected) for uncompact with 2^16 .. 2^23 results from lists whose length is coprime to every small thread count"""
    rng = run.rng
    out = []
    plans = [(17, 5, 14), (23, 9, 18), (11, 3, 11), (13, 7, 12), (7, 2, 9)] if run.quick else \
            [(17, 5, 14), (23, 9, 18), (11, 3, 11), (13, 7, 12), (7, 2, 9), (19, 4, 14), (29, 11, 20), (9, 1, 11), (5, 0, 11)]
    for k, r, R in plans:
        cells = [gen.rand_cell(rng, r) for _ in range(k)]
        out.append((f"digest uncompact {compactgen.fmt(cells)} {R}", expected_digest(cells, R)))
    if not run.quick:
        # one cell expanded by 13 levels (6.7e7 results, 512 MiB): a quintant and a deeper cell in a non-canonical spelling
        qn = spec.encode(1, rng.randrange(60), ())
        out.append((f"digest uncompact {qn} 14", expected_digest([qn], 14)))
        r = rng.randint(2, 16)
        c = gen.rand_cell(rng, r)
        out.append((f"digest uncompact {c | (1 << (2 * rng.randrange(0, (59 - 2 * r) // 2 + 1)))} {r + 13}", expected_digest([c], r + 13)))
    # mixed resolutions (4 coarse + 7 fine, and cells already at the target in between)
    for _ in range(2 if run.quick else 6):
        R = rng.randint(12, 20)
        cells = [gen.rand_cell(rng, R - 10) for _ in range(4)] + [gen.rand_cell(rng, R - 7) for _ in range(7)] + [gen.rand_cell(rng, R) for _ in range(3)]
        rng.shuffle(cells)
        out.append((f"digest uncompact {compactgen.fmt(cells)} {R}", expected_digest(cells, R)))
    return out


def _fill(c, R):
    """all descendants of c at resolution R, in id order, by arithmetic (no tree walk)"""
    out = []
    for qc in _quintant_cells(c):
        r, T, dg = spec.decode(qc)
        k = R - r
        if k == 0:
            out.append(qc)
            continue
        first = spec.encode(R, T, dg + (0,) * k)
        st = _stride(R)
        out.extend(range(first, first + st * 4 ** k, st))
    return out


def compact_requests(run, overlapping=True):
    """(request, expected result as a sorted list or None) for compact with 6*10^4 .. 1.4*10^6 input cells: complete fills (which must
    merge all the way up), in id order and shuffled, one with a hole; and - `overlapping` - with the parent itself / the world cell /
    duplicates / non-canonical spellings mixed in (for those only the model and the generic oracle of `check` decide: the result of an
    overlapping input is not the canonical cover).  The OUTPUT of these calls is short, so it is compared in full."""
    rng = run.rng
    out = []
    base = [spec.encode(0, f, ()) for f in range(12)]

    def alias(c):
        """a valid non-canonical spelling of c (a stray low bit below the marker): denotes the same cell"""
        res = spec.decode(c)[0]
        marker = 59 - 2 * res          # res >= 2 here; get_resolution only looks at odd bit positions below 56, so an even one below the marker is ignored
        return c | (1 << (2 * rng.randrange(0, marker // 2 + 1)))

    world7 = _fill(0, 7)
    # A. non-overlapping: the whole sphere at resolution 7 (245760 cells) in id order and shuffled; four faces at resolution 7
    out.append((list(world7), [0]))
    sh = list(world7); rng.shuffle(sh)
    out.append((sh, [0]))
    bs = rng.sample(base, 4)
    cells = [x for b in bs for x in _fill(b, 7)]
    if rng.random() < 0.5:
        rng.shuffle(cells)
    out.append((cells, sorted(bs)))
    # B. one face missing one resolution-7 cell, the other faces at resolution 6: everything merges except along the path to the hole
    b = rng.choice(base)
    f7 = _fill(b, 7)
    hole = f7.pop(rng.randrange(len(f7)))
    exp = set()
    c = hole
    while c != b:
        p = spec.parent(c)
        exp.update(x for x in spec.children(p) if x != c)
        c = p
    out.append((f7 + [x for o in base if o != b for x in _fill(o, 6)], sorted(exp | {o for o in base if o != b})))
    # C. more than 2^20 distinct inputs: the sphere at resolution 8 (983040) + a face at resolution 7 missing -> no: keep it non-overlapping:
    #    eleven faces at resolution 8 (901120) and the twelfth at resolution 9 (327680) = 1228800 cells
    if overlapping is not None:
        fs = list(base); rng.shuffle(fs)
        cells = [x for o in fs[:11] for x in _fill(o, 8)] + _fill(fs[11], 9)
        out.append((cells, [0]))
    if overlapping:
        # D. four base cells filled at resolution 7 (81920 ids) + one of the base cells itself in front  [>= 2^16 inputs, overlapping]
        bs = rng.sample(base, 4)
        out.append(([bs[0]] + [x for b in bs for x in _fill(b, 7)], None))
        # E. the whole sphere at resolution 7 with the world cell in front
        out.append(([0] + world7, None))
        # F. the sphere at resolution 8 (983040) + 70000 duplicates + non-canonical spellings of 2000 of the cells  [> 2^20 inputs]
        world8 = _fill(0, 8)
        dup = [world8[rng.randrange(len(world8))] for _ in range(70000)]
        als = [alias(world8[rng.randrange(len(world8))]) for _ in range(2000)]
        cells = world8 + dup + als
        if not run.quick or rng.random() < 0.5:
            rng.shuffle(cells)
        out.append((cells, [0]))          # duplicates and other spellings of member cells do not change the region: still the whole sphere
        # H. beyond 2^21 inputs: a base cell in front of its own fill and the fill of another face at resolution 10 (2 x 1310720 + 1 ids);
        #    thorough: a base cell + its fill at resolution 11 (5242881 ids)
        b1, b2 = rng.sample(base, 2)
        out.append(([b1] + _fill(b1, 10) + _fill(b2, 10), None))
        if not run.quick:
            b3 = rng.choice(base)
            big = [b3] + _fill(b3, 11)
            out.append((big, None))
        # G. 9 faces at resolution 8 (737280) + two more at resolution 7 with 30% non-canonical spellings + 320000 duplicates
        fs = rng.sample(base, 11)
        part = [x for o in fs[:9] for x in _fill(o, 8)]
        other = [x for o in fs[9:] for x in _fill(o, 7)]
        cells = part + [alias(x) if rng.random() < 0.3 else x for x in other] + [part[rng.randrange(len(part))] for _ in range(320000)]
        out.append((cells, sorted(fs)))
    return [(f"compact {compactgen.fmt(cells)}", exp) for cells, exp in out]


def light_compact_requests(run):
    """medium-sized lists (5*10^3 .. 2.5*10^4 cells: above any plausible 'small input' shortcut, cheap enough for every run)"""
    rng = run.rng
    base = [spec.encode(0, f, ()) for f in range(12)]
    out = []
    for R, k in ((5, 4), (6, 1), (5, 12), (6, 3)):
        bs = rng.sample(base, k)
        cells = [x for b in bs for x in _fill(b, R)]
        if rng.random() < 0.5:
            rng.shuffle(cells)
        out.append((cells, sorted(bs) if k < 12 else [0]))
    q = spec.encode(1, rng.randrange(60), ())
    cells = _fill(q, 7)
    cells.pop(rng.randrange(len(cells)))
    out.append((cells, None))
    return [(f"compact {compactgen.fmt(cells)}", exp) for cells, exp in out]


def check_compact(run, items, label):
    """bulk compact requests: full result compared with the model (as a set) and with the expected cover when the input does not overlap;
    always: canonical ids, no duplicates, no member above another (when the input had none)"""
    from . import core
    reqs = [q for q, _ in items]
    canon = lambda q, a: ("ok " + compactgen.fmt(sorted(compactgen.parse_list(a)))) if a.startswith("ok ") else core.default_canon(q, a)
    impl, model = core.both(run, reqs, label, reorder=False, timeout=3600, canon=canon, mem_bytes=32 << 30)
    # the same calls again in one process, each directly after a REJECTED bulk call built from another item's list (an id that does not
    # decode placed two thirds into it): what a large rejected call leaves behind (scratch buffers kept between calls) must not leak
    if len(reqs) >= 2 and all(not d_ for d_ in run.corr_disagreements[-1:] if d_.get("suite") == label):
        seq, back = [], []
        for i, q in enumerate(reqs):
            other = reqs[(i + 1) % len(reqs)].split()[1].split(",")
            cut = (2 * len(other)) // 3
            seq.append("compact " + ",".join(other[:cut] + [str(core.BAD_ID)] + other[cut:])); back.append(None)
            seq.append(q); back.append(i)
        out2 = core.run_stream(core.harness(run, "release"), seq, args=["--flush"], timeout=3600, isolate=True, mem_bytes=8 << 30, per_line_timeout=600, max_hangs=1)
        for bi, a in zip(back, out2):
            if bi is None:
                continue
            run.corr_cases += 1
            if canon(reqs[bi], a) != canon(reqs[bi], model[bi]):
                q = reqs[bi]
                run.corr_disagreements.append({"request": q[:2000], "impl": a[:2000], "model": model[bi][:2000], "suite": label + " [after a rejected bulk call]"})
                run.violation("a bulk compact answers differently directly after a rejected bulk compact (state left behind by the rejected call)",
                              [seq[2 * bi][:200] + " ...", q[:200] + " ..."], a[:300], {"answer_of_the_model": model[bi][:300]})
    for (q, exp), a in zip(items, impl):
        run.evaluations += 1
        short = q[:120] + f" ...({q.count(',') + 1} ids)... " + q[-40:]
        res = compactgen.parse_list(a)
        if res is None:
            run.violation(f"compact did not return a result on a large input: {a[:120]}", q, a[:200])
            continue
        if len(set(res)) != len(res):
            run.violation("the compacted result contains duplicates", q, a[:400])
        elif any(spec.decode(c) is None for c in res):
            run.violation("the compacted result contains a non-canonical id", q, a[:400])
        elif exp is not None and sorted(res) != exp:
            run.violation(f"the compacted result of a large non-overlapping (up to duplicates / spellings) input is not its canonical cover ({len(res)} cells, expected {len(exp)})", q, a[:400])
        else:
            run.nontrivial.add(short)
    run.extra.setdefault("bulk", []).extend({"request": q[:100] + f" ...({q.count(',') + 1} ids)", "impl": a[:120]} for (q, _), a in zip(items, impl))
    return impl, model


def boundary_requests(run, antimeridian_cells=None, frame_cells=None):
    """requests for cell_to_boundary with an explicit subdivision count at and beyond 2^16 (rings of 3*10^5 .. 10^6 points)"""
    rng = run.rng
    out = []
    segs = [65535, 65536, 70000] if run.quick else [65535, 65536, 65537, 70000, 131072, 200000]
    for n in segs:
        r = rng.choice([29, 29, 28, rng.randint(3, 27)])
        c = gen.rand_cell(rng, r)
        out.append((f"digest cell_to_boundary {c} {rng.randint(0, 1)} {n}", (5 * n + 1, None, None)))
    if not run.quick:
        # spacing below 1e-13 degrees: resolution-29 cells with 1.5e6 and 2^21 segments per edge (rings of 7.5e6 / 1.05e7 points)
        for n in (1500000, 2097152):
            out.append((f"digest cell_to_boundary {gen.rand_cell(rng, 29)} {rng.randint(0, 1)} {n}", (5 * n + 1, None, None)))
    if not run.quick and frame_cells:
        # deepest cells with a corner ON a vertex of the projection's triangles (face centre, dodecahedron vertex, edge midpoint), so
        # finely subdivided that neighbouring ring points fall inside the projection's corner snap (5e5 segments per edge)
        for c in rng.sample(frame_cells, min(2, len(frame_cells))):
            out.append((f"digest cell_to_boundary {c} {rng.randint(0, 1)} 500000", (5 * 500000 + 1, None, None)))
    if not run.quick:
        # the longest rings explored: 4e6 segments per edge on a coarse cell (2e7 points), and 3.6e6 on a cell across the antimeridian
        out.append((f"digest cell_to_boundary {gen.rand_cell(rng, rng.randint(2, 4))} {rng.randint(0, 1)} 4000000", (5 * 4000000 + 1, None, None)))
        if antimeridian_cells:
            out.append((f"digest cell_to_boundary {rng.choice(antimeridian_cells)} {rng.randint(0, 1)} 3600000", (5 * 3600000 + 1, None, "nonpolar")))
    if antimeridian_cells:
        # rings of more than 2^20 points on cells that cross the antimeridian (the unwrapping must act on the ring as a whole)
        for n in ([262144] if run.quick else [209716, 262144, 524288]):
            c = rng.choice(antimeridian_cells)
            out.append((f"digest cell_to_boundary {c} {rng.randint(0, 1)} {n}", (5 * n + 1, None, "nonpolar")))
    return out


def check(run, items, label, profiles=("release",), count_only=False):
    """run the requests through implementation and model, compare the digests with each other and with the expected length / sum / xor"""
    from . import core
    reqs = [q for q, _ in items]
    impl, model = core.both(run, reqs, label, reorder=False, timeout=2400, mem_bytes=40 << 30)
    for prof in profiles:
        if prof == "release":
            continue
        other = core.run_stream(core.harness(run, prof), reqs, timeout=1500, isolate=True, mem_bytes=32 << 30)
        run.correspond(reqs, other, model, None, label + f" [{prof} build]")
    for (q, exp), a in zip(items, impl):
        run.evaluations += 1
        short = q if len(q) < 300 else q[:120] + f" ...({q.count(',') + 1} ids)... " + q[-40:]
        d = parse_digest(a)
        if d is None:
            # beyond the sizes the property's quantifier names, a refusal (`err`) is no verdict: the model answers, so the difference
            # stands as a broken correspondence (reported without a failing input); a crash or a hang is a failing input
            if not a.startswith("err"):
                run.violation(f"a bulk call did not return: {a[:120]}", q if len(q) < 100000 else short, a[:200])
            continue
        n, s, x = exp
        closed = " 1 " in q
        if "cell_to_boundary" in q:
            n = n if closed else n - 1
        if "cell_to_boundary" in q and isinstance(d.get("span"), str):
            from . import geo
            sp = geo.fx(d["span"])
            if sp >= 180.0 and exp[2] == "nonpolar":
                run.violation(f"ring longitudes span {sp:.3f} degrees although the cell does not touch a pole (antimeridian not unwrapped)", q, a[:200])
                continue
        if d["n"] != n:
            run.violation(f"{d['n']} elements returned where the cell tree / the requested subdivision gives exactly {n}", q if len(q) < 100000 else short, a[:200])
        elif s is not None and not count_only and (d.get("s"), d.get("x")) != (s, x):
            run.violation(f"the returned ids are not the expected set (sum/xor of ids {d.get('s')}/{d.get('x')}, expected {s}/{x} from the cell tree)",
                          q if len(q) < 100000 else short, a[:200])
        else:
            run.nontrivial.add(short)
    run.extra.setdefault("bulk", []).extend({"request": (q if len(q) < 200 else q[:100] + f" ...({q.count(',') + 1} ids)"), "impl": a[:120]} for (q, _), a in zip(items, impl))
    return impl, model
