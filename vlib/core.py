"""Common machinery of the /verif checks: ties (translator, lake build, axiom audit), harness
and driver runners, comparison, replays, known findings, evidence."""
import fcntl, json, os, random, re, resource, subprocess, sys, time, hashlib

VERIF = os.path.dirname(os.path.dirname(os.path.abspath(__file__)))
REPO = os.environ.get("VERIF_REPO", "/repo")
LEAN = os.path.join(VERIF, "lean")
HARNESS = os.path.join(VERIF, "harness")
EVID = os.path.join(VERIF, "evidence")
REPLAYS = os.path.join(VERIF, "replays")
DRIVER = os.path.join(LEAN, ".lake", "build", "bin", "a5driver")
ALLOWED_AXIOMS = {"propext", "Classical.choice", "Quot.sound"}
FORBIDDEN = re.compile(r"\bsorry\b|\badmit\b|^axiom\s|native_decide|bv_decide|implemented_by|\bunsafe\s|maxHeartbeats\s+0")

TRUSTED_BASE = [
    "Lean 4.33.0 kernel (and leanchecker replay in the thorough tier)",
    "axioms: at most propext, Classical.choice, Quot.sound (audited by #print axioms on every exported theorem)",
    "tools/translate.py (tables/constants regenerated from /repo/src on every run)",
    "hand-written A5.Model.* bodies: modelled, tied to /repo by the differential correspondence run (a5h harness vs a5driver)",
    "Rust/std semantics assumed by the model (checked/wrapping integer ops, from_str_radix, format!, sort, HashSet as a set, thread_local)",
    "the harness, generators, canonicalisation and oracles in /verif/vlib",
]


ESCALATION = 6


class Abort(Exception):
    pass


class Lock:
    def __init__(self, name):
        self.path = os.path.join(VERIF, "." + name + ".lock")

    def __enter__(self):
        self.f = open(self.path, "w")
        fcntl.flock(self.f, fcntl.LOCK_EX)

    def __exit__(self, *a):
        fcntl.flock(self.f, fcntl.LOCK_UN)
        self.f.close()


def sh(cmd, cwd=None, timeout=None, env=None):
    e = dict(os.environ)
    e["CARGO_NET_OFFLINE"] = "true"
    if env:
        e.update(env)
    p = subprocess.run(cmd, cwd=cwd, shell=isinstance(cmd, str), stdout=subprocess.PIPE, stderr=subprocess.STDOUT, text=True, timeout=timeout, env=e)
    return p.returncode, p.stdout


# ----------------------------------------------------------------------------------------------
# Ties
# ----------------------------------------------------------------------------------------------

def run_translator():
    """Regenerate A5/Gen/Tables.lean from /repo.  Returns (ok, message)."""
    rc, out = sh([sys.executable, os.path.join(VERIF, "tools", "translate.py"), "--repo", REPO, "--out", os.path.join(LEAN, "A5", "Gen", "Tables.lean")])
    return rc == 0, out.strip()


def lake_build(targets):
    with Lock("lake"):
        rc, out = sh(["lake", "build"] + list(targets), cwd=LEAN, timeout=3600)
    return rc == 0, out


def theorem_names(prop_id):
    """Exported theorems of A5/Props/<ID>.lean (fully qualified)."""
    path = os.path.join(LEAN, "A5", "Props", prop_id + ".lean")
    src = open(path).read()
    core_path = os.path.join(LEAN, "A5", "Props", prop_id + "Core.lean")
    if os.path.exists(core_path):
        # a property file split in two (the second part imports lemma files that themselves import the first part)
        src = open(core_path).read() + "\n" + src
    # strip comments
    txt = re.sub(r"/-.*?-/", " ", src, flags=re.S)
    txt = re.sub(r"--[^\n]*", " ", txt)
    ns = []
    names = []
    for m in re.finditer(r"^\s*(namespace|end|theorem|lemma)\s+([A-Za-z0-9_.'₀-₉]+)", txt, flags=re.M):
        kw, nm = m.group(1), m.group(2)
        if kw == "namespace":
            ns.append(nm)
        elif kw == "end":
            if ns and ns[-1] == nm:
                ns.pop()
        else:
            names.append(".".join(ns + [nm]))
    return names, src


def grep_forbidden(paths):
    hits = []
    for path in paths:
        src = open(path).read()
        txt = re.sub(r"/-.*?-/", lambda m: "\n" * m.group(0).count("\n"), src, flags=re.S)
        for i, line in enumerate(txt.split("\n"), 1):
            code = line.split("--")[0]
            if FORBIDDEN.search(code):
                hits.append(f"{os.path.relpath(path, VERIF)}:{i}: {line.strip()}")
    return hits


def lean_sources():
    res = []
    for root, _, files in os.walk(os.path.join(LEAN, "A5")):
        for f in files:
            if f.endswith(".lean"):
                res.append(os.path.join(root, f))
    return sorted(res)


def axiom_audit(prop_id):
    """#print axioms on every exported theorem of the property's module.
    Returns (ok, theorems, details)."""
    names, _ = theorem_names(prop_id)
    if not names:
        return False, [], "no theorems found"
    aud_dir = os.path.join(LEAN, ".audit")
    os.makedirs(aud_dir, exist_ok=True)
    f = os.path.join(aud_dir, f"Audit{prop_id}.lean")
    with open(f, "w") as fh:
        fh.write(f"import A5.Props.{prop_id}\n")
        for n in names:
            fh.write(f"#print axioms {n}\n")
    rc, out = sh(["lake", "env", "lean", f], cwd=LEAN, timeout=1800)
    if rc != 0:
        return False, names, "audit file failed to elaborate:\n" + out[-2000:]
    bad = []
    seen = 0
    # output: "'name' depends on axioms: [a, b]" or "'name' does not depend on any axioms"
    for m in re.finditer(r"'(\S+?)' (does not depend on any axioms|depends on axioms: \[([^\]]*)\])", out.replace("\n", " ")):
        seen += 1
        if m.group(3):
            ax = {a.strip() for a in m.group(3).split(",") if a.strip()}
            extra = ax - ALLOWED_AXIOMS
            if extra:
                bad.append(f"{m.group(1)}: {sorted(extra)}")
    if seen != len(names):
        return False, names, f"audit saw {seen} of {len(names)} theorems:\n" + out[-2000:]
    if bad:
        return False, names, "non-standard axioms: " + "; ".join(bad)
    hits = grep_forbidden(lean_sources())
    if hits:
        return False, names, "forbidden constructs: " + "; ".join(hits[:10])
    return True, names, f"{len(names)} theorems, axioms ⊆ {sorted(ALLOWED_AXIOMS)}"


def leanchecker(prop_id):
    rc, out = sh(["lake", "env", "leanchecker", f"A5.Props.{prop_id}"], cwd=LEAN, timeout=3600)
    return rc == 0, out[-2000:]


def cargo_build(profile="release"):
    """Build the harness against the current /repo tree. profile: 'release' | 'debug'."""
    cmd = ["cargo", "build", "--quiet"] + (["--release"] if profile == "release" else [])
    with Lock("cargo-" + profile):
        rc, out = sh(cmd, cwd=HARNESS, timeout=3600)
    return rc == 0, out, os.path.join(HARNESS, "target", profile, "a5h")


# ----------------------------------------------------------------------------------------------
# Running request streams
# ----------------------------------------------------------------------------------------------

def _limits(mem_bytes):
    def f():
        if mem_bytes:
            resource.setrlimit(resource.RLIMIT_AS, (mem_bytes, mem_bytes))
        resource.setrlimit(resource.RLIMIT_CORE, (0, 0))
    return f


def _run_watched(exe, args, data, timeout, per_line_timeout, mem_bytes):
    """run `exe` on `data`; returns (complete output lines, status) where status is None when the process ended by itself
    and consumed everything, 'hang' when no new output line appeared for per_line_timeout seconds (or the total timeout
    passed) and the process had to be killed, 'abort' when it died before answering every line"""
    import selectors, threading
    p = subprocess.Popen([exe] + list(args), stdin=subprocess.PIPE, stdout=subprocess.PIPE, stderr=subprocess.DEVNULL,
                         preexec_fn=_limits(mem_bytes))

    def feed():
        try:
            p.stdin.write(data.encode())
            p.stdin.close()
        except (BrokenPipeError, OSError):
            pass
    t = threading.Thread(target=feed, daemon=True)
    t.start()
    sel = selectors.DefaultSelector()
    sel.register(p.stdout, selectors.EVENT_READ)
    chunks = []
    t_end = time.time() + timeout
    last = time.time()
    status = None
    fd = p.stdout.fileno()
    while True:
        now = time.time()
        wait = min(t_end - now, last + per_line_timeout - now)
        if wait <= 0:
            status = "hang"
            break
        if not sel.select(timeout=wait):
            continue
        chunk = os.read(fd, 1 << 20)
        if not chunk:
            break
        if b"\n" in chunk:
            last = time.time()
        chunks.append(chunk)
    if status == "hang":
        p.kill()
    p.wait()
    sel.close()
    out = b"".join(chunks).decode("utf-8", "replace").split("\n")
    tail = out.pop() if out else ""      # text after the last newline: an incomplete line (dropped)
    return out, status


def run_stream(exe, requests, args=(), timeout=600, mem_bytes=None, isolate=False, per_line_timeout=60, max_hangs=6):
    """Feed request lines to `exe`; return list of response lines (same length).
    If the process dies or stops answering (no new response line for per_line_timeout seconds), the line it was working on
    gets 'abort' / 'hang' and the stream resumes with the next line (only when isolate=True; otherwise the rest is 'lost').
    A response line is only attributed to a request when the process flushes per line (`--flush`) or ends normally."""
    responses = []
    start = 0
    n = len(requests)
    t_end = time.time() + timeout
    while start < n:
        data = "\n".join(requests[start:]) + "\n"
        # the per-line watchdog is only meaningful when the process flushes every response line
        plt = per_line_timeout if "--flush" in args else timeout
        out, status = _run_watched(exe, args, data, max(1.0, t_end - time.time()), plt, mem_bytes)
        responses.extend(out[: n - start])
        got = len(out)
        if start + got >= n:
            break
        # died / hung at line start+got
        responses.append(status or "abort")
        start = start + got + 1
        hangs = sum(1 for r in responses if r == "hang")
        if hangs >= max_hangs:
            # every hang costs per_line_timeout seconds: enough evidence, do not spend the rest of the budget waiting
            responses.extend(["lost"] * (n - start))
            break
        if not isolate:
            responses.extend(["lost"] * (n - start))
            break
        if time.time() >= t_end:
            responses.extend(["lost"] * (n - start))
            break
    return responses[:n]


def run_isolated(exe, requests, mem_bytes=2 << 30, timeout_total=900, args=()):
    """C14-style run: line-buffered so that a crash loses only the offending line."""
    return run_stream(exe, requests, args=list(args) + ["--flush"], timeout=timeout_total, mem_bytes=mem_bytes, isolate=True,
                      per_line_timeout=25, max_hangs=4)


def run_driver(requests, timeout=900, mem_bytes=6 << 30):
    # memory cap: a request whose honest evaluation is astronomically large must die quickly ('abort'), not eat the machine
    return run_stream(DRIVER, requests, timeout=timeout, isolate=True, mem_bytes=mem_bytes)


_built = {}


def harness(run, profile="release"):
    """Build (once per process) the harness against the current /repo tree; a compile failure is a broken tie."""
    if profile in _built:
        return _built[profile]
    ok, out, exe = cargo_build(profile)
    if not ok:
        run.tie_breaks.append(("harness-build", f"cargo build ({profile}) of /verif/harness against {REPO}", out[-3000:]))
        raise Abort("the harness does not build against the current /repo tree")
    _built[profile] = exe
    return exe


BAD_ID = (63 << 58) | (1 << 56)          # top six bits 63: no origin - rejected by every id-taking call
STATEFUL_OPS = ("hist", "threads", "memo_fill", "consts")
FRESH_INSTANCE_OPS = ("dodeca_forward", "dodeca_inverse")


def default_canon(q, a):
    """what every comparison ignores: the wording (hence the derived kind) of an error, and the order of the cells `compact` returns (a set: the property speaks of the set of cells,
    and the implementation builds it through a HashSet and a sort whose tie-breaking is not part of the contract)"""
    if a.startswith("err"):
        return "err"          # the harness derives the error kind from the message text; no property speaks about messages
    if q.startswith("compact ") and a.startswith("ok ") and a[3:] != "-":
        try:
            return "ok " + ",".join(map(str, sorted(int(x) for x in a[3:].split(","))))
        except ValueError:
            return a
    return a


def _poison(q, rng):
    """a request of the same family as `q` that the library must reject (or answer) without leaving any trace: used to
    perturb the call history in the reordered pass"""
    t = q.split()
    op = t[0]
    try:
        if op == "compact" and len(t) >= 2:
            # valid cells first, then an id the call must reject
            return "compact " + ",".join(t[1].split(",")[: 6] + [str(BAD_ID)])
        if op == "uncompact" and len(t) >= 3:
            # the rejected id comes first: the valid cells behind it must not be expanded (nor pre-counted into an allocation)
            return "uncompact " + ",".join([str(BAD_ID)] + t[1].split(",")[: 6]) + f" {t[2]}"
        if op in ("cell_to_children", "cell_to_parent") and len(t) >= 3:
            return rng.choice([f"{op} {BAD_ID} {t[2]}", f"{op} {t[1]} 31", f"{op} {int(t[1]) | 1} {t[2]}", f"{op} {int(t[1]) >> 58 << 58 | 1 << 57} {t[2]}"])
        if op == "cell_to_boundary" and len(t) >= 4:
            return rng.choice([f"{op} {t[1]} {1 - int(t[2])} {rng.choice([1, 2, 3])}", f"{op} {t[1]} {1 - int(t[2])} {t[3]}", f"{op} {t[1]} {t[2]} {rng.choice([1, 2, 5])}",
                               f"{op} {BAD_ID} {t[2]} {t[3]}", f"cell_to_boundary_default {t[1]}"])
        if op in ("cell_to_lonlat", "cell_to_boundary_default", "deserialize", "get_resolution") and len(t) >= 2:
            return rng.choice([f"{op} {BAD_ID}", f"{op} {int(t[1]) >> 58 << 58 | 1 << 57}", f"cell_to_boundary {t[1]} 1 1"])
        if op == "lonlat_to_cell" and len(t) >= 4:
            return rng.choice([f"{op} {t[1]} {t[2]} 30", f"{op} {t[1]} {t[2]} -2", f"{op} {t[2]} {t[1]} {t[3]}"])
        if op == "contains" and len(t) >= 4:
            return f"{op} {BAD_ID} {t[2]} {t[3]}"
        if op in ("dodeca_forward", "dodeca_inverse") and len(t) >= 4:
            return f"{op} {t[1]} {t[2]} {rng.choice([12, 23, (int(t[3]) + 1) % 12])}"
        if op in ("s_to_anchor",) and len(t) >= 4:
            return f"{op} {t[1]} {t[2]} {(int(t[3]) + rng.randrange(1, 6)) % 6}"
        if op in ("ij_to_s",) and len(t) >= 5:
            return f"{op} {t[1]} {t[2]} {t[3]} {(int(t[4]) + rng.randrange(1, 6)) % 6}"
        if op == "hex_to_u64":
            return "hex_to_u64 zz"
    except (ValueError, IndexError):
        pass
    return None


def _id_neighbours(i, rng):
    """ids that a sloppy cache key could confuse with `i`: the same cell with one curve digit changed (the leading ones above all:
    the bits a packed key loses first), the same curve position one level deeper / shallower, the same digits in another quintant / face"""
    from . import spec
    d = spec.decode(i)
    if d is None:
        return []
    res, T, dg = d
    out = []
    if res >= 2:
        L = len(dg)
        for pos, ks in ((0, (1, 2, 3)), (min(1, L - 1), (rng.randrange(1, 4),)), (rng.randrange(L), (rng.randrange(1, 4),))):
            for k in ks:
                nd = list(dg)
                nd[pos] = (nd[pos] + k) % 4
                out.append(spec.encode(res, T, tuple(nd)))
        if res < 29:
            out.append(spec.encode(res + 1, T, (0,) + dg))
        if dg[0] == 0:
            out.append(spec.encode(res - 1, T, dg[1:]))
    if res >= 1:
        out.append(spec.encode(res, (T // 5) * 5 + (T + 1 + rng.randrange(4)) % 5, dg))
        out.append(spec.encode(res, (T + 5 * rng.randrange(1, 12)) % 60, dg))
    return [x for x in out if x != i]


def _neighbours(q, ans, rng):
    """requests next to `q` (valid ones, answered by the model as well) that are asked directly before and after it in the neighbour pass,
    plus the calls a user would make next with the value `q` returned"""
    from . import geo
    t = q.split()
    op = t[0]
    out = []
    try:
        if op in ("cell_to_lonlat", "cell_to_boundary_default", "deserialize", "get_resolution") and len(t) == 2:
            out = [f"{op} {x}" for x in _id_neighbours(int(t[1]), rng)]
            if op in ("cell_to_lonlat", "cell_to_boundary_default"):
                # the same cell through the other geometry call / with explicit options
                out += [f"cell_to_boundary {t[1]} {rng.randint(0, 1)} {rng.choice([1, 2, 3, 5])}", f"cell_to_boundary {t[1]} {rng.randint(0, 1)} none",
                        ("cell_to_lonlat " if op != "cell_to_lonlat" else "cell_to_boundary_default ") + t[1]]
        elif op in ("cell_to_boundary", "cell_to_children", "cell_to_parent", "contains") and len(t) >= 3:
            out = [" ".join([op, str(x)] + t[2:]) for x in _id_neighbours(int(t[1]), rng)]
            if op == "cell_to_children" and t[2] != "none":
                # keep the neighbours' fan-out within what the model can enumerate (<= 4^9 cells)
                from . import spec as _spec
                R_ = int(t[2])
                def small(x):
                    d_ = _spec.decode(x)
                    return d_ is not None and (R_ < d_[0] or R_ > 29 or _spec.fanout(d_[0], R_) <= 4 ** 9)
                out = [q_ for q_ in out if small(int(q_.split()[1]))]
            if op == "cell_to_boundary" and len(t) == 4:
                out += [f"cell_to_boundary_default {t[1]}", f"cell_to_boundary {t[1]} {1 - int(t[2])} {t[3]}",
                        f"cell_to_boundary {t[1]} {t[2]} {rng.choice([x for x in ('1', '2', '3', '7', 'none') if x != t[3]])}"]
        elif op == "lonlat_to_cell" and len(t) == 4:
            lon, lat, r = geo.fx(t[1]), geo.fx(t[2]), int(t[3])
            out = [f"{op} {t[1]} {t[2]} {r2}" for r2 in (r - 1, r + 1) if 0 <= r2 <= 29]
            if lon == lon and abs(lon) < 1e6:
                out += [f"{op} {geo.hx(lon + k)} {t[2]} {r}" for k in rng.sample([-1080.0, -720.0, -360.0, 360.0, 720.0, 1080.0], 2)]
                from . import gen as _gen
                out.append(f"{op} {geo.hx(lon + 360.0 * _gen.turns(rng))} {t[2]} {r}")
            if abs(lon) <= 90.0:
                out.append(f"{op} {t[2]} {t[1]} {r}")          # coordinates exchanged
            if ans and ans.startswith("ok "):
                cid = ans.split()[1]
                out += [f"cell_to_lonlat {cid}", f"cell_to_boundary_default {cid}"]
        elif op in ("dodeca_forward", "dodeca_inverse") and len(t) == 4:
            out = [f"{op} {t[2]} {t[1]} {t[3]}", f"{op} {t[1]} {t[2]} {(int(t[3]) + rng.randrange(1, 12)) % 12}"]
        elif op == "s_to_anchor" and len(t) == 4:
            sv, n, o = int(t[1]), int(t[2]), int(t[3])
            if n >= 1:
                top = 4 ** (n - 1)
                out += [f"{op} {(sv + k * top) % (4 ** n)} {n} {o}" for k in (1, 2, 3)]
                if n >= 2:
                    out.append(f"{op} {(sv + rng.randrange(1, 4) * 4 ** rng.randrange(n - 1)) % (4 ** n)} {n} {o}")
                if sv < top:
                    out.append(f"{op} {sv} {n - 1} {o}")
            if n < 30:
                out.append(f"{op} {sv} {n + 1} {o}")
            out.append(f"{op} {sv} {n} {(o + rng.randrange(1, 6)) % 6}")
            if n >= 1:
                # two components at once: the leading digit and the orientation (a packed key in which two fields overlap)
                for k in (1, 2, 3):
                    out.append(f"{op} {(sv + k * 4 ** (n - 1)) % (4 ** n)} {n} {(o + rng.randrange(1, 6)) % 6}")
        elif op == "ij_to_s" and len(t) == 5:
            out = [f"{op} {t[2]} {t[1]} {t[3]} {t[4]}", f"{op} {t[1]} {t[2]} {t[3]} {(int(t[4]) + rng.randrange(1, 6)) % 6}"]
    except (ValueError, IndexError, OverflowError):
        return []
    return [x for x in out if x != q]


def neighbour_pass(run, exe, requests, model, canon, label, isolate, timeout):
    """A cache keyed by fewer bits than the arguments have (a packed word that drops the top digits, a fingerprint that forgets one
    component or their order) answers a call with the result of a DIFFERENT call made just before.  Random streams never put two such
    calls next to each other, so this pass does: each sampled request is asked, then a near-collision neighbour of it (one digit of the
    id changed - the leading ones first -, the same curve position one level deeper, another quintant / face with the same digits,
    coordinates exchanged or moved by whole turns, another orientation), then the request again; and a lookup is followed by the calls
    a user makes next with the id it returned.  Every answer - of the neighbours too - must be the pure model's."""
    canon = canon or default_canon
    rng = random.Random(run.seed * 104729 + len(requests))
    pure = [i for i, q in enumerate(requests) if q.split()[0] not in STATEFUL_OPS and len(q) < 2000 and len(model[i]) < 30000]
    cap = run.n(1500, 12000)
    if len(pure) > cap:
        # deep cells first: that is where packed keys run out of bits
        pure = rng.sample(pure, cap)
    plan = []
    extra = []
    for i in pure:
        ns = _neighbours(requests[i], model[i], rng)
        if not ns:
            continue
        rng.shuffle(ns)
        ns = ns[:4]
        plan.append((i, range(len(extra), len(extra) + len(ns))))
        extra += ns
    if not extra:
        return
    emodel = run_driver(extra, timeout=timeout)
    seq, back = [], []
    for i, js in plan:
        for j in js:
            seq += [requests[i], extra[j]]
            back += [("r", i), ("e", j)]
        seq.append(requests[i]); back.append(("r", i))
    out = run_stream(exe, seq, args=["--flush"], timeout=timeout, isolate=True, mem_bytes=(2 << 30) if isolate else (6 << 30),
                     per_line_timeout=60, max_hangs=3)
    bad = 0
    for k, ((kind, i), a) in enumerate(zip(back, out)):
        if a == "lost":
            continue
        q, m = (requests[i], model[i]) if kind == "r" else (extra[i], emodel[i])
        if m in ("bad-op", "abort", "hang", "lost"):
            continue          # the model process itself gave up (resources): no verdict
        ca, cb = (canon(q, a), canon(q, m)) if canon else (a, m)
        if ca != cb:
            bad += 1
            prev = seq[max(0, k - 2): k]
            run.corr_disagreements.append({"request": q, "impl": a[:2000], "model": m[:2000], "suite": label + " [neighbour pass]", "history": prev})
            if bad <= 5:
                run.violation("a call is answered differently directly after a closely related call (same request alone: the model's answer; a cache key that does not separate the two calls gives this)",
                              prev + [q], a[:300], {"answer_of_the_model": m[:300]})
    run.corr_cases += len(seq)
    run.extra["neighbour_pass_requests"] = run.extra.get("neighbour_pass_requests", 0) + len(seq)


def reordered_pass(run, exe, requests, model, canon, label, isolate, timeout):
    """The model is a pure function of each request, so the implementation's answer must not depend on the calls made before:
    run a sample of the requests again in a different order, each followed (sometimes) by its own duplicate or by a related
    call the library must reject, and compare with the model's answers.  A difference is a result that depends on history."""
    canon = canon or default_canon
    rng = random.Random(run.seed * 7919 + len(requests))
    pure = [i for i, q in enumerate(requests) if q.split()[0] not in STATEFUL_OPS and len(q) < 20000 and len(model[i]) < 30000]
    cap = run.n(4000, 40000)
    if len(pure) > cap:
        pure = rng.sample(pure, cap)
    rng.shuffle(pure)
    seq, back = [], []
    for i in pure:
        q = requests[i]
        r = rng.random()
        if r < 0.25:
            # built from ANOTHER request of the stream (same operation when there is one): what a rejected call leaves behind
            # must not leak into the next call, and it could only be noticed if it differs from the next call's own data
            j = pure[rng.randrange(len(pure))]
            for _ in range(8):
                if requests[j].split()[0] == q.split()[0] and j != i:
                    break
                j = pure[rng.randrange(len(pure))]
            pz = _poison(requests[j] if requests[j].split()[0] == q.split()[0] else q, rng)
            if pz:
                seq.append(pz); back.append(None)
        op0 = q.split()[0]
        if op0 in FRESH_INSTANCE_OPS and 0.4 < r < 0.7:
            # the same call on a freshly constructed projection instance that is dropped afterwards (public constructor): same answer
            seq.append(op0 + "_new" + q[len(op0):]); back.append(i)
        else:
            seq.append(q); back.append(i)
        if r > 0.85:
            seq.append(q); back.append(i)          # the same call twice in a row
    # line-flushed, so that a crash or hang is attributed to the request that caused it and nothing else is lost
    out = run_stream(exe, seq, args=["--flush"], timeout=timeout, isolate=True, mem_bytes=(2 << 30) if isolate else (6 << 30),
                     per_line_timeout=60, max_hangs=3)
    bad = 0
    for k, (i, a) in enumerate(zip(back, out)):
        if i is None or a == "lost" or model[i] in ("abort", "hang", "lost"):
            continue
        q = requests[i]
        ca, cb = (canon(q, a), canon(q, model[i])) if canon else (a, model[i])
        if ca != cb:
            bad += 1
            prev = seq[max(0, k - 3): k]
            run.corr_disagreements.append({"request": q, "impl": a[:2000], "model": model[i][:2000], "suite": label + " [reordered pass]", "history": prev})
            if bad <= 5:
                run.violation("the result of a call depends on the calls made before it (same request, different answer after a different history; the pure model gives the other answer)",
                              prev + [q], a[:300], {"answer_of_the_model": model[i][:300]})
    run.corr_cases += len(seq)
    run.extra["reordered_pass_requests"] = run.extra.get("reordered_pass_requests", 0) + len(seq)
    # ... and concurrently: the same sample dealt out to 8 threads of one process (barrier every 5 calls so that they overlap);
    # every answer must still be the pure model's - state shared between threads must not show
    if bad == 0 and len(pure) >= 16:
        cseq = [requests[i] for i in pure[: run.n(1500, 12000)]]
        cout = run_stream(exe, cseq, args=["threads", "8", "5"], timeout=min(timeout, 300), isolate=False, mem_bytes=6 << 30)
        cbad = 0
        for i, a in zip(pure, cout):
            if a == "lost":
                continue
            q = requests[i]
            ca, cb = (canon(q, a), canon(q, model[i])) if canon else (a, model[i])
            if ca != cb:
                cbad += 1
                run.corr_disagreements.append({"request": q, "impl": a[:2000], "model": model[i][:2000], "suite": label + " [8 concurrent threads]"})
                if cbad <= 3:
                    run.violation("the result of a call differs when other threads use the library at the same time (8 threads; the pure model and the single-threaded run give the other answer)",
                                  q, a[:300], {"answer_of_the_model": model[i][:300]})
        run.corr_cases += len(cseq)
        run.extra["concurrent_pass_requests"] = run.extra.get("concurrent_pass_requests", 0) + len(cseq)
        # ... and hammered: a small set of calls, each answered once on the main thread and then repeated by 8 threads at once,
        # 150 times each in different orders (a race between two memo words needs the same few keys hit again and again)
        if cbad == 0:
            by_op = {}
            for i in pure:
                if len(model[i]) < 2000:
                    by_op.setdefault(requests[i].split()[0], []).append(i)
            hot = []
            for op_, idxs in by_op.items():
                hot += idxs[: max(4, 48 // max(1, len(by_op)))]
            hot = hot[:64]
            if len(hot) >= 2:
                hout = run_stream(exe, [requests[i] for i in hot], args=["hammer", "8", str(run.n(150, 1500))], timeout=min(timeout, 300), isolate=False, mem_bytes=6 << 30)
                for i, a in zip(hot, hout):
                    if a.startswith("MISMATCH "):
                        q = requests[i]
                        run.corr_disagreements.append({"request": q, "impl": a[:2000], "model": model[i][:2000], "suite": label + " [hammered by 8 threads]"})
                        run.violation("the result of a call changes while 8 threads repeat the same few calls at once (answer of the main thread before the threads started vs answer inside a thread)",
                                      q, a[9:300], {"answer_of_the_model": model[i][:300]})
                run.extra["hammer_pass_requests"] = run.extra.get("hammer_pass_requests", 0) + len(hot)
                # ... and during thread teardown: the same calls made by the destructor of an application thread-local on an exiting
                # thread (per-thread state the library frees in its own destructor must not be handed out afterwards)
                tout = run_stream(exe, [requests[i] for i in hot], args=["teardown"], timeout=min(timeout, 300), isolate=False, mem_bytes=6 << 30)
                for i, a in zip(hot, tout):
                    if a.startswith("MISMATCH ") or a in ("abort", "lost", "hang"):
                        q = requests[i]
                        run.corr_disagreements.append({"request": q, "impl": a[:2000], "model": model[i][:2000], "suite": label + " [thread teardown]"})
                        run.violation("a call made while its thread is being torn down (from the destructor of an application thread-local) does not return the answer it returns otherwise",
                                      q, a[:300], {"answer_of_the_model": model[i][:300]})
                run.extra["teardown_pass_requests"] = run.extra.get("teardown_pass_requests", 0) + len(hot)


def both(run, requests, label, profile="release", isolate=False, canon=None, timeout=1800, compare=True, reorder=True, mem_bytes=6 << 30):
    """Run the same request lines through the implementation (harness) and the model (Lean driver)."""
    exe = harness(run, profile)
    if isolate:
        impl = run_isolated(exe, requests, timeout_total=timeout)
    else:
        impl = run_stream(exe, requests, timeout=timeout, isolate=True, mem_bytes=mem_bytes)
    model = run_driver(requests, timeout=timeout, mem_bytes=mem_bytes)
    if compare:
        n0 = len(run.corr_disagreements)
        run.correspond(requests, impl, model, canon, label)
        # only when the straight pass agrees everywhere is a difference in the reordered pass attributable to the history
        if reorder and len(run.corr_disagreements) == n0 and len(requests) > 1:
            # on the OTHER build profile: the overflow-checked debug build when the straight pass ran the release build (and vice
            # versa), so that a profile-specific panic or wrap-around on ordinary inputs is seen by every property's check
            other = "debug" if profile == "release" else "release"
            try:
                exe2 = harness(run, other)
            except Abort:
                exe2 = exe
            reordered_pass(run, exe2, requests, model, canon, label + f" [{other} build]", isolate, timeout)
            if len(run.corr_disagreements) == n0:
                neighbour_pass(run, exe, requests, model, canon, label, isolate, timeout)
    return impl, model


def impl_only(run, requests, profile="release", isolate=False, timeout=1800):
    exe = harness(run, profile)
    if isolate:
        return run_isolated(exe, requests, timeout_total=timeout)
    return run_stream(exe, requests, timeout=timeout, isolate=True, mem_bytes=6 << 30)


def replay(prop_id, path, mod):
    """Re-run the requests recorded in a replay file against the current tree and the model."""
    data = json.load(open(path))
    reqs = []
    for v in data.get("violations", []):
        r = v.get("request")
        if isinstance(r, str):
            reqs.append(r)
        elif isinstance(r, list):
            reqs.extend(r)
    for d in data.get("correspondence_disagreements", []):
        if isinstance(d.get("request"), str) and not d["request"].startswith("<"):
            reqs.append(d["request"])
    if not reqs:
        print(json.dumps(data, indent=1)[:4000])
        print("(no request lines recorded; the replay names the broken obligation)")
        return 0
    ok, msg = run_translator()
    lake_build(["a5driver"])
    ok, out, exe = cargo_build("release")
    if not ok:
        print(out[-2000:])
        return 2
    impl = run_stream(exe, reqs, isolate=True)
    model = run_driver(reqs)
    bad = 0
    for q, a, b in zip(reqs, impl, model):
        verdict = ""
        if hasattr(mod, "oracle"):
            try:
                msg = mod.oracle(q, a)
                verdict = "oracle: " + ("ok" if not msg else "FAIL " + msg)
                bad += 1 if msg else 0
            except Exception as e:  # noqa
                verdict = f"oracle error {e}"
        print(f"request: {q[:500]}\n  impl : {a[:500]}\n  model: {b[:500]}\n  {verdict}")
    return 1 if bad else 0


# ----------------------------------------------------------------------------------------------
# Known findings
# ----------------------------------------------------------------------------------------------

def load_known_findings():
    p = os.path.join(VERIF, "known_findings.json")
    if not os.path.exists(p):
        return {"findings": [], "fixed": []}
    return json.load(open(p))


# ----------------------------------------------------------------------------------------------
# Result object
# ----------------------------------------------------------------------------------------------

class Run:
    """State of one check run for one property."""

    def __init__(self, prop_id, tier, seed):
        self.id = prop_id
        self.tier = tier
        self.seed = seed
        self.rng = random.Random((seed << 8) ^ int(hashlib.sha256(prop_id.encode()).hexdigest()[:8], 16))
        # drift alarm, never a verdict: sources that differ from the reference tree make a quick check search at the thorough budget
        self.changed_sources = changed_sources()
        self.escalated = tier == "quick" and bool(self.changed_sources) and os.environ.get("VERIF_NO_ESCALATE") != "1"
        self.quick = tier == "quick"

        self.t0 = time.time()
        self.tie_breaks = []        # list of (kind, name, detail)
        self.violations = []        # list of dict (concrete failing inputs)
        self.known = []             # list of str
        self.obligations = 0
        self.discharged = 0
        self.theorems = []
        self.partial = []
        self.corr_cases = 0
        self.corr_disagreements = []
        self.evaluations = 0
        self.nontrivial = set()
        self.samples = []
        self.rule = ""
        self.extra = {}
        self.assumptions = []
        self.checker_cmd = f"cd /verif/lean && lake build A5.Props.{prop_id} && lake env lean .audit/Audit{prop_id}.lean  (# print axioms)"
        self.log = []

    def n(self, quick_n, thorough_n):
        """sample size: the quick size, the thorough size, or - quick tier on a tree whose sources differ from the reference tree -
        ESCALATION times the quick size (capped by the thorough size)"""
        if self.tier != "quick":
            return thorough_n
        return min(thorough_n, ESCALATION * quick_n) if self.escalated else quick_n

    def note(self, msg):
        self.log.append(msg)
        print(f"[{self.id}] {msg}", flush=True)

    # -- ties ---------------------------------------------------------------------------------
    def do_ties(self):
        if self.changed_sources:
            self.note("sources differ from the reference tree: " + ", ".join(self.changed_sources[:6]) + (f" -> sample sizes x {ESCALATION}" if self.escalated else ""))
        ok, msg = run_translator()
        self.note(msg)
        if not ok:
            self.tie_breaks.append(("translator", "tools/translate.py", msg))
            return False
        # runtime constants (computed with libm at start-up): driver and real library must agree bit-for-bit; then Gen/Runtime.lean
        okd, outd = lake_build(["a5driver"])
        if okd:
            try:
                exe = harness(self, "release")
                rc, rout = sh([sys.executable, os.path.join(VERIF, "tools", "gen_runtime.py"), "--driver", DRIVER, "--harness", exe,
                               "--out", os.path.join(LEAN, "A5", "Gen", "Runtime.lean")])
                self.note(rout.strip().split("\n")[-1][:200])
                if rc != 0:
                    self.tie_breaks.append(("runtime-constants", "tools/gen_runtime.py (model vs library start-up constants)", rout[-1500:]))
            except Abort:
                pass
        # the state inventory of the source (statics, thread-locals, struct fields) must be the one the model was written against
        self.inventory_ok, inv_out = lake_build(["A5.Props.StateInventory"])
        if not self.inventory_ok:
            def entries(path):
                try:
                    return [l[5:].rstrip("\n") for l in open(path) if l.startswith("--   ")]
                except OSError:
                    return []
            g, r = entries(os.path.join(LEAN, "A5", "Gen", "Tables.lean")), entries(os.path.join(LEAN, "A5", "Ref", "Tables.lean"))
            added = [e for e in g if e not in r]
            removed = [e for e in r if e not in g]
            msg = "state the model does not have: " + ("; ".join(["+ " + e for e in added] + ["- " + e for e in removed]) or inv_out[-600:])
            self.tie_breaks.append(("state-inventory", "A5.STATE_INVENTORY_unchanged (A5/Props/StateInventory.lean)", msg[:3000]))
            self.note("state inventory differs: " + msg[:300])
        ok, out = lake_build([f"A5.Props.{self.id}", "a5driver"])
        if not ok:
            # find which declaration failed
            errs = [l for l in out.split("\n") if "error" in l][:8]
            self.tie_breaks.append(("proof", f"A5.Props.{self.id}", "\n".join(errs) or out[-1500:]))
            self.note("lake build FAILED")
            # try to build at least the driver for the search
            lake_build(["a5driver"])
            names, _ = theorem_names(self.id)
            self.theorems = names
            self.obligations = len(names) + 1
            self.discharged = 0
            return False
        ok, names, detail = axiom_audit(self.id)
        self.theorems = names + ["A5.STATE_INVENTORY_unchanged"]
        self.obligations = len(names) + 2
        self.note("audit: " + detail.split("\n")[0])
        if not ok:
            self.tie_breaks.append(("audit", f"A5.Props.{self.id}", detail))
            self.discharged = 0
            return False
        self.discharged = self.obligations - (0 if self.inventory_ok else 1)
        self.partial = [n for n in names if n.endswith("_partial")]
        if self.tier == "thorough":
            ok, out = leanchecker(self.id)
            self.note("leanchecker: " + ("ok" if ok else "FAILED"))
            if not ok:
                self.tie_breaks.append(("leanchecker", f"A5.Props.{self.id}", out))
                self.discharged = 0
                return False
        return True

    # -- correspondence ---------------------------------------------------------------------------
    def correspond(self, requests, impl, model, canon=None, label="corr"):
        """Compare response streams; record disagreements."""
        self.corr_cases += len(requests)
        canon = canon or default_canon
        for i, (q, a, b) in enumerate(zip(requests, impl, model)):
            if b in ("abort", "hang", "lost") and a not in ("abort", "hang", "lost", "panic"):
                # the MODEL process ran out of memory / time on this request while the library answered: no verdict, but counted
                self.extra["model_gave_up"] = self.extra.get("model_gave_up", 0) + 1
                continue
            ca, cb = (canon(q, a), canon(q, b)) if canon else (a, b)
            if ca != cb:
                self.corr_disagreements.append({"request": q, "impl": a[:2000], "model": b[:2000], "suite": label})
        if len(impl) != len(requests) or len(model) != len(requests):
            self.corr_disagreements.append({"request": "<stream>", "impl": f"{len(impl)} responses", "model": f"{len(model)} responses", "suite": label})

    def violation(self, what, request, impl=None, extra=None):
        d = {"what": what, "request": request, "impl": impl}
        if extra:
            d.update(extra)
        self.violations.append(d)

    # -- finish -----------------------------------------------------------------------------------
    def write_replay(self, payload, tag):
        os.makedirs(REPLAYS, exist_ok=True)
        path = os.path.join(REPLAYS, f"{self.id}-{self.seed}-{tag}.json")
        payload = dict(payload)
        payload.update({"property": self.id, "seed": self.seed, "tier": self.tier, "repo_state": repo_state()})
        json.dump(payload, open(path, "w"), indent=1)
        return path

    def finish(self, level="proof", trusted_extra=None):
        wall = time.time() - self.t0
        exit_code = 0
        lines = []
        # known findings filter
        kf = load_known_findings()
        remaining = []
        for v in self.violations:
            matched = None
            for f in kf.get("findings", []):
                if f.get("property") == self.id and f.get("match_key") and v.get("match_key") == f.get("match_key"):
                    matched = f
                    break
            if matched:
                msg = f"KNOWN-FINDING: property={self.id} {matched.get('what', '')}"
                if msg not in self.known:
                    self.known.append(msg)
            else:
                remaining.append(v)
        for k in self.known:
            lines.append(k)
        if remaining:
            path = self.write_replay({"kind": "violation", "violations": remaining[:20], "count": len(remaining)}, "v")
            lines.append(f"VIOLATION property={self.id} replay={path}")
            exit_code = 1
        elif self.tie_breaks or self.corr_disagreements:
            payload = {"kind": "broken-tie", "no_failing_input_found": True,
                       "broken": [{"kind": k, "name": n, "detail": d[:4000]} for k, n, d in self.tie_breaks],
                       "correspondence_disagreements": self.corr_disagreements[:20],
                       "n_disagreements": len(self.corr_disagreements)}
            path = self.write_replay(payload, "tie")
            lines.append(f"VIOLATION property={self.id} replay={path} no-failing-input-found")
            exit_code = 1
        cov = {
            "obligations": max(self.obligations, 1),
            "discharged": self.discharged if not self.tie_breaks else 0,
            "checker_cmd": self.checker_cmd,
            "trusted_base": TRUSTED_BASE + (trusted_extra or []),
            "theorems": self.theorems,
            "partial_theorems": self.partial,
            "traces_validated_against_impl": self.corr_cases,
            "correspondence_disagreements": len(self.corr_disagreements),
            "evaluations": max(self.evaluations, 1),
            "distinct_nontrivial": len(self.nontrivial),
            "rule": self.rule,
            "samples": self.samples[:12] if self.samples else ["<none>"],
            "known_findings_reported": self.known,
            "sources_changed_vs_reference_tree": self.changed_sources,
            "search_budget": f"quick x {ESCALATION} (escalated: sources differ from the reference tree)" if self.escalated else self.tier,
        }
        cov.update(self.extra)
        ev = {
            "property_id": self.id,
            "tier": self.tier,
            "seed": self.seed,
            "level": level,
            "coverage": cov,
            "assumptions": self.assumptions,
            "wall_s": round(wall, 2),
            "violations": len(remaining) + (1 if (exit_code == 1 and not remaining) else 0),
        }
        os.makedirs(EVID, exist_ok=True)
        json.dump(ev, open(os.path.join(EVID, f"{self.id}.json"), "w"), indent=1)
        for l in lines:
            print(l, flush=True)
        print(f"[{self.id}] done in {wall:.1f}s: obligations {cov['discharged']}/{cov['obligations']}, correspondence {self.corr_cases} cases ({len(self.corr_disagreements)} disagreements), search {self.evaluations} evaluations, violations {len(remaining)}", flush=True)
        return exit_code


def changed_sources():
    """Rust sources whose comment- and whitespace-free token stream differs from the reference tree (golden/fingerprints.json)"""
    try:
        sys.path.insert(0, os.path.join(VERIF, "tools"))
        import fingerprint
        return fingerprint.diff(REPO, os.path.join(VERIF, "golden", "fingerprints.json"))
    except Exception as e:  # noqa
        return [f"<fingerprint error: {e}>"]


def repo_state():
    rc, head = sh(["git", "-C", REPO, "rev-parse", "HEAD"])
    rc2, st = sh(["git", "-C", REPO, "status", "--porcelain", "--", "src", "Cargo.toml"])
    return {"head": head.strip(), "dirty": bool(st.strip())}
