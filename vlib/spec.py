"""Independent reference semantics of the A5 cell tree, written from the documented ID layout
(not from the Rust code and not from the Lean model): used only as the oracle of the searches.

layout: 6 bits T | 2 bits per curve level | 1 marker bit | zeros
  world: 0;  res 0: T = face (<12), marker at bit 57;  res 1: T = 5*face + k (<60), marker at 56;
  res r >= 2: L = r-1 levels, digits in bits [58-2L, 58), marker at 57-2L.
"""
M64 = (1 << 64) - 1


def tz(x):
    return (x & -x).bit_length() - 1


def decode(i):
    """-> (res, T, digits tuple) or None if `i` is not in canonical layout."""
    if i == 0:
        return (-1, 0, ())
    if i < 0 or i > M64:
        return None
    t = tz(i)
    T = i >> 58
    if t == 57:
        return (0, T, ()) if T < 12 and (i & ((1 << 58) - 1)) == (1 << 57) else None
    if t == 56:
        return (1, T, ()) if T < 60 and (i & ((1 << 58) - 1)) == (1 << 56) else None
    if t % 2 == 1 and t <= 55:
        r = (59 - t) // 2
        L = r - 1
        if T >= 60:
            return None
        s = (i & ((1 << 58) - 1)) >> (58 - 2 * L)
        digits = tuple((s >> (2 * (L - 1 - k))) & 3 for k in range(L))
        return (r, T, digits)
    return None


def encode(res, T, digits):
    if res == -1:
        return 0
    if res == 0:
        return (T << 58) | (1 << 57)
    if res == 1:
        return (T << 58) | (1 << 56)
    L = res - 1
    assert len(digits) == L
    s = 0
    for d in digits:
        s = (s << 2) | d
    return (T << 58) | (s << (58 - 2 * L)) | (1 << (57 - 2 * L))


def res_of(i):
    d = decode(i)
    return None if d is None else d[0]


def parent(i):
    res, T, dg = decode(i)
    if res == -1:
        return None
    if res == 0:
        return 0
    if res == 1:
        return encode(0, T // 5, ())
    return encode(res - 1, T, dg[:-1])


def children(i):
    res, T, dg = decode(i)
    if res == -1:
        return [encode(0, f, ()) for f in range(12)]
    if res == 0:
        return [encode(1, 5 * T + k, ()) for k in range(5)]
    return [encode(res + 1, T, dg + (d,)) for d in range(4)]


def ancestor_at(i, r):
    res, T, dg = decode(i)
    assert -1 <= r <= res
    if r == res:
        return i
    if r == -1:
        return 0
    if r == 0:
        return encode(0, T // 5, ())      # res >= 1 here
    if r == 1:
        return encode(1, T, ())
    return encode(r, T, dg[: r - 1])


def descendants_at(i, R):
    """set-semantics list of descendants (order unspecified by the spec)."""
    res = decode(i)[0]
    assert R >= res
    cur = [i]
    while res < R:
        nxt = []
        for c in cur:
            nxt.extend(children(c))
        cur = nxt
        res += 1
    return cur


def fanout(res, R):
    n = 1
    for r in range(res, R):
        n *= 12 if r == -1 else 5 if r == 0 else 4
    return n


def region(cells, R):
    s = set()
    for c in cells:
        s.update(descendants_at(c, R))
    return s


def is_ancestor_or_equal(a, b):
    """a is b or an ancestor of b"""
    ra, rb = decode(a)[0], decode(b)[0]
    return ra <= rb and ancestor_at(b, ra) == a


def num_cells(r):
    return 1 if r == -1 else 12 if r == 0 else 60 * 4 ** (r - 1)
