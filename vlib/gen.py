"""Generators shared by the property suites.  All randomness comes from the Run's rng."""
from . import spec


def rand_digits(rng, L):
    mode = rng.random()
    if mode < 0.15:
        return tuple([0] * L)
    if mode < 0.30:
        return tuple([3] * L)
    if mode < 0.40:
        a, b = rng.randrange(4), rng.randrange(4)
        return tuple(a if k % 2 == 0 else b for k in range(L))
    if mode < 0.50:
        # single non-zero digit
        d = [0] * L
        if L:
            d[rng.randrange(L)] = rng.randrange(1, 4)
        return tuple(d)
    if mode < 0.65:
        # straddle a parent boundary: prefix, then all 3s or all 0s
        k = rng.randrange(L + 1)
        fill = rng.choice([0, 3])
        return tuple(rng.randrange(4) for _ in range(k)) + tuple([fill] * (L - k))
    return tuple(rng.randrange(4) for _ in range(L))


def rand_cell(rng, res=None, lo=-1, hi=29):
    """random canonical cell id"""
    if res is None:
        res = rng.randint(lo, hi)
    if res == -1:
        return 0
    if res == 0:
        return spec.encode(0, rng.randrange(12), ())
    T = rng.randrange(60)
    if res == 1:
        return spec.encode(1, T, ())
    return spec.encode(res, T, rand_digits(rng, res - 1))


def all_cells(res):
    if res == -1:
        yield 0
        return
    if res == 0:
        for f in range(12):
            yield spec.encode(0, f, ())
        return
    L = res - 1
    for T in range(60):
        if res == 1:
            yield spec.encode(1, T, ())
        else:
            base = (T << 58) | (1 << (57 - 2 * L))
            sh = 58 - 2 * L
            for s in range(4 ** L):
                yield base | (s << sh)


def malformed_id(rng):
    m = rng.random()
    if m < 0.2:
        return rng.getrandbits(64)
    if m < 0.35:
        return rand_cell(rng) | rng.getrandbits(rng.randint(1, 20))   # stray low bits
    if m < 0.45:
        return (rng.randrange(64) << 58) | (1 << rng.randrange(58))    # marker-only, any top6
    if m < 0.55:
        return (rng.randrange(60, 64) << 58) | (rand_cell(rng) & ((1 << 58) - 1))
    if m < 0.65:
        # aliases of the world cell: bits only at even positions below 56, or in the top 6
        x = 0
        for _ in range(rng.randint(1, 4)):
            x |= 1 << rng.choice(list(range(0, 56, 2)) + list(range(58, 64)))
        return x
    if m < 0.75:
        return rng.choice([1, 2, 3, 4, 5, (1 << 64) - 1, 1 << 63, 1 << 58, (1 << 58) - 1, 0xfc00000000000000, 0x03ffffffffffffff])
    if m < 0.85:
        return rand_cell(rng) ^ (1 << rng.randrange(64))
    return rand_cell(rng)


def rand_i32(rng):
    m = rng.random()
    if m < 0.5:
        return rng.randint(-3, 32)
    if m < 0.7:
        return rng.choice([-2147483648, 2147483647, -2147483647, 2147483646, 30, 31, 32, 33, 58, 59, 60, 63, 64, 65, -1, -2])
    return rng.randint(-2147483648, 2147483647)


def antichain(rng, root=0, max_depth=4, p_split=0.6, p_drop=0.15, max_cells=3000):
    """random antichain under `root` by recursive subdivision and deletion"""
    out = []
    stack = [(root, 0)]
    while stack:
        c, d = stack.pop()
        res = spec.decode(c)[0]
        if res < 29 and d < max_depth and rng.random() < p_split and len(out) + len(stack) < max_cells:
            for ch in spec.children(c):
                stack.append((ch, d + 1))
        elif rng.random() >= p_drop:
            out.append(c)
    return out


def turns(rng):
    """a whole number of turns to add to an angle: mostly 1..3, sometimes tens to a million (either sign) - angles are periodic, and
    code that reduces them by hand (casts, remainders, saturating conversions) goes wrong only far out"""
    m = rng.random()
    k = rng.choice([1, 1, 2, 3]) if m < 0.5 else int(10 ** rng.uniform(1, 6))
    return k if rng.random() < 0.5 else -k
