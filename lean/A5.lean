import A5.Model.Codec
import A5.Model.Hier
import A5.Model.Compact
import A5.Model.Hex
