/- FROZEN reference tables: the tables and constants of the reference release v0.6.2 (pinned commit d731376),
   produced by tools/translate.py.  The fix: commits on top of the pinned tree change no table, literal or constant
   (checked with git diff d731376), so this file was frozen from the regenerated tables of the repaired tree.
   NEVER regenerate or edit: C06 compares A5.Gen (regenerated on every run) against this file. -/
import A5.Model.FConst
set_option maxRecDepth 4096
namespace A5.Ref
open A5
-- serialization.rs
def FIRST_HILBERT_RESOLUTION : Int := 2
def MAX_RESOLUTION : Int := 30
def HILBERT_START_BIT : Nat := 58
def REMOVAL_MASK : Nat := 0x3ffffffffffffff
def ORIGIN_SEGMENT_MASK : Nat := 0xfc00000000000000
def WORLD_CELL : Nat := 0
def FIRST_CHILD_COUNT_RES0 : Nat := 12
def FIRST_CHILD_COUNT_RES1 : Nat := 5
def MAX_CHILD_DIFF : Int := 20
def NUM_ORIGINS_WORLD : Nat := 12
def NEW_SEGMENTS : List Nat := [0, 1, 2, 3, 4]
-- compact.rs
def SIBLINGS_HILBERT : Nat := 4
def SIBLINGS_RES0 : Nat := 12
def SIBLINGS_RES1 : Nat := 5
-- origin.rs   (orientation code: UV=0 VU=1 UW=2 WU=3 VW=4 WV=5)
def CLOCKWISE_FAN : List Nat := [1, 2, 4, 4, 4]
def CLOCKWISE_STEP : List Nat := [3, 2, 4, 1, 2]
def COUNTER_STEP : List Nat := [3, 0, 5, 3, 2]
def COUNTER_JUMP : List Nat := [1, 0, 5, 3, 2]
def QUINTANT_ORIENTATIONS_ARRAYS : List (List Nat) := [CLOCKWISE_FAN, COUNTER_JUMP, COUNTER_STEP, CLOCKWISE_STEP, COUNTER_STEP, COUNTER_JUMP, COUNTER_STEP, CLOCKWISE_STEP, CLOCKWISE_STEP, CLOCKWISE_STEP, COUNTER_JUMP, COUNTER_JUMP]
def QUINTANT_FIRST : List Nat := [4, 2, 3, 2, 0, 4, 3, 2, 2, 0, 3, 0]
def ORIGIN_ORDER : List Nat := [0, 1, 2, 4, 3, 5, 7, 8, 6, 11, 10, 9]
def CLOCKWISE_LAYOUTS : List (List Nat) := [CLOCKWISE_FAN, CLOCKWISE_STEP]
def RING2_QUAT_ADD : Nat := 3
def RING2_QUAT_MOD : Nat := 5
def RING2_QUAT_BASE : Nat := 6
def SOUTH_QUAT_INDEX : Nat := 11
def IS_NEAREST_THRESHOLD : FConst := ⟨0x3fdffffff543388f, (9007199074597007), (-54)⟩
-- hilbert.rs
def PATTERN : List Nat := [0, 1, 3, 4, 5, 6, 7, 2]
def PATTERN_FLIPPED : List Nat := [0, 1, 2, 7, 3, 4, 5, 6]
def YES : Int := -1
def NO : Int := 1
def QUATERNARY_TO_FLIPS : List (Int × Int) := [(1, 1), (1, -1), (1, 1), (-1, 1)]
/-- rows: ((flip_x, flip_y), p, q) in KJ coordinates -/
def KJ_PQ_TABLE : List ((Int × Int) × (Int × Int) × (Int × Int)) := [((1, 1), (1, 0), (0, 1)), ((-1, 1), (0, -1), (-1, 0)), ((1, -1), (0, 1), (1, 0)), ((-1, -1), (-1, 0), (0, -1))]
/-- digit n ↦ (a, b) with offset = a·q + b·p -/
def KJ_DIGIT_COEFF : List (Int × Int) := [(0, 0), (0, 1), (1, 1), (1, 2)]
def FLIP_SHIFT : Int × Int := (-1, 1)
def S2A_REVERSE_SET : List Nat := [1, 3, 4]
def IJ2S_REVERSE_SET : List Nat := [1, 3, 4]
def S2A_INVERT_J_SET : List Nat := [4, 5]
def IJ2S_INVERT_J_SET : List Nat := [4, 5]
def S2A_FLIP_IJ_SET : List Nat := [2, 3]
def IJ2S_FLIP_IJ_SET : List Nat := [2, 3]
-- constants.rs
def PHI : FConst := ⟨0x3ff9e3779b97f4a8, (910872158600853), (-49)⟩
def TWO_PI : FConst := ⟨0x401921fb54442d18, (884279719003555), (-47)⟩
def TWO_PI_OVER_5 : FConst := ⟨0x3ff41b2f769cf0e0, (176855943800711), (-47)⟩
def PI_OVER_5 : FConst := ⟨0x3fe41b2f769cf0e0, (176855943800711), (-48)⟩
def PI_OVER_10 : FConst := ⟨0x3fd41b2f769cf0e0, (176855943800711), (-49)⟩
def DIHEDRAL_ANGLE : FConst := ⟨0x4000468a8ace4df6, (2290580237788923), (-50)⟩
def INTERHEDRAL_ANGLE : FConst := ⟨0x3ff1b6e192ebbe44, (1246538638225297), (-50)⟩
def FACE_EDGE_ANGLE : FConst := ⟨0x3ff0468a8ace4df6, (2290580237788923), (-51)⟩
def DISTANCE_TO_EDGE : FConst := ⟨0x3fe3c6ef372fe950, (347922205179541), (-49)⟩
def DISTANCE_TO_VERTEX : FConst := ⟨0x3fe8722191a02d60, (215027748241771), (-48)⟩
def R_INSCRIBED : FConst := ⟨0x3ff0000000000000, (1), (0)⟩
def R_MIDEDGE : FConst := ⟨0x3ff2cf2304755a5e, (2647149443198255), (-51)⟩
def R_CIRCUMSCRIBED : FConst := ⟨0x3ff4227106f501d4, (1416842094395509), (-50)⟩
def PI : FConst := ⟨0x400921fb54442d18, (884279719003555), (-48)⟩
def FRAC_PI_2 : FConst := ⟨0x3ff921fb54442d18, (884279719003555), (-49)⟩
def PI_OVER_180 : FConst := ⟨0x3f91df46a2529d39, (5030569068109113), (-58)⟩
def DEG_PER_RAD : FConst := ⟨0x404ca5dc1a63c1f8, (1007958012753983), (-44)⟩
-- dodecahedron_quaternions.rs
def QUATERNIONS : List (List FConst) := [
  [⟨0x0000000000000000, (0), (0)⟩, ⟨0x0000000000000000, (0), (0)⟩, ⟨0x0000000000000000, (0), (0)⟩, ⟨0x3ff0000000000000, (1), (0)⟩],
  [⟨0x0000000000000000, (0), (0)⟩, ⟨0x3fe0d2ca0da1530d, (4735364881273613), (-53)⟩, ⟨0x0000000000000000, (0), (0)⟩, ⟨0x3feb38880b4603e4, (1915495331758329), (-51)⟩],
  [⟨0xbfe0000000000000, (-1), (-1)⟩, ⟨0x3fc4cb7bfb4961ae, (2926616445759703), (-54)⟩, ⟨0x0000000000000000, (0), (0)⟩, ⟨0x3feb38880b4603e4, (1915495331758329), (-51)⟩],
  [⟨0xbfd3c6ef372fe950, (-347922205179541), (-50)⟩, ⟨0xbfdb38880b4603e5, (-7661981327033317), (-54)⟩, ⟨0x0000000000000000, (0), (0)⟩, ⟨0x3feb38880b4603e4, (1915495331758329), (-51)⟩],
  [⟨0x3fd3c6ef372fe950, (347922205179541), (-50)⟩, ⟨0xbfdb38880b4603e5, (-7661981327033317), (-54)⟩, ⟨0x0000000000000000, (0), (0)⟩, ⟨0x3feb38880b4603e4, (1915495331758329), (-51)⟩],
  [⟨0x3fe0000000000000, (1), (-1)⟩, ⟨0x3fc4cb7bfb4961ae, (2926616445759703), (-54)⟩, ⟨0x0000000000000000, (0), (0)⟩, ⟨0x3feb38880b4603e4, (1915495331758329), (-51)⟩],
  [⟨0x0000000000000000, (0), (0)⟩, ⟨0xbfeb38880b4603e4, (-1915495331758329), (-51)⟩, ⟨0x0000000000000000, (0), (0)⟩, ⟨0x3fe0d2ca0da1530d, (4735364881273613), (-53)⟩],
  [⟨0x3fe9e3779b97f4a8, (910872158600853), (-50)⟩, ⟨0xbfd0d2ca0da1530d, (-4735364881273613), (-54)⟩, ⟨0x0000000000000000, (0), (0)⟩, ⟨0x3fe0d2ca0da1530d, (4735364881273613), (-53)⟩],
  [⟨0x3fe0000000000000, (1), (-1)⟩, ⟨0x3fe605a90c73ab79, (6198673104153465), (-53)⟩, ⟨0x0000000000000000, (0), (0)⟩, ⟨0x3fe0d2ca0da1530d, (4735364881273613), (-53)⟩],
  [⟨0xbfe0000000000000, (-1), (-1)⟩, ⟨0x3fe605a90c73ab79, (6198673104153465), (-53)⟩, ⟨0x0000000000000000, (0), (0)⟩, ⟨0x3fe0d2ca0da1530d, (4735364881273613), (-53)⟩],
  [⟨0xbfe9e3779b97f4a8, (-910872158600853), (-50)⟩, ⟨0xbfd0d2ca0da1530d, (-4735364881273613), (-54)⟩, ⟨0x0000000000000000, (0), (0)⟩, ⟨0x3fe0d2ca0da1530d, (4735364881273613), (-53)⟩],
  [⟨0x0000000000000000, (0), (0)⟩, ⟨0xbff0000000000000, (-1), (0)⟩, ⟨0x0000000000000000, (0), (0)⟩, ⟨0x0000000000000000, (0), (0)⟩]]
-- coordinate_transforms.rs
def LONGITUDE_OFFSET : FConst := ⟨0x4057400000000000, (93), (0)⟩
def POLE_LAT_LO : FConst := ⟨0xc0567f5c28f5c28f, (-6332483288547983), (-46)⟩
def POLE_LAT_HI : FConst := ⟨0x40567f5c28f5c28f, (6332483288547983), (-46)⟩
-- cell_info.rs
def AUTHALIC_AREA : FConst := ⟨0x42fcfe6e8608aaf2, (4080524998235513), (-3)⟩
def NUM_CELLS_SPECIAL : List (Int × Nat) := [(0, 12), (28, 1080863910568919000), (29, 4323455642275676000), (30, 17293822569102705000)]
def NUM_CELLS_FACTOR : Nat := 60
def CELL_AREA_TABLE : List FConst := [
  ⟨0x42c35449aeb071f7, (5440699997647351), (-7)⟩,
  ⟨0x429eed42b11a4ff1, (8705119996235761), (-10)⟩,
  ⟨0x427eed42b11a4ff1, (8705119996235761), (-12)⟩,
  ⟨0x425eed42b11a4ff1, (8705119996235761), (-14)⟩,
  ⟨0x423eed42b11a4ff2, (4352559998117881), (-15)⟩,
  ⟨0x421eed42b11a4ff1, (8705119996235761), (-18)⟩,
  ⟨0x41feed42b11a4ff1, (8705119996235761), (-20)⟩,
  ⟨0x41deed42b11a4ff1, (8705119996235761), (-22)⟩,
  ⟨0x41beed42b11a4ff1, (8705119996235761), (-24)⟩,
  ⟨0x419eed42b11a4ff1, (8705119996235761), (-26)⟩,
  ⟨0x417eed42b11a4ff1, (8705119996235761), (-28)⟩,
  ⟨0x415eed42b11a4ff1, (8705119996235761), (-30)⟩,
  ⟨0x413eed42b11a4ff0, (544069999764735), (-28)⟩,
  ⟨0x411eed42b11a4ff1, (8705119996235761), (-34)⟩,
  ⟨0x40feed42b11a4ff1, (8705119996235761), (-36)⟩,
  ⟨0x40deed42b11a4ff1, (8705119996235761), (-38)⟩,
  ⟨0x40beed42b11a4ff1, (8705119996235761), (-40)⟩,
  ⟨0x409eed42b11a4ff0, (544069999764735), (-38)⟩,
  ⟨0x407eed42b11a4ff1, (8705119996235761), (-44)⟩,
  ⟨0x405eed42b11a4ff0, (544069999764735), (-42)⟩,
  ⟨0x403eed42b11a4ff1, (8705119996235761), (-48)⟩,
  ⟨0x401eed42b11a4ff1, (8705119996235761), (-50)⟩,
  ⟨0x3ffeed42b11a4ff1, (8705119996235761), (-52)⟩,
  ⟨0x3fdeed42b11a4ff1, (8705119996235761), (-54)⟩,
  ⟨0x3fbeed42b11a4ff1, (8705119996235761), (-56)⟩,
  ⟨0x3f9eed42b11a4ff1, (8705119996235761), (-58)⟩,
  ⟨0x3f7eed42b11a4ff1, (8705119996235761), (-60)⟩,
  ⟨0x3f5eed42b11a4ff1, (8705119996235761), (-62)⟩,
  ⟨0x3f3eed42b11a4ff1, (8705119996235761), (-64)⟩,
  ⟨0x3f1eed42b11a4ff0, (544069999764735), (-62)⟩,
  ⟨0x3efeed42b11a4ff0, (544069999764735), (-64)⟩]
-- authalic.rs
def GEODETIC_TO_AUTHALIC : List FConst := [⟨0xbf6257f6a0d50af0, (-322704147042479), (-57)⟩, ⟨0x3ec1dffd081a495c, (1257838114935383), (-69)⟩, ⟨0xbe25fbddfed02cad, (-6187905392323757), (-81)⟩, ⟨0x3d8da502067601d9, (8344202441523673), (-91)⟩, ⟨0xbcf5055038aa310c, (-1479204154281027), (-98)⟩, ⟨0x3c5ec85d69dde707, (8664552834983687), (-110)⟩]
def AUTHALIC_TO_GEODETIC : List FConst := [⟨0x3f6257f62d106291, (5163264410411665), (-61)⟩, ⟨0x3ec82f9ec17cd9c4, (1701939584644721), (-69)⟩, ⟨0x3e35d85bdd44ab56, (3074431788406187), (-79)⟩, ⟨0x3da66f1c1c0b0bff, (6314616007887871), (-89)⟩, ⟨0x3d18abf496e6478d, (6944466433099661), (-98)⟩, ⟨0x3c8c6911c632c55a, (3998412204237485), (-106)⟩]
-- pentagon.rs (seed vertices)
def PENT_SEED_C_X : FConst := ⟨0x3fe93c2f1471fc95, (7103047321910421), (-53)⟩
def PENT_SEED_C_Y : FConst := ⟨0x3ff9d6acb5a5e034, (1818227922008077), (-50)⟩
def PENT_SEED_D_X : FConst := ⟨0x3ff9dfa5ae906283, (7282777109062275), (-52)⟩
def PENT_SEED_D_Y : FConst := ⟨0x3ff0e0fce80de83a, (2375488228488221), (-51)⟩
-- cell.rs
def PROBE_COUNT : Nat := 25
def PROBE_SCALE : FConst := ⟨0x4049000000000000, (50), (0)⟩
def DEFAULT_SEGMENTS_BASE : Int := 6
-- numeric thresholds
def POLY_SNAP_EPS : FConst := ⟨0x3d06849b86a12b9b, (6338253001141147), (-99)⟩
def SAFE_ACOS_SWITCH : FConst := ⟨0x3f50624dd2f1a9fc, (1152921504606847), (-60)⟩
def VECDIFF_SWITCH : FConst := ⟨0x3e45798ee2308c3a, (3022314549036573), (-78)⟩
def SLERP_SWITCH : FConst := ⟨0x3d719799812dea11, (4951760157141521), (-92)⟩
def CRS_TOL : FConst := ⟨0x3ee4f8b588e368f1, (5902958103587057), (-69)⟩
def CRS_ADD_TOL : FConst := ⟨0x3ee4f8b588e368f1, (5902958103587057), (-69)⟩
def CRS_WARN_AT : Nat := 10000
def TRI_AREA_SWITCH : FConst := ⟨0x3e45798ee2308c3a, (3022314549036573), (-78)⟩
-- dodecahedron.rs memo layout
def MEMO_FACE_SLOTS : Nat := 30
def MEMO_SPH_SLOTS : Nat := 240
def MEMO_FACE_SQUASHED_OFFSET : Nat := 20
def MEMO_FACE_REFLECTED_OFFSET : Nat := 10
def MEMO_SPH_STRIDE : Nat := 10
def MEMO_SPH_REFLECTED_OFFSET : Nat := 120
def FACE_TRIANGLE_MAX : Nat := 9
end A5.Ref
