import A5.Driver.Proto
import A5.Model.CellGeo
/-! Float-valued operations of the line protocol. Floats travel as `x` + 16 hex digits of the
IEEE bit pattern (`xnan` for any NaN). -/
namespace A5.Driver
open A5

def hexDigitVal (c : Char) : Option Nat :=
  if '0' ≤ c ∧ c ≤ '9' then some (c.toNat - 48)
  else if 'a' ≤ c ∧ c ≤ 'f' then some (c.toNat - 87)
  else if 'A' ≤ c ∧ c ≤ 'F' then some (c.toNat - 55) else none

def parseF? (s : String) : Option Float :=
  if s == "xnan" then some (0.0 / 0.0)
  else match s.toList with
    | 'x' :: rest =>
      if rest.length != 16 then none else
      (rest.foldlM (fun (acc : Nat) c => (hexDigitVal c).map (fun d => acc * 16 + d)) 0).map
        (fun n => Float.ofBits (UInt64.ofNat n))
    | _ => none

def hexChar (d : Nat) : Char := Char.ofNat (if d < 10 then 48 + d else 87 + d)

def showF (x : Float) : String :=
  if x.isNaN then "xnan"
  else
    let n := x.toBits.toNat
    "x" ++ String.ofList ((List.range 16).map (fun i => hexChar (n / 16 ^ (15 - i) % 16)))

def showFF (p : Float × Float) : String := showF p.1 ++ " " ++ showF p.2
def showV2 (p : V2) : String := showF p.x ++ " " ++ showF p.y
def showPts (l : List (Float × Float)) : String :=
  if l.isEmpty then "-" else ";".intercalate (l.map (fun p => showF p.1 ++ "," ++ showF p.2))
def showPoly (l : Poly) : String := showPts (l.map (fun v => (v.x, v.y)))

def showAnchor (a : Anchor) : String :=
  s!"{a.k} {a.offset.1} {a.offset.2} {a.flips.1} {a.flips.2}"

def floatOps (op : String) (args : List String) : Option String :=
  match op, args with
  | "lonlat_to_cell", [lo, la, r] => do
      let lo ← parseF? lo; let la ← parseF? la; let r ← parseInt? r
      pure (showOutcome (fun (x : LookupResult) => s!"{x.id} {x.branch}") (lonlatToCellB lo la r))
  | "cell_to_lonlat", [a] => do let n ← a.toNat?; pure (showOutcome showFF (cellToLonLat n))
  | "cell_to_boundary", [a, c, sg] => do
      let n ← a.toNat?
      let closed := c == "1"
      let sg ← (if sg == "none" then some none else sg.toNat?.map some)
      pure (showOutcome showPts (cellToBoundary n closed sg))
  | "cell_to_boundary_default", [a] => do
      let n ← a.toNat?
      pure (showOutcome showPts (cellToBoundary n true none))
  | "contains", [a, lo, la] => do
      let n ← a.toNat?; let lo ← parseF? lo; let la ← parseF? la
      pure (showOutcome showF (deserialize n >>= fun c => cellContainsPoint c lo la))
  | "s_to_anchor", [s, r, o] => do
      let s ← s.toNat?; let r ← r.toNat?; let o ← o.toNat?
      pure (showOutcome showAnchor (sToAnchor s r o))
  | "ij_to_s", [i, j, r, o] => do
      let i ← parseF? i; let j ← parseF? j; let r ← r.toNat?; let o ← o.toNat?
      pure (showOutcome toString (ijToS floatLits i j r o))
  | "pentagon_vertices", [r, q, k, i, j, f0, f1] => do
      let r ← parseInt? r; let q ← q.toNat?; let k ← k.toNat?
      let i ← parseInt? i; let j ← parseInt? j; let f0 ← parseInt? f0; let f1 ← parseInt? f1
      pure ("ok " ++ showPoly (getPentagonVertices r q ⟨k, (i, j), (f0, f1)⟩))
  | "quintant_vertices", [q] => do let q ← q.toNat?; pure ("ok " ++ showPoly (getQuintantVertices q))
  | "face_vertices", [] => some ("ok " ++ showPoly getFaceVertices)
  | "find_nearest_origin", [t, p] => do
      let t ← parseF? t; let p ← parseF? p; pure s!"ok {(findNearestOrigin t p).id}"
  | "haversine", [t, p, t2, p2] => do
      let t ← parseF? t; let p ← parseF? p; let t2 ← parseF? t2; let p2 ← parseF? p2
      pure ("ok " ++ showF (haversine t p t2 p2))
  | "q2s", [q, o] => do
      let q ← q.toNat?; let o ← o.toNat?
      if o ≥ origins.length then none else
      let r := quintantToSegment q (originAt o); pure s!"ok {r.1} {r.2}"
  | "s2q", [s, o] => do
      let s ← s.toNat?; let o ← o.toNat?
      if o ≥ origins.length then none else
      let r := segmentToQuintant s (originAt o); pure s!"ok {r.1} {r.2}"
  | "dodeca_forward", [t, p, o] => do
      let t ← parseF? t; let p ← parseF? p; let o ← o.toNat?
      pure (showOutcome showV2 (dodecaForward t p o))
  | "dodeca_inverse", [x, y, o] => do
      let x ← parseF? x; let y ← parseF? y; let o ← o.toNat?
      pure (showOutcome showFF (dodecaInverse ⟨x, y⟩ o))
  | "inverse_qt", [x, y, o] => do
      -- model-only (request generation): the internal parameters of `polyhedralInverse` for a face point - `q` (position of the
      -- foot point on the far edge) and `t` (fraction of the way from the apex), `-1 -1` when the point snaps to a corner
      let x ← parseF? x; let y ← parseF? y; let o ← o.toNat?
      if o ≥ origins.length then none else
      let f : V2 := ⟨x, y⟩
      let (rho, gamma) := toPolar f
      let idx := faceTriangleIndex gamma
      let reflect := shouldReflect rho gamma
      let r : Outcome (Float × Float) :=
        getFaceTriangle idx reflect false >>= fun ft =>
        computeSphericalTriangle idx o reflect >>= fun st =>
        let a := st.a; let b := st.b; let c := st.c
        let (bu, bv, bw) := faceToBarycentric f ft
        let threshold := 1.0 - fc Gen.POLY_SNAP_EPS
        if bu > threshold || bv > threshold || bw > threshold then .ok (-1.0, -1.0)
        else
          let c1 := v3cross b c
          let areaABC := sphTriangleArea a b c
          let h := 1.0 - bu
          let r := bw / h
          let alpha := r * areaABC
          let s := alpha.sin
          let halfC := (alpha / 2.0).sin
          let cc := 2.0 * halfC * halfC
          let c01 := v3dot a b
          let c12 := v3dot b c
          let c20 := v3dot c a
          let s12 := v3length c1
          let vv := v3dot a c1
          let ff := s * vv + cc * (c01 * c12 - c20)
          let g := cc * s12 * (1.0 + c01)
          let q := (2.0 / c12.acos) * Float.atan2 g ff
          let p := slerp b c q
          let k := vectorDifference a p
          let t := safeAcos (h * k) / safeAcos k
          .ok (q, t)
      pure (showOutcome showFF r)
  | "authalic_forward", [p] => do let p ← parseF? p; pure ("ok " ++ showF (authalicForward p))
  | "authalic_inverse", [p] => do let p ← parseF? p; pure ("ok " ++ showF (authalicInverse p))
  | "from_lonlat", [a, b] => do let a ← parseF? a; let b ← parseF? b; pure ("ok " ++ showFF (fromLonLat a b))
  | "to_lonlat", [a, b] => do let a ← parseF? a; let b ← parseF? b; pure ("ok " ++ showFF (toLonLat a b))
  | "cell_area", [r] => do let r ← parseInt? r; pure ("ok " ++ showF (cellArea r))
  | "quintant_polar", [g] => do let g ← parseF? g; pure s!"ok {getQuintantPolar g}"
  | "sph_triangles", [] =>
      -- the 240 spherical triangles the projection works with (12 origins x 10 face triangles x plain / reflected):
      -- `o i r ax ay az bx by bz cx cy cz` per triangle, separated by " | "
      let items := (List.range 12).flatMap fun o => (List.range 10).flatMap fun i => [false, true].map fun r =>
        match computeSphericalTriangle i o r with
        | .ok st => s!"{o} {i} {if r then 1 else 0} {showF st.a.x} {showF st.a.y} {showF st.a.z} {showF st.b.x} {showF st.b.y} {showF st.b.z} {showF st.c.x} {showF st.c.y} {showF st.c.z}"
        | _ => s!"{o} {i} {if r then 1 else 0} failed"
      some ("ok " ++ " | ".intercalate items)
  | "crs_vertex", [x, y, z] => do
      let x ← parseF? x; let y ← parseF? y; let z ← parseF? z
      pure (showOutcome (fun (v : V3) => s!"{showF v.x} {showF v.y} {showF v.z}") (crsGetVertex ⟨x, y, z⟩))
  | "consts", [] =>
      let pc := pentagonConstants
      let (b0, b1, b2, b3) := pc.basis
      let (i0, i1, i2, i3) := pc.basisInverse
      let pts := [pc.a, pc.b, pc.c, pc.d, pc.e, pc.u, pc.v, pc.w]
      let os := origins.map (fun o => s!"{o.id}:{showF o.theta}:{showF o.phi}:{showF o.angle}:{o.firstQuintant}")
      some ("ok " ++ " ".intercalate (pts.map showV2) ++ " | " ++
        " ".intercalate ([b0, b1, b2, b3, i0, i1, i2, i3].map showF) ++ " | " ++ " ".intercalate os)
  | _, _ => none

end A5.Driver
