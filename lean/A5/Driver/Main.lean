import A5.Driver.Proto
import A5.Driver.FloatOps
/-! `a5driver`: one request per line on stdin, one response per line on stdout. -/
open A5 A5.Driver

def handle (line : String) : String :=
  match (line.trimAscii.toString.splitOn " ").filter (· ≠ "") with
  | [] => "bad-op"
  | op :: args =>
    match intOps op args with
    | some r => r
    | none =>
      match floatOps op args with
      | some r => r
      | none => "bad-op"

partial def loop (hin : IO.FS.Stream) (hout : IO.FS.Stream) : IO Unit := do
  let line ← hin.getLine
  if line.isEmpty then return ()
  hout.putStrLn (handle line)
  loop hin hout

def main : IO Unit := do
  let hin ← IO.getStdin
  let hout ← IO.getStdout
  loop hin hout
  hout.flush
