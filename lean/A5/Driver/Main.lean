import A5.Driver.Proto
import A5.Driver.FloatOps
import A5.Model.MemoFloat
/-! `a5driver`: one request per line on stdin, one response per line on stdout. -/
open A5 A5.Driver

def handleOp (op : String) (args : List String) : String :=
  match intOps op args with
  | some r => r
  | none =>
    match floatOps op args with
    | some r => r
    | none => "bad-op"

/-- digest of a ring: the text digest plus the width of the longitude window (`max - min`), so that "unwrapped, not split" can be
judged on rings too long to ship -/
def digestRing (op : String) (args : List String) : Option String :=
  match op, args with
  | "cell_to_boundary", [a, c, sg] => do
      let n ← a.toNat?
      let closed := c == "1"
      let sg ← (if sg == "none" then some none else sg.toNat?.map some)
      match cellToBoundary n closed sg with
      | .ok pts =>
        let base := digestStr ("ok " ++ showPts pts)
        match pts with
        | [] => pure base
        | p0 :: rest =>
          let (mn, mx) := rest.foldl (fun (acc : Float × Float) q => (if q.1 < acc.1 then q.1 else acc.1, if q.1 > acc.2 then q.1 else acc.2)) (p0.1, p0.1)
          pure (base ++ " span=" ++ showF (mx - mn))
      | o => pure (showOutcome showPts o)
  | _, _ => none

def handle (line : String) : String :=
  match (line.trimAscii.toString.splitOn " ").filter (· ≠ "") with
  | [] => "bad-op"
  | "digest" :: op :: args =>
    match digestOps op args with
    | some r => r
    | none =>
      match digestRing op args with
      | some r => r
      | none => digestStr (handleOp op args)
  | op :: args => handleOp op args

/-- a dodeca call of a history: `dodeca_forward,t,p,o` / `dodeca_inverse,x,y,o` -/
def parseDCall (s : String) : Option DCall :=
  match s.splitOn "," with
  | ["dodeca_forward", t, p, o] => do
      let t ← parseF? t; let p ← parseF? p; let o ← o.toNat?; pure (.fwd t p o)
  | ["dodeca_inverse", x, y, o] => do
      let x ← parseF? x; let y ← parseF? y; let o ← o.toNat?; pure (.inv x y o)
  | _ => none

def showDRes : DRes → String
  | .face v => showV2 v
  | .sph t p => showFF (t, p)

def showBits (l : List Bool) : String := String.ofList (l.map (fun b => if b then '1' else '0'))

/-- `hist c1;c2;…` : the calls of one history, executed in order from a fresh (thread-local) state.
Response: the responses joined by " ; ", then " | " and the predicted memo fill bitmap (only when
every call is a projection call; otherwise "-"). -/
def handleHist (arg : String) : String :=
  let calls := arg.splitOn ";"
  match calls.mapM parseDCall with
  | some ds =>
    let (res, (fb, sb, n)) := memoHistory ds
    " ; ".intercalate (res.map (showOutcome showDRes)) ++ " | " ++ showBits fb ++ " " ++ showBits sb ++ s!" {n}"
  | none =>
    " ; ".intercalate (calls.map (fun c => handle (c.replace "," " "))) ++ " | -"

def handleTop (line : String) : String :=
  let t := line.trimAscii.toString
  if t.startsWith "hist " then handleHist ((t.drop 5).trimAscii.toString)
  else if t == "memo_sph_total" then (if memoSphTotalCheck then "ok 1" else "ok 0")
  else handle t

partial def loop (hin : IO.FS.Stream) (hout : IO.FS.Stream) : IO Unit := do
  let line ← hin.getLine
  if line.isEmpty then return ()
  hout.putStrLn (handleTop line)
  loop hin hout

def main : IO Unit := do
  let hin ← IO.getStdin
  let hout ← IO.getStdout
  loop hin hout
  hout.flush
