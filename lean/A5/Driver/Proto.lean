import A5.Model.Compact
import A5.Model.Hex
/-! Line protocol shared by the Lean driver and the Rust harness: parsing and printing. -/
namespace A5.Driver
open A5

def parseInt? (s : String) : Option Int :=
  if s.startsWith "-" then (s.drop 1).toNat?.map (fun n => -(Int.ofNat n)) else s.toNat?.map Int.ofNat

def parseOptInt? (s : String) : Option (Option Int) :=
  if s == "none" then some none else (parseInt? s).map some

def parseNatList? (s : String) : Option (List Nat) :=
  if s == "-" then some [] else (s.splitOn ",").mapM (·.toNat?)

def errName : ErrKind → String
  | .resTooLarge => "resTooLarge" | .resNegative => "resNegative" | .sTooLarge => "sTooLarge"
  | .badOrigin => "badOrigin" | .targetCoarser => "targetCoarser" | .exceedsMax => "exceedsMax"
  | .diffTooLarge => "diffTooLarge" | .negative => "negative" | .targetFiner => "targetFiner"
  | .resOutOfRange => "resOutOfRange" | .hexParse => "hexParse" | .invalidOrigin => "invalidOrigin"
  | .crsVertex => "crsVertex" | .other => "other"

def showOutcome {α : Type} (f : α → String) : Outcome α → String
  | .ok v => "ok " ++ f v
  | .err e => "err " ++ errName e
  | .panic _ => "panic"

def showNatList (l : List Nat) : String :=
  if l.isEmpty then "-" else ",".intercalate (l.map toString)

def showCell (c : Cell) : String := s!"{c.origin} {c.segment} {c.s} {c.res}"

def hexNibble (c : Char) : Option Nat :=
  if '0' ≤ c ∧ c ≤ '9' then some (c.toNat - 48)
  else if 'a' ≤ c ∧ c ≤ 'f' then some (c.toNat - 87) else none

/-- hex-encoded byte string ("-" = empty) -/
def parseBytes? (s : String) : Option (List Nat) :=
  if s == "-" then some [] else
  let rec go : List Char → Option (List Nat)
    | [] => some []
    | [_] => none
    | a :: b :: rest => do
      let x ← hexNibble a; let y ← hexNibble b; let r ← go rest; pure ((16 * x + y) :: r)
  go s.toList

def showBytes (l : List Nat) : String :=
  String.ofList (l.map (fun b => Char.ofNat b))

def intOps (op : String) (args : List String) : Option String :=
  match op, args with
  | "get_resolution", [a] => do let n ← a.toNat?; pure s!"ok {getResolution n}"
  | "deserialize", [a] => do let n ← a.toNat?; pure (showOutcome showCell (deserialize n))
  | "serialize", [o, sg, s, r] => do
      let o ← o.toNat?; let sg ← sg.toNat?; let s ← s.toNat?; let r ← parseInt? r
      pure (showOutcome toString (serialize ⟨o, sg, s, r⟩))
  | "cell_to_children", [a, r] => do
      let n ← a.toNat?; let r ← parseOptInt? r
      pure (showOutcome showNatList (cellToChildren n r))
  | "cell_to_parent", [a, r] => do
      let n ← a.toNat?; let r ← parseOptInt? r
      pure (showOutcome toString (cellToParent n r))
  | "get_res0_cells", [] => some (showOutcome showNatList getRes0Cells)
  | "is_first_child", [a, r] => do
      let n ← a.toNat?; let r ← parseInt? r
      pure (showOutcome (fun b => if b then "1" else "0") (isFirstChild n r))
  | "get_stride", [r] => do let r ← parseInt? r; pure (showOutcome toString (getStride r))
  | "get_num_cells", [r] => do let r ← parseInt? r; pure s!"ok {getNumCells r}"
  | "get_num_children", [p, c] => do
      let p ← parseInt? p; let c ← parseInt? c
      pure (showOutcome toString (getNumChildren p c))
  | "compact", [l] => do let l ← parseNatList? l; pure (showOutcome showNatList (compact l))
  | "compact_v062", [l] => do let l ← parseNatList? l; pure (showOutcome showNatList (compactV062 l))
  | "uncompact", [l, t] => do
      let l ← parseNatList? l; let t ← parseInt? t
      pure (showOutcome showNatList (uncompact l t))
  | "u64_to_hex", [a] => do let n ← a.toNat?; pure ("ok " ++ showBytes (u64ToHex n))
  | "hex_to_u64", [b] => do let b ← parseBytes? b; pure (showOutcome toString (hexToU64 b))
  | _, _ => none

/-- digest of an id list: length, order-sensitive multiplicative hash, exact sum, xor -/
def digestList (l : List Nat) : String :=
  let (h, sm, x) := l.foldl (fun (acc : UInt64 × Nat × UInt64) v =>
      let w := v.toUInt64
      ((acc.1 ^^^ w) * 1099511628211, acc.2.1 + v, acc.2.2 ^^^ w)) ((14695981039346656037 : UInt64), 0, 0)
  s!"n={l.length} h={h} s={sm} x={x}"

/-- `digest <request>` for the list-valued operations: the same outcome with the list replaced by its digest -/
def digestOps (op : String) (args : List String) : Option String :=
  match op, args with
  | "cell_to_children", [a, r] => do
      let n ← a.toNat?; let r ← parseOptInt? r
      pure (showOutcome digestList (cellToChildren n r))
  | "compact", [l] => do let l ← parseNatList? l; pure (showOutcome digestList (compact l))
  | "uncompact", [l, t] => do
      let l ← parseNatList? l; let t ← parseInt? t
      pure (showOutcome digestList (uncompact l t))
  | "get_res0_cells", [] => some (showOutcome digestList getRes0Cells)
  | _, _ => none

/-- digest of any other response text: number of `;`-separated items and the FNV-1a hash of the payload bytes -/
def digestStr (resp : String) : String :=
  if resp.startsWith "ok " then
    let body := (resp.drop 3).toString
    let (h, n) := body.toUTF8.foldl (fun (acc : UInt64 × Nat) b =>
      ((acc.1 ^^^ b.toUInt64) * 1099511628211, if b == 59 then acc.2 + 1 else acc.2)) ((14695981039346656037 : UInt64), 1)
    s!"ok n={n} h={h}"
  else resp

end A5.Driver
