/-! Result type of every modelled function.

`ok v` / `err e` mirror Rust's `Result<_, String>` (error *messages* are abstracted to a small
enum; the correspondence check compares the enum, never the text).  `panic k` records that the
overflow-checked (debug-profile) build of the Rust code panics at that point; the model keeps the
panic instead of totalising it away, so "never panics" is a theorem, not an assumption. -/
namespace A5

inductive ErrKind where
  | resTooLarge      -- serialize: resolution >= 30
  | resNegative      -- serialize: resolution < -1
  | sTooLarge        -- serialize: S does not fit
  | badOrigin        -- deserialize: top 6 bits do not name a face
  | targetCoarser    -- cell_to_children / uncompact: target coarser than the cell
  | exceedsMax       -- cell_to_children / uncompact: target above maximum
  | diffTooLarge     -- cell_to_children: more than 20 levels
  | negative         -- cell_to_parent: target < -1
  | targetFiner      -- cell_to_parent: target finer than the cell
  | resOutOfRange    -- lonlat_to_cell: resolution outside -1..29
  | hexParse         -- hex_to_u64
  | invalidOrigin    -- DodecahedronProjection: origin id out of range
  | crsVertex        -- CRS::get_vertex: no vertex within tolerance
  | other
  deriving Repr, DecidableEq, Inhabited

inductive PanicKind where
  | addOverflow | subOverflow | mulOverflow | shlOverflow | shrOverflow | powOverflow
  | indexOOB | capacity | fuel | notCCW | invalidDigit | unwrapNone
  deriving Repr, DecidableEq, Inhabited

inductive Outcome (α : Type) where
  | ok (v : α)
  | err (e : ErrKind)
  | panic (k : PanicKind)
  deriving Repr, DecidableEq, Inhabited

namespace Outcome

@[inline] def bind {α β : Type} (x : Outcome α) (f : α → Outcome β) : Outcome β :=
  match x with
  | ok v => f v
  | err e => err e
  | panic k => panic k

instance : Monad Outcome where
  pure := ok
  bind := bind

@[simp] theorem bind_ok {α β} (v : α) (f : α → Outcome β) : (ok v >>= f) = f v := Eq.trans rfl rfl
@[simp] theorem bind_err {α β} (e : ErrKind) (f : α → Outcome β) : (err e >>= f) = err e := Eq.trans rfl rfl
@[simp] theorem bind_panic {α β} (k : PanicKind) (f : α → Outcome β) : (panic k >>= f) = panic k := Eq.trans rfl rfl
@[simp] theorem pure_eq {α} (v : α) : (pure v : Outcome α) = ok v := Eq.trans rfl rfl
@[simp] theorem bind_def {α β} (x : Outcome α) (f : α → Outcome β) : x.bind f = (x >>= f) := Eq.trans rfl rfl

def isPanic {α} : Outcome α → Bool
  | panic _ => true
  | _ => false

def isOk {α} : Outcome α → Bool
  | ok _ => true
  | _ => false

instance : LawfulMonad Outcome := LawfulMonad.mk'
  (id_map := by intro α x; cases x <;> rfl)
  (pure_bind := by intros; rfl)
  (bind_assoc := by intro α β γ x f g; cases x <;> rfl)

end Outcome

/-! Checked integer primitives (overflow-checked build).  `u64`/`usize` are `Nat` below `2^64`,
`u32` is `Nat` below `2^32`, `i32` is `Int` in `[-2^31, 2^31)`. -/

def U64 : Nat := 2 ^ 64

def u64Add (a b : Nat) : Outcome Nat :=
  if a + b < 2 ^ 64 then .ok (a + b) else .panic .addOverflow

def u64Mul (a b : Nat) : Outcome Nat :=
  if a * b < 2 ^ 64 then .ok (a * b) else .panic .mulOverflow

/-- `a << n` on `u64`: panics (debug) only when the shift amount is ≥ 64; bits shifted out are
dropped silently. -/
def u64Shl (a n : Nat) : Outcome Nat :=
  if n < 64 then .ok ((a <<< n) % 2 ^ 64) else .panic .shlOverflow

def u64Shr (a n : Nat) : Outcome Nat :=
  if n < 64 then .ok (a >>> n) else .panic .shrOverflow

def u32Sub (a b : Nat) : Outcome Nat :=
  if b ≤ a then .ok (a - b) else .panic .subOverflow

def i32InRange (x : Int) : Bool := decide (-2147483648 ≤ x ∧ x ≤ 2147483647)

def i32Add (a b : Int) : Outcome Int :=
  if i32InRange (a + b) then .ok (a + b) else .panic .addOverflow

def i32Sub (a b : Int) : Outcome Int :=
  if i32InRange (a - b) then .ok (a - b) else .panic .subOverflow

def i32Mul (a b : Int) : Outcome Int :=
  if i32InRange (a * b) then .ok (a * b) else .panic .mulOverflow

end A5
