import A5.Model.CellGeo
/-! # Generic twins of the float formulas

The float pipeline (`A5/Model/Geo.lean`) is written at `Float`, where no algebra is provable.  For every
formula that a property theorem talks about, this file defines a *generic twin*: the same expression tree,
with the scalar type `α` abstract (plain `[Add α] [Sub α] [Mul α] [Div α] [Neg α]` instance arguments), the
libm functions passed as explicit parameters (`sin cos : α → α`) and the float literals passed as explicit
arguments (`two`, `one`).  Each twin comes with a *tie lemma*
`model_function … = twin (α := Float) Float.sin Float.cos 2.0 …`, proved by `rfl` (definitional unfolding:
the two sides are the same expression).  The mathematical theorems (`A5/Lemmas/RealGeo.lean`,
`A5/Props/C04|C15|C16|C19.lean`) are proved about the twin at `ℝ` or at an arbitrary field; the tie lemma
links them to the executable model that is compared bit-for-bit with the Rust code.

Core only (no Mathlib): this file is part of the model layer. -/
namespace A5

-- `FConst.toRat` (the exact rational value `num * 2^exp`) lives in `A5/Model/FConst.lean`

/-- `|x|` on `Rat` (core has no `abs`); equals Mathlib's `|x|`, see `A5.RealGeo.ratAbs_eq_abs`. -/
def ratAbs (x : Rat) : Rat := if x < 0 then -x else x

namespace G
variable {α : Type}

/-! ### authalic.rs -/

/-- twin of `applyCoefficients` (`AuthalicProjection::apply_coefficients`) -/
def applyCoefficientsG [Add α] [Sub α] [Mul α] (sin cos : α → α) (two : α)
    (phi c0 c1 c2 c3 c4 c5 : α) : α :=
  let sinPhi := sin phi
  let cosPhi := cos phi
  let x := two * (cosPhi - sinPhi) * (cosPhi + sinPhi)
  let u0 := x * c5 + c4
  let u1 := x * u0 + c3
  let u0 := x * u1 - u0 + c2
  let u1 := x * u0 - u1 + c1
  let u0 := x * u1 - u0 + c0
  phi + two * sinPhi * cosPhi * u0

/-- the `i`-th coefficient of a generated table as a float (exactly the `g i` of the model) -/
def coeffF (c : List FConst) (i : Nat) : Float := fc (c.getD i ⟨0, 0, 0⟩)

theorem applyCoefficients_tie (phi : Float) (c : List FConst) :
    applyCoefficients phi c =
      applyCoefficientsG Float.sin Float.cos (2.0 : Float) phi
        (coeffF c 0) (coeffF c 1) (coeffF c 2) (coeffF c 3) (coeffF c 4) (coeffF c 5) := rfl

theorem authalicForward_tie (phi : Float) :
    authalicForward phi =
      applyCoefficientsG Float.sin Float.cos (2.0 : Float) phi
        (coeffF Gen.GEODETIC_TO_AUTHALIC 0) (coeffF Gen.GEODETIC_TO_AUTHALIC 1)
        (coeffF Gen.GEODETIC_TO_AUTHALIC 2) (coeffF Gen.GEODETIC_TO_AUTHALIC 3)
        (coeffF Gen.GEODETIC_TO_AUTHALIC 4) (coeffF Gen.GEODETIC_TO_AUTHALIC 5) := rfl

theorem authalicInverse_tie (phi : Float) :
    authalicInverse phi =
      applyCoefficientsG Float.sin Float.cos (2.0 : Float) phi
        (coeffF Gen.AUTHALIC_TO_GEODETIC 0) (coeffF Gen.AUTHALIC_TO_GEODETIC 1)
        (coeffF Gen.AUTHALIC_TO_GEODETIC 2) (coeffF Gen.AUTHALIC_TO_GEODETIC 3)
        (coeffF Gen.AUTHALIC_TO_GEODETIC 4) (coeffF Gen.AUTHALIC_TO_GEODETIC 5) := rfl

/-! ### coordinate_transforms.rs -/

/-- twin of `degToRad` / `radToDeg` (multiplication by a constant) -/
def scaleG [Mul α] (k x : α) : α := x * k

theorem degToRad_tie (d : Float) : degToRad d = scaleG (fc Gen.PI_OVER_180) d := rfl
theorem radToDeg_tie (r : Float) : radToDeg r = scaleG (fc Gen.DEG_PER_RAD) r := rfl

/-- twin of `fromLonLat`; `fwd` is the geodetic → authalic latitude conversion -/
def fromLonLatG [Add α] [Sub α] [Mul α] (fwd : α → α) (k1 off halfPi : α) (lon lat : α) : α × α :=
  let theta := scaleG k1 (lon + off)
  let geodetic := scaleG k1 lat
  let authalic := fwd geodetic
  (theta, halfPi - authalic)

/-- twin of `toLonLat`; `inv` is the authalic → geodetic latitude conversion -/
def toLonLatG [Add α] [Sub α] [Mul α] (inv : α → α) (k2 off halfPi : α) (theta phi : α) : α × α :=
  let lon := scaleG k2 theta - off
  let authalic := halfPi - phi
  let geodetic := inv authalic
  (lon, scaleG k2 geodetic)

theorem fromLonLat_tie (lon lat : Float) :
    fromLonLat lon lat =
      fromLonLatG authalicForward (fc Gen.PI_OVER_180) (fc Gen.LONGITUDE_OFFSET) (fc Gen.FRAC_PI_2) lon lat := rfl

theorem toLonLat_tie (theta phi : Float) :
    toLonLat theta phi =
      toLonLatG authalicInverse (fc Gen.DEG_PER_RAD) (fc Gen.LONGITUDE_OFFSET) (fc Gen.FRAC_PI_2) theta phi := rfl

/-! ### barycentric coordinates (`coordinate_transforms.rs`) -/

/-- twin of `faceToBarycentric`: point `(px,py)`, triangle `(ax,ay) (bx,by) (cx,cy)` -/
def faceToBarycentricG [Add α] [Sub α] [Mul α] [Div α] (one : α)
    (px py ax ay bx «by» cx cy : α) : α × α × α :=
  let d31x := ax - cx; let d31y := ay - cy
  let d23x := cx - bx; let d23y := cy - «by»
  let d3px := px - cx; let d3py := py - cy
  let det := d23x * d31y - d23y * d31x
  let b0 := (d23x * d3py - d23y * d3px) / det
  let b1 := (d31x * d3py - d31y * d3px) / det
  let b2 := one - (b0 + b1)
  (b0, b1, b2)

/-- the denominator of `faceToBarycentricG` (twice the signed area of the triangle) -/
def triDetG [Sub α] [Mul α] (ax ay bx «by» cx cy : α) : α :=
  (cx - bx) * (ay - cy) - (cy - «by») * (ax - cx)

/-- twin of `barycentricToFace` -/
def barycentricToFaceG [Add α] [Mul α] (u v w ax ay bx «by» cx cy : α) : α × α :=
  (u * ax + v * bx + w * cx, u * ay + v * «by» + w * cy)

theorem faceToBarycentric_tie (p : V2) (t : FaceTriangle) :
    faceToBarycentric p t =
      faceToBarycentricG (1.0 : Float) p.x p.y t.a.x t.a.y t.b.x t.b.y t.c.x t.c.y := rfl

theorem barycentricToFace_tie (b : Float × Float × Float) (t : FaceTriangle) :
    barycentricToFace b t =
      ⟨(barycentricToFaceG b.1 b.2.1 b.2.2 t.a.x t.a.y t.b.x t.b.y t.c.x t.c.y).1,
       (barycentricToFaceG b.1 b.2.1 b.2.2 t.a.x t.a.y t.b.x t.b.y t.c.x t.c.y).2⟩ := rfl

/-! ### dodecahedron.rs: face triangles -/

/-- twin of the edge-midpoint computation in `baseFaceTriangle` -/
def midpointG [Add α] [Div α] (two : α) (x1 y1 x2 y2 : α) : α × α :=
  ((x1 + x2) / two, (y1 + y2) / two)

/-- twin of the apex computation in `reflectedFaceTriangle`: `a' = -a + mid * scale` -/
def reflectApexG [Add α] [Mul α] [Neg α] (scale ax ay mx my : α) : α × α :=
  (-ax + mx * scale, -ay + my * scale)

/-- the three vertices the base triangle is built from -/
def quintantCorner (idx i : Nat) : V2 :=
  (polyFirst5 (getQuintantVertices (((idx + 1) / 2) % 5))).getD i default

theorem baseFaceTriangle_tie (idx : Nat) :
    baseFaceTriangle idx =
      (let c0 := quintantCorner idx 0
       let c1 := quintantCorner idx 1
       let c2 := quintantCorner idx 2
       let m := midpointG (2.0 : Float) c1.x c1.y c2.x c2.y
       if idx % 2 == 0 then ⟨c0, ⟨m.1, m.2⟩, c1⟩ else ⟨c0, c2, ⟨m.1, m.2⟩⟩) := rfl

/-- the scale factor used by `reflectedFaceTriangle` -/
def reflectScale (squashed : Bool) : Float :=
  if squashed then 1.0 + 1.0 / (fc Gen.INTERHEDRAL_ANGLE).cos else 2.0

theorem reflectedFaceTriangle_tie (idx : Nat) (squashed : Bool) :
    reflectedFaceTriangle idx squashed =
      (let base := baseFaceTriangle idx
       let m := if idx % 2 == 0 then base.b else base.c
       let a' := reflectApexG (reflectScale squashed) base.a.x base.a.y m.x m.y
       ⟨⟨a'.1, a'.2⟩, base.c, base.b⟩) := rfl

end G
end A5
