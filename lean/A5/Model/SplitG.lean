import A5.Model.PentagonG
/-! # Generic twin of `split_edges` (`geometry/pentagon.rs`, model `polySplitEdges`)

`PentagonShape::split_edges(segments)` walks the edges `(v_i, v_{(i+1) % n})` and emits, per edge, the start vertex and
the `segments - 1` interior points `v1 + t * (v2 - v1)`, `t = (j0 + 1) / segments` (both computed in `f64` from the
integer counters), then hands the list to `PentagonShape::from_vertices` (`polyNew`: reverse when the winding test
fails).  For `segments ≤ 1` it returns the polygon itself (no `from_vertices`).

`splitEdgesG` is the point list BEFORE `from_vertices`, over an arbitrary scalar type, points as pairs; the conversion
`ofNat : Nat → α` of the two counters is a parameter.  It has no `segments ≤ 1` branch: for `segments ≤ 1` the loop
emits exactly the vertices (`splitEdgesG_le_one`), which is what the model returns.

Tie lemmas (structure only, no float arithmetic is reasoned about):
* `splitPts_tie`: the list the model builds inside `polySplitEdges` is `splitEdgesG Float.ofNat 0.0` of the pairs;
* `polySplitEdges_tie_raw`: `polySplitEdges vs n = if n ≤ 1 then vs else polyNew pts` with `pts.map toPair` the twin.
The form with `polyNewG` (which lives in the lemma layer) is `polySplitEdges_tie` in `A5/Lemmas/SplitEdges.lean`.

Core only (model layer). -/
namespace A5.PG
variable {α : Type}

/-- the point `a + t * (b - a)`, componentwise, with the operation order of `split_edges` -/
def lerpG [Add α] [Sub α] [Mul α] (t : α) (a b : α × α) : α × α :=
  (a.1 + t * (b.1 - a.1), a.2 + t * (b.2 - a.2))

/-- the points emitted for one edge `v1 → v2`: `v1` and the `segments - 1` interior points -/
def splitEdgeG [Add α] [Sub α] [Mul α] [Div α] (ofNat : Nat → α) (segments : Nat) (v1 v2 : α × α) : List (α × α) :=
  v1 :: ((List.range (segments - 1)).map (fun j0 =>
    let t := ofNat (j0 + 1) / ofNat segments
    (v1.1 + t * (v2.1 - v1.1), v1.2 + t * (v2.2 - v1.2))))

/-- generic twin of the point list of `polySplitEdges` (`split_edges` before `from_vertices`) -/
def splitEdgesG [Add α] [Sub α] [Mul α] [Div α] (ofNat : Nat → α) (zero : α) (vs : List (α × α)) (segments : Nat) :
    List (α × α) :=
  let n := vs.length
  (List.range n).flatMap (fun i =>
    let v1 := vs.getD i (zero, zero)
    let v2 := vs.getD ((i + 1) % n) (zero, zero)
    v1 :: ((List.range (segments - 1)).map (fun j0 =>
      let t := ofNat (j0 + 1) / ofNat segments
      (v1.1 + t * (v2.1 - v1.1), v1.2 + t * (v2.2 - v1.2)))))

theorem splitEdgesG_eq [Add α] [Sub α] [Mul α] [Div α] (ofNat : Nat → α) (zero : α) (vs : List (α × α)) (segments : Nat) :
    splitEdgesG ofNat zero vs segments =
      (List.range vs.length).flatMap (fun i =>
        splitEdgeG ofNat segments (vs.getD i (zero, zero)) (vs.getD ((i + 1) % vs.length) (zero, zero))) :=
  Eq.trans rfl rfl

theorem splitEdgeG_interior [Add α] [Sub α] [Mul α] [Div α] (ofNat : Nat → α) (segments : Nat) (v1 v2 : α × α) :
    splitEdgeG ofNat segments v1 v2 =
      v1 :: ((List.range (segments - 1)).map (fun j0 => lerpG (ofNat (j0 + 1) / ofNat segments) v1 v2)) :=
  Eq.trans rfl rfl

/-- for `segments ≤ 1` the loop emits exactly the vertices -/
theorem splitEdgesG_le_one [Add α] [Sub α] [Mul α] [Div α] (ofNat : Nat → α) (zero : α) (vs : List (α × α))
    (segments : Nat) (h : segments ≤ 1) : splitEdgesG ofNat zero vs segments = vs := by
  unfold splitEdgesG
  have e : segments - 1 = 0 := by omega
  rewrite [e]
  simp only [List.range_zero, List.map_nil]
  apply List.ext_getElem?
  intro k
  have hsing : ∀ (l : List Nat), (l.flatMap fun i => [vs.getD i (zero, zero)]) = l.map fun i => vs.getD i (zero, zero) := by
    intro l
    induction l with
    | nil => rfl
    | cons a as ih => rewrite [List.flatMap_cons, ih]; rfl
  rewrite [hsing, List.getElem?_map]
  by_cases hk : k < vs.length
  · rewrite [List.getElem?_range hk, List.getElem?_eq_getElem hk, Option.map_some, List.getD_eq_getElem?_getD,
      List.getElem?_eq_getElem hk]
    rfl
  · rewrite [List.getElem?_eq_none (by rewrite [List.length_range]; omega), List.getElem?_eq_none (by omega)]
    rfl

/-! ### tie to the `Float` model -/

theorem getD_map_toPair (vs : Poly) (j : Nat) :
    (vs.map toPair).getD j ((0.0 : Float), (0.0 : Float)) = toPair (vs.getD j default) := by
  simp only [List.getD_eq_getElem?_getD, List.getElem?_map]
  cases vs[j]? <;> rfl

/-- the point list built inside `polySplitEdges`, before `polyNew` (same term as in the model) -/
def splitPtsF (vs : Poly) (segments : Nat) : Poly :=
  let n := vs.length
  (List.range n).flatMap (fun i =>
    let v1 := vs.getD i default
    let v2 := vs.getD ((i + 1) % n) default
    v1 :: ((List.range (segments - 1)).map (fun j0 =>
      let t := Float.ofNat (j0 + 1) / Float.ofNat segments
      (⟨v1.x + t * (v2.x - v1.x), v1.y + t * (v2.y - v1.y)⟩ : V2))))

theorem polySplitEdges_eq_splitPtsF (vs : Poly) (n : Nat) :
    polySplitEdges vs n = if n ≤ 1 then vs else polyNew (splitPtsF vs n) := Eq.trans rfl rfl

/-- **tie**: the point list of `split_edges` is the generic twin evaluated at `Float` -/
theorem splitPts_tie (vs : Poly) (n : Nat) :
    (splitPtsF vs n).map toPair = splitEdgesG Float.ofNat (0.0 : Float) (vs.map toPair) n := by
  unfold splitPtsF splitEdgesG
  rewrite [List.map_flatMap, List.length_map]
  refine congrArg List.flatten (List.map_congr_left ?_)
  intro i _
  simp only [List.map_cons, List.map_map]
  rewrite [getD_map_toPair, getD_map_toPair]
  rfl

/-- **tie**: `polySplitEdges` is the polygon itself for `n ≤ 1`, else `polyNew` of a list whose pairs are the twin -/
theorem polySplitEdges_tie_raw (vs : Poly) (n : Nat) :
    ∃ pts : Poly, polySplitEdges vs n = (if n ≤ 1 then vs else polyNew pts) ∧
      pts.map toPair = splitEdgesG Float.ofNat (0.0 : Float) (vs.map toPair) n :=
  ⟨splitPtsF vs n, polySplitEdges_eq_splitPtsF vs n, splitPts_tie vs n⟩

end A5.PG
