import A5.Model.Outcome
/-! Model of `src/core/hex.rs`: `format!("{value:x}")` and `u64::from_str_radix(s, 16)`.
Strings are byte lists (UTF-8), as `from_str_radix` works on bytes. -/
namespace A5

def hexDigitChar (d : Nat) : Nat := if d < 10 then 48 + d else 87 + d   -- '0'.. / 'a'..

/-- most-significant-first base-16 digits, no leading zeros (empty for 0) -/
def hexDigitsAux : Nat → Nat → List Nat → List Nat
  | 0, _, acc => acc
  | fuel + 1, n, acc => if n = 0 then acc else hexDigitsAux fuel (n / 16) (hexDigitChar (n % 16) :: acc)

def u64ToHex (n : Nat) : List Nat :=
  if n = 0 then [48] else hexDigitsAux 16 n []

def hexVal (b : Nat) : Option Nat :=
  if 48 ≤ b ∧ b ≤ 57 then some (b - 48)
  else if 97 ≤ b ∧ b ≤ 102 then some (b - 87)
  else if 65 ≤ b ∧ b ≤ 70 then some (b - 55)
  else none

def hexAccum : List Nat → Nat → Outcome Nat
  | [], acc => .ok acc
  | b :: bs, acc =>
    match hexVal b with
    | none => .err .hexParse
    | some d =>
      if acc * 16 < 2 ^ 64 ∧ acc * 16 + d < 2 ^ 64 then hexAccum bs (acc * 16 + d)
      else .err .hexParse

/-- `u64::from_str_radix(s, 16)`: empty → Err; a single leading `+` is accepted (but not alone);
`-` is an invalid digit for unsigned types; every other byte must be a hex digit; overflow is
checked at every digit. -/
def hexToU64 (s : List Nat) : Outcome Nat :=
  match s with
  | [] => .err .hexParse
  | [43] => .err .hexParse
  | [45] => .err .hexParse
  | 43 :: rest => hexAccum rest 0
  | _ => hexAccum s 0

end A5
