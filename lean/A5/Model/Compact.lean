import A5.Model.Hier
import Std.Data.HashSet.Basic
import Std.Data.HashSet.Lemmas
/-! Model of `src/core/compact.rs` (after the `fix:` commits): `uncompact`, `hierarchy_key`,
`compact`.  `compactV062` is a frozen copy of the pinned release's algorithm (raw-ID sort, no
canonicalisation), kept only for the kernel-checked witnesses of the repaired defects. -/
namespace A5

def uncompact (cells : List Nat) (target : Int) : Outcome (List Nat) :=
  if target ≥ Gen.MAX_RESOLUTION then .err .exceedsMax
  else
    -- first loop: resolutions and capacity
    let rec count : List Nat → Nat → Outcome Nat
      | [], n => .ok n
      | c :: cs, n =>
        let r := getResolution c
        if r > target then .err .targetCoarser
        else getNumChildren r target >>= fun k => u64Add n k >>= fun n' => count cs n'
    count cells 0 >>= fun n =>
    if n * 8 ≥ 2 ^ 63 then .panic .capacity
    else
      flatMapOutcome (fun c =>
        let r := getResolution c
        getNumChildren r target >>= fun k =>
        if k = 1 then cellToParent c (some r) >>= fun x => .ok [x]
        else cellToChildren c (some target)) cells

/-- sort key under which every cell lies strictly between its first and last child -/
def hierarchyKey (c : Nat) : Nat :=
  let r := getResolution c
  if r = -1 then 2 ^ (Gen.HILBERT_START_BIT - 1) + 1
  else if r = 0 then
    let origin := c >>> Gen.HILBERT_START_BIT
    (((5 * origin) <<< Gen.HILBERT_START_BIT) % 2 ^ 64) ||| (c &&& Gen.REMOVAL_MASK)
  else c

def expectedChildren (res : Int) : Nat :=
  if res ≥ Gen.FIRST_HILBERT_RESOLUTION then Gen.SIBLINGS_HILBERT
  else if res = 0 then Gen.SIBLINGS_RES0
  else Gen.SIBLINGS_RES1

/-- the inner `for j in 1..expected_children` loop: are `rest[0..]` the next siblings? -/
def siblingsFollow (cell stride : Nat) : Nat → Nat → List Nat → Outcome Bool
  | 0, _, _ => .ok true
  | n + 1, j, rest =>
    u64Mul j stride >>= fun off => u64Add cell off >>= fun expected =>
    match rest with
    | [] => .panic .indexOOB
    | x :: xs => if x ≠ expected then .ok false else siblingsFollow cell stride n (j + 1) xs

/-- does a complete sibling group start at `cell` (the head of `cell :: rest`)? -/
def groupAt (cell : Nat) (rest : List Nat) : Outcome (Bool × Nat) :=
  let res := getResolution cell
  if res < 0 then .ok (false, 0)
  else
    let k := expectedChildren res
    if k ≤ rest.length + 1 then
      isFirstChild cell res >>= fun fc =>
      if fc then
        getStride res >>= fun stride =>
        siblingsFollow cell stride (k - 1) 1 rest >>= fun all => .ok (all, k)
      else .ok (false, k)
    else .ok (false, k)

/-- `n ≤ l.length`, decided by walking at most `n` cells (compiled twin of the length test) -/
def hasAtLeast : Nat → List Nat → Bool
  | 0, _ => true
  | _ + 1, [] => false
  | n + 1, _ :: xs => hasAtLeast n xs

theorem hasAtLeast_eq : ∀ (n : Nat) (l : List Nat), hasAtLeast n l = decide (n ≤ l.length)
  | 0, _ => by simp [hasAtLeast]
  | _ + 1, [] => by simp [hasAtLeast]
  | n + 1, _ :: xs => by simp [hasAtLeast, hasAtLeast_eq n xs]

/-- compiled twin of `groupAt`: the same function, but the test `k ≤ rest.length + 1` looks at
no more than `k - 1` cells instead of measuring the whole remaining list.  The compiler may use
it only because of the proved equation `groupAt_eq_fast` (`@[csimp]`). -/
def groupAtFast (cell : Nat) (rest : List Nat) : Outcome (Bool × Nat) :=
  let res := getResolution cell
  if res < 0 then .ok (false, 0)
  else
    let k := expectedChildren res
    if hasAtLeast (k - 1) rest then
      isFirstChild cell res >>= fun fc =>
      if fc then
        getStride res >>= fun stride =>
        siblingsFollow cell stride (k - 1) 1 rest >>= fun all => .ok (all, k)
      else .ok (false, k)
    else .ok (false, k)

@[csimp] theorem groupAt_eq_fast : @groupAt = @groupAtFast := by
  funext cell rest
  have h : ∀ k n : Nat, (k - 1 ≤ n) ↔ (k ≤ n + 1) := by omega
  simp only [groupAt, groupAtFast, hasAtLeast_eq, decide_eq_true_eq, h]

/-- one scan of the `while i < len` loop; `skip` = remaining members of a merged group -/
def compactScan : List Nat → Nat → Outcome (List Nat × Bool)
  | [], _ => .ok ([], false)
  | _ :: rest, skip + 1 => compactScan rest skip
  | c :: rest, 0 =>
    groupAt c rest >>= fun (g, k) =>
    if g then
      cellToParent c none >>= fun p =>
      compactScan rest (k - 1) >>= fun (out, _) => .ok (p :: out, true)
    else
      compactScan rest 0 >>= fun (out, ch) => .ok (c :: out, ch)

def compactLoop : Nat → List Nat → Outcome (List Nat)
  | 0, _ => .panic .fuel
  | fuel + 1, xs =>
    compactScan xs 0 >>= fun (out, changed) =>
    if changed then compactLoop fuel out else .ok out

def insertByKey (key : Nat → Nat) (x : Nat) : List Nat → List Nat
  | [] => [x]
  | y :: ys => if key x ≤ key y then x :: y :: ys else y :: insertByKey key x ys

/-- sort by key (insertion sort; the keys of distinct canonical IDs are distinct, so the result
is the unique key-sorted arrangement whatever the `HashSet` iteration order was). -/
def sortByKey (key : Nat → Nat) (xs : List Nat) : List Nat :=
  xs.foldr (insertByKey key) []

/-- compiled twin of `sortByKey`: core merge sort (`O(n log n)`) on the same order.  Equal to the
insertion sort as a *function* (`sortByKey_eq_fast`), not merely up to permutation. -/
def sortByKeyFast (key : Nat → Nat) (xs : List Nat) : List Nat :=
  ((xs.map (fun x => (key x, x))).mergeSort (fun a b => decide (a.1 ≤ b.1))).map (·.2)

/-- the keys are computed once per element (decorate / sort / undecorate), not once per comparison -/
theorem sortByKeyFast_eq (key : Nat → Nat) (xs : List Nat) :
    sortByKeyFast key xs = xs.mergeSort (fun a b => decide (key a ≤ key b)) := by
  unfold sortByKeyFast
  rw [List.map_mergeSort (s := fun a b => decide (key a ≤ key b))]
  · rw [List.map_map]
    exact congrArg (fun l => List.mergeSort l _) (List.map_id' xs)
  · intro a ha b hb
    obtain ⟨x, _, rfl⟩ := List.mem_map.mp ha
    obtain ⟨y, _, rfl⟩ := List.mem_map.mp hb
    rfl

theorem insertByKey_append (key : Nat → Nat) (a : Nat) (l₂ : List Nat)
    (h2 : ∀ b, b ∈ l₂ → key a ≤ key b) :
    ∀ (l₁ : List Nat), (∀ b, b ∈ l₁ → ¬ key a ≤ key b) →
      insertByKey key a (l₁ ++ l₂) = l₁ ++ a :: l₂
  | [], _ => by
    cases l₂ with
    | nil => rfl
    | cons y ys =>
      show (if key a ≤ key y then a :: y :: ys else y :: insertByKey key a ys) = a :: y :: ys
      rw [if_pos (h2 y List.mem_cons_self)]
  | y :: ys, h1 => by
    show (if key a ≤ key y then a :: y :: (ys ++ l₂) else y :: insertByKey key a (ys ++ l₂))
      = y :: (ys ++ a :: l₂)
    rw [if_neg (h1 y List.mem_cons_self),
      insertByKey_append key a l₂ h2 ys (fun b hb => h1 b (List.mem_cons_of_mem _ hb))]

@[csimp] theorem sortByKey_eq_fast : @sortByKey = @sortByKeyFast := by
  funext key xs
  have trans : ∀ a b c : Nat, decide (key a ≤ key b) = true → decide (key b ≤ key c) = true →
      decide (key a ≤ key c) = true := by
    intro a b c h1 h2
    simp only [decide_eq_true_eq] at *
    omega
  have total : ∀ a b : Nat, (decide (key a ≤ key b) || decide (key b ≤ key a)) = true := by
    intro a b
    simp only [Bool.or_eq_true, decide_eq_true_eq]
    omega
  rw [sortByKeyFast_eq]
  unfold sortByKey
  induction xs with
  | nil => simp
  | cons a l ih =>
    obtain ⟨l₁, l₂, h1, h2, h3⟩ := List.mergeSort_cons trans total a l
    have hs := List.pairwise_mergeSort trans total (a :: l)
    rw [h1] at hs
    have hs2 := (List.pairwise_cons.mp (List.pairwise_append.mp hs).2.1).1
    rw [List.foldr_cons, ih, h1, h2]
    apply insertByKey_append
    · intro b hb
      simpa using hs2 b hb
    · intro b hb
      simpa using h3 b hb

/-- hash used by `eraseDupsFast` (splitmix64 finaliser).  Cell IDs of coarse resolutions differ only
in their top bits (40 or more trailing zero bits); the default `hash n = n mod 2^64` followed by the
bucket folding of `Std.HashMap` then leaves only 2^16 distinct buckets, i.e. long chains.  The
choice of hash function has no influence on the result (`eraseDupsFast_eq`). -/
def cellHash (n : Nat) : UInt64 :=
  let h := UInt64.ofNat n
  let h := (h ^^^ (h >>> 30)) * 0xBF58476D1CE4E5B9
  let h := (h ^^^ (h >>> 27)) * 0x94D049BB133111EB
  h ^^^ (h >>> 31)

/-- hash sets of cell IDs hashed with `cellHash` -/
abbrev CellSet : Type := @Std.HashSet Nat _ ⟨cellHash⟩

/-- first occurrences, in order, with a hash set of the elements seen so far (`O(n)` expected);
equal to the quadratic `List.eraseDups` (`eraseDupsFast_eq`). -/
def eraseDupsFast (xs : List Nat) : List Nat :=
  loop xs (@Std.HashSet.emptyWithCapacity Nat _ ⟨cellHash⟩ xs.length) []
where
  loop : List Nat → CellSet → List Nat → List Nat
  | [], _, acc => acc.reverse
  | a :: as, s, acc =>
    if s.contains a then loop as s acc else loop as (s.insert a) (a :: acc)

theorem eraseDupsFast_loop_eq : ∀ (xs : List Nat) (s : CellSet) (acc : List Nat),
    (∀ x, s.contains x = acc.contains x) →
    eraseDupsFast.loop xs s acc = List.eraseDupsBy.loop (· == ·) xs acc
  | [], _, _, _ => rfl
  | a :: as, s, acc, h => by
    unfold eraseDupsFast.loop List.eraseDupsBy.loop
    rw [List.any_beq, ← h a]
    cases hc : s.contains a with
    | true =>
      simp only [if_true]
      exact eraseDupsFast_loop_eq as s acc h
    | false =>
      simp only [Bool.false_eq_true, if_false]
      apply eraseDupsFast_loop_eq as (s.insert a) (a :: acc)
      intro x
      rw [Std.HashSet.contains_insert, List.contains_cons, h x, BEq.comm]

theorem eraseDupsFast_eq (xs : List Nat) : eraseDupsFast xs = xs.eraseDups :=
  eraseDupsFast_loop_eq xs _ [] (fun _ => by
    rw [Std.HashSet.contains_emptyWithCapacity]; rfl)

def compact (cells : List Nat) : Outcome (List Nat) :=
  if cells.isEmpty then .ok []
  else
    mapOutcome (fun c => deserialize c >>= serialize) cells >>= fun canon =>
    let uniq := canon.eraseDups
    compactLoop (uniq.length + 1) (sortByKey hierarchyKey uniq)

/-- the pinned release (v0.6.2): raw-ID sort, no canonicalisation.  Frozen. -/
def compactV062 (cells : List Nat) : Outcome (List Nat) :=
  if cells.isEmpty then .ok []
  else
    let uniq := cells.eraseDups
    compactLoop (uniq.length + 1) (sortByKey id uniq)

/-- compiled twin of `compact`: identical except for the hash-set `eraseDupsFast` -/
def compactFast (cells : List Nat) : Outcome (List Nat) :=
  if cells.isEmpty then .ok []
  else
    mapOutcome (fun c => deserialize c >>= serialize) cells >>= fun canon =>
    let uniq := eraseDupsFast canon
    compactLoop (uniq.length + 1) (sortByKey hierarchyKey uniq)

/-- compiled twin of `compactV062`: identical except for the hash-set `eraseDupsFast` -/
def compactV062Fast (cells : List Nat) : Outcome (List Nat) :=
  if cells.isEmpty then .ok []
  else
    let uniq := eraseDupsFast cells
    compactLoop (uniq.length + 1) (sortByKey id uniq)

@[csimp] theorem compact_eq_fast : @compact = @compactFast := by
  funext cells
  simp only [compact, compactFast, eraseDupsFast_eq]

@[csimp] theorem compactV062_eq_fast : @compactV062 = @compactV062Fast := by
  funext cells
  simp only [compactV062, compactV062Fast, eraseDupsFast_eq]

end A5
