import A5.Model.Hier
/-! Model of `src/core/compact.rs` (after the `fix:` commits): `uncompact`, `hierarchy_key`,
`compact`.  `compactV062` is a frozen copy of the pinned release's algorithm (raw-ID sort, no
canonicalisation), kept only for the kernel-checked witnesses of the repaired defects. -/
namespace A5

def uncompact (cells : List Nat) (target : Int) : Outcome (List Nat) :=
  if target ≥ Gen.MAX_RESOLUTION then .err .exceedsMax
  else
    -- first loop: resolutions and capacity
    let rec count : List Nat → Nat → Outcome Nat
      | [], n => .ok n
      | c :: cs, n =>
        let r := getResolution c
        if r > target then .err .targetCoarser
        else getNumChildren r target >>= fun k => u64Add n k >>= fun n' => count cs n'
    count cells 0 >>= fun n =>
    if n * 8 ≥ 2 ^ 63 then .panic .capacity
    else
      flatMapOutcome (fun c =>
        let r := getResolution c
        getNumChildren r target >>= fun k =>
        if k = 1 then cellToParent c (some r) >>= fun x => .ok [x]
        else cellToChildren c (some target)) cells

/-- sort key under which every cell lies strictly between its first and last child -/
def hierarchyKey (c : Nat) : Nat :=
  let r := getResolution c
  if r = -1 then 2 ^ (Gen.HILBERT_START_BIT - 1) + 1
  else if r = 0 then
    let origin := c >>> Gen.HILBERT_START_BIT
    (((5 * origin) <<< Gen.HILBERT_START_BIT) % 2 ^ 64) ||| (c &&& Gen.REMOVAL_MASK)
  else c

def expectedChildren (res : Int) : Nat :=
  if res ≥ Gen.FIRST_HILBERT_RESOLUTION then Gen.SIBLINGS_HILBERT
  else if res = 0 then Gen.SIBLINGS_RES0
  else Gen.SIBLINGS_RES1

/-- the inner `for j in 1..expected_children` loop: are `rest[0..]` the next siblings? -/
def siblingsFollow (cell stride : Nat) : Nat → Nat → List Nat → Outcome Bool
  | 0, _, _ => .ok true
  | n + 1, j, rest =>
    u64Mul j stride >>= fun off => u64Add cell off >>= fun expected =>
    match rest with
    | [] => .panic .indexOOB
    | x :: xs => if x ≠ expected then .ok false else siblingsFollow cell stride n (j + 1) xs

/-- does a complete sibling group start at `cell` (the head of `cell :: rest`)? -/
def groupAt (cell : Nat) (rest : List Nat) : Outcome (Bool × Nat) :=
  let res := getResolution cell
  if res < 0 then .ok (false, 0)
  else
    let k := expectedChildren res
    if k ≤ rest.length + 1 then
      isFirstChild cell res >>= fun fc =>
      if fc then
        getStride res >>= fun stride =>
        siblingsFollow cell stride (k - 1) 1 rest >>= fun all => .ok (all, k)
      else .ok (false, k)
    else .ok (false, k)

/-- one scan of the `while i < len` loop; `skip` = remaining members of a merged group -/
def compactScan : List Nat → Nat → Outcome (List Nat × Bool)
  | [], _ => .ok ([], false)
  | _ :: rest, skip + 1 => compactScan rest skip
  | c :: rest, 0 =>
    groupAt c rest >>= fun (g, k) =>
    if g then
      cellToParent c none >>= fun p =>
      compactScan rest (k - 1) >>= fun (out, _) => .ok (p :: out, true)
    else
      compactScan rest 0 >>= fun (out, ch) => .ok (c :: out, ch)

def compactLoop : Nat → List Nat → Outcome (List Nat)
  | 0, _ => .panic .fuel
  | fuel + 1, xs =>
    compactScan xs 0 >>= fun (out, changed) =>
    if changed then compactLoop fuel out else .ok out

def insertByKey (key : Nat → Nat) (x : Nat) : List Nat → List Nat
  | [] => [x]
  | y :: ys => if key x ≤ key y then x :: y :: ys else y :: insertByKey key x ys

/-- sort by key (insertion sort; the keys of distinct canonical IDs are distinct, so the result
is the unique key-sorted arrangement whatever the `HashSet` iteration order was). -/
def sortByKey (key : Nat → Nat) (xs : List Nat) : List Nat :=
  xs.foldr (insertByKey key) []

def compact (cells : List Nat) : Outcome (List Nat) :=
  if cells.isEmpty then .ok []
  else
    mapOutcome (fun c => deserialize c >>= serialize) cells >>= fun canon =>
    let uniq := canon.eraseDups
    compactLoop (uniq.length + 1) (sortByKey hierarchyKey uniq)

/-- the pinned release (v0.6.2): raw-ID sort, no canonicalisation.  Frozen. -/
def compactV062 (cells : List Nat) : Outcome (List Nat) :=
  if cells.isEmpty then .ok []
  else
    let uniq := cells.eraseDups
    compactLoop (uniq.length + 1) (sortByKey id uniq)

end A5
