import A5.Model.Geo
import A5.Model.Hier
/-! Model of `src/core/cell.rs` (after the `fix:` commits) and `cell_info.rs::cell_area`. -/
namespace A5

structure Estimate where
  cell : Cell
  deriving Inhabited

/-- `lonlat_to_estimate` -/
def lonlatToEstimate (lon lat : Float) (resolution : Int) : Outcome Cell :=
  let (theta, phi) := fromLonLat lon lat
  let origin := findNearestOrigin theta phi
  dodecaForward theta phi origin.id >>= fun dp =>
  let (_, gamma) := toPolar dp
  let quintant := getQuintantPolar gamma
  let (segment, orientation) := quintantToSegment quintant origin
  if resolution < Gen.FIRST_HILBERT_RESOLUTION then
    .ok ⟨origin.id, segment, 0, resolution⟩
  else
    let dp : V2 :=
      if quintant != 0 then
        let extra := 2.0 * fc Gen.PI_OVER_5 * Float.ofNat quintant
        let c := (-extra).cos
        let s := (-extra).sin
        ⟨c * dp.x - s * dp.y, s * dp.x + c * dp.y⟩
      else dp
    let hres := 1 + resolution - Gen.FIRST_HILBERT_RESOLUTION
    let scale := Float.ofNat (2 ^ hres.toNat)
    let dp : V2 := ⟨dp.x * scale, dp.y * scale⟩
    let (i, j) := faceToIJ dp
    ijToS floatLits i j hres.toNat orientation >>= fun s =>
    .ok ⟨origin.id, segment, s, resolution⟩

/-- `get_pentagon(cell)` -/
def getPentagon (c : Cell) : Outcome Poly :=
  if c.origin ≥ origins.length then .panic .indexOOB
  else
    let (quintant, orientation) := segmentToQuintant c.segment (originAt c.origin)
    if c.res = Gen.FIRST_HILBERT_RESOLUTION - 1 then .ok (getQuintantVertices quintant)
    else if c.res = Gen.FIRST_HILBERT_RESOLUTION - 2 then .ok getFaceVertices
    else
      let hres := c.res - Gen.FIRST_HILBERT_RESOLUTION + 1
      if hres < 0 then .panic .fuel   -- `hres as usize` is astronomically large: the digit loop never ends
      else
        sToAnchor c.s hres.toNat orientation >>= fun anchor =>
        .ok (getPentagonVertices hres quintant anchor)

/-- `a5cell_contains_point(cell, point)` -/
def cellContainsPoint (c : Cell) (lon lat : Float) : Outcome Float :=
  let (theta, phi) := fromLonLat lon lat
  dodecaForward theta phi c.origin >>= fun pp =>
  if c.origin ≥ origins.length then .panic .indexOOB
  else
    let (quintant, _) := segmentToQuintant c.segment (originAt c.origin)
    if c.res = Gen.FIRST_HILBERT_RESOLUTION - 1 then polyContains (getQuintantVertices quintant) pp
    else if c.res = Gen.FIRST_HILBERT_RESOLUTION - 2 then polyContains getFaceVertices pp
    else getPentagon c >>= fun p => polyContains p pp

/-- `a5cell_distance_outside` (fix for defect F16): distance in the plane of the cell's face from the point to the cell's pentagon -/
def cellDistanceOutside (c : Cell) (lon lat : Float) : Outcome Float :=
  let (theta, phi) := fromLonLat lon lat
  dodecaForward theta phi c.origin >>= fun pp =>
  getPentagon c >>= fun p => .ok (polyDistanceOutside p pp)

/-- which branch produced the answer: k ≥ 0 = k-th distinct estimate hit, -1 = fallback, -2 = low res -/
structure LookupResult where
  id : Nat
  branch : Int
  deriving Inhabited

/-- `f64::to_radians` / `f64::to_degrees` of Rust's std: multiplication by the constant-folded `PI / 180.0` resp.
`180.0 / PI` (bit patterns of those two `f64` quotients) -/
def stdToRadians (x : Float) : Float := x * Float.ofBits 0x3f91df46a2529d39
def stdToDegrees (x : Float) : Float := x * Float.ofBits 0x404ca5dc1a63c1f8

/-- `offset_lonlat` (fix 24ee3fd): move a point by `east` / `north` degrees of arc along the local east and north directions -/
def offsetLonLat (lon lat east north : Float) : Float × Float :=
  let lo := stdToRadians lon
  let la := stdToRadians lat
  let de := stdToRadians east
  let dn := stdToRadians north
  let sinLon := lo.sin
  let cosLon := lo.cos
  let sinLat := la.sin
  let cosLat := la.cos
  let x := cosLat * cosLon - de * sinLon - dn * sinLat * cosLon
  let y := cosLat * sinLon + de * cosLon - dn * sinLat * sinLon
  let z := sinLat + dn * cosLat
  (stdToDegrees (Float.atan2 y x), stdToDegrees (Float.atan2 z (x * x + y * y).sqrt))

def probeSamples (lon lat : Float) (hres : Int) : List (Float × Float) :=
  let n := Gen.PROBE_COUNT
  let pow := if hres ≥ 0 then Float.ofNat (2 ^ hres.toNat) else 1.0 / Float.ofNat (2 ^ (-hres).toNat)
  let scale := fc Gen.PROBE_SCALE / pow
  (lon, lat) :: (List.range n).map (fun i =>
    let fi := Float.ofNat i
    let r := (fi / Float.ofNat n) * scale
    offsetLonLat lon lat (fi.cos * r) (fi.sin * r))

/-- the sample loop of `lonlat_to_cell`: `seen` = keys already tried, `cells` = (estimate, distance) misses -/
def lookupLoop (lon lat : Float) (resolution : Int) :
    List (Float × Float) → List Nat → List (Cell × Float) → Outcome LookupResult
  | [], _, cells =>
    -- fallback: first maximum of the distances (stable sort, descending)
    match cells with
    | [] => .panic .indexOOB
    | c0 :: rest =>
      let best := rest.foldl (fun (b : Cell × Float) c => if c.2 > b.2 then c else b) c0
      serialize best.1 >>= fun id => .ok ⟨id, -1⟩
  | (slon, slat) :: samples, seen, cells =>
    lonlatToEstimate slon slat resolution >>= fun est =>
    serialize est >>= fun key =>
    if seen.contains key then lookupLoop lon lat resolution samples seen cells
    else
      cellContainsPoint est lon lat >>= fun distance =>
      if distance > 0.0 then serialize est >>= fun id => .ok ⟨id, seen.length⟩
      else
        -- a miss is ranked by its perpendicular distance to the point (negated: the fallback takes the first maximum)
        cellDistanceOutside est lon lat >>= fun outside =>
        lookupLoop lon lat resolution samples (seen ++ [key]) (cells ++ [(est, -outside)])

def lonlatToCellB (lon lat : Float) (resolution : Int) : Outcome LookupResult :=
  if resolution = -1 then .ok ⟨Gen.WORLD_CELL, -3⟩
  else if !(decide (-1 ≤ resolution) && decide (resolution < Gen.MAX_RESOLUTION)) then .err .resOutOfRange
  else if resolution < Gen.FIRST_HILBERT_RESOLUTION then
    lonlatToEstimate lon lat resolution >>= fun est => serialize est >>= fun id => .ok ⟨id, -2⟩
  else
    let hres := 1 + resolution - Gen.FIRST_HILBERT_RESOLUTION
    lookupLoop lon lat resolution (probeSamples lon lat hres) [] []

def lonlatToCell (lon lat : Float) (resolution : Int) : Outcome Nat :=
  lonlatToCellB lon lat resolution >>= fun r => .ok r.id

def cellToLonLat (id : Nat) : Outcome (Float × Float) :=
  if id = Gen.WORLD_CELL then .ok (0.0, 0.0)
  else
    deserialize id >>= fun c =>
    if c.res = -1 then .ok (0.0, 0.0)
    else
      getPentagon c >>= fun p =>
      dodecaInverse (polyCenter p) c.origin >>= fun (t, ph) => .ok (toLonLat t ph)

def mapOutcome' {α β : Type} (f : α → Outcome β) : List α → Outcome (List β)
  | [] => .ok []
  | a :: as => f a >>= fun b => mapOutcome' f as >>= fun bs => .ok (b :: bs)

/-- tail-recursive twin of `mapOutcome'` for compiled code (rings of 10^7 points and more), by the proved equation below -/
def mapOutcomeTR'.go {α β : Type} (f : α → Outcome β) : List α → List β → Outcome (List β)
  | [], acc => .ok acc.reverse
  | a :: as, acc =>
    match f a with
    | .ok b => mapOutcomeTR'.go f as (b :: acc)
    | .err e => .err e
    | .panic k => .panic k

def mapOutcomeTR' {α β : Type} (f : α → Outcome β) (l : List α) : Outcome (List β) := mapOutcomeTR'.go f l []

theorem mapOutcomeTR'_go_eq {α β : Type} (f : α → Outcome β) : ∀ (l : List α) (acc : List β),
    mapOutcomeTR'.go f l acc = (mapOutcome' f l >>= fun bs => .ok (acc.reverse ++ bs)) := by
  intro l
  induction l with
  | nil => intro acc; simp [mapOutcomeTR'.go, mapOutcome']
  | cons a as ih =>
    intro acc
    unfold mapOutcomeTR'.go mapOutcome'
    cases h : f a with
    | ok b =>
      simp only [Outcome.bind_ok]
      rw [ih]
      cases mapOutcome' f as with
      | ok bs => simp
      | err e => simp
      | panic k => simp
    | err e => simp
    | panic k => simp

@[csimp] theorem mapOutcome'_eq_TR : @mapOutcome' = @mapOutcomeTR' := by
  funext α β f l
  unfold mapOutcomeTR'
  rw [mapOutcomeTR'_go_eq]
  cases mapOutcome' f l <;> simp

theorem normalizeLongitudes_mapOutcomeF_eq {α β : Type} (f : α → Outcome β) :
    ∀ l : List α, normalizeLongitudes.mapOutcomeF f l = mapOutcome' f l := by
  intro l
  induction l with
  | nil => rfl
  | cons a as ih => unfold normalizeLongitudes.mapOutcomeF mapOutcome'; rw [ih]

/-- `normalizeLongitudes` with its local sequential map replaced by `mapOutcome'` (hence, in compiled code, by the tail-recursive twin) -/
def normalizeLongitudesFast (contour : List (Float × Float)) : Outcome (List (Float × Float)) :=
  match contour with
  | [] => .ok []
  | first :: _ =>
    let pts := contour.map (fun (lon, lat) => let (t, p) := fromLonLat lon lat; toCartesian t p)
    let c := pts.foldl (fun (acc : V3) p => ⟨acc.x + p.x, acc.y + p.y, acc.z + p.z⟩) ⟨0.0, 0.0, 0.0⟩
    let length := (c.x * c.x + c.y * c.y + c.z * c.z).sqrt
    let c : V3 := if length > 0.0 then ⟨c.x / length, c.y / length, c.z / length⟩ else c
    let (ct, cp) := toSpherical c
    let (centerLon0, centerLat) := toLonLat ct cp
    let centerLon := if !(fc Gen.POLE_LAT_LO ≤ centerLat && centerLat ≤ fc Gen.POLE_LAT_HI) then first.1 else centerLon0
    let centerLon := fmod360 (fmod360 (centerLon + 180.0) + 360.0) - 180.0
    mapOutcome' (fun (lon, lat) => unwrapLon 64 lon centerLon >>= fun l => .ok (l, lat)) contour

@[csimp] theorem normalizeLongitudes_eq_fast : @normalizeLongitudes = @normalizeLongitudesFast := by
  funext contour
  unfold normalizeLongitudes normalizeLongitudesFast
  cases contour with
  | nil => rfl
  | cons first rest => simp only [normalizeLongitudes_mapOutcomeF_eq]

/-- `cell_to_boundary(cell, Some(options))`; `segments = none` is the resolution-dependent default -/
def cellToBoundary (id : Nat) (closedRing : Bool) (segments : Option Nat) : Outcome (List (Float × Float)) :=
  if id = Gen.WORLD_CELL then .ok []
  else
    deserialize id >>= fun c =>
    if c.res = -1 then .ok []
    else
      let segs : Nat := match segments with
        | some n => n
        | none => max 1 (2 ^ (max (Gen.DEFAULT_SEGMENTS_BASE - c.res) 0).toNat)
      getPentagon c >>= fun p =>
      let split := polySplitEdges p segs
      mapOutcome' (fun v => dodecaInverse v c.origin) split >>= fun sph =>
      let boundary := sph.map (fun (t, ph) => toLonLat t ph)
      normalizeLongitudes boundary >>= fun nb =>
      match nb with
      | [] => .panic .indexOOB
      | first :: _ =>
        let nb := if closedRing then nb ++ [first] else nb
        .ok nb.reverse

/-- `cell_area(resolution)` -/
def cellArea (res : Int) : Float :=
  if res < 0 then fc Gen.AUTHALIC_AREA
  else match Gen.CELL_AREA_TABLE[res.toNat]? with
    | some c => fc c
    | none => fc Gen.AUTHALIC_AREA / Float.ofNat (getNumCells res)

end A5
