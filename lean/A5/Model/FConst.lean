/-! Float constants as emitted by the translator: the IEEE-754 bit pattern of the `f64`
literal in the Rust source, and the exact dyadic rational `num * 2^exp` it denotes. -/
namespace A5

structure FConst where
  bits : UInt64
  num : Int
  exp : Int
  deriving Repr, BEq, DecidableEq

/-- The executable reading: exactly the `f64` the Rust compiler produced. -/
def FConst.toFloat (c : FConst) : Float := Float.ofBits c.bits

/-- The exact rational value `num * 2^exp` the constant denotes. -/
def FConst.toRat (c : FConst) : Rat := (c.num : Rat) * (2 : Rat) ^ c.exp

end A5
