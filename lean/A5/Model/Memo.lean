import A5.Model.Outcome
import A5.Gen.Tables
/-! # The per-thread memo tables of `DodecahedronProjection` as an explicit state machine

Rust: `src/projections/dodecahedron.rs` (`face_triangles: Vec<Option<FaceTriangle>>` of length 30,
`spherical_triangles: Vec<Option<SphericalTriangle>>` of length 240, one instance per thread) and
`src/projections/crs.rs` (`invocations` counter, stderr warning when it reaches `CRS_WARN_AT`).

The machine is generic in the value types: the float computations enter only through the pure
functions collected in `Params`.  Control flow (order of checks, order of stores, what is stored and
what is *not* stored on failure) mirrors the Rust code line by line.  All layout numbers come from
`A5.Gen` (regenerated from the Rust source on every run).  Core only: this file is compiled into the
driver. -/
namespace A5.Memo
open A5 A5.Gen

/-- Key of `get_face_triangle(face_triangle_index, reflected, squashed)`. -/
structure FKey where
  idx : Nat
  reflected : Bool
  squashed : Bool
  deriving DecidableEq, Repr, Inhabited

/-- Key of `get_spherical_triangle(face_triangle_index, origin_id, reflected)`. -/
structure SKey where
  origin : Nat
  idx : Nat
  reflected : Bool
  deriving DecidableEq, Repr, Inhabited

/-- `index = face_triangle_index; if reflected { index += if squashed { 20 } else { 10 } }`. -/
def slotF (k : FKey) : Nat :=
  k.idx + (if k.reflected then (if k.squashed then MEMO_FACE_SQUASHED_OFFSET else MEMO_FACE_REFLECTED_OFFSET) else 0)

/-- `index = 10 * origin_id + face_triangle_index; if reflected { index += 120 }`. -/
def slotS (k : SKey) : Nat :=
  MEMO_SPH_STRIDE * k.origin + k.idx + (if k.reflected then MEMO_SPH_REFLECTED_OFFSET else 0)

/-- `compute_spherical_triangle` loops over the three vertices `[a, b, c]` of the face triangle and
makes one `CRS::get_vertex` call per vertex (stopping at the first `Err`). -/
def CRS_LOOKUPS_PER_TRIANGLE : Nat := 3

/-- The pure ingredients of a projection call.
* `numOrigins` — `get_origins().len()`.
* `faceVal k` — what `get_base_face_triangle` / `get_reflected_face_triangle` compute for key `k`.
* `sphFrom ft k` — the body of `compute_spherical_triangle` *after* it obtained the squashed face
  triangle `ft`: the outcome and the number of `CRS::get_vertex` calls made (1..3; an `Err` stops early).
* `classify a` — `(origin_id, face_triangle_index, reflect)` as computed from the arguments.
* `finish a ft st` — the final `polyhedral.forward/inverse` stage. -/
structure Params (FT ST Args Res : Type) where
  numOrigins : Nat
  faceVal : FKey → FT
  sphFrom : FT → SKey → Outcome ST × Nat
  classify : Args → SKey
  finish : Args → FT → ST → Res

/-- The mutable state of one `DodecahedronProjection` instance. -/
structure MemoState (FT ST : Type) where
  faces : List (Option FT)
  sph : List (Option ST)
  crsCalls : Nat
  deriving Repr

/-- `DodecahedronProjection::new()`: `vec![None; 30]`, `vec![None; 240]`, `invocations: 0`. -/
def init {FT ST : Type} : MemoState FT ST :=
  ⟨List.replicate MEMO_FACE_SLOTS none, List.replicate MEMO_SPH_SLOTS none, 0⟩

section machine
variable {FT ST Args Res : Type} (P : Params FT ST Args Res)

/-- `get_face_triangle`. -/
def getFaceTriangle (s : MemoState FT ST) (k : FKey) : MemoState FT ST × Outcome FT :=
  if k.idx > FACE_TRIANGLE_MAX then (s, .err .other)
  else if slotF k ≥ s.faces.length then (s, .err .other)
  else
    match s.faces.getD (slotF k) none with
    | some v => (s, .ok v)
    | none => ({ s with faces := s.faces.set (slotF k) (some (P.faceVal k)) }, .ok (P.faceVal k))

/-- `compute_spherical_triangle`: origin check, then the nested `get_face_triangle(idx, reflected, true)`
(which may fill a face slot), then the CRS lookups (counted). -/
def computeSphericalTriangle (s : MemoState FT ST) (k : SKey) : MemoState FT ST × Outcome ST :=
  if k.origin ≥ P.numOrigins then (s, .err .invalidOrigin)
  else
    match getFaceTriangle P s ⟨k.idx, k.reflected, true⟩ with
    | (s1, .ok ft) => ({ s1 with crsCalls := s1.crsCalls + (P.sphFrom ft k).2 }, (P.sphFrom ft k).1)
    | (s1, .err e) => (s1, .err e)
    | (s1, .panic p) => (s1, .panic p)

/-- `get_spherical_triangle`: bounds check on the slot, cache hit, else compute and store on success. -/
def getSphericalTriangle (s : MemoState FT ST) (k : SKey) : MemoState FT ST × Outcome ST :=
  if slotS k ≥ s.sph.length then (s, .err .other)
  else
    match s.sph.getD (slotS k) none with
    | some v => (s, .ok v)
    | none =>
      match computeSphericalTriangle P s k with
      | (s1, .ok st) => ({ s1 with sph := s1.sph.set (slotS k) (some st) }, .ok st)
      | (s1, .err e) => (s1, .err e)
      | (s1, .panic p) => (s1, .panic p)

/-- The common tail of `forward` and `inverse` after the origin check: `get_face_triangle(idx, reflect,
false)`, then `get_spherical_triangle(idx, origin, reflect)`, then the polyhedral stage. -/
def callCore (s : MemoState FT ST) (a : Args) : MemoState FT ST × Outcome Res :=
  match getFaceTriangle P s ⟨(P.classify a).idx, (P.classify a).reflected, false⟩ with
  | (s1, .ok ft) =>
    match getSphericalTriangle P s1 (P.classify a) with
    | (s2, .ok st) => (s2, .ok (P.finish a ft st))
    | (s2, .err e) => (s2, .err e)
    | (s2, .panic p) => (s2, .panic p)
  | (s1, .err e) => (s1, .err e)
  | (s1, .panic p) => (s1, .panic p)

/-- `forward` and (since the repair d95ab4f) `inverse`: both validate `origin_id < origins.len()` before
touching the memo. -/
def call (s : MemoState FT ST) (a : Args) : MemoState FT ST × Outcome Res :=
  if (P.classify a).origin ≥ P.numOrigins then (s, .err .invalidOrigin) else callCore P s a

/-- FROZEN model of release v0.6.2: `inverse` (`isInverse a = true`) did *not* validate the origin before
`get_spherical_triangle`, whose slot lookup precedes the origin check of `compute_spherical_triangle`.
Kept only to document the defect (see `A5/Props/C13.lean`, `v062_history_dependent`). -/
def callV062 (isInverse : Args → Bool) (s : MemoState FT ST) (a : Args) : MemoState FT ST × Outcome Res :=
  if !isInverse a && decide ((P.classify a).origin ≥ P.numOrigins) then (s, .err .invalidOrigin)
  else callCore P s a

/-! ### the stateless reference: what a call returns as a function of its arguments only -/

def pureFace (k : FKey) : Outcome FT :=
  if k.idx > FACE_TRIANGLE_MAX then .err .other
  else if slotF k ≥ MEMO_FACE_SLOTS then .err .other
  else .ok (P.faceVal k)

def pureSph (k : SKey) : Outcome ST :=
  if slotS k ≥ MEMO_SPH_SLOTS then .err .other
  else if k.origin ≥ P.numOrigins then .err .invalidOrigin
  else
    match pureFace P ⟨k.idx, k.reflected, true⟩ with
    | .ok ft => (P.sphFrom ft k).1
    | .err e => .err e
    | .panic p => .panic p

def pureCall (a : Args) : Outcome Res :=
  if (P.classify a).origin ≥ P.numOrigins then .err .invalidOrigin
  else
    match pureFace P ⟨(P.classify a).idx, (P.classify a).reflected, false⟩ with
    | .ok ft =>
      match pureSph P (P.classify a) with
      | .ok st => .ok (P.finish a ft st)
      | .err e => .err e
      | .panic p => .panic p
    | .err e => .err e
    | .panic p => .panic p

/-! ### histories -/

/-- State after a sequence of calls. -/
def run (s : MemoState FT ST) : List Args → MemoState FT ST
  | [] => s
  | a :: h => run (call P s a).1 h

/-- The results of a sequence of calls, in order. -/
def runResults (s : MemoState FT ST) : List Args → List (Outcome Res)
  | [] => []
  | a :: h => (call P s a).2 :: runResults (call P s a).1 h

/-! ### threads: one instance per thread (`thread_local!`) -/

abbrev ThreadId := Nat

abbrev World (FT ST : Type) := ThreadId → MemoState FT ST

def World.init {FT ST : Type} : World FT ST := fun _ => Memo.init

/-- A call issued by thread `t` reads and writes component `t` only. -/
def stepWorld (w : World FT ST) (t : ThreadId) (a : Args) : World FT ST × Outcome Res :=
  (fun u => if u = t then (call P (w t) a).1 else w u, (call P (w t) a).2)

/-- World after an interleaving (a global order of `(thread, args)` steps). -/
def runWorld (w : World FT ST) : List (ThreadId × Args) → World FT ST
  | [] => w
  | (t, a) :: h => runWorld (stepWorld P w t a).1 h

def runWorldResults (w : World FT ST) : List (ThreadId × Args) → List (Outcome Res)
  | [] => []
  | (t, a) :: h => (stepWorld P w t a).2 :: runWorldResults (stepWorld P w t a).1 h

end machine

/-- What the Rust hook `DodecahedronProjection::verif_memo_fill()` reports: which slots are filled and
the CRS lookup count. -/
def fillBitmap {FT ST : Type} (s : MemoState FT ST) : List Bool × List Bool × Nat :=
  (s.faces.map Option.isSome, s.sph.map Option.isSome, s.crsCalls)

/-- Number of filled spherical-triangle slots. -/
def sphFilled {FT ST : Type} (s : MemoState FT ST) : Nat := s.sph.countP Option.isSome

end A5.Memo
