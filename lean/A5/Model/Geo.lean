import A5.Model.Hilbert
import A5.Model.Codec
/-! Float model of the geometric pipeline (`origin.rs`, `core/pentagon.rs`, `geometry/pentagon.rs`,
`tiling.rs`, `coordinate_transforms.rs`, `authalic.rs`, `gnomonic.rs`, `vector.rs`,
`spherical_polygon.rs`, `polyhedral.rs`, `crs.rs`, `dodecahedron.rs`).

Every function performs the same IEEE operations in the same order as the Rust code, and Lean's
`Float` calls the same libm, so results are compared bit-for-bit with the implementation. -/
namespace A5

structure V2 where
  x : Float
  y : Float
  deriving Inhabited

structure V3 where
  x : Float
  y : Float
  z : Float
  deriving Inhabited

@[inline] def fc (c : FConst) : Float := c.toFloat

/-! ### small helpers with Rust semantics -/

/-- `f64::min` (NaN-ignoring) -/
def fmin (a b : Float) : Float := if a.isNaN then b else if b.isNaN then a else if b < a then b else a
def fmax (a b : Float) : Float := if a.isNaN then b else if b.isNaN then a else if b > a then b else a

/-- `x.clamp(-1.0, 1.0)` -/
def fclamp1 (x : Float) : Float := if x < -1.0 then -1.0 else if x > 1.0 then 1.0 else x

/-- `x as i32` for a float (saturating, NaN ↦ 0) -/
def f64ToI32 (x : Float) : Int :=
  if x.isNaN then 0
  else if x ≥ 2147483647.0 then 2147483647
  else if x ≤ -2147483648.0 then -2147483648
  else
    let t := if x < 0.0 then -((-x).floor) else x.floor
    if t < 0.0 then -((-t).toUInt64.toNat : Int) else (t.toUInt64.toNat : Int)

/-- exact `fmod(x, 360.0)` for the magnitudes that occur (|x| < 2^40); sign follows `x` -/
def fmod360 (x : Float) : Float :=
  if x.isNaN || x.isInf then (0.0 / 0.0)
  else
    let a := x.abs
    let q := (a / 360.0).floor
    let r := a - q * 360.0
    let r := if r < 0.0 then r + 360.0 else if r ≥ 360.0 then r - 360.0 else r
    if x < 0.0 then -r else r

/-! ### origins -/

structure Origin where
  id : Nat
  theta : Float
  phi : Float
  quat : Float × Float × Float × Float
  invQuat : Float × Float × Float × Float
  angle : Float
  orientation : List Nat
  firstQuintant : Nat
  deriving Inhabited

def quatAt (i : Nat) : Float × Float × Float × Float :=
  match Gen.QUATERNIONS.getD i [] with
  | [a, b, c, d] => (fc a, fc b, fc c, fc d)
  | _ => (0.0, 0.0, 0.0, 1.0)

def quatConj (q : Float × Float × Float × Float) : Float × Float × Float × Float :=
  (-q.1, -q.2.1, -q.2.2.1, q.2.2.2)

def rawOrigins : List (Float × Float × Float × Nat) :=   -- (theta, phi, angle, quaternion index)
  let tp5 := fc Gen.TWO_PI_OVER_5
  let p5 := fc Gen.PI_OVER_5
  let ring : List (Float × Float × Float × Nat) :=
    (List.range 5).flatMap (fun i =>
      let alpha := (Float.ofNat i) * tp5
      let alpha2 := alpha + p5
      [(alpha, fc Gen.INTERHEDRAL_ANGLE, p5, i + 1),
       (alpha2, fc Gen.PI - fc Gen.INTERHEDRAL_ANGLE, p5,
          (i + Gen.RING2_QUAT_ADD) % Gen.RING2_QUAT_MOD + Gen.RING2_QUAT_BASE)])
  [(0.0, 0.0, 0.0, 0)] ++ ring ++ [(0.0, fc Gen.PI, 0.0, Gen.SOUTH_QUAT_INDEX)]

def origins : List Origin :=
  (List.range Gen.ORIGIN_ORDER.length).map (fun newId =>
    let k := Gen.ORIGIN_ORDER.getD newId 0
    let (theta, phi, angle, qi) := rawOrigins.getD k (0.0, 0.0, 0.0, 0)
    let q := quatAt qi
    { id := newId, theta := theta, phi := phi, quat := q, invQuat := quatConj q, angle := angle,
      orientation := Gen.QUINTANT_ORIENTATIONS_ARRAYS.getD k [],
      firstQuintant := Gen.QUINTANT_FIRST.getD k 0 })

def originAt (o : Nat) : Origin := origins.getD o default

def isLayoutClockwise (layout : List Nat) : Bool := Gen.CLOCKWISE_LAYOUTS.contains layout

/-- `quintant_to_segment(quintant, origin)` -/
def quintantToSegment (quintant : Nat) (o : Origin) : Nat × Nat :=
  let step : Int := if isLayoutClockwise o.orientation then -1 else 1
  let delta := (quintant + 5 - o.firstQuintant) % 5
  let faceRel := ((step * (delta : Int)) + 5).tmod 5
  let orientation := o.orientation.getD faceRel.toNat 0
  ((o.firstQuintant + faceRel.toNat) % 5, orientation)

/-- `segment_to_quintant(segment, origin)` -/
def segmentToQuintant (segment : Nat) (o : Origin) : Nat × Nat :=
  let step : Int := if isLayoutClockwise o.orientation then -1 else 1
  let faceRel := (segment + 5 - o.firstQuintant) % 5
  let orientation := o.orientation.getD faceRel 0
  let stepOffset := (step * (faceRel : Int)).tmod 5
  let quintant :=
    if stepOffset ≥ 0 then (o.firstQuintant + stepOffset.toNat) % 5
    else (o.firstQuintant + 5 - (-stepOffset).toNat) % 5
  (quintant, orientation)

def haversine (theta phi theta2 phi2 : Float) : Float :=
  let dtheta := theta2 - theta
  let dphi := phi2 - phi
  let a1 := (dphi / 2.0).sin
  let a2 := (dtheta / 2.0).sin
  a1 * a1 + a2 * a2 * phi.sin * phi2.sin

/-- `find_nearest_origin`: first origin attaining the strict minimum -/
def findNearestOrigin (theta phi : Float) : Origin :=
  let rec go : List Origin → Float → Origin → Origin
    | [], _, best => best
    | o :: os, minD, best =>
      let d := haversine theta phi o.theta o.phi
      if d < minD then go os d o else go os minD best
  go origins (1.0 / 0.0) (originAt 0)

/-! ### planar polygons (`geometry/pentagon.rs`) -/

abbrev Poly := List V2

def polyArea (vs : Poly) : Float :=
  let n := vs.length
  let rec go : Nat → Nat → Float → Float
    | 0, _, acc => acc
    | m + 1, i, acc =>
      let vi := vs.getD i default
      let vj := vs.getD ((i + 1) % n) default
      go m (i + 1) (acc + (vj.x - vi.x) * (vj.y + vi.y))
  go n 0 0.0

/-- the same loop on an array (constant-time indexing, as the `Vec` of the Rust code): what the compiled driver runs, by the
proved equation `polyArea_eq_fast` below (`@[csimp]`: the compiler may only use it because it is a theorem) -/
def polyAreaFast (vs : Poly) : Float :=
  let arr := vs.toArray
  let n := arr.size
  let rec go : Nat → Nat → Float → Float
    | 0, _, acc => acc
    | m + 1, i, acc =>
      let vi := arr.getD i default
      let vj := arr.getD ((i + 1) % n) default
      go m (i + 1) (acc + (vj.x - vi.x) * (vj.y + vi.y))
  go n 0 0.0

theorem toArray_getD (vs : Poly) (i : Nat) (d : V2) : vs.toArray.getD i d = vs.getD i d := by
  simp [Array.getD, List.getD_eq_getElem?_getD]
  split <;> simp_all

@[csimp] theorem polyArea_eq_fast : @polyArea = @polyAreaFast := by
  funext vs
  unfold polyArea polyAreaFast
  simp only [List.size_toArray]
  suffices h : ∀ m i acc, polyArea.go vs vs.length m i acc = polyAreaFast.go vs.toArray vs.length m i acc from h _ _ _
  intro m
  induction m with
  | zero => intro i acc; rfl
  | succ m ih =>
    intro i acc
    unfold polyArea.go polyAreaFast.go
    rw [ih, toArray_getD, toArray_getD]

def windingCorrect (vs : Poly) : Bool := polyArea vs ≥ 0.0

/-- `PentagonShape::new` / `new_triangle` / `from_vertices` -/
def polyNew (vs : Poly) : Poly := if windingCorrect vs then vs else vs.reverse

def polyScale (vs : Poly) (s : Float) : Poly := vs.map (fun v => ⟨v.x * s, v.y * s⟩)
def polyRotate180 (vs : Poly) : Poly := vs.map (fun v => ⟨-v.x, -v.y⟩)
def polyReflectY (vs : Poly) : Poly := (vs.map (fun v => ⟨v.x, -v.y⟩)).reverse
def polyTranslate (vs : Poly) (t : V2) : Poly := vs.map (fun v => ⟨v.x + t.x, v.y + t.y⟩)

def polyCenter (vs : Poly) : V2 :=
  let n := Float.ofNat vs.length
  let (sx, sy) := vs.foldl (fun (acc : Float × Float) v => (acc.1 + v.x / n, acc.2 + v.y / n)) (0.0, 0.0)
  ⟨sx, sy⟩

/-- `contains_point`: panics when the polygon is not counter-clockwise -/
def polyContains (vs : Poly) (p : V2) : Outcome Float :=
  if !windingCorrect vs then .panic .notCCW
  else
    let n := vs.length
    let rec go : Nat → Nat → Float → Float
      | 0, _, dMax => dMax
      | m + 1, i, dMax =>
        let v1 := vs.getD i default
        let v2 := vs.getD ((i + 1) % n) default
        let dx := v1.x - v2.x
        let dy := v1.y - v2.y
        let px := p.x - v1.x
        let py := p.y - v1.y
        let cross := dx * py - dy * px
        if cross < 0.0 then
          let pLen := (px * px + py * py).sqrt
          go m (i + 1) (fmin dMax (cross / pLen))
        else go m (i + 1) dMax
    .ok (go n 0 1.0)

/-- `distance_outside` (fix for defect F16): 0 when the point is on the inner side of every edge, otherwise the largest
perpendicular distance to the line of an edge it is on the wrong side of (`f64::max`) -/
def polyDistanceOutside (vs : Poly) (p : V2) : Float :=
  let n := vs.length
  let rec go : Nat → Nat → Float → Float
    | 0, _, dMax => dMax
    | m + 1, i, dMax =>
      let v1 := vs.getD i default
      let v2 := vs.getD ((i + 1) % n) default
      let dx := v1.x - v2.x
      let dy := v1.y - v2.y
      let px := p.x - v1.x
      let py := p.y - v1.y
      let cross := dx * py - dy * px
      if cross < 0.0 then
        let eLen := (dx * dx + dy * dy).sqrt
        go m (i + 1) (fmax dMax (-cross / eLen))
      else go m (i + 1) dMax
  go n 0 0.0

def polySplitEdges (vs : Poly) (segments : Nat) : Poly :=
  if segments ≤ 1 then vs
  else
    let n := vs.length
    let pts := (List.range n).flatMap (fun i =>
      let v1 := vs.getD i default
      let v2 := vs.getD ((i + 1) % n) default
      v1 :: ((List.range (segments - 1)).map (fun j0 =>
        let t := Float.ofNat (j0 + 1) / Float.ofNat segments
        (⟨v1.x + t * (v2.x - v1.x), v1.y + t * (v2.y - v1.y)⟩ : V2))))
    polyNew pts

/-! ### pentagon constants (`core/pentagon.rs`) -/

structure PentagonConstants where
  a : V2
  b : V2
  c : V2
  d : V2
  e : V2
  pentagon : Poly
  u : V2
  v : V2
  w : V2
  vAngle : Float
  triangle : Poly
  basis : Float × Float × Float × Float          -- m00 m01 m10 m11
  basisInverse : Float × Float × Float × Float
  deriving Inhabited

def pentagonConstants : PentagonConstants :=
  let p10 := fc Gen.PI_OVER_10
  let p5 := fc Gen.PI_OVER_5
  let a0 : V2 := ⟨0.0, 0.0⟩
  let b0 : V2 := ⟨0.0, 1.0⟩
  let c0 : V2 := ⟨fc Gen.PENT_SEED_C_X, fc Gen.PENT_SEED_C_Y⟩
  let d0 : V2 := ⟨fc Gen.PENT_SEED_D_X, fc Gen.PENT_SEED_D_Y⟩
  let e0 : V2 := ⟨p10.cos, p10.sin⟩
  let cLength := (c0.x * c0.x + c0.y * c0.y).sqrt
  let edgeMidpointD := 2.0 * cLength * p5.cos
  let basisRotation := p5 - Float.atan2 c0.y c0.x
  let scale := 2.0 * fc Gen.DISTANCE_TO_EDGE / edgeMidpointD
  let tr (v : V2) : V2 :=
    let sx := v.x * scale
    let sy := v.y * scale
    let ca := basisRotation.cos
    let sa := basisRotation.sin
    ⟨sx * ca - sy * sa, sx * sa + sy * ca⟩
  let a := tr a0
  let b := tr b0
  let c := tr c0
  let d := tr d0
  let e := tr e0
  let pentagon := polyNew [a, b, c, d, e]
  let bisector := Float.atan2 c.y c.x - p5
  let u : V2 := ⟨0.0, 0.0⟩
  let l := fc Gen.DISTANCE_TO_EDGE / p5.cos
  let vAngle := bisector + p5
  let v : V2 := ⟨l * vAngle.cos, l * vAngle.sin⟩
  let wAngle := bisector - p5
  let w : V2 := ⟨l * wAngle.cos, l * wAngle.sin⟩
  let triangle := polyNew [u, v, w, ⟨0.0, 0.0⟩, ⟨0.0, 0.0⟩]
  let m00 := v.x
  let m01 := w.x
  let m10 := v.y
  let m11 := w.y
  let det := m00 * m11 - m01 * m10
  let invDet := 1.0 / det
  { a := a, b := b, c := c, d := d, e := e, pentagon := pentagon, u := u, v := v, w := w,
    vAngle := vAngle, triangle := triangle, basis := (m00, m01, m10, m11),
    basisInverse := (m11 * invDet, -m01 * invDet, -m10 * invDet, m00 * invDet) }

/-- `get_vertices()`: first five vertices, padded with zeros -/
def polyFirst5 (vs : Poly) : List V2 :=
  (List.range 5).map (fun i => vs.getD i ⟨0.0, 0.0⟩)

/-! ### tiling.rs -/

def quintantRotation (q : Nat) : Float × Float × Float × Float :=
  let angle := fc Gen.TWO_PI_OVER_5 * Float.ofNat q
  let c := angle.cos
  let s := angle.sin
  (c, -s, s, c)

def transformPoly (vs : Poly) (m : Float × Float × Float × Float) : Poly :=
  let (m00, m01, m10, m11) := m
  let t := vs.map (fun v => (⟨m00 * v.x + m01 * v.y, m10 * v.x + m11 * v.y⟩ : V2))
  if t.length = 5 ∨ t.length = 3 then polyNew t else vs

/-- the part of `get_pentagon_vertices` that happens in the unscaled lattice frame of the quintant: the seed
pentagon, rotated/reflected/shifted according to the anchor's flips and `k`, then translated by `BASIS * offset`
(split out so that `A5/Model/PentagonG.lean` can state its generic twin; `getPentagonVertices` unfolds to the
same expression as before) -/
def getPentagonLocalOf (pc : PentagonConstants) (anchor : Anchor) : Poly :=
  let (b00, b01, b10, b11) := pc.basis
  let ox := Float.ofInt anchor.offset.1
  let oy := Float.ofInt anchor.offset.2
  let translation : V2 := ⟨b00 * ox + b01 * oy, b10 * ox + b11 * oy⟩
  let p := pc.pentagon
  let p := if anchor.flips.1 == Gen.NO && anchor.flips.2 == Gen.YES then polyRotate180 p else p
  let k := anchor.k
  let f := anchor.flips.1 + anchor.flips.2
  let p := if ((f == -2 || f == 2) && k > 1) || (f == 0 && (k == 0 || k == 3)) then polyReflectY p else p
  let p :=
    if anchor.flips.1 == Gen.YES && anchor.flips.2 == Gen.YES then polyRotate180 p
    else if anchor.flips.1 == Gen.YES then polyTranslate p ⟨-pc.w.x, -pc.w.y⟩
    else if anchor.flips.2 == Gen.YES then polyTranslate p pc.w
    else p
  polyTranslate p translation

def getPentagonLocal (anchor : Anchor) : Poly := getPentagonLocalOf pentagonConstants anchor

/-- `get_pentagon_vertices(resolution, quintant, anchor)` -/
def getPentagonVertices (resolution : Int) (quintant : Nat) (anchor : Anchor) : Poly :=
  let p := getPentagonLocal anchor
  let pow := if resolution ≥ 0 then Float.ofNat (2 ^ resolution.toNat) else 1.0 / Float.ofNat (2 ^ (-resolution).toNat)
  let p := polyScale p (1.0 / pow)
  transformPoly p (quintantRotation quintant)

def getQuintantVertices (quintant : Nat) : Poly :=
  let t := (polyFirst5 pentagonConstants.triangle).take 3
  transformPoly (polyNew t) (quintantRotation quintant)

def getFaceVertices : Poly :=
  let v := pentagonConstants.v
  let vs := (List.range 5).map (fun q =>
    let (m00, m01, m10, m11) := quintantRotation q
    (⟨m00 * v.x + m01 * v.y, m10 * v.x + m11 * v.y⟩ : V2))
  polyNew vs.reverse

/-- `get_quintant_polar` -/
def getQuintantPolar (gamma : Float) : Nat :=
  let r := f64ToI32 ((gamma / fc Gen.TWO_PI_OVER_5).round) + 5
  -- `as usize % 5`: a negative i32 would wrap to a huge usize; |gamma| ≤ π keeps r in 2..8
  (if r < 0 then (r + 18446744073709551616).toNat else r.toNat) % 5

/-! ### coordinate transforms, authalic, gnomonic -/

def degToRad (d : Float) : Float := d * fc Gen.PI_OVER_180
def radToDeg (r : Float) : Float := r * fc Gen.DEG_PER_RAD

def toPolar (f : V2) : Float × Float :=   -- (rho, gamma)
  ((f.x * f.x + f.y * f.y).sqrt, Float.atan2 f.y f.x)

def toFace (rho gamma : Float) : V2 := ⟨rho * gamma.cos, rho * gamma.sin⟩

structure FaceTriangle where
  a : V2
  b : V2
  c : V2
  deriving Inhabited

structure SphTriangle where
  a : V3
  b : V3
  c : V3
  deriving Inhabited

def faceToBarycentric (p : V2) (t : FaceTriangle) : Float × Float × Float :=
  let p1 := t.a; let p2 := t.b; let p3 := t.c
  let d31x := p1.x - p3.x; let d31y := p1.y - p3.y
  let d23x := p3.x - p2.x; let d23y := p3.y - p2.y
  let d3px := p.x - p3.x; let d3py := p.y - p3.y
  let det := d23x * d31y - d23y * d31x
  let b0 := (d23x * d3py - d23y * d3px) / det
  let b1 := (d31x * d3py - d31y * d3px) / det
  let b2 := 1.0 - (b0 + b1)
  (b0, b1, b2)

def barycentricToFace (b : Float × Float × Float) (t : FaceTriangle) : V2 :=
  let (u, v, w) := b
  ⟨u * t.a.x + v * t.b.x + w * t.c.x, u * t.a.y + v * t.b.y + w * t.c.y⟩

def toSpherical (c : V3) : Float × Float :=   -- (theta, phi)
  let theta := Float.atan2 c.y c.x
  -- fix e88aa12: `atan2(hypot, z)` instead of `acos(z / r)` (which loses half the digits near the poles)
  (theta, Float.atan2 (c.x * c.x + c.y * c.y).sqrt c.z)

def toCartesian (theta phi : Float) : V3 :=
  let sp := phi.sin
  ⟨sp * theta.cos, sp * theta.sin, phi.cos⟩

def faceToIJ (f : V2) : Float × Float :=
  let (m00, m01, m10, m11) := pentagonConstants.basisInverse
  (m00 * f.x + m01 * f.y, m10 * f.x + m11 * f.y)

def applyCoefficients (phi : Float) (c : List FConst) : Float :=
  let g (i : Nat) : Float := fc (c.getD i ⟨0, 0, 0⟩)
  let sinPhi := phi.sin
  let cosPhi := phi.cos
  let x := 2.0 * (cosPhi - sinPhi) * (cosPhi + sinPhi)
  let u0 := x * g 5 + g 4
  let u1 := x * u0 + g 3
  let u0 := x * u1 - u0 + g 2
  let u1 := x * u0 - u1 + g 1
  let u0 := x * u1 - u0 + g 0
  phi + 2.0 * sinPhi * cosPhi * u0

def authalicForward (phi : Float) : Float := applyCoefficients phi Gen.GEODETIC_TO_AUTHALIC
def authalicInverse (phi : Float) : Float := applyCoefficients phi Gen.AUTHALIC_TO_GEODETIC

def fromLonLat (lon lat : Float) : Float × Float :=   -- (theta, phi)
  let theta := degToRad (lon + fc Gen.LONGITUDE_OFFSET)
  let geodetic := degToRad lat
  let authalic := authalicForward geodetic
  (theta, fc Gen.FRAC_PI_2 - authalic)

def toLonLat (theta phi : Float) : Float × Float :=   -- (lon, lat)
  let lon := radToDeg theta - fc Gen.LONGITUDE_OFFSET
  let authalic := fc Gen.FRAC_PI_2 - phi
  let geodetic := authalicInverse authalic
  (lon, radToDeg geodetic)

/-- `while longitude - center > 180 { longitude -= 360 }` etc., with fuel -/
def unwrapLon : Nat → Float → Float → Outcome Float
  | 0, _, _ => .panic .fuel
  | fuel + 1, lon, center =>
    if lon - center > 180.0 then unwrapLon fuel (lon - 360.0) center
    else if lon - center < -180.0 then
      -- second loop (the first loop's condition is now false and stays false only if we do not
      -- overshoot; mirror the Rust order: first loop to completion, then second loop)
      unwrapLonUp fuel (lon + 360.0) center
    else .ok lon
where
  unwrapLonUp : Nat → Float → Float → Outcome Float
    | 0, _, _ => .panic .fuel
    | fuel + 1, lon, center =>
      if lon - center < -180.0 then unwrapLonUp fuel (lon + 360.0) center else .ok lon

def normalizeLongitudes (contour : List (Float × Float)) : Outcome (List (Float × Float)) :=
  match contour with
  | [] => .ok []
  | first :: _ =>
    let pts := contour.map (fun (lon, lat) => let (t, p) := fromLonLat lon lat; toCartesian t p)
    let c := pts.foldl (fun (acc : V3) p => ⟨acc.x + p.x, acc.y + p.y, acc.z + p.z⟩) ⟨0.0, 0.0, 0.0⟩
    let length := (c.x * c.x + c.y * c.y + c.z * c.z).sqrt
    let c : V3 := if length > 0.0 then ⟨c.x / length, c.y / length, c.z / length⟩ else c
    let (ct, cp) := toSpherical c
    let (centerLon0, centerLat) := toLonLat ct cp
    let centerLon := if !(fc Gen.POLE_LAT_LO ≤ centerLat && centerLat ≤ fc Gen.POLE_LAT_HI) then first.1 else centerLon0
    let centerLon := fmod360 (fmod360 (centerLon + 180.0) + 360.0) - 180.0
    mapOutcomeF (fun (lon, lat) => unwrapLon 64 lon centerLon >>= fun l => .ok (l, lat)) contour
where
  mapOutcomeF {α β : Type} (f : α → Outcome β) : List α → Outcome (List β)
    | [] => .ok []
    | a :: as => f a >>= fun b => mapOutcomeF f as >>= fun bs => .ok (b :: bs)

def gnomonicForward (theta phi : Float) : Float × Float := (phi.tan, theta)     -- (rho, gamma)
def gnomonicInverse (rho gamma : Float) : Float × Float := (gamma, rho.atan)    -- (theta, phi)

/-! ### vector.rs -/

def v3dot (a b : V3) : Float := a.x * b.x + a.y * b.y + a.z * b.z
def v3cross (a b : V3) : V3 := ⟨a.y * b.z - a.z * b.y, a.z * b.x - a.x * b.z, a.x * b.y - a.y * b.x⟩
def v3length (v : V3) : Float := (v.x * v.x + v.y * v.y + v.z * v.z).sqrt
def v3normalize (v : V3) : V3 :=
  let len := v3length v
  if len == 0.0 then v else ⟨v.x / len, v.y / len, v.z / len⟩
def v3lerp (a b : V3) (t : Float) : V3 := ⟨a.x + t * (b.x - a.x), a.y + t * (b.y - a.y), a.z + t * (b.z - a.z)⟩
def v3sub (a b : V3) : V3 := ⟨a.x - b.x, a.y - b.y, a.z - b.z⟩
def v3add (a b : V3) : V3 := ⟨a.x + b.x, a.y + b.y, a.z + b.z⟩
def v3scale (v : V3) (s : Float) : V3 := ⟨v.x * s, v.y * s, v.z * s⟩
def v3distance (a b : V3) : Float := v3length (v3sub a b)

def vectorDifference (a b : V3) : Float :=
  let mid := v3normalize (v3lerp a b 0.5)
  let d := v3length (v3cross a mid)
  if d < fc Gen.VECDIFF_SWITCH then 0.5 * v3length (v3sub a b) else d

def quadrupleProduct (a b c d : V3) : V3 :=
  let ccd := v3cross c d
  let tacd := v3dot a ccd
  let tbcd := v3dot b ccd
  v3sub (v3scale b tacd) (v3scale a tbcd)

def v3angle (a b : V3) : Float :=
  let cosA := v3dot a b / (v3length a * v3length b)
  (fclamp1 cosA).acos

def slerp (a b : V3) (t : Float) : V3 :=
  let gamma := v3angle a b
  if gamma < fc Gen.SLERP_SWITCH then v3lerp a b t
  else
    let wa := ((1.0 - t) * gamma).sin / gamma.sin
    let wb := (t * gamma).sin / gamma.sin
    v3add (v3scale a wa) (v3scale b wb)

/-- `SphericalPolygonShape::get_triangle_area` -/
def sphTriangleArea (v1 v2 v3 : V3) : Float :=
  let midA := v3normalize (v3lerp v2 v3 0.5)
  let midB := v3normalize (v3lerp v3 v1 0.5)
  let midC := v3normalize (v3lerp v1 v2 0.5)
  let s := v3dot midA (v3cross midB midC)
  let clamped := fclamp1 s
  if clamped.abs < fc Gen.TRI_AREA_SWITCH then 2.0 * clamped else clamped.asin * 2.0

/-! ### polyhedral.rs -/

def polyhedralForward (v : V3) (st : SphTriangle) (ft : FaceTriangle) : V2 :=
  let a := st.a; let b := st.b; let c := st.c
  let z := v3normalize (v3sub v a)
  let p := v3normalize (quadrupleProduct a z b c)
  let h := vectorDifference a v / vectorDifference a p
  let areaABC := sphTriangleArea a b c
  let scaledArea := h / areaABC
  barycentricToFace (1.0 - h, scaledArea * sphTriangleArea a p c, scaledArea * sphTriangleArea a b p) ft

def safeAcos (x : Float) : Float :=
  if x < fc Gen.SAFE_ACOS_SWITCH then 2.0 * x + x * x * x / 3.0 else (1.0 - 2.0 * x * x).acos

def polyhedralInverse (fp : V2) (ft : FaceTriangle) (st : SphTriangle) : V3 :=
  let a := st.a; let b := st.b; let c := st.c
  let (bu, bv, bw) := faceToBarycentric fp ft
  let threshold := 1.0 - fc Gen.POLY_SNAP_EPS
  if bu > threshold then a
  else if bv > threshold then b
  else if bw > threshold then c
  else
    let c1 := v3cross b c
    let areaABC := sphTriangleArea a b c
    let h := 1.0 - bu
    let r := bw / h
    let alpha := r * areaABC
    let s := alpha.sin
    let halfC := (alpha / 2.0).sin
    let cc := 2.0 * halfC * halfC
    let c01 := v3dot a b
    let c12 := v3dot b c
    let c20 := v3dot c a
    let s12 := v3length c1
    let vv := v3dot a c1
    let f := s * vv + cc * (c01 * c12 - c20)
    let g := cc * s12 * (1.0 + c01)
    let q := (2.0 / c12.acos) * Float.atan2 g f
    let p := slerp b c q
    let k := vectorDifference a p
    let t := safeAcos (h * k) / safeAcos k
    slerp a p t

/-! ### crs.rs -/

def transformQuat (v : V3) (q : Float × Float × Float × Float) : V3 :=
  let (qx, qy, qz, qw) := q
  let vx := v.x; let vy := v.y; let vz := v.z
  let cx := -qx; let cy := -qy; let cz := -qz; let cw := qw
  let t1x := qw * vx + qy * vz - qz * vy
  let t1y := qw * vy + qz * vx - qx * vz
  let t1z := qw * vz + qx * vy - qy * vx
  let t1w := -qx * vx - qy * vy - qz * vz
  ⟨t1w * cx + t1x * cw + t1y * cz - t1z * cy,
   t1w * cy + t1y * cw + t1z * cx - t1x * cz,
   t1w * cz + t1z * cw + t1x * cy - t1y * cx⟩

def crsAdd (vs : List V3) (nv : V3) : List V3 :=
  let n := v3normalize nv
  if vs.any (fun e => v3distance n e < fc Gen.CRS_ADD_TOL) then vs else vs ++ [n]

def crsVertices : List V3 :=
  let vs : List V3 := origins.foldl (fun acc o => crsAdd acc (toCartesian o.theta o.phi)) []
  let phiV := (fc Gen.DISTANCE_TO_VERTEX).atan
  let vs := origins.foldl (fun acc o =>
    (List.range 5).foldl (fun acc i =>
      let thetaV := Float.ofNat (2 * i + 1) * fc Gen.PI / 5.0
      crsAdd acc (transformQuat (toCartesian (thetaV + o.angle) phiV) o.quat)) acc) vs
  let phiM := (fc Gen.DISTANCE_TO_EDGE).atan
  origins.foldl (fun acc o =>
    (List.range 5).foldl (fun acc i =>
      let thetaM := Float.ofNat (2 * i) * fc Gen.PI / 5.0
      crsAdd acc (transformQuat (toCartesian (thetaM + o.angle) phiM) o.quat)) acc) vs

def crsGetVertex (p : V3) : Outcome V3 :=
  match crsVertices.find? (fun v => v3distance p v < fc Gen.CRS_TOL) with
  | some v => .ok v
  | none => .err .crsVertex

/-! ### dodecahedron.rs (the memo tables are modelled separately in `Memo.lean`; here every
triangle is recomputed, which is the value the memo holds) -/

def faceTriangleIndex (gamma : Float) : Nat :=
  let idx := (f64ToI32 ((gamma / fc Gen.PI_OVER_5).floor) + 10).tmod 10
  if idx < 0 then (idx + 10).toNat else idx.toNat

def normalizeGamma (gamma : Float) : Float :=
  let segment := gamma / fc Gen.TWO_PI_OVER_5
  let sCenter := segment.round
  let sOffset := segment - sCenter
  sOffset * fc Gen.TWO_PI_OVER_5

def shouldReflect (rho gamma : Float) : Bool :=
  let d := (toFace rho (normalizeGamma gamma)).x
  d > fc Gen.DISTANCE_TO_EDGE

def baseFaceTriangle (idx : Nat) : FaceTriangle :=
  let quintant := ((idx + 1) / 2) % 5
  let verts := polyFirst5 (getQuintantVertices quintant)
  let vCenter := verts.getD 0 default
  let vCorner1 := verts.getD 1 default
  let vCorner2 := verts.getD 2 default
  let mid : V2 := ⟨(vCorner1.x + vCorner2.x) / 2.0, (vCorner1.y + vCorner2.y) / 2.0⟩
  if idx % 2 == 0 then ⟨vCenter, mid, vCorner1⟩ else ⟨vCenter, vCorner2, mid⟩

def reflectedFaceTriangle (idx : Nat) (squashed : Bool) : FaceTriangle :=
  let base := baseFaceTriangle idx
  let even := idx % 2 == 0
  let a : V2 := ⟨-base.a.x, -base.a.y⟩
  let midpoint := if even then base.b else base.c
  let scale := if squashed then 1.0 + 1.0 / (fc Gen.INTERHEDRAL_ANGLE).cos else 2.0
  let a : V2 := ⟨a.x + midpoint.x * scale, a.y + midpoint.y * scale⟩
  ⟨a, base.c, base.b⟩

def getFaceTriangle (idx : Nat) (reflected squashed : Bool) : Outcome FaceTriangle :=
  if idx > Gen.FACE_TRIANGLE_MAX then .err .other
  else .ok (if reflected then reflectedFaceTriangle idx squashed else baseFaceTriangle idx)

def computeSphericalTriangle (idx originId : Nat) (reflected : Bool) : Outcome SphTriangle :=
  if originId ≥ origins.length then .err .invalidOrigin
  else
    let o := originAt originId
    getFaceTriangle idx reflected true >>= fun ft =>
    let vert (f : V2) : Outcome V3 :=
      let (rho, gamma) := toPolar f
      let (t, p) := gnomonicInverse rho (gamma + o.angle)
      crsGetVertex (transformQuat (toCartesian t p) o.quat)
    vert ft.a >>= fun va => vert ft.b >>= fun vb => vert ft.c >>= fun vc => .ok ⟨va, vb, vc⟩

def dodecaForward (theta phi : Float) (originId : Nat) : Outcome V2 :=
  if originId ≥ origins.length then .err .invalidOrigin
  else
    let o := originAt originId
    let unprojected := toCartesian theta phi
    let out := transformQuat unprojected o.invQuat
    let (pt, pp) := toSpherical out
    let (rho, gamma) := gnomonicForward pt pp
    let gamma := gamma - o.angle
    let idx := faceTriangleIndex gamma
    let reflect := shouldReflect rho gamma
    getFaceTriangle idx reflect false >>= fun ft =>
    computeSphericalTriangle idx originId reflect >>= fun st =>
    .ok (polyhedralForward unprojected st ft)

def dodecaInverse (f : V2) (originId : Nat) : Outcome (Float × Float) :=
  if originId ≥ origins.length then .err .invalidOrigin else
  let (rho, gamma) := toPolar f
  let idx := faceTriangleIndex gamma
  let reflect := shouldReflect rho gamma
  getFaceTriangle idx reflect false >>= fun ft =>
  computeSphericalTriangle idx originId reflect >>= fun st =>
  .ok (toSpherical (polyhedralInverse f ft st))

end A5
