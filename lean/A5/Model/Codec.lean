import A5.Model.Outcome
import A5.Gen.Tables
/-! Model of `src/core/serialization.rs`: `get_resolution`, `deserialize`, `serialize`
(after the `fix:` commits).  Same branch order, same masks and shifts; tables come from
`A5.Gen` (regenerated from the Rust source on every run). -/
namespace A5

structure Cell where
  origin : Nat      -- `OriginId = u8`
  segment : Nat     -- `usize`
  s : Nat           -- `u64`
  res : Int         -- `i32`
  deriving Repr, DecidableEq, Inhabited

/-- `get_origins()[o].first_quintant`: origins are generated in ring order and then reordered by
`ORIGIN_ORDER`; `first_quintant` of the raw origin `k` is `QUINTANT_FIRST[k]`. -/
def firstQuintant (o : Nat) : Nat :=
  Gen.QUINTANT_FIRST.getD (Gen.ORIGIN_ORDER.getD o 0) 0

def numOrigins : Nat := Gen.ORIGIN_ORDER.length

/-- the `while` loop of `get_resolution` (at most 31 iterations). -/
def getResolutionLoop : Nat → Int → Nat → Int
  | 0, r, _ => r
  | fuel + 1, r, sh =>
    if r > -1 ∧ sh % 2 = 0 then
      let r' := r - 1
      getResolutionLoop fuel r' (sh >>> (if r' < Gen.FIRST_HILBERT_RESOLUTION then 1 else 2))
    else r

def getResolution (id : Nat) : Int :=
  getResolutionLoop 31 (Gen.MAX_RESOLUTION - 1) (id >>> 1)

def deserialize (id : Nat) : Outcome Cell :=
  let r := getResolution id
  if r = -1 then .ok ⟨0, 0, 0, r⟩
  else
    let top6 := id >>> 58
    let os : Outcome (Nat × Nat) :=
      if r = 0 then
        if top6 ≥ numOrigins then .err .badOrigin else .ok (top6, 0)
      else
        let o := top6 / 5
        if o ≥ numOrigins then .err .badOrigin
        else .ok (o, (top6 + firstQuintant o) % 5)
    os >>= fun (o, seg) =>
      if r < Gen.FIRST_HILBERT_RESOLUTION then .ok ⟨o, seg, 0, r⟩
      else
        let levels := r - Gen.FIRST_HILBERT_RESOLUTION + 1
        let bits := 2 * levels.toNat
        u32Sub Gen.HILBERT_START_BIT bits >>= fun shift =>
          .ok ⟨o, seg, (id &&& Gen.REMOVAL_MASK) >>> shift, r⟩

def serialize (c : Cell) : Outcome Nat :=
  if c.res ≥ Gen.MAX_RESOLUTION then .err .resTooLarge
  else if c.res < -1 then .err .resNegative
  else if c.res = -1 then .ok Gen.WORLD_CELL
  else
    -- position of the resolution marker as bit shift from the first non-origin bit
    let r : Nat :=
      if c.res < Gen.FIRST_HILBERT_RESOLUTION then c.res.toNat + 1
      else 2 * (1 + c.res - Gen.FIRST_HILBERT_RESOLUTION).toNat + 1
    if c.origin ≥ numOrigins then .panic .indexOOB
    else
      u64Add c.segment 5 >>= fun seg5 =>
      u32Sub seg5 (firstQuintant c.origin) >>= fun d =>
      let segN := d % 5
      (if c.res = 0 then u64Shl c.origin 58 else u64Shl (5 * c.origin + segN) 58) >>= fun index0 =>
      (if c.res ≥ Gen.FIRST_HILBERT_RESOLUTION then
          let levels := c.res - Gen.FIRST_HILBERT_RESOLUTION + 1
          let bits := 2 * levels.toNat
          u64Shl 1 bits >>= fun maxS =>
          if c.s ≥ maxS then .err .sTooLarge
          else
            u32Sub Gen.HILBERT_START_BIT bits >>= fun sh =>
            u64Shl c.s sh >>= fun sv =>
            u64Add index0 sv
        else .ok index0) >>= fun index1 =>
      u32Sub Gen.HILBERT_START_BIT r >>= fun mpos =>
      u64Shl 1 mpos >>= fun marker =>
      .ok (index1 ||| marker)

end A5
