import A5.Model.Codec
/-! Model of the hierarchy functions of `serialization.rs` and the counts of `cell_info.rs`. -/
namespace A5

/-- `?`-style sequential map: stops at the first non-`ok`. -/
def mapOutcome {α β : Type} (f : α → Outcome β) : List α → Outcome (List β)
  | [] => .ok []
  | a :: as => f a >>= fun b => mapOutcome f as >>= fun bs => .ok (b :: bs)

/-- tail-recursive twin of `mapOutcome` (accumulator, reversed at the end): what compiled code runs, by the proved equation
`mapOutcome_eq_TR` below (`@[csimp]`); `mapOutcome` itself recurses once per element and overflows the stack of the compiled
driver beyond about 10^7 elements -/
def mapOutcomeTR.go {α β : Type} (f : α → Outcome β) : List α → List β → Outcome (List β)
  | [], acc => .ok acc.reverse
  | a :: as, acc =>
    match f a with
    | .ok b => mapOutcomeTR.go f as (b :: acc)
    | .err e => .err e
    | .panic k => .panic k

def mapOutcomeTR {α β : Type} (f : α → Outcome β) (l : List α) : Outcome (List β) := mapOutcomeTR.go f l []

theorem mapOutcomeTR_go_eq {α β : Type} (f : α → Outcome β) : ∀ (l : List α) (acc : List β),
    mapOutcomeTR.go f l acc = (mapOutcome f l >>= fun bs => .ok (acc.reverse ++ bs)) := by
  intro l
  induction l with
  | nil => intro acc; simp [mapOutcomeTR.go, mapOutcome]
  | cons a as ih =>
    intro acc
    unfold mapOutcomeTR.go mapOutcome
    cases h : f a with
    | ok b =>
      simp only [Outcome.bind_ok]
      rw [ih]
      cases mapOutcome f as with
      | ok bs => simp
      | err e => simp
      | panic k => simp
    | err e => simp
    | panic k => simp

@[csimp] theorem mapOutcome_eq_TR : @mapOutcome = @mapOutcomeTR := by
  funext α β f l
  unfold mapOutcomeTR
  rw [mapOutcomeTR_go_eq]
  cases mapOutcome f l <;> simp

def flatMapOutcome {α β : Type} (f : α → Outcome (List β)) : List α → Outcome (List β)
  | [] => .ok []
  | a :: as => f a >>= fun b => flatMapOutcome f as >>= fun bs => .ok (b ++ bs)

def cellToChildren (id : Nat) (childRes : Option Int) : Outcome (List Nat) :=
  deserialize id >>= fun cell =>
  let cur := cell.res
  (match childRes with
    | some r => .ok r
    | none => i32Add cur 1) >>= fun new =>
  if new < cur then .err .targetCoarser
  else if new > Gen.MAX_RESOLUTION then .err .exceedsMax
  else if new = cur then serialize cell >>= fun x => .ok [x]
  else
    let origins : List Nat := if cur = -1 then List.range Gen.NUM_ORIGINS_WORLD else [cell.origin]
    let segments : List Nat :=
      if (cur = -1 ∧ new > 0) ∨ cur = 0 then Gen.NEW_SEGMENTS else [cell.segment]
    let diff : Int := new - max cur (Gen.FIRST_HILBERT_RESOLUTION - 1)
    if diff > Gen.MAX_CHILD_DIFF then .err .diffTooLarge
    else
      let count : Nat := if diff ≤ 0 then 1 else 4 ^ diff.toNat
      (if diff > 0 then u64Shl cell.s (2 * diff.toNat) else .ok cell.s) >>= fun shifted =>
      flatMapOutcome (fun o =>
        flatMapOutcome (fun seg =>
          mapOutcome (fun i =>
            u64Add shifted i >>= fun ns => serialize ⟨o, seg, ns, new⟩) (List.range count))
          segments) origins

def cellToParent (id : Nat) (parentRes : Option Int) : Outcome Nat :=
  deserialize id >>= fun cell =>
  let cur := cell.res
  (match parentRes with
    | some r => .ok r
    | none => i32Sub cur 1) >>= fun new =>
  if new = -1 then .ok Gen.WORLD_CELL
  else if new < 0 then .err .negative
  else if new > cur then .err .targetFiner
  else if new = cur then serialize cell
  else
    let diff := cur - new
    u64Shr cell.s (2 * diff.toNat) >>= fun shifted =>
    serialize ⟨cell.origin, cell.segment, shifted, new⟩

def getRes0Cells : Outcome (List Nat) := cellToChildren Gen.WORLD_CELL (some 0)

/-- `is_first_child(index, Some(resolution))` -/
def isFirstChild (id : Nat) (res : Int) : Outcome Bool :=
  if res < 2 then
    let top6 := id >>> Gen.HILBERT_START_BIT
    let cnt := if res = 0 then Gen.FIRST_CHILD_COUNT_RES0 else Gen.FIRST_CHILD_COUNT_RES1
    .ok (top6 % cnt == 0)
  else
    i32Sub Gen.MAX_RESOLUTION res >>= fun d =>
    -- `2 * (MAX_RESOLUTION - resolution) as u32`: a negative difference wraps to >= 2^31 as u32 and the doubling overflows
    if d < 0 then .panic .mulOverflow else
    let sPos := (2 * d.toNat) % 2 ^ 32
    u64Shl 3 sPos >>= fun mask => .ok ((id &&& mask) == 0)

def getStride (res : Int) : Outcome Nat :=
  if res < 2 then u64Shl 1 Gen.HILBERT_START_BIT
  else
    i32Sub Gen.MAX_RESOLUTION res >>= fun d =>
    if d < 0 then .panic .mulOverflow else
    u64Shl 1 ((2 * d.toNat) % 2 ^ 32)

/-- `get_num_cells` (after the saturating fix): total on every `i32`. -/
def getNumCells (res : Int) : Nat :=
  if res < 0 then 0
  else match Gen.NUM_CELLS_SPECIAL.lookup res with
    | some n => n
    | none =>
      let p := 4 ^ (res - 1).toNat
      if p < 2 ^ 64 ∧ p * Gen.NUM_CELLS_FACTOR < 2 ^ 64 then p * Gen.NUM_CELLS_FACTOR else 2 ^ 64 - 1

def getNumChildren (parent child : Int) : Outcome Nat :=
  if child < parent then .ok 0
  else if child = parent then .ok 1
  else if parent ≥ Gen.FIRST_HILBERT_RESOLUTION then
    i32Sub child parent >>= fun d =>
    if 4 ^ d.toNat < 2 ^ 64 then .ok (4 ^ d.toNat) else .panic .powOverflow
  else
    let pc := getNumCells parent
    let pc := if pc = 0 then 1 else pc
    .ok (getNumCells child / pc)

end A5
