import A5.Model.Outcome
import A5.Gen.Tables
/-! Model of `src/core/hilbert.rs`.

`s_to_anchor` works on integer-valued `f64` offsets (all intermediate values are integers below
2^31, exact in `f64`), so the model uses `Int` and the float pipeline converts with `Float.ofInt`.
`ij_to_s` is written once, generically in the scalar type `α`: at `α := Float` it is the executable
that is compared bit-for-bit with the Rust code; at an ordered field it is what C17 is proved about. -/
namespace A5

/-- orientation codes: UV=0 VU=1 UW=2 WU=3 VW=4 WV=5 -/
abbrev Orientation := Nat

structure Anchor where
  k : Nat
  offset : Int × Int      -- IJ
  flips : Int × Int
  deriving Repr, DecidableEq, Inhabited

def quaternaryToFlips (n : Nat) : Int × Int := Gen.QUATERNARY_TO_FLIPS.getD n (0, 0)

/-- `quaternary_to_kj`: `(p, q)` chosen by the flips, digit `n ↦ a·q + b·p` -/
def quaternaryToKJ (n : Nat) (flips : Int × Int) : Int × Int :=
  match Gen.KJ_PQ_TABLE.find? (fun row => row.1 == flips) with
  | none => (0, 0)
  | some (_, p, q) =>
    let (a, b) := Gen.KJ_DIGIT_COEFF.getD n (0, 0)
    (a * q.1 + b * p.1, a * q.2 + b * p.2)

def kjToIJ (kj : Int × Int) : Int × Int := (kj.1 - kj.2, kj.2)

def mulFlips (a b : Int × Int) : Int × Int := (a.1 * b.1, a.2 * b.2)

def reversePattern (p : List Nat) : List Nat :=
  (List.range p.length).map (fun v => (p.idxOf v))

/-- `shift_digits(digits, i, flips, invert_j, pattern)` as a pure function on the digit list
(least significant digit first, as in the Rust `Vec`). -/
def shiftDigits (digits : List Nat) (i : Nat) (flips : Int × Int) (invertJ : Bool) (pattern : List Nat) : List Nat :=
  if i = 0 then digits
  else
    let parentK := digits.getD i 0
    let childK := digits.getD (i - 1) 0
    let f := flips.1 + flips.2
    let (needsShift, first) :=
      if invertJ != (f == 0) then (parentK == 1 || parentK == 2, parentK == 1)
      else (parentK < 2, parentK == 0)
    if !needsShift then digits
    else
      let src := if first then childK else childK + 4
      let dst := pattern.getD src 0
      let digits := digits.set (i - 1) (dst % 4)
      digits.set i ((parentK + 4 + dst / 4 - src / 4) % 4)

/-- number of base-4 digits of `s` (0 for `s = 0`) -/
def quatLen : Nat → Nat → Nat
  | 0, _ => 0
  | fuel + 1, s => if s = 0 then 0 else 1 + quatLen fuel (s / 4)

def digitsLSB (s n : Nat) : List Nat := (List.range n).map (fun i => s / 4 ^ i % 4)

/-- first loop of `s_to_anchor_internal`: top-down shifting, `i = len-1 … 0` -/
def shiftDown (invertJ : Bool) (pattern : List Nat) : Nat → List Nat → Int × Int → List Nat × (Int × Int)
  | 0, digits, flips => (digits, flips)
  | i + 1, digits, flips =>
    let digits := shiftDigits digits i flips invertJ pattern
    let flips := mulFlips flips (quaternaryToFlips (digits.getD i 0))
    shiftDown invertJ pattern i digits flips

/-- second loop of `s_to_anchor_internal`: accumulate the KJ offset, `i = len-1 … 0` -/
def accumOffset : Nat → List Nat → Int × Int → Int × Int → (Int × Int) × (Int × Int)
  | 0, _, offset, flips => (offset, flips)
  | i + 1, digits, offset, flips =>
    let offset := (offset.1 * 2, offset.2 * 2)
    let child := quaternaryToKJ (digits.getD i 0) flips
    let offset := (offset.1 + child.1, offset.2 + child.2)
    let flips := mulFlips flips (quaternaryToFlips (digits.getD i 0))
    accumOffset i digits offset flips

def sToAnchorInternal (s resolution : Nat) (invertJ flipIJ : Bool) : Anchor :=
  let n := max resolution (quatLen 33 s)
  let digits := digitsLSB s n
  let pattern := if flipIJ then Gen.PATTERN_FLIPPED else Gen.PATTERN
  let (digits, _) := shiftDown invertJ pattern n digits (Gen.NO, Gen.NO)
  let (offset, flips) := accumOffset n digits (0, 0) (Gen.NO, Gen.NO)
  { flips := flips, k := digits.getD 0 0, offset := kjToIJ offset }

def oriReverse (o : Orientation) : Bool := Gen.S2A_REVERSE_SET.contains o
def oriInvertJ (o : Orientation) : Bool := Gen.S2A_INVERT_J_SET.contains o
def oriFlipIJ (o : Orientation) : Bool := Gen.S2A_FLIP_IJ_SET.contains o

/-- `s_to_anchor(s, resolution, orientation)`.  Panics model the overflow-checked build:
`1u64 << (2*resolution)` and `… - input - 1`.  (The `i32` shift `1 << resolution` is in range for
`resolution ≤ 30`, the only values the API can produce; larger values are reported as a panic.) -/
def sToAnchor (s resolution : Nat) (o : Orientation) : Outcome Anchor :=
  let reverse := oriReverse o
  let invertJ := oriInvertJ o
  let flipIJ := oriFlipIJ o
  (if reverse then
      if 2 * resolution ≥ 64 then .panic .shlOverflow
      else if s + 1 > 4 ^ resolution then .panic .subOverflow
      else .ok (4 ^ resolution - s - 1)
    else .ok s) >>= fun adjusted =>
  let a := sToAnchorInternal adjusted resolution invertJ flipIJ
  let a :=
    if flipIJ then
      let off : Int × Int := (a.offset.2, a.offset.1)
      let off := if a.flips.1 == Gen.YES then (off.1 + Gen.FLIP_SHIFT.1, off.2 + Gen.FLIP_SHIFT.2) else off
      let off := if a.flips.2 == Gen.YES then (off.1 - Gen.FLIP_SHIFT.1, off.2 - Gen.FLIP_SHIFT.2) else off
      { a with offset := off }
    else a
  if invertJ then
    if resolution ≥ 31 then .panic .shlOverflow
    else
      let i := a.offset.1
      let j := a.offset.2
      .ok { a with flips := (-a.flips.1, a.flips.2), offset := (i, (2 ^ resolution : Int) - (i + j)) }
  else .ok a

/-! ### `ij_to_s`, generic in the scalar -/

/-- the two literal-producing operations the generic code needs -/
structure Lits (α : Type) where
  ofInt : Int → α
  /-- `1.0 / (1u64 << i) as f64` -/
  invPow2 : Nat → α

section generic
variable {α : Type} [Add α] [Sub α] [Mul α] [Neg α] [LT α] [DecidableLT α]

def ijToQuaternary (L : Lits α) (u v : α) (flips : Int × Int) : Nat :=
  let one := L.ofInt 1
  let a := if flips.1 == Gen.YES then -(u + v) else u + v
  let b := if flips.2 == Gen.YES then -u else u
  let c := if flips.1 == Gen.YES then -v else v
  if flips.1 + flips.2 == 0 then
    if c < one then 0 else if one < b then 3 else if one < a then 2 else 1
  else if a < one then 0 else if one < b then 3 else if one < c then 2 else 1

/-- first loop of `ij_to_s_internal` (`i = n-1 … 0`): returns digits (LSB first) and final flips -/
def locateDigits (L : Lits α) (x y : α) : Nat → α × α → Int × Int → List Nat → List Nat × (Int × Int)
  | 0, _, flips, acc => (acc, flips)
  | i + 1, pivot, flips, acc =>
    let rx := x - pivot.1
    let ry := y - pivot.2
    let scale := L.invPow2 i
    let digit := ijToQuaternary L (rx * scale) (ry * scale) flips
    let child := kjToIJ (quaternaryToKJ digit flips)
    let p2 := L.ofInt (2 ^ i)
    let pivot := (pivot.1 + L.ofInt child.1 * p2, pivot.2 + L.ofInt child.2 * p2)
    let flips := mulFlips flips (quaternaryToFlips digit)
    locateDigits L x y i pivot flips (digit :: acc)

end generic

/-- second loop of `ij_to_s_internal`: bottom-up un-shifting, `i = 0 … n-1` -/
def shiftUp (invertJ : Bool) (pattern : List Nat) : Nat → Nat → List Nat → Int × Int → List Nat
  | 0, _, digits, _ => digits
  | m + 1, i, digits, flips =>
    let flips := mulFlips flips (quaternaryToFlips (digits.getD i 0))
    let digits := shiftDigits digits i flips invertJ pattern
    shiftUp invertJ pattern m (i + 1) digits flips

def digitsValue (digits : List Nat) : Nat :=
  (digits.zipIdx.map (fun (d, i) => d * 4 ^ i)).sum

section generic2
variable {α : Type} [Add α] [Sub α] [Mul α] [Neg α] [LT α] [DecidableLT α]

def ijToSInternal (L : Lits α) (x y : α) (invertJ flipIJ : Bool) (resolution : Nat) : Nat :=
  let (digits, flips) := locateDigits L x y resolution (L.ofInt 0, L.ofInt 0) (Gen.NO, Gen.NO) []
  let pattern := if flipIJ then reversePattern Gen.PATTERN_FLIPPED else reversePattern Gen.PATTERN
  let digits := shiftUp invertJ pattern digits.length 0 digits flips
  digitsValue digits

/-- `ij_to_s(input, resolution, orientation)`; panics as for `sToAnchor`. -/
def ijToS (L : Lits α) (x y : α) (resolution : Nat) (o : Orientation) : Outcome Nat :=
  let reverse := Gen.IJ2S_REVERSE_SET.contains o
  let invertJ := Gen.IJ2S_INVERT_J_SET.contains o
  let flipIJ := Gen.IJ2S_FLIP_IJ_SET.contains o
  let (x, y) := if flipIJ then (y, x) else (x, y)
  (if invertJ then
      if resolution ≥ 31 then .panic .shlOverflow
      else .ok (x, L.ofInt (2 ^ resolution) - (x + y))
    else .ok (x, y)) >>= fun (x, y) =>
  let s := ijToSInternal L x y invertJ flipIJ resolution
  if reverse then
    if 2 * resolution ≥ 64 then .panic .shlOverflow
    else if s + 1 > 4 ^ resolution then .panic .subOverflow
    else .ok (4 ^ resolution - s - 1)
  else .ok s

end generic2

def floatLits : Lits Float :=
  { ofInt := Float.ofInt, invPow2 := fun i => 1.0 / Float.ofNat (2 ^ i) }

end A5
