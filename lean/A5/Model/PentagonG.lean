import A5.Model.CellGeo
import A5.Gen.Runtime
/-! # Generic twin of the pentagon placement (`tiling.rs::get_pentagon_vertices`, lattice-frame part)

`getPentagonLocal` (`A5/Model/Geo.lean`) is the part of `get_pentagon_vertices` that works in the unscaled lattice
frame of a quintant: seed pentagon → rotate180 / reflectY / shift by `±w` according to the anchor's flips and `k`
→ translate by `BASIS * offset`.  This file states the same computation over an arbitrary scalar type (`pentagonLocalG`),
with the seed pentagon, `w` and `BASIS` as parameters, and ties it to the `Float` model by `pentagonLocal_tie`
(pure list/structure rewriting, no float arithmetic is reasoned about).  At `α := ℚ`, with the parameters taken
from `A5.Gen.Runtime` (the constants the running library computes at start-up, regenerated on every check run and
cross-checked bit-for-bit between library and model), it is what `A5/Lemmas/PentagonCentre.lean` proves theorems about.

Core only (model layer). -/
namespace A5.PG
variable {α : Type}

def rot180 [Neg α] (p : List (α × α)) : List (α × α) := p.map (fun v => (-v.1, -v.2))
def reflectY [Neg α] (p : List (α × α)) : List (α × α) := (p.map (fun v => (v.1, -v.2))).reverse
def translate [Add α] (p : List (α × α)) (t : α × α) : List (α × α) := p.map (fun v => (v.1 + t.1, v.2 + t.2))

/-- the condition under which `get_pentagon_vertices` reflects the pentagon -/
def needsReflect (a : Anchor) : Bool :=
  let f := a.flips.1 + a.flips.2
  ((f == -2 || f == 2) && a.k > 1) || (f == 0 && (a.k == 0 || a.k == 3))

/-- generic twin of `getPentagonLocal`: `P` seed pentagon, `w` the triangle vertex `w`, `b = (m00, m01, m10, m11)`
the `BASIS` matrix, `ofInt` the conversion of the integer offset -/
def pentagonLocalG [Add α] [Mul α] [Neg α] (P : List (α × α)) (w : α × α) (b : α × α × α × α) (ofInt : Int → α)
    (a : Anchor) : List (α × α) :=
  let (b00, b01, b10, b11) := b
  let ox := ofInt a.offset.1
  let oy := ofInt a.offset.2
  let translation : α × α := (b00 * ox + b01 * oy, b10 * ox + b11 * oy)
  let p := P
  let p := if a.flips.1 == Gen.NO && a.flips.2 == Gen.YES then rot180 p else p
  let p := if needsReflect a then reflectY p else p
  let p :=
    if a.flips.1 == Gen.YES && a.flips.2 == Gen.YES then rot180 p
    else if a.flips.1 == Gen.YES then translate p (-w.1, -w.2)
    else if a.flips.2 == Gen.YES then translate p w
    else p
  translate p translation

/-- generic twin of `polyCenter` (`PentagonShape::get_center`): running sum of `v / n` -/
def centreG [Add α] [Div α] (zero n : α) (vs : List (α × α)) : α × α :=
  vs.foldl (fun acc v => (acc.1 + v.1 / n, acc.2 + v.2 / n)) (zero, zero)

/-- generic twin of `face_to_ij`: multiplication by `BASIS_INVERSE = (m00, m01, m10, m11)` -/
def faceToIjG [Add α] [Mul α] (bi : α × α × α × α) (p : α × α) : α × α :=
  (bi.1 * p.1 + bi.2.1 * p.2, bi.2.2.1 * p.1 + bi.2.2.2 * p.2)

/-- generic twin of `polyArea` (`PentagonShape::get_area` before the final halving: the trapezoid sum
`Σ (x_{i+1} - x_i) (y_{i+1} + y_i)`, cyclic) -/
def areaG [Add α] [Sub α] [Mul α] (zero : α) (vs : List (α × α)) : α :=
  let n := vs.length
  let rec go : Nat → Nat → α → α
    | 0, _, acc => acc
    | m + 1, i, acc =>
      let vi := vs.getD i (zero, zero)
      let vj := vs.getD ((i + 1) % n) (zero, zero)
      go m (i + 1) (acc + (vj.1 - vi.1) * (vj.2 + vi.2))
  go n 0 zero

def scaleG' [Mul α] (p : List (α × α)) (s : α) : List (α × α) := p.map (fun v => (v.1 * s, v.2 * s))

/-! ### tie to the `Float` model -/

def toPair (v : V2) : Float × Float := (v.x, v.y)

theorem map_toPair_rotate180 (p : Poly) : (polyRotate180 p).map toPair = rot180 (p.map toPair) := by
  simp only [polyRotate180, rot180, List.map_map]; rfl

theorem map_toPair_reflectY (p : Poly) : (polyReflectY p).map toPair = reflectY (p.map toPair) := by
  simp only [polyReflectY, reflectY, List.map_reverse, List.map_map]; rfl

theorem map_toPair_translate (p : Poly) (t : V2) : (polyTranslate p t).map toPair = translate (p.map toPair) (toPair t) := by
  simp only [polyTranslate, translate, List.map_map]; rfl

/-- **tie**: the `Float` model's lattice-frame pentagon is the generic twin evaluated at `Float` on the model's
start-up constants -/
theorem pentagonLocalOf_tie (pc : PentagonConstants) (a : Anchor) :
    (getPentagonLocalOf pc a).map toPair =
      pentagonLocalG (pc.pentagon.map toPair) (toPair pc.w) pc.basis Float.ofInt a := by
  obtain ⟨_, _, _, _, _, P, _, _, w, _, _, b, _⟩ := pc
  obtain ⟨b00, b01, b10, b11⟩ := b
  unfold getPentagonLocalOf pentagonLocalG needsReflect
  simp only []
  rewrite [map_toPair_translate]
  have r1 : ∀ (c : Bool) (p : Poly), (if c then polyRotate180 p else p).map toPair =
      if c then rot180 (p.map toPair) else p.map toPair := by
    intro c p; cases c
    · rfl
    · exact map_toPair_rotate180 p
  have r2 : ∀ (c : Bool) (p : Poly), (if c then polyReflectY p else p).map toPair =
      if c then reflectY (p.map toPair) else p.map toPair := by
    intro c p; cases c
    · rfl
    · exact map_toPair_reflectY p
  have r3 : ∀ (c d e : Bool) (p : Poly) (t u : V2),
      (if c then polyRotate180 p else if d then polyTranslate p t else if e then polyTranslate p u else p).map toPair =
      if c then rot180 (p.map toPair) else if d then translate (p.map toPair) (toPair t)
        else if e then translate (p.map toPair) (toPair u) else p.map toPair := by
    intro c d e p t u
    cases c <;> cases d <;> cases e <;>
      first | rfl | exact map_toPair_rotate180 p | exact map_toPair_translate p _
  rewrite [r3, r2, r1]
  rfl

theorem pentagonLocal_tie (a : Anchor) :
    (getPentagonLocal a).map toPair =
      pentagonLocalG (pentagonConstants.pentagon.map toPair) (toPair pentagonConstants.w) pentagonConstants.basis
        Float.ofInt a := pentagonLocalOf_tie pentagonConstants a

theorem polyArea_tie (vs : Poly) : polyArea vs = areaG (0.0 : Float) (vs.map toPair) := by
  unfold polyArea areaG
  simp only [List.length_map]
  suffices h : ∀ m i acc, polyArea.go vs vs.length m i acc = areaG.go (0.0 : Float) (vs.map toPair) vs.length m i acc from h _ _ _
  intro m
  induction m with
  | zero => intro i acc; rfl
  | succ m ih =>
    intro i acc
    unfold polyArea.go areaG.go
    rewrite [ih]
    have e : ∀ j, (vs.map toPair).getD j ((0.0 : Float), (0.0 : Float)) = toPair (vs.getD j default) := by
      intro j
      simp only [List.getD_eq_getElem?_getD, List.getElem?_map]
      cases vs[j]? <;> rfl
    rewrite [e, e]
    rfl

theorem polyCenter_tie (vs : Poly) :
    toPair (polyCenter vs) = centreG (0.0 : Float) (Float.ofNat vs.length) (vs.map toPair) := by
  unfold polyCenter centreG toPair
  rewrite [List.foldl_map]
  rfl

/-! ### the runtime constants as exact rationals -/

def ratPair (c : FConst × FConst) : Rat × Rat := (c.1.toRat, c.2.toRat)

/-- seed pentagon `[a, b, c, d, e]` with the exact values of the `f64` constants computed at start-up -/
def seedQ : List (Rat × Rat) := Gen.Runtime.PENTAGON_SEED.map ratPair
def wQ : Rat × Rat := ratPair Gen.Runtime.W
def quad (l : List FConst) : Rat × Rat × Rat × Rat :=
  ((l.getD 0 ⟨0, 0, 0⟩).toRat, (l.getD 1 ⟨0, 0, 0⟩).toRat, (l.getD 2 ⟨0, 0, 0⟩).toRat, (l.getD 3 ⟨0, 0, 0⟩).toRat)
def basisQ : Rat × Rat × Rat × Rat := quad Gen.Runtime.BASIS
def basisInvQ : Rat × Rat × Rat × Rat := quad Gen.Runtime.BASIS_INVERSE

/-- the pentagon of an anchor in the lattice frame, exact arithmetic on the runtime constants -/
def pentagonQ (a : Anchor) : List (Rat × Rat) := pentagonLocalG seedQ wQ basisQ (fun z => (z : Rat)) a
/-- its centre (`get_center`) -/
def centreQ (a : Anchor) : Rat × Rat := centreG 0 5 (pentagonQ a)
/-- the centre in lattice coordinates (`face_to_ij`) -/
def centreIJ (a : Anchor) : Rat × Rat := faceToIjG basisInvQ (centreQ a)

end A5.PG
