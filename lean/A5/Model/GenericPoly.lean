import A5.Model.GenericGeo
/-! # Generic twins of `vector.rs`, `get_triangle_area` and `polyhedral.rs`

Continuation of `A5/Model/GenericGeo.lean` for the polyhedral projection.  Every function of the float model
(`A5/Model/Geo.lean`) that the real-arithmetic round-trip theorems (`A5/Lemmas/RadialRoundTrip.lean`,
`AngularRoundTrip.lean`, `AngularRoundTrip2.lean`) talk about gets a *generic twin*: the same expression tree over an
abstract scalar type `α` (plain `[Add α] [Sub α] [Mul α] [Div α] [Neg α] [LT α] [DecidableLT α]` instance arguments).
The libm functions, the float literals and the generated switch constants are passed explicitly, bundled in one record
`Kit α` (the projection needs sixteen of them; a record keeps the statements readable and is still nothing but explicit
parameters: `floatKit` below lists, field by field, what the model uses).  Vectors are triples `α × α × α`; `toT`
maps the model's `V3` to a triple.

Tie lemmas (`*_tie`): `model_function … = twin floatKit …`.  They are proved by `rfl` where the two sides are the same
term, and otherwise by rewriting with the earlier tie lemmas and `apply_ite` (pushing `toT` through an `if`, which
is not a definitional unfolding because `V3` and `Float × Float × Float` are different types); no step reasons about
float arithmetic.

The zero test of `normalize` (`len == 0.0`, a `Bool` test at `Float`) is the field `isZero : α → Prop` with its
decision procedure: Lean elaborates `if len == 0.0 then …` to `ite ((len == 0.0) = true) …`, which is exactly
`ite (floatKit.isZero len) …`.

`A5/Lemmas/PolyTies.lean` instantiates the same twins at `ℝ` and compares them with the hand-written real
transcriptions used by the theorems.

Core only (no Mathlib): this file is part of the model layer. -/
namespace A5.GP
variable {α : Type}

/-- the scalar functions and constants the polyhedral projection uses besides `+ - * / neg <` -/
structure Kit (α : Type) where
  sqrt : α → α
  sin : α → α
  acos : α → α
  asin : α → α
  atan2 : α → α → α
  abs : α → α
  /-- the test `len == 0.0` of `normalize` -/
  isZero : α → Prop
  isZeroDec : DecidablePred isZero
  /-- the literals `0.5`, `1.0`, `2.0`, `3.0` -/
  half : α
  one : α
  two : α
  three : α
  /-- `vector_difference`: below this `|a × mid|` the chord formula is used (`1e-8`) -/
  vecdiffSwitch : α
  /-- `slerp`: below this angle `lerp` is used (`1e-12`) -/
  slerpSwitch : α
  /-- `get_triangle_area`: below this `|s|` the area is `2 s` (`1e-8`) -/
  triAreaSwitch : α
  /-- `safe_acos`: below this argument the series is used (`1e-3`) -/
  safeAcosSwitch : α
  /-- `polyhedral inverse`: vertex snapping when a barycentric coordinate exceeds `1 - snapEps` (`1e-14`) -/
  snapEps : α

instance (K : Kit α) : DecidablePred K.isZero := K.isZeroDec

/-- vectors as triples -/
abbrev T3 (α : Type) := α × α × α

/-! ### `vector.rs` -/

def dotG [Add α] [Mul α] (a b : T3 α) : α := a.1 * b.1 + a.2.1 * b.2.1 + a.2.2 * b.2.2

def crossG [Sub α] [Mul α] (a b : T3 α) : T3 α :=
  (a.2.1 * b.2.2 - a.2.2 * b.2.1, a.2.2 * b.1 - a.1 * b.2.2, a.1 * b.2.1 - a.2.1 * b.1)

def lengthG [Add α] [Mul α] (K : Kit α) (v : T3 α) : α := K.sqrt (v.1 * v.1 + v.2.1 * v.2.1 + v.2.2 * v.2.2)

def normalizeG [Add α] [Mul α] [Div α] (K : Kit α) (v : T3 α) : T3 α :=
  let len := lengthG K v
  if K.isZero len then v else (v.1 / len, v.2.1 / len, v.2.2 / len)

def lerpG [Add α] [Sub α] [Mul α] (a b : T3 α) (t : α) : T3 α :=
  (a.1 + t * (b.1 - a.1), a.2.1 + t * (b.2.1 - a.2.1), a.2.2 + t * (b.2.2 - a.2.2))

def subG [Sub α] (a b : T3 α) : T3 α := (a.1 - b.1, a.2.1 - b.2.1, a.2.2 - b.2.2)
def addG [Add α] (a b : T3 α) : T3 α := (a.1 + b.1, a.2.1 + b.2.1, a.2.2 + b.2.2)
def vscaleG [Mul α] (v : T3 α) (s : α) : T3 α := (v.1 * s, v.2.1 * s, v.2.2 * s)

/-- twin of `fclamp1` (`x.clamp(-1.0, 1.0)`) -/
def clamp1G [Neg α] [LT α] [DecidableLT α] (one : α) (x : α) : α :=
  if x < -one then -one else if x > one then one else x

/-- twin of `vectorDifference` (`vector_difference`), both branches -/
def vectorDifferenceG [Add α] [Sub α] [Mul α] [Div α] [LT α] [DecidableLT α] (K : Kit α) (a b : T3 α) : α :=
  let mid := normalizeG K (lerpG a b K.half)
  let d := lengthG K (crossG a mid)
  if d < K.vecdiffSwitch then K.half * lengthG K (subG a b) else d

/-- twin of `quadrupleProduct` -/
def quadrupleProductG [Add α] [Sub α] [Mul α] (a b c d : T3 α) : T3 α :=
  let ccd := crossG c d
  let tacd := dotG a ccd
  let tbcd := dotG b ccd
  subG (vscaleG b tacd) (vscaleG a tbcd)

/-- scalar triple product `a · (b × c)` (inline in the code: `dot(a, cross(b, c))`) -/
def tripleG [Add α] [Sub α] [Mul α] (a b c : T3 α) : α := dotG a (crossG b c)

/-- twin of `v3angle` (`Vector::angle`, the `gamma` of `slerp`): `acos (clamp (a·b / (|a| |b|)))` -/
def angleG [Add α] [Mul α] [Div α] [Neg α] [LT α] [DecidableLT α] (K : Kit α) (a b : T3 α) : α :=
  let cosA := dotG a b / (lengthG K a * lengthG K b)
  K.acos (clamp1G K.one cosA)

/-- twin of `slerp`, with its small-angle (`lerp`) branch -/
def slerpG [Add α] [Sub α] [Mul α] [Div α] [Neg α] [LT α] [DecidableLT α] (K : Kit α) (a b : T3 α) (t : α) : T3 α :=
  let gamma := angleG K a b
  if gamma < K.slerpSwitch then lerpG a b t
  else
    let wa := K.sin ((K.one - t) * gamma) / K.sin gamma
    let wb := K.sin (t * gamma) / K.sin gamma
    addG (vscaleG a wa) (vscaleG b wb)

/-! ### `spherical_polygon.rs::get_triangle_area` -/

/-- the `s` of `get_triangle_area`: triple product of the three normalised edge midpoints -/
def midTripleG [Add α] [Sub α] [Mul α] [Div α] (K : Kit α) (v1 v2 v3 : T3 α) : α :=
  let midA := normalizeG K (lerpG v2 v3 K.half)
  let midB := normalizeG K (lerpG v3 v1 K.half)
  let midC := normalizeG K (lerpG v1 v2 K.half)
  dotG midA (crossG midB midC)

/-- twin of `sphTriangleArea` (`get_triangle_area`): midpoints, clamp, both branches -/
def triAreaG [Add α] [Sub α] [Mul α] [Div α] [Neg α] [LT α] [DecidableLT α] (K : Kit α) (v1 v2 v3 : T3 α) : α :=
  let s := midTripleG K v1 v2 v3
  let clamped := clamp1G K.one s
  if K.abs clamped < K.triAreaSwitch then K.two * clamped else K.asin clamped * K.two

/-! ### `polyhedral.rs` -/

/-- twin of `safeAcos` (`safe_acos`); the same tree as `A5.RadialRoundTrip.safeAcosG` (which lives in a Mathlib
file and cannot be imported here; `A5/Lemmas/PolyTies.lean` proves the two equal by `rfl`) -/
def safeAcosG [Add α] [Sub α] [Mul α] [Div α] [LT α] [DecidableLT α] (K : Kit α) (x : α) : α :=
  if x < K.safeAcosSwitch then K.two * x + x * x * x / K.three else K.acos (K.one - K.two * x * x)

/-- the point `p` of `polyhedralForward`: intersection of the great circle `a v` with the edge `b c` -/
def forwardPointG [Add α] [Sub α] [Mul α] [Div α] (K : Kit α) (a b c v : T3 α) : T3 α :=
  let z := normalizeG K (subG v a)
  normalizeG K (quadrupleProductG a z b c)

/-- twin of `polyhedralForward` up to the barycentric triple (the argument of `barycentricToFace`) -/
def forwardBaryG [Add α] [Sub α] [Mul α] [Div α] [Neg α] [LT α] [DecidableLT α] (K : Kit α) (a b c v : T3 α) : T3 α :=
  let z := normalizeG K (subG v a)
  let p := normalizeG K (quadrupleProductG a z b c)
  let h := vectorDifferenceG K a v / vectorDifferenceG K a p
  let areaABC := triAreaG K a b c
  let scaledArea := h / areaABC
  (K.one - h, scaledArea * triAreaG K a p c, scaledArea * triAreaG K a b p)

/-- twin of the general branch of `polyhedralInverse` (after `faceToBarycentric` and after the vertex snapping).
`sacos` is the function applied to `h * k` and `k` (`safe_acos` in the code: see `inverseBaryG`); it is a parameter
because `A5.AngularRoundTrip.inverseBaryR` idealises it to `2 arcsin`. -/
def inverseCoreG [Add α] [Sub α] [Mul α] [Div α] [Neg α] [LT α] [DecidableLT α] (K : Kit α) (sacos : α → α)
    (a b c : T3 α) (bary : T3 α) : T3 α :=
  let bu := bary.1
  let bw := bary.2.2
  let c1 := crossG b c
  let areaABC := triAreaG K a b c
  let h := K.one - bu
  let r := bw / h
  let alpha := r * areaABC
  let s := K.sin alpha
  let halfC := K.sin (alpha / K.two)
  let cc := K.two * halfC * halfC
  let c01 := dotG a b
  let c12 := dotG b c
  let c20 := dotG c a
  let s12 := lengthG K c1
  let vv := dotG a c1
  let f := s * vv + cc * (c01 * c12 - c20)
  let g := cc * s12 * (K.one + c01)
  let q := (K.two / K.acos c12) * K.atan2 g f
  let p := slerpG K b c q
  let k := vectorDifferenceG K a p
  let t := sacos (h * k) / sacos k
  slerpG K a p t

/-- the `f` of `polyhedralInverse` as a function of the triangle and of `alpha` (sub-expression of `inverseCoreG`,
see `inverseCoreG_eq`) -/
def edgeFG [Add α] [Sub α] [Mul α] [Div α] (K : Kit α) (a b c : T3 α) (alpha : α) : α :=
  let c1 := crossG b c
  let s := K.sin alpha
  let halfC := K.sin (alpha / K.two)
  let cc := K.two * halfC * halfC
  let c01 := dotG a b
  let c12 := dotG b c
  let c20 := dotG c a
  let vv := dotG a c1
  s * vv + cc * (c01 * c12 - c20)

/-- the `g` of `polyhedralInverse` -/
def edgeGG [Add α] [Sub α] [Mul α] [Div α] (K : Kit α) (a b c : T3 α) (alpha : α) : α :=
  let c1 := crossG b c
  let halfC := K.sin (alpha / K.two)
  let cc := K.two * halfC * halfC
  let c01 := dotG a b
  let s12 := lengthG K c1
  cc * s12 * (K.one + c01)

/-- the `q` of `polyhedralInverse`: `(2 / acos c12) * atan2 g f` -/
def edgeParamG [Add α] [Sub α] [Mul α] [Div α] (K : Kit α) (a b c : T3 α) (alpha : α) : α :=
  (K.two / K.acos (dotG b c)) * K.atan2 (edgeGG K a b c alpha) (edgeFG K a b c alpha)

/-- `inverseCoreG` with its sub-expressions named (definitional unfolding) -/
theorem inverseCoreG_eq [Add α] [Sub α] [Mul α] [Div α] [Neg α] [LT α] [DecidableLT α] (K : Kit α) (sacos : α → α)
    (a b c bary : T3 α) :
    inverseCoreG K sacos a b c bary =
      (let h := K.one - bary.1
       let alpha := bary.2.2 / h * triAreaG K a b c
       let p := slerpG K b c (edgeParamG K a b c alpha)
       let k := vectorDifferenceG K a p
       slerpG K a p (sacos (h * k) / sacos k)) := rfl

/-- twin of `polyhedralInverse` from the barycentric triple (the value of `faceToBarycentric`) on: vertex
snapping, then the general branch with `safe_acos` -/
def inverseBaryG [Add α] [Sub α] [Mul α] [Div α] [Neg α] [LT α] [DecidableLT α] (K : Kit α)
    (a b c : T3 α) (bary : T3 α) : T3 α :=
  let threshold := K.one - K.snapEps
  if bary.1 > threshold then a
  else if bary.2.1 > threshold then b
  else if bary.2.2 > threshold then c
  else inverseCoreG K (safeAcosG K) a b c bary

/-- no vertex snapping: the full twin is its general branch (holds over any scalar type) -/
theorem inverseBaryG_of_not_snap [Add α] [Sub α] [Mul α] [Div α] [Neg α] [LT α] [DecidableLT α] (K : Kit α)
    (a b c bary : T3 α) (h1 : ¬ bary.1 > K.one - K.snapEps) (h2 : ¬ bary.2.1 > K.one - K.snapEps)
    (h3 : ¬ bary.2.2 > K.one - K.snapEps) :
    inverseBaryG K a b c bary = inverseCoreG K (safeAcosG K) a b c bary := by
  unfold inverseBaryG
  simp only [if_neg h1, if_neg h2, if_neg h3]

/-! ## tie to the `Float` model -/

/-- what the model uses for each field: the libm functions of `Float`, the literals, the generated constants -/
def floatKit : Kit Float where
  sqrt := Float.sqrt
  sin := Float.sin
  acos := Float.acos
  asin := Float.asin
  atan2 := Float.atan2
  abs := Float.abs
  isZero := fun x => (x == 0.0) = true
  isZeroDec := fun x => instDecidableEqBool (x == 0.0) true
  half := 0.5
  one := 1.0
  two := 2.0
  three := 3.0
  vecdiffSwitch := fc Gen.VECDIFF_SWITCH
  slerpSwitch := fc Gen.SLERP_SWITCH
  triAreaSwitch := fc Gen.TRI_AREA_SWITCH
  safeAcosSwitch := fc Gen.SAFE_ACOS_SWITCH
  snapEps := fc Gen.POLY_SNAP_EPS

/-- the model's `V3` as a triple -/
def toT (v : V3) : T3 Float := (v.x, v.y, v.z)
/-- and back -/
def ofT (t : T3 Float) : V3 := ⟨t.1, t.2.1, t.2.2⟩

theorem ofT_toT (v : V3) : ofT (toT v) = v := rfl
theorem toT_ofT (t : T3 Float) : toT (ofT t) = t := rfl

/-! ### `vector.rs`: by `rfl` except `normalize` (an `if` between two vectors) -/

theorem v3dot_tie (a b : V3) : v3dot a b = dotG (toT a) (toT b) := rfl
theorem v3cross_tie (a b : V3) : toT (v3cross a b) = crossG (toT a) (toT b) := rfl
theorem v3length_tie (v : V3) : v3length v = lengthG floatKit (toT v) := rfl
theorem v3lerp_tie (a b : V3) (t : Float) : toT (v3lerp a b t) = lerpG (toT a) (toT b) t := rfl
theorem v3sub_tie (a b : V3) : toT (v3sub a b) = subG (toT a) (toT b) := rfl
theorem v3add_tie (a b : V3) : toT (v3add a b) = addG (toT a) (toT b) := rfl
theorem v3scale_tie (v : V3) (s : Float) : toT (v3scale v s) = vscaleG (toT v) s := rfl
theorem fclamp1_tie (x : Float) : fclamp1 x = clamp1G (1.0 : Float) x := rfl

theorem v3normalize_tie (v : V3) : toT (v3normalize v) = normalizeG floatKit (toT v) := by
  unfold v3normalize normalizeG
  exact apply_ite toT _ _ _

theorem quadrupleProduct_tie (a b c d : V3) :
    toT (quadrupleProduct a b c d) = quadrupleProductG (toT a) (toT b) (toT c) (toT d) := rfl

theorem tripleProduct_tie (a b c : V3) : v3dot a (v3cross b c) = tripleG (toT a) (toT b) (toT c) := rfl

theorem v3angle_tie (a b : V3) : v3angle a b = angleG floatKit (toT a) (toT b) := rfl

theorem vectorDifference_tie (a b : V3) : vectorDifference a b = vectorDifferenceG floatKit (toT a) (toT b) := by
  unfold vectorDifference vectorDifferenceG
  simp only [v3length_tie, v3cross_tie, v3normalize_tie, v3lerp_tie, v3sub_tie]
  rfl

theorem slerp_tie (a b : V3) (t : Float) : toT (slerp a b t) = slerpG floatKit (toT a) (toT b) t := by
  unfold slerp slerpG
  simp only [apply_ite toT, v3lerp_tie, v3add_tie, v3scale_tie]
  rfl

/-! ### `get_triangle_area` -/

theorem midTriple_tie (v1 v2 v3 : V3) :
    v3dot (v3normalize (v3lerp v2 v3 0.5)) (v3cross (v3normalize (v3lerp v3 v1 0.5)) (v3normalize (v3lerp v1 v2 0.5)))
      = midTripleG floatKit (toT v1) (toT v2) (toT v3) := by
  unfold midTripleG
  simp only [v3dot_tie, v3cross_tie, v3normalize_tie, v3lerp_tie]
  rfl

theorem sphTriangleArea_tie (v1 v2 v3 : V3) :
    sphTriangleArea v1 v2 v3 = triAreaG floatKit (toT v1) (toT v2) (toT v3) := by
  unfold sphTriangleArea triAreaG
  simp only [midTriple_tie, fclamp1_tie]
  rfl

/-! ### `polyhedral.rs` -/

theorem safeAcos_tie (x : Float) : safeAcos x = safeAcosG floatKit x := rfl

/-- the forward's intersection point `p` -/
theorem forwardPoint_tie (v : V3) (st : SphTriangle) :
    toT (v3normalize (quadrupleProduct st.a (v3normalize (v3sub v st.a)) st.b st.c))
      = forwardPointG floatKit (toT st.a) (toT st.b) (toT st.c) (toT v) := by
  unfold forwardPointG
  simp only [v3normalize_tie, quadrupleProduct_tie, v3sub_tie]

/-- **tie**: `polyhedralForward` is `barycentricToFace` (twin: `G.barycentricToFaceG`, `G.barycentricToFace_tie`)
applied to the generic twin of the barycentric computation, at `Float` -/
theorem polyhedralForward_tie (v : V3) (st : SphTriangle) (ft : FaceTriangle) :
    polyhedralForward v st ft =
      barycentricToFace (forwardBaryG floatKit (toT st.a) (toT st.b) (toT st.c) (toT v)) ft := by
  unfold polyhedralForward forwardBaryG
  simp only [vectorDifference_tie, sphTriangleArea_tie, v3normalize_tie, quadrupleProduct_tie, v3sub_tie]
  rfl

/-- **tie**: `polyhedralInverse` is the generic twin, at `Float`, applied to the value of `faceToBarycentric`
(twin: `G.faceToBarycentricG`, `G.faceToBarycentric_tie`) -/
theorem polyhedralInverse_tie (fp : V2) (ft : FaceTriangle) (st : SphTriangle) :
    toT (polyhedralInverse fp ft st) =
      inverseBaryG floatKit (toT st.a) (toT st.b) (toT st.c) (faceToBarycentric fp ft) := by
  unfold polyhedralInverse inverseBaryG inverseCoreG
  rcases faceToBarycentric fp ft with ⟨bu, bv, bw⟩
  simp only [apply_ite toT, slerp_tie, vectorDifference_tie, sphTriangleArea_tie, v3cross_tie, v3dot_tie,
    v3length_tie, safeAcos_tie]
  rfl

end A5.GP
