import A5.Model.Memo
import A5.Model.Geo
/-! The memo state machine of `A5.Memo` instantiated with the `Float` value functions of `Geo.lean`:
this is the executable that predicts, for a history of `DodecahedronProjection::forward/inverse`
calls, every result and the fill bitmap of the 30 + 240 memo slots, which the C13 check compares
with what the real library reports through the `verif_memo_fill` hook. -/
namespace A5

inductive DCall where
  | fwd (theta phi : Float) (origin : Nat)
  | inv (x y : Float) (origin : Nat)
  deriving Inhabited

inductive DRes where
  | face (v : V2)
  | sph (theta phi : Float)
  deriving Inhabited

/-- the polar point whose azimuth picks the face triangle and whose radius decides reflection -/
def DCall.polar : DCall → Float × Float
  | .fwd theta phi o =>
    let org := originAt o
    let out := transformQuat (toCartesian theta phi) org.invQuat
    let (pt, pp) := toSpherical out
    let (rho, gamma) := gnomonicForward pt pp
    (rho, gamma - org.angle)
  | .inv x y _ => toPolar ⟨x, y⟩

def DCall.origin : DCall → Nat
  | .fwd _ _ o => o
  | .inv _ _ o => o

def memoSphFrom (ft : FaceTriangle) (k : Memo.SKey) : Outcome SphTriangle × Nat :=
  let o := originAt k.origin
  let vert (f : V2) : Outcome V3 :=
    let (rho, gamma) := toPolar f
    let (t, p) := gnomonicInverse rho (gamma + o.angle)
    crsGetVertex (transformQuat (toCartesian t p) o.quat)
  match vert ft.a with
  | .ok va =>
    match vert ft.b with
    | .ok vb =>
      match vert ft.c with
      | .ok vc => (.ok ⟨va, vb, vc⟩, 3)
      | .err e => (.err e, 3)
      | .panic p => (.panic p, 3)
    | .err e => (.err e, 2)
    | .panic p => (.panic p, 2)
  | .err e => (.err e, 1)
  | .panic p => (.panic p, 1)

def memoParams : Memo.Params FaceTriangle SphTriangle DCall DRes where
  numOrigins := origins.length
  faceVal := fun k => if k.reflected then reflectedFaceTriangle k.idx k.squashed else baseFaceTriangle k.idx
  sphFrom := memoSphFrom
  classify := fun a =>
    let (rho, gamma) := a.polar
    ⟨a.origin, faceTriangleIndex gamma, shouldReflect rho gamma⟩
  finish := fun a ft st =>
    match a with
    | .fwd theta phi _ => .face (polyhedralForward (toCartesian theta phi) st ft)
    | .inv x y _ => let (t, p) := toSpherical (polyhedralInverse ⟨x, y⟩ ft st); .sph t p

/-- results of a history run from a fresh state, and the fill bitmap afterwards -/
def memoHistory (calls : List DCall) : List (Outcome DRes) × (List Bool × List Bool × Nat) :=
  (Memo.runResults memoParams Memo.init calls, Memo.fillBitmap (Memo.run memoParams Memo.init calls))

/-- `SphTotal` for the concrete float parameters, by evaluation: every in-range key computes. -/
def memoSphTotalCheck : Bool :=
  (List.range origins.length).all fun o => (List.range 10).all fun i => [false, true].all fun r =>
    let k : Memo.SKey := ⟨o, i, r⟩
    let ft := memoParams.faceVal ⟨i, r, true⟩
    match memoParams.sphFrom ft k with
    | (.ok _, n) => n ≤ 3
    | _ => false

end A5
