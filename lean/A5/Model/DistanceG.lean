import A5.Model.Geo
/-! # Generic twins of `PentagonShape::contains_point` and `PentagonShape::distance_outside`

The point lookup (`lonlat_to_cell`) tests candidate cells with `contains_point` and, when no tried cell contains the
point, falls back to the tried cell with the smallest `distance_outside`.  Both functions walk the edges `v1 → v2` of the
polygon (in the vertex order the winding assertion `is_winding_correct` accepts, which the Rust code calls
counter-clockwise; the inner side of an edge is `cross ≥ 0`) and look at the same number

  `cross = (v1.x - v2.x) * (p.y - v1.y) - (v1.y - v2.y) * (p.x - v1.x)`:

* `contains_point`: `1.0` when no `cross` is negative, otherwise the minimum of `cross / |p - v1|` over the violated edges;
* `distance_outside`: `0.0` when no `cross` is negative, otherwise the maximum of `-cross / |v1 - v2|` over them.

This file states the two loops of the `Float` model (`polyContains`, `polyDistanceOutside` in `A5/Model/Geo.lean`) over an
arbitrary scalar type: `+ - * / neg <` are instance arguments, the remaining operations (`0`, `1`, `sqrt`, `f64::max`,
`f64::min`) are passed explicitly in a small record `Ops α` (`floatOps` lists what the model uses).  The twins are left
folds over the list of edges (`edgesG`); `crossesG` is the list of the `cross` values in loop order.

* `polyDistanceOutside_tie`, `polyContains_tie`: the model functions are the twins at `Float` (induction on the loop
  counter, the arithmetic by `rfl`; nothing about float arithmetic is used),
* `polyContains_eq_one_of_no_violation`, `polyDistanceOutside_eq_zero_of_no_violation`: when none of the model's own
  `cross` values tests `< 0.0`, the results are exactly `1.0` / `0.0` (no `sqrt`, `/`, `max`, `min` is ever evaluated).

`A5/Lemmas/DistanceOutside.lean` instantiates the twins at `ℝ` and proves what they mean.

Core only (no Mathlib): this file is part of the model layer. -/
namespace A5.DG
variable {α : Type}

/-- the operations of the two loops besides `+ - * / neg <`: the literals `0.0` and `1.0`, `f64::sqrt`, `f64::max`,
`f64::min` -/
structure Ops (α : Type) where
  zero : α
  one : α
  sqrt : α → α
  max : α → α → α
  min : α → α → α

/-- a directed edge `(v1, v2)` -/
abbrev Edge (α : Type) := (α × α) × (α × α)

/-- edge number `i` of the closed polygon: `(v_i, v_{(i+1) % n})` (`zero` pads out-of-range indices like the model's
`getD … default`; never used for `i < n`) -/
def edgeG (zero : α) (vs : List (α × α)) (i : Nat) : Edge α :=
  (vs.getD i (zero, zero), vs.getD ((i + 1) % vs.length) (zero, zero))

/-- the edges in loop order, `i = 0 … n-1` -/
def edgesG (zero : α) (vs : List (α × α)) : List (Edge α) := (List.range vs.length).map (edgeG zero vs)

/-- the number both loops compute for the edge `v1 → v2` and the point `p`:
`dx * py - dy * px` with `dx = v1.x - v2.x`, `dy = v1.y - v2.y`, `px = p.x - v1.x`, `py = p.y - v1.y` -/
def crossG [Sub α] [Mul α] (v1 v2 p : α × α) : α :=
  (v1.1 - v2.1) * (p.2 - v1.2) - (v1.2 - v2.2) * (p.1 - v1.1)

/-- the `cross` values, edge by edge, cyclic, in loop order -/
def crossesG [Sub α] [Mul α] (zero : α) (vs : List (α × α)) (p : α × α) : List α :=
  (edgesG zero vs).map fun e => crossG e.1 e.2 p

/-- `|v1 - v2|` as `distance_outside` computes it -/
def edgeLenG [Add α] [Sub α] [Mul α] (K : Ops α) (e : Edge α) : α :=
  K.sqrt ((e.1.1 - e.2.1) * (e.1.1 - e.2.1) + (e.1.2 - e.2.2) * (e.1.2 - e.2.2))

/-- `|p - v1|` as `contains_point` computes it -/
def pointLenG [Add α] [Sub α] [Mul α] (K : Ops α) (p : α × α) (e : Edge α) : α :=
  K.sqrt ((p.1 - e.1.1) * (p.1 - e.1.1) + (p.2 - e.1.2) * (p.2 - e.1.2))

/-- one iteration of the loop of `distance_outside` -/
def distStepG [Add α] [Sub α] [Mul α] [Div α] [Neg α] [LT α] [DecidableLT α] (K : Ops α) (p : α × α)
    (dMax : α) (e : Edge α) : α :=
  if crossG e.1 e.2 p < K.zero then K.max dMax (-crossG e.1 e.2 p / edgeLenG K e) else dMax

/-- one iteration of the loop of `contains_point` -/
def containsStepG [Add α] [Sub α] [Mul α] [Div α] [LT α] [DecidableLT α] (K : Ops α) (p : α × α)
    (dMax : α) (e : Edge α) : α :=
  if crossG e.1 e.2 p < K.zero then K.min dMax (crossG e.1 e.2 p / pointLenG K p e) else dMax

/-- generic twin of `polyDistanceOutside` (`PentagonShape::distance_outside`) -/
def distanceOutsideG [Add α] [Sub α] [Mul α] [Div α] [Neg α] [LT α] [DecidableLT α] (K : Ops α)
    (vs : List (α × α)) (p : α × α) : α :=
  (edgesG K.zero vs).foldl (distStepG K p) K.zero

/-- generic twin of the loop of `polyContains` (`PentagonShape::contains_point` after its winding assertion) -/
def containsG [Add α] [Sub α] [Mul α] [Div α] [LT α] [DecidableLT α] (K : Ops α)
    (vs : List (α × α)) (p : α × α) : α :=
  (edgesG K.zero vs).foldl (containsStepG K p) K.one

/-- some edge has `cross < 0` (the branch both loops test), as a `Bool` -/
def violatedG [Sub α] [Mul α] [LT α] [DecidableLT α] (zero : α) (vs : List (α × α)) (p : α × α) : Bool :=
  (crossesG zero vs p).any fun c => decide (c < zero)

/-! ### structure lemmas (any scalar type) -/

theorem edgesG_length (zero : α) (vs : List (α × α)) : (edgesG zero vs).length = vs.length := by
  unfold edgesG
  rewrite [List.length_map, List.length_range]
  rfl

theorem crossesG_length [Sub α] [Mul α] (zero : α) (vs : List (α × α)) (p : α × α) :
    (crossesG zero vs p).length = vs.length := by
  unfold crossesG
  rewrite [List.length_map]
  exact edgesG_length zero vs

/-- index form of "all cross values satisfy `P`" -/
theorem forall_crossesG_iff [Sub α] [Mul α] (zero : α) (vs : List (α × α)) (p : α × α) (P : α → Prop) :
    (∀ c ∈ crossesG zero vs p, P c) ↔
      ∀ i, i < vs.length → P (crossG (vs.getD i (zero, zero)) (vs.getD ((i + 1) % vs.length) (zero, zero)) p) := by
  unfold crossesG edgesG edgeG
  simp only [List.mem_map, List.mem_range]
  constructor
  · intro h i hi; exact h _ ⟨_, ⟨i, hi, rfl⟩, rfl⟩
  · rintro h c ⟨e, ⟨i, hi, rfl⟩, rfl⟩; exact h i hi

theorem violatedG_eq_false_iff [Sub α] [Mul α] [LT α] [DecidableLT α] (zero : α) (vs : List (α × α)) (p : α × α) :
    violatedG zero vs p = false ↔ ∀ c ∈ crossesG zero vs p, ¬ c < zero := by
  unfold violatedG
  simp only [List.any_eq_false, decide_eq_true_eq]

/-- a fold whose step leaves the accumulator alone on every element of the list returns the initial value -/
theorem foldl_fixed {β γ : Type} (f : β → γ → β) (l : List γ) (b : β) (h : ∀ e ∈ l, ∀ b, f b e = b) :
    l.foldl f b = b := by
  induction l generalizing b with
  | nil => rfl
  | cons e l ih =>
    rewrite [List.foldl_cons, h e List.mem_cons_self b]
    exact ih b fun e' he' => h e' (List.mem_cons_of_mem _ he')

/-- no violated edge: `distance_outside` returns its initial value `zero` -/
theorem distanceOutsideG_of_no_violation [Add α] [Sub α] [Mul α] [Div α] [Neg α] [LT α] [DecidableLT α] (K : Ops α)
    (vs : List (α × α)) (p : α × α) (h : ∀ c ∈ crossesG K.zero vs p, ¬ c < K.zero) :
    distanceOutsideG K vs p = K.zero := by
  unfold distanceOutsideG
  refine foldl_fixed _ _ _ ?_
  intro e he b
  unfold distStepG
  exact if_neg (h _ (List.mem_map.2 ⟨e, he, rfl⟩))

/-- no violated edge: the loop of `contains_point` returns its initial value `one` -/
theorem containsG_of_no_violation [Add α] [Sub α] [Mul α] [Div α] [LT α] [DecidableLT α] (K : Ops α)
    (vs : List (α × α)) (p : α × α) (h : ∀ c ∈ crossesG K.zero vs p, ¬ c < K.zero) :
    containsG K vs p = K.one := by
  unfold containsG
  refine foldl_fixed _ _ _ ?_
  intro e he b
  unfold containsStepG
  exact if_neg (h _ (List.mem_map.2 ⟨e, he, rfl⟩))

/-! ### tie to the `Float` model -/

/-- what the model uses for each field -/
def floatOps : Ops Float where
  zero := 0.0
  one := 1.0
  sqrt := Float.sqrt
  max := fmax
  min := fmin

/-- the model's `V2` as a pair (the same function as `A5.PG.toPair`) -/
def toPair (v : V2) : Float × Float := (v.x, v.y)

theorem getD_map_toPair (vs : Poly) (j : Nat) :
    (vs.map toPair).getD j ((0.0 : Float), (0.0 : Float)) = toPair (vs.getD j default) := by
  simp only [List.getD_eq_getElem?_getD, List.getElem?_map]
  cases vs[j]? <;> rfl

/-- the edges the generic twin walks are the pairs `(v1, v2)` the model reads -/
theorem edgeG_float (vs : Poly) (i : Nat) :
    edgeG (0.0 : Float) (vs.map toPair) i =
      (toPair (vs.getD i default), toPair (vs.getD ((i + 1) % vs.length) default)) := by
  unfold edgeG
  rewrite [getD_map_toPair, getD_map_toPair, List.length_map]
  rfl

/-- the model's loop from counter `i` for `m` more iterations is the fold over the edges `i … i+m-1` -/
theorem polyDistanceOutside_go_eq (vs : Poly) (p : V2) (m i : Nat) (d : Float) :
    polyDistanceOutside.go vs p vs.length m i d =
      ((List.range' i m).map (edgeG (0.0 : Float) (vs.map toPair))).foldl (distStepG floatOps (toPair p)) d := by
  induction m generalizing i d with
  | zero => rfl
  | succ m ih =>
    unfold polyDistanceOutside.go
    rewrite [List.range'_succ, List.map_cons, List.foldl_cons, edgeG_float]
    simp only []
    rewrite [ih, ih]
    exact (apply_ite (fun x => List.foldl (distStepG floatOps (toPair p)) x _) _ _ _).symm

theorem polyContains_go_eq (vs : Poly) (p : V2) (m i : Nat) (d : Float) :
    polyContains.go vs p vs.length m i d =
      ((List.range' i m).map (edgeG (0.0 : Float) (vs.map toPair))).foldl (containsStepG floatOps (toPair p)) d := by
  induction m generalizing i d with
  | zero => rfl
  | succ m ih =>
    unfold polyContains.go
    rewrite [List.range'_succ, List.map_cons, List.foldl_cons, edgeG_float]
    simp only []
    rewrite [ih, ih]
    exact (apply_ite (fun x => List.foldl (containsStepG floatOps (toPair p)) x _) _ _ _).symm

theorem edgesG_float (vs : Poly) :
    edgesG (0.0 : Float) (vs.map toPair) = (List.range' 0 vs.length).map (edgeG (0.0 : Float) (vs.map toPair)) := by
  unfold edgesG
  rewrite [List.length_map, List.range_eq_range']
  rfl

/-- **tie**: the `Float` model's `distance_outside` is the generic twin evaluated at `Float` with the model's operations -/
theorem polyDistanceOutside_tie (vs : Poly) (p : V2) :
    polyDistanceOutside vs p = distanceOutsideG floatOps (vs.map toPair) (toPair p) := by
  unfold polyDistanceOutside distanceOutsideG
  simp only []
  rewrite [polyDistanceOutside_go_eq]
  exact congrArg (fun l => List.foldl _ _ l) (edgesG_float vs).symm

/-- **tie**: the `Float` model's `contains_point` is the winding assertion followed by the generic twin evaluated at
`Float` with the model's operations -/
theorem polyContains_tie (vs : Poly) (p : V2) :
    polyContains vs p =
      if !windingCorrect vs then .panic .notCCW else .ok (containsG floatOps (vs.map toPair) (toPair p)) := by
  unfold polyContains containsG
  simp only []
  rewrite [polyContains_go_eq]
  refine congrArg _ ?_
  refine congrArg _ ?_
  exact congrArg (fun l => List.foldl _ _ l) (edgesG_float vs).symm

/-- the list of `cross` values of the model (`Float` arithmetic, in loop order) -/
def polyCrosses (vs : Poly) (p : V2) : List Float := crossesG (0.0 : Float) (vs.map toPair) (toPair p)

/-- the model's own `cross` values, written out as in `polyContains` / `polyDistanceOutside` -/
theorem polyCrosses_eq (vs : Poly) (p : V2) :
    polyCrosses vs p = (List.range vs.length).map fun i =>
      let v1 := vs.getD i default
      let v2 := vs.getD ((i + 1) % vs.length) default
      let dx := v1.x - v2.x
      let dy := v1.y - v2.y
      let px := p.x - v1.x
      let py := p.y - v1.y
      dx * py - dy * px := by
  unfold polyCrosses crossesG edgesG
  rewrite [List.map_map, List.length_map]
  refine List.map_congr_left ?_
  intro i _
  show crossG (edgeG (0.0 : Float) (vs.map toPair) i).1 (edgeG (0.0 : Float) (vs.map toPair) i).2 (toPair p) = _
  rewrite [edgeG_float]
  rfl

/-- the `Bool` test "some edge has `cross < 0.0`" on the model's own cross values -/
def polyViolated (vs : Poly) (p : V2) : Bool := (polyCrosses vs p).any fun c => decide (c < 0.0)

theorem polyViolated_eq (vs : Poly) (p : V2) : polyViolated vs p = violatedG (0.0 : Float) (vs.map toPair) (toPair p) := rfl

/-- **inside value of `distance_outside`**: when no edge has `cross < 0.0` the `Float` model returns exactly `0.0`
(purely structural: `sqrt`, `/`, `f64::max` are never reached) -/
theorem polyDistanceOutside_eq_zero_of_no_violation (vs : Poly) (p : V2) (h : polyViolated vs p = false) :
    polyDistanceOutside vs p = 0.0 := by
  rewrite [polyDistanceOutside_tie]
  exact distanceOutsideG_of_no_violation floatOps _ _ ((violatedG_eq_false_iff _ _ _).1 h)

/-- **inside value of `contains_point`**: when the winding test passes and no edge has `cross < 0.0` the `Float` model
returns exactly `1.0` (purely structural: `sqrt`, `/`, `f64::min` are never reached) -/
theorem polyContains_eq_one_of_no_violation (vs : Poly) (p : V2) (hw : windingCorrect vs = true)
    (h : polyViolated vs p = false) : polyContains vs p = .ok 1.0 := by
  rewrite [polyContains_tie, hw]
  refine congrArg Outcome.ok ?_
  exact containsG_of_no_violation floatOps _ _ ((violatedG_eq_false_iff _ _ _).1 h)

/-- the two functions agree about "inside" on the `Float` model, in the direction that needs no float arithmetic:
whenever the lookup's fallback would see a nonzero distance, some edge test `cross < 0.0` fired -/
theorem polyViolated_of_distance_ne_zero (vs : Poly) (p : V2) (h : polyDistanceOutside vs p ≠ 0.0) :
    polyViolated vs p = true := by
  cases hv : polyViolated vs p
  · exact absurd (polyDistanceOutside_eq_zero_of_no_violation vs p hv) h
  · rfl

/-! ### non-vacuity: the unit square (kernel-evaluated `Float` arithmetic; `Float` has no decidable equality, so values
are compared through `toBits`)

Orientation: the model's winding test `windingCorrect` (`is_winding_correct`: trapezoid sum `Σ (x_j - x_i)(y_j + y_i) ≥ 0`)
accepts the square in the order `(0,0), (0,1), (1,1), (1,0)`; with that order the inner side of every edge is `cross ≥ 0`. -/

/-- the unit square in the vertex order the library's winding test accepts -/
def unitSquare : Poly := [⟨0.0, 0.0⟩, ⟨0.0, 1.0⟩, ⟨1.0, 1.0⟩, ⟨1.0, 0.0⟩]

example : windingCorrect unitSquare = true := by decide +kernel
/-- the centre: hypotheses of the two "no violation" theorems hold, so the results are `1.0` and `0.0` -/
example : polyViolated unitSquare ⟨0.5, 0.5⟩ = false := by decide +kernel
example : polyContains unitSquare ⟨0.5, 0.5⟩ = .ok 1.0 :=
  polyContains_eq_one_of_no_violation _ _ (by decide +kernel) (by decide +kernel)
example : polyDistanceOutside unitSquare ⟨0.5, 0.5⟩ = 0.0 :=
  polyDistanceOutside_eq_zero_of_no_violation _ _ (by decide +kernel)
/-- a boundary point (a vertex) counts as inside: `cross = 0` is not a violation -/
example : polyViolated unitSquare ⟨1.0, 1.0⟩ = false := by decide +kernel
/-- a point below the bottom edge at distance `0.5`: the edge test fires and the `Float` result is exactly `0.5` -/
example : polyViolated unitSquare ⟨0.5, -0.5⟩ = true := by decide +kernel
example : (polyDistanceOutside unitSquare ⟨0.5, -0.5⟩).toBits = (0.5 : Float).toBits := by decide +kernel
/-- beyond a corner the result is the larger of the two line distances (`1.0`), below the true distance `√1.25` -/
example : (polyDistanceOutside unitSquare ⟨2.0, -0.5⟩).toBits = (1.0 : Float).toBits := by decide +kernel

/-- the loop runs once per vertex -/
example (vs : Poly) (p : V2) : (polyCrosses vs p).length = vs.length := by
  unfold polyCrosses
  rewrite [crossesG_length, List.length_map]
  rfl

/-- the empty polygon has no edge, hence no violation, hence distance `0.0` -/
example (p : V2) : polyDistanceOutside [] p = 0.0 := polyDistanceOutside_eq_zero_of_no_violation [] p rfl

end A5.DG
