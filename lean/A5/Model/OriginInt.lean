import A5.Gen.Tables
/-! Float-free mirrors of the parts of `origin.rs` that property C18 talks about.

`A5/Model/Geo.lean` models `quintant_to_segment`, `segment_to_quintant`, `haversine`,
`find_nearest_origin` and `transform_quat` on records / scalars of type `Float`.  The definitions
below have literally the same bodies but take their inputs as plain naturals / over an arbitrary
scalar type, so that the kernel (tables), `ℚ` (frame geometry) and `ℝ` (trigonometric identity) can
evaluate / reason about them.  `A5/Lemmas/OriginLemmas.lean` proves that the `Float` model *is* the
instance of each mirror (all by `rfl`). -/
namespace A5

/-! ### quintant <-> segment relabelling on integers -/

/-- `is_layout_clockwise` -/
def isLayoutClockwiseI (layout : List Nat) : Bool := Gen.CLOCKWISE_LAYOUTS.contains layout

/-- `quintant_to_segment(quintant, origin)` with `origin.first_quintant = first`,
`origin.orientation = layout` -/
def quintantToSegmentI (quintant first : Nat) (layout : List Nat) : Nat × Nat :=
  let step : Int := if isLayoutClockwiseI layout then -1 else 1
  let delta := (quintant + 5 - first) % 5
  let faceRel := ((step * (delta : Int)) + 5).tmod 5
  let orientation := layout.getD faceRel.toNat 0
  ((first + faceRel.toNat) % 5, orientation)

/-- `segment_to_quintant(segment, origin)` with `origin.first_quintant = first`,
`origin.orientation = layout` -/
def segmentToQuintantI (segment first : Nat) (layout : List Nat) : Nat × Nat :=
  let step : Int := if isLayoutClockwiseI layout then -1 else 1
  let faceRel := (segment + 5 - first) % 5
  let orientation := layout.getD faceRel 0
  let stepOffset := (step * (faceRel : Int)).tmod 5
  let quintant :=
    if stepOffset ≥ 0 then (first + stepOffset.toNat) % 5
    else (first + 5 - (-stepOffset).toNat) % 5
  (quintant, orientation)

/-- index into the *source-order* tables of the face with (Hilbert-order) id `o` -/
def faceSlot (o : Nat) : Nat := Gen.ORIGIN_ORDER.getD o 0

/-- `origin.first_quintant` of face `o`, read off the generated tables -/
def faceFirst (o : Nat) : Nat := Gen.QUINTANT_FIRST.getD (faceSlot o) 0

/-- `origin.orientation` (the five orientation codes) of face `o`, read off the generated tables -/
def faceLayout (o : Nat) : List Nat := Gen.QUINTANT_ORIENTATIONS_ARRAYS.getD (faceSlot o) []

/-- the quaternion index each of the 12 `add_origin` calls of `generate_origins` uses, in source
order: pole, then for `i < 5` the pair `i + 1`, `(i + RING2_QUAT_ADD) % RING2_QUAT_MOD + RING2_QUAT_BASE`,
then the south pole. -/
def rawQuatIndex : List Nat :=
  [0] ++ (List.range 5).flatMap (fun i =>
      [i + 1, (i + Gen.RING2_QUAT_ADD) % Gen.RING2_QUAT_MOD + Gen.RING2_QUAT_BASE])
    ++ [Gen.SOUTH_QUAT_INDEX]

/-- the row of `QUATERNIONS` used by face `o` -/
def faceQuatIndex (o : Nat) : Nat := rawQuatIndex.getD (faceSlot o) 0

/-! ### `haversine` over an arbitrary scalar -/

/-- `haversine(point, axis)`; `sin` and the literal `2.0` are parameters. -/
def haversineG {α : Type} [Add α] [Sub α] [Mul α] [Div α] (sin : α → α) (two : α)
    (theta phi theta2 phi2 : α) : α :=
  let dtheta := theta2 - theta
  let dphi := phi2 - phi
  let a1 := sin (dphi / two)
  let a2 := sin (dtheta / two)
  a1 * a1 + a2 * a2 * sin phi * sin phi2

/-! ### the loop of `find_nearest_origin` over an arbitrary key / value type -/

/-- `for x in xs { let d = f(x); if d < min { min = d; best = x } }` -/
def argminGo {α β : Type} [LT β] [DecidableLT β] (f : α → β) : List α → β → α → α
  | [], _, best => best
  | x :: xs, minD, best =>
    let d := f x
    if d < minD then argminGo f xs d x else argminGo f xs minD best

/-! ### `transform_quat` over an arbitrary scalar -/

/-- `vec3::transform_quat(v, q)` (rotate `v` by the quaternion `q = (x, y, z, w)`), same expression
tree as `A5.transformQuat`. -/
def transformQuatG {α : Type} [Add α] [Sub α] [Mul α] [Neg α] (v : α × α × α) (q : α × α × α × α) :
    α × α × α :=
  let (qx, qy, qz, qw) := q
  let vx := v.1; let vy := v.2.1; let vz := v.2.2
  let cx := -qx; let cy := -qy; let cz := -qz; let cw := qw
  let t1x := qw * vx + qy * vz - qz * vy
  let t1y := qw * vy + qz * vx - qx * vz
  let t1z := qw * vz + qx * vy - qy * vx
  let t1w := -qx * vx - qy * vy - qz * vz
  (t1w * cx + t1x * cw + t1y * cz - t1z * cy,
   t1w * cy + t1y * cw + t1z * cx - t1x * cz,
   t1w * cz + t1z * cw + t1x * cy - t1y * cx)

/-- `QUATERNIONS[i]` read through an arbitrary interpretation `r` of the float constants
(`fc` for the executable model, `FConst.toRat` for the exact values). -/
def quatAtG {α : Type} (r : FConst → α) (dflt : α × α × α × α) (i : Nat) : α × α × α × α :=
  match Gen.QUATERNIONS.getD i [] with
  | [a, b, c, d] => (r a, r b, r c, r d)
  | _ => dflt

/-! ### exact values of the float constants -/

-- `FConst.toRat` (the exact rational `num * 2^exp` a constant denotes) lives in `A5/Model/FConst.lean`

/-- IEEE-754 binary64 decoding of a finite bit pattern as an exact rational:
`(-1)^s * m * 2^(e-1075)` with the hidden bit for normal numbers. -/
def ieeeToRat (bits : Nat) : Rat :=
  let s : Nat := bits / 2 ^ 63
  let e : Nat := (bits / 2 ^ 52) % 2 ^ 11
  let f : Nat := bits % 2 ^ 52
  let m : Int := if e = 0 then (f : Int) else ((2 ^ 52 + f : Nat) : Int)
  let ex : Int := if e = 0 then -1074 else (e : Int) - 1075
  (if s = 1 then -1 else 1) * (m : Rat) * (2 : Rat) ^ ex

/-- the two readings of a constant agree (and it is finite) -/
def FConst.Consistent (c : FConst) : Prop :=
  (c.bits.toNat / 2 ^ 52) % 2 ^ 11 ≠ 2047 ∧ ieeeToRat c.bits.toNat = c.toRat

instance (c : FConst) : Decidable c.Consistent := by unfold FConst.Consistent; exact inferInstance

end A5
