import A5.Lemmas.AngularRoundTrip
/-! # C15 — the polyhedral round trip `inverse ∘ forward = id`, over `ℝ` (part 2 of 2)

Combines the angular half (`A5/Lemmas/AngularRoundTrip.lean`) with the radial half
(`A5/Lemmas/RadialRoundTrip.lean`).

* `forwardBaryR`, `inverseBaryR` : real twins of `polyhedralForward` / `polyhedralInverse` between the point on
  the sphere and the barycentric triple (the affine maps `barycentricToFace` / `faceToBarycentric` are not
  part of this file), with the exact formulas: `asin` branch of the area, `2 arcsin` in place of `safe_acos`,
  no vertex snapping (`b_coords.u > 1 - 1e-14` …);  `inverseBarySafeR` keeps the real twin of `safe_acos`;
* `forward_point` : the forward's `p = normalize (quadruple_product a z b c)`, `z = normalize (v - a)`, is the
  point `slerp b c q` when `v = slerp a (slerp b c q) s`, `s > 0`;
* `polyhedral_roundtrip_exact` : `inverseBaryR (forwardBaryR v) = v` for such `v`;
* `polyhedral_roundtrip_safeAcos` : with `safeAcosR` the result is a unit vector within `5e-16` of `v`.

Everything is exact real arithmetic; nothing is claimed about floating-point rounding. -/
namespace A5.AngularRoundTrip
open A5 Real Set A5.RadialRoundTrip

/-- real twin of `polyhedralForward`, up to the barycentric triple (before `barycentricToFace`) -/
noncomputable def forwardBaryR (a b c v : R3) : ℝ × ℝ × ℝ :=
  let z := normalizeR (subR v a)
  let p := normalizeR (quadrupleProductR a z b c)
  let h := vectorDifferenceR a v / vectorDifferenceR a p
  let areaABC := triAreaR a b c
  let scaledArea := h / areaABC
  (1 - h, scaledArea * triAreaR a p c, scaledArea * triAreaR a b p)

/-- the point `p` of the forward map -/
noncomputable def forwardPointR (a b c v : R3) : R3 :=
  normalizeR (quadrupleProductR a (normalizeR (subR v a)) b c)

/-- real twin of the general branch of `polyhedralInverse` (after `faceToBarycentric`; no vertex snapping),
with `2 arcsin` in place of `safe_acos` -/
noncomputable def inverseBaryR (a b c : R3) (bary : ℝ × ℝ × ℝ) : R3 :=
  let bu := bary.1
  let bw := bary.2.2
  let areaABC := triAreaR a b c
  let h := 1 - bu
  let r := bw / h
  let alpha := r * areaABC
  let q := edgeParamR a b c alpha
  let p := slerpR b c q
  let k := vectorDifferenceR a p
  let t := (2 * Real.arcsin (h * k)) / (2 * Real.arcsin k)
  slerpR a p t

/-- the same with the real twin `safeAcosR` of the code's `safe_acos` -/
noncomputable def inverseBarySafeR (a b c : R3) (bary : ℝ × ℝ × ℝ) : R3 :=
  let bu := bary.1
  let bw := bary.2.2
  let areaABC := triAreaR a b c
  let h := 1 - bu
  let r := bw / h
  let alpha := r * areaABC
  let q := edgeParamR a b c alpha
  let p := slerpR b c q
  let k := vectorDifferenceR a p
  let t := safeAcosR (h * k) / safeAcosR k
  slerpR a p t

/-! ## the forward's intersection point -/

/-- `normalize (k p) = p` for a unit vector `p` and `k > 0` -/
theorem normalize_scale {p : R3} {k : ℝ} (hp : dotR p p = 1) (hk : 0 < k) : normalizeR (scaleR p k) = p := by
  have hd : dotR (scaleR p k) (scaleR p k) = k ^ 2 := by
    have : dotR (scaleR p k) (scaleR p k) = k ^ 2 * dotR p p := by simp only [dotR, scaleR]; ring
    rw [this, hp, mul_one]
  have hL : lengthR (scaleR p k) = k := by rw [lengthR_eq, hd, Real.sqrt_sq hk.le]
  unfold normalizeR
  simp only [hL, if_neg hk.ne']
  ext <;> simp only [scaleR] <;> field_simp

/-- the vector identity behind `quadruple_product`: for `v = wa a + wp p` with `p ⊥ n`,
`z (a·n) - a (z·n) = (wp (a·n) / L) p` where `z = (v - a) / L`. -/
theorem quadruple_core (a p n : R3) (wa wp L : ℝ) (hL : L ≠ 0) (hpn : dotR p n = 0) :
    let d := subR (addR (scaleR a wa) (scaleR p wp)) a
    let z : R3 := ⟨d.x / L, d.y / L, d.z / L⟩
    subR (scaleR z (dotR a n)) (scaleR a (dotR z n)) = scaleR p (wp * dotR a n / L) := by
  intro d z
  simp only [dotR] at hpn
  ext
  · simp only [z, d, subR, scaleR, addR, dotR]
    field_simp
    linear_combination (-(a.x * wp)) * hpn
  · simp only [z, d, subR, scaleR, addR, dotR]
    field_simp
    linear_combination (-(a.y * wp)) * hpn
  · simp only [z, d, subR, scaleR, addR, dotR]
    field_simp
    linear_combination (-(a.z * wp)) * hpn

/-- Eriksson's denominator of the triangle `a b p`, `p = slerp b c q`, is positive, hence `p ≠ -a` -/
theorem abp_D_pos {a b c : R3} {q : ℝ} (ha : dotR a a = 1) (hb : dotR b b = 1)
    (hc : dotR c c = 1) (hV : 0 < tripleR a b c) (hD : 0 < 1 + dotR a b + dotR b c + dotR c a)
    (hγ : slerpSwitch ≤ angleR b c) (hq0 : 0 ≤ q) (hq1 : q ≤ 1) :
    0 < 1 + dotR a b + dotR b (slerpR b c q) + dotR (slerpR b c q) a := by
  have hπ := angle_bc_lt_pi ha hb hc hV
  obtain ⟨h01, _, _⟩ := one_add_dots_pos ha hb hc hV.ne'
  obtain ⟨_, hcos, _, _⟩ := angleR_unit hb hc
  have hθ0 : 0 < angleR b c := lt_of_lt_of_le slerpSwitch_pos hγ
  have hS : 0 < Real.sin (angleR b c) := Real.sin_pos_of_pos_of_lt_pi hθ0 hπ
  obtain ⟨_, hDp, _⟩ := abp_facts (a := a) q hb hc hγ hπ
  have hφ0 : 0 ≤ q * angleR b c := by positivity
  have hφθ : q * angleR b c ≤ angleR b c := by
    have := mul_le_mul_of_nonneg_right hq1 hθ0.le; linarith
  have h := Dp_pos (c01 := dotR a b) (c20 := dotR c a) hθ0 hπ hφ0 hφθ h01 (by rw [hcos]; linarith)
  rw [hcos, ← hDp] at h
  exact (mul_pos_iff_of_pos_left hS).mp h

/-- the apex is never antipodal to a point of the opposite edge: `∠(a, slerp b c q) < π` -/
theorem angle_a_p_lt_pi {a b c : R3} {q : ℝ} (ha : dotR a a = 1) (hb : dotR b b = 1)
    (hc : dotR c c = 1) (hV : 0 < tripleR a b c) (hD : 0 < 1 + dotR a b + dotR b c + dotR c a)
    (hγ : slerpSwitch ≤ angleR b c) (hq0 : 0 ≤ q) (hq1 : q ≤ 1) :
    angleR a (slerpR b c q) < π := by
  have hπ := angle_bc_lt_pi ha hb hc hV
  obtain ⟨hu, _, _⟩ := slerpR_spec q hb hc hγ hπ
  obtain ⟨_, _, h3⟩ := one_add_dots_pos_of_D ha hb hu (abp_D_pos ha hb hc hV hD hγ hq0 hq1)
  rw [(angleR_unit ha hu).1, dotR_comm]
  exact Real.arccos_lt_pi.mpr (by linarith)

/-- **(D1) the forward's `p`.**  For `v = slerp a p s`, `p = slerp b c q` a point of the edge `b c`, `0 < s ≤ 1`,
the forward's `normalize (quadruple_product a (normalize (v - a)) b c)` is `p`. -/
theorem forward_point {a b c : R3} {q s : ℝ} (ha : dotR a a = 1) (hb : dotR b b = 1)
    (hc : dotR c c = 1) (hV : 0 < tripleR a b c) (hγ : slerpSwitch ≤ angleR b c)
    (hγ' : slerpSwitch ≤ angleR a (slerpR b c q)) (hπ' : angleR a (slerpR b c q) < π)
    (hs0 : 0 < s) (hs1 : s ≤ 1) :
    forwardPointR a b c (slerpR a (slerpR b c q) s) = slerpR b c q := by
  have hπ := angle_bc_lt_pi ha hb hc hV
  obtain ⟨hu, _, _⟩ := slerpR_spec q hb hc hγ hπ
  have hpn : dotR (slerpR b c q) (crossR b c) = 0 := by
    rw [slerpR_unfold q hγ]; exact (comb_facts a b c _ _).2.2
  set p := slerpR b c q
  have hγ0 : 0 < angleR a p := lt_of_lt_of_le slerpSwitch_pos hγ'
  have hSγ : 0 < Real.sin (angleR a p) := Real.sin_pos_of_pos_of_lt_pi hγ0 hπ'
  have hsγ0 : 0 < s * angleR a p := mul_pos hs0 hγ0
  have hsγ1 : s * angleR a p < π := by
    have := mul_le_mul_of_nonneg_right hs1 hγ0.le; linarith
  obtain ⟨hvu, hva, _⟩ := slerpR_spec s ha hu hγ' hπ'
  -- `|v - a| > 0`
  have hlen : 0 < lengthR (subR (slerpR a p s) a) := by
    rw [lengthR_eq, dotR_sub_self, hvu, ha, dotR_comm, hva]
    refine Real.sqrt_pos.mpr ?_
    have := Real.cos_lt_cos_of_nonneg_of_le_pi (le_refl 0) hsγ1.le hsγ0
    rw [Real.cos_zero] at this; linarith
  have hz : normalizeR (subR (slerpR a p s) a) =
      ⟨(subR (slerpR a p s) a).x / lengthR (subR (slerpR a p s) a),
        (subR (slerpR a p s) a).y / lengthR (subR (slerpR a p s) a),
        (subR (slerpR a p s) a).z / lengthR (subR (slerpR a p s) a)⟩ := by
    unfold normalizeR
    simp only [if_neg hlen.ne']
  unfold forwardPointR
  rw [hz]
  generalize lengthR (subR (slerpR a p s) a) = L at hlen
  rw [slerpR_unfold s hγ']
  have hq := quadruple_core a p (crossR b c) (Real.sin ((1 - s) * angleR a p) / Real.sin (angleR a p))
    (Real.sin (s * angleR a p) / Real.sin (angleR a p)) L hlen.ne' hpn
  simp only at hq
  unfold quadrupleProductR
  simp only
  rw [hq]
  refine normalize_scale hu ?_
  have hwp : 0 < Real.sin (s * angleR a p) / Real.sin (angleR a p) :=
    div_pos (Real.sin_pos_of_pos_of_lt_pi hsγ0 hsγ1) hSγ
  have hV' : 0 < dotR a (crossR b c) := hV
  positivity

/-! ## the round trip -/

/-- what the forward map stores for `v = slerp a p s`, `p = slerp b c q` -/
theorem forwardBaryR_eq {a b c : R3} {q s : ℝ} (ha : dotR a a = 1) (hb : dotR b b = 1)
    (hc : dotR c c = 1) (hV : 0 < tripleR a b c) (hγ : slerpSwitch ≤ angleR b c)
    (hγ' : slerpSwitch ≤ angleR a (slerpR b c q)) (hπ' : angleR a (slerpR b c q) < π)
    (hs0 : 0 < s) (hs1 : s ≤ 1) :
    forwardBaryR a b c (slerpR a (slerpR b c q) s) =
      (1 - vectorDifferenceR a (slerpR a (slerpR b c q) s) / vectorDifferenceR a (slerpR b c q),
       vectorDifferenceR a (slerpR a (slerpR b c q) s) / vectorDifferenceR a (slerpR b c q) / triAreaR a b c
         * triAreaR a (slerpR b c q) c,
       vectorDifferenceR a (slerpR a (slerpR b c q) s) / vectorDifferenceR a (slerpR b c q) / triAreaR a b c
         * triAreaR a b (slerpR b c q)) := by
  have h := forward_point ha hb hc hV hγ hγ' hπ' hs0 hs1
  unfold forwardPointR at h
  unfold forwardBaryR
  simp only
  rw [h]

/-- the radial coordinate `h` of the forward map is positive for `s > 0` -/
theorem forward_h_pos {a p : R3} {s : ℝ} (ha : dotR a a = 1) (hp : dotR p p = 1)
    (hγ : slerpSwitch ≤ angleR a p) (hπ : angleR a p < π) (hs0 : 0 < s) (hs1 : s ≤ 1) :
    0 < vectorDifferenceR a (slerpR a p s) / vectorDifferenceR a p := by
  have hpos : 0 < angleR a p := lt_of_lt_of_le slerpSwitch_pos hγ
  obtain ⟨hvu, _, _⟩ := slerpR_spec s ha hp hγ hπ
  have hav : angleR a (slerpR a p s) = s * angleR a p := slerpR_angle hs0.le hs1 ha hp hγ hπ
  have hav0 : 0 < s * angleR a p := mul_pos hs0 hpos
  have hav1 : s * angleR a p ≤ angleR a p := by
    have := mul_le_mul_of_nonneg_right hs1 hpos.le; linarith
  rw [vectorDifferenceR_eq ha hvu (by rw [hav]; linarith), hav, vectorDifferenceR_eq ha hp hπ]
  have hpi := Real.pi_pos
  exact div_pos (Real.sin_pos_of_pos_of_lt_pi (by linarith) (by linarith))
    (Real.sin_pos_of_pos_of_lt_pi (by linarith) (by linarith))

/-- the `alpha` recovered by the inverse is the area `a b p` stored by the forward -/
theorem alpha_recovered {h E A : ℝ} (hh : h ≠ 0) (hE : E ≠ 0) : h / E * A / (1 - (1 - h)) * E = A := by
  rw [sub_sub_cancel]; field_simp

/-- **(D) `inverse ∘ forward = id` on the open triangle and its far edge, exact real arithmetic.**
`a b c` unit, counter-clockwise (`V > 0`), area `< π`; the edge `b c` and the arc `a p` are not in the
small-angle branch of `slerp`.  Every `v = slerp a (slerp b c q) s` with `0 ≤ q ≤ 1`, `0 < s ≤ 1` is recovered:
the forward's `p` is `slerp b c q`, and the inverse (exact formulas) of the forward's barycentrics is `v`. -/
theorem polyhedral_roundtrip_exact {a b c : R3} {q s : ℝ} (ha : dotR a a = 1) (hb : dotR b b = 1)
    (hc : dotR c c = 1) (hV : 0 < tripleR a b c) (hD : 0 < 1 + dotR a b + dotR b c + dotR c a)
    (hγ : slerpSwitch ≤ angleR b c) (hγ' : slerpSwitch ≤ angleR a (slerpR b c q))
    (hq0 : 0 ≤ q) (hq1 : q ≤ 1) (hs0 : 0 < s) (hs1 : s ≤ 1) :
    let v := slerpR a (slerpR b c q) s
    forwardPointR a b c v = slerpR b c q ∧ inverseBaryR a b c (forwardBaryR a b c v) = v := by
  intro v
  have hπ := angle_bc_lt_pi ha hb hc hV
  have hπ' := angle_a_p_lt_pi ha hb hc hV hD hγ hq0 hq1
  obtain ⟨hu, _, _⟩ := slerpR_spec q hb hc hγ hπ
  refine ⟨forward_point ha hb hc hV hγ hγ' hπ' hs0 hs1, ?_⟩
  show inverseBaryR a b c (forwardBaryR a b c (slerpR a (slerpR b c q) s)) = slerpR a (slerpR b c q) s
  rw [forwardBaryR_eq ha hb hc hV hγ hγ' hπ' hs0 hs1]
  have hh := forward_h_pos ha hu hγ' hπ' hs0 hs1
  have hE := (triAreaR_mem ha hb hc hV hD).1
  have hB := (angular_inverse_formula ha hb hc hV hD hγ hq0 hq1).2
  have hR := (radial_roundtrip_vector hs0.le hs1 ha hu hγ' hπ').2
  unfold inverseBaryR
  simp only
  rw [alpha_recovered hh.ne' hE.ne', hB, sub_sub_cancel]
  exact hR

/-- **(D) with `safe_acos`.**  Same situation, the radial interpolation parameter computed with the real twin
of the code's `safe_acos`: the result is a unit vector within Euclidean distance `5e-16` of `v`. -/
theorem polyhedral_roundtrip_safeAcos {a b c : R3} {q s : ℝ} (ha : dotR a a = 1) (hb : dotR b b = 1)
    (hc : dotR c c = 1) (hV : 0 < tripleR a b c) (hD : 0 < 1 + dotR a b + dotR b c + dotR c a)
    (hγ : slerpSwitch ≤ angleR b c) (hγ' : slerpSwitch ≤ angleR a (slerpR b c q))
    (hq0 : 0 ≤ q) (hq1 : q ≤ 1) (hs0 : 0 < s) (hs1 : s ≤ 1) :
    let v := slerpR a (slerpR b c q) s
    let r := inverseBarySafeR a b c (forwardBaryR a b c v)
    dotR r r = 1 ∧ lengthR (subR r v) ≤ 5e-16 := by
  intro v r
  have hπ := angle_bc_lt_pi ha hb hc hV
  have hπ' := angle_a_p_lt_pi ha hb hc hV hD hγ hq0 hq1
  obtain ⟨hu, _, _⟩ := slerpR_spec q hb hc hγ hπ
  have hh := forward_h_pos ha hu hγ' hπ' hs0 hs1
  have hE := (triAreaR_mem ha hb hc hV hD).1
  have hB := (angular_inverse_formula ha hb hc hV hD hγ hq0 hq1).2
  have hR := radial_roundtrip_vector_safeAcos hs0.le hs1 ha hu hγ' hπ'
  have hr : r = slerpR a (slerpR b c q)
      (safeAcosR (vectorDifferenceR a (slerpR a (slerpR b c q) s) / vectorDifferenceR a (slerpR b c q)
        * vectorDifferenceR a (slerpR b c q)) / safeAcosR (vectorDifferenceR a (slerpR b c q))) := by
    show inverseBarySafeR a b c (forwardBaryR a b c (slerpR a (slerpR b c q) s)) = _
    rw [forwardBaryR_eq ha hb hc hV hγ hγ' hπ' hs0 hs1]
    unfold inverseBarySafeR
    simp only
    rw [alpha_recovered hh.ne' hE.ne', hB, sub_sub_cancel]
  rw [hr]
  exact hR

/-! ## non-vacuity: the octant triangle, `q = 1/3`, `s = 1/2` -/

/-- on the octant triangle `a = e₃` is orthogonal to the whole edge `b c`: `∠(a, p) = π/2` -/
theorem octant_apex_angle (q : ℝ) :
    angleR ⟨0, 0, 1⟩ (slerpR ⟨1, 0, 0⟩ ⟨0, 1, 0⟩ q) = π / 2 := by
  obtain ⟨ha, hb, hc, hV, _, hγ⟩ := octant_hyps
  have hπ := angle_bc_lt_pi ha hb hc hV
  obtain ⟨hu, _, _⟩ := slerpR_spec q hb hc hγ hπ
  rw [(angleR_unit ha hu).1, slerpR_unfold q hγ]
  have : dotR ⟨0, 0, 1⟩ (addR (scaleR ⟨1, 0, 0⟩
      (Real.sin ((1 - q) * angleR ⟨1, 0, 0⟩ ⟨0, 1, 0⟩) / Real.sin (angleR ⟨1, 0, 0⟩ ⟨0, 1, 0⟩)))
      (scaleR ⟨0, 1, 0⟩ (Real.sin (q * angleR ⟨1, 0, 0⟩ ⟨0, 1, 0⟩) / Real.sin (angleR ⟨1, 0, 0⟩ ⟨0, 1, 0⟩)))) = 0 := by
    simp [dotR, addR, scaleR]
  rw [this, Real.arccos_zero]

example :
    let a : R3 := ⟨0, 0, 1⟩
    let b : R3 := ⟨1, 0, 0⟩
    let c : R3 := ⟨0, 1, 0⟩
    let v := slerpR a (slerpR b c (1 / 3)) (1 / 2)
    forwardPointR a b c v = slerpR b c (1 / 3) ∧ inverseBaryR a b c (forwardBaryR a b c v) = v := by
  obtain ⟨ha, hb, hc, hV, hD, hγ⟩ := octant_hyps
  refine polyhedral_roundtrip_exact ha hb hc hV hD hγ ?_ (by norm_num) (by norm_num) (by norm_num) (by norm_num)
  rw [octant_apex_angle]
  have h : slerpSwitchQ ≤ 1 := by decide +kernel
  have : slerpSwitch ≤ 1 := by unfold slerpSwitch; exact_mod_cast h
  linarith [Real.pi_gt_three]

end A5.AngularRoundTrip
