import A5.Model.DistanceG
import Mathlib.Analysis.Real.Sqrt
import Mathlib.Analysis.Normed.Lp.ProdLp
import Mathlib.Tactic.Ring
import Mathlib.Tactic.Linarith
import Mathlib.Tactic.NormNum
import Mathlib.Tactic.Positivity
/-! # What `contains_point` and `distance_outside` mean (real arithmetic)

`A5/Model/DistanceG.lean` states the two loops of `geometry/pentagon.rs` over an arbitrary scalar type and ties them to
the `Float` model.  Here the twins are evaluated at `ℝ` (`Real.sqrt`, `max`, `min`) and their meaning is proved, for an
arbitrary list of vertices `vs : List (ℝ × ℝ)` (no hypothesis on length, convexity or edge lengths is needed: an edge of
length zero, or a point sitting on `v1`, has `cross = 0` and never enters the `cross < 0` branch).

"Inner side of edge `i`" means `0 ≤ crossAt vs i p`, where `crossAt vs i p` is the number
`(v1.x - v2.x) * (p.y - v1.y) - (v1.y - v2.y) * (p.x - v1.x)` for `v1 = vs[i]`, `v2 = vs[(i+1) % n]`.  For a convex polygon
in the vertex order the library's winding assertion accepts, `InsideR vs p` (inner side of every edge) is membership in
the closed polygon.

* `distanceOutside_nonneg`                  : `0 ≤ distanceOutsideR vs p`
* `distanceOutside_eq_zero_iff`             : `distanceOutsideR vs p = 0 ↔ InsideR vs p`
* `contains_eq_one_iff`, `contains_pos_iff` : `containsR vs p = 1 ↔ InsideR vs p`, `0 < containsR vs p ↔ InsideR vs p`
  (and `contains_eq_one_or_neg`: the value is `1` or negative)
* `contains_pos_iff_distanceOutside_zero`   : the lookup's "hit" test and the fallback's distance agree about "inside"
* `edge_distance_le`                        : one edge - `cross(p) < 0 ≤ cross(x)` gives `-cross(p) / |v1 - v2| ≤ |p - x|`
* `distanceOutside_le_dist`                 : for every `x` with `InsideR vs x`, `distanceOutsideR vs p ≤ |p - x|`:
  the ranking value of the fallback never overestimates the Euclidean distance from `p` to the polygon
* `eucl_eq_dist`: `eucl p x` is Mathlib's `dist` in `WithLp 2 (ℝ × ℝ)` (the Euclidean plane).

What is NOT here: any transfer to the `Float` run beyond the structural facts of `DistanceG.lean` (rounding in `cross`
can flip the sign test for points within ≈ 2^-52 · scale of an edge line). -/
namespace A5.DG

/-- the operations at `ℝ` -/
noncomputable def realOps : Ops ℝ where
  zero := 0
  one := 1
  sqrt := Real.sqrt
  max := max
  min := min

/-- `distance_outside` in real arithmetic -/
noncomputable def distanceOutsideR (vs : List (ℝ × ℝ)) (p : ℝ × ℝ) : ℝ := distanceOutsideG realOps vs p

/-- the loop of `contains_point` in real arithmetic -/
noncomputable def containsR (vs : List (ℝ × ℝ)) (p : ℝ × ℝ) : ℝ := containsG realOps vs p

/-- the `cross` value of edge `i` -/
def crossAt (vs : List (ℝ × ℝ)) (i : Nat) (p : ℝ × ℝ) : ℝ :=
  crossG (vs.getD i (0, 0)) (vs.getD ((i + 1) % vs.length) (0, 0)) p

/-- `p` is on the inner side of (the line of) every edge -/
def InsideR (vs : List (ℝ × ℝ)) (p : ℝ × ℝ) : Prop := ∀ i, i < vs.length → 0 ≤ crossAt vs i p

/-- Euclidean distance in the plane -/
noncomputable def eucl (p x : ℝ × ℝ) : ℝ := Real.sqrt ((p.1 - x.1) ^ 2 + (p.2 - x.2) ^ 2)

theorem eucl_eq_dist (p x : ℝ × ℝ) : eucl p x = dist (WithLp.toLp 2 p) (WithLp.toLp 2 x) := by
  rewrite [WithLp.prod_dist_eq_of_L2]
  simp only [WithLp.toLp_fst, WithLp.toLp_snd, Real.dist_eq, sq_abs]
  rfl

theorem insideR_iff (vs : List (ℝ × ℝ)) (p : ℝ × ℝ) : InsideR vs p ↔ ∀ c ∈ crossesG (0 : ℝ) vs p, 0 ≤ c :=
  (forall_crossesG_iff (0 : ℝ) vs p (fun c => 0 ≤ c)).symm

theorem insideR_iff_no_violation (vs : List (ℝ × ℝ)) (p : ℝ × ℝ) :
    InsideR vs p ↔ ∀ c ∈ crossesG realOps.zero vs p, ¬ c < realOps.zero := by
  rewrite [insideR_iff]
  exact forall_congr' fun c => forall_congr' fun _ => not_lt.symm

/-- membership of an edge in `edgesG`: it is edge number `i` for some `i < n` -/
theorem mem_edgesG (vs : List (ℝ × ℝ)) (e : Edge ℝ) :
    e ∈ edgesG (0 : ℝ) vs ↔ ∃ i, i < vs.length ∧ edgeG (0 : ℝ) vs i = e := by
  unfold edgesG
  simp only [List.mem_map, List.mem_range]

/-! ### one edge -/

/-- an edge with a negative cross product has positive length -/
theorem edgeLen_pos (p : ℝ × ℝ) (e : Edge ℝ) (h : crossG e.1 e.2 p < 0) : 0 < edgeLenG realOps e := by
  unfold edgeLenG
  show 0 < Real.sqrt _
  rewrite [Real.sqrt_pos]
  by_contra hn
  have h0 : (e.1.1 - e.2.1) * (e.1.1 - e.2.1) + (e.1.2 - e.2.2) * (e.1.2 - e.2.2) = 0 :=
    le_antisymm (not_lt.1 hn) (add_nonneg (mul_self_nonneg _) (mul_self_nonneg _))
  obtain ⟨hx, hy⟩ := (mul_self_add_mul_self_eq_zero).1 h0
  unfold crossG at h
  rewrite [hx, hy] at h
  simp only [zero_mul, sub_zero, lt_self_iff_false] at h

/-- a negative cross product means `p ≠ v1`: the normaliser of `contains_point` is positive -/
theorem pointLen_pos (p : ℝ × ℝ) (e : Edge ℝ) (h : crossG e.1 e.2 p < 0) : 0 < pointLenG realOps p e := by
  unfold pointLenG
  show 0 < Real.sqrt _
  rewrite [Real.sqrt_pos]
  by_contra hn
  have h0 : (p.1 - e.1.1) * (p.1 - e.1.1) + (p.2 - e.1.2) * (p.2 - e.1.2) = 0 :=
    le_antisymm (not_lt.1 hn) (add_nonneg (mul_self_nonneg _) (mul_self_nonneg _))
  obtain ⟨hx, hy⟩ := (mul_self_add_mul_self_eq_zero).1 h0
  unfold crossG at h
  rewrite [hx, hy] at h
  simp only [mul_zero, sub_zero, lt_self_iff_false] at h

/-- the term `distance_outside` takes the maximum of is positive -/
theorem distTerm_pos (p : ℝ × ℝ) (e : Edge ℝ) (h : crossG e.1 e.2 p < 0) :
    0 < -crossG e.1 e.2 p / edgeLenG realOps e := div_pos (neg_pos.2 h) (edgeLen_pos p e h)

/-- the term `contains_point` takes the minimum of is negative -/
theorem containsTerm_neg (p : ℝ × ℝ) (e : Edge ℝ) (h : crossG e.1 e.2 p < 0) :
    crossG e.1 e.2 p / pointLenG realOps p e < 0 := div_neg_of_neg_of_pos h (pointLen_pos p e h)

/-- `cross` is affine in the point: the difference of two values is the dot product of the edge normal `(-dy, dx)` with
the difference of the points -/
theorem crossG_sub (v1 v2 p x : ℝ × ℝ) :
    crossG v1 v2 x - crossG v1 v2 p = (v1.1 - v2.1) * (x.2 - p.2) - (v1.2 - v2.2) * (x.1 - p.1) := by
  unfold crossG; ring

/-- **one edge.**  If `p` is on the outer side of the line through `v1`, `v2` (`cross(p) < 0`) and `x` on the inner side
(`0 ≤ cross(x)`), then the distance from `p` to that line, `-cross(p) / |v1 - v2|`, is at most `|p - x|`
(Cauchy-Schwarz for the edge normal and `x - p`). -/
theorem edge_distance_le (v1 v2 p x : ℝ × ℝ) (hp : crossG v1 v2 p < 0) (hx : 0 ≤ crossG v1 v2 x) :
    -crossG v1 v2 p / Real.sqrt ((v1.1 - v2.1) * (v1.1 - v2.1) + (v1.2 - v2.2) * (v1.2 - v2.2)) ≤ eucl p x := by
  have hL : 0 < Real.sqrt ((v1.1 - v2.1) * (v1.1 - v2.1) + (v1.2 - v2.2) * (v1.2 - v2.2)) :=
    edgeLen_pos p (v1, v2) hp
  rewrite [div_le_iff₀ hL]
  have hs := crossG_sub v1 v2 p x
  have h1 : -crossG v1 v2 p ≤ (v1.1 - v2.1) * (x.2 - p.2) - (v1.2 - v2.2) * (x.1 - p.1) := by linarith
  refine le_trans h1 (le_trans (le_abs_self _) ?_)
  unfold eucl
  rewrite [← Real.sqrt_mul (add_nonneg (sq_nonneg _) (sq_nonneg _))]
  refine Real.abs_le_sqrt ?_
  have hcs : ((v1.1 - v2.1) * (v1.1 - v2.1) + (v1.2 - v2.2) * (v1.2 - v2.2)) * ((p.1 - x.1) ^ 2 + (p.2 - x.2) ^ 2) -
      ((v1.1 - v2.1) * (x.2 - p.2) - (v1.2 - v2.2) * (x.1 - p.1)) ^ 2 =
      ((v1.1 - v2.1) * (x.1 - p.1) + (v1.2 - v2.2) * (x.2 - p.2)) ^ 2 := by ring
  have := sq_nonneg ((v1.1 - v2.1) * (x.1 - p.1) + (v1.2 - v2.2) * (x.2 - p.2))
  linarith

/-! ### the fold of `distance_outside` -/

theorem le_distStep (p : ℝ × ℝ) (d : ℝ) (e : Edge ℝ) : d ≤ distStepG realOps p d e := by
  unfold distStepG
  split
  · exact le_max_left _ _
  · exact le_refl _

/-- the accumulator never decreases -/
theorem le_foldl_distStep (p : ℝ × ℝ) (l : List (Edge ℝ)) (d : ℝ) : d ≤ l.foldl (distStepG realOps p) d := by
  induction l generalizing d with
  | nil => exact le_refl _
  | cons e l ih => exact le_trans (le_distStep p d e) (ih _)

/-- every violated edge's term is below the result -/
theorem term_le_foldl_distStep (p : ℝ × ℝ) (l : List (Edge ℝ)) (d : ℝ) (e : Edge ℝ) (he : e ∈ l)
    (hc : crossG e.1 e.2 p < 0) :
    -crossG e.1 e.2 p / edgeLenG realOps e ≤ l.foldl (distStepG realOps p) d := by
  induction l generalizing d with
  | nil => cases he
  | cons e' l ih =>
    rewrite [List.foldl_cons]
    rcases List.mem_cons.1 he with rfl | he'
    · refine le_trans ?_ (le_foldl_distStep p l _)
      unfold distStepG
      rewrite [if_pos (show crossG e.1 e.2 p < realOps.zero from hc)]
      exact le_max_right _ _
    · exact ih _ he'

/-- a bound on the initial value and on every violated edge's term bounds the result -/
theorem foldl_distStep_le (p : ℝ × ℝ) (l : List (Edge ℝ)) (d B : ℝ) (hd : d ≤ B)
    (h : ∀ e ∈ l, crossG e.1 e.2 p < 0 → -crossG e.1 e.2 p / edgeLenG realOps e ≤ B) :
    l.foldl (distStepG realOps p) d ≤ B := by
  induction l generalizing d with
  | nil => exact hd
  | cons e l ih =>
    rewrite [List.foldl_cons]
    refine ih _ ?_ fun e' he' => h e' (List.mem_cons_of_mem _ he')
    unfold distStepG
    split
    · exact max_le hd (h e List.mem_cons_self (by assumption))
    · exact hd

/-! ### the fold of `contains_point` -/

theorem containsStep_le (p : ℝ × ℝ) (d : ℝ) (e : Edge ℝ) : containsStepG realOps p d e ≤ d := by
  unfold containsStepG
  split
  · exact min_le_left _ _
  · exact le_refl _

/-- the accumulator never increases -/
theorem foldl_containsStep_le (p : ℝ × ℝ) (l : List (Edge ℝ)) (d : ℝ) : l.foldl (containsStepG realOps p) d ≤ d := by
  induction l generalizing d with
  | nil => exact le_refl _
  | cons e l ih => exact le_trans (ih _) (containsStep_le p d e)

/-- the result is below every violated edge's term -/
theorem foldl_containsStep_le_term (p : ℝ × ℝ) (l : List (Edge ℝ)) (d : ℝ) (e : Edge ℝ) (he : e ∈ l)
    (hc : crossG e.1 e.2 p < 0) :
    l.foldl (containsStepG realOps p) d ≤ crossG e.1 e.2 p / pointLenG realOps p e := by
  induction l generalizing d with
  | nil => cases he
  | cons e' l ih =>
    rewrite [List.foldl_cons]
    rcases List.mem_cons.1 he with rfl | he'
    · refine le_trans (foldl_containsStep_le p l _) ?_
      unfold containsStepG
      rewrite [if_pos (show crossG e.1 e.2 p < realOps.zero from hc)]
      exact min_le_right _ _
    · exact ih _ he'

/-! ### headline theorems -/

/-- some edge is violated when `p` is not inside -/
theorem exists_violated_of_not_inside (vs : List (ℝ × ℝ)) (p : ℝ × ℝ) (h : ¬ InsideR vs p) :
    ∃ e ∈ edgesG (0 : ℝ) vs, crossG e.1 e.2 p < 0 := by
  unfold InsideR at h
  simp only [not_forall, not_le, exists_prop] at h
  obtain ⟨i, hi, hc⟩ := h
  exact ⟨edgeG 0 vs i, (mem_edgesG vs _).2 ⟨i, hi, rfl⟩, hc⟩

/-- **(a)** `distance_outside` is never negative -/
theorem distanceOutside_nonneg (vs : List (ℝ × ℝ)) (p : ℝ × ℝ) : 0 ≤ distanceOutsideR vs p :=
  le_foldl_distStep p _ 0

/-- `distance_outside` is at least the distance to the line of every violated edge -/
theorem edge_term_le_distanceOutside (vs : List (ℝ × ℝ)) (p : ℝ × ℝ) (i : Nat) (hi : i < vs.length)
    (hc : crossAt vs i p < 0) :
    -crossAt vs i p / edgeLenG realOps (edgeG 0 vs i) ≤ distanceOutsideR vs p :=
  term_le_foldl_distStep p _ 0 (edgeG 0 vs i) ((mem_edgesG vs _).2 ⟨i, hi, rfl⟩) hc

/-- **(a)** `distance_outside` is zero exactly for the points on the inner side of every edge (no hypothesis on the
polygon: an edge of length zero has `cross = 0` and is never "violated") -/
theorem distanceOutside_eq_zero_iff (vs : List (ℝ × ℝ)) (p : ℝ × ℝ) : distanceOutsideR vs p = 0 ↔ InsideR vs p := by
  constructor
  · intro h0
    by_contra hn
    obtain ⟨e, he, hc⟩ := exists_violated_of_not_inside vs p hn
    have h1 := term_le_foldl_distStep p (edgesG (0 : ℝ) vs) 0 e he hc
    have h2 := distTerm_pos p e hc
    have h3 : distanceOutsideR vs p = List.foldl (distStepG realOps p) 0 (edgesG (0 : ℝ) vs) := rfl
    linarith
  · intro h
    exact distanceOutsideG_of_no_violation realOps vs p ((insideR_iff_no_violation vs p).1 h)

/-- outside points have a positive `distance_outside` -/
theorem distanceOutside_pos_iff (vs : List (ℝ × ℝ)) (p : ℝ × ℝ) : 0 < distanceOutsideR vs p ↔ ¬ InsideR vs p := by
  rewrite [← distanceOutside_eq_zero_iff]
  have := distanceOutside_nonneg vs p
  constructor
  · intro h h0; linarith
  · intro h; exact lt_of_le_of_ne this (Ne.symm h)

/-- **(b)** the loop of `contains_point` returns `1` exactly for the points on the inner side of every edge -/
theorem contains_eq_one_iff (vs : List (ℝ × ℝ)) (p : ℝ × ℝ) : containsR vs p = 1 ↔ InsideR vs p := by
  constructor
  · intro h1
    by_contra hn
    obtain ⟨e, he, hc⟩ := exists_violated_of_not_inside vs p hn
    have h2 := foldl_containsStep_le_term p (edgesG (0 : ℝ) vs) 1 e he hc
    have h3 := containsTerm_neg p e hc
    have h4 : containsR vs p = List.foldl (containsStepG realOps p) 1 (edgesG (0 : ℝ) vs) := rfl
    linarith
  · intro h
    exact containsG_of_no_violation realOps vs p ((insideR_iff_no_violation vs p).1 h)

/-- and otherwise a negative number: there is nothing between "inside" (`1`) and "outside" (`< 0`) -/
theorem contains_neg_iff (vs : List (ℝ × ℝ)) (p : ℝ × ℝ) : containsR vs p < 0 ↔ ¬ InsideR vs p := by
  constructor
  · intro hneg h
    have := (contains_eq_one_iff vs p).2 h
    linarith
  · intro hn
    obtain ⟨e, he, hc⟩ := exists_violated_of_not_inside vs p hn
    have h2 := foldl_containsStep_le_term p (edgesG (0 : ℝ) vs) 1 e he hc
    have h3 := containsTerm_neg p e hc
    have h4 : containsR vs p = List.foldl (containsStepG realOps p) 1 (edgesG (0 : ℝ) vs) := rfl
    linarith

theorem contains_eq_one_or_neg (vs : List (ℝ × ℝ)) (p : ℝ × ℝ) : containsR vs p = 1 ∨ containsR vs p < 0 := by
  by_cases h : InsideR vs p
  · exact Or.inl ((contains_eq_one_iff vs p).2 h)
  · exact Or.inr ((contains_neg_iff vs p).2 h)

/-- **(b)** the lookup's hit test `contains_point(p) > 0` -/
theorem contains_pos_iff (vs : List (ℝ × ℝ)) (p : ℝ × ℝ) : 0 < containsR vs p ↔ InsideR vs p := by
  constructor
  · intro hpos
    by_contra hn
    have := (contains_neg_iff vs p).2 hn
    linarith
  · intro h
    rewrite [(contains_eq_one_iff vs p).2 h]
    exact one_pos

/-- **(b)** the lookup's "hit" test and the fallback's distance agree about what "inside" means -/
theorem contains_pos_iff_distanceOutside_zero (vs : List (ℝ × ℝ)) (p : ℝ × ℝ) :
    0 < containsR vs p ↔ distanceOutsideR vs p = 0 :=
  (contains_pos_iff vs p).trans (distanceOutside_eq_zero_iff vs p).symm

/-- **(c) soundness of the ranking.**  For every point `x` on the inner side of every edge (every point of the closed
polygon, when it is convex and wound as the library expects), `distance_outside(p)` is at most the Euclidean distance
from `p` to `x`: the fallback's ranking value never overestimates the distance from `p` to the cell. -/
theorem distanceOutside_le_dist (vs : List (ℝ × ℝ)) (p x : ℝ × ℝ) (hx : InsideR vs x) :
    distanceOutsideR vs p ≤ eucl p x := by
  refine foldl_distStep_le p _ 0 _ (Real.sqrt_nonneg _) ?_
  intro e he hc
  obtain ⟨i, hi, rfl⟩ := (mem_edgesG vs e).1 he
  exact edge_distance_le _ _ p x hc (hx i hi)

/-- the same with Mathlib's metric of the Euclidean plane `WithLp 2 (ℝ × ℝ)` -/
theorem distanceOutside_le_dist' (vs : List (ℝ × ℝ)) (p x : ℝ × ℝ) (hx : InsideR vs x) :
    distanceOutsideR vs p ≤ dist (WithLp.toLp 2 p) (WithLp.toLp 2 x) := by
  rewrite [← eucl_eq_dist]
  exact distanceOutside_le_dist vs p x hx

/-- the versions asked for polygons (`3 ≤ vs.length`); the hypothesis is not used -/
theorem distanceOutside_eq_zero_iff_of_polygon (vs : List (ℝ × ℝ)) (_ : 3 ≤ vs.length) (p : ℝ × ℝ) :
    distanceOutsideR vs p = 0 ↔ ∀ i, i < vs.length → 0 ≤ crossAt vs i p := distanceOutside_eq_zero_iff vs p

/-! ### (d) non-vacuity: the unit square

Vertex order `(0,0), (0,1), (1,1), (1,0)`: the order the library's winding assertion accepts (trapezoid sum
`Σ (x_j - x_i)(y_j + y_i) = 2 ≥ 0`); the inner side of every edge is `cross ≥ 0`. -/

def unitSquareR : List (ℝ × ℝ) := [(0, 0), (0, 1), (1, 1), (1, 0)]

theorem unitSquareR_crosses (p : ℝ × ℝ) :
    crossesG (0 : ℝ) unitSquareR p = [p.1, 1 - p.2, 1 - p.1, p.2] := by
  simp [crossesG, edgesG, edgeG, unitSquareR, crossG, List.range_succ]

theorem unitSquareR_inside_iff (p : ℝ × ℝ) :
    InsideR unitSquareR p ↔ 0 ≤ p.1 ∧ p.1 ≤ 1 ∧ 0 ≤ p.2 ∧ p.2 ≤ 1 := by
  rewrite [insideR_iff, unitSquareR_crosses]
  simp only [List.forall_mem_cons, List.not_mem_nil, false_imp_iff, implies_true, and_true, sub_nonneg]
  tauto

/-- the centre is inside: both functions report it -/
example : InsideR unitSquareR (1 / 2, 1 / 2) := by rewrite [unitSquareR_inside_iff]; norm_num
example : distanceOutsideR unitSquareR (1 / 2, 1 / 2) = 0 :=
  (distanceOutside_eq_zero_iff _ _).2 (by rewrite [unitSquareR_inside_iff]; norm_num)
example : containsR unitSquareR (1 / 2, 1 / 2) = 1 :=
  (contains_eq_one_iff _ _).2 (by rewrite [unitSquareR_inside_iff]; norm_num)

/-- **(d)** a point outside, at distance exactly `1/2` from the bottom edge: `distance_outside = 1/2` -/
example : distanceOutsideR unitSquareR (1 / 2, -1 / 2) = 1 / 2 := by
  simp [distanceOutsideR, distanceOutsideG, edgesG, edgeG, unitSquareR, distStepG, crossG, edgeLenG, realOps,
    List.range_succ]
  norm_num

/-- it is not inside, the hit test fails, and the value is the true distance to the square (attained at `(1/2, 0)`) -/
example : ¬ InsideR unitSquareR (1 / 2, -1 / 2) := by rewrite [unitSquareR_inside_iff]; norm_num
example : containsR unitSquareR (1 / 2, -1 / 2) < 0 :=
  (contains_neg_iff _ _).2 (by rewrite [unitSquareR_inside_iff]; norm_num)
example : eucl (1 / 2, -1 / 2) (1 / 2, 0) = 1 / 2 := by
  unfold eucl
  rewrite [show ((1 / 2 : ℝ) - 1 / 2) ^ 2 + (-1 / 2 - 0) ^ 2 = (1 / 2) ^ 2 by norm_num]
  exact Real.sqrt_sq (by norm_num)

/-- beyond a corner the value is the larger of the two line distances, here `1`, strictly below the true distance
`√(1 + 1/4)` to the nearest point `(1, 0)`: `distanceOutside_le_dist` is an inequality, not an equation -/
example : distanceOutsideR unitSquareR (2, -1 / 2) = 1 := by
  simp [distanceOutsideR, distanceOutsideG, edgesG, edgeG, unitSquareR, distStepG, crossG, edgeLenG, realOps,
    List.range_succ]
  norm_num
example : distanceOutsideR unitSquareR (2, -1 / 2) ≤ eucl (2, -1 / 2) (1, 0) :=
  distanceOutside_le_dist _ _ _ (by rewrite [unitSquareR_inside_iff]; norm_num)

end A5.DG
