import A5.Lemmas.ChildPentagon2
/-! # Parent ↔ child pentagons, part 3: the four children cover more than half of their parent (planar C12)

**T-cover** (`children_cover_parent`).  For every curve depth `1 ≤ n+1 < 30`, orientation and position there are convex
polygons ("pieces") with rational vertices such that
* every piece is strictly convex and clockwise (`StrictConvexCW`), all its vertices lie in the closed parent pentagon
  and in the closed pentagon of ONE of the four children (scaled into the parent's frame) — so, the pentagons being
  convex (`pentagonQ_convex`), the piece is a subset of parent ∩ child;
* any two pieces are separated by a line (`LineSep`: one piece in the closed right half-plane, the other in the closed
  left half-plane of a non-degenerate line) — so their interiors are disjoint;
* the areas of the pieces sum to more than `0.579 ·` the parent's area (in particular more than half).
This is the statement `CoverCert … ∧ area bound`; that it implies "area(parent ∩ ⋃ children) > ½ area(parent)" is
elementary measure theory which is not formalised here.

The pieces are those of part 2 (`pieceData`, one per normalised step quad, checked by `piece_table`); this file adds, for
each of the 16 normalised families of four children, six separating lines (`sepData`, again found outside the proof and
CHECKED here by kernel evaluation in exact arithmetic: `family_table`).  The measured true coverage is 0.58197 resp.
0.68059 of the parent's area depending on the family; the certificate (pieces shrunk by 1/512) proves `> 0.579`.
Depth 0 → 1 (parent = quintant triangle): `root_children_cover` (coverage `> 0.787`). -/
namespace A5.CP
open A5 A5.HilbertLocate A5.PG

/-! ## separation and the certificate -/

/-- `Q` lies in the closed right half-plane and `R` in the closed left half-plane of the non-degenerate line `l` -/
def SepBy (l : Pt × Pt) (Q R : List Pt) : Prop :=
  l.1 ≠ l.2 ∧ (∀ v ∈ Q, cross l.1 l.2 v ≤ 0) ∧ (∀ v ∈ R, 0 ≤ cross l.1 l.2 v)
instance (l : Pt × Pt) (Q R : List Pt) : Decidable (SepBy l Q R) := by unfold SepBy; infer_instance

/-- the vertex sets (hence the convex hulls) of `Q` and `R` are separated by a line: disjoint interiors -/
def LineSep (Q R : List Pt) : Prop := ∃ l : Pt × Pt, SepBy l Q R

/-- the coverage certificate: convex pieces inside `parent ∩ child` (for some child each), pairwise separated -/
def CoverCert (parent : List Pt) (children pieces : List (List Pt)) : Prop :=
  (∀ Q ∈ pieces, StrictConvexCW Q ∧ (∀ v ∈ Q, InClosed parent v) ∧ ∃ C ∈ children, ∀ v ∈ Q, InClosed C v) ∧
  pieces.Pairwise LineSep

theorem SepBy.shift {l : Pt × Pt} {Q R : List Pt} (h : SepBy l Q R) (t : Pt) :
    SepBy (shift t l.1, shift t l.2) (Q.map (shift t)) (R.map (shift t)) := by
  obtain ⟨h0, h1, h2⟩ := h
  refine ⟨fun e => h0 (shift_injective t e), ?_, ?_⟩
  · intro v hv
    obtain ⟨v0, hv0, rfl⟩ := List.mem_map.1 hv
    rewrite [cross_shift]; exact h1 v0 hv0
  · intro v hv
    obtain ⟨v0, hv0, rfl⟩ := List.mem_map.1 hv
    rewrite [cross_shift]; exact h2 v0 hv0

theorem LineSep.shift {Q R : List Pt} (h : LineSep Q R) (t : Pt) : LineSep (Q.map (shift t)) (R.map (shift t)) := by
  obtain ⟨l, hl⟩ := h
  exact ⟨_, hl.shift t⟩

/-- four pieces with the six lines separating `(0,1) (0,2) (0,3) (1,2) (1,3) (2,3)` -/
def sepCheck : List (List Pt) → List (Pt × Pt) → Prop
  | [q0, q1, q2, q3], [l01, l02, l03, l12, l13, l23] =>
    SepBy l01 q0 q1 ∧ SepBy l02 q0 q2 ∧ SepBy l03 q0 q3 ∧ SepBy l12 q1 q2 ∧ SepBy l13 q1 q3 ∧ SepBy l23 q2 q3
  | _, _ => False

instance (ps : List (List Pt)) (ls : List (Pt × Pt)) : Decidable (sepCheck ps ls) := by
  unfold sepCheck; split <;> infer_instance

theorem sepCheck_pairwise {ps : List (List Pt)} {ls : List (Pt × Pt)} (h : sepCheck ps ls) : ps.Pairwise LineSep := by
  unfold sepCheck at h
  split at h
  · obtain ⟨a, b, c, d, e, f⟩ := h
    refine List.Pairwise.cons ?_ (List.Pairwise.cons ?_ (List.Pairwise.cons ?_ (List.Pairwise.cons ?_ List.Pairwise.nil)))
    · intro y hy
      simp only [List.mem_cons, List.not_mem_nil, or_false] at hy
      rcases hy with rfl | rfl | rfl
      · exact ⟨_, a⟩
      · exact ⟨_, b⟩
      · exact ⟨_, c⟩
    · intro y hy
      simp only [List.mem_cons, List.not_mem_nil, or_false] at hy
      rcases hy with rfl | rfl
      · exact ⟨_, d⟩
      · exact ⟨_, e⟩
    · intro y hy
      simp only [List.mem_cons, List.not_mem_nil, or_false] at hy
      rcases hy with rfl
      exact ⟨_, f⟩
    · intro y hy
      cases hy
  · exact h.elim

/-! ## the family data -/

def N (f1 f2 : Int) (r : Bool) (d1 d2 c1 c2 : Int) (rc : Bool) : NQuad := ((f1, f2), r, (d1, d2), (c1, c2), rc)
def L (a b c d : Int) : (Int × Int) × (Int × Int) := ((a, b), (c, d))
def dyLine (l : (Int × Int) × (Int × Int)) : Pt × Pt := (dy l.1, dy l.2)

/-- for each of the 16 normalised families (the four normalised quads of the children of one parent, in curve order)
six separating lines through two points each (units of 2⁻¹⁶), for the pairs `(0,1) (0,2) (0,3) (1,2) (1,3) (2,3)` of
the children's pieces -/
def sepData : List (List NQuad × List ((Int × Int) × (Int × Int))) := [
  ([
    N 1 1 false 0 0 1 1 false, N 1 1 false 1 0 1 (-1) false, N 1 1 false 1 1 (-1) 1 true, N 1 1 false 2 0 1 (-1) true],
   [
    L 26759 2418 13718 (-2397), L 20238 14696 26759 2418, L 20238 14696 26759 2418, L 26786 2405 40477 (-2),
    L 13745 (-2410) 26786 2405, L 33972 17108 47013 12293]),
  ([
    N 1 (-1) false (-1) 1 1 1 false, N 1 (-1) false 0 1 1 (-1) false, N 1 (-1) false (-1) 2 (-1) (-1) true,
    N 1 (-1) false (-2) 1 1 1 true],
   [
    L 26759 (-27018) 13718 (-31833), L 13718 (-31833) 26 (-29425), L 26759 (-27018) 13718 (-31833),
    L 20265 (-44123) 13744 (-31846), L 20265 (-44123) 13744 (-31846), L 6532 (-46535) (-6510) (-41720)]),
  ([
    N 1 1 true 0 0 1 1 false, N 1 1 true 1 0 1 (-1) false, N 1 1 true 0 1 1 1 true, N 1 1 true 1 1 (-1) 1 true],
   [
    L 26759 2409 13717 (-2406), L 13717 (-2406) 26 2, L 25645 4506 26759 2409, L 33961 (-12286) 20269 (-14694),
    L 26790 2399 40482 (-9), L 33970 (-12317) 47011 (-17132)]),
  ([
    N (-1) 1 true 0 0 (-1) 1 true, N (-1) 1 true 1 (-1) (-1) (-1) false, N (-1) 1 true 0 (-1) (-1) 1 false,
    N (-1) 1 true 1 (-2) 1 1 true],
   [
    L (-20225) 14703 (-6534) 17111, L (-20225) 14703 (-6534) 17111, L (-6534) 17111 6507 12296,
    L (-26755) 27011 (-13714) 31826, L (-13714) 31826 (-22) 29419, L (-14859) 33934 (-13745) 31837]),
  ([
    N 1 (-1) true 0 0 1 (-1) true, N 1 (-1) true (-1) 1 1 1 false, N 1 (-1) true 0 1 1 (-1) false,
    N 1 (-1) true (-1) 2 (-1) (-1) true],
   [
    L 20225 (-14703) 6534 (-17111), L 20225 (-14703) 6534 (-17111), L 6534 (-17111) (-6507) (-12296),
    L 26755 (-27011) 13714 (-31826), L 13714 (-31826) 22 (-29419), L 14859 (-33934) 13745 (-31837)]),
  ([
    N (-1) (-1) true 0 0 (-1) (-1) false, N (-1) (-1) true (-1) 0 (-1) 1 false,
    N (-1) (-1) true 0 (-1) (-1) (-1) true, N (-1) (-1) true (-1) (-1) 1 (-1) true],
   [
    L (-26759) (-2409) (-13717) 2406, L (-13717) 2406 (-26) (-2), L (-25645) (-4506) (-26759) (-2409),
    L (-33961) 12286 (-20269) 14694, L (-26790) (-2399) (-40482) 9, L (-33970) 12317 (-47011) 17132]),
  ([
    N (-1) (-1) false 0 0 (-1) (-1) false, N (-1) (-1) false (-1) 0 (-1) 1 false,
    N (-1) (-1) false (-1) (-1) 1 (-1) true, N (-1) (-1) false (-2) 0 (-1) 1 true],
   [
    L (-26759) (-2418) (-13718) 2397, L (-20238) (-14696) (-26759) (-2418), L (-20238) (-14696) (-26759) (-2418),
    L (-26786) (-2405) (-40477) 2, L (-13745) 2410 (-26786) (-2405), L (-33972) (-17108) (-47013) (-12293)]),
  ([
    N (-1) 1 false 1 (-1) (-1) (-1) false, N (-1) 1 false 0 (-1) (-1) 1 false, N (-1) 1 false 1 (-2) 1 1 true,
    N (-1) 1 false 2 (-1) (-1) (-1) true],
   [
    L (-26759) 27018 (-13718) 31833, L (-13718) 31833 (-26) 29425, L (-26759) 27018 (-13718) 31833,
    L (-20265) 44123 (-13744) 31846, L (-20265) 44123 (-13744) 31846, L (-6532) 46535 6510 41720]),
  ([
    N 1 1 false 0 0 1 1 false, N 1 1 false 1 0 1 (-1) false, N 1 1 false 1 0 1 1 true, N 1 1 false 2 1 (-1) (-1) true],
   [
    L 26759 2418 13718 (-2397), L 20238 14696 26759 2418, L 20238 14696 26759 2418, L 26786 2405 40477 (-2),
    L 13745 (-2410) 26786 2405, L 33972 17108 47013 12293]),
  ([
    N 1 (-1) false (-2) 2 (-1) 1 true, N 1 (-1) false (-1) 1 1 (-1) true, N 1 (-1) false (-1) 1 1 1 false,
    N 1 (-1) false 0 1 1 (-1) false],
   [
    L (-6524) (-41744) 6517 (-46559), L (-6524) (-41744) 6517 (-46559), L (-6524) (-41744) 6517 (-46559),
    L 11 (-29443) 13703 (-31850), L 13703 (-31850) 20223 (-44128), L 26759 (-27018) 13718 (-31833)]),
  ([
    N 1 1 true 0 0 1 1 false, N 1 1 true 1 0 1 (-1) false, N 1 1 true 1 0 1 1 true, N 1 1 true 0 2 (-1) 1 true],
   [
    L 26759 2409 13717 (-2406), L 25645 4506 26759 2409, L 13717 (-2406) 26 2, L 26790 2399 40482 (-9),
    L 33961 (-12286) 20269 (-14694), L 40483 6 26792 2413]),
  ([
    N (-1) 1 true 1 (-1) (-1) 1 true, N (-1) 1 true 1 (-1) (-1) (-1) false, N (-1) 1 true 0 (-1) (-1) 1 false,
    N (-1) 1 true 0 (-1) 1 1 true],
   [
    L (-20) 29433 (-13712) 31841, L (-13712) 31841 (-14826) 33938, L (-20) 29433 (-13712) 31841,
    L (-26755) 27011 (-13714) 31826, L (-6542) 17141 (-20234) 14734, L (-26786) 27022 (-40478) 29429]),
  ([
    N 1 (-1) true (-1) 1 1 (-1) true, N 1 (-1) true (-1) 1 1 1 false, N 1 (-1) true 0 1 1 (-1) false,
    N 1 (-1) true 0 1 (-1) (-1) true],
   [
    L 20 (-29433) 13712 (-31841), L 13712 (-31841) 14826 (-33938), L 20 (-29433) 13712 (-31841),
    L 26755 (-27011) 13714 (-31826), L 6542 (-17141) 20234 (-14734), L 26786 (-27022) 40478 (-29429)]),
  ([
    N (-1) (-1) true 0 0 (-1) (-1) false, N (-1) (-1) true (-1) 0 (-1) 1 false,
    N (-1) (-1) true (-1) 0 (-1) (-1) true, N (-1) (-1) true 0 (-2) 1 (-1) true],
   [
    L (-26759) (-2409) (-13717) 2406, L (-25645) (-4506) (-26759) (-2409), L (-13717) 2406 (-26) (-2),
    L (-26790) (-2399) (-40482) 9, L (-33961) 12286 (-20269) 14694, L (-40483) (-6) (-26792) (-2413)]),
  ([
    N (-1) (-1) false 0 0 (-1) (-1) false, N (-1) (-1) false (-1) 0 (-1) 1 false,
    N (-1) (-1) false (-1) 0 (-1) (-1) true, N (-1) (-1) false (-2) (-1) 1 1 true],
   [
    L (-26759) (-2418) (-13718) 2397, L (-20238) (-14696) (-26759) (-2418), L (-20238) (-14696) (-26759) (-2418),
    L (-26786) (-2405) (-40477) 2, L (-13745) 2410 (-26786) (-2405), L (-33972) (-17108) (-47013) (-12293)]),
  ([
    N (-1) 1 false 2 (-2) 1 (-1) true, N (-1) 1 false 1 (-1) (-1) 1 true, N (-1) 1 false 1 (-1) (-1) (-1) false,
    N (-1) 1 false 0 (-1) (-1) 1 false],
   [
    L 6524 41744 (-6517) 46559, L 6524 41744 (-6517) 46559, L 6524 41744 (-6517) 46559, L (-11) 29443 (-13703) 31850,
    L (-13703) 31850 (-20223) 44128, L (-26759) 27018 (-13718) 31833])]

/-- the piece recorded for a normalised quad -/
def pieceI (x : NQuad) : List (Int × Int) := (pieceData.lookup x).getD []
def pieceOf (x : NQuad) : List Pt := (pieceI x).map dy

def HasSep (fam : List Quad) : Prop := fam.map normQ ∈ sepData.map Prod.fst
instance (fam : List Quad) : Decidable (HasSep fam) := by unfold HasSep; infer_instance

theorem fam_mem_classes : ∀ c ∈ oriClasses, ∀ fam ∈ finalFamilies c.1 c.2, HasSep fam := by decide +kernel

/-- what is checked for each family: the recorded pieces are entries of `pieceData`, the six lines separate them, and
their areas sum to more than `0.579` of a pentagon's area (`fanArea2` and `areaG` are both twice the area) -/
def FamOK (x : List NQuad × List ((Int × Int) × (Int × Int))) : Prop :=
  (∀ y ∈ x.1, (y, pieceI y) ∈ pieceData) ∧
  sepCheck (x.1.map pieceOf) (x.2.map dyLine) ∧
  579 / 1000 * areaG 0 seedQ < ((x.1.map pieceOf).map fanArea2).sum

instance (x : List NQuad × List ((Int × Int) × (Int × Int))) : Decidable (FamOK x) := by unfold FamOK; infer_instance

set_option maxRecDepth 8192 in
theorem family_table : ∀ x ∈ sepData, FamOK x := by decide +kernel

/-! ## T-cover -/

/-- **T-cover** (planar C12, exact arithmetic on the runtime constants).  For every curve depth `1 ≤ n+1 < 30`,
orientation `o < 6` and position `s < 4^(n+1)`: the parent anchor `ap` and the four child anchors `kids` exist, and there
are pairwise line-separated strictly convex pieces, each inside the parent pentagon and inside one of the four child
pentagons (scaled by 1/2 into the parent's lattice frame), whose areas sum to more than `0.579` of the parent
pentagon's area — the children together cover more than half of the parent. -/
theorem children_cover_parent (n o s : Nat) (hn : n + 2 ≤ 30) (ho : o < 6) (hs : s < 4 ^ (n + 1)) :
    ∃ ap, sToAnchor s (n + 1) o = .ok ap ∧ ∃ kids : List Anchor, kids.length = 4 ∧
      (∀ d, d < 4 → sToAnchor (4 * s + d) (n + 2) o = .ok (kids.getD d default)) ∧
      ∃ pieces : List (List (ℚ × ℚ)),
        CoverCert (pentagonQ ap) (kids.map (fun ac => scaleG' (pentagonQ ac) (1 / 2))) pieces ∧
        579 / 1000 * areaG 0 (pentagonQ ap) < (pieces.map fanArea2).sum ∧
        1 / 2 * areaG 0 (pentagonQ ap) < (pieces.map fanArea2).sum := by
  obtain ⟨ap, h1, hp, kids, hl, hk, _, fam, hfam, hq⟩ := children_family_mem n o s hn hs
  have hex : ¬(oriFlipIJ o = true ∧ oriInvertJ o = true) := fun hh => flags_exclusive o ho hh
  have hsep : HasSep fam := fam_mem_classes (_, _) (mem_oriClasses _ _ hex) fam hfam
  obtain ⟨x, hx, ex⟩ := List.mem_map.1 hsep
  obtain ⟨c1, c2, c3⟩ := family_table x hx
  refine ⟨ap, h1, kids, hl, hk, (x.1.map pieceOf).map (List.map (shift (basisMul ap.offset))), ⟨?_, ?_⟩, ?_⟩
  · intro Q hQ
    obtain ⟨Q0, hQ0, rfl⟩ := List.mem_map.1 hQ
    obtain ⟨y, hy, rfl⟩ := List.mem_map.1 hQ0
    obtain ⟨k1, k2, _, _⟩ := piece_table _ (c1 y hy)
    rewrite [ex] at hy
    obtain ⟨q, hqf, rfl⟩ := List.mem_map.1 hy
    obtain ⟨ac, hac, rfl⟩ := hq q hqf
    refine ⟨k1.shift _, ?_, _, List.mem_map.2 ⟨ac, hac, rfl⟩, ?_⟩
    · intro v hv
      obtain ⟨v0, hv0, rfl⟩ := List.mem_map.1 hv
      rewrite [parent_frame ap ac, parentPent_norm]
      exact (k2 v0 hv0).1.shift _
    · intro v hv
      obtain ⟨v0, hv0, rfl⟩ := List.mem_map.1 hv
      show InClosed (halfPent ac) _
      rewrite [child_frame ap ac, childPent_norm]
      exact (k2 v0 hv0).2.shift _
  · exact List.Pairwise.map _ (fun a b hab => hab.shift _) (sepCheck_pairwise c2)
  · have ea : ((x.1.map pieceOf).map (List.map (shift (basisMul ap.offset)))).map fanArea2 =
        (x.1.map pieceOf).map fanArea2 := by
      rewrite [List.map_map]
      exact List.map_congr_left (fun Q _ => fanArea2_shift Q _)
    have hpos := seed_area_facts.1
    rewrite [ea, pentagonQ_area ap hp]
    exact ⟨c3, by linarith⟩

/-- instance at a reversing, inverting orientation (4), depth 2 → 3 -/
example : ∃ ap, sToAnchor 11 2 4 = .ok ap ∧ ∃ kids : List Anchor, kids.length = 4 ∧
    (∀ d, d < 4 → sToAnchor (4 * 11 + d) 3 4 = .ok (kids.getD d default)) ∧
    ∃ pieces : List (List (ℚ × ℚ)),
      CoverCert (pentagonQ ap) (kids.map (fun ac => scaleG' (pentagonQ ac) (1 / 2))) pieces ∧
      1 / 2 * areaG 0 (pentagonQ ap) < (pieces.map fanArea2).sum := by
  obtain ⟨ap, h1, kids, h2, h3, pieces, h4, _, h6⟩ := children_cover_parent 1 4 11 (by decide) (by decide) (by decide)
  exact ⟨ap, h1, kids, h2, h3, pieces, h4, h6⟩

/-- the two area formulas agree on the seed pentagon, and the certificate is not vacuous: the recorded pieces of the
first family have total area between `0.677` and `0.681` of a pentagon's -/
example : fanArea2 seedQ = areaG 0 seedQ ∧
    677 / 1000 * areaG 0 seedQ < (((sepData.getD 0 ([], [])).1.map pieceOf).map fanArea2).sum ∧
    (((sepData.getD 0 ([], [])).1.map pieceOf).map fanArea2).sum < 681 / 1000 * areaG 0 seedQ := by decide +kernel

/-! ## depth 0 → 1: the parent is the quintant triangle -/

/-- the four depth-1 anchors of orientation `o` -/
def rootKids (o : Nat) : List Anchor :=
  (List.range 4).map (fun d => finalAnchor (adjustS (oriReverse o) 1 d) 1 (oriInvertJ o) (oriFlipIJ o))

/-- for each orientation `o = 0..5`: the four pieces (one per child, inside quintant triangle ∩ child) and six
separating lines, units of 2⁻¹⁶ -/
def rootData : List (List (List (Int × Int)) × List ((Int × Int) × (Int × Int))) := [
  ([
    [P 20239 14695, P 26759 2417, P 13718 (-2398), P 26 10],
    [P 13744 (-2418), P 26786 2397, P 40477 (-11), P 33957 (-12288), P 20265 (-14696)],
    [P 40490 (-29410), P 20278 (-14725), P 33970 (-12318), P 40490 (-14725)],
    [P 40490 16, P 26799 2423, P 20278 14701, P 33970 17108, P 40490 14701]],
   [
    L 26759 2417 13718 (-2398), L 26759 2417 13718 (-2398), L 20239 14695 26759 2417,
    L 33957 (-12288) 20265 (-14696), L 26786 2397 40477 (-11), L 20278 (-14725) 33970 (-12318)]),
  ([
    [P 40490 16, P 26799 2423, P 20278 14701, P 33970 17108, P 40490 14701],
    [P 40490 (-29410), P 20278 (-14725), P 33970 (-12318), P 40490 (-14725)],
    [P 13744 (-2418), P 26786 2397, P 40477 (-11), P 33957 (-12288), P 20265 (-14696)],
    [P 20239 14695, P 26759 2417, P 13718 (-2398), P 26 10]],
   [
    L 40490 16 26799 2423, L 40490 16 26799 2423, L 26799 2423 20278 14701, L 20278 (-14725) 33970 (-12318),
    L 20278 (-14725) 33970 (-12318), L 13744 (-2418) 26786 2397]),
  ([
    [P 20239 14695, P 26759 2417, P 13718 (-2398), P 26 10],
    [P 13744 (-2418), P 26786 2397, P 40477 (-11), P 33957 (-12288), P 20265 (-14696)],
    [P 40490 16, P 26799 2423, P 20278 14701, P 33970 17108, P 40490 14701],
    [P 40490 (-29410), P 20278 (-14725), P 33970 (-12318), P 40490 (-14725)]],
   [
    L 26759 2417 13718 (-2398), L 20239 14695 26759 2417, L 26759 2417 13718 (-2398), L 26786 2397 40477 (-11),
    L 33957 (-12288) 20265 (-14696), L 40490 16 26799 2423]),
  ([
    [P 40490 (-29410), P 20278 (-14725), P 33970 (-12318), P 40490 (-14725)],
    [P 40490 16, P 26799 2423, P 20278 14701, P 33970 17108, P 40490 14701],
    [P 13744 (-2418), P 26786 2397, P 40477 (-11), P 33957 (-12288), P 20265 (-14696)],
    [P 20239 14695, P 26759 2417, P 13718 (-2398), P 26 10]],
   [
    L 20278 (-14725) 33970 (-12318), L 20278 (-14725) 33970 (-12318), L 20278 (-14725) 33970 (-12318),
    L 40490 16 26799 2423, L 26799 2423 20278 14701, L 13744 (-2418) 26786 2397]),
  ([
    [P 40490 16, P 26799 2423, P 20278 14701, P 33970 17108, P 40490 14701],
    [P 20239 14695, P 26759 2417, P 13718 (-2398), P 26 10],
    [P 13744 (-2418), P 26786 2397, P 40477 (-11), P 33957 (-12288), P 20265 (-14696)],
    [P 40490 (-29410), P 20278 (-14725), P 33970 (-12318), P 40490 (-14725)]],
   [
    L 26799 2423 20278 14701, L 40490 16 26799 2423, L 40490 16 26799 2423, L 26759 2417 13718 (-2398),
    L 26759 2417 13718 (-2398), L 33957 (-12288) 20265 (-14696)]),
  ([
    [P 40490 (-29410), P 20278 (-14725), P 33970 (-12318), P 40490 (-14725)],
    [P 13744 (-2418), P 26786 2397, P 40477 (-11), P 33957 (-12288), P 20265 (-14696)],
    [P 20239 14695, P 26759 2417, P 13718 (-2398), P 26 10],
    [P 40490 16, P 26799 2423, P 20278 14701, P 33970 17108, P 40490 14701]],
   [
    L 20278 (-14725) 33970 (-12318), L 20278 (-14725) 33970 (-12318), L 20278 (-14725) 33970 (-12318),
    L 13744 (-2418) 26786 2397, L 26786 2397 40477 (-11), L 20239 14695 26759 2417])]

/-- what is checked for orientation `o`: the coverage certificate, the area bound `> 0.787`, and for each child a
recorded piece whose vertex mean is strictly inside the triangle and the child -/
def RootOK (o : Nat) (x : List (List (Int × Int)) × List ((Int × Int) × (Int × Int))) : Prop :=
  (∀ Q ∈ x.1.map (List.map dy), StrictConvexCW Q ∧ (∀ v ∈ Q, InClosed quintantTriQ v) ∧
    ∃ C ∈ (rootKids o).map halfPent, ∀ v ∈ Q, InClosed C v) ∧
  sepCheck (x.1.map (List.map dy)) (x.2.map dyLine) ∧
  787 / 1000 * areaG 0 quintantTriQ < ((x.1.map (List.map dy)).map fanArea2).sum ∧
  ∀ C ∈ (rootKids o).map halfPent, ∃ Q ∈ x.1.map (List.map dy), StrictIn quintantTriQ (mean Q) ∧ StrictIn C (mean Q)

instance (o : Nat) (x : List (List (Int × Int)) × List ((Int × Int) × (Int × Int))) : Decidable (RootOK o x) := by
  unfold RootOK; infer_instance

set_option maxRecDepth 8192 in
theorem root_table : ∀ o ∈ List.range 6, RootOK o (rootData.getD o ([], [])) := by decide +kernel

theorem quintantTri_convex : StrictConvexCW quintantTriQ ∧ 0 < areaG 0 quintantTriQ := by decide +kernel

/-- **T-overlap and T-cover, depth 0 → 1.**  The depth-0 cell of a quintant is the quintant triangle `(u, v, w)`.  For
every orientation its four children (pentagons of depth 1, scaled by 1/2) each share interior area with the triangle,
and together they cover more than `0.787` of it (certificate as in `children_cover_parent`). -/
theorem root_children_cover (o : Nat) (ho : o < 6) :
    ∃ kids : List Anchor, kids.length = 4 ∧ (∀ d, d < 4 → sToAnchor (4 * 0 + d) 1 o = .ok (kids.getD d default)) ∧
      (∀ ac ∈ kids, ∃ w : ℚ × ℚ, StrictIn quintantTriQ w ∧ StrictIn (scaleG' (pentagonQ ac) (1 / 2)) w) ∧
      ∃ pieces : List (List (ℚ × ℚ)),
        CoverCert quintantTriQ (kids.map (fun ac => scaleG' (pentagonQ ac) (1 / 2))) pieces ∧
        787 / 1000 * areaG 0 quintantTriQ < (pieces.map fanArea2).sum := by
  obtain ⟨c1, c2, c3, c4⟩ := root_table o (List.mem_range.2 ho)
  refine ⟨rootKids o, by simp [rootKids], ?_, ?_, _, ⟨c1, sepCheck_pairwise c2⟩, c3⟩
  · intro d hd
    rewrite [show 4 * 0 + d = d by omega, sToAnchor_eq d 1 o (by decide) (by omega)]
    have hc : d = 0 ∨ d = 1 ∨ d = 2 ∨ d = 3 := by omega
    rcases hc with rfl | rfl | rfl | rfl <;> rfl
  · intro ac hac
    obtain ⟨Q, _, h1, h2⟩ := c4 _ (List.mem_map.2 ⟨ac, hac, rfl⟩)
    exact ⟨_, h1, h2⟩

end A5.CP
