import A5.Lemmas.PathCodec
import A5.Model.Hier
/-! `cellToParent` refines `Path.ancestorAt` / `Path.parent` on every canonical id (core-only). -/
namespace A5

theorem i32Sub_ok (a b : Int) (h : -2147483648 ≤ a - b ∧ a - b ≤ 2147483647) : i32Sub a b = .ok (a - b) := by
  simp [i32Sub, i32InRange, h]

theorem i32Add_ok (a b : Int) (h : -2147483648 ≤ a + b ∧ a + b ≤ 2147483647) : i32Add a b = .ok (a + b) := by
  simp [i32Add, i32InRange, h]

/-- at resolution 0 the encoder ignores the segment and the curve position -/
theorem serialize_res0_any (o seg s : Nat) (ho : o < 12) (hs : seg < 5) :
    serialize ⟨o, seg, s, 0⟩ = .ok (o * 2 ^ 58 + 2 ^ 57) := by
  have hf := firstQuintant_lt o ho
  simp only [serialize, Gen.MAX_RESOLUTION, Gen.FIRST_HILBERT_RESOLUTION, Gen.WORLD_CELL,
      Gen.HILBERT_START_BIT, numOrigins, Gen.ORIGIN_ORDER, List.length]
  simp only [Int.reduceToNat, Int.reduceAdd, Int.reduceSub, Int.reduceLT, Int.reduceEq, if_true, if_false,
      Nat.reduceAdd, Nat.reduceMul, Int.reduceNeg, ge_iff_le, Int.reduceLE]
  rewrite [if_neg (by omega), u64Add_ok _ _ (by omega)]; simp only [Outcome.bind_ok]
  rewrite [u32Sub_ok _ _ (by omega)]; simp only [Outcome.bind_ok]
  rewrite [u64Shl_ok _ _ (by omega) (by omega)]; simp only [Outcome.bind_ok]
  rewrite [u32Sub_ok _ _ (by omega)]; simp only [Outcome.bind_ok]
  rewrite [u64Shl_ok _ _ (by omega) (by omega)]; simp only [Outcome.bind_ok, Nat.reduceSub, Nat.one_mul]
  rewrite [or_marker _ _ (by omega)]
  rfl

namespace Path

/-- **parent / ancestor lookup.**  On the id of any cell `p`, `cell_to_parent(id, Some(r'))` is: the world id
for `r' = -1`; the error "negative" for `r' < -1`; the error "finer" for `r' > res p`; otherwise the id of the
ancestor of `p` at resolution `r'`. -/
theorem cellToParent_enc {p : Path} (hp : WF p) (r' : Int) :
    cellToParent (enc p) (some r') =
      if r' = -1 then .ok 0 else if r' < 0 then .err .negative
      else if r' > res p then .err .targetFiner else .ok (enc (ancestorAt p r')) := by
  simp only [cellToParent, deserialize_enc_path hp, Outcome.bind_ok, res_toCell, Gen.WORLD_CELL]
  by_cases h1 : r' = -1
  · rewrite [if_pos h1, if_pos h1]; rfl
  rewrite [if_neg h1, if_neg h1]
  by_cases h2 : r' < 0
  · rewrite [if_pos h2, if_pos h2]; rfl
  rewrite [if_neg h2, if_neg h2]
  by_cases h3 : r' > res p
  · rewrite [if_pos h3, if_pos h3]; rfl
  rewrite [if_neg h3, if_neg h3]
  by_cases h4 : r' = res p
  · rewrite [if_pos h4, h4, ancestorAt_self p _ (Int.le_refl _)]; exact serialize_toCell hp
  rewrite [if_neg h4]
  cases p with
  | world => simp only [res] at h3; omega
  | face f => simp only [res] at h3 h4; omega
  | deep f k ds =>
    have hwf := hp
    obtain ⟨hf, hk, hd, hl⟩ := hp
    simp only [res] at h3 h4 ⊢
    obtain ⟨n, rfl⟩ : ∃ n : Nat, r' = (n : Int) := ⟨r'.toNat, by omega⟩
    have hn : n ≤ ds.length := by omega
    have ed : (1 + (ds.length : Int) - (n : Int)).toNat = 1 + ds.length - n := by omega
    simp only [toCell]
    rewrite [ed, u64Shr_ok _ _ (by omega)]; simp only [Outcome.bind_ok]
    have hq := firstQuintant_lt f hf
    by_cases h0 : n = 0
    · subst h0
      have ha : ancestorAt (deep f k ds) ((0 : Nat) : Int) = face f := by simp [ancestorAt]
      rewrite [ha]
      exact serialize_res0_any f _ _ hf (Nat.mod_lt _ (by omega))
    · have ha : ancestorAt (deep f k ds) (n : Int) = deep f k (ds.take (n - 1)) := by
        simp only [ancestorAt]
        rewrite [if_neg (by omega), if_neg (by omega)]
        have : ((n : Int) - 1).toNat = n - 1 := by omega
        rewrite [this]; rfl
      rewrite [ha]
      have hw : WF (deep f k (ds.take (n - 1))) := by
        have := wf_ancestorAt hwf (n : Int)
        rewrite [ha] at this; exact this
      rewrite [← serialize_toCell hw]
      refine congrArg serialize ?_
      simp only [toCell, Cell.mk.injEq, true_and]
      refine ⟨?_, ?_⟩
      · rewrite [value_take ds hd, two_pow_two_mul]
        have : 1 + ds.length - n = ds.length - (n - 1) := by omega
        rewrite [this]; rfl
      · rewrite [List.length_take]; omega

/-- with the default argument the target is `res p - 1` -/
theorem cellToParent_none {p : Path} (hp : WF p) :
    cellToParent (enc p) none = cellToParent (enc p) (some (res p - 1)) := by
  have h1 := res_ge p
  have h2 := res_le hp
  simp only [cellToParent, deserialize_enc_path hp, Outcome.bind_ok, res_toCell]
  rewrite [i32Sub_ok _ _ (by omega)]
  rfl

/-- `cell_to_parent(id, None)` of any non-world cell is the id of its parent in the tree -/
theorem cellToParent_none_enc {p : Path} (hp : WF p) (h : p ≠ world) :
    cellToParent (enc p) none = .ok (enc (parent p)) := by
  have h1 : 0 ≤ res p := by cases p <;> simp only [res] <;> first | omega | exact absurd rfl h
  rewrite [cellToParent_none hp, cellToParent_enc hp]
  by_cases h0 : res p - 1 = -1
  · rewrite [if_pos h0, parent_eq_ancestorAt, h0]
    cases p <;> simp only [ancestorAt] <;> first | rfl | (rewrite [if_pos (by omega)]; rfl)
  · rewrite [if_neg h0, if_neg (by omega), if_neg (by omega), parent_eq_ancestorAt]
    rfl

/-- on the world cell the default argument asks for resolution `-2`, which is rejected -/
theorem cellToParent_none_world : cellToParent (enc world) none = .err .negative := by
  rewrite [cellToParent_none (p := world) trivial, cellToParent_enc (p := world) trivial]
  rfl

end Path
end A5
