import A5.Lemmas.AuthalicPoly
/-! # C19: the composition bound `|g (f φ) − φ| ≤ 10⁻¹²` over `ℝ`, in exact rational arithmetic

`f = authalicForwardR`, `g = authalicInverseR` (`A5/Lemmas/RealGeo.lean`): the real twins of the float model with
the exact rational values of the generated coefficient tables, *including* the Clenshaw defect
(`authalicR_eq_series`: the `sin 8φ` coefficient is `c4 + c6`).

Method.  `f φ = φ + A φ`, `g β = β + B β` with sine polynomials `A = Σ a_k sin 2kφ`, `B = Σ b_k sin 2kβ`; so
`g (f φ) − φ = A + Σ_k b_k sin (2kφ + 2kA)`.  With the addition formula and the remainder bounds
`Real.cos_bound`, `Real.sin_bound` (`|cos y − (1 − y²/2)| ≤ 5|y|⁴/96`, `|sin y − (y − y³/6)| ≤ |y|⁵/100`):

  `g (f φ) − φ = M φ + R`,  `M = A + Σ_k b_k [sin 2kφ · (1 − (2kA)²/2) + cos 2kφ · (2kA − (2kA)³/6)]`,
  `|R| ≤ Σ_k |b_k| (5 Y_k⁴/96 + Y_k⁵/100)`,  `Y_k = 2k Σ_j |a_j|`  (`remQ`, about `9.6·10⁻¹⁴`).

`M` is a trigonometric polynomial with frequencies `≤ 48φ`; `i · z²⁴ · M = P(z)` for `z = e^{2iφ}` and a list
polynomial `P = compPoly a b` with rational coefficients computed from the tables by list arithmetic
(`main_eq_peval`, proved for *all* rational coefficients), hence `|M| ≤ Σ |P_j|` (`pabs`, about `3.8·10⁻¹⁴`).
The two closed rational facts `pabs (compPoly a b) + remQ a b ≤ 10⁻¹²` (both directions) are evaluated by
the kernel (`decide +kernel`). -/
namespace A5.AuthalicCompose
open A5 A5.RealGeo

/-! ## the real side -/

/-- the sine polynomial `Σ c_k sin 2kφ` -/
noncomputable def ser (c : C6) (φ : ℝ) : ℝ :=
  (c.c1 : ℝ) * Real.sin (2 * φ) + c.c2 * Real.sin (4 * φ) + c.c3 * Real.sin (6 * φ)
    + c.c4 * Real.sin (8 * φ) + c.c5 * Real.sin (10 * φ) + c.c6 * Real.sin (12 * φ)

/-- the third-order expansion of `sin (t + y)` in `y` -/
noncomputable def sinExp (t y : ℝ) : ℝ :=
  Real.sin t * (1 - y ^ 2 / 2) + Real.cos t * (y - y ^ 3 / 6)

/-- the main term `M` -/
noncomputable def mainR (a b : C6) (φ : ℝ) : ℝ :=
  ser a φ + ((b.c1 : ℝ) * sinExp (2 * φ) (2 * ser a φ) + b.c2 * sinExp (4 * φ) (4 * ser a φ)
    + b.c3 * sinExp (6 * φ) (6 * ser a φ) + b.c4 * sinExp (8 * φ) (8 * ser a φ)
    + b.c5 * sinExp (10 * φ) (10 * ser a φ) + b.c6 * sinExp (12 * φ) (12 * ser a φ))

def sumAbs (c : C6) : ℚ :=
  ratAbs c.c1 + ratAbs c.c2 + ratAbs c.c3 + ratAbs c.c4 + ratAbs c.c5 + ratAbs c.c6

/-- the remainder bound for one term, `5 Y⁴/96 + Y⁵/100` -/
def remTerm (Y : ℚ) : ℚ := Y ^ 4 * (5 / 96) + Y ^ 5 / 100

/-- the bound of the remainder `R` -/
def remQ (a b : C6) : ℚ :=
  ratAbs b.c1 * remTerm (2 * sumAbs a) + ratAbs b.c2 * remTerm (4 * sumAbs a)
    + ratAbs b.c3 * remTerm (6 * sumAbs a) + ratAbs b.c4 * remTerm (8 * sumAbs a)
    + ratAbs b.c5 * remTerm (10 * sumAbs a) + ratAbs b.c6 * remTerm (12 * sumAbs a)

private theorem abs_mul_sin_le (c x : ℝ) : |c * Real.sin x| ≤ |c| := by
  rw [abs_mul]; exact mul_le_of_le_one_right (abs_nonneg _) (Real.abs_sin_le_one _)

theorem abs_ser_le (c : C6) (φ : ℝ) : |ser c φ| ≤ ((sumAbs c : ℚ) : ℝ) := by
  unfold ser sumAbs
  push_cast [ratAbs_eq_abs]
  have h1 := abs_le.mp (abs_mul_sin_le c.c1 (2 * φ))
  have h2 := abs_le.mp (abs_mul_sin_le c.c2 (4 * φ))
  have h3 := abs_le.mp (abs_mul_sin_le c.c3 (6 * φ))
  have h4 := abs_le.mp (abs_mul_sin_le c.c4 (8 * φ))
  have h5 := abs_le.mp (abs_mul_sin_le c.c5 (10 * φ))
  have h6 := abs_le.mp (abs_mul_sin_le c.c6 (12 * φ))
  exact abs_le.mpr ⟨by linarith, by linarith⟩

/-- `|sin (t + y) − (third-order expansion)| ≤ 5Y⁴/96 + Y⁵/100` for `|y| ≤ Y ≤ 1` -/
theorem sin_add_expansion (t y Y : ℝ) (hy : |y| ≤ Y) (hY : Y ≤ 1) :
    |Real.sin (t + y) - sinExp t y| ≤ Y ^ 4 * (5 / 96) + Y ^ 5 / 100 := by
  have hy1 : |y| ≤ 1 := le_trans hy hY
  have hc := Real.cos_bound hy1
  have hs := Real.sin_bound hy1
  have h0 : 0 ≤ |y| := abs_nonneg y
  have p4 : |y| ^ 4 ≤ Y ^ 4 := pow_le_pow_left₀ h0 hy 4
  have p5 : |y| ^ 5 ≤ Y ^ 5 := pow_le_pow_left₀ h0 hy 5
  have e : Real.sin (t + y) - sinExp t y =
      Real.sin t * (Real.cos y - (1 - y ^ 2 / 2)) + Real.cos t * (Real.sin y - (y - y ^ 3 / 6)) := by
    rw [Real.sin_add, sinExp]; ring
  rw [e]
  have a1 : |Real.sin t * (Real.cos y - (1 - y ^ 2 / 2))| ≤ |y| ^ 4 * (5 / 96) := by
    rw [abs_mul]
    calc |Real.sin t| * |Real.cos y - (1 - y ^ 2 / 2)| ≤ 1 * |Real.cos y - (1 - y ^ 2 / 2)| :=
          mul_le_mul_of_nonneg_right (Real.abs_sin_le_one t) (abs_nonneg _)
      _ ≤ |y| ^ 4 * (5 / 96) := by rw [one_mul]; exact hc
  have a2 : |Real.cos t * (Real.sin y - (y - y ^ 3 / 6))| ≤ |y| ^ 5 / 100 := by
    rw [abs_mul]
    calc |Real.cos t| * |Real.sin y - (y - y ^ 3 / 6)| ≤ 1 * |Real.sin y - (y - y ^ 3 / 6)| :=
          mul_le_mul_of_nonneg_right (Real.abs_cos_le_one t) (abs_nonneg _)
      _ ≤ |y| ^ 5 / 100 := by rw [one_mul]; exact hs
  have := abs_add_le (Real.sin t * (Real.cos y - (1 - y ^ 2 / 2))) (Real.cos t * (Real.sin y - (y - y ^ 3 / 6)))
  linarith

/-- one term of the remainder: `|b (sin (k(φ + A)) − expansion)| ≤ |b| · remTerm (k·Abar)` -/
private theorem term_rem (b : ℚ) (k : ℚ) (φ A : ℝ) (Abar : ℚ) (hk : 0 ≤ k) (hA : |A| ≤ (Abar : ℝ))
    (h1 : k * Abar ≤ 1) :
    |(b : ℝ) * Real.sin ((k : ℝ) * (φ + A)) - b * sinExp (k * φ) (k * A)| ≤
      ((ratAbs b * remTerm (k * Abar) : ℚ) : ℝ) := by
  have hk' : (0 : ℝ) ≤ (k : ℝ) := by exact_mod_cast hk
  have hy : |(k : ℝ) * A| ≤ ((k * Abar : ℚ) : ℝ) := by
    push_cast; rw [abs_mul, abs_of_nonneg hk']; exact mul_le_mul_of_nonneg_left hA hk'
  have hY : ((k * Abar : ℚ) : ℝ) ≤ 1 := by exact_mod_cast h1
  have h := sin_add_expansion ((k : ℝ) * φ) (k * A) _ hy hY
  rw [← mul_sub, abs_mul, show (k : ℝ) * (φ + A) = k * φ + k * A by ring]
  unfold remTerm
  push_cast [ratAbs_eq_abs] at h ⊢
  exact mul_le_mul_of_nonneg_left h (abs_nonneg _)

/-- the remainder: `|B (φ + A φ) − Σ_k b_k · expansion_k| ≤ remQ a b` -/
theorem remainder_bound (a b : C6) (h12 : 12 * sumAbs a ≤ 1) (φ : ℝ) :
    |ser a φ + ser b (φ + ser a φ) - mainR a b φ| ≤ ((remQ a b : ℚ) : ℝ) := by
  have hA := abs_ser_le a φ
  have hs0 : 0 ≤ sumAbs a := by
    have : (0 : ℝ) ≤ ((sumAbs a : ℚ) : ℝ) := le_trans (abs_nonneg _) hA
    exact_mod_cast this
  have t1 := abs_le.mp (term_rem b.c1 2 φ (ser a φ) (sumAbs a) (by norm_num) hA (by linarith))
  have t2 := abs_le.mp (term_rem b.c2 4 φ (ser a φ) (sumAbs a) (by norm_num) hA (by linarith))
  have t3 := abs_le.mp (term_rem b.c3 6 φ (ser a φ) (sumAbs a) (by norm_num) hA (by linarith))
  have t4 := abs_le.mp (term_rem b.c4 8 φ (ser a φ) (sumAbs a) (by norm_num) hA (by linarith))
  have t5 := abs_le.mp (term_rem b.c5 10 φ (ser a φ) (sumAbs a) (by norm_num) hA (by linarith))
  have t6 := abs_le.mp (term_rem b.c6 12 φ (ser a φ) (sumAbs a) (by norm_num) hA (by linarith))
  have e : ∀ A : ℝ, A + ser b (φ + A) - (A + ((b.c1 : ℝ) * sinExp (2 * φ) (2 * A) + b.c2 * sinExp (4 * φ) (4 * A)
    + b.c3 * sinExp (6 * φ) (6 * A) + b.c4 * sinExp (8 * φ) (8 * A)
    + b.c5 * sinExp (10 * φ) (10 * A) + b.c6 * sinExp (12 * φ) (12 * A))) =
      ((b.c1 : ℝ) * Real.sin (((2 : ℚ) : ℝ) * (φ + A)) - b.c1 * sinExp (((2 : ℚ) : ℝ) * φ) (((2 : ℚ) : ℝ) * A))
      + ((b.c2 : ℝ) * Real.sin (((4 : ℚ) : ℝ) * (φ + A)) - b.c2 * sinExp (((4 : ℚ) : ℝ) * φ) (((4 : ℚ) : ℝ) * A))
      + ((b.c3 : ℝ) * Real.sin (((6 : ℚ) : ℝ) * (φ + A)) - b.c3 * sinExp (((6 : ℚ) : ℝ) * φ) (((6 : ℚ) : ℝ) * A))
      + ((b.c4 : ℝ) * Real.sin (((8 : ℚ) : ℝ) * (φ + A)) - b.c4 * sinExp (((8 : ℚ) : ℝ) * φ) (((8 : ℚ) : ℝ) * A))
      + ((b.c5 : ℝ) * Real.sin (((10 : ℚ) : ℝ) * (φ + A)) - b.c5 * sinExp (((10 : ℚ) : ℝ) * φ) (((10 : ℚ) : ℝ) * A))
      + ((b.c6 : ℝ) * Real.sin (((12 : ℚ) : ℝ) * (φ + A)) - b.c6 * sinExp (((12 : ℚ) : ℝ) * φ) (((12 : ℚ) : ℝ) * A)) := by
    intro A
    simp only [ser]
    push_cast
    ring
  rw [mainR, e (ser a φ)]
  unfold remQ
  push_cast at t1 t2 t3 t4 t5 t6 ⊢
  exact abs_le.mpr ⟨by linarith, by linarith⟩

/-! ## the main term is `P(z)` -/

def compPoly (a b : C6) : List ℚ :=
  let PA := sinP a
  let PA2 := pmul PA PA
  let PA3 := pmul PA2 PA
  let L2 : C6 := ⟨2 * b.c1, 8 * b.c2, 18 * b.c3, 32 * b.c4, 50 * b.c5, 72 * b.c6⟩
  let L3 : C6 := ⟨2 * b.c1, 4 * b.c2, 6 * b.c3, 8 * b.c4, 10 * b.c5, 12 * b.c6⟩
  let L4 : C6 := ⟨8 / 6 * b.c1, 64 / 6 * b.c2, 216 / 6 * b.c3, 512 / 6 * b.c4, 1000 / 6 * b.c5, 1728 / 6 * b.c6⟩
  padd (pshift 18 (padd PA (sinP b)))
    (padd (pshift 6 (pmul (sinP L2) PA2)) (padd (pshift 12 (pmul (cosP L3) PA)) (pmul (cosP L4) PA3)))

/-- the algebra behind `main_eq_peval` (`I` any square root of `−1`; `A` the value of the sine polynomial,
`SA = i·A`; `s_k = (z^k − z^{-k})/2`, `c_k = (z^k + z^{-k})/2` are atoms here) -/
private theorem main_algebra (I A SA : ℂ)
    (s1 s2 s3 s4 s5 s6 c1 c2 c3 c4 c5 c6 b1 b2 b3 b4 b5 b6 : ℂ)
    (h1 : A * I = SA) (h2 : A ^ 2 = -(SA * SA)) (h3 : I * I = -1) :
    (A + (b1 * (-I * s1 * (1 - (2 * A) ^ 2 / 2) + c1 * (2 * A - (2 * A) ^ 3 / 6))
        + b2 * (-I * s2 * (1 - (4 * A) ^ 2 / 2) + c2 * (4 * A - (4 * A) ^ 3 / 6))
        + b3 * (-I * s3 * (1 - (6 * A) ^ 2 / 2) + c3 * (6 * A - (6 * A) ^ 3 / 6))
        + b4 * (-I * s4 * (1 - (8 * A) ^ 2 / 2) + c4 * (8 * A - (8 * A) ^ 3 / 6))
        + b5 * (-I * s5 * (1 - (10 * A) ^ 2 / 2) + c5 * (10 * A - (10 * A) ^ 3 / 6))
        + b6 * (-I * s6 * (1 - (12 * A) ^ 2 / 2) + c6 * (12 * A - (12 * A) ^ 3 / 6)))) * I =
      SA + (b1 * s1 + b2 * s2 + b3 * s3 + b4 * s4 + b5 * s5 + b6 * s6)
        + (2 * b1 * s1 + 8 * b2 * s2 + 18 * b3 * s3 + 32 * b4 * s4 + 50 * b5 * s5 + 72 * b6 * s6) * (SA * SA)
        + (2 * b1 * c1 + 4 * b2 * c2 + 6 * b3 * c3 + 8 * b4 * c4 + 10 * b5 * c5 + 12 * b6 * c6) * SA
        + (8 / 6 * b1 * c1 + 64 / 6 * b2 * c2 + 216 / 6 * b3 * c3 + 512 / 6 * b4 * c4 + 1000 / 6 * b5 * c5
            + 1728 / 6 * b6 * c6) * (SA * SA * SA) := by
  have h4 : A ^ 3 * I = -(SA * SA * SA) := by
    calc A ^ 3 * I = A ^ 2 * (A * I) := by ring
      _ = -(SA * SA * SA) := by rw [h1, h2]; ring
  linear_combination
    (1 + (2 * b1 * c1 + 4 * b2 * c2 + 6 * b3 * c3 + 8 * b4 * c4 + 10 * b5 * c5 + 12 * b6 * c6)) * h1
    - (2 * b1 * s1 + 8 * b2 * s2 + 18 * b3 * s3 + 32 * b4 * s4 + 50 * b5 * s5 + 72 * b6 * s6) * h2
    - (b1 * s1 * (1 - 2 * A ^ 2) + b2 * s2 * (1 - 8 * A ^ 2) + b3 * s3 * (1 - 18 * A ^ 2)
        + b4 * s4 * (1 - 32 * A ^ 2) + b5 * s5 * (1 - 50 * A ^ 2) + b6 * s6 * (1 - 72 * A ^ 2)) * h3
    - (8 / 6 * b1 * c1 + 64 / 6 * b2 * c2 + 216 / 6 * b3 * c3 + 512 / 6 * b4 * c4 + 1000 / 6 * b5 * c5
            + 1728 / 6 * b6 * c6) * h4

/-- the unit-circle point `z = e^{2iφ}` -/
noncomputable def zOf (φ : ℝ) : ℂ := Complex.exp (((2 * φ : ℝ) : ℂ) * Complex.I)

theorem norm_zOf (φ : ℝ) : ‖zOf φ‖ = 1 := Complex.norm_exp_ofReal_mul_I _

private theorem sin_casts (φ : ℝ) :
    ((Real.sin (2 * φ) : ℝ) : ℂ) = -Complex.I * Sz (zOf φ) 1 ∧
    ((Real.sin (4 * φ) : ℝ) : ℂ) = -Complex.I * Sz (zOf φ) 2 ∧
    ((Real.sin (6 * φ) : ℝ) : ℂ) = -Complex.I * Sz (zOf φ) 3 ∧
    ((Real.sin (8 * φ) : ℝ) : ℂ) = -Complex.I * Sz (zOf φ) 4 ∧
    ((Real.sin (10 * φ) : ℝ) : ℂ) = -Complex.I * Sz (zOf φ) 5 ∧
    ((Real.sin (12 * φ) : ℝ) : ℂ) = -Complex.I * Sz (zOf φ) 6 := by
  refine ⟨?_, ?_, ?_, ?_, ?_, ?_⟩
  · have := sin_cast (2 * φ) 1
    rwa [show ((1 : ℕ) : ℝ) * (2 * φ) = 2 * φ by push_cast; ring] at this
  · have := sin_cast (2 * φ) 2
    rwa [show ((2 : ℕ) : ℝ) * (2 * φ) = 4 * φ by push_cast; ring] at this
  · have := sin_cast (2 * φ) 3
    rwa [show ((3 : ℕ) : ℝ) * (2 * φ) = 6 * φ by push_cast; ring] at this
  · have := sin_cast (2 * φ) 4
    rwa [show ((4 : ℕ) : ℝ) * (2 * φ) = 8 * φ by push_cast; ring] at this
  · have := sin_cast (2 * φ) 5
    rwa [show ((5 : ℕ) : ℝ) * (2 * φ) = 10 * φ by push_cast; ring] at this
  · have := sin_cast (2 * φ) 6
    rwa [show ((6 : ℕ) : ℝ) * (2 * φ) = 12 * φ by push_cast; ring] at this

private theorem cos_casts (φ : ℝ) :
    ((Real.cos (2 * φ) : ℝ) : ℂ) = Cz (zOf φ) 1 ∧
    ((Real.cos (4 * φ) : ℝ) : ℂ) = Cz (zOf φ) 2 ∧
    ((Real.cos (6 * φ) : ℝ) : ℂ) = Cz (zOf φ) 3 ∧
    ((Real.cos (8 * φ) : ℝ) : ℂ) = Cz (zOf φ) 4 ∧
    ((Real.cos (10 * φ) : ℝ) : ℂ) = Cz (zOf φ) 5 ∧
    ((Real.cos (12 * φ) : ℝ) : ℂ) = Cz (zOf φ) 6 := by
  refine ⟨?_, ?_, ?_, ?_, ?_, ?_⟩
  · have := cos_cast (2 * φ) 1
    rwa [show ((1 : ℕ) : ℝ) * (2 * φ) = 2 * φ by push_cast; ring] at this
  · have := cos_cast (2 * φ) 2
    rwa [show ((2 : ℕ) : ℝ) * (2 * φ) = 4 * φ by push_cast; ring] at this
  · have := cos_cast (2 * φ) 3
    rwa [show ((3 : ℕ) : ℝ) * (2 * φ) = 6 * φ by push_cast; ring] at this
  · have := cos_cast (2 * φ) 4
    rwa [show ((4 : ℕ) : ℝ) * (2 * φ) = 8 * φ by push_cast; ring] at this
  · have := cos_cast (2 * φ) 5
    rwa [show ((5 : ℕ) : ℝ) * (2 * φ) = 10 * φ by push_cast; ring] at this
  · have := cos_cast (2 * φ) 6
    rwa [show ((6 : ℕ) : ℝ) * (2 * φ) = 12 * φ by push_cast; ring] at this

/-- `i · A(φ) = Σ a_k (z^k − z^{-k})/2` -/
theorem ser_cast (a : C6) (φ : ℝ) :
    ((ser a φ : ℝ) : ℂ) = -Complex.I * ((a.c1 : ℂ) * Sz (zOf φ) 1 + a.c2 * Sz (zOf φ) 2 + a.c3 * Sz (zOf φ) 3
      + a.c4 * Sz (zOf φ) 4 + a.c5 * Sz (zOf φ) 5 + a.c6 * Sz (zOf φ) 6) := by
  obtain ⟨s1, s2, s3, s4, s5, s6⟩ := sin_casts φ
  push_cast at s1 s2 s3 s4 s5 s6
  unfold ser
  push_cast
  rw [s1, s2, s3, s4, s5, s6]
  ring

/-- **the main term is a polynomial in `z = e^{2iφ}`**: `i · z²⁴ · M(φ) = P(z)`, for all rational coefficients -/
theorem main_eq_peval (a b : C6) (φ : ℝ) :
    ((mainR a b φ : ℝ) : ℂ) * Complex.I * zOf φ ^ 24 = peval (compPoly a b) (zOf φ) := by
  have hz0 : zOf φ ≠ 0 := Complex.exp_ne_zero _
  obtain ⟨s1, s2, s3, s4, s5, s6⟩ := sin_casts φ
  obtain ⟨c1, c2, c3, c4, c5, c6⟩ := cos_casts φ
  push_cast at s1 s2 s3 s4 s5 s6 c1 c2 c3 c4 c5 c6
  have hA := ser_cast a φ
  simp only [compPoly, peval_padd, peval_pshift, peval_pmul, peval_sinP _ _ hz0, peval_cosP _ _ hz0]
  push_cast
  unfold mainR sinExp
  push_cast
  rw [s1, s2, s3, s4, s5, s6, c1, c2, c3, c4, c5, c6]
  generalize ((ser a φ : ℝ) : ℂ) = A at hA ⊢
  generalize (a.c1 : ℂ) * Sz (zOf φ) 1 + a.c2 * Sz (zOf φ) 2 + a.c3 * Sz (zOf φ) 3
      + a.c4 * Sz (zOf φ) 4 + a.c5 * Sz (zOf φ) 5 + a.c6 * Sz (zOf φ) 6 = SA at hA ⊢
  have h3 : Complex.I * Complex.I = -1 := Complex.I_mul_I
  have h1 : A * Complex.I = SA := by rw [hA]; linear_combination (-SA) * h3
  have h2 : A ^ 2 = -(SA * SA) := by rw [hA]; linear_combination (SA * SA) * h3
  have key := main_algebra Complex.I A SA (Sz (zOf φ) 1) (Sz (zOf φ) 2) (Sz (zOf φ) 3) (Sz (zOf φ) 4)
    (Sz (zOf φ) 5) (Sz (zOf φ) 6) (Cz (zOf φ) 1) (Cz (zOf φ) 2) (Cz (zOf φ) 3) (Cz (zOf φ) 4)
    (Cz (zOf φ) 5) (Cz (zOf φ) 6) b.c1 b.c2 b.c3 b.c4 b.c5 b.c6 h1 h2 h3
  linear_combination (zOf φ ^ 24) * key

/-- `|M φ| ≤ Σ |P_j|` -/
theorem abs_main_le (a b : C6) (φ : ℝ) : |mainR a b φ| ≤ ((pabs (compPoly a b) : ℚ) : ℝ) := by
  have h := norm_peval_le (compPoly a b) (zOf φ) (norm_zOf φ)
  rw [← main_eq_peval, norm_mul, norm_mul, norm_pow, norm_zOf, Complex.norm_I, Complex.norm_real] at h
  simpa using h

/-- **generic composition bound** for two sine polynomials with rational coefficients -/
theorem compose_generic (a b : C6) (h12 : 12 * sumAbs a ≤ 1) (φ : ℝ) :
    |ser a φ + ser b (φ + ser a φ)| ≤ ((pabs (compPoly a b) + remQ a b : ℚ) : ℝ) := by
  have h1 := abs_le.mp (abs_main_le a b φ)
  have h2 := abs_le.mp (remainder_bound a b h12 φ)
  push_cast
  exact abs_le.mpr ⟨by linarith, by linarith⟩

/-! ## the generated tables -/

/-- the coefficients of the sine series the code evaluates from table `c` (`authalicR_eq_series`: the `sin 8φ`
coefficient is `c[3] + c[5]`, the Clenshaw defect included), as exact rationals -/
def tab (c : List FConst) : C6 :=
  ⟨coeffQ c 0, coeffQ c 1, coeffQ c 2, coeffQ c 3 + coeffQ c 5, coeffQ c 4, coeffQ c 5⟩

theorem authalicR_tab (c : List FConst) (φ : ℝ) :
    authalicR (coeffR c 0) (coeffR c 1) (coeffR c 2) (coeffR c 3) (coeffR c 4) (coeffR c 5) φ
      = φ + ser (tab c) φ := by
  rw [authalicR_eq_series]
  simp only [ser, tab, coeffR, coeffQ]
  push_cast
  ring

theorem authalicForwardR_eq (φ : ℝ) : authalicForwardR φ = φ + ser (tab Gen.GEODETIC_TO_AUTHALIC) φ :=
  authalicR_tab _ φ

theorem authalicInverseR_eq (β : ℝ) : authalicInverseR β = β + ser (tab Gen.AUTHALIC_TO_GEODETIC) β :=
  authalicR_tab _ β

/-- kernel-checked closed rational facts: `Σ|P_j| + (remainder bound) ≤ 1.35·10⁻¹³` in both directions, and
`12 Σ|a_k| ≤ 1` (so that the remainder bounds of `sin`, `cos` apply) -/
theorem numeric_bounds :
    pabs (compPoly (tab Gen.GEODETIC_TO_AUTHALIC) (tab Gen.AUTHALIC_TO_GEODETIC))
      + remQ (tab Gen.GEODETIC_TO_AUTHALIC) (tab Gen.AUTHALIC_TO_GEODETIC) ≤ 135 / 1000000000000000 ∧
    pabs (compPoly (tab Gen.AUTHALIC_TO_GEODETIC) (tab Gen.GEODETIC_TO_AUTHALIC))
      + remQ (tab Gen.AUTHALIC_TO_GEODETIC) (tab Gen.GEODETIC_TO_AUTHALIC) ≤ 135 / 1000000000000000 ∧
    12 * sumAbs (tab Gen.GEODETIC_TO_AUTHALIC) ≤ 1 ∧ 12 * sumAbs (tab Gen.AUTHALIC_TO_GEODETIC) ≤ 1 := by
  decide +kernel

/-- the size of the two parts (kernel-checked): the main term is below `3.9·10⁻¹⁴`, the remainder bound below
`9.7·10⁻¹⁴`; the main term is not identically zero (the round trip is *not* exact) -/
theorem numeric_parts :
    pabs (compPoly (tab Gen.GEODETIC_TO_AUTHALIC) (tab Gen.AUTHALIC_TO_GEODETIC)) < 39 / 1000000000000000 ∧
    remQ (tab Gen.GEODETIC_TO_AUTHALIC) (tab Gen.AUTHALIC_TO_GEODETIC) < 97 / 1000000000000000 ∧
    0 < pabs (compPoly (tab Gen.GEODETIC_TO_AUTHALIC) (tab Gen.AUTHALIC_TO_GEODETIC)) := by
  decide +kernel

/-- **C19 over `ℝ`, sharp form**: geodetic → authalic → geodetic returns the input within `1.35·10⁻¹³` rad,
for every real latitude `φ`. -/
theorem inverse_forward_sharp (φ : ℝ) : |authalicInverseR (authalicForwardR φ) - φ| ≤ 1.35e-13 := by
  have h := compose_generic (tab Gen.GEODETIC_TO_AUTHALIC) (tab Gen.AUTHALIC_TO_GEODETIC)
    numeric_bounds.2.2.1 φ
  have hn : ((_ : ℚ) : ℝ) ≤ ((135 / 1000000000000000 : ℚ) : ℝ) := Rat.cast_le.mpr numeric_bounds.1
  rw [authalicInverseR_eq, authalicForwardR_eq]
  rw [show φ + ser (tab Gen.GEODETIC_TO_AUTHALIC) φ
        + ser (tab Gen.AUTHALIC_TO_GEODETIC) (φ + ser (tab Gen.GEODETIC_TO_AUTHALIC) φ) - φ
      = ser (tab Gen.GEODETIC_TO_AUTHALIC) φ
        + ser (tab Gen.AUTHALIC_TO_GEODETIC) (φ + ser (tab Gen.GEODETIC_TO_AUTHALIC) φ) by ring]
  refine le_trans h (le_trans hn ?_)
  norm_num

/-- authalic → geodetic → authalic returns the input within `1.35·10⁻¹³` rad, for every real `β`. -/
theorem forward_inverse_sharp (β : ℝ) : |authalicForwardR (authalicInverseR β) - β| ≤ 1.35e-13 := by
  have h := compose_generic (tab Gen.AUTHALIC_TO_GEODETIC) (tab Gen.GEODETIC_TO_AUTHALIC)
    numeric_bounds.2.2.2 β
  have hn : ((_ : ℚ) : ℝ) ≤ ((135 / 1000000000000000 : ℚ) : ℝ) := Rat.cast_le.mpr numeric_bounds.2.1
  rw [authalicForwardR_eq, authalicInverseR_eq]
  rw [show β + ser (tab Gen.AUTHALIC_TO_GEODETIC) β
        + ser (tab Gen.GEODETIC_TO_AUTHALIC) (β + ser (tab Gen.AUTHALIC_TO_GEODETIC) β) - β
      = ser (tab Gen.AUTHALIC_TO_GEODETIC) β
        + ser (tab Gen.GEODETIC_TO_AUTHALIC) (β + ser (tab Gen.AUTHALIC_TO_GEODETIC) β) by ring]
  refine le_trans h (le_trans hn ?_)
  norm_num

/-- **C19 over `ℝ`** (the bound of the property): `|g (f φ) − φ| ≤ 10⁻¹²` for every real `φ`, where
`f = authalicForwardR`, `g = authalicInverseR` are the real twins of the float conversions with the exact
rational values of the generated coefficients. -/
theorem compose_bound (φ : ℝ) : |authalicInverseR (authalicForwardR φ) - φ| ≤ 1e-12 :=
  le_trans (inverse_forward_sharp φ) (by norm_num)

/-- … and the other order, `|f (g β) − β| ≤ 10⁻¹²` for every real `β`. -/
theorem compose_bound' (β : ℝ) : |authalicForwardR (authalicInverseR β) - β| ≤ 1e-12 :=
  le_trans (forward_inverse_sharp β) (by norm_num)

/-- the same in terms of the generic twin `applyCoefficientsG` at `ℝ` (the expression tree the float model
evaluates, `A5.G.authalicForward_tie` / `authalicInverse_tie`) -/
theorem compose_bound_twin (φ : ℝ) :
    |G.applyCoefficientsG Real.sin Real.cos 2
        (G.applyCoefficientsG Real.sin Real.cos 2 φ
          (coeffR Gen.GEODETIC_TO_AUTHALIC 0) (coeffR Gen.GEODETIC_TO_AUTHALIC 1)
          (coeffR Gen.GEODETIC_TO_AUTHALIC 2) (coeffR Gen.GEODETIC_TO_AUTHALIC 3)
          (coeffR Gen.GEODETIC_TO_AUTHALIC 4) (coeffR Gen.GEODETIC_TO_AUTHALIC 5))
        (coeffR Gen.AUTHALIC_TO_GEODETIC 0) (coeffR Gen.AUTHALIC_TO_GEODETIC 1)
        (coeffR Gen.AUTHALIC_TO_GEODETIC 2) (coeffR Gen.AUTHALIC_TO_GEODETIC 3)
        (coeffR Gen.AUTHALIC_TO_GEODETIC 4) (coeffR Gen.AUTHALIC_TO_GEODETIC 5) - φ| ≤ 1e-12 :=
  compose_bound φ

/-! ## non-vacuity -/

/-- the theorems have no hypotheses; instances at a concrete latitude (1 rad ≈ 57.3°) and at the pole -/
example : |authalicInverseR (authalicForwardR 1) - 1| ≤ 1e-12 := compose_bound 1
example : |authalicForwardR (authalicInverseR (Real.pi / 2)) - Real.pi / 2| ≤ 1e-12 := compose_bound' _
/-- the hypothesis of `compose_generic` is met by a non-trivial coefficient vector -/
example (φ : ℝ) : |ser ⟨1 / 100, 0, 0, 0, 0, 0⟩ φ + ser ⟨-1 / 100, 0, 0, 0, 0, 0⟩ (φ + ser ⟨1 / 100, 0, 0, 0, 0, 0⟩ φ)|
    ≤ ((pabs (compPoly ⟨1 / 100, 0, 0, 0, 0, 0⟩ ⟨-1 / 100, 0, 0, 0, 0, 0⟩)
        + remQ ⟨1 / 100, 0, 0, 0, 0, 0⟩ ⟨-1 / 100, 0, 0, 0, 0, 0⟩ : ℚ) : ℝ) :=
  compose_generic _ _ (by decide +kernel) φ
/-- the coefficient vectors are the generated ones (first entry shown), and they are not trivial -/
example : (tab Gen.GEODETIC_TO_AUTHALIC).c1 = -322704147042479 * (2 : Rat) ^ (-57 : Int) ∧
    (tab Gen.AUTHALIC_TO_GEODETIC).c4 ≠ coeffQ Gen.AUTHALIC_TO_GEODETIC 3 := by decide +kernel

end A5.AuthalicCompose
