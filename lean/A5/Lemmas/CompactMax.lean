import A5.Lemmas.CompactMaxMerge
/-! # `compact` on antichains of cells: the result is the canonical cover (core-only)

* sorting (`sortByKey`) and de-duplication (`eraseDups`) facts;
* `compactLoop_spec`: from a key-sorted antichain the loop terminates within its fuel, never fails, and returns a
  key-sorted antichain with the same region and without complete sibling group;
* `compact_spec`: the same for `compact` on the ids of any (unordered, possibly repeating) antichain;
* `compact_fixed`: a key-sorted antichain without complete group is returned unchanged. -/
namespace A5.CompactMax
open A5 A5.Path A5.Canonical

/-! ### insertion sort -/

theorem insertByKey_perm (key : Nat → Nat) (x : Nat) (l : List Nat) : (insertByKey key x l).Perm (x :: l) := by
  induction l with
  | nil => exact List.Perm.refl _
  | cons y ys ih =>
    simp only [insertByKey]
    split
    · exact List.Perm.refl _
    · exact ((List.Perm.cons y ih).trans (List.Perm.swap x y ys))

theorem sortByKey_perm (key : Nat → Nat) (l : List Nat) : (sortByKey key l).Perm l := by
  induction l with
  | nil => exact List.Perm.refl _
  | cons a l ih =>
    have : sortByKey key (a :: l) = insertByKey key a (sortByKey key l) := rfl
    rw [this]
    exact (insertByKey_perm key a _).trans (List.Perm.cons a ih)

theorem insertByKey_sorted (key : Nat → Nat) (x : Nat) (l : List Nat)
    (h : l.Pairwise (fun a b => key a ≤ key b)) : (insertByKey key x l).Pairwise (fun a b => key a ≤ key b) := by
  induction l with
  | nil => simp [insertByKey]
  | cons y ys ih =>
    have ⟨h1, h2⟩ := List.pairwise_cons.1 h
    simp only [insertByKey]
    split
    · rename_i hxy
      refine List.pairwise_cons.2 ⟨?_, h⟩
      intro z hz
      rcases List.mem_cons.1 hz with e | hz
      · rw [e]; exact hxy
      · exact Nat.le_trans hxy (h1 z hz)
    · rename_i hxy
      refine List.pairwise_cons.2 ⟨?_, ih h2⟩
      intro z hz
      rcases List.mem_cons.1 ((insertByKey_perm key x ys).mem_iff.1 hz) with e | hz
      · rw [e]; omega
      · exact h1 z hz

theorem sortByKey_sorted (key : Nat → Nat) (l : List Nat) : (sortByKey key l).Pairwise (fun a b => key a ≤ key b) := by
  induction l with
  | nil => exact List.Pairwise.nil
  | cons a l ih => exact insertByKey_sorted key a _ ih

/-- sorting a sorted list changes nothing -/
theorem sortByKey_of_sorted (key : Nat → Nat) (l : List Nat) (h : l.Pairwise (fun a b => key a ≤ key b)) :
    sortByKey key l = l := by
  induction l with
  | nil => rfl
  | cons a l ih =>
    have ⟨h1, h2⟩ := List.pairwise_cons.1 h
    have : sortByKey key (a :: l) = insertByKey key a (sortByKey key l) := rfl
    rw [this, ih h2]
    cases l with
    | nil => rfl
    | cons y ys => simp only [insertByKey]; rw [if_pos (h1 y (List.mem_cons_self ..))]

/-! ### `eraseDups` -/

theorem nodup_eraseDups : ∀ (n : Nat) (l : List Nat), l.length ≤ n → l.eraseDups.Nodup := by
  intro n
  induction n with
  | zero =>
    intro l h
    have : l = [] := List.eq_nil_of_length_eq_zero (by omega)
    subst this; simp
  | succ n ih =>
    intro l h
    cases l with
    | nil => simp
    | cons a as =>
      rw [List.eraseDups_cons, List.nodup_cons]
      refine ⟨?_, ih _ ?_⟩
      · rw [List.mem_eraseDups, List.mem_filter]
        rintro ⟨_, h2⟩
        simp at h2
      · have := List.length_filter_le (fun b => !b == a) as
        simp only [List.length_cons] at h; omega

theorem eraseDups_of_nodup (l : List Nat) (h : l.Nodup) : l.eraseDups = l := by
  induction l with
  | nil => rfl
  | cons a as ih =>
    have ⟨h1, h2⟩ := List.nodup_cons.1 h
    rw [List.eraseDups_cons]
    have : as.filter (fun b => !b == a) = as := by
      rw [List.filter_eq_self]
      intro b hb
      have : b ≠ a := fun e => h1 (e ▸ hb)
      simp [this]
    rw [this, ih h2]

/-! ### ids and paths -/

theorem keyMap_eq {L : List Path} (hwf : ∀ p ∈ L, WF p) :
    (L.map enc).map hierarchyKey = L.map pkey := by
  rw [List.map_map]
  exact List.map_congr_left (fun p hp => hierarchyKey_enc (hwf p hp))

/-- a list of ids of well-formed cells is the image of a list of cells -/
theorem exists_paths (ids : List Nat) (h : ∀ x ∈ ids, ∃ p, WF p ∧ enc p = x) :
    ∃ U : List Path, U.map enc = ids ∧ ∀ p ∈ U, WF p := by
  induction ids with
  | nil => exact ⟨[], rfl, fun p hp => by simp at hp⟩
  | cons x xs ih =>
    obtain ⟨p, hp, e⟩ := h x (List.mem_cons_self ..)
    obtain ⟨U, hU, hwf⟩ := ih (fun y hy => h y (List.mem_cons_of_mem _ hy))
    refine ⟨p :: U, by rw [List.map_cons, e, hU], ?_⟩
    intro q hq
    rcases List.mem_cons.1 hq with e | hq
    · rw [e]; exact hp
    · exact hwf q hq

theorem mapOutcome_canon (A : List Path) (hwf : ∀ p ∈ A, WF p) :
    mapOutcome (fun c => deserialize c >>= serialize) (A.map enc) = .ok (A.map enc) := by
  induction A with
  | nil => rfl
  | cons p A ih =>
    have hp := hwf p (List.mem_cons_self ..)
    simp only [List.map_cons, mapOutcome]
    rewrite [deserialize_enc_path hp]; simp only [Outcome.bind_ok]
    rewrite [serialize_toCell hp]; simp only [Outcome.bind_ok]
    rewrite [ih (fun q hq => hwf q (List.mem_cons_of_mem _ hq))]
    simp only [Outcome.bind_ok]

theorem keySorted_iff_map {L : List Path} : KeySorted L ↔ (L.map pkey).Pairwise (· < ·) := by
  unfold KeySorted; rw [List.pairwise_map]

theorem keySorted_nodup {L : List Path} (h : KeySorted L) : L.Nodup :=
  List.Pairwise.imp (fun {a b} (hlt : pkey a < pkey b) => fun e => by rw [e] at hlt; omega) h

/-! ### the loop -/

theorem compactLoop_spec : ∀ (fuel : Nat) (L : List Path), Inv L → L.length < fuel →
    ∃ R, compactLoop fuel (L.map enc) = .ok (R.map enc) ∧ Inv R ∧ SameRegion L R ∧ NoHead R := by
  intro fuel
  induction fuel with
  | zero => intro L _ h; omega
  | succ fuel ih =>
    intro L hi hlen
    obtain ⟨hm, _, hlt⟩ := pscan_spec L.length L (Nat.le_refl _) hi.wf
    simp only [compactLoop]
    rewrite [compactScan_enc L 0 hi.wf]
    simp only [Outcome.bind_ok]
    cases hch : (pscan L 0).2 with
    | true =>
      simp only [if_true]
      obtain ⟨R, h1, h2, h3, h4⟩ := ih (pscan L 0).1 (hm.inv hi) (by have := hlt hch; omega)
      exact ⟨R, h1, h2, sameRegion_trans hm.sameRegion h3, h4⟩
    | false =>
      simp only [Bool.false_eq_true, if_false]
      obtain ⟨hnh, he⟩ := noHead_of_pscan L hch
      rw [he]
      exact ⟨L, rfl, hi, sameRegion_refl _, hnh⟩

/-! ### `compact` -/

/-- the sorted, de-duplicated id list of an antichain is the id list of a key-sorted antichain with the same
members -/
theorem sorted_input (A : List Path) (hwf : ∀ p ∈ A, WF p) (ha : Antichain A) :
    ∃ S, S.map enc = sortByKey hierarchyKey (A.map enc).eraseDups ∧ Inv S ∧ (∀ p, p ∈ S ↔ p ∈ A) := by
  have hperm := sortByKey_perm hierarchyKey (A.map enc).eraseDups
  have hmem : ∀ x, x ∈ sortByKey hierarchyKey (A.map enc).eraseDups ↔ x ∈ A.map enc := by
    intro x; rw [hperm.mem_iff, List.mem_eraseDups]
  obtain ⟨S, hS, hSwf⟩ := exists_paths (sortByKey hierarchyKey (A.map enc).eraseDups) (by
    intro x hx
    obtain ⟨p, hp, e⟩ := List.mem_map.1 ((hmem x).1 hx)
    exact ⟨p, hwf p hp, e⟩)
  have hiff : ∀ p, p ∈ S ↔ p ∈ A := by
    intro p
    constructor
    · intro hp
      have : enc p ∈ S.map enc := List.mem_map.2 ⟨p, hp, rfl⟩
      rw [hS, hmem] at this
      obtain ⟨a, haA, e⟩ := List.mem_map.1 this
      rw [← enc_injective (hwf a haA) (hSwf p hp) e]; exact haA
    · intro hp
      have : enc p ∈ A.map enc := List.mem_map.2 ⟨p, hp, rfl⟩
      rw [← hmem, ← hS] at this
      obtain ⟨s, hsS, e⟩ := List.mem_map.1 this
      rw [← enc_injective (hSwf s hsS) (hwf p hp) e]; exact hsS
  refine ⟨S, hS, ⟨hSwf, antichain_of_subset (fun x hx => (hiff x).1 hx) ha, ?_⟩, hiff⟩
  -- strictly sorted: sorted and duplicate-free
  have hsorted := sortByKey_sorted hierarchyKey (A.map enc).eraseDups
  have hnodup : (sortByKey hierarchyKey (A.map enc).eraseDups).Nodup :=
    hperm.nodup_iff.2 (nodup_eraseDups _ _ (Nat.le_refl _))
  rw [← hS] at hsorted hnodup
  have h1 : S.Pairwise (fun a b => hierarchyKey (enc a) ≤ hierarchyKey (enc b)) :=
    (List.pairwise_map (f := enc) (R := fun a b => hierarchyKey a ≤ hierarchyKey b)).1 hsorted
  have h2 : S.Pairwise (fun a b => enc a ≠ enc b) :=
    (List.pairwise_map (f := enc) (R := fun a b => a ≠ b)).1 hnodup
  refine List.Pairwise.imp_of_mem ?_ (h1.and h2)
  intro a b haS hbS ⟨hle, hne⟩
  rw [hierarchyKey_enc (hSwf a haS), hierarchyKey_enc (hSwf b hbS)] at hle
  have : pkey a ≠ pkey b := fun e => hne (by rw [pkey_inj (hSwf a haS) (hSwf b hbS) e])
  omega

/-- **main specification of `compact`** on the ids of an arbitrary (unordered, possibly repeating) list of
well-formed, pairwise non-overlapping cells: it succeeds, and the result is the id list of a strictly key-sorted
antichain `R` covering the same region, without complete sibling group. -/
theorem compact_spec (A : List Path) (hwf : ∀ p ∈ A, WF p) (ha : Antichain A) :
    ∃ R, compact (A.map enc) = .ok (R.map enc) ∧ Inv R ∧ SameRegion A R ∧ NoCompleteGroup R := by
  cases A with
  | nil =>
    exact ⟨[], rfl, ⟨fun p hp => by simp at hp, fun p hp => by simp at hp, List.Pairwise.nil⟩, sameRegion_refl _,
      by rintro ⟨P, _, _, h⟩; exact absurd (h _ (child_zero_mem P)) (by simp)⟩
  | cons a A =>
    obtain ⟨S, hS, hSi, hSm⟩ := sorted_input (a :: A) hwf ha
    have hlen : ((a :: A).map enc).eraseDups.length = S.length := by
      rw [← (sortByKey_perm hierarchyKey _).length_eq, ← hS, List.length_map]
    obtain ⟨R, h1, h2, h3, h4⟩ := compactLoop_spec (S.length + 1) S hSi (by omega)
    refine ⟨R, ?_, h2, sameRegion_trans (sameRegion_of_mem_iff (fun p => (hSm p).symm)) h3,
      noCompleteGroup_of_noHead h2 h4⟩
    unfold compact
    rewrite [if_neg (by simp), mapOutcome_canon _ hwf]
    simp only [Outcome.bind_ok]
    rewrite [hlen, ← hS]
    exact h1

/-- a strictly key-sorted antichain without complete sibling group is a fixed point of `compact` -/
theorem compact_fixed (R : List Path) (hi : Inv R) (hm : NoCompleteGroup R) : compact (R.map enc) = .ok (R.map enc) := by
  cases R with
  | nil => rfl
  | cons a R =>
    have hnd : ((a :: R).map enc).Nodup := by
      refine (List.pairwise_map (f := enc) (R := fun a b => a ≠ b)).2 ?_
      refine List.Pairwise.imp_of_mem ?_ hi.sorted
      intro x y hx hy hlt e
      rw [enc_injective (hi.wf x hx) (hi.wf y hy) e] at hlt
      omega
    have hso : ((a :: R).map enc).Pairwise (fun x y => hierarchyKey x ≤ hierarchyKey y) := by
      refine (List.pairwise_map (f := enc) (R := fun a b => hierarchyKey a ≤ hierarchyKey b)).2 ?_
      refine List.Pairwise.imp_of_mem ?_ hi.sorted
      intro x y hx hy hlt
      rw [hierarchyKey_enc (hi.wf x hx), hierarchyKey_enc (hi.wf y hy)]
      omega
    unfold compact
    rewrite [if_neg (by simp), mapOutcome_canon _ hi.wf]
    simp only [Outcome.bind_ok]
    rewrite [eraseDups_of_nodup _ hnd, sortByKey_of_sorted _ _ hso]
    simp only [compactLoop]
    rewrite [compactScan_enc _ 0 hi.wf, pscan_of_noHead _ (noHead_of_noCompleteGroup hi.wf hm)]
    simp only [Outcome.bind_ok, Bool.false_eq_true, if_false]

end A5.CompactMax
