import A5.Lemmas.ChildPentagon2
/-! # Two cell pentagons of the same depth: disjointness certificates (planar C03), part 1: geometry

Polygons are clockwise lists of rational points as in `ChildPentagon2.lean` (`StrictIn P w`: `w` strictly to the right of
every edge).  This file provides, in exact rational arithmetic,

* `affine_min`: an affine function that has a local minimum (among its two neighbours) at a convex vertex `b` of a
  polygon is `≥ f b` at every point strictly inside the two edges meeting at `b` (an explicit Farkas identity, `ring`);
* `MinAt`, `SepIdx`, `SepCode`: decidable separation certificates "edge `e` of `P`, vertex `b` of `Q` at which
  `cross e` is minimal and `≥ -μ`" and their soundness `SepCode.disjoint`: no point lies inside both polygons by more
  than the margin `μ` (`DeepIn μ`: every edge cross product `< -μ`);
* `far_disjoint`: two pentagons whose anchors' offsets differ by more than 2 in the hexagonal lattice norm have no
  common interior point at all (all eight local shapes stay within `4/3` lattice units of their anchor in the six
  lattice directions: `shape_bounds`);
* `anchors_disjoint_of_cfg`: the statement for `pentagonQ a`, `pentagonQ b` reduces to the two local shapes and the
  offset difference (`anchorCfg`): the common translation `BASIS * a.offset` cancels exactly.

**Why a margin.**  The plain statement "no point is strictly inside both pentagons" is FALSE for `pentagonQ` (exact
arithmetic on the `f64` runtime constants): neighbouring pentagons that ideally share an edge overlap in a sliver about
`3·10⁻¹⁷` lattice units wide, because the rounded seed vertices do not satisfy the ideal relations exactly (e.g. the
`x` of vertex `d` differs from `b.x + v.x` by one unit of `2⁻⁵⁵`).  See `pentagons_disjoint_statement_false` in
`PentagonDisjoint5.lean` for a kernel-checked witness.  What is true, and proved for every depth, is disjointness up to
the margin `mu = 2⁻⁵⁴`. -/
namespace A5.PD
open A5 A5.HilbertLocate A5.PG A5.CP

/-! ## inside by a margin -/

/-- inside a convex clockwise polygon by the margin `μ`: every edge cross product is `< -μ`
(`cross = |edge| · distance to the edge line`) -/
def DeepIn (μ : ℚ) (P : List Pt) (q : Pt) : Prop := ∀ e ∈ edges P, cross e.1 e.2 q < -μ
instance (μ : ℚ) (P : List Pt) (q : Pt) : Decidable (DeepIn μ P q) := by unfold DeepIn; infer_instance

theorem DeepIn.strictIn {μ : ℚ} {P : List Pt} {q : Pt} (hμ : 0 ≤ μ) (h : DeepIn μ P q) : StrictIn P q :=
  fun e he => lt_of_lt_of_le (h e he) (by linarith)

theorem strictIn_iff_deepIn (P : List Pt) (q : Pt) : StrictIn P q ↔ DeepIn 0 P q := by
  unfold StrictIn DeepIn
  simp only [neg_zero]

theorem cross_unshift (t a b q : Pt) : cross (shift t a) (shift t b) q = cross a b (q.1 - t.1, q.2 - t.2) := by
  unfold cross shift; ring

/-- remove a translation -/
theorem DeepIn.unshift {μ : ℚ} {P : List Pt} {t q : Pt} (h : DeepIn μ (P.map (shift t)) q) :
    DeepIn μ P (q.1 - t.1, q.2 - t.2) := by
  intro e he
  have := h (Prod.map (shift t) (shift t) e) (by rewrite [edges_map]; exact List.mem_map.2 ⟨e, he, rfl⟩)
  rewrite [Prod.map_fst, Prod.map_snd, cross_unshift] at this
  exact this

/-! ## an affine function on a convex corner -/

def IsAffine (f : Pt → ℚ) : Prop := ∃ α β γ : ℚ, ∀ p : Pt, f p = α * p.1 + β * p.2 + γ

theorem cross_affine (a b : Pt) : IsAffine (cross a b) :=
  ⟨-(b.2 - a.2), b.1 - a.1, (b.2 - a.2) * a.1 - (b.1 - a.1) * a.2, fun p => by unfold cross; ring⟩

/-- **corner lemma.**  `a → b → c` a clockwise convex corner, `w` strictly to the right of both edges, `f` affine with
`f b ≤ f a` and `f b ≤ f c`: then `f b ≤ f w`.  (`D·(f w − f b) = (f c − f b)·g₁ w + (f a − f b)·g₂ w` with
`D = −cross a b c > 0`, `g₁ = −cross a b`, `g₂ = −cross b c`.) -/
theorem affine_min {f : Pt → ℚ} (hf : IsAffine f) (a b c w : Pt) (hc : cross a b c < 0) (h1 : cross a b w < 0)
    (h2 : cross b c w < 0) (ha : f b ≤ f a) (hcc : f b ≤ f c) : f b ≤ f w := by
  obtain ⟨α, β, γ, hf⟩ := hf
  have key : (-(cross a b c)) * (f w - f b) =
      (f c - f b) * (-(cross a b w)) + (f a - f b) * (-(cross b c w)) := by
    rewrite [hf w, hf b, hf c, hf a]; unfold cross; ring
  have hr : 0 ≤ (f c - f b) * (-(cross a b w)) + (f a - f b) * (-(cross b c w)) :=
    add_nonneg (mul_nonneg (by linarith) (by linarith)) (mul_nonneg (by linarith) (by linarith))
  rewrite [← key] at hr
  by_contra hneg
  have hlt : f w - f b < 0 := by linarith [not_le.1 hneg]
  have : (-(cross a b c)) * (f w - f b) < 0 := mul_neg_of_pos_of_neg (by linarith) hlt
  linarith

/-! ## the certificate "minimum at a vertex" -/

/-- pairs of consecutive edges `((vᵢ, vᵢ₊₁), (vᵢ₊₁, vᵢ₊₂))`, cyclically -/
def pairs (Q : List Pt) : List ((Pt × Pt) × (Pt × Pt)) := (edges Q).zip ((edges Q).tail ++ (edges Q).take 1)

theorem mem_pairs {Q : List Pt} {ee : (Pt × Pt) × (Pt × Pt)} (h : ee ∈ pairs Q) : ee.1 ∈ edges Q ∧ ee.2 ∈ edges Q := by
  obtain ⟨e1, e2⟩ := ee
  obtain ⟨h1, h2⟩ := List.of_mem_zip h
  refine ⟨h1, ?_⟩
  rcases List.mem_append.1 h2 with h | h
  · exact List.mem_of_mem_tail h
  · exact List.mem_of_mem_take h

/-- at the common vertex `b = ee.1.2 = ee.2.1` of the two edges the corner is convex, `f` is not larger than at the two
neighbours, and `m ≤ f b` -/
def MinOK (f : Pt → ℚ) (m : ℚ) (ee : (Pt × Pt) × (Pt × Pt)) : Prop :=
  ee.1.2 = ee.2.1 ∧ cross ee.1.1 ee.1.2 ee.2.2 < 0 ∧ f ee.1.2 ≤ f ee.1.1 ∧ f ee.1.2 ≤ f ee.2.2 ∧ m ≤ f ee.1.2
instance (f : Pt → ℚ) (m : ℚ) (ee : (Pt × Pt) × (Pt × Pt)) : Decidable (MinOK f m ee) := by
  unfold MinOK; infer_instance

theorem MinOK.le {f : Pt → ℚ} (hf : IsAffine f) {m : ℚ} {Q : List Pt} {ee : (Pt × Pt) × (Pt × Pt)} {w : Pt}
    (hm : ee ∈ pairs Q) (h : MinOK f m ee) (hQ : StrictIn Q w) : m ≤ f w := by
  obtain ⟨m1, m2⟩ := mem_pairs hm
  obtain ⟨e, hc, ha, hcc, hb⟩ := h
  have h1 := hQ _ m1
  have h2 := hQ _ m2
  rewrite [← e] at h2
  exact le_trans hb (affine_min hf _ _ _ w hc h1 h2 ha hcc)

/-- `f ≥ m` on the interior of `Q`, certified at some vertex -/
def MinAt (Q : List Pt) (f : Pt → ℚ) (m : ℚ) : Prop := ∃ ee ∈ pairs Q, MinOK f m ee
instance (Q : List Pt) (f : Pt → ℚ) (m : ℚ) : Decidable (MinAt Q f m) := by unfold MinAt; infer_instance

theorem MinAt.le {f : Pt → ℚ} (hf : IsAffine f) {m : ℚ} {Q : List Pt} {w : Pt} (h : MinAt Q f m) (hQ : StrictIn Q w) :
    m ≤ f w := by
  obtain ⟨ee, hm, h⟩ := h
  exact h.le hf hm hQ

/-! ## separation up to a margin -/

/-- edge number `i` of `P` has every point of the interior of `Q` on its outer side up to `μ`, certified at the `j`-th
corner of `Q` -/
def SepIdx (μ : ℚ) (P Q : List Pt) (i j : Nat) : Prop :=
  match (edges P)[i]?, (pairs Q)[j]? with
  | some e, some ee => MinOK (cross e.1 e.2) (-μ) ee
  | _, _ => False
instance (μ : ℚ) (P Q : List Pt) (i j : Nat) : Decidable (SepIdx μ P Q i j) := by
  unfold SepIdx; split <;> infer_instance

theorem SepIdx.disjoint {μ : ℚ} {P Q : List Pt} {i j : Nat} (h : SepIdx μ P Q i j) :
    ¬∃ w, DeepIn μ P w ∧ StrictIn Q w := by
  rintro ⟨w, hP, hQ⟩
  unfold SepIdx at h
  split at h
  · rename_i e ee he hee
    have h1 := hP e (List.mem_of_getElem? he)
    have h2 := h.le (cross_affine e.1 e.2) (List.mem_of_getElem? hee) hQ
    linarith
  · exact h

/-- certificate code `h = 25·side + 5·i + j`: side 0 uses edge `i` of `P` and corner `j` of `Q`, side 1 the converse -/
def SepCode (μ : ℚ) (P Q : List Pt) (h : Nat) : Prop :=
  if h < 25 then SepIdx μ P Q (h / 5) (h % 5) else SepIdx μ Q P ((h - 25) / 5) (h % 5)
instance (μ : ℚ) (P Q : List Pt) (h : Nat) : Decidable (SepCode μ P Q h) := by unfold SepCode; infer_instance

/-- **soundness of the certificate**: no point is inside both polygons by more than `μ` -/
theorem SepCode.disjoint {μ : ℚ} (hμ : 0 ≤ μ) {P Q : List Pt} {h : Nat} (hc : SepCode μ P Q h) :
    ¬∃ w, DeepIn μ P w ∧ DeepIn μ Q w := by
  rintro ⟨w, hP, hQ⟩
  unfold SepCode at hc
  split at hc
  · exact hc.disjoint ⟨w, hP, hQ.strictIn hμ⟩
  · exact hc.disjoint ⟨w, hQ, hP.strictIn hμ⟩

/-! ## far pairs -/

def linD (d : ℚ × ℚ) (p : Pt) : ℚ := d.1 * p.1 + d.2 * p.2

theorem linD_affine (d : ℚ × ℚ) : IsAffine (linD d) := ⟨d.1, d.2, 0, fun p => by unfold linD; ring⟩

/-- the linear functional on the face plane that reads `κ · (p·i + q·j)` on the lattice point `BASIS · (i, j)` -/
def dirOf (pq : Int × Int) : ℚ × ℚ :=
  ((pq.1 : ℚ) * (-basisQ.2.2.2) + (pq.2 : ℚ) * basisQ.2.2.1, (pq.1 : ℚ) * basisQ.2.1 + (pq.2 : ℚ) * (-basisQ.1))

/-- `κ = −det BASIS > 0` -/
def kappa : ℚ := -(basisQ.1 * basisQ.2.2.2 - basisQ.2.1 * basisQ.2.2.1)

theorem kappa_pos : 0 < kappa := by decide +kernel

theorem linD_basisMul (pq Δ : Int × Int) :
    linD (dirOf pq) (basisMul Δ) = kappa * ((pq.1 * Δ.1 + pq.2 * Δ.2 : Int) : ℚ) := by
  unfold linD dirOf basisMul kappa
  generalize basisQ = b
  obtain ⟨b0, b1, b2, b3⟩ := b
  dsimp only
  push_cast
  ring

theorem linD_neg (pq : Int × Int) (w : Pt) : linD (dirOf (-pq.1, -pq.2)) w = -linD (dirOf pq) w := by
  unfold linD dirOf
  dsimp only
  push_cast
  ring

theorem linD_sub (d : ℚ × ℚ) (w t : Pt) : linD d (w.1 - t.1, w.2 - t.2) = linD d w - linD d t := by
  unfold linD; ring

/-- the six lattice directions `i, j, i + j` and their opposites -/
def six : List (Int × Int) := [(1, 0), (0, 1), (1, 1), (-1, 0), (0, -1), (-1, -1)]

theorem six_neg : ∀ pq ∈ six, (-pq.1, -pq.2) ∈ six := by decide

/-- every local pentagon shape stays within `4/3` lattice units of its anchor in each of the six lattice directions
(the true extent is `1.3226…`) -/
theorem shape_bounds : ∀ F ∈ flips4, ∀ r : Bool, ∀ pq ∈ six,
    MinAt (localPent F r) (linD (dirOf pq)) (-(4 / 3 * kappa)) := by decide +kernel

/-- a point strictly inside a local shape, measured in a lattice direction -/
theorem shape_dir {F : Int × Int} (hF : F ∈ flips4) (r : Bool) {pq : Int × Int} (hpq : pq ∈ six) {w : Pt}
    (hw : StrictIn (localPent F r) w) :
    -(4 / 3 * kappa) ≤ linD (dirOf pq) w ∧ linD (dirOf pq) w ≤ 4 / 3 * kappa := by
  have h1 := (shape_bounds F hF r pq hpq).le (linD_affine _) hw
  have h2 := (shape_bounds F hF r _ (six_neg pq hpq)).le (linD_affine _) hw
  rewrite [linD_neg] at h2
  exact ⟨h1, by linarith⟩

theorem strictIn_unshift {P : List Pt} {t q : Pt} (h : StrictIn (P.map (shift t)) q) :
    StrictIn P (q.1 - t.1, q.2 - t.2) := by
  rewrite [strictIn_iff_deepIn] at h ⊢
  exact h.unshift

/-- **far pairs**: if the offsets differ by more than 2 in the hexagonal norm, the two pentagons (common translation
removed) have no common interior point, whatever their shapes -/
theorem far_disjoint {F1 F2 : Int × Int} (h1 : F1 ∈ flips4) (h2 : F2 ∈ flips4) (r1 r2 : Bool) (Δ : Int × Int)
    (hfar : ¬HexLe 2 Δ) :
    ¬∃ w, StrictIn (localPent F1 r1) w ∧ StrictIn ((localPent F2 r2).map (shift (basisMul Δ))) w := by
  rintro ⟨w, hw1, hw2⟩
  have hw2' := strictIn_unshift hw2
  have hk := kappa_pos
  have key : ∀ pq ∈ six, pq.1 * Δ.1 + pq.2 * Δ.2 ≤ 2 := by
    intro pq hpq
    have a1 := (shape_dir h1 r1 hpq hw1).2
    have a2 := (shape_dir h2 r2 hpq hw2').1
    rewrite [linD_sub, linD_basisMul] at a2
    have hq : ((pq.1 * Δ.1 + pq.2 * Δ.2 : Int) : ℚ) < ((3 : Int) : ℚ) := by
      have : kappa * ((pq.1 * Δ.1 + pq.2 * Δ.2 : Int) : ℚ) < kappa * 3 := by linarith
      have := lt_of_mul_lt_mul_left this (le_of_lt hk)
      exact_mod_cast this
    have := Int.cast_lt.1 hq
    omega
  apply hfar
  have k1 := key (1, 0) (by decide)
  have k2 := key (0, 1) (by decide)
  have k3 := key (1, 1) (by decide)
  have k4 := key (-1, 0) (by decide)
  have k5 := key (0, -1) (by decide)
  have k6 := key (-1, -1) (by decide)
  unfold HexLe
  dsimp only at k1 k2 k3 k4 k5 k6
  omega

/-! ## the relative configuration of two anchors -/

/-- `(offset difference, (flips, reflected?) of the first, (flips, reflected?) of the second)`: all that the two
pentagons depend on once the first anchor's translation is removed -/
abbrev NCfg := (Int × Int) × ((Int × Int) × Bool) × ((Int × Int) × Bool)

def cfgP1 (x : NCfg) : List Pt := localPent x.2.1.1 x.2.1.2
def cfgP2 (x : NCfg) : List Pt := (localPent x.2.2.1 x.2.2.2).map (shift (basisMul x.1))

def anchorCfg (a b : Anchor) : NCfg :=
  ((b.offset.1 - a.offset.1, b.offset.2 - a.offset.2), (a.flips, reflK a.k a.flips), (b.flips, reflK b.k b.flips))

theorem first_frame (a b : Anchor) : pentagonQ a = (cfgP1 (anchorCfg a b)).map (shift (basisMul a.offset)) :=
  pentagonQ_eq a

theorem second_frame (a b : Anchor) : pentagonQ b = (cfgP2 (anchorCfg a b)).map (shift (basisMul a.offset)) := by
  unfold cfgP2 anchorCfg
  rewrite [pentagonQ_eq b, List.map_map]
  refine List.map_congr_left (fun v _ => ?_)
  unfold shift basisMul
  generalize basisQ = bb
  obtain ⟨b0, b1, b2, b3⟩ := bb
  refine Prod.ext ?_ ?_ <;> (dsimp only [Function.comp]; push_cast; ring)

/-- the common translation cancels: a point inside both pentagons by `μ` gives one for the relative configuration -/
theorem anchors_disjoint_of_cfg (μ : ℚ) (a b : Anchor)
    (h : ¬∃ w, DeepIn μ (cfgP1 (anchorCfg a b)) w ∧ DeepIn μ (cfgP2 (anchorCfg a b)) w) :
    ¬∃ w, DeepIn μ (pentagonQ a) w ∧ DeepIn μ (pentagonQ b) w := by
  rintro ⟨w, h1, h2⟩
  rewrite [first_frame a b] at h1
  rewrite [second_frame a b] at h2
  exact h ⟨_, h1.unshift, h2.unshift⟩

/-- the far case for a relative configuration, with any margin `μ ≥ 0` -/
theorem cfg_far_disjoint {μ : ℚ} (hμ : 0 ≤ μ) (x : NCfg) (h1 : x.2.1.1 ∈ flips4) (h2 : x.2.2.1 ∈ flips4)
    (hfar : ¬HexLe 2 x.1) : ¬∃ w, DeepIn μ (cfgP1 x) w ∧ DeepIn μ (cfgP2 x) w := by
  rintro ⟨w, a1, a2⟩
  exact far_disjoint h1 h2 _ _ _ hfar ⟨w, a1.strictIn hμ, a2.strictIn hμ⟩

end A5.PD
