import A5.Lemmas.RuntimeTriangles3
/-! # The spherical triangles the library actually uses (part 4: no vertex snap away from the corners)

`RuntimeTriangles3.runtime_roundtrip_twin_mid` leaves three hypotheses: none of the three barycentric coordinates that the
forward twin computes for `v = slerp(a, P, s)`, `P = slerp(b, c, q)`, exceeds `1 - POLY_SNAP_EPS` (otherwise
`polyhedralInverse` returns a vertex).  The forward stores `(1 - h, h/Ω·Ω₂, h/Ω·Ω₃)` with
`h = sin(s·γ'/2)/sin(γ'/2)`, `γ' = ∠(a, P)`, `Ω = area(a,b,c)`, `Ω₂ = area(a,P,c)`, `Ω₃ = area(a,b,P)`.  Here:

* `radial_h_bounds`: `3/5·s ≤ h ≤ 1` (Jordan's inequality `sin x ≥ 2x/π` and `sin x ≤ x`; no bound on `γ'` is needed);
* `area_additive`: `Ω₂ + Ω₃ = Ω` (addition formula for `arctan` on Eriksson's `tan(E/2) = V/D`; the algebraic core is
  `additivity_core`: `(wa·D₃ + wb·D₂)·D - (D₂·D₃ - wa·wb·V²) = (1 + a·b)(1 + c·a)(|P|² - 1)`);
* `area_lower`: a unit triangle with `V ≥ 4e-7` has area `≥ 1e-7` (`arctan m ≥ m/2` on `[0, 1]`);
* `no_snap`: under `TriHyp`, `10⁻⁴ ≤ q ≤ 1 - 10⁻⁴`, `2·10⁻¹⁴ ≤ s ≤ 1` none of the three coordinates exceeds `1 - snapEps`;
* `runtime_no_snap`: the same on the twins for every table triangle;
* **`runtime_roundtrip_twin_interior`**: the conclusion of `runtime_roundtrip_twin_mid` with NO hypothesis on the point
  besides `10⁻⁴ ≤ q ≤ 1 - 10⁻⁴` and `S0 ≤ s ≤ 1`, `S0 = 2·10⁻¹⁴`.

`S0` is within a factor of about `2` of the value of `s` at which the apex snap really happens: the first coordinate
`1 - h` exceeds `1 - snapEps` (and the code returns the apex) as soon as `h < snapEps ≈ 1e-14`, and `h ≈ s` for tiny `s`
(`h ≤ s·(γ'/2)/sin(γ'/2)`, a few percent above `s` on these triangles; remark, not proved here).

NOT proved: `q` within `10⁻⁴` of an end of the edge (there `runtime_roundtrip_twin_mid` itself does not apply), `s < S0`
(the code snaps to the apex; the round trip then returns `a`, at distance `≤ s·γ'` from `v`, no theorem here). -/
namespace A5.RuntimeTriangles
open A5 A5.RadialRoundTrip A5.AngularRoundTrip A5.Gen.Runtime A5.GP A5.PolyTies

/-! ## the snap constant -/

/-- kernel-checked: the generated `POLY_SNAP_EPS` (the `f64` nearest `1e-14`) is at most `1.2e-14` -/
theorem snapEpsQ_le : Gen.POLY_SNAP_EPS.toRat ≤ 12 / 10 ^ 15 := by decide +kernel

theorem snapEps_le' : snapEps ≤ 12 / 10 ^ 15 := by
  have h : ((Gen.POLY_SNAP_EPS.toRat : ℚ) : ℝ) ≤ ((12 / 10 ^ 15 : ℚ) : ℝ) := Rat.cast_le.mpr snapEpsQ_le
  rw [show ((12 / 10 ^ 15 : ℚ) : ℝ) = 12 / 10 ^ 15 by norm_num] at h
  exact h

/-! ## the radial coordinate -/

/-- **radial coordinate.**  `h = vector_difference(a, slerp a p s) / vector_difference(a, p) = sin(sγ/2)/sin(γ/2)` lies in
`[3/5·s, 1]` for `0 < s ≤ 1`, whatever the angle `γ ∈ [SLERP_SWITCH, π)`. -/
theorem radial_h_bounds {a p : R3} {s : ℝ} (ha : dotR a a = 1) (hp : dotR p p = 1)
    (hγ : slerpSwitch ≤ angleR a p) (hπ : angleR a p < Real.pi) (hs0 : 0 < s) (hs1 : s ≤ 1) :
    3 / 5 * s ≤ vectorDifferenceR a (slerpR a p s) / vectorDifferenceR a p ∧
    vectorDifferenceR a (slerpR a p s) / vectorDifferenceR a p ≤ 1 := by
  have hpos : 0 < angleR a p := lt_of_lt_of_le slerpSwitch_pos hγ
  obtain ⟨hvu, _, _⟩ := slerpR_spec s ha hp hγ hπ
  have hav : angleR a (slerpR a p s) = s * angleR a p := slerpR_angle hs0.le hs1 ha hp hγ hπ
  have hav0 : 0 < s * angleR a p := mul_pos hs0 hpos
  have hav1 : s * angleR a p ≤ angleR a p := by
    have := mul_le_mul_of_nonneg_right hs1 hpos.le; linarith
  rw [vectorDifferenceR_eq ha hvu (by rw [hav]; linarith), hav, vectorDifferenceR_eq ha hp hπ]
  have hpi := Real.pi_pos
  have hpi2 := Real.pi_lt_d2
  have hden : 0 < Real.sin (angleR a p / 2) := Real.sin_pos_of_pos_of_lt_pi (by linarith) (by linarith)
  generalize angleR a p = γ at *
  constructor
  · rw [le_div_iff₀ hden]
    have h1 := Real.mul_le_sin (x := s * γ / 2) (by linarith) (by linarith)
    have h2 := Real.sin_le (x := γ / 2) (by linarith)
    have h3 : 3 / 10 * (s * γ) ≤ 2 / Real.pi * (s * γ / 2) := by
      rw [show 2 / Real.pi * (s * γ / 2) = s * γ / Real.pi by ring, le_div_iff₀ hpi]
      have := mul_le_mul_of_nonneg_left hpi2.le hav0.le
      linarith
    have h4 : 3 / 5 * s * Real.sin (γ / 2) ≤ 3 / 5 * s * (γ / 2) :=
      mul_le_mul_of_nonneg_left h2 (by linarith)
    linarith
  · rw [div_le_one hden]
    exact Real.sin_le_sin_of_le_of_le_pi_div_two (by linarith) (by linarith) (by linarith)

/-! ## areas: a lower bound and additivity -/

/-- `arctan m ≥ m/2` on `[0, 1]` (`tan (m/2) ≤ m`) -/
theorem half_le_arctan {m : ℝ} (h0 : 0 ≤ m) (h1 : m ≤ 1) : m / 2 ≤ Real.arctan m := by
  have hpi := Real.pi_gt_three
  have hc := Real.one_sub_sq_div_two_le_cos (x := m / 2)
  have hs := Real.sin_le (x := m / 2) (by linarith)
  have hc' : 1 / 2 ≤ Real.cos (m / 2) := by nlinarith
  have hcpos : 0 < Real.cos (m / 2) := by linarith
  have ht : Real.tan (m / 2) ≤ m := by
    rw [Real.tan_eq_sin_div_cos, div_le_iff₀ hcpos]
    nlinarith [mul_nonneg h0 (sub_nonneg.2 hc')]
  have := Real.arctan_strictMono.monotone ht
  rwa [Real.arctan_tan (by linarith) (by linarith)] at this

/-- a unit triangle with positive Eriksson denominator and triple product `≥ 4e-7` has area `≥ 1e-7` -/
theorem area_lower {x y z : R3} (hx : dotR x x = 1) (hy : dotR y y = 1) (hz : dotR z z = 1)
    (hD : 0 < 1 + dotR x y + dotR y z + dotR z x) (hV : 4 / 10 ^ 7 ≤ tripleR x y z) :
    1 / 10 ^ 7 ≤ triAreaR x y z := by
  rw [triAreaR_eq_arctan' hx hy hz hD]
  have u1 := (dotR_unit_mem hx hy).2
  have u2 := (dotR_unit_mem hy hz).2
  have u3 := (dotR_unit_mem hz hx).2
  have hm : (1 / 10 ^ 7 : ℝ) ≤ tripleR x y z / (1 + dotR x y + dotR y z + dotR z x) := by
    rw [le_div_iff₀ hD]; linarith
  have h1 := Real.arctan_strictMono.monotone hm
  have h2 := half_le_arctan (m := 1 / 10 ^ 7) (by norm_num) (by norm_num)
  linarith

/-- the algebraic core of the additivity of Eriksson's excess along an edge: with `x = a·b`, `y = b·c`, `z = c·a`,
`P = wa·b + wb·c` a unit vector, `D₃ = 1 + a·b + b·P + P·a`, `D₂ = 1 + a·P + P·c + c·a`:
`(wa·D₃ + wb·D₂)·D = D₂·D₃ - wa·wb·V²` -/
theorem additivity_core (x y z wa wb V : ℝ) (hN : wa ^ 2 + wb ^ 2 + 2 * wa * wb * y = 1)
    (hG : V ^ 2 = 1 + 2 * x * y * z - x ^ 2 - y ^ 2 - z ^ 2) :
    (wa * (1 + x + (wa + wb * y) + (wa * x + wb * z)) + wb * (1 + (wa * x + wb * z) + (wa * y + wb) + z))
        * (1 + x + y + z)
      = (1 + (wa * x + wb * z) + (wa * y + wb) + z) * (1 + x + (wa + wb * y) + (wa * x + wb * z))
        - wa * wb * V ^ 2 := by
  linear_combination (1 + x) * (1 + z) * hN + wa * wb * hG

/-- **additivity of the area along the far edge**: for a unit point `P = wa·b + wb·c` (`wa, wb > 0`) of the edge,
`area(a, P, c) + area(a, b, P) = area(a, b, c)` (all three Eriksson denominators positive, `V > 0`). -/
theorem area_additive {a b c : R3} {wa wb : ℝ} (ha : dotR a a = 1) (hb : dotR b b = 1) (hc : dotR c c = 1)
    (hP : dotR (addR (scaleR b wa) (scaleR c wb)) (addR (scaleR b wa) (scaleR c wb)) = 1)
    (hV : 0 < tripleR a b c) (hD : 0 < 1 + dotR a b + dotR b c + dotR c a) (hwa : 0 < wa) (hwb : 0 < wb)
    (hD2 : 0 < 1 + dotR a (addR (scaleR b wa) (scaleR c wb)) + dotR (addR (scaleR b wa) (scaleR c wb)) c + dotR c a)
    (hD3 : 0 < 1 + dotR a b + dotR b (addR (scaleR b wa) (scaleR c wb)) + dotR (addR (scaleR b wa) (scaleR c wb)) a) :
    triAreaR a (addR (scaleR b wa) (scaleR c wb)) c + triAreaR a b (addR (scaleR b wa) (scaleR c wb))
      = triAreaR a b c := by
  rw [triAreaR_eq_arctan' ha hP hc hD2, triAreaR_eq_arctan' ha hb hP hD3, triAreaR_eq_arctan' ha hb hc hD,
    tripleR_comb_mid, (comb_facts a b c wa wb).2.1]
  have e1 := dotR_comb_right a b c wa wb
  have e2 := (comb_facts a b c wa wb).1
  obtain ⟨e3, e4, e5⟩ := dotR_comb b c wa wb
  have e6 : dotR (addR (scaleR b wa) (scaleR c wb)) c = dotR c (addR (scaleR b wa) (scaleR c wb)) := dotR_comm _ _
  have hG := gram a b c
  rw [e3] at hP
  rw [e1, e6, e5] at hD2
  rw [e4, e2] at hD3
  rw [e1, e6, e5, e4, e2]
  simp only [hb, hc, mul_one] at hP hD2 hD3 ⊢
  rw [ha, hb, hc] at hG
  generalize dotR a b = x at *
  generalize dotR b c = y at *
  generalize dotR c a = z at *
  generalize tripleR a b c = V at *
  have K := additivity_core x y z wa wb V (by linarith) (by linarith)
  generalize 1 + (wa * x + wb * z) + (wa * y + wb) + z = D2 at *
  generalize 1 + x + (wa + wb * y) + (wa * x + wb * z) = D3 at *
  generalize 1 + x + y + z = D at *
  have hpos : 0 < (wa * D3 + wb * D2) * D := by positivity
  have hDD : 0 < D2 * D3 := mul_pos hD2 hD3
  have hprod : wa * V / D2 * (wb * V / D3) < 1 := by
    rw [div_mul_div_comm, div_lt_one hDD]
    linarith
  rw [← mul_add, Real.arctan_add hprod]
  congr 2
  have hne : 1 - wa * V / D2 * (wb * V / D3) ≠ 0 := by linarith
  rw [div_eq_div_iff hne hD.ne']
  field_simp
  linear_combination K

/-! ## the point of the edge -/

/-- the point `P = slerp b c q`, `10⁻⁴ ≤ q ≤ 1 - 10⁻⁴`, of the far edge of a `TriHyp` triangle: it is `wa·b + wb·c` with
both weights `≥ 8.8e-6`, a unit vector, and both sub-triangles have positive Eriksson denominators
(the facts derived inside `sub_triangles_on_asin`, exported) -/
theorem edge_point_facts {a b c : R3} (H : TriHyp a b c) {q : ℝ} (hq0 : 1 / 10 ^ 4 ≤ q)
    (hq1 : q ≤ 1 - 1 / 10 ^ 4) :
    ∃ wa wb : ℝ, slerpR b c q = addR (scaleR b wa) (scaleR c wb) ∧ 88 / 10 ^ 7 ≤ wa ∧ 88 / 10 ^ 7 ≤ wb ∧
      dotR (slerpR b c q) (slerpR b c q) = 1 ∧
      0 < 1 + dotR a (slerpR b c q) + dotR (slerpR b c q) c + dotR c a ∧
      0 < 1 + dotR a b + dotR b (slerpR b c q) + dotR (slerpR b c q) a := by
  have hq0' : 0 ≤ q := by linarith
  have hq1' : q ≤ 1 := by linarith
  have hpi := Real.pi_pos
  obtain ⟨_, hcos, g0, g1⟩ := angleR_unit H.hb H.hc
  have hπ := angle_bc_lt_pi H.ha H.hb H.hc H.hV
  have hpos : 0 < angleR b c := lt_of_lt_of_le slerpSwitch_pos H.hγ
  have hS : 0 < Real.sin (angleR b c) := Real.sin_pos_of_pos_of_lt_pi hpos hπ
  have hS1 : Real.sin (angleR b c) ≤ 1 := Real.sin_le_one _
  have hγ2 : angleR b c ≤ Real.pi / 2 := by
    by_contra hlt
    rw [not_le] at hlt
    have := Real.cos_neg_of_pi_div_two_lt_of_lt hlt (by linarith)
    rw [hcos] at this
    linarith [H.hbc]
  have hγlo : 14 / 100 ≤ angleR b c := by
    by_contra hlt
    rw [not_le] at hlt
    have hc := Real.one_sub_sq_div_two_le_cos (x := angleR b c)
    rw [hcos] at hc
    have := H.hbcU
    nlinarith
  obtain ⟨hu, _, hcP⟩ := slerpR_spec q H.hb H.hc H.hγ hπ
  have hwb : 88 / 10 ^ 7 ≤ Real.sin (q * angleR b c) / Real.sin (angleR b c) := by
    have h1 : 14 / 10 ^ 6 ≤ q * angleR b c := by nlinarith
    have h2 : q * angleR b c ≤ Real.pi / 2 := by nlinarith
    have := sin_lower h1 h2
    rw [le_div_iff₀ hS]
    nlinarith
  have hwa : 88 / 10 ^ 7 ≤ Real.sin ((1 - q) * angleR b c) / Real.sin (angleR b c) := by
    have h1 : 14 / 10 ^ 6 ≤ (1 - q) * angleR b c := by nlinarith
    have h2 : (1 - q) * angleR b c ≤ Real.pi / 2 := by nlinarith
    have := sin_lower h1 h2
    rw [le_div_iff₀ hS]
    nlinarith
  have hD2 := abp_D_pos H.ha H.hb H.hc H.hV H.hD H.hγ hq0' hq1'
  have hD1 : 0 < 1 + dotR a (slerpR b c q) + dotR (slerpR b c q) c + dotR c a := by
    have e1 : 0 ≤ dotR a (slerpR b c q) := by
      rw [slerpR_unfold q H.hγ, dotR_comb_right]
      have := mul_nonneg (le_trans (by norm_num) hwa) H.hab0
      have := mul_nonneg (le_trans (by norm_num) hwb) H.hca0
      linarith
    have e2 : 0 ≤ dotR (slerpR b c q) c := by
      rw [dotR_comm, hcP]
      refine Real.cos_nonneg_of_neg_pi_div_two_le_of_le ?_ ?_ <;> nlinarith
    linarith [H.hca0]
  exact ⟨_, _, slerpR_unfold q H.hγ, hwa, hwb, hu, hD1, hD2⟩

/-! ## no vertex snap -/

/-- **no vertex snap** (real transcriptions).  For a triangle satisfying `TriHyp`, `10⁻⁴ ≤ q ≤ 1 - 10⁻⁴` and
`2·10⁻¹⁴ ≤ s ≤ 1`, none of the three barycentric coordinates the forward map computes for
`v = slerp(a, slerp(b, c, q), s)` exceeds `1 - POLY_SNAP_EPS`. -/
theorem no_snap {a b c : R3} (H : TriHyp a b c) {q s : ℝ} (hq0 : 1 / 10 ^ 4 ≤ q) (hq1 : q ≤ 1 - 1 / 10 ^ 4)
    (hs0 : 2 / 10 ^ 14 ≤ s) (hs1 : s ≤ 1) :
    ¬ (forwardBaryR a b c (slerpR a (slerpR b c q) s)).1 > 1 - snapEps ∧
    ¬ (forwardBaryR a b c (slerpR a (slerpR b c q) s)).2.1 > 1 - snapEps ∧
    ¬ (forwardBaryR a b c (slerpR a (slerpR b c q) s)).2.2 > 1 - snapEps := by
  have hq0' : 0 ≤ q := by linarith
  have hq1' : q ≤ 1 := by linarith
  have hs0' : 0 < s := lt_of_lt_of_le (by norm_num) hs0
  have hγ' := H.hγ' q hq0' hq1'
  have hπ' := angle_a_p_lt_pi H.ha H.hb H.hc H.hV H.hD H.hγ hq0' hq1'
  rw [forwardBaryR_eq H.ha H.hb H.hc H.hV H.hγ hγ' hπ' hs0' hs1]
  obtain ⟨wa, wb, hP, hwa, hwb, hu, hD2, hD3⟩ := edge_point_facts H hq0 hq1
  obtain ⟨hh0, hh1⟩ := radial_h_bounds H.ha hu hγ' hπ' hs0' hs1
  have hΩ := triAreaR_mem H.ha H.hb H.hc H.hV H.hD
  have hV' := H.hV'
  have hA2 : 1 / 10 ^ 7 ≤ triAreaR a (slerpR b c q) c := by
    refine area_lower H.ha hu H.hc hD2 ?_
    rw [hP, tripleR_comb_mid]
    have : 88 / 10 ^ 7 * (1 / 20) ≤ wa * tripleR a b c := mul_le_mul hwa hV' (by norm_num) (by linarith)
    norm_num at this ⊢
    linarith
  have hA3 : 1 / 10 ^ 7 ≤ triAreaR a b (slerpR b c q) := by
    refine area_lower H.ha H.hb hu hD3 ?_
    rw [hP, (comb_facts a b c _ _).2.1]
    have : 88 / 10 ^ 7 * (1 / 20) ≤ wb * tripleR a b c := mul_le_mul hwb hV' (by norm_num) (by linarith)
    norm_num at this ⊢
    linarith
  have hadd : triAreaR a (slerpR b c q) c + triAreaR a b (slerpR b c q) = triAreaR a b c := by
    rw [hP] at hu hD2 hD3 ⊢
    exact area_additive H.ha H.hb H.hc hu H.hV H.hD (lt_of_lt_of_le (by norm_num) hwa)
      (lt_of_lt_of_le (by norm_num) hwb) hD2 hD3
  have hsn := snapEps_le'
  have hpi2 := Real.pi_lt_d2
  generalize vectorDifferenceR a (slerpR a (slerpR b c q) s) / vectorDifferenceR a (slerpR b c q) = h at hh0 hh1
  generalize triAreaR a (slerpR b c q) c = Ω2 at hA2 hadd
  generalize triAreaR a b (slerpR b c q) = Ω3 at hA3 hadd
  generalize triAreaR a b c = Ω at hΩ hadd
  have hh : 0 ≤ h := by linarith
  -- `snapEps · Ω ≤ 1e-7`
  have hsΩ : snapEps * Ω ≤ 1 / 10 ^ 7 := by
    have h1 : snapEps * Ω ≤ 12 / 10 ^ 15 * Ω := mul_le_mul_of_nonneg_right hsn hΩ.1.le
    norm_num at h1 ⊢
    linarith
  refine ⟨not_lt.mpr ?_, not_lt.mpr ?_, not_lt.mpr ?_⟩
  · show 1 - h ≤ 1 - snapEps
    norm_num at hs0 hsn
    linarith
  · show h / Ω * Ω2 ≤ 1 - snapEps
    rw [div_mul_eq_mul_div, div_le_iff₀ hΩ.1]
    have h1 : h * Ω2 ≤ 1 * Ω2 := mul_le_mul_of_nonneg_right hh1 (by linarith)
    linarith
  · show h / Ω * Ω3 ≤ 1 - snapEps
    rw [div_mul_eq_mul_div, div_le_iff₀ hΩ.1]
    have h1 : h * Ω3 ≤ 1 * Ω3 := mul_le_mul_of_nonneg_right hh1 (by linarith)
    linarith

/-- **no vertex snap, on the twins, for the table**: for every table triangle, `10⁻⁴ ≤ q ≤ 1 - 10⁻⁴` and
`2·10⁻¹⁴ ≤ s ≤ 1`, none of the barycentric coordinates computed by the forward twin exceeds `1 - POLY_SNAP_EPS`:
the three hypotheses `hn1..hn3` of `runtime_roundtrip_twin_mid`. -/
theorem runtime_no_snap : ∀ t ∈ SPH_TRIANGLES, ∀ q s : ℝ, 1 / 10 ^ 4 ≤ q → q ≤ 1 - 1 / 10 ^ 4 →
    2 / 10 ^ 14 ≤ s → s ≤ 1 →
    ¬ (forwardBaryG realKit (toTR (entryA t)) (toTR (entryB t)) (toTR (entryC t))
        (slerpG realKit (toTR (entryA t)) (slerpG realKit (toTR (entryB t)) (toTR (entryC t)) q) s)).1
      > realKit.one - realKit.snapEps ∧
    ¬ (forwardBaryG realKit (toTR (entryA t)) (toTR (entryB t)) (toTR (entryC t))
        (slerpG realKit (toTR (entryA t)) (slerpG realKit (toTR (entryB t)) (toTR (entryC t)) q) s)).2.1
      > realKit.one - realKit.snapEps ∧
    ¬ (forwardBaryG realKit (toTR (entryA t)) (toTR (entryB t)) (toTR (entryC t))
        (slerpG realKit (toTR (entryA t)) (slerpG realKit (toTR (entryB t)) (toTR (entryC t)) q) s)).2.2
      > realKit.one - realKit.snapEps := by
  intro t ht q s hq0 hq1 hs0 hs1
  have H := runtime_hyp t ht
  have hq0' : 0 ≤ q := by linarith
  have hq1' : q ≤ 1 := by linarith
  have hs0' : 0 < s := lt_of_lt_of_le (by norm_num) hs0
  obtain ⟨hE2, hE3⟩ := sub_triangles_on_asin H hq0 hq1
  have hE := (runtime_area_on_asin_branch t ht).1
  have hγ' := H.hγ' q hq0' hq1'
  have hπ' := angle_a_p_lt_pi H.ha H.hb H.hc H.hV H.hD H.hγ hq0' hq1'
  have R := forward_point H.ha H.hb H.hc H.hV H.hγ hγ' hπ' hs0' hs1
  have e := forwardBaryR_tie (v := slerpR (entryA t) (slerpR (entryB t) (entryC t) q) s) hE.agrees
    (by rw [R]; exact hE2.agrees) (by rw [R]; exact hE3.agrees)
  obtain ⟨n1, n2, n3⟩ := no_snap H hq0 hq1 hs0 hs1
  rw [e, slerpR_tie, slerpR_tie] at n1 n2 n3
  exact ⟨n1, n2, n3⟩

/-- **`runtime_roundtrip_twin_interior`**: the conclusion of `C15.polyhedral_roundtrip_twin` (T9) - generic twins of
`polyhedralForward` / `polyhedralInverse` at `ℝ`, vertex snapping and two-branch `safe_acos` included - for every table
triangle and every point `v = slerp(a, slerp(b, c, q), s)` with `10⁻⁴ ≤ q ≤ 1 - 10⁻⁴`, `2·10⁻¹⁴ ≤ s ≤ 1`:
NO hypothesis on the point besides these ranges. -/
theorem runtime_roundtrip_twin_interior : ∀ t ∈ SPH_TRIANGLES, ∀ q s : ℝ, 1 / 10 ^ 4 ≤ q → q ≤ 1 - 1 / 10 ^ 4 →
    2 / 10 ^ 14 ≤ s → s ≤ 1 →
    dotG (inverseBaryG realKit (toTR (entryA t)) (toTR (entryB t)) (toTR (entryC t))
          (forwardBaryG realKit (toTR (entryA t)) (toTR (entryB t)) (toTR (entryC t))
            (slerpG realKit (toTR (entryA t)) (slerpG realKit (toTR (entryB t)) (toTR (entryC t)) q) s)))
        (inverseBaryG realKit (toTR (entryA t)) (toTR (entryB t)) (toTR (entryC t))
          (forwardBaryG realKit (toTR (entryA t)) (toTR (entryB t)) (toTR (entryC t))
            (slerpG realKit (toTR (entryA t)) (slerpG realKit (toTR (entryB t)) (toTR (entryC t)) q) s))) = 1 ∧
    lengthG realKit (subG (inverseBaryG realKit (toTR (entryA t)) (toTR (entryB t)) (toTR (entryC t))
          (forwardBaryG realKit (toTR (entryA t)) (toTR (entryB t)) (toTR (entryC t))
            (slerpG realKit (toTR (entryA t)) (slerpG realKit (toTR (entryB t)) (toTR (entryC t)) q) s)))
        (slerpG realKit (toTR (entryA t)) (slerpG realKit (toTR (entryB t)) (toTR (entryC t)) q) s)) ≤ 5e-16 := by
  intro t ht q s hq0 hq1 hs0 hs1
  obtain ⟨n1, n2, n3⟩ := runtime_no_snap t ht q s hq0 hq1 hs0 hs1
  exact runtime_roundtrip_twin_mid t ht q s hq0 hq1 (lt_of_lt_of_le (by norm_num) hs0) hs1 n1 n2 n3

/-! ## non-vacuity -/

/-- the first row of the table (origin 0, face triangle 0, not reflected), `q = 1/3`, `s = 1/2` -/
example : ∃ t ∈ SPH_TRIANGLES, t.1 = 0 ∧ t.2.1 = 0 ∧ t.2.2.1 = false ∧
    dotG (inverseBaryG realKit (toTR (entryA t)) (toTR (entryB t)) (toTR (entryC t))
          (forwardBaryG realKit (toTR (entryA t)) (toTR (entryB t)) (toTR (entryC t))
            (slerpG realKit (toTR (entryA t)) (slerpG realKit (toTR (entryB t)) (toTR (entryC t)) (1 / 3)) (1 / 2))))
        (inverseBaryG realKit (toTR (entryA t)) (toTR (entryB t)) (toTR (entryC t))
          (forwardBaryG realKit (toTR (entryA t)) (toTR (entryB t)) (toTR (entryC t))
            (slerpG realKit (toTR (entryA t)) (slerpG realKit (toTR (entryB t)) (toTR (entryC t)) (1 / 3)) (1 / 2))))
      = 1 ∧
    lengthG realKit (subG (inverseBaryG realKit (toTR (entryA t)) (toTR (entryB t)) (toTR (entryC t))
          (forwardBaryG realKit (toTR (entryA t)) (toTR (entryB t)) (toTR (entryC t))
            (slerpG realKit (toTR (entryA t)) (slerpG realKit (toTR (entryB t)) (toTR (entryC t)) (1 / 3)) (1 / 2))))
        (slerpG realKit (toTR (entryA t)) (slerpG realKit (toTR (entryB t)) (toTR (entryC t)) (1 / 3)) (1 / 2)))
      ≤ 5e-16 := by
  have h : SPH_TRIANGLES.getD 0 (0, 0, false, ⟨⟨0, 0, 0⟩, ⟨0, 0, 0⟩, ⟨0, 0, 0⟩⟩, ⟨⟨0, 0, 0⟩, ⟨0, 0, 0⟩, ⟨0, 0, 0⟩⟩,
      ⟨⟨0, 0, 0⟩, ⟨0, 0, 0⟩, ⟨0, 0, 0⟩⟩) ∈ SPH_TRIANGLES := by decide +kernel
  exact ⟨_, h, by decide +kernel, by decide +kernel, by decide +kernel,
    runtime_roundtrip_twin_interior _ h (1 / 3) (1 / 2) (by norm_num) (by norm_num) (by norm_num) (by norm_num)⟩

/-- the range of `s` reaches down to `2·10⁻¹⁴`: the theorem applies at `s = 2·10⁻¹⁴` itself, on every row -/
example : ∀ t ∈ SPH_TRIANGLES,
    ¬ (forwardBaryG realKit (toTR (entryA t)) (toTR (entryB t)) (toTR (entryC t))
        (slerpG realKit (toTR (entryA t)) (slerpG realKit (toTR (entryB t)) (toTR (entryC t)) (1 / 3))
          (2 / 10 ^ 14))).1 > realKit.one - realKit.snapEps :=
  fun t ht => (runtime_no_snap t ht (1 / 3) (2 / 10 ^ 14) (by norm_num) (by norm_num) le_rfl (by norm_num)).1

end A5.RuntimeTriangles
