import A5.Model.Hilbert
/-! # Digit-level lemmas for the Hilbert walk (`A5/Model/Hilbert.lean`)

Pure list / `Nat` / `Int` facts (core only):
* flips form a commutative monoid in which every `quaternaryToFlips d` is an involution;
* closed form of `shiftDigits` (a permutation acting on the pair `(digit i, digit i-1)`);
* `reversePattern P` is the inverse permutation of `P`;
* the top-down pass `shiftDown` and the bottom-up pass `shiftUp` are mutually inverse;
* base-4 plumbing (`digitsLSB`, `digitsValue`, `quatLen`);
* closed forms of `sToAnchorInternal` / `ijToSInternal` and the combined round-trip lemma. -/
namespace A5

/-! ## flips -/

theorem NO_eq_one : Gen.NO = 1 := by decide

theorem mulFlips_comm (a b : Int × Int) : mulFlips a b = mulFlips b a := by
  simp only [mulFlips, Int.mul_comm]

theorem mulFlips_assoc (a b c : Int × Int) : mulFlips (mulFlips a b) c = mulFlips a (mulFlips b c) := by
  simp only [mulFlips, Int.mul_assoc]

theorem mulFlips_one (a : Int × Int) : mulFlips a (1, 1) = a := by
  simp only [mulFlips, Int.mul_one]

theorem one_mulFlips (a : Int × Int) : mulFlips (1, 1) a = a := by
  simp only [mulFlips, Int.one_mul]

/-- every digit's flip pair is an involution (checked on the generated table) -/
theorem quaternaryToFlips_sq (d : Nat) (h : d < 4) :
    mulFlips (quaternaryToFlips d) (quaternaryToFlips d) = (1, 1) := by
  have key : ∀ d < 4, mulFlips (quaternaryToFlips d) (quaternaryToFlips d) = (1, 1) := by decide
  exact key d h

/-- multiplying twice by the same digit's flips cancels -/
theorem mulFlips_cancel (F : Int × Int) (d : Nat) (h : d < 4) :
    mulFlips (mulFlips F (quaternaryToFlips d)) (quaternaryToFlips d) = F := by
  rewrite [mulFlips_assoc, quaternaryToFlips_sq d h, mulFlips_one]; rfl

/-- product of the flips of all digits of a list -/
def flipsProd : List Nat → Int × Int
  | [] => (1, 1)
  | d :: ds => mulFlips (quaternaryToFlips d) (flipsProd ds)

/-- product of the flips of the digits at positions `< k` -/
def flipsUpTo (d : List Nat) : Nat → Int × Int
  | 0 => (1, 1)
  | k + 1 => mulFlips (flipsUpTo d k) (quaternaryToFlips (d.getD k 0))

theorem flipsUpTo_cons (a : Nat) (l : List Nat) (k : Nat) :
    flipsUpTo (a :: l) (k + 1) = mulFlips (quaternaryToFlips a) (flipsUpTo l k) := by
  induction k with
  | zero => simp only [flipsUpTo, List.getD_cons_zero, one_mulFlips, mulFlips_one]
  | succ k ih =>
    rewrite [flipsUpTo, ih, flipsUpTo, List.getD_cons_succ, mulFlips_assoc]; rfl

theorem flipsUpTo_length (l : List Nat) : flipsUpTo l l.length = flipsProd l := by
  induction l with
  | nil => rfl
  | cons a l ih => rewrite [List.length_cons, flipsUpTo_cons, ih]; rfl

theorem flipsUpTo_congr (d e : List Nat) (k : Nat) (h : ∀ j, j < k → d.getD j 0 = e.getD j 0) :
    flipsUpTo d k = flipsUpTo e k := by
  induction k with
  | zero => rfl
  | succ k ih =>
    rewrite [flipsUpTo, flipsUpTo, ih (fun j hj => h j (by omega)), h k (by omega)]; rfl

theorem flipsProd_append (l m : List Nat) : flipsProd (l ++ m) = mulFlips (flipsProd l) (flipsProd m) := by
  induction l with
  | nil => rewrite [List.nil_append, flipsProd, one_mulFlips]; rfl
  | cons a l ih => rewrite [List.cons_append, flipsProd, ih, flipsProd, mulFlips_assoc]; rfl

theorem flipsProd_sq (l : List Nat) (h : ∀ x ∈ l, x < 4) : mulFlips (flipsProd l) (flipsProd l) = (1, 1) := by
  induction l with
  | nil => rfl
  | cons a l ih =>
    have ha := h a (List.mem_cons_self ..)
    have hl := ih (fun x hx => h x (List.mem_cons_of_mem _ hx))
    rewrite [flipsProd, mulFlips_assoc, mulFlips_comm (flipsProd l), mulFlips_assoc, hl, mulFlips_one,
      quaternaryToFlips_sq a ha]
    rfl

/-! ## list helpers -/

theorem getD_set (l : List Nat) (i j v : Nat) :
    (l.set i v).getD j 0 = if i = j ∧ i < l.length then v else l.getD j 0 := by
  simp only [List.getD_eq_getElem?_getD, List.getElem?_set]
  by_cases h : i = j
  · subst h
    by_cases h2 : i < l.length
    · simp [h2]
    · simp [h2]
  · simp [h]

theorem set_getD_self (l : List Nat) (i : Nat) : l.set i (l.getD i 0) = l := by
  induction l generalizing i with
  | nil => rfl
  | cons a l ih =>
    cases i with
    | zero => rfl
    | succ i => rewrite [List.getD_cons_succ, List.set_cons_succ, ih]; rfl

theorem getD_lt_of_forall_mem (l : List Nat) (h : ∀ x ∈ l, x < 4) (j : Nat) : l.getD j 0 < 4 := by
  rewrite [List.getD_eq_getElem?_getD]
  by_cases hj : j < l.length
  · rewrite [List.getElem?_eq_getElem hj]; exact h _ (List.getElem_mem hj)
  · rewrite [List.getElem?_eq_none (by omega)]; decide

theorem forall_mem_of_getD_lt (l : List Nat) (h : ∀ j, l.getD j 0 < 4) : ∀ x ∈ l, x < 4 := by
  intro x hx
  obtain ⟨j, hj, rfl⟩ := List.getElem_of_mem hx
  have := h j
  rewrite [List.getD_eq_getElem?_getD, List.getElem?_eq_getElem hj] at this
  exact this

theorem ext_getD (l m : List Nat) (hlen : l.length = m.length) (h : ∀ j, j < l.length → l.getD j 0 = m.getD j 0) :
    l = m := by
  apply List.ext_getElem hlen
  intro j h1 h2
  have := h j h1
  rewrite [List.getD_eq_getElem?_getD, List.getD_eq_getElem?_getD, List.getElem?_eq_getElem h1,
    List.getElem?_eq_getElem h2] at this
  exact this

/-! ## one shifting step -/

/-- which pentagon pair is shifted: `1` if `invertJ ≠ (F.1 + F.2 == 0)`, else `0` -/
def shiftLo (invertJ : Bool) (F : Int × Int) : Nat := if (invertJ != (F.1 + F.2 == 0)) then 1 else 0

/-- the action of one step on the pair (parent digit `pk = d[i]`, child digit `ck = d[i-1]`): the pattern acts
on the eight pairs with `pk ∈ {lo, lo+1}` (numbered `ck + 4·(pk - lo)`), all other pairs are fixed -/
def pairStep (lo : Nat) (P : List Nat) (pk ck : Nat) : Nat × Nat :=
  if lo ≤ pk ∧ pk ≤ lo + 1 then
    (lo + P.getD (ck + 4 * (pk - lo)) 0 / 4, P.getD (ck + 4 * (pk - lo)) 0 % 4)
  else (pk, ck)

theorem shiftDigits_zero (d : List Nat) (F : Int × Int) (inv : Bool) (P : List Nat) :
    shiftDigits d 0 F inv P = d := rfl

theorem shiftDigits_succ (d : List Nat) (i : Nat) (F : Int × Int) (inv : Bool) (P : List Nat)
    (hpk : d.getD (i + 1) 0 < 4) (hck : d.getD i 0 < 4) (hP : ∀ v, P.getD v 0 < 8) :
    shiftDigits d (i + 1) F inv P =
      (d.set i (pairStep (shiftLo inv F) P (d.getD (i + 1) 0) (d.getD i 0)).2).set (i + 1)
        (pairStep (shiftLo inv F) P (d.getD (i + 1) 0) (d.getD i 0)).1 := by
  obtain ⟨pk, hpke⟩ : ∃ pk, pk = d.getD (i + 1) 0 := ⟨_, rfl⟩
  obtain ⟨ck, hcke⟩ : ∃ ck, ck = d.getD i 0 := ⟨_, rfl⟩
  unfold shiftDigits shiftLo pairStep
  simp only [Nat.add_one_ne_zero, if_false, Nat.add_sub_cancel]
  rewrite [← hpke, ← hcke]
  rewrite [← hpke] at hpk
  rewrite [← hcke] at hck
  have e1 := set_getD_self d i
  have e2 := set_getD_self d (i + 1)
  rewrite [← hcke] at e1
  rewrite [← hpke] at e2
  have h1 := hP ck
  have h2 := hP (ck + 4)
  have hc : pk = 0 ∨ pk = 1 ∨ pk = 2 ∨ pk = 3 := by omega
  cases hb : (inv != (F.1 + F.2 == 0)) <;> rcases hc with rfl | rfl | rfl | rfl <;>
    simp only [List.getD_eq_getElem?_getD] at h1 h2 ⊢ <;> simp
  all_goals first
    | (refine congrArg _ ?_; omega)
    | (rewrite [e1, e2]; rfl)

theorem NO_mulFlips (a : Int × Int) : mulFlips (Gen.NO, Gen.NO) a = a := by
  rewrite [NO_eq_one, one_mulFlips]; rfl

theorem shiftLo_le (inv : Bool) (F : Int × Int) : shiftLo inv F ≤ 1 := by
  unfold shiftLo; split <;> omega

/-- `Q` undoes `P` on `0..7` and vice versa; entries `< 8` -/
structure InvOn8 (P Q : List Nat) : Prop where
  ltP : ∀ v, P.getD v 0 < 8
  ltQ : ∀ v, Q.getD v 0 < 8
  left : ∀ v, v < 8 → Q.getD (P.getD v 0) 0 = v
  right : ∀ v, v < 8 → P.getD (Q.getD v 0) 0 = v

theorem InvOn8.symm {P Q : List Nat} (h : InvOn8 P Q) : InvOn8 Q P := ⟨h.ltQ, h.ltP, h.right, h.left⟩

theorem pairStep_lt (lo : Nat) (P : List Nat) (pk ck : Nat) (hlo : lo ≤ 1) (hpk : pk < 4) (hck : ck < 4)
    (hP : ∀ v, P.getD v 0 < 8) : (pairStep lo P pk ck).1 < 4 ∧ (pairStep lo P pk ck).2 < 4 := by
  unfold pairStep
  have := hP (ck + 4 * (pk - lo))
  split
  · constructor
    · show lo + _ / 4 < 4
      omega
    · show _ % 4 < 4
      omega
  · exact ⟨hpk, hck⟩

theorem pairStep_inv {P Q : List Nat} (h : InvOn8 P Q) (lo pk ck : Nat) (hck : ck < 4) :
    pairStep lo Q (pairStep lo P pk ck).1 (pairStep lo P pk ck).2 = (pk, ck) := by
  unfold pairStep
  by_cases hr : lo ≤ pk ∧ pk ≤ lo + 1
  · simp only [if_pos hr]
    have hd := h.ltP (ck + 4 * (pk - lo))
    have hq := h.left (ck + 4 * (pk - lo)) (by omega)
    generalize P.getD (ck + 4 * (pk - lo)) 0 = dst at hd hq ⊢
    have hr2 : lo ≤ lo + dst / 4 ∧ lo + dst / 4 ≤ lo + 1 := by omega
    rewrite [if_pos hr2]
    have hidx : dst % 4 + 4 * (lo + dst / 4 - lo) = dst := by omega
    rewrite [hidx, hq]
    refine Prod.ext ?_ ?_
    · show lo + _ / 4 = pk
      omega
    · show _ % 4 = ck
      omega
  · simp only [if_neg hr]

/-- a digit list of length `n` with all digits `< 4` -/
def Dig4 (n : Nat) (d : List Nat) : Prop := d.length = n ∧ ∀ j, d.getD j 0 < 4

theorem dig4_iff (n : Nat) (d : List Nat) : Dig4 n d ↔ d.length = n ∧ ∀ x ∈ d, x < 4 :=
  ⟨fun h => ⟨h.1, forall_mem_of_getD_lt d h.2⟩, fun h => ⟨h.1, getD_lt_of_forall_mem d h.2⟩⟩

theorem shiftDigits_length (d : List Nat) (k : Nat) (F : Int × Int) (inv : Bool) (P : List Nat) :
    (shiftDigits d k F inv P).length = d.length := by
  unfold shiftDigits
  split
  · rfl
  · simp only []
    split <;> split <;> simp only [List.length_set]

theorem shiftDigits_dig4 {n : Nat} {d : List Nat} (hd : Dig4 n d) (k : Nat) (F : Int × Int) (inv : Bool)
    {P : List Nat} (hP : ∀ v, P.getD v 0 < 8) : Dig4 n (shiftDigits d k F inv P) := by
  refine ⟨(shiftDigits_length ..).trans hd.1, ?_⟩
  cases k with
  | zero => exact hd.2
  | succ i =>
    intro j
    have hl := pairStep_lt (shiftLo inv F) P _ _ (shiftLo_le inv F) (hd.2 (i + 1)) (hd.2 i) hP
    rewrite [shiftDigits_succ d i F inv P (hd.2 _) (hd.2 _) hP, getD_set, getD_set]
    split
    · exact hl.1
    · split
      · exact hl.2
      · exact hd.2 j

/-- a step only changes positions `k` and `k - 1` -/
theorem shiftDigits_getD_ne (d : List Nat) (k : Nat) (F : Int × Int) (inv : Bool) (P : List Nat) (j : Nat)
    (h1 : j ≠ k) (h2 : j + 1 ≠ k) : (shiftDigits d k F inv P).getD j 0 = d.getD j 0 := by
  unfold shiftDigits
  split
  · rfl
  · simp only []
    split <;> split <;> first
      | rfl
      | (rewrite [getD_set, getD_set, if_neg (fun h => h1 h.1.symm), if_neg (fun h => h2 (by omega))]; rfl)

/-- a step is the identity unless the parent digit is `lo` or `lo + 1` -/
theorem shiftDigits_id (d : List Nat) (k : Nat) (F : Int × Int) (inv : Bool) {P : List Nat}
    (hpk : d.getD k 0 < 4) (hck : d.getD (k - 1) 0 < 4) (hP : ∀ v, P.getD v 0 < 8)
    (h : ¬(shiftLo inv F ≤ d.getD k 0 ∧ d.getD k 0 ≤ shiftLo inv F + 1)) : shiftDigits d k F inv P = d := by
  cases k with
  | zero => rfl
  | succ i =>
    rewrite [shiftDigits_succ d i F inv P hpk hck hP]
    unfold pairStep
    rewrite [if_neg h]
    show (d.set i (d.getD i 0)).set (i + 1) (d.getD (i + 1) 0) = d
    rewrite [set_getD_self, set_getD_self]
    rfl

/-- closed form of an acting step: with `src = ck + 4·(pk - lo)` and `dst = P[src]` it writes `dst % 4` to
position `i` and `lo + dst / 4` to position `i + 1` -/
theorem shiftDigits_shift (d : List Nat) (i : Nat) (F : Int × Int) (inv : Bool) {P : List Nat}
    (hpk : d.getD (i + 1) 0 < 4) (hck : d.getD i 0 < 4) (hP : ∀ v, P.getD v 0 < 8)
    (h : shiftLo inv F ≤ d.getD (i + 1) 0 ∧ d.getD (i + 1) 0 ≤ shiftLo inv F + 1) :
    shiftDigits d (i + 1) F inv P =
      (d.set i (P.getD (d.getD i 0 + 4 * (d.getD (i + 1) 0 - shiftLo inv F)) 0 % 4)).set (i + 1)
        (shiftLo inv F + P.getD (d.getD i 0 + 4 * (d.getD (i + 1) 0 - shiftLo inv F)) 0 / 4) := by
  rewrite [shiftDigits_succ d i F inv P hpk hck hP]
  unfold pairStep
  rewrite [if_pos h]
  rfl

theorem set_set_pair (d : List Nat) (i a b a' b' : Nat) :
    (((d.set i a).set (i + 1) b).set i a').set (i + 1) b' = (d.set i a').set (i + 1) b' := by
  rewrite [List.set_comm a b (by omega : i ≠ i + 1), List.set_set,
    List.set_comm b a' (by omega : i + 1 ≠ i), List.set_set]
  rfl

/-- one step with the inverse pattern and the same flips undoes the step -/
theorem shiftDigits_inv {P Q : List Nat} (h : InvOn8 P Q) {n : Nat} {d : List Nat} (hd : Dig4 n d) (k : Nat)
    (hk : k < n) (F : Int × Int) (inv : Bool) :
    shiftDigits (shiftDigits d k F inv P) k F inv Q = d := by
  cases k with
  | zero => rfl
  | succ i =>
    have hd1 := shiftDigits_dig4 hd (i + 1) F inv h.ltP
    have hlen := hd.1
    rewrite [shiftDigits_succ _ i F inv Q (hd1.2 _) (hd1.2 _) h.ltQ]
    rewrite [shiftDigits_succ d i F inv P (hd.2 _) (hd.2 _) h.ltP]
    have g1 : ∀ a b : Nat, ((d.set i a).set (i + 1) b).getD (i + 1) 0 = b := by
      intro a b
      rewrite [getD_set, if_pos ⟨rfl, by rewrite [List.length_set]; omega⟩]; rfl
    have g0 : ∀ a b : Nat, ((d.set i a).set (i + 1) b).getD i 0 = a := by
      intro a b
      rewrite [getD_set, if_neg (by omega), getD_set, if_pos ⟨rfl, by omega⟩]; rfl
    rewrite [g1, g0, pairStep_inv h _ _ _ (hd.2 _), set_set_pair]
    show (d.set i (d.getD i 0)).set (i + 1) (d.getD (i + 1) 0) = d
    rewrite [set_getD_self, set_getD_self]
    rfl

/-! ## patterns -/

/-- `P` is a permutation of `0..7`: length 8, entries `< 8`, every value occurs, no value occurs twice -/
def IsPerm8 (P : List Nat) : Prop :=
  P.length = 8 ∧ (∀ v, v < 8 → P.getD v 0 < 8) ∧ (∀ v, v < 8 → v ∈ P) ∧
    (∀ v, v < 8 → ∀ w, w < 8 → P.getD v 0 = P.getD w 0 → v = w)

instance (P : List Nat) : Decidable (IsPerm8 P) := by unfold IsPerm8; exact inferInstance

theorem isPerm8_PATTERN : IsPerm8 Gen.PATTERN := by decide
theorem isPerm8_PATTERN_FLIPPED : IsPerm8 Gen.PATTERN_FLIPPED := by decide

theorem getD_of_length_le (l : List Nat) (v : Nat) (h : l.length ≤ v) : l.getD v 0 = 0 := by
  rewrite [List.getD_eq_getElem?_getD, List.getElem?_eq_none h]; rfl

theorem length_reversePattern (P : List Nat) : (reversePattern P).length = P.length := by
  simp only [reversePattern, List.length_map, List.length_range]

theorem getD_reversePattern (P : List Nat) (v : Nat) (hv : v < P.length) :
    (reversePattern P).getD v 0 = P.idxOf v := by
  unfold reversePattern
  rewrite [List.getD_eq_getElem?_getD, List.getElem?_map, List.getElem?_range hv]; rfl

theorem getD_idxOf (P : List Nat) (v : Nat) (h : v ∈ P) : P.getD (P.idxOf v) 0 = v := by
  have hl := List.idxOf_lt_length_of_mem h
  rewrite [List.getD_eq_getElem?_getD, List.getElem?_eq_getElem hl, List.getElem_idxOf hl]; rfl

/-- `reversePattern P` is the inverse permutation of `P` -/
theorem IsPerm8.invOn8 {P : List Nat} (h : IsPerm8 P) : InvOn8 P (reversePattern P) := by
  obtain ⟨hlen, hlt, hmem, hinj⟩ := h
  have ltP : ∀ v, P.getD v 0 < 8 := by
    intro v
    by_cases hv : v < 8
    · exact hlt v hv
    · rewrite [getD_of_length_le P v (by omega)]; omega
  have ltI : ∀ v, v < 8 → P.idxOf v < 8 := by
    intro v hv
    have := List.idxOf_lt_length_of_mem (hmem v hv)
    omega
  refine ⟨ltP, ?_, ?_, ?_⟩
  · intro v
    by_cases hv : v < 8
    · rewrite [getD_reversePattern P v (by omega)]; exact ltI v hv
    · rewrite [getD_of_length_le _ v (by rewrite [length_reversePattern]; omega)]; omega
  · intro v hv
    have hw := hlt v hv
    rewrite [getD_reversePattern P _ (by omega)]
    exact hinj _ (ltI _ hw) v hv (getD_idxOf P _ (hmem _ hw))
  · intro v hv
    rewrite [getD_reversePattern P v (by omega)]
    exact getD_idxOf P v (hmem v hv)

theorem IsPerm8.getD_lt {P : List Nat} (h : IsPerm8 P) (v : Nat) : P.getD v 0 < 8 := h.invOn8.ltP v

theorem IsPerm8.reversePattern_getD {P : List Nat} (h : IsPerm8 P) (v : Nat) (hv : v < 8) :
    (reversePattern P).getD (P.getD v 0) 0 = v := h.invOn8.left v hv

theorem IsPerm8.getD_reversePattern {P : List Nat} (h : IsPerm8 P) (v : Nat) (hv : v < 8) :
    P.getD ((reversePattern P).getD v 0) 0 = v := h.invOn8.right v hv

/-- the reversed pattern is again a permutation of `0..7` -/
theorem IsPerm8.reverse {P : List Nat} (h : IsPerm8 P) : IsPerm8 (reversePattern P) := by
  have hi := h.invOn8
  have hlen : (reversePattern P).length = 8 := (length_reversePattern P).trans h.1
  refine ⟨hlen, fun v _ => hi.ltQ v, ?_, ?_⟩
  · intro v hv
    have hw := hi.ltP v
    have e := hi.left v hv
    rewrite [List.getD_eq_getElem?_getD, List.getElem?_eq_getElem (by omega)] at e
    exact e ▸ List.getElem_mem _
  · intro v hv w hw e
    have := congrArg (fun x => P.getD x 0) e
    simp only [hi.right v hv, hi.right w hw] at this
    exact this

/-! ## the two passes -/

/-- `shiftUp` that also returns the final flips -/
def shiftUpF (invertJ : Bool) (pattern : List Nat) : Nat → Nat → List Nat → Int × Int → List Nat × (Int × Int)
  | 0, _, digits, flips => (digits, flips)
  | m + 1, i, digits, flips =>
    let flips := mulFlips flips (quaternaryToFlips (digits.getD i 0))
    let digits := shiftDigits digits i flips invertJ pattern
    shiftUpF invertJ pattern m (i + 1) digits flips

theorem shiftUp_eq (inv : Bool) (P : List Nat) (m i : Nat) (d : List Nat) (F : Int × Int) :
    shiftUp inv P m i d F = (shiftUpF inv P m i d F).1 := by
  induction m generalizing i d F with
  | zero => rfl
  | succ m ih => exact ih ..

/-- `shiftUpF` peeled at the last (most significant) step -/
theorem shiftUpF_succ (inv : Bool) (P : List Nat) (m i : Nat) (d : List Nat) (F : Int × Int) :
    shiftUpF inv P (m + 1) i d F =
      (shiftDigits (shiftUpF inv P m i d F).1 (i + m)
          (mulFlips (shiftUpF inv P m i d F).2 (quaternaryToFlips ((shiftUpF inv P m i d F).1.getD (i + m) 0))) inv P,
        mulFlips (shiftUpF inv P m i d F).2 (quaternaryToFlips ((shiftUpF inv P m i d F).1.getD (i + m) 0))) := by
  induction m generalizing i d F with
  | zero => rfl
  | succ m ih =>
    show shiftUpF inv P (m + 1) (i + 1) _ _ = _
    rewrite [ih, (by omega : i + 1 + m = i + (m + 1))]
    rfl

/-- Everything about the top-down pass at once.  For `k ≤ n` and a digit list `d` (length `n`, digits `< 4`),
`shiftDown … k d F` (i) is again such a list, (ii) leaves positions `≥ k` alone, (iii) returns the flips
`F · Π_{j<k} flips(d'[j])` over the *final* digits, and (iv) is undone by the bottom-up pass with the
reversed pattern, started from the returned flips. -/
theorem shiftDown_spec {P Q : List Nat} (h : InvOn8 P Q) (inv : Bool) {n : Nat} (k : Nat) (hk : k ≤ n)
    (d : List Nat) (hd : Dig4 n d) (F : Int × Int) :
    Dig4 n (shiftDown inv P k d F).1 ∧
    (∀ j, k ≤ j → (shiftDown inv P k d F).1.getD j 0 = d.getD j 0) ∧
    (shiftDown inv P k d F).2 = mulFlips F (flipsUpTo (shiftDown inv P k d F).1 k) ∧
    shiftUpF inv Q k 0 (shiftDown inv P k d F).1 (shiftDown inv P k d F).2 = (d, F) := by
  induction k generalizing d F with
  | zero => exact ⟨hd, fun _ _ => rfl, (mulFlips_one F).symm, rfl⟩
  | succ k ih =>
    have hd1 := shiftDigits_dig4 hd k F inv h.ltP
    obtain ⟨r1, r2, r3, r4⟩ := ih (by omega) (shiftDigits d k F inv P) hd1
      (mulFlips F (quaternaryToFlips ((shiftDigits d k F inv P).getD k 0)))
    show Dig4 n (shiftDown inv P k (shiftDigits d k F inv P) _).1 ∧
      (∀ j, k + 1 ≤ j → (shiftDown inv P k (shiftDigits d k F inv P) _).1.getD j 0 = d.getD j 0) ∧
      (shiftDown inv P k (shiftDigits d k F inv P) _).2 =
        mulFlips F (flipsUpTo (shiftDown inv P k (shiftDigits d k F inv P) _).1 (k + 1)) ∧
      shiftUpF inv Q (k + 1) 0 (shiftDown inv P k (shiftDigits d k F inv P) _).1
        (shiftDown inv P k (shiftDigits d k F inv P) _).2 = (d, F)
    refine ⟨r1, ?_, ?_, ?_⟩
    · intro j hj
      rewrite [r2 j (by omega)]
      exact shiftDigits_getD_ne d k F inv P j (by omega) (by omega)
    · rewrite [r3, flipsUpTo, r2 k (Nat.le_refl k), mulFlips_assoc,
        mulFlips_comm (quaternaryToFlips _)]
      rfl
    · rewrite [shiftUpF_succ, r4]
      simp only [Nat.zero_add]
      rewrite [mulFlips_cancel F _ (hd1.2 k), shiftDigits_inv h hd k (by omega)]
      rfl

/-- Everything about the bottom-up pass at once (the mirror image of `shiftDown_spec`). -/
theorem shiftUpF_spec {P Q : List Nat} (h : InvOn8 P Q) (inv : Bool) {n : Nat} (k : Nat) (hk : k ≤ n)
    (e : List Nat) (he : Dig4 n e) (F : Int × Int) :
    Dig4 n (shiftUpF inv Q k 0 e F).1 ∧
    (∀ j, k ≤ j → (shiftUpF inv Q k 0 e F).1.getD j 0 = e.getD j 0) ∧
    (shiftUpF inv Q k 0 e F).2 = mulFlips F (flipsUpTo e k) ∧
    shiftDown inv P k (shiftUpF inv Q k 0 e F).1 (shiftUpF inv Q k 0 e F).2 = (e, F) := by
  induction k with
  | zero => exact ⟨he, fun _ _ => rfl, (mulFlips_one F).symm, rfl⟩
  | succ k ih =>
    obtain ⟨r1, r2, r3, r4⟩ := ih (by omega)
    rewrite [shiftUpF_succ]
    simp only [Nat.zero_add]
    generalize shiftUpF inv Q k 0 e F = r at r1 r2 r3 r4 ⊢
    have hd1 := shiftDigits_dig4 r1 k (mulFlips r.2 (quaternaryToFlips (r.1.getD k 0))) inv h.ltQ
    refine ⟨hd1, ?_, ?_, ?_⟩
    · intro j hj
      rewrite [shiftDigits_getD_ne r.1 k _ inv Q j (by omega) (by omega)]
      exact r2 j (by omega)
    · rewrite [r3, r2 k (Nat.le_refl k), mulFlips_assoc]
      rfl
    · show shiftDown inv P k (shiftDigits (shiftDigits r.1 k _ inv Q) k _ inv P) _ = (e, F)
      rewrite [shiftDigits_inv h.symm r1 k (by omega), mulFlips_cancel _ _ (r1.2 k)]
      exact r4

/-- MAIN (a)(b)(c): the top-down pass yields a digit list of the same shape, its flips are the product of the
flips of the final digits, and the bottom-up pass with the reversed pattern, started from these flips,
restores the input. -/
theorem shiftUp_shiftDown {P : List Nat} (hP : IsPerm8 P) (invertJ : Bool) (n : Nat) (ds : List Nat)
    (hlen : ds.length = n) (hlt : ∀ x ∈ ds, x < 4) :
    ((shiftDown invertJ P n ds (Gen.NO, Gen.NO)).1.length = n ∧
      ∀ x ∈ (shiftDown invertJ P n ds (Gen.NO, Gen.NO)).1, x < 4) ∧
    (shiftDown invertJ P n ds (Gen.NO, Gen.NO)).2 = flipsProd (shiftDown invertJ P n ds (Gen.NO, Gen.NO)).1 ∧
    shiftUp invertJ (reversePattern P) n 0 (shiftDown invertJ P n ds (Gen.NO, Gen.NO)).1
      (shiftDown invertJ P n ds (Gen.NO, Gen.NO)).2 = ds := by
  obtain ⟨r1, _, r3, r4⟩ := shiftDown_spec hP.invOn8 invertJ n (Nat.le_refl n) ds
    ((dig4_iff n ds).2 ⟨hlen, hlt⟩) (Gen.NO, Gen.NO)
  refine ⟨(dig4_iff n _).1 r1, ?_, ?_⟩
  · have hf := flipsUpTo_length (shiftDown invertJ P n ds (Gen.NO, Gen.NO)).1
    rewrite [r1.1] at hf
    rewrite [r3, hf]
    exact NO_mulFlips _
  · rewrite [shiftUp_eq, r4]; rfl

/-- the bottom-up pass maps digit lists (length `n`, digits `< 4`) to such lists -/
theorem shiftUp_dig4 {P : List Nat} (hP : IsPerm8 P) (invertJ : Bool) (n : Nat) (e : List Nat)
    (hlen : e.length = n) (hlt : ∀ x ∈ e, x < 4) (F : Int × Int) :
    (shiftUp invertJ (reversePattern P) n 0 e F).length = n ∧
      ∀ x ∈ shiftUp invertJ (reversePattern P) n 0 e F, x < 4 := by
  rewrite [shiftUp_eq]
  exact (dig4_iff n _).1
    (shiftUpF_spec hP.invOn8 invertJ n (Nat.le_refl n) e ((dig4_iff n e).2 ⟨hlen, hlt⟩) F).1

/-- MAIN (d): conversely the top-down pass undoes the bottom-up pass, so the two passes are mutually
inverse bijections between digit lists. -/
theorem shiftDown_shiftUp {P : List Nat} (hP : IsPerm8 P) (invertJ : Bool) (n : Nat) (e : List Nat)
    (hlen : e.length = n) (hlt : ∀ x ∈ e, x < 4) :
    shiftDown invertJ P n (shiftUp invertJ (reversePattern P) n 0 e (flipsProd e)) (Gen.NO, Gen.NO) =
      (e, flipsProd e) := by
  obtain ⟨_, _, r3, r4⟩ := shiftUpF_spec hP.invOn8 invertJ n (Nat.le_refl n) e
    ((dig4_iff n e).2 ⟨hlen, hlt⟩) (flipsProd e)
  have hf : flipsUpTo e n = flipsProd e := by
    have := flipsUpTo_length e
    rewrite [hlen] at this
    exact this
  rewrite [hf, flipsProd_sq e hlt] at r3
  rewrite [shiftUp_eq, NO_eq_one, ← r3]
  exact r4

/-! ## base-4 plumbing -/

/-- value of a little-endian base-4 digit list, as a recursion -/
def val4 : List Nat → Nat
  | [] => 0
  | d :: ds => d + 4 * val4 ds

theorem sum_zipIdx (l : List Nat) (k : Nat) :
    ((l.zipIdx k).map (fun (p : Nat × Nat) => p.1 * 4 ^ p.2)).sum = 4 ^ k * val4 l := by
  induction l generalizing k with
  | nil => rfl
  | cons a l ih =>
    rewrite [List.zipIdx_cons, List.map_cons, List.sum_cons, ih, val4, Nat.pow_succ, Nat.mul_add,
      Nat.mul_comm a, Nat.mul_assoc]
    rfl

theorem digitsValue_eq (l : List Nat) : digitsValue l = val4 l := by
  have := sum_zipIdx l 0
  rewrite [Nat.pow_zero, Nat.one_mul] at this
  exact this

theorem digitsLSB_succ (s n : Nat) : digitsLSB s (n + 1) = s % 4 :: digitsLSB (s / 4) n := by
  unfold digitsLSB
  rewrite [List.range_succ_eq_map, List.map_cons, List.map_map]
  have h0 : s / 4 ^ 0 % 4 = s % 4 := by rewrite [Nat.pow_zero, Nat.div_one]; rfl
  rewrite [h0]
  refine congrArg _ (List.map_congr_left ?_)
  · intro i _
    show s / 4 ^ (i + 1) % 4 = s / 4 / 4 ^ i % 4
    rewrite [Nat.div_div_eq_div_mul, Nat.pow_succ, Nat.mul_comm]; rfl

theorem length_digitsLSB (s n : Nat) : (digitsLSB s n).length = n := by
  simp only [digitsLSB, List.length_map, List.length_range]

theorem digitsLSB_lt (s n : Nat) : ∀ x ∈ digitsLSB s n, x < 4 := by
  intro x hx
  simp only [digitsLSB, List.mem_map] at hx
  obtain ⟨i, _, rfl⟩ := hx
  exact Nat.mod_lt _ (by decide)

theorem val4_digitsLSB (n s : Nat) (h : s < 4 ^ n) : val4 (digitsLSB s n) = s := by
  induction n generalizing s with
  | zero =>
    rewrite [Nat.pow_zero] at h
    show 0 = s
    omega
  | succ n ih =>
    rewrite [digitsLSB_succ, val4, ih (s / 4) (by rewrite [Nat.pow_succ] at h; omega)]
    omega

theorem digitsValue_digitsLSB (s n : Nat) (h : s < 4 ^ n) : digitsValue (digitsLSB s n) = s := by
  rewrite [digitsValue_eq]; exact val4_digitsLSB n s h

theorem val4_lt (ds : List Nat) (h : ∀ x ∈ ds, x < 4) : val4 ds < 4 ^ ds.length := by
  induction ds with
  | nil => decide
  | cons a l ih =>
    have ha := h a (List.mem_cons_self ..)
    have hl := ih (fun x hx => h x (List.mem_cons_of_mem _ hx))
    rewrite [val4, List.length_cons, Nat.pow_succ]
    omega

theorem digitsValue_lt (ds : List Nat) (h : ∀ x ∈ ds, x < 4) : digitsValue ds < 4 ^ ds.length := by
  rewrite [digitsValue_eq]; exact val4_lt ds h

theorem digitsLSB_val4 (ds : List Nat) (h : ∀ x ∈ ds, x < 4) : digitsLSB (val4 ds) ds.length = ds := by
  induction ds with
  | nil => rfl
  | cons a l ih =>
    have ha := h a (List.mem_cons_self ..)
    have hl := ih (fun x hx => h x (List.mem_cons_of_mem _ hx))
    rewrite [List.length_cons, digitsLSB_succ, val4,
      (by omega : (a + 4 * val4 l) % 4 = a), (by omega : (a + 4 * val4 l) / 4 = val4 l), hl]
    rfl

theorem digitsLSB_digitsValue (ds : List Nat) (h : ∀ x ∈ ds, x < 4) :
    digitsLSB (digitsValue ds) ds.length = ds := by
  rewrite [digitsValue_eq]; exact digitsLSB_val4 ds h

theorem quatLen_le (fuel n s : Nat) (h : s < 4 ^ n) : quatLen fuel s ≤ n := by
  induction fuel generalizing n s with
  | zero => exact Nat.zero_le _
  | succ f ih =>
    unfold quatLen
    split
    · exact Nat.zero_le _
    · cases n with
      | zero => rewrite [Nat.pow_zero] at h; omega
      | succ n =>
        have := ih n (s / 4) (by rewrite [Nat.pow_succ] at h; omega)
        omega

theorem max_quatLen (n s : Nat) (h : s < 4 ^ n) : max n (quatLen 33 s) = n :=
  Nat.max_eq_left (quatLen_le 33 n s h)

/-! ## closed forms of the two internal walks -/

/-- the pattern selected by `flipIJ` -/
def hilbertPattern (flipIJ : Bool) : List Nat := if flipIJ then Gen.PATTERN_FLIPPED else Gen.PATTERN

theorem isPerm8_hilbertPattern (flipIJ : Bool) : IsPerm8 (hilbertPattern flipIJ) := by
  cases flipIJ
  · exact isPerm8_PATTERN
  · exact isPerm8_PATTERN_FLIPPED

/-- the shifted digits of curve position `s` at depth `n` -/
def shiftedDigits (s n : Nat) (invertJ flipIJ : Bool) : List Nat :=
  (shiftDown invertJ (hilbertPattern flipIJ) n (digitsLSB s n) (Gen.NO, Gen.NO)).1

theorem sToAnchorInternal_eq (s n : Nat) (invertJ flipIJ : Bool) (h : s < 4 ^ n) :
    sToAnchorInternal s n invertJ flipIJ =
      { flips := (accumOffset n (shiftedDigits s n invertJ flipIJ) (0, 0) (Gen.NO, Gen.NO)).2,
        k := (shiftedDigits s n invertJ flipIJ).getD 0 0,
        offset := kjToIJ (accumOffset n (shiftedDigits s n invertJ flipIJ) (0, 0) (Gen.NO, Gen.NO)).1 } := by
  unfold sToAnchorInternal
  simp only [max_quatLen n s h]
  rfl

section generic
variable {α : Type} [Add α] [Sub α] [Mul α] [Neg α] [LT α] [DecidableLT α]

/-- the locate walk prepends exactly `n` digits to the accumulator and multiplies the flips by their flips -/
theorem locateDigits_spec (L : Lits α) (x y : α) (n : Nat) (pivot : α × α) (F : Int × Int) (acc : List Nat) :
    ∃ new : List Nat, new.length = n ∧ (locateDigits L x y n pivot F acc).1 = new ++ acc ∧
      (locateDigits L x y n pivot F acc).2 = mulFlips F (flipsProd new) := by
  induction n generalizing pivot F acc with
  | zero => exact ⟨[], rfl, rfl, (mulFlips_one F).symm⟩
  | succ i ih =>
    unfold locateDigits
    simp only []
    generalize ijToQuaternary L ((x - pivot.1) * L.invPow2 i) ((y - pivot.2) * L.invPow2 i) F = dg
    generalize ((pivot.1 + L.ofInt (kjToIJ (quaternaryToKJ dg F)).1 * L.ofInt (2 ^ i),
      pivot.2 + L.ofInt (kjToIJ (quaternaryToKJ dg F)).2 * L.ofInt (2 ^ i)) : α × α) = pv
    obtain ⟨new, h1, h2, h3⟩ := ih pv (mulFlips F (quaternaryToFlips dg)) (dg :: acc)
    refine ⟨new ++ [dg], by rewrite [List.length_append, h1]; rfl, ?_, ?_⟩
    · rewrite [h2, List.append_assoc]; rfl
    · rewrite [h3, flipsProd_append, mulFlips_assoc, mulFlips_comm (flipsProd new)]
      show _ = mulFlips F (mulFlips (mulFlips (quaternaryToFlips dg) (1, 1)) (flipsProd new))
      rewrite [mulFlips_one]; rfl

theorem locateDigits_length (L : Lits α) (x y : α) (n : Nat) :
    (locateDigits L x y n (L.ofInt 0, L.ofInt 0) (Gen.NO, Gen.NO) []).1.length = n := by
  obtain ⟨new, h1, h2, _⟩ := locateDigits_spec L x y n (L.ofInt 0, L.ofInt 0) (Gen.NO, Gen.NO) []
  rewrite [h2, List.append_nil]; exact h1

theorem locateDigits_flips (L : Lits α) (x y : α) (n : Nat) :
    (locateDigits L x y n (L.ofInt 0, L.ofInt 0) (Gen.NO, Gen.NO) []).2 =
      flipsProd (locateDigits L x y n (L.ofInt 0, L.ofInt 0) (Gen.NO, Gen.NO) []).1 := by
  obtain ⟨new, h1, h2, h3⟩ := locateDigits_spec L x y n (L.ofInt 0, L.ofInt 0) (Gen.NO, Gen.NO) []
  rewrite [h3, h2, List.append_nil]; exact NO_mulFlips _

theorem ijToSInternal_eq (L : Lits α) (x y : α) (invertJ flipIJ : Bool) (n : Nat) :
    ijToSInternal L x y invertJ flipIJ n =
      digitsValue (shiftUp invertJ (reversePattern (hilbertPattern flipIJ)) n 0
        (locateDigits L x y n (L.ofInt 0, L.ofInt 0) (Gen.NO, Gen.NO) []).1
        (flipsProd (locateDigits L x y n (L.ofInt 0, L.ofInt 0) (Gen.NO, Gen.NO) []).1)) := by
  rewrite [← locateDigits_flips]
  unfold ijToSInternal
  simp only [locateDigits_length]
  cases flipIJ <;> rfl

/-- as `ijToSInternal_eq`, with the result of the locate walk named -/
theorem ijToSInternal_of_locate (L : Lits α) (x y : α) (invertJ flipIJ : Bool) (n : Nat) (e : List Nat)
    (fl : Int × Int) (h : locateDigits L x y n (L.ofInt 0, L.ofInt 0) (Gen.NO, Gen.NO) [] = (e, fl)) :
    ijToSInternal L x y invertJ flipIJ n =
      digitsValue (shiftUp invertJ (reversePattern (hilbertPattern flipIJ)) n 0 e fl) := by
  have hf := locateDigits_flips L x y n
  rewrite [ijToSInternal_eq, ← hf, h]
  rfl

/-- COMBINED round trip: if the locate walk finds the shifted digits of position `s`, then
`ijToSInternal` returns `s`.  (The flips returned by the locate walk need not be mentioned: they are
always the product of the flips of the located digits.) -/
theorem ijToSInternal_roundtrip (L : Lits α) (x y : α) (invertJ flipIJ : Bool) (n s : Nat) (hs : s < 4 ^ n)
    (hloc : (locateDigits L x y n (L.ofInt 0, L.ofInt 0) (Gen.NO, Gen.NO) []).1 =
      shiftedDigits s n invertJ flipIJ) :
    ijToSInternal L x y invertJ flipIJ n = s := by
  obtain ⟨_, hb, hc⟩ := shiftUp_shiftDown (isPerm8_hilbertPattern flipIJ) invertJ n (digitsLSB s n)
    (length_digitsLSB s n) (digitsLSB_lt s n)
  rewrite [ijToSInternal_eq, hloc]
  unfold shiftedDigits
  rewrite [← hb, hc]
  exact digitsValue_digitsLSB s n hs

end generic

/-! ## position ↦ shifted digits is a bijection `{s < 4^n} → {digit lists of length n}` -/

theorem shiftedDigits_spec (s n : Nat) (invertJ flipIJ : Bool) :
    (shiftedDigits s n invertJ flipIJ).length = n ∧ ∀ x ∈ shiftedDigits s n invertJ flipIJ, x < 4 :=
  (shiftUp_shiftDown (isPerm8_hilbertPattern flipIJ) invertJ n (digitsLSB s n)
    (length_digitsLSB s n) (digitsLSB_lt s n)).1

/-- the bottom-up pass recovers the position from its shifted digits -/
theorem digitsValue_shiftUp_shiftedDigits (s n : Nat) (invertJ flipIJ : Bool) (hs : s < 4 ^ n) :
    digitsValue (shiftUp invertJ (reversePattern (hilbertPattern flipIJ)) n 0 (shiftedDigits s n invertJ flipIJ)
      (flipsProd (shiftedDigits s n invertJ flipIJ))) = s := by
  obtain ⟨_, hb, hc⟩ := shiftUp_shiftDown (isPerm8_hilbertPattern flipIJ) invertJ n (digitsLSB s n)
    (length_digitsLSB s n) (digitsLSB_lt s n)
  unfold shiftedDigits
  rewrite [← hb, hc]
  exact digitsValue_digitsLSB s n hs

theorem shiftedDigits_injective (n : Nat) (invertJ flipIJ : Bool) (s t : Nat) (hs : s < 4 ^ n) (ht : t < 4 ^ n)
    (h : shiftedDigits s n invertJ flipIJ = shiftedDigits t n invertJ flipIJ) : s = t := by
  have e1 := digitsValue_shiftUp_shiftedDigits s n invertJ flipIJ hs
  have e2 := digitsValue_shiftUp_shiftedDigits t n invertJ flipIJ ht
  rewrite [h] at e1
  exact e1.symm.trans e2

theorem shiftedDigits_surjective (n : Nat) (invertJ flipIJ : Bool) (e : List Nat) (hlen : e.length = n)
    (hlt : ∀ x ∈ e, x < 4) : ∃ s, s < 4 ^ n ∧ shiftedDigits s n invertJ flipIJ = e := by
  have hP := isPerm8_hilbertPattern flipIJ
  obtain ⟨ul, ult⟩ := shiftUp_dig4 hP invertJ n e hlen hlt (flipsProd e)
  refine ⟨digitsValue (shiftUp invertJ (reversePattern (hilbertPattern flipIJ)) n 0 e (flipsProd e)), ?_, ?_⟩
  · have := digitsValue_lt _ ult
    rewrite [ul] at this
    exact this
  · unfold shiftedDigits
    have hd := digitsLSB_digitsValue _ ult
    rewrite [ul] at hd
    rewrite [hd, shiftDown_shiftUp hP invertJ n e hlen hlt]
    rfl

/-! ## non-vacuity: concrete, non-trivial instances (evaluated on the generated tables) -/

/-- the shifting really moves digits (position 27 at depth 3), for both patterns -/
example : shiftedDigits 27 3 false false ≠ digitsLSB 27 3 := by decide
example : shiftedDigits 27 3 true true ≠ digitsLSB 27 3 ∨ shiftedDigits 28 3 true true ≠ digitsLSB 28 3 := by decide
example : IsPerm8 (reversePattern Gen.PATTERN) := isPerm8_PATTERN.reverse
example : reversePattern Gen.PATTERN ≠ Gen.PATTERN := by decide
example : shiftUp true (reversePattern Gen.PATTERN_FLIPPED) 3 0
    (shiftDown true Gen.PATTERN_FLIPPED 3 [3, 2, 1] (Gen.NO, Gen.NO)).1
    (shiftDown true Gen.PATTERN_FLIPPED 3 [3, 2, 1] (Gen.NO, Gen.NO)).2 = [3, 2, 1] :=
  (shiftUp_shiftDown isPerm8_PATTERN_FLIPPED true 3 [3, 2, 1] rfl (by decide)).2.2
example : shiftDown false Gen.PATTERN 3 (shiftUp false (reversePattern Gen.PATTERN) 3 0 [3, 3, 1] (flipsProd [3, 3, 1]))
    (Gen.NO, Gen.NO) = ([3, 3, 1], flipsProd [3, 3, 1]) :=
  shiftDown_shiftUp isPerm8_PATTERN false 3 [3, 3, 1] rfl (by decide)
example : digitsValue (digitsLSB 27 3) = 27 := digitsValue_digitsLSB 27 3 (by decide)
/-- the hypothesis of `ijToSInternal_roundtrip` is satisfiable: over `Int`, locating the point `(0, 2)` at depth 1
finds the shifted digits of position 2 -/
example : ijToSInternal (α := Int) ⟨id, fun _ => 1⟩ 0 2 false false 1 = 2 :=
  ijToSInternal_roundtrip _ _ _ _ _ 1 2 (by decide) (by decide)

end A5
