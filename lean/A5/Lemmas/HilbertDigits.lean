import A5.Model.Hilbert
/-! # Digit-level lemmas for the Hilbert walk (`A5/Model/Hilbert.lean`)

Pure list / `Nat` / `Int` facts (core only):
* flips form a commutative monoid in which every `quaternaryToFlips d` is an involution;
* closed form of `shiftDigits` (a permutation acting on the pair `(digit i, digit i-1)`);
* `reversePattern P` is the inverse permutation of `P`;
* the top-down pass `shiftDown` and the bottom-up pass `shiftUp` are mutually inverse;
* base-4 plumbing (`digitsLSB`, `digitsValue`, `quatLen`);
* closed forms of `sToAnchorInternal` / `ijToSInternal` and the combined round-trip lemma. -/
namespace A5

/-! ## flips -/

theorem NO_eq_one : Gen.NO = 1 := by decide

theorem mulFlips_comm (a b : Int × Int) : mulFlips a b = mulFlips b a := by
  simp only [mulFlips, Int.mul_comm]

theorem mulFlips_assoc (a b c : Int × Int) : mulFlips (mulFlips a b) c = mulFlips a (mulFlips b c) := by
  simp only [mulFlips, Int.mul_assoc]

theorem mulFlips_one (a : Int × Int) : mulFlips a (1, 1) = a := by
  simp only [mulFlips, Int.mul_one]

theorem one_mulFlips (a : Int × Int) : mulFlips (1, 1) a = a := by
  simp only [mulFlips, Int.one_mul]

/-- every digit's flip pair is an involution (checked on the generated table) -/
theorem quaternaryToFlips_sq (d : Nat) (h : d < 4) :
    mulFlips (quaternaryToFlips d) (quaternaryToFlips d) = (1, 1) := by
  have key : ∀ d < 4, mulFlips (quaternaryToFlips d) (quaternaryToFlips d) = (1, 1) := by decide
  exact key d h

/-- multiplying twice by the same digit's flips cancels -/
theorem mulFlips_cancel (F : Int × Int) (d : Nat) (h : d < 4) :
    mulFlips (mulFlips F (quaternaryToFlips d)) (quaternaryToFlips d) = F := by
  rewrite [mulFlips_assoc, quaternaryToFlips_sq d h, mulFlips_one]; rfl

/-- product of the flips of all digits of a list -/
def flipsProd : List Nat → Int × Int
  | [] => (1, 1)
  | d :: ds => mulFlips (quaternaryToFlips d) (flipsProd ds)

/-- product of the flips of the digits at positions `< k` -/
def flipsUpTo (d : List Nat) : Nat → Int × Int
  | 0 => (1, 1)
  | k + 1 => mulFlips (flipsUpTo d k) (quaternaryToFlips (d.getD k 0))

theorem flipsUpTo_cons (a : Nat) (l : List Nat) (k : Nat) :
    flipsUpTo (a :: l) (k + 1) = mulFlips (quaternaryToFlips a) (flipsUpTo l k) := by
  induction k with
  | zero => simp only [flipsUpTo, List.getD_cons_zero, one_mulFlips, mulFlips_one]
  | succ k ih =>
    rewrite [flipsUpTo, ih, flipsUpTo, List.getD_cons_succ, mulFlips_assoc]; rfl

theorem flipsUpTo_length (l : List Nat) : flipsUpTo l l.length = flipsProd l := by
  induction l with
  | nil => rfl
  | cons a l ih => rewrite [List.length_cons, flipsUpTo_cons, ih]; rfl

theorem flipsUpTo_congr (d e : List Nat) (k : Nat) (h : ∀ j, j < k → d.getD j 0 = e.getD j 0) :
    flipsUpTo d k = flipsUpTo e k := by
  induction k with
  | zero => rfl
  | succ k ih =>
    rewrite [flipsUpTo, flipsUpTo, ih (fun j hj => h j (by omega)), h k (by omega)]; rfl

theorem flipsProd_append (l m : List Nat) : flipsProd (l ++ m) = mulFlips (flipsProd l) (flipsProd m) := by
  induction l with
  | nil => rewrite [List.nil_append, flipsProd, one_mulFlips]; rfl
  | cons a l ih => rewrite [List.cons_append, flipsProd, ih, flipsProd, mulFlips_assoc]; rfl

theorem flipsProd_sq (l : List Nat) (h : ∀ x ∈ l, x < 4) : mulFlips (flipsProd l) (flipsProd l) = (1, 1) := by
  induction l with
  | nil => rfl
  | cons a l ih =>
    have ha := h a (List.mem_cons_self ..)
    have hl := ih (fun x hx => h x (List.mem_cons_of_mem _ hx))
    rewrite [flipsProd, mulFlips_assoc, mulFlips_comm (flipsProd l), mulFlips_assoc, hl, mulFlips_one,
      quaternaryToFlips_sq a ha]
    rfl

/-! ## list helpers -/

theorem getD_set (l : List Nat) (i j v : Nat) :
    (l.set i v).getD j 0 = if i = j ∧ i < l.length then v else l.getD j 0 := by
  simp only [List.getD_eq_getElem?_getD, List.getElem?_set]
  by_cases h : i = j
  · subst h
    by_cases h2 : i < l.length
    · simp [h2]
    · simp [h2]
  · simp [h]

theorem set_getD_self (l : List Nat) (i : Nat) : l.set i (l.getD i 0) = l := by
  induction l generalizing i with
  | nil => rfl
  | cons a l ih =>
    cases i with
    | zero => rfl
    | succ i => rewrite [List.getD_cons_succ, List.set_cons_succ, ih]; rfl

theorem getD_lt_of_forall_mem (l : List Nat) (h : ∀ x ∈ l, x < 4) (j : Nat) : l.getD j 0 < 4 := by
  rewrite [List.getD_eq_getElem?_getD]
  by_cases hj : j < l.length
  · rewrite [List.getElem?_eq_getElem hj]; exact h _ (List.getElem_mem hj)
  · rewrite [List.getElem?_eq_none (by omega)]; decide

theorem forall_mem_of_getD_lt (l : List Nat) (h : ∀ j, l.getD j 0 < 4) : ∀ x ∈ l, x < 4 := by
  intro x hx
  obtain ⟨j, hj, rfl⟩ := List.getElem_of_mem hx
  have := h j
  rewrite [List.getD_eq_getElem?_getD, List.getElem?_eq_getElem hj] at this
  exact this

theorem ext_getD (l m : List Nat) (hlen : l.length = m.length) (h : ∀ j, j < l.length → l.getD j 0 = m.getD j 0) :
    l = m := by
  apply List.ext_getElem hlen
  intro j h1 h2
  have := h j h1
  rewrite [List.getD_eq_getElem?_getD, List.getD_eq_getElem?_getD, List.getElem?_eq_getElem h1,
    List.getElem?_eq_getElem h2] at this
  exact this

end A5
