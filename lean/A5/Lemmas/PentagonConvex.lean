import A5.Lemmas.PentagonArea
/-! # Winding, convexity and "centre strictly inside" for the cell pentagons (exact arithmetic)

`PentagonShape::contains_point` (`geometry/pentagon.rs`, model `polyContains`) decides "inside" by the signs of the
edge cross products `(v_i - v_{i+1}) × (p - v_i)`.  This file states that loop over an arbitrary scalar type without the
`sqrt` normalisation (`crossG`, `crossesG`, `StrictlyInside`), ties it to the `Float` model, and proves in exact
rational arithmetic on the runtime constants, for EVERY anchor with a `±1` flip pair (any `k`, any integer offset):

* (i)   `pentagonQ_winding`: the trapezoid sum is the seed's and positive - `is_winding_correct` holds,
* (ii)  `pentagonQ_convex`: for each edge the other three vertices are strictly on the inner side (margin `> 0.09`),
        equivalently all ten vertex triples `i < j < k` have the same strict orientation (`pentagonQ_triples`),
* (iii) `centreQ_strictlyInside`: `get_center` is strictly inside (`contains_point` cross products all `> 0.096`).

Technique: cross products only involve differences, so the translation by `BASIS * offset` cancels exactly; rotation by
180° leaves them unchanged; the mirror image with reversed vertex order permutes them.  The algebra is done for five
abstract points over a field, the finitely many closed facts about the seed are kernel-evaluated.

What is NOT proved here: (a) the converse of `polyContains_tie` (a negative `Float` cross product makes the result
negative) - it needs IEEE reasoning about `fmin`, `/`, `sqrt` and NaN; (b) any transfer of (i)-(iii) from exact
arithmetic to the `Float` run: the statements are about `pentagonQ`/`centreQ` (exact arithmetic on the very constants
the library computes), not about rounded `f64` evaluation, where the translation by `BASIS * offset` no longer
cancels exactly (relative error ≈ 2^-52 · |offset| against margins ≈ 0.09).  Scaling, the quintant matrix, the final
`PentagonShape::new` and the quintant triangle are in `PentagonConvex2.lean`. -/
namespace A5.PG
open A5 A5.HilbertLocate

/-! ### definitions (core only) -/
section defs
variable {α : Type}

/-- the cross product `contains_point` computes for the edge `v1 → v2` and the point `p`:
`dx * py - dy * px` with `dx = v1.x - v2.x`, `dy = v1.y - v2.y`, `px = p.x - v1.x`, `py = p.y - v1.y` -/
def crossG [Sub α] [Mul α] (v1 v2 p : α × α) : α :=
  (v1.1 - v2.1) * (p.2 - v1.2) - (v1.2 - v2.2) * (p.1 - v1.1)

/-- generic twin of the loop of `polyContains` without the `sqrt` normalisation: the cross products of the edges
`(v_i, v_{(i+1) % n})`, `i = 0 … n-1`, with the point `p`, in loop order -/
def crossesG [Sub α] [Mul α] (zero : α) (vs : List (α × α)) (p : α × α) : List α :=
  (List.range vs.length).map fun i =>
    crossG (vs.getD i (zero, zero)) (vs.getD ((i + 1) % vs.length) (zero, zero)) p

/-- every cross product exceeds `μ` -/
def InsideBy [Sub α] [Mul α] [LT α] (zero μ : α) (vs : List (α × α)) (p : α × α) : Prop :=
  ∀ c ∈ crossesG zero vs p, μ < c

/-- `p` is strictly on the inner side of every edge (`contains_point` never enters its `cross < 0` branch, and no
cross product is zero either) -/
def StrictlyInside [Sub α] [Mul α] [LT α] (zero : α) (vs : List (α × α)) (p : α × α) : Prop :=
  InsideBy zero zero vs p

/-- for each edge `(v_i, v_{i+1})` the cross products with the vertices other than its two end points -/
def edgeCrossesG [Sub α] [Mul α] (zero : α) (vs : List (α × α)) : List α :=
  (List.range vs.length).flatMap fun i =>
    ((List.range vs.length).filter fun j => j != i && j != (i + 1) % vs.length).map fun j =>
      crossG (vs.getD i (zero, zero)) (vs.getD ((i + 1) % vs.length) (zero, zero)) (vs.getD j (zero, zero))

/-- strictly convex and wound the way `contains_point` expects, with margin `μ` -/
def ConvexBy [Sub α] [Mul α] [LT α] (zero μ : α) (vs : List (α × α)) : Prop :=
  ∀ c ∈ edgeCrossesG zero vs, μ < c

def StrictlyConvex [Sub α] [Mul α] [LT α] (zero : α) (vs : List (α × α)) : Prop := ConvexBy zero zero vs

/-- the orientations `crossG v_i v_j v_k` of all vertex triples `i < j < k` -/
def tripleCrossesG [Sub α] [Mul α] (zero : α) (vs : List (α × α)) : List α :=
  (List.range vs.length).flatMap fun i =>
    ((List.range vs.length).filter fun j => i < j).flatMap fun j =>
      ((List.range vs.length).filter fun k => j < k).map fun k =>
        crossG (vs.getD i (zero, zero)) (vs.getD j (zero, zero)) (vs.getD k (zero, zero))

/-- generic twin of `windingCorrect` (`is_winding_correct`) -/
def WindingCorrectG [Add α] [Sub α] [Mul α] [LE α] (zero : α) (vs : List (α × α)) : Prop := zero ≤ areaG zero vs

/-- generic twin of `PentagonShape::new`: reverse the vertex order when the winding test fails -/
def polyNewG [Add α] [Sub α] [Mul α] [LE α] [DecidableLE α] (zero : α) (vs : List (α × α)) : List (α × α) :=
  if zero ≤ areaG zero vs then vs else vs.reverse

/-- a 2×2 matrix `(m00, m01, m10, m11)` applied to a point, as in `transformPoly` -/
def applyG [Add α] [Mul α] (m : α × α × α × α) (v : α × α) : α × α :=
  (m.1 * v.1 + m.2.1 * v.2, m.2.2.1 * v.1 + m.2.2.2 * v.2)

/-- generic twin of the vertex map of `transformPoly` (`PentagonShape::transform`, before its `polyNew`) -/
def transformG [Add α] [Mul α] (m : α × α × α × α) (vs : List (α × α)) : List (α × α) := vs.map (applyG m)

def detG [Sub α] [Mul α] (m : α × α × α × α) : α := m.1 * m.2.2.2 - m.2.1 * m.2.2.1

end defs

/-! ### index forms -/
section idx
variable {α : Type} [Sub α] [Mul α] [LT α]

theorem insideBy_iff (zero μ : α) (vs : List (α × α)) (p : α × α) :
    InsideBy zero μ vs p ↔ ∀ i, i < vs.length →
      μ < crossG (vs.getD i (zero, zero)) (vs.getD ((i + 1) % vs.length) (zero, zero)) p := by
  unfold InsideBy crossesG
  simp only [List.mem_map, List.mem_range]
  constructor
  · intro h i hi; exact h _ ⟨i, hi, rfl⟩
  · rintro h c ⟨i, hi, rfl⟩; exact h i hi

theorem convexBy_iff (zero μ : α) (vs : List (α × α)) :
    ConvexBy zero μ vs ↔ ∀ i j, i < vs.length → j < vs.length → j ≠ i → j ≠ (i + 1) % vs.length →
      μ < crossG (vs.getD i (zero, zero)) (vs.getD ((i + 1) % vs.length) (zero, zero)) (vs.getD j (zero, zero)) := by
  unfold ConvexBy edgeCrossesG
  simp only [List.mem_flatMap, List.mem_map, List.mem_filter, List.mem_range, Bool.and_eq_true, bne_iff_ne]
  constructor
  · intro h i j hi hj h1 h2; exact h _ ⟨i, hi, j, ⟨hj, h1, h2⟩, rfl⟩
  · rintro h c ⟨i, hi, j, ⟨hj, h1, h2⟩, rfl⟩; exact h i j hi hj h1 h2

theorem triples_iff (zero μ : α) (vs : List (α × α)) :
    (∀ c ∈ tripleCrossesG zero vs, μ < c) ↔ ∀ i j k, i < j → j < k → k < vs.length →
      μ < crossG (vs.getD i (zero, zero)) (vs.getD j (zero, zero)) (vs.getD k (zero, zero)) := by
  unfold tripleCrossesG
  simp only [List.mem_flatMap, List.mem_map, List.mem_filter, List.mem_range, decide_eq_true_eq]
  constructor
  · intro h i j k hij hjk hk
    exact h _ ⟨i, by omega, j, ⟨by omega, hij⟩, k, ⟨hk, hjk⟩, rfl⟩
  · rintro h c ⟨i, _, j, ⟨_, hij⟩, k, ⟨hk, hjk⟩, rfl⟩; exact h i j k hij hjk hk
end idx

/-! ### tie to the `Float` model (structure of the loop only, no float arithmetic) -/

theorem crossesG_float_mem (vs : Poly) (p : V2) (i : Nat) (hi : i < vs.length) :
    (let v1 := vs.getD i default
     let v2 := vs.getD ((i + 1) % vs.length) default
     (v1.x - v2.x) * (p.y - v1.y) - (v1.y - v2.y) * (p.x - v1.x)) ∈
      crossesG (0.0 : Float) (vs.map toPair) (toPair p) := by
  have e : ∀ j, (vs.map toPair).getD j ((0.0 : Float), (0.0 : Float)) = toPair (vs.getD j default) := by
    intro j
    simp only [List.getD_eq_getElem?_getD, List.getElem?_map]
    cases vs[j]? <;> rfl
  unfold crossesG
  simp only [List.length_map, List.mem_map, List.mem_range]
  refine ⟨i, hi, ?_⟩
  rewrite [e, e]
  rfl

/-- **tie**: when the polygon is wound correctly and none of the `Float` cross products is negative, the `Float`
model's `contains_point` returns exactly `1.0` (its "inside" value; the `sqrt` normalisation is never reached) -/
theorem polyContains_tie (vs : Poly) (p : V2) (hw : windingCorrect vs = true)
    (h : ∀ c ∈ crossesG (0.0 : Float) (vs.map toPair) (toPair p), ¬ c < 0.0) :
    polyContains vs p = .ok 1.0 := by
  unfold polyContains
  rewrite [hw]
  simp only [Bool.not_true, Bool.false_eq_true, if_false]
  refine congrArg _ ?_
  suffices hs : ∀ m i d, i + m ≤ vs.length → polyContains.go vs p vs.length m i d = d from hs _ _ _ (by omega)
  intro m
  induction m with
  | zero => intro i d _; rfl
  | succ m ih =>
    intro i d hi
    unfold polyContains.go
    have hc := h _ (crossesG_float_mem vs p i (by omega))
    simp only [] at hc ⊢
    rewrite [if_neg hc]
    exact ih _ _ (by omega)

/-- the not-counter-clockwise panic is exactly the failure of the winding test -/
theorem polyContains_panic_iff (vs : Poly) (p : V2) :
    polyContains vs p = .panic .notCCW ↔ windingCorrect vs = false := by
  unfold polyContains
  cases windingCorrect vs <;> simp

/-- **tie**: `PentagonShape::new` -/
theorem polyNew_tie (vs : Poly) : (polyNew vs).map toPair = polyNewG (0.0 : Float) (vs.map toPair) := by
  unfold polyNew polyNewG windingCorrect
  rewrite [polyArea_tie]
  by_cases h : (0.0 : Float) ≤ areaG (0.0 : Float) (vs.map toPair)
  · rewrite [if_pos h, if_pos (decide_eq_true h)]; rfl
  · rewrite [if_neg h, if_neg (by simpa using h)]; exact List.map_reverse

/-! ### algebra: the placement permutes the cross products -/
section algebra
variable {K : Type} [Field K]

theorem crossesG_five (p0 p1 p2 p3 p4 q : K × K) :
    crossesG 0 [p0, p1, p2, p3, p4] q =
      [crossG p0 p1 q, crossG p1 p2 q, crossG p2 p3 q, crossG p3 p4 q, crossG p4 p0 q] := by
  simp [crossesG, List.range_succ]

theorem edgeCrossesG_five (p0 p1 p2 p3 p4 : K × K) :
    edgeCrossesG 0 [p0, p1, p2, p3, p4] =
      [crossG p0 p1 p2, crossG p0 p1 p3, crossG p0 p1 p4,
       crossG p1 p2 p0, crossG p1 p2 p3, crossG p1 p2 p4,
       crossG p2 p3 p0, crossG p2 p3 p1, crossG p2 p3 p4,
       crossG p3 p4 p0, crossG p3 p4 p1, crossG p3 p4 p2,
       crossG p4 p0 p1, crossG p4 p0 p2, crossG p4 p0 p3] := by
  simp [edgeCrossesG, List.range_succ, List.filter_cons]

theorem tripleCrossesG_five (p0 p1 p2 p3 p4 : K × K) :
    tripleCrossesG 0 [p0, p1, p2, p3, p4] =
      [crossG p0 p1 p2, crossG p0 p1 p3, crossG p0 p1 p4, crossG p0 p2 p3, crossG p0 p2 p4, crossG p0 p3 p4,
       crossG p1 p2 p3, crossG p1 p2 p4, crossG p1 p3 p4, crossG p2 p3 p4] := by
  simp [tripleCrossesG, List.range_succ, List.filter_cons]

/-- the translation `BASIS * offset` -/
def offsetT (b : K × K × K × K) (oi oj : Int) : K × K :=
  (b.1 * (oi : K) + b.2.1 * (oj : K), b.2.2.1 * (oi : K) + b.2.2.2 * (oj : K))

/-- what the placement does to a single point -/
def placeG (F : Int × Int) (r : Bool) (w t x : K × K) : K × K :=
  ((localC F r x w).1 + t.1, (localC F r x w).2 + t.2)

/-- the placed pentagon is the list of placed seed vertices, in reversed order when mirrored -/
theorem pentagon_place (p0 p1 p2 p3 p4 w : K × K) (b : K × K × K × K) (k : Nat) (oi oj : Int) (F : Int × Int)
    (hF : IsFlip F) :
    pentagonLocalG [p0, p1, p2, p3, p4] w b (fun z => (z : K)) ⟨k, (oi, oj), F⟩ =
      if needsReflect ⟨k, (oi, oj), F⟩ then
        [placeG F true w (offsetT b oi oj) p4, placeG F true w (offsetT b oi oj) p3, placeG F true w (offsetT b oi oj) p2,
         placeG F true w (offsetT b oi oj) p1, placeG F true w (offsetT b oi oj) p0]
      else
        [placeG F false w (offsetT b oi oj) p0, placeG F false w (offsetT b oi oj) p1, placeG F false w (offsetT b oi oj) p2,
         placeG F false w (offsetT b oi oj) p3, placeG F false w (offsetT b oi oj) p4] := by
  obtain ⟨b00, b01, b10, b11⟩ := b
  generalize hr : needsReflect ⟨k, (oi, oj), F⟩ = r
  rcases hF with rfl | rfl | rfl | rfl <;> cases r <;>
    simp [pentagonLocalG, hr, placeG, offsetT, localC, rot180, reflectY, translate, no_eq, yes_eq]

/-- the placement preserves every orientation determinant; the mirror negates it (= swaps the edge's end points) -/
theorem cross_place (F : Int × Int) (hF : IsFlip F) (r : Bool) (w t x y z : K × K) :
    crossG (placeG F r w t x) (placeG F r w t y) (placeG F r w t z) = if r then crossG y x z else crossG x y z := by
  rcases hF with rfl | rfl | rfl | rfl <;> cases r <;> simp [placeG, localC, crossG] <;> ring

theorem centre_place [CharZero K] (p0 p1 p2 p3 p4 w : K × K) (b : K × K × K × K) (k : Nat) (oi oj : Int) (F : Int × Int)
    (hF : IsFlip F) :
    centreG 0 5 (pentagonLocalG [p0, p1, p2, p3, p4] w b (fun z => (z : K)) ⟨k, (oi, oj), F⟩) =
      placeG F (needsReflect ⟨k, (oi, oj), F⟩) w (offsetT b oi oj) (centreG 0 5 [p0, p1, p2, p3, p4]) := by
  obtain ⟨b00, b01, b10, b11⟩ := b
  generalize hr : needsReflect ⟨k, (oi, oj), F⟩ = r
  rcases hF with rfl | rfl | rfl | rfl <;> cases r <;>
    simp [pentagonLocalG, hr, centreG, placeG, offsetT, localC, rot180, reflectY, translate, no_eq, yes_eq] <;>
    constructor <;> field_simp <;> ring
/-- the `contains_point` cross products of the placed pentagon with a placed point are those of the seed with the point,
in the order `3,2,1,0,4` when mirrored -/
theorem crosses_local (p0 p1 p2 p3 p4 w x : K × K) (b : K × K × K × K) (k : Nat) (oi oj : Int) (F : Int × Int)
    (hF : IsFlip F) :
    crossesG 0 (pentagonLocalG [p0, p1, p2, p3, p4] w b (fun z => (z : K)) ⟨k, (oi, oj), F⟩)
        (placeG F (needsReflect ⟨k, (oi, oj), F⟩) w (offsetT b oi oj) x) =
      if needsReflect ⟨k, (oi, oj), F⟩ then
        [crossG p3 p4 x, crossG p2 p3 x, crossG p1 p2 x, crossG p0 p1 x, crossG p4 p0 x]
      else [crossG p0 p1 x, crossG p1 p2 x, crossG p2 p3 x, crossG p3 p4 x, crossG p4 p0 x] := by
  rewrite [pentagon_place _ _ _ _ _ _ _ _ _ _ _ hF]
  cases needsReflect ⟨k, (oi, oj), F⟩ <;>
    simp only [Bool.false_eq_true, if_false, if_true, crossesG_five, cross_place F hF]

theorem edgeCrosses_local (p0 p1 p2 p3 p4 w : K × K) (b : K × K × K × K) (k : Nat) (oi oj : Int) (F : Int × Int)
    (hF : IsFlip F) :
    edgeCrossesG 0 (pentagonLocalG [p0, p1, p2, p3, p4] w b (fun z => (z : K)) ⟨k, (oi, oj), F⟩) =
      if needsReflect ⟨k, (oi, oj), F⟩ then
        [crossG p3 p4 p2, crossG p3 p4 p1, crossG p3 p4 p0,
         crossG p2 p3 p4, crossG p2 p3 p1, crossG p2 p3 p0,
         crossG p1 p2 p4, crossG p1 p2 p3, crossG p1 p2 p0,
         crossG p0 p1 p4, crossG p0 p1 p3, crossG p0 p1 p2,
         crossG p4 p0 p3, crossG p4 p0 p2, crossG p4 p0 p1]
      else edgeCrossesG 0 [p0, p1, p2, p3, p4] := by
  rewrite [pentagon_place _ _ _ _ _ _ _ _ _ _ _ hF]
  cases needsReflect ⟨k, (oi, oj), F⟩ <;>
    simp only [Bool.false_eq_true, if_false, if_true, edgeCrossesG_five, cross_place F hF]

theorem tripleCrosses_local (p0 p1 p2 p3 p4 w : K × K) (b : K × K × K × K) (k : Nat) (oi oj : Int) (F : Int × Int)
    (hF : IsFlip F) :
    tripleCrossesG 0 (pentagonLocalG [p0, p1, p2, p3, p4] w b (fun z => (z : K)) ⟨k, (oi, oj), F⟩) =
      if needsReflect ⟨k, (oi, oj), F⟩ then
        [crossG p3 p4 p2, crossG p3 p4 p1, crossG p3 p4 p0, crossG p2 p4 p1, crossG p2 p4 p0, crossG p1 p4 p0,
         crossG p2 p3 p1, crossG p2 p3 p0, crossG p1 p3 p0, crossG p1 p2 p0]
      else tripleCrossesG 0 [p0, p1, p2, p3, p4] := by
  rewrite [pentagon_place _ _ _ _ _ _ _ _ _ _ _ hF]
  cases needsReflect ⟨k, (oi, oj), F⟩ <;>
    simp only [Bool.false_eq_true, if_false, if_true, tripleCrossesG_five, cross_place F hF]

/-- cyclic shift / transposition identities of the orientation determinant -/
theorem crossG_rot (x y z : K × K) : crossG y z x = crossG x y z := by simp [crossG]; ring
theorem crossG_swap (x y z : K × K) : crossG y x z = -crossG x y z := by simp [crossG]; ring


variable [LT K]

theorem insideBy_local {μ : K} (p0 p1 p2 p3 p4 w x : K × K) (b : K × K × K × K) (k : Nat) (oi oj : Int) (F : Int × Int)
    (hF : IsFlip F) (h : InsideBy 0 μ [p0, p1, p2, p3, p4] x) :
    InsideBy 0 μ (pentagonLocalG [p0, p1, p2, p3, p4] w b (fun z => (z : K)) ⟨k, (oi, oj), F⟩)
      (placeG F (needsReflect ⟨k, (oi, oj), F⟩) w (offsetT b oi oj) x) := by
  unfold InsideBy at h ⊢
  rewrite [crosses_local _ _ _ _ _ _ _ _ _ _ _ _ hF]
  rewrite [crossesG_five] at h
  cases needsReflect ⟨k, (oi, oj), F⟩ <;>
    simp only [Bool.false_eq_true, if_false, if_true, List.forall_mem_cons] at h ⊢ <;> tauto

theorem convexBy_local {μ : K} (p0 p1 p2 p3 p4 w : K × K) (b : K × K × K × K) (k : Nat) (oi oj : Int) (F : Int × Int)
    (hF : IsFlip F) (h : ConvexBy 0 μ [p0, p1, p2, p3, p4]) :
    ConvexBy 0 μ (pentagonLocalG [p0, p1, p2, p3, p4] w b (fun z => (z : K)) ⟨k, (oi, oj), F⟩) := by
  unfold ConvexBy at h ⊢
  rewrite [edgeCrosses_local _ _ _ _ _ _ _ _ _ _ _ hF]
  rewrite [edgeCrossesG_five] at h ⊢
  cases needsReflect ⟨k, (oi, oj), F⟩ <;>
    simp only [Bool.false_eq_true, if_false, if_true, List.forall_mem_cons] at h ⊢ <;> tauto

theorem triples_local {μ : K} (p0 p1 p2 p3 p4 w : K × K) (b : K × K × K × K) (k : Nat) (oi oj : Int) (F : Int × Int)
    (hF : IsFlip F) (h : ∀ c ∈ tripleCrossesG 0 [p0, p1, p2, p3, p4], μ < c) :
    ∀ c ∈ tripleCrossesG 0 (pentagonLocalG [p0, p1, p2, p3, p4] w b (fun z => (z : K)) ⟨k, (oi, oj), F⟩), μ < c := by
  rewrite [tripleCrosses_local _ _ _ _ _ _ _ _ _ _ _ hF]
  rewrite [tripleCrossesG_five] at h ⊢
  have e1 := crossG_rot p2 p3 p4
  have e2 := crossG_rot p1 p3 p4
  have e3 := crossG_rot p0 p3 p4
  have e4 := crossG_rot p1 p2 p4
  have e5 := crossG_rot p0 p2 p4
  have e6 := crossG_rot p0 p1 p4
  have e7 := crossG_rot p1 p2 p3
  have e8 := crossG_rot p0 p2 p3
  have e9 := crossG_rot p0 p1 p3
  have e10 := crossG_rot p0 p1 p2
  cases needsReflect ⟨k, (oi, oj), F⟩ <;>
    simp only [Bool.false_eq_true, if_false, if_true, List.forall_mem_cons, e1, e2, e3, e4, e5, e6, e7, e8, e9, e10] at h ⊢ <;> tauto

end algebra

/-! ### the numbers: exact arithmetic on the runtime constants -/

/-- the closed facts about the seed pentagon (kernel-evaluated on the exact runtime constants): its centre is strictly
inside with every `contains_point` cross product above `0.096` (measured minimum 0.09628); for each edge the three other
vertices are on the inner side by more than `0.09` (measured minimum 0.09099); all ten triples `i < j < k` have
orientation above `0.09` -/
theorem seed_cross_facts :
    InsideBy 0 (96 / 1000) seedQ (centreG 0 5 seedQ) ∧ ConvexBy 0 (9 / 100) seedQ ∧
      ∀ c ∈ tripleCrossesG 0 seedQ, (9 / 100 : Rat) < c := by
  unfold InsideBy ConvexBy
  decide +kernel

/-- `get_center` of the placed pentagon is the placed centre of the seed -/
theorem centreQ_eq_place (a : Anchor) (hF : IsFlip a.flips) :
    centreQ a = placeG a.flips (needsReflect a) wQ (offsetT basisQ a.offset.1 a.offset.2) (centreG 0 5 seedQ) := by
  obtain ⟨k, ⟨oi, oj⟩, F⟩ := a
  unfold centreQ pentagonQ
  rewrite [seedQ_eq]
  exact centre_place _ _ _ _ _ _ _ _ _ _ _ hF

/-- **(i) winding.**  For every anchor the trapezoid sum of the pentagon equals the seed's and is positive:
`is_winding_correct` holds, so `PentagonShape::new` keeps the vertex order and `contains_point` cannot panic. -/
theorem pentagonQ_winding (a : Anchor) (hF : IsFlip a.flips) :
    areaG 0 (pentagonQ a) = areaG 0 seedQ ∧ 0 < areaG 0 (pentagonQ a) ∧ WindingCorrectG 0 (pentagonQ a) ∧
      polyNewG 0 (pentagonQ a) = pentagonQ a := by
  have h := pentagonQ_area a hF
  have hp : 0 < areaG 0 (pentagonQ a) := by rewrite [h]; exact seed_area_facts.1
  have hw : (0 : Rat) ≤ areaG 0 (pentagonQ a) := Rat.le_of_lt hp
  exact ⟨h, hp, hw, if_pos hw⟩

/-- **(iii) with margin.**  Every cross product `contains_point` computes for the pentagon of an anchor and its own
centre exceeds `0.096` (lattice-frame units squared; the pentagon's edges have length ≈ 0.42). -/
theorem centreQ_insideBy (a : Anchor) (hF : IsFlip a.flips) :
    InsideBy 0 (96 / 1000) (pentagonQ a) (centreQ a) := by
  rewrite [centreQ_eq_place a hF]
  obtain ⟨k, ⟨oi, oj⟩, F⟩ := a
  have h := seed_cross_facts.1
  unfold pentagonQ
  rewrite [seedQ_eq] at h ⊢
  exact insideBy_local _ _ _ _ _ _ _ _ _ _ _ _ hF h

theorem InsideBy.strictly {μ : Rat} (hμ : 0 ≤ μ) {vs : List (Rat × Rat)} {p : Rat × Rat} (h : InsideBy 0 μ vs p) :
    StrictlyInside 0 vs p := fun c hc => lt_of_le_of_lt hμ (h c hc)

theorem ConvexBy.strictly {μ : Rat} (hμ : 0 ≤ μ) {vs : List (Rat × Rat)} (h : ConvexBy 0 μ vs) :
    StrictlyConvex 0 vs := fun c hc => lt_of_le_of_lt hμ (h c hc)

/-- **(iii)** the planar form of "the cell's reported centre lies inside its boundary": the centre of the pentagon of
every anchor is strictly on the inner side of each of its five edges. -/
theorem centreQ_strictlyInside (a : Anchor) (hF : IsFlip a.flips) : StrictlyInside 0 (pentagonQ a) (centreQ a) :=
  (centreQ_insideBy a hF).strictly (by decide +kernel)

/-- **(ii) with margin.**  For each edge of the pentagon of an anchor, the three other vertices are on the inner side,
with cross product above `0.09`. -/
theorem pentagonQ_convexBy (a : Anchor) (hF : IsFlip a.flips) : ConvexBy 0 (9 / 100) (pentagonQ a) := by
  obtain ⟨k, ⟨oi, oj⟩, F⟩ := a
  have h := seed_cross_facts.2.1
  unfold pentagonQ
  rewrite [seedQ_eq] at h ⊢
  exact convexBy_local _ _ _ _ _ _ _ _ _ _ _ hF h

/-- **(ii)** every pentagon is strictly convex and wound the way `contains_point` expects -/
theorem pentagonQ_convex (a : Anchor) (hF : IsFlip a.flips) : StrictlyConvex 0 (pentagonQ a) :=
  (pentagonQ_convexBy a hF).strictly (by decide +kernel)

/-- **(ii), triple form.**  All ten vertex triples `i < j < k` of the pentagon of an anchor have the same strict
orientation (`crossG v_i v_j v_k > 0.09`). -/
theorem pentagonQ_triples (a : Anchor) (hF : IsFlip a.flips) :
    ∀ c ∈ tripleCrossesG 0 (pentagonQ a), (9 / 100 : Rat) < c := by
  obtain ⟨k, ⟨oi, oj⟩, F⟩ := a
  have h := seed_cross_facts.2.2
  unfold pentagonQ
  rewrite [seedQ_eq] at h ⊢
  exact triples_local _ _ _ _ _ _ _ _ _ _ _ hF h

/-- (ii) and (iii) in index form -/
theorem pentagonQ_index_form (a : Anchor) (hF : IsFlip a.flips) :
    (∀ i, i < (pentagonQ a).length →
      (96 / 1000 : Rat) < crossG ((pentagonQ a).getD i (0, 0)) ((pentagonQ a).getD ((i + 1) % (pentagonQ a).length) (0, 0))
        (centreQ a)) ∧
    (∀ i j, i < (pentagonQ a).length → j < (pentagonQ a).length → j ≠ i → j ≠ (i + 1) % (pentagonQ a).length →
      (9 / 100 : Rat) < crossG ((pentagonQ a).getD i (0, 0)) ((pentagonQ a).getD ((i + 1) % (pentagonQ a).length) (0, 0))
        ((pentagonQ a).getD j (0, 0))) ∧
    (∀ i j k, i < j → j < k → k < (pentagonQ a).length →
      (9 / 100 : Rat) < crossG ((pentagonQ a).getD i (0, 0)) ((pentagonQ a).getD j (0, 0)) ((pentagonQ a).getD k (0, 0))) :=
  ⟨(insideBy_iff _ _ _ _).1 (centreQ_insideBy a hF), (convexBy_iff _ _ _).1 (pentagonQ_convexBy a hF),
    (triples_iff _ _ _).1 (pentagonQ_triples a hF)⟩

theorem pentagonQ_length (a : Anchor) (hF : IsFlip a.flips) : (pentagonQ a).length = 5 := by
  obtain ⟨k, ⟨oi, oj⟩, F⟩ := a
  unfold pentagonQ
  rewrite [seedQ_eq, pentagon_place _ _ _ _ _ _ _ _ _ _ _ hF]
  split <;> rfl

/-! ### non-vacuity and cross-checks -/

example : IsFlip (⟨2, (3, -7), (-1, 1)⟩ : Anchor).flips := by simp [IsFlip]
example : StrictlyInside 0 (pentagonQ ⟨2, (3, -7), (-1, 1)⟩) (centreQ ⟨2, (3, -7), (-1, 1)⟩) :=
  centreQ_strictlyInside _ (by simp [IsFlip])
example : StrictlyConvex 0 (pentagonQ ⟨0, (-100000, 12345), (1, -1)⟩) := pentagonQ_convex _ (by simp [IsFlip])
example : 0 < areaG 0 (pentagonQ ⟨3, (5, 5), (-1, -1)⟩) := (pentagonQ_winding _ (by simp [IsFlip])).2.1
/-- direct kernel evaluation on concrete anchors (all four flip pairs, reflected and not) agrees with the general theorems -/
example : ∀ a ∈ ([⟨0, (3, -7), (1, 1)⟩, ⟨2, (3, -7), (1, 1)⟩, ⟨0, (0, 4), (1, -1)⟩, ⟨1, (0, 4), (1, -1)⟩,
      ⟨3, (-2, -9), (-1, 1)⟩, ⟨2, (-2, -9), (-1, 1)⟩, ⟨1, (1000000, 1), (-1, -1)⟩, ⟨3, (1000000, 1), (-1, -1)⟩] : List Anchor),
    (∀ c ∈ crossesG 0 (pentagonQ a) (centreQ a), (96 / 1000 : Rat) < c) ∧
    (∀ c ∈ edgeCrossesG 0 (pentagonQ a), (9 / 100 : Rat) < c) ∧ 0 < areaG 0 (pentagonQ a) := by
  decide +kernel
/-- the margins are not vacuous upper bounds either: the smallest centre cross product is below `0.097`, the smallest
edge/vertex cross product below `0.091` -/
example : (∃ c ∈ crossesG 0 seedQ (centreG 0 5 seedQ), c < (97 / 1000 : Rat)) ∧
    ∃ c ∈ edgeCrossesG 0 seedQ, c < (91 / 1000 : Rat) := by decide +kernel
/-- a point outside is rejected: the origin-adjacent point `(-1, 0)` has a negative cross product with the seed -/
example : ¬ StrictlyInside 0 seedQ (-1, 0) := by unfold StrictlyInside InsideBy; decide +kernel

end A5.PG
