import A5.Model.GenericPoly
import A5.Lemmas.AngularRoundTrip2
import Mathlib.Analysis.SpecialFunctions.Trigonometric.Bounds
/-! # The real transcriptions of the polyhedral projection are the generic twins at `ℝ`

`A5/Model/GenericPoly.lean` (core only) defines generic twins of `vector.rs`, `get_triangle_area` and `polyhedral.rs`
and ties them to the `Float` model (`A5.GP.*_tie`: `model function = twin floatKit`).  The theorems of
`A5/Lemmas/RadialRoundTrip.lean`, `AngularRoundTrip.lean`, `AngularRoundTrip2.lean` were proved about hand-written
real transcriptions (`dotR`, `slerpR`, `vectorDifferenceR`, `triAreaR`, `forwardBaryR`, `inverseBaryR`, …) on the
structure `R3`.  This file

1. instantiates the twins at `ℝ` (`realKit`: `Real.sqrt`, `Real.sin`, `Real.arccos`, `Real.arcsin`, `atan2R`, `|·|`,
   `x = 0`, the literals `1/2, 1, 2, 3`, and the exact rational values `FConst.toRat` of the generated constants
   `VECDIFF_SWITCH`, `SLERP_SWITCH`, `TRI_AREA_SWITCH`, `SAFE_ACOS_SWITCH`, `POLY_SNAP_EPS`);
2. proves, for every real transcription, the equation that relates it to the twin at `ℝ` (`*_tie`; `toTR` maps
   `R3` to a triple).  These are `rfl`, or `unfold`/`simp only` with earlier ties and `apply_ite` (pushing `toTR`
   through an `if`) followed by `rfl`; no mathematics is involved;
3. restates the headline theorems on the twins (`*_on_twin`, vectors as triples of reals, nothing but twins and
   `realKit` in the statements).  The chain for each is
   `Float model = twin floatKit` (by `A5.GP.*_tie`)  and  `theorem about twin realKit` (here).

## Correspondence

| model (`Geo.lean`)                | twin (`GenericPoly.lean`)      | real transcription          | relation at `ℝ`          |
|-----------------------------------|--------------------------------|-----------------------------|---------------------------|
| `v3dot`                           | `dotG`                         | `dotR`                      | `dotR_tie`, `rfl`         |
| `v3cross`                         | `crossG`                       | `crossR`                    | `crossR_tie`, `rfl`       |
| `v3length`                        | `lengthG`                      | `lengthR`                   | `lengthR_tie`, `rfl`      |
| `v3normalize`                     | `normalizeG`                   | `normalizeR`                | `normalizeR_tie` (ite)    |
| `v3lerp` `v3sub` `v3add` `v3scale`| `lerpG` `subG` `addG` `vscaleG`| `lerpR` `subR` `addR` `scaleR` | `rfl`                  |
| `fclamp1`                         | `clamp1G`                      | `clamp1R`                   | `clamp1R_tie`, `rfl`      |
| `v3angle` (the `gamma` of `slerp`)| `angleG`                       | `angleR`                    | `angleR_tie`, `rfl`       |
| `slerp` (both branches)           | `slerpG`                       | `slerpR`                    | `slerpR_tie` (ite)        |
| `vectorDifference` (both branches)| `vectorDifferenceG`            | `vectorDifferenceR`         | `vectorDifferenceR_tie`   |
| `v3dot a (v3cross b c)` (inline)  | `tripleG`                      | `tripleR`                   | `tripleR_tie`, `rfl`      |
| `quadrupleProduct`                | `quadrupleProductG`            | `quadrupleProductR`         | `rfl`                     |
| the `s` of `sphTriangleArea`      | `midTripleG`                   | `midTripleR`                | `midTripleR_tie`          |
| `sphTriangleArea` (both branches) | `triAreaG`                     | `triAreaR` (one branch)     | `triAreaG_real`, **D1**   |
| `safeAcos`                        | `GP.safeAcosG`                 | `safeAcosR`                 | `safeAcosR_tie'`, `rfl`   |
| `f`, `g`, `q` of the inverse      | `edgeFG` `edgeGG` `edgeParamG` | `edgeF` `edgeG` `edgeParamR`| `rfl`                     |
| `p` of `polyhedralForward`        | `forwardPointG`                | `forwardPointR`             | `forwardPointR_tie`       |
| `polyhedralForward` (to bary.)    | `forwardBaryG`                 | `forwardBaryR`              | `forwardBaryR_tie`, **D2**|
| `polyhedralInverse` (from bary.)  | `inverseBaryG` / `inverseCoreG`| `inverseBarySafeR`          | `inverseBarySafeR_tie`, **D3** |
|                                   | `inverseCoreG … (2 arcsin)`    | `inverseBaryR`              | `inverseBaryR_tie`, **D3**, **D4** |

## Discrepancies found between the real transcriptions and the model's expression trees

All vector helpers, `angle`, `slerp` (with its `lerp` branch), `vector_difference` (both branches),
`quadruple_product`, the midpoint triple product, `safe_acos`, and the `f`/`g`/`q` formulas of the inverse are the
model's trees verbatim (`0.5 ↦ 1/2`, `1.0 ↦ 1`, `2.0 ↦ 2`, `3.0 ↦ 3`).  The differences are:

* **D1 `triAreaR` drops a branch.**  `get_triangle_area` returns `2 * clamped` when `|clamped| < TRI_AREA_SWITCH`
  (`1e-8`) and `asin clamped * 2` otherwise; `triAreaR` is the second branch only.  Exact relation: `triAreaG_real`
  (`twin = if |clamp s| < switch then 2 * clamp s else triAreaR`).  They agree when the twin is on the `asin` branch
  (`OnAsinBranch`) or `s = 0` (`AreaAgrees`, `triAreaG_of_agrees`); on the small branch with `s ≠ 0` they differ
  (`2 s` against `2 asin s`, relative difference about `s²/6 < 2e-17`), so the *exact* statements about areas
  (`triAreaR_eq_arctan`, `angular_inverse_formula`, `angular_forward_formula`, `polyhedral_roundtrip_exact`) do
  not transfer to that branch: `triArea_on_twin` states what the twin computes there.
* **D2 `forwardBaryR`** is `polyhedralForward`'s barycentric computation with `triAreaR` for its three areas
  (`a b c`, `a p c`, `a b p`): equal to the twin when the three triangles satisfy `AreaAgrees` (`forwardBaryR_tie`).
  In the round-trip theorems `p = slerp b c q`, so this excludes `q` within roughly `1e-8` of `0` or `1` (not `q = 0`,
  `q = 1` themselves, where `s = 0`).
* **D3 `inverseBaryR`, `inverseBarySafeR` omit the vertex snapping** of `polyhedralInverse`
  (`if bu > 1 - 1e-14 then a else if bv > … then b else if bw > … then c`), and use `triAreaR` for `area(a,b,c)`.
  They are tied to `inverseCoreG`, the twin of the general branch; the full twin `inverseBaryG` reduces to it when no
  coordinate exceeds `1 - POLY_SNAP_EPS` (`GP.inverseBaryG_of_not_snap`, `polyhedral_roundtrip_full_twin`).
  When a coordinate does exceed it the code returns the vertex; no theorem covers that case.
* **D4 `inverseBaryR` idealises `safe_acos` to `2 arcsin`.**  It is therefore not a transcription of the model but of
  `inverseCoreG` with its `sacos` parameter set to `fun x => 2 * arcsin x`; `polyhedral_roundtrip_on_twin` says so in
  its statement.  The transcription of the model proper is `inverseBarySafeR`
  (`polyhedral_roundtrip_safeAcos_on_twin`, bound `5e-16`).
* **D5 `normalizeR` tests `len = 0`** (a `Prop`) where the model tests `len == 0.0` (IEEE equality, a `Bool`); the twin
  abstracts both as `Kit.isZero`.  Not a difference of trees, but recorded.
* Not a discrepancy of trees, and outside what a tie can say: `realKit` *interprets* `Float.sqrt/sin/acos/asin/atan2/abs`
  as `Real.sqrt/sin/arccos/arcsin/atan2R/|·|` and the constants as their `toRat` values (`atan2R` has no signed zeros,
  `Real.sqrt` of a negative number is `0`, `Real.arcsin`/`arccos` clamp their argument, there is no NaN).  Nothing
  here is about floating-point rounding.

Unchanged limits of the underlying theorems: hypotheses `SLERP_SWITCH ≤ ∠(b,c)`, `SLERP_SWITCH ≤ ∠(a,p)` (the `lerp`
branch of `slerp` is in the twin but no theorem covers it), `0 < s`. -/
namespace A5.PolyTies
open A5 Real A5.GP A5.RadialRoundTrip A5.AngularRoundTrip

/-! ## the twins at `ℝ` -/

/-- exact value of the generated `TRI_AREA_SWITCH` (`1e-8` in the Rust source) -/
noncomputable def triAreaSwitch : ℝ := ((Gen.TRI_AREA_SWITCH.toRat : ℚ) : ℝ)
/-- exact value of the generated `POLY_SNAP_EPS` (`1e-14` in the Rust source) -/
noncomputable def snapEps : ℝ := ((Gen.POLY_SNAP_EPS.toRat : ℚ) : ℝ)

/-- the real interpretation of the scalar kit: real functions for the libm functions, exact values for the literals
and for the generated constants (`vecdiffSwitch`, `slerpSwitch`, `safeAcosSwitch` are the definitions of
`RadialRoundTrip.lean`) -/
noncomputable def realKit : Kit ℝ where
  sqrt := Real.sqrt
  sin := Real.sin
  acos := Real.arccos
  asin := Real.arcsin
  atan2 := atan2R
  abs := fun x => |x|
  isZero := fun x => x = 0
  isZeroDec := fun x => inferInstanceAs (Decidable (x = 0))
  half := 1 / 2
  one := 1
  two := 2
  three := 3
  vecdiffSwitch := vecdiffSwitch
  slerpSwitch := slerpSwitch
  triAreaSwitch := triAreaSwitch
  safeAcosSwitch := safeAcosSwitch
  snapEps := snapEps

/-- the constants of `realKit` are the `toRat` values of the same generated constants that `floatKit` reads with
`fc` (`FConst.toFloat`) -/
theorem realKit_constants :
    realKit.vecdiffSwitch = ((Gen.VECDIFF_SWITCH.toRat : ℚ) : ℝ) ∧
    realKit.slerpSwitch = ((Gen.SLERP_SWITCH.toRat : ℚ) : ℝ) ∧
    realKit.triAreaSwitch = ((Gen.TRI_AREA_SWITCH.toRat : ℚ) : ℝ) ∧
    realKit.safeAcosSwitch = ((Gen.SAFE_ACOS_SWITCH.toRat : ℚ) : ℝ) ∧
    realKit.snapEps = ((Gen.POLY_SNAP_EPS.toRat : ℚ) : ℝ) ∧
    floatKit.vecdiffSwitch = fc Gen.VECDIFF_SWITCH ∧ floatKit.slerpSwitch = fc Gen.SLERP_SWITCH ∧
    floatKit.triAreaSwitch = fc Gen.TRI_AREA_SWITCH ∧ floatKit.safeAcosSwitch = fc Gen.SAFE_ACOS_SWITCH ∧
    floatKit.snapEps = fc Gen.POLY_SNAP_EPS :=
  ⟨rfl, rfl, rfl, rfl, rfl, rfl, rfl, rfl, rfl, rfl⟩

/-- `R3` as a triple -/
def toTR (v : R3) : T3 ℝ := (v.x, v.y, v.z)
/-- and back -/
def ofTR (t : T3 ℝ) : R3 := ⟨t.1, t.2.1, t.2.2⟩
theorem ofTR_toTR (v : R3) : ofTR (toTR v) = v := rfl
theorem toTR_ofTR (t : T3 ℝ) : toTR (ofTR t) = t := rfl

/-! ## ties: real transcription = twin at `ℝ` -/

theorem dotR_tie (a b : R3) : dotR a b = dotG (toTR a) (toTR b) := rfl
theorem crossR_tie (a b : R3) : toTR (crossR a b) = crossG (toTR a) (toTR b) := rfl
theorem lengthR_tie (v : R3) : lengthR v = lengthG realKit (toTR v) := rfl
theorem lerpR_tie (a b : R3) (t : ℝ) : toTR (lerpR a b t) = lerpG (toTR a) (toTR b) t := rfl
theorem subR_tie (a b : R3) : toTR (subR a b) = subG (toTR a) (toTR b) := rfl
theorem addR_tie (a b : R3) : toTR (addR a b) = addG (toTR a) (toTR b) := rfl
theorem scaleR_tie (v : R3) (s : ℝ) : toTR (scaleR v s) = vscaleG (toTR v) s := rfl
theorem clamp1R_tie (x : ℝ) : clamp1R x = clamp1G (1 : ℝ) x := rfl

/-- `normalize`: the two sides are `toTR (if c then v else w)` and `if c then toTR v else toTR w` -/
theorem normalizeR_tie (v : R3) : toTR (normalizeR v) = normalizeG realKit (toTR v) := by
  unfold normalizeR normalizeG
  exact apply_ite toTR _ _ _

theorem angleR_tie (a b : R3) : angleR a b = angleG realKit (toTR a) (toTR b) := rfl

/-- `slerp`, both branches, with the generated switch constant -/
theorem slerpR_tie (a b : R3) (t : ℝ) : toTR (slerpR a b t) = slerpG realKit (toTR a) (toTR b) t := by
  unfold slerpR slerpG
  simp only [apply_ite toTR, lerpR_tie, addR_tie, scaleR_tie]
  rfl

/-- `vector_difference`, both branches, with the generated switch constant -/
theorem vectorDifferenceR_tie (a b : R3) :
    vectorDifferenceR a b = vectorDifferenceG realKit (toTR a) (toTR b) := by
  unfold vectorDifferenceR vectorDifferenceG
  simp only [lengthR_tie, crossR_tie, normalizeR_tie, lerpR_tie, subR_tie]
  rfl

theorem tripleR_tie (a b c : R3) : tripleR a b c = tripleG (toTR a) (toTR b) (toTR c) := rfl
theorem quadrupleProductR_tie (a b c d : R3) :
    toTR (quadrupleProductR a b c d) = quadrupleProductG (toTR a) (toTR b) (toTR c) (toTR d) := rfl

/-- the `s` of `get_triangle_area` -/
theorem midTripleR_tie (v1 v2 v3 : R3) :
    midTripleR v1 v2 v3 = midTripleG realKit (toTR v1) (toTR v2) (toTR v3) := by
  unfold midTripleR midTripleG
  simp only [dotR_tie, crossR_tie, normalizeR_tie, lerpR_tie]
  rfl

/-- **D1, the exact relation** between the twin of `get_triangle_area` at `ℝ` and `triAreaR`: the twin has the
small-`|s|` branch `2 * clamped`, `triAreaR` is the other branch -/
theorem triAreaG_real (x y z : R3) :
    triAreaG realKit (toTR x) (toTR y) (toTR z) =
      if |clamp1R (midTripleR x y z)| < triAreaSwitch then 2 * clamp1R (midTripleR x y z)
      else triAreaR x y z := by
  unfold triAreaG triAreaR
  simp only [← midTripleR_tie]
  rfl

/-- `safe_acos`: the twin of `GenericPoly.lean` at `ℝ` is `safeAcosR` -/
theorem safeAcosR_tie' (x : ℝ) : safeAcosR x = GP.safeAcosG realKit x := rfl

/-- the twin of `safe_acos` in `GenericPoly.lean` is the one of `RadialRoundTrip.lean` (any scalar type) -/
theorem safeAcosG_eq {α : Type} [Add α] [Sub α] [Mul α] [Div α] [LT α] [DecidableLT α] (K : Kit α) (x : α) :
    GP.safeAcosG K x = RadialRoundTrip.safeAcosG K.acos K.one K.two K.three K.safeAcosSwitch x := rfl

/-- the model's `safeAcos` through either twin -/
theorem safeAcos_ties (x : Float) :
    safeAcos x = GP.safeAcosG floatKit x ∧
      safeAcos x = RadialRoundTrip.safeAcosG Float.acos 1.0 2.0 3.0 (fc Gen.SAFE_ACOS_SWITCH) x :=
  ⟨rfl, rfl⟩

theorem edgeF_tie (a b c : R3) (alpha : ℝ) :
    edgeF a b c alpha = edgeFG realKit (toTR a) (toTR b) (toTR c) alpha := rfl
theorem edgeG_tie (a b c : R3) (alpha : ℝ) :
    edgeG a b c alpha = edgeGG realKit (toTR a) (toTR b) (toTR c) alpha := rfl
theorem edgeParamR_tie (a b c : R3) (alpha : ℝ) :
    edgeParamR a b c alpha = edgeParamG realKit (toTR a) (toTR b) (toTR c) alpha := rfl

/-! ## area branch -/

/-- the triangle is on the `asin` branch of `get_triangle_area` (real transcriptions) -/
def OnAsinBranch (x y z : R3) : Prop := triAreaSwitch ≤ |clamp1R (midTripleR x y z)|

/-- the same on the twin at `ℝ` -/
def OnAsinBranchG (x y z : T3 ℝ) : Prop :=
  realKit.triAreaSwitch ≤ realKit.abs (clamp1G realKit.one (midTripleG realKit x y z))

theorem onAsinBranch_tie (x y z : R3) : OnAsinBranch x y z ↔ OnAsinBranchG (toTR x) (toTR y) (toTR z) := by
  unfold OnAsinBranch OnAsinBranchG
  rw [← midTripleR_tie]
  rfl

theorem triAreaG_of_ge {x y z : R3} (h : OnAsinBranch x y z) :
    triAreaG realKit (toTR x) (toTR y) (toTR z) = triAreaR x y z := by
  rw [triAreaG_real, if_neg (not_lt.mpr h)]

theorem triAreaG_of_lt {x y z : R3} (h : |clamp1R (midTripleR x y z)| < triAreaSwitch) :
    triAreaG realKit (toTR x) (toTR y) (toTR z) = 2 * clamp1R (midTripleR x y z) := by
  rw [triAreaG_real, if_pos h]

/-- the twin's area and `triAreaR` agree: on the `asin` branch, and also when `s = 0` (both branches give `0`;
this is the case of a degenerate triangle, e.g. `a b p` with `p = b`) -/
def AreaAgrees (x y z : R3) : Prop := OnAsinBranch x y z ∨ clamp1R (midTripleR x y z) = 0

/-- the same on the twin at `ℝ` -/
def AreaAgreesG (x y z : T3 ℝ) : Prop :=
  OnAsinBranchG x y z ∨ clamp1G realKit.one (midTripleG realKit x y z) = 0

theorem areaAgrees_tie (x y z : R3) : AreaAgrees x y z ↔ AreaAgreesG (toTR x) (toTR y) (toTR z) := by
  unfold AreaAgrees AreaAgreesG
  rw [onAsinBranch_tie, ← midTripleR_tie]
  rfl

theorem OnAsinBranch.agrees {x y z : R3} (h : OnAsinBranch x y z) : AreaAgrees x y z := Or.inl h
theorem OnAsinBranchG.agrees {x y z : T3 ℝ} (h : OnAsinBranchG x y z) : AreaAgreesG x y z := Or.inl h

/-- **tie for `get_triangle_area`**: `triAreaR` (the `asin` branch only) equals the twin at `ℝ` whenever the
twin is on that branch or `s = 0` -/
theorem triAreaG_of_agrees {x y z : R3} (h : AreaAgrees x y z) :
    triAreaG realKit (toTR x) (toTR y) (toTR z) = triAreaR x y z := by
  rcases h with h | h
  · exact triAreaG_of_ge h
  · rw [triAreaG_real]
    split_ifs
    · unfold triAreaR; rw [h]; simp
    · rfl

/-! ## forward / inverse -/

/-- the forward's intersection point `p` -/
theorem forwardPointR_tie (a b c v : R3) :
    toTR (forwardPointR a b c v) = forwardPointG realKit (toTR a) (toTR b) (toTR c) (toTR v) := by
  unfold forwardPointR forwardPointG
  simp only [normalizeR_tie, quadrupleProductR_tie, subR_tie]

/-- **D2**: `forwardBaryR` is the twin of `polyhedralForward` (barycentric level) at `ℝ` when its three triangle
areas agree with the twin's (`AreaAgrees`) -/
theorem forwardBaryR_tie {a b c v : R3} (h1 : AreaAgrees a b c)
    (h2 : AreaAgrees a (forwardPointR a b c v) c) (h3 : AreaAgrees a b (forwardPointR a b c v)) :
    forwardBaryR a b c v = forwardBaryG realKit (toTR a) (toTR b) (toTR c) (toTR v) := by
  have e1 := triAreaG_of_agrees h1
  have e2 := triAreaG_of_agrees h2
  have e3 := triAreaG_of_agrees h3
  unfold forwardPointR at e2 e3
  unfold forwardBaryR forwardBaryG
  simp only [← e1, ← e2, ← e3]
  simp only [vectorDifferenceR_tie, normalizeR_tie, quadrupleProductR_tie, subR_tie]
  rfl

/-- **D3, D4**: `inverseBaryR` is the twin of the general branch of `polyhedralInverse` with `safe_acos` replaced by
`2 arcsin`, when `area(a,b,c)` agrees with the twin's -/
theorem inverseBaryR_tie {a b c : R3} (bary : ℝ × ℝ × ℝ) (h1 : AreaAgrees a b c) :
    toTR (inverseBaryR a b c bary) =
      inverseCoreG realKit (fun x => 2 * Real.arcsin x) (toTR a) (toTR b) (toTR c) bary := by
  rw [inverseCoreG_eq]
  unfold inverseBaryR
  simp only [slerpR_tie, vectorDifferenceR_tie, ← triAreaG_of_agrees h1, edgeParamR_tie]
  rfl

/-- **D3**: `inverseBarySafeR` is the twin of the general branch of `polyhedralInverse` (with the twin of `safe_acos`),
when `area(a,b,c)` agrees with the twin's -/
theorem inverseBarySafeR_tie {a b c : R3} (bary : ℝ × ℝ × ℝ) (h1 : AreaAgrees a b c) :
    toTR (inverseBarySafeR a b c bary) =
      inverseCoreG realKit (GP.safeAcosG realKit) (toTR a) (toTR b) (toTR c) bary := by
  rw [inverseCoreG_eq]
  unfold inverseBarySafeR
  simp only [slerpR_tie, vectorDifferenceR_tie, ← triAreaG_of_agrees h1, edgeParamR_tie, safeAcosR_tie']
  rfl


/-! ## the headline results restated on the twins at `ℝ` -/

/-- every triple is the image of an `R3` -/
theorem exists_toTR (a : T3 ℝ) : ∃ a' : R3, a = toTR a' := ⟨ofTR a, rfl⟩

/-- **`slerp` on the twin** (`A5.RadialRoundTrip.slerpR_spec`) -/
theorem slerp_on_twin {a p : T3 ℝ} (t : ℝ) (ha : dotG a a = 1) (hp : dotG p p = 1)
    (hγ : realKit.slerpSwitch ≤ angleG realKit a p) (hπ : angleG realKit a p < π) :
    dotG (slerpG realKit a p t) (slerpG realKit a p t) = 1 ∧
    dotG a (slerpG realKit a p t) = Real.cos (t * angleG realKit a p) ∧
    dotG p (slerpG realKit a p t) = Real.cos ((1 - t) * angleG realKit a p) := by
  obtain ⟨a, rfl⟩ := exists_toTR a
  obtain ⟨p, rfl⟩ := exists_toTR p
  simp only [← slerpR_tie, ← dotR_tie, ← angleR_tie]
  exact slerpR_spec t ha hp hγ hπ

/-- **`vector_difference` on the twin** (`A5.RadialRoundTrip.vectorDifferenceR_eq`): both branches give
`sin (γ/2)` -/
theorem vectorDifference_on_twin {a b : T3 ℝ} (ha : dotG a a = 1) (hb : dotG b b = 1)
    (hπ : angleG realKit a b < π) :
    vectorDifferenceG realKit a b = Real.sin (angleG realKit a b / 2) := by
  obtain ⟨a, rfl⟩ := exists_toTR a
  obtain ⟨b, rfl⟩ := exists_toTR b
  simp only [← vectorDifferenceR_tie, ← angleR_tie]
  exact vectorDifferenceR_eq ha hb hπ


/-- **`get_triangle_area` on the twin** (`midpoint_triple_eq`, `midTriple_abs_le`, `triAreaR_eq_arctan'`): for a
unit triangle with `1 + x·y + y·z + z·x > 0` the code's `s` is `V / √(2 (1+x·y)(1+y·z)(1+z·x))`; on the `asin`
branch the twin's area is `2 arctan (V / (1 + x·y + y·z + z·x))` (Eriksson); on the small-`|s|` branch it is `2 s`
(NOT the exact area: `2 s` instead of `2 asin s`). -/
theorem triArea_on_twin {x y z : T3 ℝ} (hx : dotG x x = 1) (hy : dotG y y = 1) (hz : dotG z z = 1)
    (hD : 0 < 1 + dotG x y + dotG y z + dotG z x) :
    midTripleG realKit x y z = tripleG x y z / √(2 * (1 + dotG x y) * (1 + dotG y z) * (1 + dotG z x)) ∧
    (OnAsinBranchG x y z →
      triAreaG realKit x y z = 2 * Real.arctan (tripleG x y z / (1 + dotG x y + dotG y z + dotG z x))) ∧
    (¬ OnAsinBranchG x y z → triAreaG realKit x y z = 2 * midTripleG realKit x y z) := by
  obtain ⟨x, rfl⟩ := exists_toTR x
  obtain ⟨y, rfl⟩ := exists_toTR y
  obtain ⟨z, rfl⟩ := exists_toTR z
  simp only [← dotR_tie, ← tripleR_tie, ← midTripleR_tie, ← onAsinBranch_tie] at *
  obtain ⟨h1, h2, h3⟩ := one_add_dots_pos_of_D hx hy hz hD
  refine ⟨midpoint_triple_eq hx hy hz h1 h2 h3, fun h => ?_, fun h => ?_⟩
  · rw [triAreaG_of_ge h]; exact triAreaR_eq_arctan' hx hy hz hD
  · obtain ⟨b1, b2⟩ := midTriple_abs_le hx hy hz h1 h2 h3
    rw [triAreaG_of_lt (not_le.mp h), clamp1R_id b1 b2]

/-- **the radial round trip on the twins** (`A5.RadialRoundTrip.radial_roundtrip_vector_safeAcos`): all four
functions involved (`slerp`, `vector_difference`, `safe_acos`, `length`) are the twins, no discrepancy. -/
theorem radial_roundtrip_on_twin {a p : T3 ℝ} {s : ℝ} (hs0 : 0 ≤ s) (hs1 : s ≤ 1)
    (ha : dotG a a = 1) (hp : dotG p p = 1) (hγ : realKit.slerpSwitch ≤ angleG realKit a p)
    (hπ : angleG realKit a p < π) :
    let v := slerpG realKit a p s
    let h := vectorDifferenceG realKit a v / vectorDifferenceG realKit a p
    let k := vectorDifferenceG realKit a p
    let t := GP.safeAcosG realKit (h * k) / GP.safeAcosG realKit k
    dotG (slerpG realKit a p t) (slerpG realKit a p t) = 1 ∧
      lengthG realKit (subG (slerpG realKit a p t) v) ≤ 5e-16 := by
  obtain ⟨a, rfl⟩ := exists_toTR a
  obtain ⟨p, rfl⟩ := exists_toTR p
  simp only [← slerpR_tie, ← vectorDifferenceR_tie, ← safeAcosR_tie', ← subR_tie, ← lengthR_tie, ← dotR_tie]
  exact radial_roundtrip_vector_safeAcos hs0 hs1 ha hp hγ hπ

/-- the same with the idealised `2 arcsin` in place of `safe_acos` (`radial_roundtrip_vector`): exact -/
theorem radial_roundtrip_exact_on_twin {a p : T3 ℝ} {s : ℝ} (hs0 : 0 ≤ s) (hs1 : s ≤ 1)
    (ha : dotG a a = 1) (hp : dotG p p = 1) (hγ : realKit.slerpSwitch ≤ angleG realKit a p)
    (hπ : angleG realKit a p < π) :
    let v := slerpG realKit a p s
    let h := vectorDifferenceG realKit a v / vectorDifferenceG realKit a p
    let k := vectorDifferenceG realKit a p
    let t := (2 * Real.arcsin (h * k)) / (2 * Real.arcsin k)
    t = s ∧ slerpG realKit a p t = v := by
  obtain ⟨a, rfl⟩ := exists_toTR a
  obtain ⟨p, rfl⟩ := exists_toTR p
  simp only [← slerpR_tie, ← vectorDifferenceR_tie]
  have h := radial_roundtrip_vector hs0 hs1 ha hp hγ hπ
  exact ⟨h.1, congrArg toTR h.2⟩

/-- **(B) on the twins** (`angular_inverse_formula`): the inverse's `q` recovers the parameter of `p = slerp b c q`
from the twin's area of `a b p`, provided that triangle is on the `asin` branch or has `s = 0` (`AreaAgreesG`: this
excludes `q` within about `1e-8` of `0`, but not `q = 0`). -/
theorem angular_inverse_on_twin {a b c : T3 ℝ} {q : ℝ} (ha : dotG a a = 1) (hb : dotG b b = 1)
    (hc : dotG c c = 1) (hV : 0 < tripleG a b c) (hD : 0 < 1 + dotG a b + dotG b c + dotG c a)
    (hγ : realKit.slerpSwitch ≤ angleG realKit b c) (hq0 : 0 ≤ q) (hq1 : q ≤ 1)
    (hE3 : AreaAgreesG a b (slerpG realKit b c q)) :
    edgeParamG realKit a b c (triAreaG realKit a b (slerpG realKit b c q)) = q := by
  obtain ⟨a, rfl⟩ := exists_toTR a
  obtain ⟨b, rfl⟩ := exists_toTR b
  obtain ⟨c, rfl⟩ := exists_toTR c
  simp only [← slerpR_tie, ← areaAgrees_tie] at hE3
  simp only [← slerpR_tie, triAreaG_of_agrees hE3, ← edgeParamR_tie]
  exact (angular_inverse_formula ha hb hc hV hD hγ hq0 hq1).2

/-- **(C) on the twins** (`angular_forward_formula`) -/
theorem angular_forward_on_twin {a b c : T3 ℝ} {alpha : ℝ} (ha : dotG a a = 1) (hb : dotG b b = 1)
    (hc : dotG c c = 1) (hV : 0 < tripleG a b c) (hD : 0 < 1 + dotG a b + dotG b c + dotG c a)
    (hγ : realKit.slerpSwitch ≤ angleG realKit b c) (hE : AreaAgreesG a b c)
    (hα0 : 0 < alpha) (hα1 : alpha < triAreaG realKit a b c)
    (hE3 : AreaAgreesG a b (slerpG realKit b c (edgeParamG realKit a b c alpha))) :
    0 < edgeParamG realKit a b c alpha ∧ edgeParamG realKit a b c alpha < 1 ∧
      triAreaG realKit a b (slerpG realKit b c (edgeParamG realKit a b c alpha)) = alpha := by
  obtain ⟨a, rfl⟩ := exists_toTR a
  obtain ⟨b, rfl⟩ := exists_toTR b
  obtain ⟨c, rfl⟩ := exists_toTR c
  simp only [← areaAgrees_tie] at hE
  simp only [← edgeParamR_tie, ← slerpR_tie, ← areaAgrees_tie] at hE3
  rw [triAreaG_of_agrees hE] at hα1
  simp only [← edgeParamR_tie, ← slerpR_tie, triAreaG_of_agrees hE3]
  exact angular_forward_formula ha hb hc hV hD hγ hα0 hα1

/-- **(D) the polyhedral round trip on the twins** (`polyhedral_roundtrip_exact`).  `forwardBaryG` is the twin of
`polyhedralForward` (barycentric level, all of it); `inverseCoreG … (2 arcsin)` is the twin of the general branch of
`polyhedralInverse` with `safe_acos` idealised to `2 arcsin`.  Compared with `polyhedral_roundtrip_exact` there are
three more hypotheses: the triangles `a b c`, `a p c`, `a b p` (`p = slerp b c q`) are on the `asin` branch of
`get_triangle_area` or have `s = 0` (`AreaAgreesG`; this excludes `q` within about `1e-8` of `0` or `1`, end points
not excluded). -/
theorem polyhedral_roundtrip_on_twin {a b c : T3 ℝ} {q s : ℝ} (ha : dotG a a = 1) (hb : dotG b b = 1)
    (hc : dotG c c = 1) (hV : 0 < tripleG a b c) (hD : 0 < 1 + dotG a b + dotG b c + dotG c a)
    (hγ : realKit.slerpSwitch ≤ angleG realKit b c)
    (hγ' : realKit.slerpSwitch ≤ angleG realKit a (slerpG realKit b c q))
    (hq0 : 0 ≤ q) (hq1 : q ≤ 1) (hs0 : 0 < s) (hs1 : s ≤ 1)
    (hE : AreaAgreesG a b c) (hE2 : AreaAgreesG a (slerpG realKit b c q) c)
    (hE3 : AreaAgreesG a b (slerpG realKit b c q)) :
    let v := slerpG realKit a (slerpG realKit b c q) s
    forwardPointG realKit a b c v = slerpG realKit b c q ∧
      inverseCoreG realKit (fun x => 2 * Real.arcsin x) a b c (forwardBaryG realKit a b c v) = v := by
  obtain ⟨a, rfl⟩ := exists_toTR a
  obtain ⟨b, rfl⟩ := exists_toTR b
  obtain ⟨c, rfl⟩ := exists_toTR c
  simp only [← slerpR_tie, ← areaAgrees_tie] at hγ' hE hE2 hE3
  have R := polyhedral_roundtrip_exact ha hb hc hV hD hγ hγ' hq0 hq1 hs0 hs1
  have e := forwardBaryR_tie (v := slerpR a (slerpR b c q) s) hE (by rw [R.1]; exact hE2) (by rw [R.1]; exact hE3)
  simp only [← slerpR_tie, ← forwardPointR_tie, ← e, ← inverseBaryR_tie _ hE]
  exact ⟨congrArg toTR R.1, congrArg toTR R.2⟩

/-- **(D) with `safe_acos`, on the twins** (`polyhedral_roundtrip_safeAcos`): `inverseCoreG … safeAcosG` is the
twin of the general branch of `polyhedralInverse`, nothing idealised. -/
theorem polyhedral_roundtrip_safeAcos_on_twin {a b c : T3 ℝ} {q s : ℝ} (ha : dotG a a = 1) (hb : dotG b b = 1)
    (hc : dotG c c = 1) (hV : 0 < tripleG a b c) (hD : 0 < 1 + dotG a b + dotG b c + dotG c a)
    (hγ : realKit.slerpSwitch ≤ angleG realKit b c)
    (hγ' : realKit.slerpSwitch ≤ angleG realKit a (slerpG realKit b c q))
    (hq0 : 0 ≤ q) (hq1 : q ≤ 1) (hs0 : 0 < s) (hs1 : s ≤ 1)
    (hE : AreaAgreesG a b c) (hE2 : AreaAgreesG a (slerpG realKit b c q) c)
    (hE3 : AreaAgreesG a b (slerpG realKit b c q)) :
    let v := slerpG realKit a (slerpG realKit b c q) s
    let r := inverseCoreG realKit (GP.safeAcosG realKit) a b c (forwardBaryG realKit a b c v)
    dotG r r = 1 ∧ lengthG realKit (subG r v) ≤ 5e-16 := by
  obtain ⟨a, rfl⟩ := exists_toTR a
  obtain ⟨b, rfl⟩ := exists_toTR b
  obtain ⟨c, rfl⟩ := exists_toTR c
  simp only [← slerpR_tie, ← areaAgrees_tie] at hγ' hE hE2 hE3
  have R := polyhedral_roundtrip_exact ha hb hc hV hD hγ hγ' hq0 hq1 hs0 hs1
  have e := forwardBaryR_tie (v := slerpR a (slerpR b c q) s) hE (by rw [R.1]; exact hE2) (by rw [R.1]; exact hE3)
  simp only [← slerpR_tie, ← e, ← inverseBarySafeR_tie _ hE, ← subR_tie, ← lengthR_tie, ← dotR_tie]
  exact polyhedral_roundtrip_safeAcos ha hb hc hV hD hγ hγ' hq0 hq1 hs0 hs1

/-- **(D) on the full twin of `polyhedralInverse`** (vertex snapping included): when none of the three barycentric
coordinates computed by the forward twin exceeds `1 - POLY_SNAP_EPS`, the full twin returns a unit vector within
`5e-16` of `v`.  (When a coordinate does exceed it the code returns the vertex itself; that case is not covered.) -/
theorem polyhedral_roundtrip_full_twin {a b c : T3 ℝ} {q s : ℝ} (ha : dotG a a = 1) (hb : dotG b b = 1)
    (hc : dotG c c = 1) (hV : 0 < tripleG a b c) (hD : 0 < 1 + dotG a b + dotG b c + dotG c a)
    (hγ : realKit.slerpSwitch ≤ angleG realKit b c)
    (hγ' : realKit.slerpSwitch ≤ angleG realKit a (slerpG realKit b c q))
    (hq0 : 0 ≤ q) (hq1 : q ≤ 1) (hs0 : 0 < s) (hs1 : s ≤ 1)
    (hE : AreaAgreesG a b c) (hE2 : AreaAgreesG a (slerpG realKit b c q) c)
    (hE3 : AreaAgreesG a b (slerpG realKit b c q))
    (hn1 : ¬ (forwardBaryG realKit a b c (slerpG realKit a (slerpG realKit b c q) s)).1
      > realKit.one - realKit.snapEps)
    (hn2 : ¬ (forwardBaryG realKit a b c (slerpG realKit a (slerpG realKit b c q) s)).2.1
      > realKit.one - realKit.snapEps)
    (hn3 : ¬ (forwardBaryG realKit a b c (slerpG realKit a (slerpG realKit b c q) s)).2.2
      > realKit.one - realKit.snapEps) :
    let v := slerpG realKit a (slerpG realKit b c q) s
    let r := inverseBaryG realKit a b c (forwardBaryG realKit a b c v)
    dotG r r = 1 ∧ lengthG realKit (subG r v) ≤ 5e-16 := by
  intro v r
  have e : r = inverseCoreG realKit (GP.safeAcosG realKit) a b c (forwardBaryG realKit a b c v) :=
    inverseBaryG_of_not_snap realKit a b c _ hn1 hn2 hn3
  rw [e]
  exact polyhedral_roundtrip_safeAcos_on_twin ha hb hc hV hD hγ hγ' hq0 hq1 hs0 hs1 hE hE2 hE3


/-! ## the generated constants, and a sufficient condition for the `asin` branch -/

/-- kernel-checked on the generated constants: `TRI_AREA_SWITCH` is the `f64` nearest `1e-8`, `POLY_SNAP_EPS` the one
nearest `1e-14` -/
theorem switchQ_bounds :
    0 < Gen.TRI_AREA_SWITCH.toRat ∧ Gen.TRI_AREA_SWITCH.toRat ≤ 1 / 10 ^ 7 ∧
    0 < Gen.POLY_SNAP_EPS.toRat ∧ Gen.POLY_SNAP_EPS.toRat ≤ 1 / 10 ^ 13 := by
  decide +kernel

theorem triAreaSwitch_pos : 0 < triAreaSwitch := by
  unfold triAreaSwitch; exact_mod_cast switchQ_bounds.1

theorem triAreaSwitch_le : triAreaSwitch ≤ 1 / 10 ^ 7 := by
  have h : ((Gen.TRI_AREA_SWITCH.toRat : ℚ) : ℝ) ≤ ((1 / 10 ^ 7 : ℚ) : ℝ) := Rat.cast_le.mpr switchQ_bounds.2.1
  rw [show ((1 / 10 ^ 7 : ℚ) : ℝ) = 1 / 10 ^ 7 by norm_num] at h
  exact h

theorem snapEps_le : snapEps ≤ 1 / 10 ^ 13 := by
  have h : ((Gen.POLY_SNAP_EPS.toRat : ℚ) : ℝ) ≤ ((1 / 10 ^ 13 : ℚ) : ℝ) := Rat.cast_le.mpr switchQ_bounds.2.2.2
  rw [show ((1 / 10 ^ 13 : ℚ) : ℝ) = 1 / 10 ^ 13 by norm_num] at h
  exact h

/-- a unit triangle of area `< π` whose triple product is at least `4 · TRI_AREA_SWITCH` (`≈ 4e-8`) is on the
`asin` branch: `s = V / √(2 (1+x·y)(1+y·z)(1+z·x)) ≥ V / 4`. -/
theorem onAsinBranch_of_triple {x y z : R3} (hx : dotR x x = 1) (hy : dotR y y = 1) (hz : dotR z z = 1)
    (hD : 0 < 1 + dotR x y + dotR y z + dotR z x) (hV : 4 * triAreaSwitch ≤ tripleR x y z) :
    OnAsinBranch x y z := by
  obtain ⟨h1, h2, h3⟩ := one_add_dots_pos_of_D hx hy hz hD
  obtain ⟨b1, b2⟩ := midTriple_abs_le hx hy hz h1 h2 h3
  have hsw := triAreaSwitch_pos
  unfold OnAsinBranch
  rw [clamp1R_id b1 b2, midpoint_triple_eq hx hy hz h1 h2 h3]
  have u1 := (dotR_unit_mem hx hy).2
  have u2 := (dotR_unit_mem hy hz).2
  have u3 := (dotR_unit_mem hz hx).2
  have hP : 0 < 2 * (1 + dotR x y) * (1 + dotR y z) * (1 + dotR z x) := by positivity
  have hP16 : 2 * (1 + dotR x y) * (1 + dotR y z) * (1 + dotR z x) ≤ 4 ^ 2 := by
    have e1 : (1 + dotR x y) * (1 + dotR y z) ≤ 2 * 2 := mul_le_mul (by linarith) (by linarith) h2.le (by norm_num)
    have e2 : (1 + dotR x y) * (1 + dotR y z) * (1 + dotR z x) ≤ 2 * 2 * 2 :=
      mul_le_mul e1 (by linarith) h3.le (by norm_num)
    nlinarith
  have hs4 : √(2 * (1 + dotR x y) * (1 + dotR y z) * (1 + dotR z x)) ≤ 4 := by
    rw [show (4 : ℝ) = √(4 ^ 2) by rw [Real.sqrt_sq (by norm_num)]]
    exact Real.sqrt_le_sqrt hP16
  have hs0 : 0 < √(2 * (1 + dotR x y) * (1 + dotR y z) * (1 + dotR z x)) := Real.sqrt_pos.mpr hP
  have hVpos : 0 < tripleR x y z := by linarith
  rw [abs_of_pos (div_pos hVpos hs0), le_div_iff₀ hs0]
  nlinarith


/-! ## non-vacuity: the octant triangle `a = e₃`, `b = e₁`, `c = e₂`, `q = 1/3`, `s = 1/4` -/

theorem octant_angle_bc : angleR ⟨1, 0, 0⟩ ⟨0, 1, 0⟩ = π / 2 := by
  obtain ⟨_, hb, hc, _⟩ := octant_hyps
  rw [(angleR_unit hb hc).1]
  have : dotR ⟨1, 0, 0⟩ ⟨0, 1, 0⟩ = 0 := by norm_num [dotR]
  rw [this, Real.arccos_zero]

/-- the point of the edge `b c` at `q = 1/3` -/
theorem octant_p : slerpR ⟨1, 0, 0⟩ ⟨0, 1, 0⟩ (1 / 3) = ⟨√3 / 2, 1 / 2, 0⟩ := by
  obtain ⟨_, _, _, _, _, hγ⟩ := octant_hyps
  rw [slerpR_unfold (1 / 3) hγ, octant_angle_bc,
    show (1 - 1 / 3 : ℝ) * (π / 2) = π / 3 by ring, show (1 / 3 : ℝ) * (π / 2) = π / 6 by ring,
    Real.sin_pi_div_two, Real.sin_pi_div_three, Real.sin_pi_div_six]
  ext <;> simp [addR, scaleR]

theorem sqrt3_bounds : 1 ≤ √3 ∧ √3 ≤ 2 := by
  constructor
  · rw [show (1 : ℝ) = √1 by simp]; exact Real.sqrt_le_sqrt (by norm_num)
  · rw [show (2 : ℝ) = √(2 ^ 2) by rw [Real.sqrt_sq (by norm_num)]]; exact Real.sqrt_le_sqrt (by norm_num)

/-- all hypotheses of the round-trip theorems on the octant triangle, `q = 1/3`
(`a = e₃`, `b = e₁`, `c = e₂`, `p = slerp b c (1/3) = (√3/2, 1/2, 0)`) -/
theorem octant_example_hyps :
    dotR (slerpR ⟨1, 0, 0⟩ ⟨0, 1, 0⟩ (1 / 3)) (slerpR ⟨1, 0, 0⟩ ⟨0, 1, 0⟩ (1 / 3)) = 1 ∧
    slerpSwitch ≤ angleR ⟨0, 0, 1⟩ (slerpR ⟨1, 0, 0⟩ ⟨0, 1, 0⟩ (1 / 3)) ∧
    angleR ⟨0, 0, 1⟩ (slerpR ⟨1, 0, 0⟩ ⟨0, 1, 0⟩ (1 / 3)) = π / 2 ∧
    OnAsinBranch ⟨0, 0, 1⟩ ⟨1, 0, 0⟩ ⟨0, 1, 0⟩ ∧
    OnAsinBranch ⟨0, 0, 1⟩ (slerpR ⟨1, 0, 0⟩ ⟨0, 1, 0⟩ (1 / 3)) ⟨0, 1, 0⟩ ∧
    OnAsinBranch ⟨0, 0, 1⟩ ⟨1, 0, 0⟩ (slerpR ⟨1, 0, 0⟩ ⟨0, 1, 0⟩ (1 / 3)) ∧
    (0 < tripleR ⟨0, 0, 1⟩ (slerpR ⟨1, 0, 0⟩ ⟨0, 1, 0⟩ (1 / 3)) ⟨0, 1, 0⟩ ∧
      0 < 1 + dotR ⟨0, 0, 1⟩ (slerpR ⟨1, 0, 0⟩ ⟨0, 1, 0⟩ (1 / 3))
        + dotR (slerpR ⟨1, 0, 0⟩ ⟨0, 1, 0⟩ (1 / 3)) ⟨0, 1, 0⟩ + dotR ⟨0, 1, 0⟩ ⟨0, 0, 1⟩) ∧
    (0 < tripleR ⟨0, 0, 1⟩ ⟨1, 0, 0⟩ (slerpR ⟨1, 0, 0⟩ ⟨0, 1, 0⟩ (1 / 3)) ∧
      0 < 1 + dotR ⟨0, 0, 1⟩ ⟨1, 0, 0⟩ + dotR ⟨1, 0, 0⟩ (slerpR ⟨1, 0, 0⟩ ⟨0, 1, 0⟩ (1 / 3))
        + dotR (slerpR ⟨1, 0, 0⟩ ⟨0, 1, 0⟩ (1 / 3)) ⟨0, 0, 1⟩) := by
  obtain ⟨ha, hb, hc, hV, hD, hγ⟩ := octant_hyps
  obtain ⟨s1, s2⟩ := sqrt3_bounds
  have hsw := triAreaSwitch_le
  have hu := (slerpR_spec (1 / 3) hb hc hγ (angle_bc_lt_pi ha hb hc hV)).1
  have hang := octant_apex_angle (1 / 3)
  have hsl : slerpSwitch ≤ angleR ⟨0, 0, 1⟩ (slerpR ⟨1, 0, 0⟩ ⟨0, 1, 0⟩ (1 / 3)) := by
    rw [hang]
    have h : slerpSwitchQ ≤ 1 := by decide +kernel
    have : slerpSwitch ≤ 1 := by unfold slerpSwitch; exact_mod_cast h
    linarith [Real.pi_gt_three]
  have eV : tripleR ⟨0, 0, 1⟩ ⟨1, 0, 0⟩ ⟨0, 1, 0⟩ = 1 := by norm_num [tripleR, dotR, crossR]
  refine ⟨hu, hsl, hang, onAsinBranch_of_triple ha hb hc hD (by rw [eV]; linarith), ?_⟩
  generalize hp : slerpR ⟨1, 0, 0⟩ ⟨0, 1, 0⟩ (1 / 3) = p at hu
  rw [octant_p] at hp
  have e1 : tripleR ⟨0, 0, 1⟩ p ⟨0, 1, 0⟩ = √3 / 2 := by rw [← hp]; norm_num [tripleR, dotR, crossR]
  have e2 : 1 + dotR ⟨0, 0, 1⟩ p + dotR p ⟨0, 1, 0⟩ + dotR ⟨0, 1, 0⟩ ⟨0, 0, 1⟩ = 3 / 2 := by
    rw [← hp]; norm_num [dotR]
  have e3 : tripleR ⟨0, 0, 1⟩ ⟨1, 0, 0⟩ p = 1 / 2 := by rw [← hp]; norm_num [tripleR, dotR, crossR]
  have e4 : 1 + dotR ⟨0, 0, 1⟩ ⟨1, 0, 0⟩ + dotR ⟨1, 0, 0⟩ p + dotR p ⟨0, 0, 1⟩ = 1 + √3 / 2 := by
    rw [← hp]; norm_num [dotR]
  refine ⟨?_, ?_, ⟨?_, ?_⟩, ⟨?_, ?_⟩⟩
  · exact onAsinBranch_of_triple ha hu hc (by rw [e2]; norm_num) (by rw [e1]; linarith)
  · exact onAsinBranch_of_triple ha hb hu (by rw [e4]; linarith) (by rw [e3]; linarith)
  · rw [e1]; linarith
  · rw [e2]; norm_num
  · rw [e3]; norm_num
  · rw [e4]; linarith


/-- on the octant triangle, `q = 1/3`, `s = 1/4`, none of the forward's barycentric coordinates is within
`POLY_SNAP_EPS` of `1`: `h = sin (π/16) / sin (π/4) ∈ [1/8, 2/5]`, and the two area ratios are `< 2`. -/
theorem octant_no_snap :
    ¬ (forwardBaryR ⟨0, 0, 1⟩ ⟨1, 0, 0⟩ ⟨0, 1, 0⟩
        (slerpR ⟨0, 0, 1⟩ (slerpR ⟨1, 0, 0⟩ ⟨0, 1, 0⟩ (1 / 3)) (1 / 4))).1 > 1 - snapEps ∧
    ¬ (forwardBaryR ⟨0, 0, 1⟩ ⟨1, 0, 0⟩ ⟨0, 1, 0⟩
        (slerpR ⟨0, 0, 1⟩ (slerpR ⟨1, 0, 0⟩ ⟨0, 1, 0⟩ (1 / 3)) (1 / 4))).2.1 > 1 - snapEps ∧
    ¬ (forwardBaryR ⟨0, 0, 1⟩ ⟨1, 0, 0⟩ ⟨0, 1, 0⟩
        (slerpR ⟨0, 0, 1⟩ (slerpR ⟨1, 0, 0⟩ ⟨0, 1, 0⟩ (1 / 3)) (1 / 4))).2.2 > 1 - snapEps := by
  obtain ⟨ha, hb, hc, hV, hD, hγ⟩ := octant_hyps
  obtain ⟨hu, hsl, hang, _, _, _, ⟨hV2, hD2⟩, ⟨hV3, hD3⟩⟩ := octant_example_hyps
  have hpi := Real.pi_gt_three
  have hpi2 := Real.pi_lt_d2
  have hπ' : angleR ⟨0, 0, 1⟩ (slerpR ⟨1, 0, 0⟩ ⟨0, 1, 0⟩ (1 / 3)) < π := by rw [hang]; linarith
  rw [forwardBaryR_eq ha hb hc hV hγ hsl hπ' (by norm_num) (by norm_num)]
  have hA2 := triAreaR_mem ha hu hc hV2 hD2
  have hA3 := triAreaR_mem ha hb hu hV3 hD3
  generalize slerpR ⟨1, 0, 0⟩ ⟨0, 1, 0⟩ (1 / 3) = p at *
  obtain ⟨hvu, _, _⟩ := slerpR_spec (1 / 4) ha hu hsl hπ'
  have hav : angleR ⟨0, 0, 1⟩ (slerpR ⟨0, 0, 1⟩ p (1 / 4)) = 1 / 4 * angleR ⟨0, 0, 1⟩ p :=
    slerpR_angle (by norm_num) (by norm_num) ha hu hsl hπ'
  have e1 : vectorDifferenceR ⟨0, 0, 1⟩ (slerpR ⟨0, 0, 1⟩ p (1 / 4)) = Real.sin (π / 16) := by
    rw [vectorDifferenceR_eq ha hvu (by rw [hav, hang]; linarith), hav, hang]
    congr 1; ring
  have e2 : vectorDifferenceR ⟨0, 0, 1⟩ p = Real.sin (π / 4) := by
    rw [vectorDifferenceR_eq ha hu hπ', hang]
    congr 1; ring
  rw [e1, e2, octant_area]
  have x1 : 1 / 8 ≤ Real.sin (π / 16) := by
    have := Real.mul_le_sin (x := π / 16) (by positivity) (by linarith)
    have e : 2 / π * (π / 16) = 1 / 8 := by field_simp; norm_num
    linarith
  have x2 : Real.sin (π / 16) ≤ 1 / 5 := by
    have := Real.sin_le (x := π / 16) (by positivity)
    linarith
  have y1 : 1 / 2 ≤ Real.sin (π / 4) := by
    have := Real.mul_le_sin (x := π / 4) (by positivity) (by linarith)
    have e : 2 / π * (π / 4) = 1 / 2 := by field_simp; norm_num
    linarith
  have y2 : Real.sin (π / 4) ≤ 1 := Real.sin_le_one _
  have hy0 : 0 < Real.sin (π / 4) := by linarith
  have h1 : 1 / 8 ≤ Real.sin (π / 16) / Real.sin (π / 4) := by
    rw [le_div_iff₀ hy0]; nlinarith
  have h2 : Real.sin (π / 16) / Real.sin (π / 4) ≤ 2 / 5 := by
    rw [div_le_iff₀ hy0]; nlinarith
  have hsn := snapEps_le
  generalize Real.sin (π / 16) / Real.sin (π / 4) = h at h1 h2
  have ratio : ∀ A : ℝ, 0 < A → A < π → h / (π / 2) * A ≤ 2 * h := by
    intro A hA0 hA1
    rw [div_mul_eq_mul_div, div_le_iff₀ (by positivity)]
    nlinarith
  have r2 := ratio _ hA2.1 hA2.2
  have r3 := ratio _ hA3.1 hA3.2
  refine ⟨not_lt.mpr ?_, not_lt.mpr ?_, not_lt.mpr ?_⟩
  · show 1 - h ≤ 1 - snapEps
    linarith
  · show h / (π / 2) * triAreaR ⟨0, 0, 1⟩ p ⟨0, 1, 0⟩ ≤ 1 - snapEps
    linarith
  · show h / (π / 2) * triAreaR ⟨0, 0, 1⟩ ⟨1, 0, 0⟩ p ≤ 1 - snapEps
    linarith


/-- a degenerate unit triangle (`V = 0`, e.g. `a b p` with `p = b`) has `s = 0`: the two branches of
`get_triangle_area` agree there -/
theorem areaAgrees_of_triple_zero {x y z : R3} (hx : dotR x x = 1) (hy : dotR y y = 1) (hz : dotR z z = 1)
    (hD : 0 < 1 + dotR x y + dotR y z + dotR z x) (hV : tripleR x y z = 0) : AreaAgrees x y z := by
  obtain ⟨h1, h2, h3⟩ := one_add_dots_pos_of_D hx hy hz hD
  right
  rw [midpoint_triple_eq hx hy hz h1 h2 h3, hV, zero_div, clamp1R_id (by norm_num) (by norm_num)]

theorem octant_slerp_zero : slerpR ⟨1, 0, 0⟩ ⟨0, 1, 0⟩ 0 = ⟨1, 0, 0⟩ := by
  obtain ⟨_, _, _, _, _, hγ⟩ := octant_hyps
  rw [slerpR_unfold 0 hγ, octant_angle_bc]
  ext <;> simp [addR, scaleR]

/-- the point the inverse designates for `alpha = 1/2` on the octant triangle spans, with `a b`, a triangle on the
`asin` branch (its `s` is `sin (1/4)`) -/
theorem octant_forward_branch :
    OnAsinBranch ⟨0, 0, 1⟩ ⟨1, 0, 0⟩
      (slerpR ⟨1, 0, 0⟩ ⟨0, 1, 0⟩ (edgeParamR ⟨0, 0, 1⟩ ⟨1, 0, 0⟩ ⟨0, 1, 0⟩ (1 / 2))) := by
  obtain ⟨ha, hb, hc, hV, hD, hγ⟩ := octant_hyps
  have hpi := Real.pi_gt_three
  have hpi2 := Real.pi_lt_d2
  have h := (angular_forward_formula ha hb hc hV hD hγ (alpha := 1 / 2) (by norm_num)
    (by rw [octant_area]; linarith)).2.2
  unfold OnAsinBranch
  unfold triAreaR at h
  generalize midTripleR ⟨0, 0, 1⟩ ⟨1, 0, 0⟩
    (slerpR ⟨1, 0, 0⟩ ⟨0, 1, 0⟩ (edgeParamR ⟨0, 0, 1⟩ ⟨1, 0, 0⟩ ⟨0, 1, 0⟩ (1 / 2))) = s at h
  have hc1 : -1 ≤ clamp1R s ∧ clamp1R s ≤ 1 := by
    unfold clamp1R; split_ifs <;> constructor <;> linarith
  have e : Real.arcsin (clamp1R s) = 1 / 4 := by linarith
  have e2 : clamp1R s = Real.sin (1 / 4) := by rw [← e, Real.sin_arcsin hc1.1 hc1.2]
  have j := Real.mul_le_sin (x := 1 / 4) (by norm_num) (by linarith)
  have j2 : 1 / 10 ≤ 2 / π * (1 / 4) := by
    rw [div_mul_eq_mul_div, le_div_iff₀ Real.pi_pos]; linarith
  rw [e2, abs_of_pos (by linarith)]
  linarith [triAreaSwitch_le]

/-! ### the examples, on the twins (vectors as triples of reals) -/

/-- `slerp` / `vector_difference` twins on the arc `e₁ → e₂` -/
example : dotG (slerpG realKit (1, 0, 0) (0, 1, 0) (1 / 3)) (slerpG realKit (1, 0, 0) (0, 1, 0) (1 / 3)) = (1 : ℝ) :=
  (slerp_on_twin (a := toTR ⟨1, 0, 0⟩) (p := toTR ⟨0, 1, 0⟩) (1 / 3) e1_e2_hyps.1 e1_e2_hyps.2.1
    e1_e2_hyps.2.2.1 e1_e2_hyps.2.2.2).1

example : vectorDifferenceG realKit (1, 0, 0) (0, 1, 0) = Real.sin (angleG realKit (1, 0, 0) (0, 1, 0) / 2) :=
  vectorDifference_on_twin (a := toTR ⟨1, 0, 0⟩) (b := toTR ⟨0, 1, 0⟩) e1_e2_hyps.1 e1_e2_hyps.2.1
    e1_e2_hyps.2.2.2

example :
    let a : T3 ℝ := (1, 0, 0)
    let p : T3 ℝ := (0, 1, 0)
    let v := slerpG realKit a p (1 / 3)
    let h := vectorDifferenceG realKit a v / vectorDifferenceG realKit a p
    let k := vectorDifferenceG realKit a p
    let t := GP.safeAcosG realKit (h * k) / GP.safeAcosG realKit k
    dotG (slerpG realKit a p t) (slerpG realKit a p t) = 1 ∧
      lengthG realKit (subG (slerpG realKit a p t) v) ≤ 5e-16 :=
  radial_roundtrip_on_twin (a := toTR ⟨1, 0, 0⟩) (p := toTR ⟨0, 1, 0⟩) (by norm_num) (by norm_num)
    e1_e2_hyps.1 e1_e2_hyps.2.1 e1_e2_hyps.2.2.1 e1_e2_hyps.2.2.2

/-- the octant triangle is on the `asin` branch and the twin's area is `2 arctan 1` (`= π/2`) -/
example : triAreaG realKit (0, 0, 1) (1, 0, 0) (0, 1, 0) =
    2 * Real.arctan (tripleG (0, 0, 1) (1, 0, 0) (0, 1, 0) /
      (1 + dotG (0, 0, 1) (1, 0, 0) + dotG (1, 0, 0) (0, 1, 0) + dotG ((0, 1, 0) : T3 ℝ) (0, 0, 1))) := by
  obtain ⟨ha, hb, hc, _, hD, _⟩ := octant_hyps
  exact (triArea_on_twin (x := toTR ⟨0, 0, 1⟩) (y := toTR ⟨1, 0, 0⟩) (z := toTR ⟨0, 1, 0⟩) ha hb hc hD).2.1
    ((onAsinBranch_tie _ _ _).mp octant_example_hyps.2.2.2.1)

/-- a degenerate triangle (`z = x`, `V = 0`) is on the small-`|s|` branch: both branches are inhabited -/
example : ¬ OnAsinBranchG (0, 0, 1) (1, 0, 0) (0, 0, 1) := by
  have hx : dotR ⟨0, 0, 1⟩ ⟨0, 0, 1⟩ = 1 := by norm_num [dotR]
  have hy : dotR ⟨1, 0, 0⟩ ⟨1, 0, 0⟩ = 1 := by norm_num [dotR]
  have hD : 0 < 1 + dotR ⟨0, 0, 1⟩ ⟨1, 0, 0⟩ + dotR ⟨1, 0, 0⟩ ⟨0, 0, 1⟩ + dotR ⟨0, 0, 1⟩ ⟨0, 0, 1⟩ := by
    norm_num [dotR]
  have h := (triArea_on_twin (x := toTR ⟨0, 0, 1⟩) (y := toTR ⟨1, 0, 0⟩) (z := toTR ⟨0, 0, 1⟩) hx hy hx hD).1
  have hV : tripleG (toTR ⟨0, 0, 1⟩) (toTR ⟨1, 0, 0⟩) (toTR ⟨0, 0, 1⟩) = 0 := by
    norm_num [tripleG, dotG, crossG, toTR]
  rw [hV, zero_div] at h
  intro hE
  have hE' : triAreaSwitch ≤ |clamp1G (1 : ℝ) (midTripleG realKit (toTR ⟨0, 0, 1⟩) (toTR ⟨1, 0, 0⟩) (toTR ⟨0, 0, 1⟩))| :=
    hE
  rw [h, ← clamp1R_tie, clamp1R_id (by norm_num) (by norm_num), abs_zero] at hE'
  linarith [triAreaSwitch_pos]

/-- (B) on the twins, octant triangle, `q = 1/3` -/
example : edgeParamG realKit (0, 0, 1) (1, 0, 0) (0, 1, 0)
    (triAreaG realKit (0, 0, 1) (1, 0, 0) (slerpG realKit (1, 0, 0) (0, 1, 0) (1 / 3))) = 1 / 3 := by
  obtain ⟨ha, hb, hc, hV, hD, hγ⟩ := octant_hyps
  obtain ⟨_, _, _, _, _, hE3, _, _⟩ := octant_example_hyps
  exact angular_inverse_on_twin (a := toTR ⟨0, 0, 1⟩) (b := toTR ⟨1, 0, 0⟩) (c := toTR ⟨0, 1, 0⟩) ha hb hc hV hD hγ
    (by norm_num) (by norm_num) (by rw [← slerpR_tie]; exact (areaAgrees_tie _ _ _).mp hE3.agrees)

/-- (B) on the twins at the end point `q = 0` (`p = b`, degenerate triangle `a b b`, `s = 0`, covered by
`AreaAgrees`) -/
example : edgeParamG realKit (0, 0, 1) (1, 0, 0) (0, 1, 0)
    (triAreaG realKit (0, 0, 1) (1, 0, 0) (slerpG realKit (1, 0, 0) (0, 1, 0) 0)) = 0 := by
  obtain ⟨ha, hb, hc, hV, hD, hγ⟩ := octant_hyps
  have hA : AreaAgrees ⟨0, 0, 1⟩ ⟨1, 0, 0⟩ (slerpR ⟨1, 0, 0⟩ ⟨0, 1, 0⟩ 0) := by
    rw [octant_slerp_zero]
    exact areaAgrees_of_triple_zero ha hb hb (by norm_num [dotR]) (by norm_num [tripleR, dotR, crossR])
  exact angular_inverse_on_twin (a := toTR ⟨0, 0, 1⟩) (b := toTR ⟨1, 0, 0⟩) (c := toTR ⟨0, 1, 0⟩) ha hb hc hV hD hγ
    le_rfl (by norm_num) (by rw [← slerpR_tie]; exact (areaAgrees_tie _ _ _).mp hA)

/-- (C) on the twins, octant triangle, `alpha = 1/2` -/
example : triAreaG realKit (0, 0, 1) (1, 0, 0)
    (slerpG realKit (1, 0, 0) (0, 1, 0) (edgeParamG realKit (0, 0, 1) (1, 0, 0) (0, 1, 0) (1 / 2))) = 1 / 2 := by
  obtain ⟨ha, hb, hc, hV, hD, hγ⟩ := octant_hyps
  obtain ⟨_, _, _, hE, _⟩ := octant_example_hyps
  have hα1 : (1 / 2 : ℝ) < triAreaG realKit (toTR ⟨0, 0, 1⟩) (toTR ⟨1, 0, 0⟩) (toTR ⟨0, 1, 0⟩) := by
    rw [triAreaG_of_ge hE, octant_area]; linarith [Real.pi_gt_three]
  exact (angular_forward_on_twin (a := toTR ⟨0, 0, 1⟩) (b := toTR ⟨1, 0, 0⟩) (c := toTR ⟨0, 1, 0⟩) ha hb hc hV hD hγ
    ((areaAgrees_tie _ _ _).mp hE.agrees) (by norm_num) hα1
    (by rw [← edgeParamR_tie, ← slerpR_tie]; exact (areaAgrees_tie _ _ _).mp octant_forward_branch.agrees)).2.2

/-- (D) on the twins: forward twin, then the inverse twin (`2 arcsin`, resp. `safe_acos`, resp. the full twin
with vertex snapping), octant triangle, `q = 1/3`, `s = 1/4` -/
example :
    let a : T3 ℝ := (0, 0, 1)
    let b : T3 ℝ := (1, 0, 0)
    let c : T3 ℝ := (0, 1, 0)
    let v := slerpG realKit a (slerpG realKit b c (1 / 3)) (1 / 4)
    (forwardPointG realKit a b c v = slerpG realKit b c (1 / 3) ∧
      inverseCoreG realKit (fun x => 2 * Real.arcsin x) a b c (forwardBaryG realKit a b c v) = v) ∧
    (let r := inverseCoreG realKit (GP.safeAcosG realKit) a b c (forwardBaryG realKit a b c v)
     dotG r r = 1 ∧ lengthG realKit (subG r v) ≤ 5e-16) ∧
    (let r := inverseBaryG realKit a b c (forwardBaryG realKit a b c v)
     dotG r r = 1 ∧ lengthG realKit (subG r v) ≤ 5e-16) := by
  obtain ⟨ha, hb, hc, hV, hD, hγ⟩ := octant_hyps
  obtain ⟨hu, hsl, hang, hE, hE2, hE3, _, _⟩ := octant_example_hyps
  obtain ⟨n1, n2, n3⟩ := octant_no_snap
  have gsl : realKit.slerpSwitch ≤ angleG realKit (toTR ⟨0, 0, 1⟩)
      (slerpG realKit (toTR ⟨1, 0, 0⟩) (toTR ⟨0, 1, 0⟩) (1 / 3)) := by rw [← slerpR_tie]; exact hsl
  have gE := (areaAgrees_tie _ _ _).mp hE.agrees
  have gE2 : AreaAgreesG (toTR ⟨0, 0, 1⟩) (slerpG realKit (toTR ⟨1, 0, 0⟩) (toTR ⟨0, 1, 0⟩) (1 / 3))
      (toTR ⟨0, 1, 0⟩) := by rw [← slerpR_tie]; exact (areaAgrees_tie _ _ _).mp hE2.agrees
  have gE3 : AreaAgreesG (toTR ⟨0, 0, 1⟩) (toTR ⟨1, 0, 0⟩)
      (slerpG realKit (toTR ⟨1, 0, 0⟩) (toTR ⟨0, 1, 0⟩) (1 / 3)) := by
    rw [← slerpR_tie]; exact (areaAgrees_tie _ _ _).mp hE3.agrees
  have e := forwardBaryR_tie (v := slerpR ⟨0, 0, 1⟩ (slerpR ⟨1, 0, 0⟩ ⟨0, 1, 0⟩ (1 / 3)) (1 / 4)) hE.agrees
    (by rw [(polyhedral_roundtrip_exact ha hb hc hV hD hγ hsl (by norm_num) (by norm_num) (by norm_num)
      (by norm_num)).1]; exact hE2.agrees)
    (by rw [(polyhedral_roundtrip_exact ha hb hc hV hD hγ hsl (by norm_num) (by norm_num) (by norm_num)
      (by norm_num)).1]; exact hE3.agrees)
  rw [e, slerpR_tie, slerpR_tie] at n1 n2 n3
  exact ⟨polyhedral_roundtrip_on_twin ha hb hc hV hD hγ gsl (by norm_num) (by norm_num) (by norm_num)
      (by norm_num) gE gE2 gE3,
    polyhedral_roundtrip_safeAcos_on_twin ha hb hc hV hD hγ gsl (by norm_num) (by norm_num) (by norm_num)
      (by norm_num) gE gE2 gE3,
    polyhedral_roundtrip_full_twin ha hb hc hV hD hγ gsl (by norm_num) (by norm_num) (by norm_num)
      (by norm_num) gE gE2 gE3 n1 n2 n3⟩

end A5.PolyTies
