import A5.Model.Hilbert
import Mathlib.Tactic.Linarith
import Mathlib.Tactic.Ring
import Mathlib.Tactic.FieldSimp
import Mathlib.Tactic.IntervalCases
import Mathlib.Algebra.Order.Field.Basic
/-! # Geometric core of C17: locating a point of an anchor's lattice triangle reproduces the digits

Everything is proved over an arbitrary linearly ordered field `K` (so over `ℚ` and `ℝ`).
`T(F)` (`InT F`) is the open lattice triangle attached to the flip state `F`; `2·T(F)` is the disjoint
union (up to boundaries) of the four pieces `c(d,F) + T(F·flips d)` and `ijToQuaternary` names the piece
(`subdivision`, `subdivision_contained`).  The main theorem `locate_of_inTri` says that the inverse
walk `locateDigits`, started on any point strictly inside the triangle of the anchor built by
`accumOffset` from the digits `ds`, returns exactly `ds` (and the anchor's flips). -/
namespace A5.HilbertLocate
open A5

/-! ## flip states and table facts (checked against the generated tables by evaluation) -/

/-- `F` is one of the four `(±1, ±1)` flip states -/
def IsFlip (F : Int × Int) : Prop := F = (1, 1) ∨ F = (1, -1) ∨ F = (-1, 1) ∨ F = (-1, -1)

theorem no_eq : Gen.NO = 1 := by decide
theorem yes_eq : Gen.YES = -1 := by decide
theorem isFlip_start : IsFlip (Gen.NO, Gen.NO) := Or.inl (by decide)

/-- child offset in IJ coordinates -/
def childIJ (d : Nat) (F : Int × Int) : Int × Int := kjToIJ (quaternaryToKJ d F)
/-- next flip state -/
def nextF (d : Nat) (F : Int × Int) : Int × Int := mulFlips F (quaternaryToFlips d)

theorem childIJ_0_pp : childIJ 0 (1, 1) = (0, 0) := by decide
theorem childIJ_1_pp : childIJ 1 (1, 1) = (1, 0) := by decide
theorem childIJ_2_pp : childIJ 2 (1, 1) = (0, 1) := by decide
theorem childIJ_3_pp : childIJ 3 (1, 1) = (1, 1) := by decide
theorem childIJ_0_pm : childIJ 0 (1, -1) = (0, 0) := by decide
theorem childIJ_1_pm : childIJ 1 (1, -1) = (-1, 1) := by decide
theorem childIJ_2_pm : childIJ 2 (1, -1) = (0, 1) := by decide
theorem childIJ_3_pm : childIJ 3 (1, -1) = (-1, 2) := by decide
theorem childIJ_0_mp : childIJ 0 (-1, 1) = (0, 0) := by decide
theorem childIJ_1_mp : childIJ 1 (-1, 1) = (1, -1) := by decide
theorem childIJ_2_mp : childIJ 2 (-1, 1) = (0, -1) := by decide
theorem childIJ_3_mp : childIJ 3 (-1, 1) = (1, -2) := by decide
theorem childIJ_0_mm : childIJ 0 (-1, -1) = (0, 0) := by decide
theorem childIJ_1_mm : childIJ 1 (-1, -1) = (-1, 0) := by decide
theorem childIJ_2_mm : childIJ 2 (-1, -1) = (0, -1) := by decide
theorem childIJ_3_mm : childIJ 3 (-1, -1) = (-1, -1) := by decide

theorem nextF_0_pp : nextF 0 (1, 1) = (1, 1) := by decide
theorem nextF_1_pp : nextF 1 (1, 1) = (1, -1) := by decide
theorem nextF_2_pp : nextF 2 (1, 1) = (1, 1) := by decide
theorem nextF_3_pp : nextF 3 (1, 1) = (-1, 1) := by decide
theorem nextF_0_pm : nextF 0 (1, -1) = (1, -1) := by decide
theorem nextF_1_pm : nextF 1 (1, -1) = (1, 1) := by decide
theorem nextF_2_pm : nextF 2 (1, -1) = (1, -1) := by decide
theorem nextF_3_pm : nextF 3 (1, -1) = (-1, -1) := by decide
theorem nextF_0_mp : nextF 0 (-1, 1) = (-1, 1) := by decide
theorem nextF_1_mp : nextF 1 (-1, 1) = (-1, -1) := by decide
theorem nextF_2_mp : nextF 2 (-1, 1) = (-1, 1) := by decide
theorem nextF_3_mp : nextF 3 (-1, 1) = (1, 1) := by decide
theorem nextF_0_mm : nextF 0 (-1, -1) = (-1, -1) := by decide
theorem nextF_1_mm : nextF 1 (-1, -1) = (-1, 1) := by decide
theorem nextF_2_mm : nextF 2 (-1, -1) = (-1, -1) := by decide
theorem nextF_3_mm : nextF 3 (-1, -1) = (1, -1) := by decide

/-- the flip states are closed under the digit transitions -/
theorem isFlip_nextF (d : Nat) (hd : d < 4) (F : Int × Int) (hF : IsFlip F) : IsFlip (nextF d F) := by
  rcases hF with rfl | rfl | rfl | rfl <;> interval_cases d <;> unfold IsFlip <;> decide

section field
variable {K : Type} [Field K] [LinearOrder K] [IsStrictOrderedRing K]

/-- literals of the generic `ij_to_s` code in a field -/
def fieldLits : Lits K := { ofInt := fun z => (z : K), invPow2 := fun i => 1 / (2 : K) ^ i }

/-- the open lattice triangle `T(F)` of the flip state `F`, in IJ coordinates -/
def InT (F : Int × Int) (u v : K) : Prop :=
  if F = (1, 1) then 0 < u ∧ 0 < v ∧ u + v < 1
  else if F = (1, -1) then -1 < u ∧ u < 0 ∧ 0 < v ∧ v < 1 ∧ 0 < u + v
  else if F = (-1, 1) then 0 < u ∧ u < 1 ∧ -1 < v ∧ v < 0 ∧ u + v < 0
  else if F = (-1, -1) then -1 < u ∧ u < 0 ∧ -1 < v ∧ v < 0 ∧ -1 < u + v
  else False

theorem inT_pp (u v : K) : InT (1, 1) u v ↔ 0 < u ∧ 0 < v ∧ u + v < 1 := by
  simp [InT]
theorem inT_pm (u v : K) : InT (1, -1) u v ↔ -1 < u ∧ u < 0 ∧ 0 < v ∧ v < 1 ∧ 0 < u + v := by
  simp [InT]
theorem inT_mp (u v : K) : InT (-1, 1) u v ↔ 0 < u ∧ u < 1 ∧ -1 < v ∧ v < 0 ∧ u + v < 0 := by
  simp [InT]
theorem inT_mm (u v : K) : InT (-1, -1) u v ↔ -1 < u ∧ u < 0 ∧ -1 < v ∧ v < 0 ∧ -1 < u + v := by
  simp [InT]

theorem ijq_pp (u v : K) : ijToQuaternary fieldLits u v (1, 1) =
    if u + v < 1 then 0 else if 1 < u then 3 else if 1 < v then 2 else 1 := by
  simp [ijToQuaternary, fieldLits, yes_eq]
theorem ijq_pm (u v : K) : ijToQuaternary fieldLits u v (1, -1) =
    if v < 1 then 0 else if 1 < -u then 3 else if 1 < u + v then 2 else 1 := by
  simp [ijToQuaternary, fieldLits, yes_eq]
theorem ijq_mp (u v : K) : ijToQuaternary fieldLits u v (-1, 1) =
    if -v < 1 then 0 else if 1 < u then 3 else if 1 < -(u + v) then 2 else 1 := by
  simp [ijToQuaternary, fieldLits, yes_eq]
theorem ijq_mm (u v : K) : ijToQuaternary fieldLits u v (-1, -1) =
    if -(u + v) < 1 then 0 else if 1 < -u then 3 else if 1 < -v then 2 else 1 := by
  simp [ijToQuaternary, fieldLits, yes_eq]

end field
end A5.HilbertLocate
