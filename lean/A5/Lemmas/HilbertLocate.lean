import A5.Model.Hilbert
import Mathlib.Tactic.Linarith
import Mathlib.Tactic.Ring
import Mathlib.Tactic.FieldSimp
import Mathlib.Tactic.IntervalCases
import Mathlib.Algebra.Order.Field.Basic
import Mathlib.Algebra.Order.Field.Rat
/-! # Geometric core of C17: locating a point of an anchor's lattice triangle reproduces the digits

Everything is proved over an arbitrary linearly ordered field `K` (so over `ℚ` and `ℝ`).
`T(F)` (`InT F`) is the open lattice triangle attached to the flip state `F`; `2·T(F)` is the disjoint
union (up to boundaries) of the four pieces `c(d,F) + T(F·flips d)` and `ijToQuaternary` names the piece
(`subdivision`, `subdivision_contained`).  The main theorem `locate_of_inTri` says that the inverse
walk `locateDigits`, started on any point strictly inside the triangle of the anchor built by
`accumOffset` from the digits `ds`, returns exactly `ds` (and the anchor's flips). -/
namespace A5.HilbertLocate
open A5

/-! ## flip states and table facts (checked against the generated tables by evaluation) -/

/-- `F` is one of the four `(±1, ±1)` flip states -/
def IsFlip (F : Int × Int) : Prop := F = (1, 1) ∨ F = (1, -1) ∨ F = (-1, 1) ∨ F = (-1, -1)

theorem no_eq : Gen.NO = 1 := by decide
theorem yes_eq : Gen.YES = -1 := by decide
theorem isFlip_start : IsFlip (Gen.NO, Gen.NO) := Or.inl (by decide)

/-- child offset in IJ coordinates -/
def childIJ (d : Nat) (F : Int × Int) : Int × Int := kjToIJ (quaternaryToKJ d F)
/-- next flip state -/
def nextF (d : Nat) (F : Int × Int) : Int × Int := mulFlips F (quaternaryToFlips d)

theorem childIJ_0_pp : childIJ 0 (1, 1) = (0, 0) := by decide
theorem childIJ_1_pp : childIJ 1 (1, 1) = (1, 0) := by decide
theorem childIJ_2_pp : childIJ 2 (1, 1) = (0, 1) := by decide
theorem childIJ_3_pp : childIJ 3 (1, 1) = (1, 1) := by decide
theorem childIJ_0_pm : childIJ 0 (1, -1) = (0, 0) := by decide
theorem childIJ_1_pm : childIJ 1 (1, -1) = (-1, 1) := by decide
theorem childIJ_2_pm : childIJ 2 (1, -1) = (0, 1) := by decide
theorem childIJ_3_pm : childIJ 3 (1, -1) = (-1, 2) := by decide
theorem childIJ_0_mp : childIJ 0 (-1, 1) = (0, 0) := by decide
theorem childIJ_1_mp : childIJ 1 (-1, 1) = (1, -1) := by decide
theorem childIJ_2_mp : childIJ 2 (-1, 1) = (0, -1) := by decide
theorem childIJ_3_mp : childIJ 3 (-1, 1) = (1, -2) := by decide
theorem childIJ_0_mm : childIJ 0 (-1, -1) = (0, 0) := by decide
theorem childIJ_1_mm : childIJ 1 (-1, -1) = (-1, 0) := by decide
theorem childIJ_2_mm : childIJ 2 (-1, -1) = (0, -1) := by decide
theorem childIJ_3_mm : childIJ 3 (-1, -1) = (-1, -1) := by decide

theorem nextF_0_pp : nextF 0 (1, 1) = (1, 1) := by decide
theorem nextF_1_pp : nextF 1 (1, 1) = (1, -1) := by decide
theorem nextF_2_pp : nextF 2 (1, 1) = (1, 1) := by decide
theorem nextF_3_pp : nextF 3 (1, 1) = (-1, 1) := by decide
theorem nextF_0_pm : nextF 0 (1, -1) = (1, -1) := by decide
theorem nextF_1_pm : nextF 1 (1, -1) = (1, 1) := by decide
theorem nextF_2_pm : nextF 2 (1, -1) = (1, -1) := by decide
theorem nextF_3_pm : nextF 3 (1, -1) = (-1, -1) := by decide
theorem nextF_0_mp : nextF 0 (-1, 1) = (-1, 1) := by decide
theorem nextF_1_mp : nextF 1 (-1, 1) = (-1, -1) := by decide
theorem nextF_2_mp : nextF 2 (-1, 1) = (-1, 1) := by decide
theorem nextF_3_mp : nextF 3 (-1, 1) = (1, 1) := by decide
theorem nextF_0_mm : nextF 0 (-1, -1) = (-1, -1) := by decide
theorem nextF_1_mm : nextF 1 (-1, -1) = (-1, 1) := by decide
theorem nextF_2_mm : nextF 2 (-1, -1) = (-1, -1) := by decide
theorem nextF_3_mm : nextF 3 (-1, -1) = (1, -1) := by decide

/-- the flip states are closed under the digit transitions -/
theorem isFlip_nextF (d : Nat) (hd : d < 4) (F : Int × Int) (hF : IsFlip F) : IsFlip (nextF d F) := by
  rcases hF with rfl | rfl | rfl | rfl <;> interval_cases d <;> unfold IsFlip <;> decide

set_option linter.unusedSectionVars false
section field
variable {K : Type} [Field K] [LinearOrder K] [IsStrictOrderedRing K]

/-- literals of the generic `ij_to_s` code in a field -/
def fieldLits : Lits K := { ofInt := fun z => (z : K), invPow2 := fun i => 1 / (2 : K) ^ i }

/-- the open lattice triangle `T(F)` of the flip state `F`, in IJ coordinates -/
def InT (F : Int × Int) (u v : K) : Prop :=
  if F = (1, 1) then 0 < u ∧ 0 < v ∧ u + v < 1
  else if F = (1, -1) then -1 < u ∧ u < 0 ∧ 0 < v ∧ v < 1 ∧ 0 < u + v
  else if F = (-1, 1) then 0 < u ∧ u < 1 ∧ -1 < v ∧ v < 0 ∧ u + v < 0
  else if F = (-1, -1) then -1 < u ∧ u < 0 ∧ -1 < v ∧ v < 0 ∧ -1 < u + v
  else False

theorem inT_pp (u v : K) : InT (1, 1) u v ↔ 0 < u ∧ 0 < v ∧ u + v < 1 := by
  simp [InT]
theorem inT_pm (u v : K) : InT (1, -1) u v ↔ -1 < u ∧ u < 0 ∧ 0 < v ∧ v < 1 ∧ 0 < u + v := by
  simp [InT]
theorem inT_mp (u v : K) : InT (-1, 1) u v ↔ 0 < u ∧ u < 1 ∧ -1 < v ∧ v < 0 ∧ u + v < 0 := by
  simp [InT]
theorem inT_mm (u v : K) : InT (-1, -1) u v ↔ -1 < u ∧ u < 0 ∧ -1 < v ∧ v < 0 ∧ -1 < u + v := by
  simp [InT]

theorem ijq_pp (u v : K) : ijToQuaternary fieldLits u v (1, 1) =
    if u + v < 1 then 0 else if 1 < u then 3 else if 1 < v then 2 else 1 := by
  simp [ijToQuaternary, fieldLits, yes_eq]
theorem ijq_pm (u v : K) : ijToQuaternary fieldLits u v (1, -1) =
    if v < 1 then 0 else if 1 < -u then 3 else if 1 < u + v then 2 else 1 := by
  simp [ijToQuaternary, fieldLits, yes_eq]
theorem ijq_mp (u v : K) : ijToQuaternary fieldLits u v (-1, 1) =
    if -v < 1 then 0 else if 1 < u then 3 else if 1 < -(u + v) then 2 else 1 := by
  simp [ijToQuaternary, fieldLits, yes_eq]
theorem ijq_mm (u v : K) : ijToQuaternary fieldLits u v (-1, -1) =
    if -(u + v) < 1 then 0 else if 1 < -u then 3 else if 1 < -v then 2 else 1 := by
  simp [ijToQuaternary, fieldLits, yes_eq]

/-! ## the 16-case subdivision -/

/-- **Subdivision.** If `q - c(d,F)` lies in the triangle of the next flip state, the classifier
`ijToQuaternary` returns `d` on `q`. -/
theorem subdivision (F : Int × Int) (hF : IsFlip F) (d : Nat) (hd : d < 4) (u v : K)
    (h : InT (nextF d F) (u - ((childIJ d F).1 : K)) (v - ((childIJ d F).2 : K))) :
    ijToQuaternary fieldLits u v F = d := by
  rcases hF with rfl | rfl | rfl | rfl <;> interval_cases d
  all_goals
    simp only [childIJ_0_pp, childIJ_1_pp, childIJ_2_pp, childIJ_3_pp, childIJ_0_pm, childIJ_1_pm,
      childIJ_2_pm, childIJ_3_pm, childIJ_0_mp, childIJ_1_mp, childIJ_2_mp, childIJ_3_mp,
      childIJ_0_mm, childIJ_1_mm, childIJ_2_mm, childIJ_3_mm,
      nextF_0_pp, nextF_1_pp, nextF_2_pp, nextF_3_pp, nextF_0_pm, nextF_1_pm, nextF_2_pm, nextF_3_pm,
      nextF_0_mp, nextF_1_mp, nextF_2_mp, nextF_3_mp, nextF_0_mm, nextF_1_mm, nextF_2_mm, nextF_3_mm,
      inT_pp, inT_pm, inT_mp, inT_mm, Int.cast_zero, Int.cast_one, Int.cast_neg, Int.cast_ofNat] at h
    first
      | rewrite [ijq_pp] | rewrite [ijq_pm] | rewrite [ijq_mp] | rewrite [ijq_mm]
    split_ifs <;> first | rfl | (exfalso; linarith)

/-- **Containment.** `c(d,F) + T(F·flips d) ⊆ 2·T(F)`. -/
theorem subdivision_contained (F : Int × Int) (hF : IsFlip F) (d : Nat) (hd : d < 4) (u v : K)
    (h : InT (nextF d F) (u - ((childIJ d F).1 : K)) (v - ((childIJ d F).2 : K))) :
    InT F (u * (1 / 2)) (v * (1 / 2)) := by
  rcases hF with rfl | rfl | rfl | rfl <;> interval_cases d
  all_goals
    simp only [childIJ_0_pp, childIJ_1_pp, childIJ_2_pp, childIJ_3_pp, childIJ_0_pm, childIJ_1_pm,
      childIJ_2_pm, childIJ_3_pm, childIJ_0_mp, childIJ_1_mp, childIJ_2_mp, childIJ_3_mp,
      childIJ_0_mm, childIJ_1_mm, childIJ_2_mm, childIJ_3_mm,
      nextF_0_pp, nextF_1_pp, nextF_2_pp, nextF_3_pp, nextF_0_pm, nextF_1_pm, nextF_2_pm, nextF_3_pm,
      nextF_0_mp, nextF_1_mp, nextF_2_mp, nextF_3_mp, nextF_0_mm, nextF_1_mm, nextF_2_mm, nextF_3_mm,
      inT_pp, inT_pm, inT_mp, inT_mm, Int.cast_zero, Int.cast_one, Int.cast_neg, Int.cast_ofNat] at h ⊢
    refine ⟨?_, ?_, ?_⟩ <;> try refine ⟨?_, ?_, ?_⟩
    all_goals linarith

set_option linter.unusedSimpArgs false in
/-- one flip state of `subdivision_complete` (the cut-line hypotheses already split into `<`/`>`) -/
local macro "subdivision_complete_tac" h1:ident h2:ident h3:ident : tactic => `(tactic| (
  rcases lt_or_gt_of_ne $h1 with $h1:ident | $h1:ident <;> rcases lt_or_gt_of_ne $h2 with $h2:ident | $h2:ident <;>
    rcases lt_or_gt_of_ne $h3 with $h3:ident | $h3:ident <;> split_ifs
  all_goals
    refine ⟨by norm_num, ?_⟩
    simp only [childIJ_0_pp, childIJ_1_pp, childIJ_2_pp, childIJ_3_pp, childIJ_0_pm, childIJ_1_pm,
      childIJ_2_pm, childIJ_3_pm, childIJ_0_mp, childIJ_1_mp, childIJ_2_mp, childIJ_3_mp,
      childIJ_0_mm, childIJ_1_mm, childIJ_2_mm, childIJ_3_mm,
      nextF_0_pp, nextF_1_pp, nextF_2_pp, nextF_3_pp, nextF_0_pm, nextF_1_pm, nextF_2_pm, nextF_3_pm,
      nextF_0_mp, nextF_1_mp, nextF_2_mp, nextF_3_mp, nextF_0_mm, nextF_1_mm, nextF_2_mm, nextF_3_mm,
      inT_pp, inT_pm, inT_mp, inT_mm, Int.cast_zero, Int.cast_one, Int.cast_neg, Int.cast_ofNat]
    refine ⟨?_, ?_, ?_⟩ <;> try refine ⟨?_, ?_, ?_⟩
    all_goals linarith))

set_option linter.unusedSimpArgs false in
theorem subdivision_complete_pp (u v : K) (hin : InT (1, 1) (u * (1 / 2)) (v * (1 / 2)))
    (h1 : u + v ≠ (((1, 1) : Int × Int).1 : K)) (h2 : u ≠ (((1, 1) : Int × Int).2 : K))
    (h3 : v ≠ (((1, 1) : Int × Int).1 : K)) :
    ijToQuaternary fieldLits u v (1, 1) < 4 ∧
      InT (nextF (ijToQuaternary fieldLits u v (1, 1)) (1, 1))
        (u - ((childIJ (ijToQuaternary fieldLits u v (1, 1)) (1, 1)).1 : K))
        (v - ((childIJ (ijToQuaternary fieldLits u v (1, 1)) (1, 1)).2 : K)) := by
  simp only [Int.cast_one, Int.cast_neg] at h1 h2 h3
  rewrite [inT_pp] at hin
  rewrite [ijq_pp]
  subdivision_complete_tac h1 h2 h3

set_option linter.unusedSimpArgs false in
theorem subdivision_complete_pm (u v : K) (hin : InT (1, -1) (u * (1 / 2)) (v * (1 / 2)))
    (h1 : u + v ≠ (((1, -1) : Int × Int).1 : K)) (h2 : u ≠ (((1, -1) : Int × Int).2 : K))
    (h3 : v ≠ (((1, -1) : Int × Int).1 : K)) :
    ijToQuaternary fieldLits u v (1, -1) < 4 ∧
      InT (nextF (ijToQuaternary fieldLits u v (1, -1)) (1, -1))
        (u - ((childIJ (ijToQuaternary fieldLits u v (1, -1)) (1, -1)).1 : K))
        (v - ((childIJ (ijToQuaternary fieldLits u v (1, -1)) (1, -1)).2 : K)) := by
  simp only [Int.cast_one, Int.cast_neg] at h1 h2 h3
  rewrite [inT_pm] at hin
  rewrite [ijq_pm]
  subdivision_complete_tac h1 h2 h3

set_option linter.unusedSimpArgs false in
theorem subdivision_complete_mp (u v : K) (hin : InT (-1, 1) (u * (1 / 2)) (v * (1 / 2)))
    (h1 : u + v ≠ (((-1, 1) : Int × Int).1 : K)) (h2 : u ≠ (((-1, 1) : Int × Int).2 : K))
    (h3 : v ≠ (((-1, 1) : Int × Int).1 : K)) :
    ijToQuaternary fieldLits u v (-1, 1) < 4 ∧
      InT (nextF (ijToQuaternary fieldLits u v (-1, 1)) (-1, 1))
        (u - ((childIJ (ijToQuaternary fieldLits u v (-1, 1)) (-1, 1)).1 : K))
        (v - ((childIJ (ijToQuaternary fieldLits u v (-1, 1)) (-1, 1)).2 : K)) := by
  simp only [Int.cast_one, Int.cast_neg] at h1 h2 h3
  rewrite [inT_mp] at hin
  rewrite [ijq_mp]
  subdivision_complete_tac h1 h2 h3

set_option linter.unusedSimpArgs false in
theorem subdivision_complete_mm (u v : K) (hin : InT (-1, -1) (u * (1 / 2)) (v * (1 / 2)))
    (h1 : u + v ≠ (((-1, -1) : Int × Int).1 : K)) (h2 : u ≠ (((-1, -1) : Int × Int).2 : K))
    (h3 : v ≠ (((-1, -1) : Int × Int).1 : K)) :
    ijToQuaternary fieldLits u v (-1, -1) < 4 ∧
      InT (nextF (ijToQuaternary fieldLits u v (-1, -1)) (-1, -1))
        (u - ((childIJ (ijToQuaternary fieldLits u v (-1, -1)) (-1, -1)).1 : K))
        (v - ((childIJ (ijToQuaternary fieldLits u v (-1, -1)) (-1, -1)).2 : K)) := by
  simp only [Int.cast_one, Int.cast_neg] at h1 h2 h3
  rewrite [inT_mm] at hin
  rewrite [ijq_mm]
  subdivision_complete_tac h1 h2 h3

/-- **Completeness of the subdivision** (converse of `subdivision` + exhaustiveness): a point of the
doubled triangle `2·T(F)` that is on none of the three cut lines `u + v = F.1`, `u = F.2`, `v = F.1`
lies in the piece named by `ijToQuaternary`. -/
theorem subdivision_complete (F : Int × Int) (hF : IsFlip F) (u v : K)
    (hin : InT F (u * (1 / 2)) (v * (1 / 2)))
    (h1 : u + v ≠ (F.1 : K)) (h2 : u ≠ (F.2 : K)) (h3 : v ≠ (F.1 : K)) :
    ijToQuaternary fieldLits u v F < 4 ∧
      InT (nextF (ijToQuaternary fieldLits u v F) F)
        (u - ((childIJ (ijToQuaternary fieldLits u v F) F).1 : K))
        (v - ((childIJ (ijToQuaternary fieldLits u v F) F).2 : K)) := by
  rcases hF with rfl | rfl | rfl | rfl
  · exact subdivision_complete_pp u v hin h1 h2 h3
  · exact subdivision_complete_pm u v hin h1 h2 h3
  · exact subdivision_complete_mp u v hin h1 h2 h3
  · exact subdivision_complete_mm u v hin h1 h2 h3

end field

/-! ## the forward walk `accumOffset` as a linear recursion -/

theorem accumOffset_succ (i : Nat) (ds : List Nat) (off F : Int × Int) :
    accumOffset (i + 1) ds off F =
      accumOffset i ds (off.1 * 2 + (quaternaryToKJ (ds.getD i 0) F).1,
        off.2 * 2 + (quaternaryToKJ (ds.getD i 0) F).2) (nextF (ds.getD i 0) F) := rfl

theorem accumOffset_lin (m : Nat) (ds : List Nat) : ∀ (off F : Int × Int),
    accumOffset m ds off F =
      ((2 ^ m * off.1 + (accumOffset m ds (0, 0) F).1.1, 2 ^ m * off.2 + (accumOffset m ds (0, 0) F).1.2),
        (accumOffset m ds (0, 0) F).2) := by
  induction m with
  | zero => intro off F; simp [accumOffset]
  | succ m ih =>
    intro off F
    have e1 := ih (off.1 * 2 + (quaternaryToKJ (ds.getD m 0) F).1,
      off.2 * 2 + (quaternaryToKJ (ds.getD m 0) F).2) (nextF (ds.getD m 0) F)
    have e2 := ih ((quaternaryToKJ (ds.getD m 0) F).1, (quaternaryToKJ (ds.getD m 0) F).2)
      (nextF (ds.getD m 0) F)
    have e3 : accumOffset (m + 1) ds (0, 0) F =
        accumOffset m ds ((quaternaryToKJ (ds.getD m 0) F).1, (quaternaryToKJ (ds.getD m 0) F).2)
          (nextF (ds.getD m 0) F) := by
      rewrite [accumOffset_succ]
      simp only [Int.zero_mul, Int.zero_add]
    rewrite [accumOffset_succ, e1, e3, e2]
    refine Prod.ext (Prod.ext ?_ ?_) ?_
    · dsimp only; ring
    · dsimp only; ring
    · rfl

/-- the anchor (IJ offset, flips) that the forward walk builds from the lowest `m` digits of `ds`
starting in flip state `F` -/
def anchorOf (m : Nat) (ds : List Nat) (F : Int × Int) : (Int × Int) × (Int × Int) :=
  (kjToIJ (accumOffset m ds (0, 0) F).1, (accumOffset m ds (0, 0) F).2)

theorem anchorOf_zero (ds : List Nat) (F : Int × Int) : anchorOf 0 ds F = ((0, 0), F) := by
  simp [anchorOf, accumOffset, kjToIJ]

theorem anchorOf_succ (m : Nat) (ds : List Nat) (F : Int × Int) :
    anchorOf (m + 1) ds F =
      ((2 ^ m * (childIJ (ds.getD m 0) F).1 + (anchorOf m ds (nextF (ds.getD m 0) F)).1.1,
        2 ^ m * (childIJ (ds.getD m 0) F).2 + (anchorOf m ds (nextF (ds.getD m 0) F)).1.2),
        (anchorOf m ds (nextF (ds.getD m 0) F)).2) := by
  unfold anchorOf
  rewrite [accumOffset_succ, accumOffset_lin]
  refine Prod.ext (Prod.ext ?_ ?_) rfl
  · simp only [kjToIJ, childIJ]; ring
  · simp only [kjToIJ, childIJ]; ring

theorem getD_lt4 (ds : List Nat) (hds : ∀ d ∈ ds, d < 4) (i : Nat) : ds.getD i 0 < 4 := by
  rewrite [List.getD_eq_getElem?_getD]
  cases h : ds[i]? with
  | none => simp
  | some d => exact hds d (List.mem_of_getElem? h)

theorem take_succ_getD (ds : List Nat) (m : Nat) (h : m < ds.length) :
    ds.take (m + 1) = ds.take m ++ [ds.getD m 0] := by
  rewrite [List.take_add_one, List.getD_eq_getElem?_getD, List.getElem?_eq_getElem h]
  rfl

section generic
variable {α : Type} [Add α] [Sub α] [Mul α] [Neg α] [LT α] [DecidableLT α]

theorem locateDigits_succ (L : Lits α) (x y : α) (i : Nat) (P : α × α) (F : Int × Int) (acc : List Nat)
    (d : Nat) (hd : ijToQuaternary L ((x - P.1) * L.invPow2 i) ((y - P.2) * L.invPow2 i) F = d) :
    locateDigits L x y (i + 1) P F acc =
      locateDigits L x y i (P.1 + L.ofInt (childIJ d F).1 * L.ofInt (2 ^ i),
        P.2 + L.ofInt (childIJ d F).2 * L.ofInt (2 ^ i)) (nextF d F) (d :: acc) := by
  subst hd; rfl
end generic

section field2
variable {K : Type} [Field K] [LinearOrder K] [IsStrictOrderedRing K]

theorem InT_congr {F : Int × Int} {u v u' v' : K} (hu : u = u') (hv : v = v') (h : InT F u v) :
    InT F u' v' := by subst hu; subst hv; exact h

/-- the anchor triangle built from `m` digits starting in state `F` lies in `2^m · T(F)`, and the
final flip state is again a `±1` pair -/
theorem anchor_contained (ds : List Nat) (hds : ∀ i, ds.getD i 0 < 4) : ∀ (m : Nat) (F : Int × Int),
    IsFlip F → IsFlip (anchorOf m ds F).2 ∧ ∀ (u v : K),
      InT (anchorOf m ds F).2 (u - ((anchorOf m ds F).1.1 : K)) (v - ((anchorOf m ds F).1.2 : K)) →
      InT F (u * (1 / 2 ^ m)) (v * (1 / 2 ^ m)) := by
  intro m
  induction m with
  | zero =>
    intro F hF
    rewrite [anchorOf_zero]
    refine ⟨hF, fun u v h => ?_⟩
    simpa using h
  | succ m ih =>
    intro F hF
    have hd := hds m
    have hF' := isFlip_nextF _ hd F hF
    obtain ⟨ih1, ih2⟩ := ih (nextF (ds.getD m 0) F) hF'
    rewrite [anchorOf_succ]
    refine ⟨ih1, fun u v h => ?_⟩
    dsimp only at h
    have hp : (2 : K) ^ m ≠ 0 := pow_ne_zero _ two_ne_zero
    have h2 := ih2 (u - 2 ^ m * ((childIJ (ds.getD m 0) F).1 : K))
      (v - 2 ^ m * ((childIJ (ds.getD m 0) F).2 : K))
      (InT_congr (by push_cast; ring) (by push_cast; ring) h)
    have h3 := subdivision_contained F hF _ hd (u * (1 / 2 ^ m)) (v * (1 / 2 ^ m))
      (InT_congr (by field_simp) (by field_simp) h2)
    exact InT_congr (by field_simp; ring) (by field_simp; ring) h3

/-- generalised main lemma: the state in the middle of the inverse walk -/
theorem locate_aux (ds : List Nat) (hds : ∀ i, ds.getD i 0 < 4) (x y : K) : ∀ (m : Nat), m ≤ ds.length →
    ∀ (F : Int × Int), IsFlip F → ∀ (P : K × K) (acc : List Nat),
      InT (anchorOf m ds F).2 (x - P.1 - ((anchorOf m ds F).1.1 : K)) (y - P.2 - ((anchorOf m ds F).1.2 : K)) →
      locateDigits fieldLits x y m P F acc = (ds.take m ++ acc, (anchorOf m ds F).2) := by
  intro m
  induction m with
  | zero =>
    intro _ F _ P acc _
    rewrite [anchorOf_zero]
    simp [locateDigits]
  | succ m ih =>
    intro hm F hF P acc h
    have hd := hds m
    have hF' := isFlip_nextF _ hd F hF
    rewrite [anchorOf_succ] at h ⊢
    dsimp only at h ⊢
    have hp : (2 : K) ^ m ≠ 0 := pow_ne_zero _ two_ne_zero
    have h2 := (anchor_contained ds hds m _ hF').2
      (x - P.1 - 2 ^ m * ((childIJ (ds.getD m 0) F).1 : K))
      (y - P.2 - 2 ^ m * ((childIJ (ds.getD m 0) F).2 : K))
      (InT_congr (by push_cast; ring) (by push_cast; ring) h)
    have h3 := subdivision F hF _ hd ((x - P.1) * (1 / 2 ^ m)) ((y - P.2) * (1 / 2 ^ m))
      (InT_congr (by field_simp) (by field_simp) h2)
    rewrite [locateDigits_succ fieldLits x y m P F acc _ h3, ih (by omega) _ hF', take_succ_getD ds m (by omega)]
    · simp
    · refine InT_congr ?_ ?_ h <;> (simp only [fieldLits]; push_cast; ring)

theorem start_eq : (Gen.NO, Gen.NO) = ((1 : Int), (1 : Int)) := by decide

/-- **Main theorem.** For every depth `n` and every list `ds` of `n` base-4 digits, locating any point
strictly inside the lattice triangle of the anchor built from `ds` returns exactly `ds` and the
anchor's flips. -/
theorem locate_of_inTri (n : Nat) (ds : List Nat) (hlen : ds.length = n) (hds : ∀ d ∈ ds, d < 4) (x y : K)
    (h : InT (accumOffset n ds (0, 0) (Gen.NO, Gen.NO)).2
      (x - ((kjToIJ (accumOffset n ds (0, 0) (Gen.NO, Gen.NO)).1).1 : K))
      (y - ((kjToIJ (accumOffset n ds (0, 0) (Gen.NO, Gen.NO)).1).2 : K))) :
    locateDigits fieldLits x y n ((0 : K), (0 : K)) (Gen.NO, Gen.NO) [] =
      (ds, (accumOffset n ds (0, 0) (Gen.NO, Gen.NO)).2) := by
  rewrite [start_eq] at h ⊢
  have := locate_aux ds (getD_lt4 ds hds) x y n (by omega) (1, 1) (Or.inl rfl) ((0 : K), (0 : K)) []
    (InT_congr (by simp [anchorOf]) (by simp [anchorOf]) h)
  rewrite [this]
  subst hlen
  simp [anchorOf]

/-- the same with the start pivot written exactly as in `ijToSInternal` -/
theorem locate_of_inTri' (n : Nat) (ds : List Nat) (hlen : ds.length = n) (hds : ∀ d ∈ ds, d < 4) (x y : K)
    (h : InT (accumOffset n ds (0, 0) (Gen.NO, Gen.NO)).2
      (x - ((kjToIJ (accumOffset n ds (0, 0) (Gen.NO, Gen.NO)).1).1 : K))
      (y - ((kjToIJ (accumOffset n ds (0, 0) (Gen.NO, Gen.NO)).1).2 : K))) :
    locateDigits (fieldLits : Lits K) x y n (fieldLits.ofInt 0, fieldLits.ofInt 0) (Gen.NO, Gen.NO) [] =
      (ds, (accumOffset n ds (0, 0) (Gen.NO, Gen.NO)).2) := by
  have e : (fieldLits : Lits K).ofInt 0 = 0 := Int.cast_zero
  rewrite [e]
  exact locate_of_inTri n ds hlen hds x y h

/-- the final flips of the forward walk are a `±1` pair -/
theorem accumOffset_isFlip (n : Nat) (ds : List Nat) (hds : ∀ d ∈ ds, d < 4) :
    IsFlip (accumOffset n ds (0, 0) (Gen.NO, Gen.NO)).2 := by
  rewrite [start_eq]
  exact (anchor_contained (K := ℚ) ds (getD_lt4 ds hds) n (1, 1) (Or.inl rfl)).1

/-- every triangle `T(F)` is non-empty: an explicit interior point -/
def interiorPt (F : Int × Int) : K × K :=
  if F = (1, 1) then (1 / 3, 1 / 3) else if F = (1, -1) then (-1 / 3, 2 / 3)
  else if F = (-1, 1) then (1 / 3, -2 / 3) else (-1 / 3, -1 / 3)

theorem interiorPt_inT (F : Int × Int) (hF : IsFlip F) :
    InT F (interiorPt F : K × K).1 (interiorPt F : K × K).2 := by
  rcases hF with rfl | rfl | rfl | rfl
  · rewrite [inT_pp]; norm_num [interiorPt]
  · rewrite [inT_pm]; norm_num [interiorPt]
  · rewrite [inT_mp]; norm_num [interiorPt]
  · rewrite [inT_mm]; norm_num [interiorPt]

/-- **(b)** the triangle of every length-`n` digit list lies inside the quintant triangle
`2^n · T(NO,NO) = { u > 0, v > 0, u + v < 2^n }` -/
theorem anchor_triangle_in_quintant (n : Nat) (ds : List Nat) (hds : ∀ d ∈ ds, d < 4) (u v : K)
    (h : InT (accumOffset n ds (0, 0) (Gen.NO, Gen.NO)).2
      (u - ((kjToIJ (accumOffset n ds (0, 0) (Gen.NO, Gen.NO)).1).1 : K))
      (v - ((kjToIJ (accumOffset n ds (0, 0) (Gen.NO, Gen.NO)).1).2 : K))) :
    0 < u ∧ 0 < v ∧ u + v < 2 ^ n := by
  rewrite [start_eq] at h
  have h1 := (anchor_contained ds (getD_lt4 ds hds) n (1, 1) (Or.inl rfl)).2 u v h
  rewrite [inT_pp] at h1
  obtain ⟨a, b, c⟩ := h1
  have hp : (0 : K) < 2 ^ n := by positivity
  have eu : u = u * (1 / 2 ^ n) * 2 ^ n := by field_simp
  have ev : v = v * (1 / 2 ^ n) * 2 ^ n := by field_simp
  refine ⟨?_, ?_, ?_⟩
  · rewrite [eu]; exact mul_pos a hp
  · rewrite [ev]; exact mul_pos b hp
  · have := mul_lt_mul_of_pos_right c hp
    rewrite [one_mul, add_mul, ← eu, ← ev] at this
    exact this

/-- locating the centroid `offset + interiorPt flips` of the anchor triangle of `ds` returns `ds` -/
theorem locate_centroid (n : Nat) (ds : List Nat) (hlen : ds.length = n) (hds : ∀ d ∈ ds, d < 4) :
    locateDigits (fieldLits : Lits K)
      (((kjToIJ (accumOffset n ds (0, 0) (Gen.NO, Gen.NO)).1).1 : K) +
        (interiorPt (accumOffset n ds (0, 0) (Gen.NO, Gen.NO)).2).1)
      (((kjToIJ (accumOffset n ds (0, 0) (Gen.NO, Gen.NO)).1).2 : K) +
        (interiorPt (accumOffset n ds (0, 0) (Gen.NO, Gen.NO)).2).2)
      n ((0 : K), (0 : K)) (Gen.NO, Gen.NO) [] = (ds, (accumOffset n ds (0, 0) (Gen.NO, Gen.NO)).2) :=
  locate_of_inTri n ds hlen hds _ _
    (InT_congr (by ring) (by ring) (interiorPt_inT _ (accumOffset_isFlip n ds hds)))

end field2

/-! ## corollaries about the integer anchors -/

/-- **(a)** two digit lists with the same anchor (IJ offset and flips) are equal: the anchor
triangles of distinct curve positions are distinct. -/
theorem anchor_triangle_injective (n : Nat) (ds ds' : List Nat) (hl : ds.length = n) (hl' : ds'.length = n)
    (hds : ∀ d ∈ ds, d < 4) (hds' : ∀ d ∈ ds', d < 4)
    (he : (kjToIJ (accumOffset n ds (0, 0) (Gen.NO, Gen.NO)).1, (accumOffset n ds (0, 0) (Gen.NO, Gen.NO)).2) =
      (kjToIJ (accumOffset n ds' (0, 0) (Gen.NO, Gen.NO)).1, (accumOffset n ds' (0, 0) (Gen.NO, Gen.NO)).2)) :
    ds = ds' := by
  have e1 := congrArg Prod.fst he
  have e2 := congrArg Prod.snd he
  dsimp only at e1 e2
  have hF := accumOffset_isFlip n ds hds
  have hp := interiorPt_inT (K := ℚ) _ hF
  have h1 := locate_of_inTri (K := ℚ) n ds hl hds
    ((kjToIJ (accumOffset n ds (0, 0) (Gen.NO, Gen.NO)).1).1 + (interiorPt (accumOffset n ds (0, 0) (Gen.NO, Gen.NO)).2).1)
    ((kjToIJ (accumOffset n ds (0, 0) (Gen.NO, Gen.NO)).1).2 + (interiorPt (accumOffset n ds (0, 0) (Gen.NO, Gen.NO)).2).2)
    (InT_congr (by ring) (by ring) hp)
  have h2 := locate_of_inTri (K := ℚ) n ds' hl' hds'
    ((kjToIJ (accumOffset n ds (0, 0) (Gen.NO, Gen.NO)).1).1 + (interiorPt (accumOffset n ds (0, 0) (Gen.NO, Gen.NO)).2).1)
    ((kjToIJ (accumOffset n ds (0, 0) (Gen.NO, Gen.NO)).1).2 + (interiorPt (accumOffset n ds (0, 0) (Gen.NO, Gen.NO)).2).2)
    (by rewrite [← e1, ← e2]; exact InT_congr (by ring) (by ring) hp)
  exact congrArg Prod.fst (h1.symm.trans h2)

/-- **(c)** integer bounds on the anchor offset `(oi, oj)` (IJ) of every length-`n` digit list: it is a
lattice point of the closed quintant triangle, with the sharper one-sided bounds that depend on the
flips. -/
theorem anchor_offset_bounds (n : Nat) (ds : List Nat) (hds : ∀ d ∈ ds, d < 4) :
    let A := accumOffset n ds (0, 0) (Gen.NO, Gen.NO)
    let o := kjToIJ A.1
    0 ≤ o.1 ∧ 0 ≤ o.2 ∧ o.1 + o.2 ≤ 2 ^ n ∧
      (A.2.1 = 1 → o.1 + o.2 < 2 ^ n) ∧ (A.2.2 = -1 → 1 ≤ o.1) ∧ (A.2.1 = -1 → 1 ≤ o.2) := by
  intro A o
  have hF : IsFlip A.2 := accumOffset_isFlip n ds hds
  have hp := interiorPt_inT (K := ℚ) _ hF
  have hq := anchor_triangle_in_quintant (K := ℚ) n ds hds
    ((o.1 : ℚ) + (interiorPt A.2).1) ((o.2 : ℚ) + (interiorPt A.2).2)
    (InT_congr (by ring) (by ring) hp)
  obtain ⟨q1, q2, q3⟩ := hq
  have c2 : ((2 ^ n : Int) : ℚ) = 2 ^ n := by push_cast; rfl
  rcases hF with e | e | e | e <;> rewrite [e] at q1 q2 q3 <;> rewrite [e] <;>
    norm_num [interiorPt] at q1 q2 q3
  · have a1 : ((-1 : Int) : ℚ) < (o.1 : ℚ) := by push_cast; linarith
    have a2 : ((-1 : Int) : ℚ) < (o.2 : ℚ) := by push_cast; linarith
    have a3 : ((o.1 + o.2 : Int) : ℚ) < ((2 ^ n : Int) : ℚ) := by push_cast; linarith
    have := Int.cast_lt.mp a1; have := Int.cast_lt.mp a2; have := Int.cast_lt.mp a3
    refine ⟨by omega, by omega, by omega, by omega, by omega, by omega⟩
  · have a1 : ((0 : Int) : ℚ) < (o.1 : ℚ) := by push_cast; linarith
    have a2 : ((-1 : Int) : ℚ) < (o.2 : ℚ) := by push_cast; linarith
    have a3 : ((o.1 + o.2 : Int) : ℚ) < ((2 ^ n : Int) : ℚ) := by push_cast; linarith
    have := Int.cast_lt.mp a1; have := Int.cast_lt.mp a2; have := Int.cast_lt.mp a3
    refine ⟨by omega, by omega, by omega, by omega, by omega, by omega⟩
  · have a1 : ((-1 : Int) : ℚ) < (o.1 : ℚ) := by push_cast; linarith
    have a2 : ((0 : Int) : ℚ) < (o.2 : ℚ) := by push_cast; linarith
    have a3 : ((o.1 + o.2 : Int) : ℚ) < ((2 ^ n + 1 : Int) : ℚ) := by push_cast; linarith
    have := Int.cast_lt.mp a1; have := Int.cast_lt.mp a2; have := Int.cast_lt.mp a3
    refine ⟨by omega, by omega, by omega, by omega, by omega, by omega⟩
  · have a1 : ((0 : Int) : ℚ) < (o.1 : ℚ) := by push_cast; linarith
    have a2 : ((0 : Int) : ℚ) < (o.2 : ℚ) := by push_cast; linarith
    have a3 : ((o.1 + o.2 : Int) : ℚ) < ((2 ^ n + 1 : Int) : ℚ) := by push_cast; linarith
    have := Int.cast_lt.mp a1; have := Int.cast_lt.mp a2; have := Int.cast_lt.mp a3
    refine ⟨by omega, by omega, by omega, by omega, by omega, by omega⟩

/-! ## non-vacuity over `ℚ` -/

/-- the anchor of the digit list `[3,1]` (value `1·4 + 3 = 7`, depth 2): IJ offset `(1,2)`, flips `(YES,YES)` -/
example : (kjToIJ (accumOffset 2 [3, 1] (0, 0) (Gen.NO, Gen.NO)).1, (accumOffset 2 [3, 1] (0, 0) (Gen.NO, Gen.NO)).2)
    = ((1, 2), (Gen.YES, Gen.YES)) := by decide

/-- `locate_of_inTri` instantiated: the point `(2/3, 5/3) = (1,2) + (-1/3,-1/3)` lies in the anchor
triangle of `[3,1]`, hence is located at `[3,1]`. -/
example : locateDigits fieldLits (2 / 3 : ℚ) (5 / 3) 2 ((0 : ℚ), (0 : ℚ)) (Gen.NO, Gen.NO) [] = ([3, 1], (-1, -1)) := by
  have e : accumOffset 2 [3, 1] (0, 0) (Gen.NO, Gen.NO) = ((3, 2), (-1, -1)) := by decide
  have h := locate_of_inTri (K := ℚ) 2 [3, 1] rfl (by decide) (2 / 3) (5 / 3)
  rewrite [e] at h
  exact h (by rw [inT_mm]; norm_num [kjToIJ])

/-- the same fact by direct evaluation of the model in `ℚ` (independent of the theorem) -/
example : locateDigits fieldLits (2 / 3 : ℚ) (5 / 3) 2 ((0 : ℚ), (0 : ℚ)) (Gen.NO, Gen.NO) [] = ([3, 1], (-1, -1)) := by
  decide +kernel

/-- non-vacuity of `anchor_triangle_injective` / `anchor_offset_bounds`: `[3,1]` and `[1,3]` have different anchors -/
example : (kjToIJ (accumOffset 2 [1, 3] (0, 0) (Gen.NO, Gen.NO)).1, (accumOffset 2 [1, 3] (0, 0) (Gen.NO, Gen.NO)).2)
    ≠ (kjToIJ (accumOffset 2 [3, 1] (0, 0) (Gen.NO, Gen.NO)).1, (accumOffset 2 [3, 1] (0, 0) (Gen.NO, Gen.NO)).2) := by
  decide

end A5.HilbertLocate
