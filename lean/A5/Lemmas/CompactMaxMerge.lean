import A5.Lemmas.CompactMaxScan
/-! # What one scan does to a key-sorted antichain (core-only)

* `Merged L L'` : `L'` arises from `L` by replacing some disjoint *contiguous* complete sibling groups by their
  parents; `pscan_spec`: the scan output is such an `L'`, and it is shorter when the scan reports a change.
* `Merged.sameRegion`, `Merged.sorted`, `Merged.antichain`: the region, strict key order and the antichain
  property survive (T2).
* `siblings_adjacent` (T1): in a key-sorted antichain a complete sibling group is contiguous, in child order.
* `NoHead`: no position of the list is the head of a contiguous complete group; equivalent to the scan reporting
  `changed = false` and, for key-sorted antichains, to `NoCompleteGroup` (T3 core). -/
namespace A5.CompactMax
open A5 A5.Path A5.Canonical
open A5.Order (child)

/-- strictly increasing keys -/
def KeySorted (L : List Path) : Prop := L.Pairwise (fun a b => pkey a < pkey b)

/-- the loop invariant of `compact`: well-formed cells, pairwise non-overlapping, strictly key-sorted -/
structure Inv (L : List Path) : Prop where
  wf : ∀ p ∈ L, WF p
  anti : Antichain L
  sorted : KeySorted L

/-! ### `pscan` step lemmas -/

theorem pscan_skip (l₁ l₂ : List Path) (s : Nat) : pscan (l₁ ++ l₂) (l₁.length + s) = pscan l₂ s := by
  induction l₁ with
  | nil => simp only [List.nil_append, List.length_nil, Nat.zero_add]
  | cons a l ih =>
    have e : (a :: l).length + s = (l.length + s) + 1 := by simp only [List.length_cons]; omega
    rw [e, List.cons_append]
    simp only [pscan]
    exact ih

theorem pscan_head {p : Path} {rest : List Path} (h : isHead p rest = true) :
    ∃ post, p :: rest = children (parent p) ++ post ∧
      pscan (p :: rest) 0 = (parent p :: (pscan post 0).1, true) := by
  obtain ⟨post, hpost⟩ := (isHead_iff p rest).1 h
  refine ⟨post, hpost, ?_⟩
  have hrest : rest = sibs (parent p) 1 (fan (res (parent p)) - 1) ++ post := by
    rw [children_eq_cons, List.cons_append] at hpost
    injection hpost
  simp only [pscan]
  rw [if_pos h]
  have := pscan_skip (sibs (parent p) 1 (fan (res (parent p)) - 1)) post 0
  rw [length_sibs, Nat.add_zero, ← hrest] at this
  rw [this]

theorem pscan_nohead {p : Path} {rest : List Path} (h : isHead p rest = false) :
    pscan (p :: rest) 0 = (p :: (pscan rest 0).1, (pscan rest 0).2) := by
  simp only [pscan]
  rw [if_neg (by rw [h]; exact Bool.false_ne_true)]

/-! ### the relation "some contiguous complete groups merged" -/

inductive Merged : List Path → List Path → Prop
  | nil : Merged [] []
  | keep (p : Path) {L L' : List Path} : Merged L L' → Merged (p :: L) (p :: L')
  | merge (P : Path) {L L' : List Path} : WF P → res P ≤ 28 → Merged L L' → Merged (children P ++ L) (P :: L')

theorem length_children_ge (P : Path) : 4 ≤ (children P).length := by
  rw [length_children]; exact (A5.Order.fan_le _).1

theorem res_parent_le {p : Path} (hp : WF p) (hw : p ≠ world) : res (parent p) ≤ 28 := by
  have := res_children (mem_children_parent hp hw)
  have := res_le hp
  omega

/-- the scan output is a merge of the input; it is strictly shorter when a change is reported -/
theorem pscan_spec : ∀ (n : Nat) (L : List Path), L.length ≤ n → (∀ p ∈ L, WF p) →
    Merged L (pscan L 0).1 ∧ (pscan L 0).1.length ≤ L.length ∧
      ((pscan L 0).2 = true → (pscan L 0).1.length < L.length) := by
  intro n
  induction n with
  | zero =>
    intro L hn _
    have : L = [] := List.eq_nil_of_length_eq_zero (by omega)
    subst this
    exact ⟨Merged.nil, Nat.le_refl _, fun h => absurd h (by simp [pscan])⟩
  | succ n ih =>
    intro L hn hL
    cases L with
    | nil => exact ⟨Merged.nil, Nat.le_refl _, fun h => absurd h (by simp [pscan])⟩
    | cons p rest =>
      have hp : WF p := hL p (List.mem_cons_self ..)
      by_cases hh : isHead p rest = true
      · obtain ⟨post, hpost, hscan⟩ := pscan_head hh
        have hw := ne_world_of_isHead hh
        have hlen : (p :: rest).length = (children (parent p)).length + post.length := by
          rw [hpost, List.length_append]
        have h4 := length_children_ge (parent p)
        have hpostwf : ∀ q ∈ post, WF q := by
          intro q hq
          exact hL q (by rw [hpost]; exact List.mem_append_right _ hq)
        obtain ⟨i1, i2, _⟩ := ih post (by omega) hpostwf
        rw [hscan]
        refine ⟨?_, ?_, ?_⟩
        · rw [hpost]
          exact Merged.merge _ (wf_parent hp) (res_parent_le hp hw) i1
        · simp only [List.length_cons] at hlen ⊢; omega
        · intro _; simp only [List.length_cons] at hlen ⊢; omega
      · have hh' : isHead p rest = false := by
          cases h : isHead p rest with
          | false => rfl
          | true => exact absurd h hh
        have hrestwf : ∀ q ∈ rest, WF q := fun q hq => hL q (List.mem_cons_of_mem _ hq)
        obtain ⟨i1, i2, i3⟩ := ih rest (by simp only [List.length_cons] at hn; omega) hrestwf
        rw [pscan_nohead hh']
        refine ⟨Merged.keep p i1, ?_, ?_⟩
        · simp only [List.length_cons]; omega
        · intro h; have := i3 h; simp only [List.length_cons]; omega

/-- a member of the output is a member of the input or the parent of a complete group of the input -/
theorem Merged.mem {L L' : List Path} (h : Merged L L') :
    ∀ x ∈ L', x ∈ L ∨ (WF x ∧ res x ≤ 28 ∧ ∀ c ∈ children x, c ∈ L) := by
  induction h with
  | nil => intro x hx; simp at hx
  | keep p _ ih =>
    intro x hx
    rcases List.mem_cons.1 hx with rfl | hx
    · exact Or.inl (List.mem_cons_self ..)
    · rcases ih x hx with h | ⟨h1, h2, h3⟩
      · exact Or.inl (List.mem_cons_of_mem _ h)
      · exact Or.inr ⟨h1, h2, fun c hc => List.mem_cons_of_mem _ (h3 c hc)⟩
  | merge P hP hr _ ih =>
    intro x hx
    rcases List.mem_cons.1 hx with rfl | hx
    · exact Or.inr ⟨hP, hr, fun c hc => List.mem_append_left _ hc⟩
    · rcases ih x hx with h | ⟨h1, h2, h3⟩
      · exact Or.inl (List.mem_append_right _ h)
      · exact Or.inr ⟨h1, h2, fun c hc => List.mem_append_right _ (h3 c hc)⟩

theorem Merged.wf {L L' : List Path} (h : Merged L L') (hL : ∀ p ∈ L, WF p) : ∀ p ∈ L', WF p := by
  intro p hp
  rcases h.mem p hp with h | ⟨h, _, _⟩
  · exact hL p h
  · exact h

/-! ### the region -/

theorem covers_cons (p : Path) (L : List Path) (q : Path) : Covers (p :: L) q ↔ Below p q ∨ Covers L q := by
  constructor
  · rintro ⟨a, ha, hb⟩
    rcases List.mem_cons.1 ha with rfl | ha
    · exact Or.inl hb
    · exact Or.inr ⟨a, ha, hb⟩
  · rintro (h | ⟨a, ha, hb⟩)
    · exact ⟨p, List.mem_cons_self .., h⟩
    · exact ⟨a, List.mem_cons_of_mem _ ha, hb⟩

theorem covers_append (A B : List Path) (q : Path) : Covers (A ++ B) q ↔ Covers A q ∨ Covers B q := by
  constructor
  · rintro ⟨a, ha, hb⟩
    rcases List.mem_append.1 ha with ha | ha
    · exact Or.inl ⟨a, ha, hb⟩
    · exact Or.inr ⟨a, ha, hb⟩
  · rintro (⟨a, ha, hb⟩ | ⟨a, ha, hb⟩)
    · exact ⟨a, List.mem_append_left _ ha, hb⟩
    · exact ⟨a, List.mem_append_right _ ha, hb⟩

/-- a finest cell is below `P` iff it is below one of the children of `P` -/
theorem covers_children {P q : Path} (hr : res P ≤ 28) (hq : WF q) (hq29 : res q = 29) :
    Covers (children P) q ↔ Below P q := by
  constructor
  · rintro ⟨c, hc, hb⟩; exact below_trans (below_of_mem_children hc) hb
  · intro h
    have hne : P ≠ q := by intro e; subst e; omega
    obtain ⟨c, ⟨hc, hcq⟩, _⟩ := existsUnique_child_below hq h hne
    exact ⟨c, hc, hcq⟩

/-- **one scan preserves the covered region** -/
theorem Merged.sameRegion {L L' : List Path} (h : Merged L L') : SameRegion L L' := by
  induction h with
  | nil => exact sameRegion_refl _
  | keep p _ ih =>
    intro q hq hq29
    rw [covers_cons, covers_cons, ih q hq hq29]
  | merge P hP hr _ ih =>
    intro q hq hq29
    rw [covers_append, covers_cons, ih q hq hq29, covers_children hr hq hq29]

/-! ### strict key order -/

theorem child_zero_mem (P : Path) : child P 0 ∈ children P :=
  A5.Order.child_mem_children P 0 (A5.Canonical.fan_pos _)

theorem child_last_mem (P : Path) : child P (fan (res P) - 1) ∈ children P :=
  A5.Order.child_mem_children P _ (by have := A5.Canonical.fan_pos (res P); omega)

/-- all children keys lie between the first and the last child -/
theorem pkey_child_bounds {P c : Path} (hP : WF P) (hr : res P ≤ 28) (hc : c ∈ children P) :
    pkey (child P 0) ≤ pkey c ∧ pkey c ≤ pkey (child P (fan (res P) - 1)) := by
  obtain ⟨j, hj, rfl⟩ := (A5.Order.mem_children_iff _ _).1 hc
  constructor
  · by_cases h0 : j = 0
    · subst h0; exact Nat.le_refl _
    · exact Nat.le_of_lt (pkey_child_lt hP hr (by omega))
  · by_cases h0 : j = fan (res P) - 1
    · subst h0; exact Nat.le_refl _
    · exact Nat.le_of_lt (pkey_child_lt hP hr (by omega))

theorem Merged.key_gt {L L' : List Path} (h : Merged L L') (b : Nat) (hb : ∀ y ∈ L, b < pkey y) :
    ∀ x ∈ L', b < pkey x := by
  intro x hx
  rcases h.mem x hx with h | ⟨h1, h2, h3⟩
  · exact hb x h
  · have := hb _ (h3 _ (child_zero_mem x))
    have := (pkey_parent_between h1 h2).1
    omega

theorem keySorted_children {P : Path} (hP : WF P) (hr : res P ≤ 28) : KeySorted (children P) := by
  rw [A5.Order.children_eq_map_child]
  unfold KeySorted
  rw [List.pairwise_map]
  exact List.Pairwise.imp (fun h => pkey_child_lt hP hr h) List.pairwise_lt_range

/-- **no re-sorting needed**: one scan keeps the list strictly key-sorted -/
theorem Merged.sorted {L L' : List Path} (h : Merged L L') (hs : KeySorted L) : KeySorted L' := by
  induction h with
  | nil => exact hs
  | keep p hm ih =>
    have ⟨h1, h2⟩ := List.pairwise_cons.1 hs
    exact List.pairwise_cons.2 ⟨hm.key_gt _ h1, ih h2⟩
  | merge P hP hr hm ih =>
    obtain ⟨_, h2, h3⟩ := List.pairwise_append.1 hs
    refine List.pairwise_cons.2 ⟨?_, ih h2⟩
    intro x hx
    have := hm.key_gt _ (h3 _ (child_last_mem P)) x hx
    have := (pkey_parent_between hP hr).2
    omega

/-! ### the antichain property -/

theorem antichain_of_subset {A B : List Path} (h : ∀ x ∈ A, x ∈ B) (hB : Antichain B) : Antichain A :=
  fun p hp q hq hb => hB p (h p hp) q (h q hq) hb

theorem res_ne_of_mem_children {P c : Path} (hc : c ∈ children P) : P ≠ c := by
  intro e; have := res_children hc; rw [← e] at this; omega

/-- `Below P x` splits: `x` is `P` or lies below a child -/
theorem below_cases {P x : Path} (hx : WF x) (h : Below P x) : x = P ∨ ∃ c ∈ children P, Below c x := by
  by_cases e : P = x
  · exact Or.inl e.symm
  · obtain ⟨c, ⟨hc, hcx⟩, _⟩ := existsUnique_child_below hx h e
    exact Or.inr ⟨c, hc, hcx⟩

/-- **one scan keeps the cells pairwise non-overlapping** -/
theorem Merged.antichain {L L' : List Path} (h : Merged L L') (hwf : ∀ p ∈ L, WF p) (hs : KeySorted L)
    (ha : Antichain L) : Antichain L' := by
  induction h with
  | nil => exact ha
  | @keep p L L' hm ih =>
    have ⟨hk, hs'⟩ := List.pairwise_cons.1 hs
    have hwf' : ∀ q ∈ L, WF q := fun q hq => hwf q (List.mem_cons_of_mem _ hq)
    have haL : Antichain L := antichain_of_subset (fun x hx => List.mem_cons_of_mem _ hx) ha
    have ih' := ih hwf' hs' haL
    have hpL : ∀ z, z ∈ L → z = p → False := by
      intro z hz e; have := hk z hz; rw [e] at this; omega
    have hpp : p ∈ p :: L := List.mem_cons_self ..
    -- `p` against a member `y` of `L'`, in both directions
    have key : ∀ y ∈ L', (Below p y ∨ Below y p) → p = y := by
      intro y hy hcomp
      rcases hm.mem y hy with hyL | ⟨hywf, hyr, hych⟩
      · rcases hcomp with hb | hb
        · exact ha p hpp y (List.mem_cons_of_mem _ hyL) hb
        · exact (ha y (List.mem_cons_of_mem _ hyL) p hpp hb).symm
      · exfalso
        have hc0 := hych _ (child_zero_mem y)
        rcases hcomp with hb | hb
        · have := ha p hpp _ (List.mem_cons_of_mem _ hc0) (below_trans hb (below_of_mem_children (child_zero_mem y)))
          exact hpL _ hc0 this.symm
        · rcases below_cases (hwf p hpp) hb with e | ⟨c, hc, hcp⟩
          · have hb' : Below p (child y 0) := by rw [e]; exact below_of_mem_children (child_zero_mem y)
            have := ha p hpp _ (List.mem_cons_of_mem _ hc0) hb'
            exact hpL _ hc0 this.symm
          · have := ha c (List.mem_cons_of_mem _ (hych c hc)) p hpp hcp
            exact hpL c (hych c hc) this
    intro x hx y hy hb
    rcases List.mem_cons.1 hx with e1 | hx'
    · rcases List.mem_cons.1 hy with e2 | hy'
      · rw [e1, e2]
      · rw [e1] at hb ⊢; exact key y hy' (Or.inl hb)
    · rcases List.mem_cons.1 hy with e2 | hy'
      · rw [e2] at hb ⊢; exact (key x hx' (Or.inr hb)).symm
      · exact ih' x hx' y hy' hb
  | @merge P L L' hP hr hm ih =>
    obtain ⟨_, hs', hk⟩ := List.pairwise_append.1 hs
    have hwf' : ∀ q ∈ L, WF q := fun q hq => hwf q (List.mem_append_right _ hq)
    have haL : Antichain L := antichain_of_subset (fun x hx => List.mem_append_right _ hx) ha
    have ih' := ih hwf' hs' haL
    have hdisj : ∀ z, z ∈ children P → z ∈ L → False := by
      intro z hz hzL; have := hk z hz z hzL; omega
    have hc0 := child_zero_mem P
    have inl : ∀ {z}, z ∈ children P → z ∈ children P ++ L := fun h => List.mem_append_left _ h
    have inr : ∀ {z}, z ∈ L → z ∈ children P ++ L := fun h => List.mem_append_right _ h
    have key : ∀ y ∈ L', (Below P y ∨ Below y P) → P = y := by
      intro y hy hcomp
      exfalso
      rcases hm.mem y hy with hyL | ⟨hywf, hyr, hych⟩
      · rcases hcomp with hb | hb
        · rcases below_cases (hwf' y hyL) hb with e | ⟨c, hc, hcy⟩
          · rw [e] at hyL
            have := ha P (inr hyL) _ (inl hc0) (below_of_mem_children hc0)
            exact res_ne_of_mem_children hc0 this
          · have := ha c (inl hc) y (inr hyL) hcy
            rw [← this] at hyL
            exact hdisj c hc hyL
        · have := ha y (inr hyL) _ (inl hc0) (below_trans hb (below_of_mem_children hc0))
          rw [this] at hyL
          exact hdisj _ hc0 hyL
      · have hy0 := hych _ (child_zero_mem y)
        rcases hcomp with hb | hb
        · rcases below_cases hywf hb with e | ⟨c, hc, hcy⟩
          · rw [e] at hy0; exact hdisj _ hc0 hy0
          · have := ha c (inl hc) _ (inr hy0) (below_trans hcy (below_of_mem_children (child_zero_mem y)))
            rw [← this] at hy0
            exact hdisj c hc hy0
        · rcases below_cases hP hb with e | ⟨c, hc, hcP⟩
          · rw [← e] at hy0; exact hdisj _ hc0 hy0
          · have := ha c (inr (hych c hc)) _ (inl hc0) (below_trans hcP (below_of_mem_children hc0))
            have hcL := hych c hc
            rw [this] at hcL
            exact hdisj _ hc0 hcL
    intro x hx y hy hb
    rcases List.mem_cons.1 hx with e1 | hx'
    · rcases List.mem_cons.1 hy with e2 | hy'
      · rw [e1, e2]
      · rw [e1] at hb ⊢; exact key y hy' (Or.inl hb)
    · rcases List.mem_cons.1 hy with e2 | hy'
      · rw [e2] at hb ⊢; exact (key x hx' (Or.inr hb)).symm
      · exact ih' x hx' y hy' hb

/-- T2 (path level): a scan maps a key-sorted antichain to a key-sorted antichain -/
theorem Merged.inv {L L' : List Path} (h : Merged L L') (hi : Inv L) : Inv L' :=
  ⟨h.wf hi.wf, h.antichain hi.wf hi.sorted hi.anti, h.sorted hi.sorted⟩

/-! ### T1: complete sibling groups of a key-sorted antichain are contiguous -/

/-- in an antichain that contains all children of `P`, a member whose key lies between the first and the last
child is one of the children -/
theorem mem_children_of_key_between {L : List Path} (hwf : ∀ p ∈ L, WF p) (ha : Antichain L) {P : Path}
    (hP : WF P) (hr : res P ≤ 28) (hall : ∀ c ∈ children P, c ∈ L) {x : Path} (hx : x ∈ L)
    (h1 : pkey (child P 0) ≤ pkey x) (h2 : pkey x ≤ pkey (child P (fan (res P) - 1))) : x ∈ children P := by
  have hc0 := child_zero_mem P
  have hcl := child_last_mem P
  have hxwf := hwf x hx
  by_cases e1 : pkey (child P 0) = pkey x
  · rw [← pkey_inj (wf_children hP (by omega) hc0) hxwf e1]; exact hc0
  by_cases e2 : pkey x = pkey (child P (fan (res P) - 1))
  · rw [pkey_inj hxwf (wf_children hP (by omega) hcl) e2]; exact hcl
  rcases comparable_of_pkey_between hP hr hxwf (by omega) (by omega) with hb | hb
  · rcases below_cases hxwf hb with e | ⟨c, hc, hcx⟩
    · exfalso
      rw [e] at hx
      exact res_ne_of_mem_children hc0 (ha P hx _ (hall _ hc0) (below_of_mem_children hc0))
    · rw [← ha c (hall c hc) x hx hcx]; exact hc
  · rw [ha x hx _ (hall _ hc0) (below_trans hb (below_of_mem_children hc0))]; exact hc0

/-- a strictly sorted list `m₀ :: M` whose members all occur in the strictly sorted list `m₀ :: L`, and which
contains every member of `L` that is at most as large as one of its own, is a prefix -/
theorem sorted_prefix {α : Type} (key : α → Nat) : ∀ (M L : List α) (m₀ : α),
    (m₀ :: M).Pairwise (fun a b => key a < key b) → (m₀ :: L).Pairwise (fun a b => key a < key b) →
    (∀ m ∈ M, m ∈ L) → (∀ x ∈ L, (∃ m ∈ M, key x ≤ key m) → x ∈ M) → ∃ post, L = M ++ post := by
  intro M
  induction M with
  | nil => intro L _ _ _ _ _; exact ⟨L, rfl⟩
  | cons m₁ M ih =>
    intro L m₀ hM hL hsub hconv
    have hM' := hM.of_cons
    have hL' := hL.of_cons
    have hm₁L : m₁ ∈ L := hsub m₁ (List.mem_cons_self ..)
    cases L with
    | nil => simp at hm₁L
    | cons b L =>
      have hb1 : key b ≤ key m₁ := by
        rcases List.mem_cons.1 hm₁L with e | h
        · rw [e]; exact Nat.le_refl _
        · exact Nat.le_of_lt (List.rel_of_pairwise_cons hL' h)
      have hbM : b ∈ m₁ :: M := hconv b (List.mem_cons_self ..) ⟨m₁, List.mem_cons_self .., hb1⟩
      have hbe : b = m₁ := by
        rcases List.mem_cons.1 hbM with e | h
        · exact e
        · have := List.rel_of_pairwise_cons hM' h; omega
      subst hbe
      obtain ⟨post, hpost⟩ := ih L b hM' hL' (by
          intro m hm
          rcases List.mem_cons.1 (hsub m (List.mem_cons_of_mem _ hm)) with e | h
          · have := List.rel_of_pairwise_cons hM' hm; rw [e] at this; omega
          · exact h) (by
          rintro x hx ⟨m, hm, hle⟩
          rcases List.mem_cons.1 (hconv x (List.mem_cons_of_mem _ hx) ⟨m, List.mem_cons_of_mem _ hm, hle⟩) with e | h
          · have := List.rel_of_pairwise_cons hL' hx; rw [e] at this; omega
          · exact h)
      exact ⟨post, by rw [hpost, List.cons_append]⟩

/-- **T1.**  In a key-sorted antichain, if all children of `P` are present they occupy consecutive positions,
in child order, starting with the first child. -/
theorem siblings_adjacent {L : List Path} (hi : Inv L) {P : Path} (hP : WF P) (hr : res P ≤ 28)
    (hall : ∀ c ∈ children P, c ∈ L) : ∃ pre post, L = pre ++ children P ++ post := by
  have hc0 := child_zero_mem P
  obtain ⟨pre, post₁, hL⟩ := List.append_of_mem (hall _ hc0)
  have hs : KeySorted (pre ++ child P 0 :: post₁) := hL ▸ hi.sorted
  obtain ⟨_, hs2, hs3⟩ := List.pairwise_append.1 hs
  have hsc : KeySorted (child P 0 :: sibs P 1 (fan (res P) - 1)) := by
    rw [← children_eq_cons]; exact keySorted_children hP hr
  have hmemc : ∀ m, m ∈ sibs P 1 (fan (res P) - 1) → m ∈ children P := by
    intro m hm; rw [children_eq_cons]; exact List.mem_cons_of_mem _ hm
  obtain ⟨post, hpost⟩ := sorted_prefix pkey (sibs P 1 (fan (res P) - 1)) post₁ (child P 0) hsc hs2 (by
      intro m hm
      have hk := List.rel_of_pairwise_cons hsc hm
      have hmL := hall m (hmemc m hm)
      rw [hL] at hmL
      rcases List.mem_append.1 hmL with h | h
      · have := hs3 m h _ (List.mem_cons_self ..); omega
      · rcases List.mem_cons.1 h with e | h
        · rw [e] at hk; omega
        · exact h) (by
      rintro x hx ⟨m, hm, hle⟩
      have hxL : x ∈ L := by rw [hL]; exact List.mem_append_right _ (List.mem_cons_of_mem _ hx)
      have hk := List.rel_of_pairwise_cons hs2 hx
      have hmb := (pkey_child_bounds hP hr (hmemc m hm)).2
      have := mem_children_of_key_between hi.wf hi.anti hP hr hall hxL (by omega) (by omega)
      rw [children_eq_cons] at this
      rcases List.mem_cons.1 this with e | h
      · rw [e] at hk; omega
      · exact h)
  refine ⟨pre, post, ?_⟩
  rw [hL, hpost, children_eq_cons]
  simp only [List.append_assoc, List.cons_append]

/-! ### lists on which the scan finds nothing -/

/-- no position is the head of a contiguous complete sibling group -/
def NoHead (L : List Path) : Prop := ∀ pre p rest, L = pre ++ p :: rest → isHead p rest = false

theorem NoHead.tail {p : Path} {L : List Path} (h : NoHead (p :: L)) : NoHead L :=
  fun pre q rest e => h (p :: pre) q rest (by rw [e, List.cons_append])

/-- the scan reports "unchanged" exactly on the lists without head, and then returns its input -/
theorem pscan_of_noHead (L : List Path) (h : NoHead L) : pscan L 0 = (L, false) := by
  induction L with
  | nil => rfl
  | cons p rest ih =>
    rw [pscan_nohead (h [] p rest rfl), ih h.tail]

theorem noHead_of_pscan (L : List Path) (h : (pscan L 0).2 = false) : NoHead L ∧ (pscan L 0).1 = L := by
  induction L with
  | nil => exact ⟨fun pre p rest e => by simp at e, rfl⟩
  | cons p rest ih =>
    by_cases hh : isHead p rest = true
    · obtain ⟨post, _, hscan⟩ := pscan_head hh
      rw [hscan] at h; exact absurd h (by simp)
    · have hh' : isHead p rest = false := by
        cases e : isHead p rest with
        | false => rfl
        | true => exact absurd e hh
      rw [pscan_nohead hh'] at h ⊢
      obtain ⟨i1, i2⟩ := ih h
      refine ⟨?_, by rw [i2]⟩
      intro pre q rest' e
      cases pre with
      | nil => simp only [List.nil_append] at e; injection e with e1 e2; rw [← e1, ← e2]; exact hh'
      | cons a pre => rw [List.cons_append] at e; injection e with _ e2; exact i1 pre q rest' e2

/-- a head is a complete group -/
theorem noHead_of_noCompleteGroup {L : List Path} (hwf : ∀ p ∈ L, WF p) (h : NoCompleteGroup L) : NoHead L := by
  intro pre p rest e
  cases hh : isHead p rest with
  | false => rfl
  | true =>
    exfalso
    obtain ⟨post, hpost⟩ := (isHead_iff p rest).1 hh
    have hp : WF p := hwf p (by rw [e]; exact List.mem_append_right _ (List.mem_cons_self ..))
    refine h ⟨parent p, wf_parent hp, res_parent_le hp (ne_world_of_isHead hh), ?_⟩
    intro c hc
    rw [e, hpost]
    exact List.mem_append_right _ (List.mem_append_left _ hc)

/-- **T3 core**: in a key-sorted antichain without head there is no complete sibling group at all -/
theorem noCompleteGroup_of_noHead {L : List Path} (hi : Inv L) (h : NoHead L) : NoCompleteGroup L := by
  rintro ⟨P, hP, hr, hall⟩
  obtain ⟨pre, post, hL⟩ := siblings_adjacent hi hP hr hall
  have hpar : parent (child P 0) = P := (parent_unique (child_zero_mem P)).symm
  have hhead : isHead (child P 0) (sibs P 1 (fan (res P) - 1) ++ post) = true := by
    rw [isHead_iff, hpar]
    exact ⟨post, by rw [children_eq_cons, List.cons_append]⟩
  have := h pre (child P 0) (sibs P 1 (fan (res P) - 1) ++ post) (by
    rw [hL, children_eq_cons]; simp only [List.append_assoc, List.cons_append])
  rw [this] at hhead
  exact Bool.false_ne_true hhead

end A5.CompactMax
