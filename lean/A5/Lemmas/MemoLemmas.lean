import A5.Model.Memo
/-! # Lemmas about the memo state machine (`A5/Model/Memo.lean`) used by property C13.

Core only.  All layout facts are obtained by unfolding the *generated* constants of `A5.Gen`, so a
change of an offset / stride / table length in the Rust source breaks these proofs after regeneration. -/
namespace A5.Memo
open A5 A5.Gen

/-- Unfold the generated layout constants to their literals (for `omega`). -/
macro "memo_consts" : tactic =>
  `(tactic| simp only [MEMO_FACE_SLOTS, MEMO_SPH_SLOTS, MEMO_FACE_SQUASHED_OFFSET, MEMO_FACE_REFLECTED_OFFSET,
      MEMO_SPH_STRIDE, MEMO_SPH_REFLECTED_OFFSET, FACE_TRIANGLE_MAX, NUM_ORIGINS_WORLD, CRS_WARN_AT,
      CRS_LOOKUPS_PER_TRIANGLE] at *)

/-! ## list facts -/

theorem getD_set_eq {α} (l : List α) (i : Nat) (x d : α) (h : i < l.length) : (l.set i x).getD i d = x := by
  simp [List.getD_eq_getElem?_getD, h]

theorem getD_set_ne {α} (l : List α) (i j : Nat) (x d : α) (h : i ≠ j) : (l.set i x).getD j d = l.getD j d := by
  simp [List.getD_eq_getElem?_getD, h]

theorem getD_replicate_none {α} (n i : Nat) : (List.replicate n (none : Option α)).getD i none = none := by
  simp only [List.getD_eq_getElem?_getD, List.getElem?_replicate]
  split <;> rfl

theorem countP_set_fill {α} (l : List (Option α)) (i : Nat) (x : α) (h : i < l.length)
    (hn : l.getD i none = none) : (l.set i (some x)).countP Option.isSome = l.countP Option.isSome + 1 := by
  induction l generalizing i with
  | nil => simp at h
  | cons a t ih =>
    cases i with
    | zero =>
      have : a = none := by simpa using hn
      subst this
      simp
    | succ j =>
      have hj : j < t.length := by simpa using h
      have hn' : t.getD j none = none := by simpa using hn
      simp only [List.set_cons_succ, List.countP_cons, ih j hj hn']
      omega

/-! ## T1: the slot functions -/

theorem slotF_lt (k : FKey) (hk : k.idx ≤ FACE_TRIANGLE_MAX) : slotF k < MEMO_FACE_SLOTS := by
  unfold slotF; memo_consts; repeat' split
  all_goals omega

theorem slotS_lt (k : SKey) (hk : k.idx ≤ FACE_TRIANGLE_MAX) (ho : k.origin < NUM_ORIGINS_WORLD) :
    slotS k < MEMO_SPH_SLOTS := by
  unfold slotS; memo_consts; split <;> omega

/-- Two in-range face keys share a slot only if they agree on index and reflection and, when reflected,
on squashing. -/
theorem slotF_inj (k k' : FKey) (hk : k.idx ≤ FACE_TRIANGLE_MAX) (hk' : k'.idx ≤ FACE_TRIANGLE_MAX)
    (h : slotF k = slotF k') :
    k.idx = k'.idx ∧ k.reflected = k'.reflected ∧ (k.reflected = true → k.squashed = k'.squashed) := by
  obtain ⟨i, r, q⟩ := k
  obtain ⟨i', r', q'⟩ := k'
  unfold slotF at h
  memo_consts
  cases r <;> cases r' <;> cases q <;> cases q' <;> simp at h ⊢ <;> omega

theorem slotS_inj (k k' : SKey) (hk : k.idx ≤ FACE_TRIANGLE_MAX) (ho : k.origin < NUM_ORIGINS_WORLD)
    (hk' : k'.idx ≤ FACE_TRIANGLE_MAX) (ho' : k'.origin < NUM_ORIGINS_WORLD) (h : slotS k = slotS k') : k = k' := by
  obtain ⟨o, i, r⟩ := k
  obtain ⟨o', i', r'⟩ := k'
  unfold slotS at h
  memo_consts
  cases r <;> cases r' <;> simp at h ⊢ <;> omega

/-! ## well-formed parameters, the invariant -/

section
variable {FT ST Args Res : Type}

/-- What the proofs need to know about the pure ingredients: the origin table has the documented
size, and an unreflected face triangle does not depend on the `squashed` flag
(`get_base_face_triangle` does not take it). -/
structure Params.WF (P : Params FT ST Args Res) : Prop where
  numOrigins_eq : P.numOrigins = NUM_ORIGINS_WORLD
  faceVal_unreflected : ∀ i s s', P.faceVal ⟨i, false, s⟩ = P.faceVal ⟨i, false, s'⟩

/-- The pure value of a spherical-triangle key (for an in-range key). -/
def sphVal (P : Params FT ST Args Res) (k : SKey) : Outcome ST × Nat :=
  P.sphFrom (P.faceVal ⟨k.idx, k.reflected, true⟩) k

/-- Every filled slot holds the pure value of every in-range key that maps to it. -/
structure Inv (P : Params FT ST Args Res) (s : MemoState FT ST) : Prop where
  lenF : s.faces.length = MEMO_FACE_SLOTS
  lenS : s.sph.length = MEMO_SPH_SLOTS
  faceOk : ∀ (k : FKey) (v : FT), k.idx ≤ FACE_TRIANGLE_MAX → s.faces.getD (slotF k) none = some v → v = P.faceVal k
  sphOk : ∀ (k : SKey) (v : ST), k.idx ≤ FACE_TRIANGLE_MAX → k.origin < P.numOrigins →
    s.sph.getD (slotS k) none = some v → (sphVal P k).1 = .ok v

variable {P : Params FT ST Args Res}

theorem faceVal_of_slot_eq (hw : P.WF) (k k' : FKey) (hk : k.idx ≤ FACE_TRIANGLE_MAX)
    (hk' : k'.idx ≤ FACE_TRIANGLE_MAX) (h : slotF k = slotF k') : P.faceVal k = P.faceVal k' := by
  obtain ⟨hi, hr, hq⟩ := slotF_inj k k' hk hk' h
  obtain ⟨i, r, q⟩ := k
  obtain ⟨i', r', q'⟩ := k'
  simp only at hi hr hq
  subst hi; subst hr
  cases r with
  | false => exact hw.faceVal_unreflected _ _ _
  | true => rw [hq rfl]

theorem inv_init : Inv P (init : MemoState FT ST) where
  lenF := by simp [init]
  lenS := by simp [init]
  faceOk := by intro k v _ h; simp only [init, getD_replicate_none] at h; cases h
  sphOk := by intro k v _ _ h; simp only [init, getD_replicate_none] at h; cases h

theorem pureFace_ok (P : Params FT ST Args Res) (k : FKey) (hk : k.idx ≤ FACE_TRIANGLE_MAX) :
    pureFace P k = .ok (P.faceVal k) := by
  unfold pureFace
  rw [if_neg (Nat.not_lt.mpr hk), if_neg (Nat.not_le.mpr (slotF_lt k hk))]

theorem pureFace_err (P : Params FT ST Args Res) (k : FKey) (hk : FACE_TRIANGLE_MAX < k.idx) :
    pureFace P k = .err .other := by
  unfold pureFace
  rw [if_pos hk]

/-- `get_face_triangle` on an in-range key returns the pure value, keeps the invariant and touches
neither the spherical table nor the CRS counter. -/
theorem getFace_spec (hw : P.WF) {s : MemoState FT ST} (hs : Inv P s) (k : FKey) (hk : k.idx ≤ FACE_TRIANGLE_MAX) :
    ∃ s1, getFaceTriangle P s k = (s1, .ok (P.faceVal k)) ∧ Inv P s1 ∧ s1.sph = s.sph ∧ s1.crsCalls = s.crsCalls := by
  have hlt : slotF k < s.faces.length := by rw [hs.lenF]; exact slotF_lt k hk
  unfold getFaceTriangle
  rw [if_neg (Nat.not_lt.mpr hk), if_neg (Nat.not_le.mpr hlt)]
  cases hget : s.faces.getD (slotF k) none with
  | some v =>
    refine ⟨s, ?_, hs, rfl, rfl⟩
    rw [hs.faceOk k v hk hget]
  | none =>
    refine ⟨_, rfl, ?_, rfl, rfl⟩
    refine ⟨by simp [hs.lenF], hs.lenS, ?_, hs.sphOk⟩
    intro k' v hk' h
    by_cases he : slotF k = slotF k'
    · rw [← he, getD_set_eq _ _ _ _ hlt] at h
      cases h
      exact faceVal_of_slot_eq hw k k' hk hk' he
    · rw [getD_set_ne _ _ _ _ _ he] at h
      exact hs.faceOk k' v hk' h

theorem getFace_err (P : Params FT ST Args Res) (s : MemoState FT ST) (k : FKey) (hk : FACE_TRIANGLE_MAX < k.idx) :
    getFaceTriangle P s k = (s, .err .other) := by
  unfold getFaceTriangle
  rw [if_pos hk]

/-- Result of `get_spherical_triangle` (called, as in `forward`/`inverse`, with an index that already
passed `get_face_triangle`): it equals the stateless value provided the origin is valid, or the slot is
out of the table, or the slot is empty.  (The remaining case — invalid origin whose slot index aliases a
filled slot of a valid key — is the finding documented in `A5/Props/C13.lean`.) -/
theorem getSph_res (hw : P.WF) {s : MemoState FT ST} (hs : Inv P s) (k : SKey) (hk : k.idx ≤ FACE_TRIANGLE_MAX)
    (h : k.origin < P.numOrigins ∨ MEMO_SPH_SLOTS ≤ slotS k ∨ s.sph.getD (slotS k) none = none) :
    (getSphericalTriangle P s k).2 = pureSph P k := by
  unfold getSphericalTriangle pureSph
  rw [hs.lenS]
  by_cases hb : MEMO_SPH_SLOTS ≤ slotS k
  · rw [if_pos hb, if_pos hb]
  · rw [if_neg hb, if_neg hb]
    cases hget : s.sph.getD (slotS k) none with
    | some v =>
      have ho : k.origin < P.numOrigins := by
        rcases h with h | h | h
        · exact h
        · exact absurd h hb
        · rw [hget] at h; cases h
      rw [if_neg (Nat.not_le.mpr ho), pureFace_ok P _ hk]
      exact (hs.sphOk k v hk ho hget).symm
    | none =>
      unfold computeSphericalTriangle
      by_cases ho : P.numOrigins ≤ k.origin
      · rw [if_pos ho, if_pos ho]
      · rw [if_neg ho, if_neg ho, pureFace_ok P _ hk]
        obtain ⟨s1, he, _, _, _⟩ := getFace_spec hw hs ⟨k.idx, k.reflected, true⟩ hk
        rw [he]
        simp only
        cases (P.sphFrom (P.faceVal ⟨k.idx, k.reflected, true⟩) k).1 <;> rfl

/-- `get_spherical_triangle` on an in-range key whose slot is empty: nested face lookup, the CRS
lookups are counted, and the triangle is stored iff the computation succeeded (a failure is NOT cached). -/
theorem getSph_fill (hw : P.WF) {s : MemoState FT ST} (hs : Inv P s) (k : SKey)
    (hk : k.idx ≤ FACE_TRIANGLE_MAX) (ho : k.origin < P.numOrigins) (hget : s.sph.getD (slotS k) none = none) :
    ∃ s1, Inv P s1 ∧ s1.sph = s.sph ∧ s1.crsCalls = s.crsCalls ∧
      ((∃ st, (sphVal P k).1 = .ok st ∧ (getSphericalTriangle P s k).1 =
          ⟨s1.faces, s1.sph.set (slotS k) (some st), s1.crsCalls + (sphVal P k).2⟩) ∨
       ((∀ st, (sphVal P k).1 ≠ .ok st) ∧ (getSphericalTriangle P s k).1 =
          ⟨s1.faces, s1.sph, s1.crsCalls + (sphVal P k).2⟩)) := by
  have hb : ¬ MEMO_SPH_SLOTS ≤ slotS k :=
    Nat.not_le.mpr (slotS_lt k hk (by rw [← hw.numOrigins_eq]; exact ho))
  unfold getSphericalTriangle
  rw [hs.lenS, if_neg hb, hget]
  simp only
  unfold computeSphericalTriangle
  rw [if_neg (Nat.not_le.mpr ho)]
  obtain ⟨s1, he, hi1, hsph, hcrs⟩ := getFace_spec hw hs ⟨k.idx, k.reflected, true⟩ hk
  refine ⟨s1, hi1, hsph, hcrs, ?_⟩
  rw [he]
  simp only [sphVal]
  cases hv : (P.sphFrom (P.faceVal ⟨k.idx, k.reflected, true⟩) k).1 with
  | ok st => left; exact ⟨st, rfl, rfl⟩
  | err e => right; exact ⟨fun st h => (nomatch h), rfl⟩
  | panic p => right; exact ⟨fun st h => (nomatch h), rfl⟩

/-- In every other situation (slot outside the table, hit, invalid origin, invalid index) the state is untouched. -/
theorem getSph_same (P : Params FT ST Args Res) (s : MemoState FT ST) (k : SKey)
    (h : ¬ (k.idx ≤ FACE_TRIANGLE_MAX ∧ k.origin < P.numOrigins ∧ s.sph.getD (slotS k) none = none)) :
    (getSphericalTriangle P s k).1 = s := by
  unfold getSphericalTriangle
  split
  · rfl
  · cases hget : s.sph.getD (slotS k) none with
    | some v => rfl
    | none =>
      simp only
      unfold computeSphericalTriangle
      by_cases ho : P.numOrigins ≤ k.origin
      · rw [if_pos ho]
      · rw [if_neg ho]
        have hk : FACE_TRIANGLE_MAX < k.idx := by
          apply Nat.lt_of_not_le
          intro hk
          exact h ⟨hk, Nat.not_le.mp ho, hget⟩
        rw [getFace_err P s _ hk]

theorem getSph_inv (hw : P.WF) {s : MemoState FT ST} (hs : Inv P s) (k : SKey) :
    Inv P (getSphericalTriangle P s k).1 := by
  by_cases h : k.idx ≤ FACE_TRIANGLE_MAX ∧ k.origin < P.numOrigins ∧ s.sph.getD (slotS k) none = none
  · obtain ⟨hk, ho, hget⟩ := h
    obtain ⟨s1, hi1, hsph, _, hcase⟩ := getSph_fill hw hs k hk ho hget
    have hlt : slotS k < s1.sph.length := by
      rw [hi1.lenS]; exact slotS_lt k hk (by rw [← hw.numOrigins_eq]; exact ho)
    rcases hcase with ⟨st, hv, he⟩ | ⟨_, he⟩
    · rw [he]
      refine ⟨hi1.lenF, by simp [hi1.lenS], hi1.faceOk, ?_⟩
      intro k' v hk' ho' h'
      simp only at h'
      by_cases hsl : slotS k = slotS k'
      · have hkk : k = k' := slotS_inj k k' hk (by rw [← hw.numOrigins_eq]; exact ho) hk'
          (by rw [← hw.numOrigins_eq]; exact ho') hsl
        subst hkk
        rw [getD_set_eq _ _ _ _ hlt] at h'
        cases h'
        exact hv
      · rw [getD_set_ne _ _ _ _ _ hsl] at h'
        exact hi1.sphOk k' v hk' ho' h'
    · rw [he]
      exact ⟨hi1.lenF, hi1.lenS, hi1.faceOk, hi1.sphOk⟩
  · rw [getSph_same P s k h]; exact hs

/-! ## the CRS counter -/

/-- The counter is paid for by filled slots. -/
def CrsInv (s : MemoState FT ST) : Prop := s.crsCalls ≤ CRS_LOOKUPS_PER_TRIANGLE * sphFilled s

/-- Hypothesis of T4 (a finite fact about the float model, checked by evaluation): for each of the
in-range keys the three CRS lookups succeed. -/
structure SphTotal (P : Params FT ST Args Res) : Prop where
  ok : ∀ k : SKey, k.idx ≤ FACE_TRIANGLE_MAX → k.origin < P.numOrigins → ∃ st, (sphVal P k).1 = .ok st
  cnt : ∀ k : SKey, k.idx ≤ FACE_TRIANGLE_MAX → k.origin < P.numOrigins → (sphVal P k).2 ≤ CRS_LOOKUPS_PER_TRIANGLE

theorem getSph_crs (hw : P.WF) (ht : SphTotal P) {s : MemoState FT ST} (hs : Inv P s) (hc : CrsInv s) (k : SKey) :
    CrsInv (getSphericalTriangle P s k).1 := by
  by_cases h : k.idx ≤ FACE_TRIANGLE_MAX ∧ k.origin < P.numOrigins ∧ s.sph.getD (slotS k) none = none
  · obtain ⟨hk, ho, hget⟩ := h
    obtain ⟨s1, hi1, hsph, hcrs, hcase⟩ := getSph_fill hw hs k hk ho hget
    have hlt : slotS k < s1.sph.length := by
      rw [hi1.lenS]; exact slotS_lt k hk (by rw [← hw.numOrigins_eq]; exact ho)
    rcases hcase with ⟨st, hv, he⟩ | ⟨hno, _⟩
    · rw [he]
      unfold CrsInv sphFilled at hc ⊢
      simp only
      rw [countP_set_fill _ _ _ hlt (by rw [hsph]; exact hget), hsph, hcrs]
      have := ht.cnt k hk ho
      rw [Nat.mul_add]
      omega
    · obtain ⟨st, hv⟩ := ht.ok k hk ho
      exact absurd hv (hno st)
  · rw [getSph_same P s k h]; exact hc

theorem sphFilled_le {s : MemoState FT ST} (hs : Inv P s) : sphFilled s ≤ MEMO_SPH_SLOTS := by
  unfold sphFilled; rw [← hs.lenS]; exact List.countP_le_length

/-! ## calls -/

/-- State after the common tail of `forward`/`inverse` for a valid index: the state after
`get_spherical_triangle` run from a state that differs from `s` by at most one face slot. -/
theorem callCore_fill (hw : P.WF) {s : MemoState FT ST} (hs : Inv P s) (a : Args)
    (hk : (P.classify a).idx ≤ FACE_TRIANGLE_MAX) :
    ∃ s1, Inv P s1 ∧ s1.sph = s.sph ∧ s1.crsCalls = s.crsCalls ∧
      (callCore P s a).1 = (getSphericalTriangle P s1 (P.classify a)).1 := by
  obtain ⟨s1, he, hi1, hsph, hcrs⟩ := getFace_spec hw hs ⟨(P.classify a).idx, (P.classify a).reflected, false⟩ hk
  refine ⟨s1, hi1, hsph, hcrs, ?_⟩
  unfold callCore
  rw [he]
  simp only
  cases getSphericalTriangle P s1 (P.classify a) with
  | mk s2 r => cases r <;> rfl

theorem callCore_state (hw : P.WF) {s : MemoState FT ST} (hs : Inv P s) (a : Args) :
    (callCore P s a).1 = s ∨
    ∃ s1, Inv P s1 ∧ s1.sph = s.sph ∧ s1.crsCalls = s.crsCalls ∧
      (callCore P s a).1 = (getSphericalTriangle P s1 (P.classify a)).1 := by
  by_cases hk : (P.classify a).idx ≤ FACE_TRIANGLE_MAX
  · right; exact callCore_fill hw hs a hk
  · left
    unfold callCore
    rw [getFace_err P s _ (Nat.not_le.mp hk)]

theorem callCore_inv (hw : P.WF) {s : MemoState FT ST} (hs : Inv P s) (a : Args) : Inv P (callCore P s a).1 := by
  rcases callCore_state hw hs a with h | ⟨s1, hi1, _, _, h⟩
  · rw [h]; exact hs
  · rw [h]; exact getSph_inv hw hi1 _

theorem callCore_crs (hw : P.WF) (ht : SphTotal P) {s : MemoState FT ST} (hs : Inv P s) (hc : CrsInv s) (a : Args) :
    CrsInv (callCore P s a).1 := by
  rcases callCore_state hw hs a with h | ⟨s1, hi1, hsph, hcrs, h⟩
  · rw [h]; exact hc
  · rw [h]
    refine getSph_crs hw ht hi1 ?_ _
    unfold CrsInv sphFilled at hc ⊢
    rw [hsph, hcrs]; exact hc

/-- With a valid origin the common tail returns the stateless value. -/
theorem callCore_res (hw : P.WF) {s : MemoState FT ST} (hs : Inv P s) (a : Args)
    (ho : (P.classify a).origin < P.numOrigins) : (callCore P s a).2 = pureCall P a := by
  unfold pureCall
  rw [if_neg (Nat.not_le.mpr ho)]
  by_cases hk : (P.classify a).idx ≤ FACE_TRIANGLE_MAX
  · obtain ⟨s1, he, hi1, _, _⟩ := getFace_spec hw hs ⟨(P.classify a).idx, (P.classify a).reflected, false⟩ hk
    have hres := getSph_res hw hi1 (P.classify a) hk (Or.inl ho)
    unfold callCore
    rw [he, pureFace_ok P _ hk, ← hres]
    simp only
    cases getSphericalTriangle P s1 (P.classify a) with
    | mk s2 r => cases r <;> rfl
  · unfold callCore
    rw [getFace_err P s _ (Nat.not_le.mp hk), pureFace_err P _ (Nat.not_le.mp hk)]

theorem call_inv (hw : P.WF) {s : MemoState FT ST} (hs : Inv P s) (a : Args) : Inv P (call P s a).1 := by
  unfold call; split
  · exact hs
  · exact callCore_inv hw hs a

theorem call_res (hw : P.WF) {s : MemoState FT ST} (hs : Inv P s) (a : Args) : (call P s a).2 = pureCall P a := by
  unfold call
  by_cases ho : P.numOrigins ≤ (P.classify a).origin
  · rw [if_pos ho]; unfold pureCall; rw [if_pos ho]
  · rw [if_neg ho]; exact callCore_res hw hs a (Nat.not_le.mp ho)

theorem call_crs (hw : P.WF) (ht : SphTotal P) {s : MemoState FT ST} (hs : Inv P s) (hc : CrsInv s) (a : Args) :
    CrsInv (call P s a).1 := by
  unfold call; split
  · exact hc
  · exact callCore_crs hw ht hs hc a

/-- Honest residue of T4: a *failing* spherical-triangle computation is not cached, so every repetition of
the call pays its CRS lookups again (and returns the same error). -/
theorem call_fail_grows (hw : P.WF) {s : MemoState FT ST} (hs : Inv P s) (a : Args)
    (hk : (P.classify a).idx ≤ FACE_TRIANGLE_MAX) (ho : (P.classify a).origin < P.numOrigins)
    (hf : ∀ st, (sphVal P (P.classify a)).1 ≠ .ok st) :
    (call P s a).1.crsCalls = s.crsCalls + (sphVal P (P.classify a)).2 ∧ (call P s a).1.sph = s.sph := by
  unfold call
  rw [if_neg (Nat.not_le.mpr ho)]
  obtain ⟨s1, hi1, hsph, hcrs, he⟩ := callCore_fill hw hs a hk
  have hget : s1.sph.getD (slotS (P.classify a)) none = none := by
    cases hg : s1.sph.getD (slotS (P.classify a)) none with
    | none => rfl
    | some v => exact absurd (hi1.sphOk _ v hk ho hg) (hf v)
  obtain ⟨s2, _, hsph2, hcrs2, hcase⟩ := getSph_fill hw hi1 (P.classify a) hk ho hget
  rcases hcase with ⟨st, hv, _⟩ | ⟨_, he2⟩
  · exact absurd hv (hf st)
  · rw [he, he2]
    exact ⟨by simp only [hcrs2, hcrs], by simp only [hsph2, hsph]⟩

theorem callV062_inv (hw : P.WF) (isInv : Args → Bool) {s : MemoState FT ST} (hs : Inv P s) (a : Args) :
    Inv P (callV062 P isInv s a).1 := by
  unfold callV062; split
  · exact hs
  · exact callCore_inv hw hs a

theorem callV062_eq_call (isInv : Args → Bool) (s : MemoState FT ST) (a : Args)
    (h : isInv a = false ∨ (P.classify a).origin < P.numOrigins) : callV062 P isInv s a = call P s a := by
  unfold callV062 call
  by_cases ho : P.numOrigins ≤ (P.classify a).origin
  · have hi : isInv a = false := by
      rcases h with h | h
      · exact h
      · exact absurd ho (Nat.not_le.mpr h)
    simp [hi, ho]
  · simp [ho]

/-! ## histories and threads -/

theorem run_inv (hw : P.WF) (h : List Args) : ∀ {s : MemoState FT ST}, Inv P s → Inv P (run P s h) := by
  induction h with
  | nil => intro s hs; exact hs
  | cons a t ih => intro s hs; exact ih (call_inv hw hs a)

theorem run_crs (hw : P.WF) (ht : SphTotal P) (h : List Args) :
    ∀ {s : MemoState FT ST}, Inv P s → CrsInv s → CrsInv (run P s h) := by
  induction h with
  | nil => intro s _ hc; exact hc
  | cons a t ih => intro s hs hc; exact ih (call_inv hw hs a) (call_crs hw ht hs hc a)

theorem runResults_eq (hw : P.WF) (h : List Args) :
    ∀ {s : MemoState FT ST}, Inv P s → runResults P s h = h.map (pureCall P) := by
  induction h with
  | nil => intro s _; rfl
  | cons a t ih =>
    intro s hs
    simp only [runResults, List.map_cons, call_res hw hs a, ih (call_inv hw hs a)]

theorem run_fail_grows (hw : P.WF) (a : Args)
    (hk : (P.classify a).idx ≤ FACE_TRIANGLE_MAX) (ho : (P.classify a).origin < P.numOrigins)
    (hf : ∀ st, (sphVal P (P.classify a)).1 ≠ .ok st) (m : Nat) :
    ∀ {s : MemoState FT ST}, Inv P s →
      (run P s (List.replicate m a)).crsCalls = s.crsCalls + m * (sphVal P (P.classify a)).2 := by
  induction m with
  | zero => intro s _; simp [run]
  | succ m ih =>
    intro s hs
    simp only [List.replicate_succ, run]
    rw [ih (call_inv hw hs a), (call_fail_grows hw hs a hk ho hf).1, Nat.succ_mul]
    omega

theorem run_append (s : MemoState FT ST) (h h' : List Args) : run P s (h ++ h') = run P (run P s h) h' := by
  induction h generalizing s with
  | nil => rfl
  | cons a t ih => exact ih _

theorem stepWorld_same (w : World FT ST) (t : ThreadId) (a : Args) :
    (stepWorld P w t a).1 t = (call P (w t) a).1 := by
  simp [stepWorld]

theorem stepWorld_other (w : World FT ST) (t u : ThreadId) (a : Args) (h : u ≠ t) :
    (stepWorld P w t a).1 u = w u := by
  simp [stepWorld, h]

theorem stepWorld_inv (hw : P.WF) {w : World FT ST} (hi : ∀ t, Inv P (w t)) (t : ThreadId) (a : Args) :
    ∀ u, Inv P ((stepWorld P w t a).1 u) := by
  intro u
  by_cases h : u = t
  · subst h; rw [stepWorld_same]; exact call_inv hw (hi u) a
  · rw [stepWorld_other _ _ _ _ h]; exact hi u

theorem runWorldResults_eq (hw : P.WF) (h : List (ThreadId × Args)) :
    ∀ {w : World FT ST}, (∀ t, Inv P (w t)) → runWorldResults P w h = h.map (fun ta => pureCall P ta.2) := by
  induction h with
  | nil => intro w _; rfl
  | cons x t ih =>
    intro w hi
    obtain ⟨u, a⟩ := x
    simp only [runWorldResults, List.map_cons, ih (stepWorld_inv hw hi u a)]
    congr 1
    exact call_res hw (hi u) a

/-- The component of thread `t` after an interleaving is the state thread `t` reaches by running its own
subsequence alone: other threads' steps are invisible to it. -/
theorem runWorld_proj (h : List (ThreadId × Args)) (t : ThreadId) :
    ∀ (w : World FT ST), runWorld P w h t = run P (w t) ((h.filter (fun ta => ta.1 == t)).map (·.2)) := by
  induction h with
  | nil => intro w; rfl
  | cons x r ih =>
    intro w
    obtain ⟨u, a⟩ := x
    simp only [runWorld]
    rw [ih]
    by_cases hu : u = t
    · subst hu
      simp [stepWorld_same, run]
    · have : (u == t) = false := by simpa using hu
      simp only [List.filter_cons, this]
      rw [stepWorld_other _ _ _ _ (fun e => hu e.symm)]
      rfl

end

end A5.Memo
