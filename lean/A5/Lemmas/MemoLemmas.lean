import A5.Model.Memo
/-! # Lemmas about the memo state machine (`A5/Model/Memo.lean`) used by property C13.

Core only.  All layout facts are obtained by unfolding the *generated* constants of `A5.Gen`, so a
change of an offset / stride / table length in the Rust source breaks these proofs after regeneration. -/
namespace A5.Memo
open A5 A5.Gen

/-- Unfold the generated layout constants to their literals (for `omega`). -/
macro "memo_consts" : tactic =>
  `(tactic| simp only [MEMO_FACE_SLOTS, MEMO_SPH_SLOTS, MEMO_FACE_SQUASHED_OFFSET, MEMO_FACE_REFLECTED_OFFSET,
      MEMO_SPH_STRIDE, MEMO_SPH_REFLECTED_OFFSET, FACE_TRIANGLE_MAX, NUM_ORIGINS_WORLD, CRS_WARN_AT,
      CRS_LOOKUPS_PER_TRIANGLE] at *)

/-! ## list facts -/

theorem getD_set_eq {α} (l : List α) (i : Nat) (x d : α) (h : i < l.length) : (l.set i x).getD i d = x := by
  simp [List.getD_eq_getElem?_getD, h]

theorem getD_set_ne {α} (l : List α) (i j : Nat) (x d : α) (h : i ≠ j) : (l.set i x).getD j d = l.getD j d := by
  simp [List.getD_eq_getElem?_getD, h]

theorem getD_replicate_none {α} (n i : Nat) : (List.replicate n (none : Option α)).getD i none = none := by
  simp only [List.getD_eq_getElem?_getD, List.getElem?_replicate]
  split <;> rfl

theorem countP_set_fill {α} (l : List (Option α)) (i : Nat) (x : α) (h : i < l.length)
    (hn : l.getD i none = none) : (l.set i (some x)).countP Option.isSome = l.countP Option.isSome + 1 := by
  induction l generalizing i with
  | nil => simp at h
  | cons a t ih =>
    cases i with
    | zero =>
      have : a = none := by simpa using hn
      subst this
      simp
    | succ j =>
      have hj : j < t.length := by simpa using h
      have hn' : t.getD j none = none := by simpa using hn
      simp only [List.set_cons_succ, List.countP_cons, ih j hj hn']
      omega

/-! ## T1: the slot functions -/

theorem slotF_lt (k : FKey) (hk : k.idx ≤ FACE_TRIANGLE_MAX) : slotF k < MEMO_FACE_SLOTS := by
  unfold slotF; memo_consts; repeat' split
  all_goals omega

theorem slotS_lt (k : SKey) (hk : k.idx ≤ FACE_TRIANGLE_MAX) (ho : k.origin < NUM_ORIGINS_WORLD) :
    slotS k < MEMO_SPH_SLOTS := by
  unfold slotS; memo_consts; split <;> omega

/-- Two in-range face keys share a slot only if they agree on index and reflection and, when reflected,
on squashing. -/
theorem slotF_inj (k k' : FKey) (hk : k.idx ≤ FACE_TRIANGLE_MAX) (hk' : k'.idx ≤ FACE_TRIANGLE_MAX)
    (h : slotF k = slotF k') :
    k.idx = k'.idx ∧ k.reflected = k'.reflected ∧ (k.reflected = true → k.squashed = k'.squashed) := by
  obtain ⟨i, r, q⟩ := k
  obtain ⟨i', r', q'⟩ := k'
  unfold slotF at h
  memo_consts
  cases r <;> cases r' <;> cases q <;> cases q' <;> simp at h ⊢ <;> omega

theorem slotS_inj (k k' : SKey) (hk : k.idx ≤ FACE_TRIANGLE_MAX) (ho : k.origin < NUM_ORIGINS_WORLD)
    (hk' : k'.idx ≤ FACE_TRIANGLE_MAX) (ho' : k'.origin < NUM_ORIGINS_WORLD) (h : slotS k = slotS k') : k = k' := by
  obtain ⟨o, i, r⟩ := k
  obtain ⟨o', i', r'⟩ := k'
  unfold slotS at h
  memo_consts
  cases r <;> cases r' <;> simp at h ⊢ <;> omega

/-! ## well-formed parameters, the invariant -/

section
variable {FT ST Args Res : Type}

/-- What the proofs need to know about the pure ingredients: the origin table has the documented
size, and an unreflected face triangle does not depend on the `squashed` flag
(`get_base_face_triangle` does not take it). -/
structure Params.WF (P : Params FT ST Args Res) : Prop where
  numOrigins_eq : P.numOrigins = NUM_ORIGINS_WORLD
  faceVal_unreflected : ∀ i s s', P.faceVal ⟨i, false, s⟩ = P.faceVal ⟨i, false, s'⟩

/-- The pure value of a spherical-triangle key (for an in-range key). -/
def sphVal (P : Params FT ST Args Res) (k : SKey) : Outcome ST × Nat :=
  P.sphFrom (P.faceVal ⟨k.idx, k.reflected, true⟩) k

/-- Every filled slot holds the pure value of every in-range key that maps to it. -/
structure Inv (P : Params FT ST Args Res) (s : MemoState FT ST) : Prop where
  lenF : s.faces.length = MEMO_FACE_SLOTS
  lenS : s.sph.length = MEMO_SPH_SLOTS
  faceOk : ∀ (k : FKey) (v : FT), k.idx ≤ FACE_TRIANGLE_MAX → s.faces.getD (slotF k) none = some v → v = P.faceVal k
  sphOk : ∀ (k : SKey) (v : ST), k.idx ≤ FACE_TRIANGLE_MAX → k.origin < P.numOrigins →
    s.sph.getD (slotS k) none = some v → (sphVal P k).1 = .ok v

variable {P : Params FT ST Args Res}

theorem faceVal_of_slot_eq (hw : P.WF) (k k' : FKey) (hk : k.idx ≤ FACE_TRIANGLE_MAX)
    (hk' : k'.idx ≤ FACE_TRIANGLE_MAX) (h : slotF k = slotF k') : P.faceVal k = P.faceVal k' := by
  obtain ⟨hi, hr, hq⟩ := slotF_inj k k' hk hk' h
  obtain ⟨i, r, q⟩ := k
  obtain ⟨i', r', q'⟩ := k'
  simp only at hi hr hq
  subst hi; subst hr
  cases r with
  | false => exact hw.faceVal_unreflected _ _ _
  | true => rw [hq rfl]

theorem inv_init : Inv P (init : MemoState FT ST) where
  lenF := by simp [init]
  lenS := by simp [init]
  faceOk := by intro k v _ h; simp only [init, getD_replicate_none] at h; cases h
  sphOk := by intro k v _ _ h; simp only [init, getD_replicate_none] at h; cases h

theorem pureFace_ok (P : Params FT ST Args Res) (k : FKey) (hk : k.idx ≤ FACE_TRIANGLE_MAX) :
    pureFace P k = .ok (P.faceVal k) := by
  unfold pureFace
  rw [if_neg (Nat.not_lt.mpr hk), if_neg (Nat.not_le.mpr (slotF_lt k hk))]

theorem pureFace_err (P : Params FT ST Args Res) (k : FKey) (hk : FACE_TRIANGLE_MAX < k.idx) :
    pureFace P k = .err .other := by
  unfold pureFace
  rw [if_pos hk]

/-- `get_face_triangle` on an in-range key returns the pure value, keeps the invariant and touches
neither the spherical table nor the CRS counter. -/
theorem getFace_spec (hw : P.WF) {s : MemoState FT ST} (hs : Inv P s) (k : FKey) (hk : k.idx ≤ FACE_TRIANGLE_MAX) :
    ∃ s1, getFaceTriangle P s k = (s1, .ok (P.faceVal k)) ∧ Inv P s1 ∧ s1.sph = s.sph ∧ s1.crsCalls = s.crsCalls := by
  have hlt : slotF k < s.faces.length := by rw [hs.lenF]; exact slotF_lt k hk
  unfold getFaceTriangle
  rw [if_neg (Nat.not_lt.mpr hk), if_neg (Nat.not_le.mpr hlt)]
  cases hget : s.faces.getD (slotF k) none with
  | some v =>
    refine ⟨s, ?_, hs, rfl, rfl⟩
    rw [hs.faceOk k v hk hget]
  | none =>
    refine ⟨_, rfl, ?_, rfl, rfl⟩
    refine ⟨by simp [hs.lenF], hs.lenS, ?_, hs.sphOk⟩
    intro k' v hk' h
    by_cases he : slotF k = slotF k'
    · rw [← he, getD_set_eq _ _ _ _ hlt] at h
      cases h
      exact faceVal_of_slot_eq hw k k' hk hk' he
    · rw [getD_set_ne _ _ _ _ _ he] at h
      exact hs.faceOk k' v hk' h

theorem getFace_err (P : Params FT ST Args Res) (s : MemoState FT ST) (k : FKey) (hk : FACE_TRIANGLE_MAX < k.idx) :
    getFaceTriangle P s k = (s, .err .other) := by
  unfold getFaceTriangle
  rw [if_pos hk]

/-- Result of `get_spherical_triangle` (called, as in `forward`/`inverse`, with an index that already
passed `get_face_triangle`): it equals the stateless value provided the origin is valid, or the slot is
out of the table, or the slot is empty.  (The remaining case — invalid origin whose slot index aliases a
filled slot of a valid key — is the finding documented in `A5/Props/C13.lean`.) -/
theorem getSph_res (hw : P.WF) {s : MemoState FT ST} (hs : Inv P s) (k : SKey) (hk : k.idx ≤ FACE_TRIANGLE_MAX)
    (h : k.origin < P.numOrigins ∨ MEMO_SPH_SLOTS ≤ slotS k ∨ s.sph.getD (slotS k) none = none) :
    (getSphericalTriangle P s k).2 = pureSph P k := by
  unfold getSphericalTriangle pureSph
  rw [hs.lenS]
  by_cases hb : MEMO_SPH_SLOTS ≤ slotS k
  · rw [if_pos hb, if_pos hb]
  · rw [if_neg hb, if_neg hb]
    cases hget : s.sph.getD (slotS k) none with
    | some v =>
      have ho : k.origin < P.numOrigins := by
        rcases h with h | h | h
        · exact h
        · exact absurd h hb
        · rw [hget] at h; cases h
      rw [if_neg (Nat.not_le.mpr ho), pureFace_ok P _ hk]
      exact (hs.sphOk k v hk ho hget).symm
    | none =>
      unfold computeSphericalTriangle
      by_cases ho : P.numOrigins ≤ k.origin
      · rw [if_pos ho, if_pos ho]
      · rw [if_neg ho, if_neg ho, pureFace_ok P _ hk]
        obtain ⟨s1, he, _, _, _⟩ := getFace_spec hw hs ⟨k.idx, k.reflected, true⟩ hk
        rw [he]
        simp only
        cases (P.sphFrom (P.faceVal ⟨k.idx, k.reflected, true⟩) k).1 <;> rfl

/-- How `get_spherical_triangle` changes the state: either not at all, or (in-range key, empty slot) it
performs the nested face lookup, adds the CRS lookups, and stores the triangle iff the computation succeeded. -/
theorem getSph_shape (hw : P.WF) {s : MemoState FT ST} (hs : Inv P s) (k : SKey) :
    (getSphericalTriangle P s k).1 = s ∨
    (k.idx ≤ FACE_TRIANGLE_MAX ∧ k.origin < P.numOrigins ∧ slotS k < MEMO_SPH_SLOTS ∧
      s.sph.getD (slotS k) none = none ∧
      ∃ s1, Inv P s1 ∧ s1.sph = s.sph ∧ s1.crsCalls = s.crsCalls ∧
        ((∃ st, (sphVal P k).1 = .ok st ∧ (getSphericalTriangle P s k).1 =
            ⟨s1.faces, s1.sph.set (slotS k) (some st), s1.crsCalls + (sphVal P k).2⟩) ∨
         ((∀ st, (sphVal P k).1 ≠ .ok st) ∧ (getSphericalTriangle P s k).1 =
            ⟨s1.faces, s1.sph, s1.crsCalls + (sphVal P k).2⟩))) := by
  unfold getSphericalTriangle
  rw [hs.lenS]
  by_cases hb : MEMO_SPH_SLOTS ≤ slotS k
  · left; rw [if_pos hb]
  · rw [if_neg hb]
    cases hget : s.sph.getD (slotS k) none with
    | some v => left; rfl
    | none =>
      simp only
      unfold computeSphericalTriangle
      by_cases ho : P.numOrigins ≤ k.origin
      · left; rw [if_pos ho]
      · rw [if_neg ho]
        by_cases hk : k.idx ≤ FACE_TRIANGLE_MAX
        · right
          refine ⟨hk, Nat.not_le.mp ho, Nat.not_le.mp hb, rfl, ?_⟩
          obtain ⟨s1, he, hi1, hsph, hcrs⟩ := getFace_spec hw hs ⟨k.idx, k.reflected, true⟩ hk
          refine ⟨s1, hi1, hsph, hcrs, ?_⟩
          rw [he]
          simp only [sphVal]
          cases hv : (P.sphFrom (P.faceVal ⟨k.idx, k.reflected, true⟩) k).1 with
          | ok st => left; exact ⟨st, rfl, rfl⟩
          | err e => right; exact ⟨fun st h => by cases h, rfl⟩
          | panic p => right; exact ⟨fun st h => by cases h, rfl⟩
        · left
          rw [getFace_err P s _ (Nat.not_le.mp hk)]

end

end A5.Memo
