import A5.Lemmas.RuntimeTriangles
import A5.Lemmas.SweepFormula3
import A5.Lemmas.PolyTies
/-! # The spherical triangles the library actually uses satisfy the hypotheses of the round-trip theorems (part 2: the table)

`RuntimeTriangles.lean` proves `TriOK t → TriHyp (triR t)` for a decidable rational certificate `TriOK`.  This file
* evaluates the certificate on ALL 240 entries of `A5.Gen.Runtime.SPH_TRIANGLES` in the kernel (`runtime_triangles_ok`,
  `decide +kernel`, no exception: every entry - base and reflected - is counter-clockwise with raw triple product
  `0.18759…`, `b·c = 0.93417…`, `{a·b, c·a} = {0.79465…, 0.85065…}`, squared norms within `3.5e-16` of `1`);
* checks that the table has exactly one entry for every `(origin < 12, face-triangle index < 10, reflected)` (`runtime_keys`);
* concludes, for the NORMALISED real triangle `(entryA t, entryB t, entryC t)` of EVERY entry `t`:
  - `runtime_hyp`: all hypotheses H (`TriHyp`);
  - `runtime_angular_roundtrip`: the conclusion of `C15.angular_roundtrip` (T7b);
  - `runtime_roundtrip`: the conclusion of `C15.polyhedral_roundtrip_real` (T8) for EVERY `0 ≤ q ≤ 1`, `0 < s ≤ 1`
    (the hypothesis `SLERP_SWITCH ≤ ∠(a, slerp b c q)` holds on the whole edge, `edge_dot_le`);
  - `runtime_equal_area`: the conclusion of `C16.equal_area_pointwise` (T6) for every `0 ≤ t ≤ 1`;
  - `runtime_area_on_asin_branch`: `get_triangle_area` of the whole triangle is on its `asin` branch (`V ≥ 1/20`);
  - `runtime_roundtrip_twin`: the conclusion of `C15.polyhedral_roundtrip_twin` (T9), with the branch condition `hE`
    for `area(a, b, c)` discharged; the conditions that depend on the point (`hE2`, `hE3`: the two sub-triangles on
    the `asin` branch; `hn1..hn3`: no vertex snap) REMAIN hypotheses (`RuntimeTriangles3.lean` discharges `hE2`, `hE3`
    for `10⁻⁴ ≤ q ≤ 1 - 10⁻⁴`: `runtime_roundtrip_twin_mid`).

The statements are verbatim those of the `Props` theorems; the proofs call the lemma-level theorems the `Props` files wrap
(`angular_inverse_formula`, `angular_forward_formula`, `polyhedral_roundtrip_exact`, `polyhedral_roundtrip_safeAcos`,
`equal_area_pointwise_edge`, `polyhedral_roundtrip_full_twin`).

NOT proved here: anything about `f64` rounding (the entries are read as exact reals, normalised in `ℝ`, and all operations
are real); that the rounded table vertices are within some distance of the ideal icosahedral/dodecahedral frame; the
point-dependent branch conditions of T9. -/
namespace A5.RuntimeTriangles
open A5 A5.RadialRoundTrip A5.AngularRoundTrip A5.SweepFormula A5.Gen.Runtime

/-- a row of `SPH_TRIANGLES` -/
abbrev Entry := Nat × Nat × Bool × V3C × V3C × V3C

/-- the normalised real apex / second / third vertex of a table row -/
noncomputable def entryA (t : Entry) : R3 := unitR t.2.2.2.1
noncomputable def entryB (t : Entry) : R3 := unitR t.2.2.2.2.1
noncomputable def entryC (t : Entry) : R3 := unitR t.2.2.2.2.2

theorem entry_triR (t : Entry) : triR t.2.2.2 = (entryA t, entryB t, entryC t) := rfl

/-! ## the table -/

theorem runtime_count : SPH_TRIANGLES.length = 240 := by decide +kernel

/-- the rows are keyed by `(origin, face-triangle index, reflected)`, each key of `12 × 10 × 2` exactly once, in order -/
theorem runtime_keys :
    SPH_TRIANGLES.map (fun t => (t.1, t.2.1, t.2.2.1)) =
      (List.range 12).flatMap (fun o => (List.range 10).flatMap (fun k => [(o, k, false), (o, k, true)])) := by
  decide +kernel

/-- **every one of the 240 table triangles passes the rational certificate** (kernel evaluation of exact rational
arithmetic on the `f64` coordinates; no entry fails, reflected or not). -/
theorem runtime_triangles_ok : ∀ t ∈ SPH_TRIANGLES, TriOK t.2.2.2 := by decide +kernel

/-- the list of entries that pass is the whole table (the decidable filter keeps all 240) -/
theorem runtime_filter_all : SPH_TRIANGLES.filter (fun t => decide (TriOK t.2.2.2)) = SPH_TRIANGLES := by
  rw [List.filter_eq_self]
  intro t ht
  exact decide_eq_true (runtime_triangles_ok t ht)

/-- **H holds for the normalised real triangle of every table entry.** -/
theorem runtime_hyp : ∀ t ∈ SPH_TRIANGLES, TriHyp (entryA t) (entryB t) (entryC t) :=
  fun t ht => triHyp_of_triOK (runtime_triangles_ok t ht)

/-! ## corollaries for the actual configuration -/

/-- the conclusion of `C15.angular_roundtrip` (T7b) for every table triangle -/
theorem runtime_angular_roundtrip : ∀ t ∈ SPH_TRIANGLES,
    (∀ q : ℝ, 0 ≤ q → q ≤ 1 →
      edgeParamR (entryA t) (entryB t) (entryC t) (triAreaR (entryA t) (entryB t) (slerpR (entryB t) (entryC t) q)) = q) ∧
    (∀ alpha : ℝ, 0 < alpha → alpha < triAreaR (entryA t) (entryB t) (entryC t) →
      0 < edgeParamR (entryA t) (entryB t) (entryC t) alpha ∧ edgeParamR (entryA t) (entryB t) (entryC t) alpha < 1 ∧
        triAreaR (entryA t) (entryB t)
          (slerpR (entryB t) (entryC t) (edgeParamR (entryA t) (entryB t) (entryC t) alpha)) = alpha) := by
  intro t ht
  have H := runtime_hyp t ht
  exact ⟨fun _ h0 h1 => (angular_inverse_formula H.ha H.hb H.hc H.hV H.hD H.hγ h0 h1).2,
    fun _ h0 h1 => angular_forward_formula H.ha H.hb H.hc H.hV H.hD H.hγ h0 h1⟩

/-- **`runtime_roundtrip`**: the conclusion of `C15.polyhedral_roundtrip_real` (T8) for every table triangle and EVERY
point `v = slerp(a, slerp(b, c, q), s)`, `0 ≤ q ≤ 1`, `0 < s ≤ 1`: the forward map finds `P = slerp(b, c, q)`,
`inverse (forward v) = v` exactly with `2·arcsin`, and within `5e-16` (chord) with the two-branch `safe_acos`. -/
theorem runtime_roundtrip : ∀ t ∈ SPH_TRIANGLES, ∀ q s : ℝ, 0 ≤ q → q ≤ 1 → 0 < s → s ≤ 1 →
    forwardPointR (entryA t) (entryB t) (entryC t) (slerpR (entryA t) (slerpR (entryB t) (entryC t) q) s)
      = slerpR (entryB t) (entryC t) q ∧
    inverseBaryR (entryA t) (entryB t) (entryC t)
        (forwardBaryR (entryA t) (entryB t) (entryC t) (slerpR (entryA t) (slerpR (entryB t) (entryC t) q) s))
      = slerpR (entryA t) (slerpR (entryB t) (entryC t) q) s ∧
    lengthR (subR (inverseBarySafeR (entryA t) (entryB t) (entryC t)
        (forwardBaryR (entryA t) (entryB t) (entryC t) (slerpR (entryA t) (slerpR (entryB t) (entryC t) q) s)))
      (slerpR (entryA t) (slerpR (entryB t) (entryC t) q) s)) ≤ 5e-16 := by
  intro t ht q s hq0 hq1 hs0 hs1
  have H := runtime_hyp t ht
  have hγ' := H.hγ' q hq0 hq1
  exact ⟨(polyhedral_roundtrip_exact H.ha H.hb H.hc H.hV H.hD H.hγ hγ' hq0 hq1 hs0 hs1).1,
    (polyhedral_roundtrip_exact H.ha H.hb H.hc H.hV H.hD H.hγ hγ' hq0 hq1 hs0 hs1).2,
    (polyhedral_roundtrip_safeAcos H.ha H.hb H.hc H.hV H.hD H.hγ hγ' hq0 hq1 hs0 hs1).2⟩

/-- **`runtime_equal_area`**: the conclusion of `C16.equal_area_pointwise` (T6) for every table triangle, at every point
`P = slerp(b, c, t)`, `0 ≤ t ≤ 1`, of its far edge, for every planar density factor `S` and every arc distance `θ`. -/
theorem runtime_equal_area : ∀ e ∈ SPH_TRIANGLES, ∀ t : ℝ, 0 ≤ t → t ≤ 1 → ∀ S θ : ℝ,
    gcPoint (entryB e) (edgeDirR (entryB e) (entryC e))
        (edgeArcR (entryA e) (entryB e) (edgeDirR (entryB e) (entryC e))
          (azimuthR (entryA e) (entryB e) (slerpR (entryB e) (entryC e) t))) = slerpR (entryB e) (entryC e) t ∧
    Real.sin (angleR (entryA e) (slerpR (entryB e) (entryC e) t) / 2) ≠ 0 ∧
    0 < triAreaR (entryA e) (entryB e) (entryC e) ∧
    ∃ hθ βψ : ℝ,
      HasDerivAt (fun x => Real.sin (x / 2) / Real.sin (angleR (entryA e) (slerpR (entryB e) (entryC e) t) / 2)) hθ θ ∧
      HasDerivAt (fun x => triAreaR (entryA e) (entryB e)
          (gcPoint (entryB e) (edgeDirR (entryB e) (entryC e))
            (edgeArcR (entryA e) (entryB e) (edgeDirR (entryB e) (entryC e)) x)) /
          triAreaR (entryA e) (entryB e) (entryC e)) βψ
        (azimuthR (entryA e) (entryB e) (slerpR (entryB e) (entryC e) t)) ∧
      (Real.sin (θ / 2) / Real.sin (angleR (entryA e) (slerpR (entryB e) (entryC e) t) / 2)) * S * (hθ * βψ) =
        S / (2 * triAreaR (entryA e) (entryB e) (entryC e)) * Real.sin θ := by
  intro e he t ht0 ht1 S θ
  have H := runtime_hyp e he
  exact equal_area_pointwise_edge H.ha H.hb H.hc H.hV H.hD H.hγ H.hbc ht0 ht1 S θ

/-! ## the twin level (`C15.polyhedral_roundtrip_twin`, T9) -/

open A5.GP A5.PolyTies

/-- the area of every table triangle is computed on the `asin` branch of `get_triangle_area`
(`V ≥ 1/20 ≥ 4·TRI_AREA_SWITCH`) -/
theorem runtime_area_on_asin_branch : ∀ t ∈ SPH_TRIANGLES,
    OnAsinBranch (entryA t) (entryB t) (entryC t) ∧
    AreaAgreesG (toTR (entryA t)) (toTR (entryB t)) (toTR (entryC t)) := by
  intro t ht
  have H := runtime_hyp t ht
  have h : OnAsinBranch (entryA t) (entryB t) (entryC t) := by
    refine onAsinBranch_of_triple H.ha H.hb H.hc H.hD ?_
    have := triAreaSwitch_le
    have := H.hV'
    norm_num at *
    linarith
  exact ⟨h, (areaAgrees_tie _ _ _).mp h.agrees⟩

/-- **`runtime_roundtrip_twin`** (partial): the conclusion of `C15.polyhedral_roundtrip_twin` (T9) - the generic twins of
`polyhedralForward` / `polyhedralInverse` at `ℝ`, vertex snapping and two-branch `safe_acos` included - for every table
triangle.  Discharged: unit vectors, orientation, `hD`, both `slerp` switch conditions (every `q ∈ [0,1]`), and the
branch condition `hE` of `area(a, b, c)`.  REMAINING hypotheses (they depend on the point): the two sub-triangles
`(a, P, c)`, `(a, b, P)` are on the `asin` branch or degenerate (`hE2`, `hE3`: fails only for `q` within about `1e-7` of
`0` or `1`, end points excepted), and no barycentric coordinate exceeds `1 - POLY_SNAP_EPS` (`hn1..hn3`). -/
theorem runtime_roundtrip_twin : ∀ t ∈ SPH_TRIANGLES, ∀ q s : ℝ, 0 ≤ q → q ≤ 1 → 0 < s → s ≤ 1 →
    AreaAgreesG (toTR (entryA t)) (slerpG realKit (toTR (entryB t)) (toTR (entryC t)) q) (toTR (entryC t)) →
    AreaAgreesG (toTR (entryA t)) (toTR (entryB t)) (slerpG realKit (toTR (entryB t)) (toTR (entryC t)) q) →
    ¬ (forwardBaryG realKit (toTR (entryA t)) (toTR (entryB t)) (toTR (entryC t))
        (slerpG realKit (toTR (entryA t)) (slerpG realKit (toTR (entryB t)) (toTR (entryC t)) q) s)).1
      > realKit.one - realKit.snapEps →
    ¬ (forwardBaryG realKit (toTR (entryA t)) (toTR (entryB t)) (toTR (entryC t))
        (slerpG realKit (toTR (entryA t)) (slerpG realKit (toTR (entryB t)) (toTR (entryC t)) q) s)).2.1
      > realKit.one - realKit.snapEps →
    ¬ (forwardBaryG realKit (toTR (entryA t)) (toTR (entryB t)) (toTR (entryC t))
        (slerpG realKit (toTR (entryA t)) (slerpG realKit (toTR (entryB t)) (toTR (entryC t)) q) s)).2.2
      > realKit.one - realKit.snapEps →
    dotG (inverseBaryG realKit (toTR (entryA t)) (toTR (entryB t)) (toTR (entryC t))
          (forwardBaryG realKit (toTR (entryA t)) (toTR (entryB t)) (toTR (entryC t))
            (slerpG realKit (toTR (entryA t)) (slerpG realKit (toTR (entryB t)) (toTR (entryC t)) q) s)))
        (inverseBaryG realKit (toTR (entryA t)) (toTR (entryB t)) (toTR (entryC t))
          (forwardBaryG realKit (toTR (entryA t)) (toTR (entryB t)) (toTR (entryC t))
            (slerpG realKit (toTR (entryA t)) (slerpG realKit (toTR (entryB t)) (toTR (entryC t)) q) s))) = 1 ∧
    lengthG realKit (subG (inverseBaryG realKit (toTR (entryA t)) (toTR (entryB t)) (toTR (entryC t))
          (forwardBaryG realKit (toTR (entryA t)) (toTR (entryB t)) (toTR (entryC t))
            (slerpG realKit (toTR (entryA t)) (slerpG realKit (toTR (entryB t)) (toTR (entryC t)) q) s)))
        (slerpG realKit (toTR (entryA t)) (slerpG realKit (toTR (entryB t)) (toTR (entryC t)) q) s)) ≤ 5e-16 := by
  intro t ht q s hq0 hq1 hs0 hs1 hE2 hE3 hn1 hn2 hn3
  have H := runtime_hyp t ht
  have hγ' : realKit.slerpSwitch ≤ angleG realKit (toTR (entryA t))
      (slerpG realKit (toTR (entryB t)) (toTR (entryC t)) q) := by
    rw [← slerpR_tie]; exact H.hγ' q hq0 hq1
  exact polyhedral_roundtrip_full_twin (a := toTR (entryA t)) (b := toTR (entryB t)) (c := toTR (entryC t))
    H.ha H.hb H.hc H.hV H.hD H.hγ hγ' hq0 hq1 hs0 hs1 (runtime_area_on_asin_branch t ht).2 hE2 hE3 hn1 hn2 hn3

/-! ## non-vacuity -/

/-- the first row of the table: origin 0, face triangle 0, not reflected, apex = the north pole `(0, 0, 1)` exactly -/
example : (0, 0, false,
    (⟨⟨0x0000000000000000, (0), (0)⟩, ⟨0x0000000000000000, (0), (0)⟩, ⟨0x3ff0000000000000, (1), (0)⟩⟩ : V3C),
    (⟨⟨0x3fe0d2ca0da1530e, (2367682440636807), (-52)⟩, ⟨0x0000000000000000, (0), (0)⟩,
      ⟨0x3feb38880b4603e4, (1915495331758329), (-51)⟩⟩ : V3C),
    (⟨⟨0x3fdf6e9125e919f6, (4423646981688571), (-53)⟩, ⟨0x3fd6d62c51843605, (6427935322158597), (-54)⟩,
      ⟨0x3fe96dcf37439ff1, (7157611170602993), (-53)⟩⟩ : V3C)) ∈ SPH_TRIANGLES := by
  decide +kernel

/-- the certificate is not vacuous: it rejects the first table triangle with `b` and `c` exchanged (clockwise) -/
example : ∃ t ∈ SPH_TRIANGLES, ¬ TriOK (t.2.2.2.1, t.2.2.2.2.2, t.2.2.2.2.1) := by decide +kernel

/-- and `runtime_roundtrip` applies to a concrete interior point of a concrete (reflected) table triangle -/
example : ∃ t ∈ SPH_TRIANGLES, t.2.2.1 = true ∧
    inverseBaryR (entryA t) (entryB t) (entryC t)
        (forwardBaryR (entryA t) (entryB t) (entryC t)
          (slerpR (entryA t) (slerpR (entryB t) (entryC t) (1 / 3)) (1 / 2)))
      = slerpR (entryA t) (slerpR (entryB t) (entryC t) (1 / 3)) (1 / 2) := by
  have h : SPH_TRIANGLES.getD 1 (0, 0, false, ⟨⟨0, 0, 0⟩, ⟨0, 0, 0⟩, ⟨0, 0, 0⟩⟩, ⟨⟨0, 0, 0⟩, ⟨0, 0, 0⟩, ⟨0, 0, 0⟩⟩,
      ⟨⟨0, 0, 0⟩, ⟨0, 0, 0⟩, ⟨0, 0, 0⟩⟩) ∈ SPH_TRIANGLES := by decide +kernel
  exact ⟨_, h, by decide +kernel,
    (runtime_roundtrip _ h (1 / 3) (1 / 2) (by norm_num) (by norm_num) (by norm_num) (by norm_num)).2.1⟩

end A5.RuntimeTriangles
