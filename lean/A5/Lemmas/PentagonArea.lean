import A5.Lemmas.PentagonCentre
/-! # Planar area of the cell pentagons (exact arithmetic)

Every pentagon `get_pentagon_vertices` draws in the lattice frame of a quintant is the seed pentagon rotated by 180°,
mirrored (with the vertex order reversed) and translated: its signed trapezoid-sum area equals the seed's, for every
anchor.  Scaling by `s` multiplies it by `s²`.  With the runtime constants the seed's area equals the area of one
lattice triangle (half the determinant of `BASIS`) to 2^-50: `4^n` pentagons have the area of the quintant triangle. -/
namespace A5.PG
open A5 A5.HilbertLocate

section algebra
variable {K : Type} [Field K]

theorem areaG_five (p0 p1 p2 p3 p4 : K × K) :
    areaG 0 [p0, p1, p2, p3, p4] =
      (p1.1 - p0.1) * (p1.2 + p0.2) + (p2.1 - p1.1) * (p2.2 + p1.2) + (p3.1 - p2.1) * (p3.2 + p2.2)
        + (p4.1 - p3.1) * (p4.2 + p3.2) + (p0.1 - p4.1) * (p0.2 + p4.2) := by
  simp [areaG, areaG.go]

/-- the signed area of the pentagon of ANY anchor equals the signed area of the seed pentagon -/
theorem area_local (p0 p1 p2 p3 p4 w : K × K) (b : K × K × K × K) (k : Nat) (oi oj : Int) (F : Int × Int)
    (hF : IsFlip F) :
    areaG 0 (pentagonLocalG [p0, p1, p2, p3, p4] w b (fun z => (z : K)) ⟨k, (oi, oj), F⟩) =
      areaG 0 [p0, p1, p2, p3, p4] := by
  obtain ⟨b00, b01, b10, b11⟩ := b
  generalize hr : needsReflect ⟨k, (oi, oj), F⟩ = r
  rcases hF with rfl | rfl | rfl | rfl <;> cases r <;>
    simp [pentagonLocalG, hr, areaG, areaG.go, rot180, reflectY, translate, no_eq, yes_eq] <;> ring

/-- scaling by `s` multiplies the area by `s²` -/
theorem area_scale (p0 p1 p2 p3 p4 : K × K) (s : K) :
    areaG 0 (scaleG' [p0, p1, p2, p3, p4] s) = s * s * areaG 0 [p0, p1, p2, p3, p4] := by
  simp [scaleG', areaG, areaG.go]; ring

end algebra

/-- **All cells of a quintant have the same planar area** (exact arithmetic, runtime constants): the pentagon of every
anchor has the signed area of the seed pentagon. -/
theorem pentagonQ_area (a : Anchor) (hF : IsFlip a.flips) : areaG 0 (pentagonQ a) = areaG 0 seedQ := by
  obtain ⟨k, ⟨oi, oj⟩, F⟩ := a
  unfold pentagonQ
  rewrite [seedQ_eq]
  exact area_local _ _ _ _ _ _ _ _ _ _ _ hF

/-- twice the area of one lattice triangle: the determinant of `BASIS` -/
def basisDet : Rat := basisQ.1 * basisQ.2.2.2 - basisQ.2.1 * basisQ.2.2.1

/-- the seed pentagon is wound as the code expects (non-negative trapezoid sum), its area is positive, and it equals
the area of one lattice triangle to 2^-50 (kernel-evaluated on the exact runtime constants; `areaG` is twice the
negated signed area, `basisDet` twice the signed area of the lattice triangle `(0, v, w)`) -/
theorem seed_area_facts :
    0 < areaG 0 seedQ ∧ -(1 / 2 ^ 50 : Rat) < areaG 0 seedQ + basisDet ∧ areaG 0 seedQ + basisDet < 1 / 2 ^ 50 := by
  decide +kernel

end A5.PG
