import A5.Lemmas.PentagonConvex
/-! # Winding, convexity and centre-inside survive the rest of `get_pentagon_vertices` (exact arithmetic)

`A5/Lemmas/PentagonConvex.lean` proves winding / strict convexity / centre strictly inside for the lattice-frame
pentagon `pentagonQ a`.  `get_pentagon_vertices` then scales by `2^-resolution`, multiplies by the quintant rotation
matrix and passes the result through `PentagonShape::new` (twice, the first inside `transform`).  Here:

* `getPentagonVertices_tie`: the whole `Float` function is the generic chain `polyNewG ∘ transformG ∘ scaleG'`
  ∘ `pentagonLocalG` evaluated at `Float` (structure only);
* `placedQ_facts`: in exact arithmetic, for any scale `s > 0` and ANY matrix of positive determinant (the quintant
  rotation `(c, -s, s, c)` has determinant `c² + s² > 0` whatever the rounded `cos`/`sin` are), the trapezoid sum and
  all cross products are multiplied by `det · s²`: the winding test passes, `PentagonShape::new` is the identity, the
  centre is the image of the centre and is strictly inside, the pentagon is strictly convex;
* `triQ_facts`: the same three facts for the quintant triangle `[U, V, W]` of the runtime constants.

Not covered: the face pentagon (`getFaceVertices`) - its vertices are `Float` `cos`/`sin` images of `v`, there is no
exact-arithmetic counterpart among the runtime constants. -/
namespace A5.PG
open A5 A5.HilbertLocate

section maps
variable {K : Type} [Field K]

theorem getD_map_lt {β γ : Type} (f : β → γ) (l : List β) (i : Nat) (h : i < l.length) (d : β) (d' : γ) :
    (l.map f).getD i d' = f (l.getD i d) := by
  simp [List.getD_eq_getElem?_getD, List.getElem?_eq_getElem h]

/-- a map that multiplies every orientation determinant by `κ` multiplies the list of cross products by `κ` -/
theorem crossesG_map (f : K × K → K × K) (κ : K) (hf : ∀ x y z, crossG (f x) (f y) (f z) = κ * crossG x y z)
    (vs : List (K × K)) (p : K × K) :
    crossesG 0 (vs.map f) (f p) = (crossesG 0 vs p).map (κ * ·) := by
  unfold crossesG
  rewrite [List.map_map, List.length_map]
  refine List.map_congr_left ?_
  intro i hi
  have hi : i < vs.length := List.mem_range.1 hi
  have hj : (i + 1) % vs.length < vs.length := Nat.mod_lt _ (by omega)
  simp only [Function.comp]
  rewrite [getD_map_lt f vs i hi (0, 0), getD_map_lt f vs _ hj (0, 0)]
  exact hf _ _ _

theorem edgeCrossesG_map (f : K × K → K × K) (κ : K) (hf : ∀ x y z, crossG (f x) (f y) (f z) = κ * crossG x y z)
    (vs : List (K × K)) :
    edgeCrossesG 0 (vs.map f) = (edgeCrossesG 0 vs).map (κ * ·) := by
  unfold edgeCrossesG
  rewrite [List.map_flatMap, List.length_map]
  refine List.flatMap_congr ?_   -- may need different name
  intro i hi
  have hi : i < vs.length := List.mem_range.1 hi
  have hj : (i + 1) % vs.length < vs.length := Nat.mod_lt _ (by omega)
  rewrite [List.map_map]
  refine List.map_congr_left ?_
  intro j hjm
  have hj' : j < vs.length := List.mem_range.1 (List.mem_filter.1 hjm).1
  simp only [Function.comp]
  rewrite [getD_map_lt f vs i hi (0, 0), getD_map_lt f vs _ hj (0, 0), getD_map_lt f vs j hj' (0, 0)]
  exact hf _ _ _

theorem cross_apply (m : K × K × K × K) (x y z : K × K) :
    crossG (applyG m x) (applyG m y) (applyG m z) = detG m * crossG x y z := by
  simp only [crossG, applyG, detG]; ring

theorem scaleG'_eq_transform (vs : List (K × K)) (s : K) : scaleG' vs s = transformG (s, 0, 0, s) vs := by
  unfold scaleG' transformG applyG
  refine List.map_congr_left ?_
  intro v _
  simp [mul_comm]

theorem area_transform (p0 p1 p2 p3 p4 : K × K) (m : K × K × K × K) :
    areaG 0 (transformG m [p0, p1, p2, p3, p4]) = detG m * areaG 0 [p0, p1, p2, p3, p4] := by
  simp [transformG, applyG, detG, areaG, areaG.go]; ring

theorem area_transform3 (p0 p1 p2 : K × K) (m : K × K × K × K) :
    areaG 0 (transformG m [p0, p1, p2]) = detG m * areaG 0 [p0, p1, p2] := by
  simp [transformG, applyG, detG, areaG, areaG.go]; ring

theorem centre_transform3 (p0 p1 p2 : K × K) (m : K × K × K × K) :
    centreG 0 3 (transformG m [p0, p1, p2]) = applyG m (centreG 0 3 [p0, p1, p2]) := by
  simp [transformG, applyG, centreG]; constructor <;> ring

theorem centre_transform (p0 p1 p2 p3 p4 : K × K) (m : K × K × K × K) :
    centreG 0 5 (transformG m [p0, p1, p2, p3, p4]) = applyG m (centreG 0 5 [p0, p1, p2, p3, p4]) := by
  simp [transformG, applyG, centreG]; constructor <;> ring

end maps

/-! ### tie of the full chain to the `Float` model -/

theorem polyScale_tie (vs : Poly) (s : Float) : (polyScale vs s).map toPair = scaleG' (vs.map toPair) s := by
  simp only [polyScale, scaleG', List.map_map]; rfl

theorem transformPoly_tie (vs : Poly) (m : Float × Float × Float × Float) (h : vs.length = 5) :
    (transformPoly vs m).map toPair = polyNewG (0.0 : Float) (transformG m (vs.map toPair)) := by
  obtain ⟨m00, m01, m10, m11⟩ := m
  unfold transformPoly
  simp only [List.length_map, h, true_or, if_true]
  rewrite [polyNew_tie]
  simp only [transformG, List.map_map]
  rfl

theorem polyNew_length (vs : Poly) : (polyNew vs).length = vs.length := by
  unfold polyNew; split
  · rfl
  · exact List.length_reverse

theorem pentagonLocalG_length {α : Type} [Add α] [Mul α] [Neg α] (P : List (α × α)) (w : α × α) (b : α × α × α × α)
    (ofInt : Int → α) (a : Anchor) : (pentagonLocalG P w b ofInt a).length = P.length := by
  obtain ⟨b00, b01, b10, b11⟩ := b
  unfold pentagonLocalG
  simp only [translate, List.length_map]
  repeat' split
  all_goals simp [rot180, reflectY]

set_option maxRecDepth 8192 in
theorem seed_pentagon_length : pentagonConstants.pentagon.length = 5 := by
  have h : ∃ x0 x1 x2 x3 x4, pentagonConstants.pentagon = polyNew [x0, x1, x2, x3, x4] := ⟨_, _, _, _, _, rfl⟩
  obtain ⟨x0, x1, x2, x3, x4, h⟩ := h
  rewrite [h, polyNew_length]; rfl

theorem getPentagonLocal_length (a : Anchor) : (getPentagonLocal a).length = 5 := by
  have h := congrArg List.length (pentagonLocal_tie a)
  rewrite [List.length_map, pentagonLocalG_length, List.length_map, seed_pentagon_length] at h
  exact h

/-- **tie**: the whole of `get_pentagon_vertices` is the generic chain evaluated at `Float` -/
theorem getPentagonVertices_tie (resolution : Int) (quintant : Nat) (a : Anchor) :
    (getPentagonVertices resolution quintant a).map toPair =
      polyNewG (0.0 : Float) (transformG (quintantRotation quintant)
        (scaleG' (pentagonLocalG (pentagonConstants.pentagon.map toPair) (toPair pentagonConstants.w)
            pentagonConstants.basis Float.ofInt a)
          (1.0 / (if resolution ≥ 0 then Float.ofNat (2 ^ resolution.toNat)
                  else 1.0 / Float.ofNat (2 ^ (-resolution).toNat))))) := by
  unfold getPentagonVertices
  simp only []
  rewrite [transformPoly_tie _ _ (by rewrite [polyScale, List.length_map]; exact getPentagonLocal_length a),
    polyScale_tie, pentagonLocal_tie]
  rfl

/-! ### exact arithmetic -/

/-- the pentagon of anchor `a` scaled by `s` and multiplied by the matrix `m` (what `get_pentagon_vertices` feeds to
`PentagonShape::new`, with `s = 2^-resolution` and `m` the quintant rotation) -/
def placedQ (a : Anchor) (s : Rat) (m : Rat × Rat × Rat × Rat) : List (Rat × Rat) :=
  transformG m (scaleG' (pentagonQ a) s)

theorem InsideBy.map_pos {μ κ : Rat} (hκ : 0 < κ) (f : Rat × Rat → Rat × Rat)
    (hf : ∀ x y z, crossG (f x) (f y) (f z) = κ * crossG x y z) {vs : List (Rat × Rat)} {p : Rat × Rat}
    (h : InsideBy 0 μ vs p) : InsideBy 0 (κ * μ) (vs.map f) (f p) := by
  unfold InsideBy at h ⊢
  rewrite [crossesG_map f κ hf]
  intro c hc
  obtain ⟨c', hc', rfl⟩ := List.mem_map.1 hc
  exact mul_lt_mul_of_pos_left (h c' hc') hκ

theorem ConvexBy.map_pos {μ κ : Rat} (hκ : 0 < κ) (f : Rat × Rat → Rat × Rat)
    (hf : ∀ x y z, crossG (f x) (f y) (f z) = κ * crossG x y z) {vs : List (Rat × Rat)}
    (h : ConvexBy 0 μ vs) : ConvexBy 0 (κ * μ) (vs.map f) := by
  unfold ConvexBy at h ⊢
  rewrite [edgeCrossesG_map f κ hf]
  intro c hc
  obtain ⟨c', hc', rfl⟩ := List.mem_map.1 hc
  exact mul_lt_mul_of_pos_left (h c' hc') hκ

/-- **Scaling by a positive factor, any matrix of positive determinant and the final `PentagonShape::new` do not change
(i)-(iii).**  With `κ = det m · s²`: the trapezoid sum is `κ` times the seed's and positive, `PentagonShape::new` is the
identity, `get_center` of the result is the image of `centreQ a`, every `contains_point` cross product of that centre
exceeds `0.096 κ`, and for each edge the other three vertices are inside by more than `0.09 κ`. -/
theorem placedQ_facts (a : Anchor) (hF : IsFlip a.flips) (s : Rat) (hs : 0 < s) (m : Rat × Rat × Rat × Rat)
    (hd : 0 < detG m) :
    areaG 0 (placedQ a s m) = detG m * (s * s) * areaG 0 seedQ ∧
    0 < areaG 0 (placedQ a s m) ∧
    polyNewG 0 (placedQ a s m) = placedQ a s m ∧
    centreG 0 5 (placedQ a s m) = applyG m (applyG (s, 0, 0, s) (centreQ a)) ∧
    InsideBy 0 (detG m * (s * s) * (96 / 1000)) (placedQ a s m) (centreG 0 5 (placedQ a s m)) ∧
    ConvexBy 0 (detG m * (s * s) * (9 / 100)) (placedQ a s m) := by
  have hκ : 0 < detG m * (s * s) := mul_pos hd (mul_pos hs hs)
  have hf : ∀ x y z : Rat × Rat, crossG (applyG m (applyG (s, 0, 0, s) x)) (applyG m (applyG (s, 0, 0, s) y))
      (applyG m (applyG (s, 0, 0, s) z)) = detG m * (s * s) * crossG x y z := by
    intro x y z
    rewrite [cross_apply, cross_apply]
    simp only [detG]; ring
  have hmap : placedQ a s m = (pentagonQ a).map (fun v => applyG m (applyG (s, 0, 0, s) v)) := by
    unfold placedQ
    rewrite [scaleG'_eq_transform]
    simp only [transformG, List.map_map]; rfl
  obtain ⟨q0, q1, q2, q3, q4, hq⟩ : ∃ q0 q1 q2 q3 q4, pentagonQ a = [q0, q1, q2, q3, q4] := by
    have hl := pentagonQ_length a hF
    match pentagonQ a, hl with
    | [q0, q1, q2, q3, q4], _ => exact ⟨_, _, _, _, _, rfl⟩
  have harea : areaG 0 (placedQ a s m) = detG m * (s * s) * areaG 0 seedQ := by
    rewrite [← (pentagonQ_winding a hF).1]
    unfold placedQ
    rewrite [scaleG'_eq_transform, hq]
    show areaG 0 (transformG m [_, _, _, _, _]) = _
    rewrite [area_transform]
    show detG m * areaG 0 (transformG (s, 0, 0, s) [q0, q1, q2, q3, q4]) = _
    rewrite [area_transform]
    simp only [detG]; ring
  have hpos : 0 < areaG 0 (placedQ a s m) := by
    rewrite [harea]; exact mul_pos hκ seed_area_facts.1
  have hc : centreG 0 5 (placedQ a s m) = applyG m (applyG (s, 0, 0, s) (centreQ a)) := by
    unfold placedQ centreQ
    rewrite [scaleG'_eq_transform, hq]
    show centreG 0 5 (transformG m [_, _, _, _, _]) = _
    rewrite [centre_transform]
    show applyG m (centreG 0 5 (transformG (s, 0, 0, s) [q0, q1, q2, q3, q4])) = _
    rewrite [centre_transform]
    rfl
  refine ⟨harea, hpos, if_pos (le_of_lt hpos), hc, ?_, ?_⟩
  · rewrite [hc, hmap]
    exact (centreQ_insideBy a hF).map_pos hκ _ hf
  · rewrite [hmap]
    exact (pentagonQ_convexBy a hF).map_pos hκ _ hf

/-- corollary in the form of the task: strict versions -/
theorem placedQ_strict (a : Anchor) (hF : IsFlip a.flips) (s : Rat) (hs : 0 < s) (m : Rat × Rat × Rat × Rat)
    (hd : 0 < detG m) :
    WindingCorrectG 0 (polyNewG 0 (placedQ a s m)) ∧
    StrictlyInside 0 (polyNewG 0 (placedQ a s m)) (centreG 0 5 (polyNewG 0 (placedQ a s m))) ∧
    StrictlyConvex 0 (polyNewG 0 (placedQ a s m)) := by
  obtain ⟨_, hpos, hnew, _, hin, hcv⟩ := placedQ_facts a hF s hs m hd
  have hκ : 0 < detG m * (s * s) := mul_pos hd (mul_pos hs hs)
  rewrite [hnew]
  exact ⟨le_of_lt hpos, hin.strictly (le_of_lt (mul_pos hκ (by norm_num))),
    hcv.strictly (le_of_lt (mul_pos hκ (by norm_num)))⟩

/-- non-vacuity: resolution 3 (`s = 1/8`) and a rational rotation matrix (3-4-5 triangle) -/
example : StrictlyInside 0 (polyNewG 0 (placedQ ⟨2, (3, -7), (-1, 1)⟩ (1 / 8) (3 / 5, -(4 / 5), 4 / 5, 3 / 5)))
    (centreG 0 5 (polyNewG 0 (placedQ ⟨2, (3, -7), (-1, 1)⟩ (1 / 8) (3 / 5, -(4 / 5), 4 / 5, 3 / 5)))) :=
  (placedQ_strict _ (by simp [IsFlip]) _ (by norm_num) _ (by decide +kernel)).2.1
/-- cross-check by direct kernel evaluation -/
example : StrictlyInside 0 (polyNewG 0 (placedQ ⟨2, (3, -7), (-1, 1)⟩ (1 / 8) (3 / 5, -(4 / 5), 4 / 5, 3 / 5)))
    (centreG 0 5 (polyNewG 0 (placedQ ⟨2, (3, -7), (-1, 1)⟩ (1 / 8) (3 / 5, -(4 / 5), 4 / 5, 3 / 5)))) := by
  unfold StrictlyInside InsideBy; decide +kernel

/-! ### the quintant triangle -/

/-- the quintant triangle `[u, v, w]` with the exact values of the `f64` constants computed at start-up -/
def triQ : List (Rat × Rat) := [ratPair Gen.Runtime.U, ratPair Gen.Runtime.V, ratPair Gen.Runtime.W]

/-- **the three facts for the quintant triangle** (kernel-evaluated): the padded five-vertex list the constants module
builds and the three-vertex list `get_quintant_vertices` extracts both pass the winding test (`PentagonShape::new` and
`new_triangle` keep the order), the single orientation is positive (> 0.55: strictly convex, every edge has the third
vertex strictly inside), and the centre of the three vertices is strictly inside (> 0.18). -/
theorem triQ_facts :
    polyNewG 0 (triQ ++ [(0, 0), (0, 0)]) = triQ ++ [(0, 0), (0, 0)] ∧
    (polyNewG 0 (triQ ++ [(0, 0), (0, 0)])).take 3 = triQ ∧
    0 < areaG 0 triQ ∧ polyNewG 0 triQ = triQ ∧
    ConvexBy 0 (55 / 100) triQ ∧ (∀ c ∈ tripleCrossesG 0 triQ, (55 / 100 : Rat) < c) ∧
    InsideBy 0 (18 / 100) triQ (centreG 0 3 triQ) := by
  unfold ConvexBy InsideBy
  decide +kernel

/-- the triangle facts under any matrix of positive determinant (the quintant rotation of `get_quintant_vertices`) -/
theorem triQ_transform (m : Rat × Rat × Rat × Rat) (hd : 0 < detG m) :
    0 < areaG 0 (transformG m triQ) ∧ polyNewG 0 (transformG m triQ) = transformG m triQ ∧
    InsideBy 0 (detG m * (18 / 100)) (transformG m triQ) (centreG 0 3 (transformG m triQ)) ∧
    ConvexBy 0 (detG m * (55 / 100)) (transformG m triQ) := by
  have hpos : 0 < areaG 0 (transformG m triQ) := by
    unfold triQ; rewrite [area_transform3]; exact mul_pos hd triQ_facts.2.2.1
  have hc : centreG 0 3 (transformG m triQ) = applyG m (centreG 0 3 triQ) := by
    unfold triQ; exact centre_transform3 _ _ _ _
  rewrite [hc]
  exact ⟨hpos, if_pos (le_of_lt hpos), triQ_facts.2.2.2.2.2.2.map_pos hd _ (cross_apply m), triQ_facts.2.2.2.2.1.map_pos hd _ (cross_apply m)⟩


end A5.PG
