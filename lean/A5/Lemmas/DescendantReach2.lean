import A5.Lemmas.DescendantReach
import A5.Lemmas.PentagonConvex
import Mathlib.Analysis.Real.Sqrt
/-! # Planar reach of all descendants, part 2: distances with `Real.sqrt`, and the descendant PENTAGONS as sets

Part 1 (`DescendantReach.lean`) bounds the squared distance of the scaled descendant CENTRE from the ancestor's centre by
`r²·(2 − 2/2^k)² < (2r)²`, `r² = 0.4213·area`.  Here:

* `descendant_centre_dist`: the same with the Euclidean distance as a real number:
  `dist(centreQ ad / 2^k, centreQ ap) ≤ (2 − 2/2^k)·√(0.4213·area) < 2·√(0.4213·area)`;
* `vertex_circumradius`: every vertex of every cell pentagon is within `√(0.705765·area) < 0.8402·√area` of the
  pentagon's centre (the placement is an isometry; one kernel check on the seed pentagon; sharp to six digits);
* `descendant_vertex_reach` / `descendant_pentagon_reach`: every vertex, and every point of the convex hull (`InHull`)
  of the vertices, of every descendant pentagon, scaled into the ancestor's frame, is within
  `(1.2982 − 0.458/2^k)·√area < 1.2982·√area` of the ancestor's centre (`1.2982 = 2·0.6491`, `0.6491² ≥ 0.4213`).
  So the whole subtree of a cell, at every depth, lies in ONE disc of radius `1.2982·√(cell area)` about the cell's centre
  (the cell itself lies in the disc of radius `0.8402·√area`).

Not proved here: that the solid pentagon "as the set `contains_point` accepts" (intersection of five half planes) equals
the convex hull of its vertices (it is strictly convex: `A5.PG.pentagonQ_convex`); the statements on the sphere. -/
namespace A5.DR
open A5 A5.HilbertLocate A5.PG A5.CP

/-! ## distances as real numbers -/

/-- squared planar distance of two rational points -/
def distSq (p q : ℚ × ℚ) : ℚ := (p.1 - q.1) * (p.1 - q.1) + (p.2 - q.2) * (p.2 - q.2)

/-- a point of depth `n + k`, in the lattice frame of depth `n` (lattice units halve per level) -/
def scaleDown (k : Nat) (p : ℚ × ℚ) : ℚ × ℚ := (p.1 / 2 ^ k, p.2 / 2 ^ k)

/-- planar Euclidean distance of two rational points, as a real number -/
noncomputable def planeDist (p q : ℚ × ℚ) : ℝ := Real.sqrt ((distSq p q : ℚ) : ℝ)

theorem descDistSq_eq (k : Nat) (ap ad : Anchor) : descDistSq k ap ad = distSq (scaleDown k (centreQ ad)) (centreQ ap) := rfl

theorem planeDist_le {p q : ℚ × ℚ} {A a : ℚ} (hA : 0 ≤ A) (ha : 0 ≤ a) (h : distSq p q ≤ A * (a * a)) :
    planeDist p q ≤ (a : ℝ) * Real.sqrt (A : ℝ) := by
  have hA' : (0 : ℝ) ≤ (A : ℝ) := by exact_mod_cast hA
  have ha' : (0 : ℝ) ≤ (a : ℝ) := by exact_mod_cast ha
  have h' : ((distSq p q : ℚ) : ℝ) ≤ (A : ℝ) * ((a : ℝ) * (a : ℝ)) := by exact_mod_cast h
  unfold planeDist
  rewrite [Real.sqrt_le_iff]
  refine ⟨mul_nonneg ha' (Real.sqrt_nonneg _), ?_⟩
  rewrite [mul_pow, Real.sq_sqrt hA']
  linarith [h', sq (a : ℝ)]

theorem planeDist_lt {p q : ℚ × ℚ} {A : ℚ} (hA : 0 < A) (h : distSq p q < 4 * A) :
    planeDist p q < 2 * Real.sqrt (A : ℝ) := by
  have hA' : (0 : ℝ) < (A : ℝ) := by exact_mod_cast hA
  have h' : ((distSq p q : ℚ) : ℝ) < 4 * (A : ℝ) := by exact_mod_cast h
  unfold planeDist
  rewrite [Real.sqrt_lt' (mul_pos (by norm_num) (Real.sqrt_pos.2 hA')), mul_pow, Real.sq_sqrt hA'.le]
  linarith

/-- **Descendant reach, Euclidean distance.**  For every ancestor position `s` at curve depth `n+1 ≥ 1`, every `k` with
`n+1+k ≤ 30`, every descendant `s·4^k + t`, every orientation: the distance between the descendant's centre scaled into
the ancestor's frame and the ancestor's centre is at most `(1 + 1/2 + … + 1/2^(k-1))·r` and less than `2·r`, where
`r = √(0.4213 · area of the ancestor's pentagon)` is the one-level reach. -/
theorem descendant_centre_dist (n k o s t : Nat) (hn : n + 1 + k ≤ 30) (ho : o < 6) (hs : s < 4 ^ (n + 1))
    (ht : t < 4 ^ k) :
    ∃ ap ad, sToAnchor s (n + 1) o = .ok ap ∧ sToAnchor (s * 4 ^ k + t) (n + 1 + k) o = .ok ad ∧
      planeDist (scaleDown k (centreQ ad)) (centreQ ap) ≤
        (2 - 2 / 2 ^ k) * Real.sqrt ((4213 / 10000 * (areaG 0 (pentagonQ ap) / 2) : ℚ) : ℝ) ∧
      planeDist (scaleDown k (centreQ ad)) (centreQ ap) <
        2 * Real.sqrt ((4213 / 10000 * (areaG 0 (pentagonQ ap) / 2) : ℚ) : ℝ) := by
  obtain ⟨ap, ad, h1, h2, hp, hb⟩ := descendant_chain n o s ho hs k t hn ht
  refine ⟨ap, ad, h1, h2, ?_⟩
  rewrite [pentagon_area ap hp]
  rewrite [descDistSq_eq] at hb
  have hA := reachA_pos
  constructor
  · have := planeDist_le (le_of_lt hA) (series_nonneg k) hb
    push_cast at this
    exact this
  · have hlt : (2 - 2 / 2 ^ k : ℚ) * (2 - 2 / 2 ^ k) < 2 * 2 := mul_self_lt_mul_self (series_nonneg k) (series_lt_two k)
    have h4 : distSq (scaleDown k (centreQ ad)) (centreQ ap) < 4 * reachA := by nlinarith
    exact planeDist_lt hA h4

/-! ## the circumradius of the cell pentagons -/

section algebra
variable {K : Type} [Field K]

/-- the placement of `get_pentagon_vertices` (rotation by 180°, mirror, translations) is an isometry -/
theorem place_dist (F : Int × Int) (hF : IsFlip F) (r : Bool) (w t x y : K × K) :
    ((placeG F r w t x).1 - (placeG F r w t y).1) * ((placeG F r w t x).1 - (placeG F r w t y).1) +
      ((placeG F r w t x).2 - (placeG F r w t y).2) * ((placeG F r w t x).2 - (placeG F r w t y).2) =
    (x.1 - y.1) * (x.1 - y.1) + (x.2 - y.2) * (x.2 - y.2) := by
  rcases hF with rfl | rfl | rfl | rfl <;> cases r <;> simp [placeG, localC] <;> ring

end algebra

/-- the seed pentagon: every vertex is within `√(0.705765·area)` of the centre (kernel-evaluated on the runtime constants) -/
theorem seed_circumradius : ∀ p ∈ seedQ, distSq p (centreG 0 5 seedQ) ≤ 705765 / 1000000 * pentArea := by
  decide +kernel

/-- … and the constant is sharp to the sixth digit -/
theorem seed_circumradius_sharp : ∃ p ∈ seedQ, 705764 / 1000000 * pentArea < distSq p (centreG 0 5 seedQ) := by
  decide +kernel

/-- **Circumradius.**  For every anchor with `±1` flips (any `k`, any offset), every vertex of the pentagon is within
`√(0.705765·area) < 0.8402·√area` of the pentagon's centre. -/
theorem vertex_circumradius (a : Anchor) (hF : IsFlip a.flips) :
    ∀ v ∈ pentagonQ a, distSq v (centreQ a) ≤ 705765 / 1000000 * pentArea := by
  obtain ⟨k, ⟨oi, oj⟩, F⟩ := a
  change IsFlip F at hF
  have hs := seed_circumradius
  rewrite [centreQ_eq_place ⟨k, (oi, oj), F⟩ hF]
  unfold pentagonQ
  generalize centreG 0 5 seedQ = m at hs ⊢
  rewrite [seedQ_eq] at hs ⊢
  rewrite [pentagon_place _ _ _ _ _ _ _ _ _ _ _ hF]
  dsimp only
  generalize needsReflect ⟨k, (oi, oj), F⟩ = r
  unfold distSq at hs ⊢
  intro v hv
  cases r <;> simp only [if_true, if_false, Bool.false_eq_true, List.mem_cons, List.not_mem_nil, or_false] at hv <;>
    rcases hv with rfl | rfl | rfl | rfl | rfl <;> rewrite [place_dist _ hF] <;>
    exact hs _ (by simp)

/-! ## vertices and convex hulls of the descendant pentagons -/

/-- the radius, in units of `√area`, of the disc about the ancestor's centre that contains the descendants `k` levels
down: `0.6491·(2 − 2/2^k) + 0.8402/2^k = 1.2982 − 0.458/2^k` -/
def descReach (k : Nat) : ℚ := 6491 / 10000 * (2 - 2 / 2 ^ k) + 8402 / 10000 * (1 / 2 ^ k)

theorem descReach_eq (k : Nat) : descReach k = 12982 / 10000 - 458 / 1000 / 2 ^ k := by
  unfold descReach; ring

theorem descReach_nonneg (k : Nat) : 0 ≤ descReach k := by
  have h1 := series_nonneg k
  have h2 : (0 : ℚ) < 1 / 2 ^ k := by positivity
  unfold descReach
  nlinarith

theorem descReach_lt (k : Nat) : descReach k < 12982 / 10000 := by
  have h2 : (0 : ℚ) < 458 / 1000 / 2 ^ k := by positivity
  rewrite [descReach_eq]
  linarith

/-- one vertex (or any point `v` within the circumradius of the descendant's centre) -/
theorem reach_of_near (k : Nat) (ap ad : Anchor) (v : ℚ × ℚ)
    (hb : descDistSq k ap ad ≤ reachA * ((2 - 2 / 2 ^ k) * (2 - 2 / 2 ^ k)))
    (hv : distSq v (centreQ ad) ≤ 705765 / 1000000 * pentArea) :
    distSq (scaleDown k v) (centreQ ap) ≤ pentArea * (descReach k * descReach k) := by
  have hP := pentArea_pos
  have hx : (0 : ℚ) < 1 / 2 ^ k := by positivity
  have hs := series_nonneg k
  have hu : ((centreQ ad).1 / 2 ^ k - (centreQ ap).1) * ((centreQ ad).1 / 2 ^ k - (centreQ ap).1) +
      ((centreQ ad).2 / 2 ^ k - (centreQ ap).2) * ((centreQ ad).2 / 2 ^ k - (centreQ ap).2) ≤
      pentArea * (6491 / 10000 * (2 - 2 / 2 ^ k) * (6491 / 10000 * (2 - 2 / 2 ^ k))) := by
    have h0 := mul_nonneg (le_of_lt hP) (mul_self_nonneg (2 - 2 / 2 ^ k : ℚ))
    unfold descDistSq reachA at hb
    linarith
  have hw : (v.1 - (centreQ ad).1) * (1 / 2 ^ k) * ((v.1 - (centreQ ad).1) * (1 / 2 ^ k)) +
      (v.2 - (centreQ ad).2) * (1 / 2 ^ k) * ((v.2 - (centreQ ad).2) * (1 / 2 ^ k)) ≤
      pentArea * (8402 / 10000 * (1 / 2 ^ k) * (8402 / 10000 * (1 / 2 ^ k))) := by
    have e : (v.1 - (centreQ ad).1) * (1 / 2 ^ k) * ((v.1 - (centreQ ad).1) * (1 / 2 ^ k)) +
        (v.2 - (centreQ ad).2) * (1 / 2 ^ k) * ((v.2 - (centreQ ad).2) * (1 / 2 ^ k)) =
        distSq v (centreQ ad) * (1 / 2 ^ k * (1 / 2 ^ k)) := by
      unfold distSq; ring
    rewrite [e]
    have h1 := mul_le_mul_of_nonneg_right hv (le_of_lt (mul_pos hx hx))
    have h0 := mul_nonneg (le_of_lt hP) (le_of_lt (mul_pos hx hx))
    linarith
  have key := sq_add_le (le_of_lt hP) (mul_nonneg (by norm_num) hs) (mul_nonneg (by norm_num) (le_of_lt hx)) hu hw
  have e : distSq (scaleDown k v) (centreQ ap) =
      ((centreQ ad).1 / 2 ^ k - (centreQ ap).1 + (v.1 - (centreQ ad).1) * (1 / 2 ^ k)) *
        ((centreQ ad).1 / 2 ^ k - (centreQ ap).1 + (v.1 - (centreQ ad).1) * (1 / 2 ^ k)) +
      ((centreQ ad).2 / 2 ^ k - (centreQ ap).2 + (v.2 - (centreQ ad).2) * (1 / 2 ^ k)) *
        ((centreQ ad).2 / 2 ^ k - (centreQ ap).2 + (v.2 - (centreQ ad).2) * (1 / 2 ^ k)) := by
    unfold distSq scaleDown
    dsimp only
    ring
  rewrite [e]
  exact key

/-- the convex hull of a list of points: the smallest set containing them and closed under segments -/
inductive InHull (vs : List (ℚ × ℚ)) : ℚ × ℚ → Prop
  | vertex (v : ℚ × ℚ) : v ∈ vs → InHull vs v
  | seg (p q : ℚ × ℚ) (μ : ℚ) : InHull vs p → InHull vs q → 0 ≤ μ → μ ≤ 1 →
      InHull vs ((1 - μ) * p.1 + μ * q.1, (1 - μ) * p.2 + μ * q.2)

/-- discs are convex -/
theorem disc_convex (c p q : ℚ × ℚ) (B μ : ℚ) (h0 : 0 ≤ μ) (h1 : μ ≤ 1) (hp : distSq p c ≤ B) (hq : distSq q c ≤ B) :
    distSq ((1 - μ) * p.1 + μ * q.1, (1 - μ) * p.2 + μ * q.2) c ≤ B := by
  unfold distSq at hp hq ⊢
  dsimp only
  have h1' : 0 ≤ 1 - μ := by linarith
  nlinarith [mul_nonneg (mul_nonneg h0 h1') (add_nonneg (mul_self_nonneg (p.1 - q.1)) (mul_self_nonneg (p.2 - q.2))),
    mul_nonneg h1' (sub_nonneg.2 hp), mul_nonneg h0 (sub_nonneg.2 hq)]

/-- a disc (about `c`, in the ancestor's frame) that contains the scaled vertices contains the scaled convex hull -/
theorem hull_in_disc (k : Nat) (vs : List (ℚ × ℚ)) (c : ℚ × ℚ) (B : ℚ) (h : ∀ v ∈ vs, distSq (scaleDown k v) c ≤ B) :
    ∀ p, InHull vs p → distSq (scaleDown k p) c ≤ B := by
  intro p hp
  induction hp with
  | vertex v hv => exact h v hv
  | seg p q μ _ _ h0 h1 ihp ihq =>
    have e : scaleDown k ((1 - μ) * p.1 + μ * q.1, (1 - μ) * p.2 + μ * q.2) =
        ((1 - μ) * (scaleDown k p).1 + μ * (scaleDown k q).1, (1 - μ) * (scaleDown k p).2 + μ * (scaleDown k q).2) := by
      unfold scaleDown
      refine Prod.ext ?_ ?_ <;> (dsimp only; ring)
    rewrite [e]
    exact disc_convex c _ _ B μ h0 h1 ihp ihq

/-- the anchor of every valid position has `±1` flips -/
theorem sToAnchor_isFlip (s n o : Nat) (hn : n ≤ 30) (hs : s < 4 ^ n) (a : Anchor) (h : sToAnchor s n o = .ok a) :
    IsFlip a.flips := by
  cases Outcome.ok.inj ((sToAnchor_eq s n o hn hs).symm.trans h)
  exact finalAnchor_isFlip _ n _ _ (adjustS_lt _ n s hs)

/-- **The cell itself** (`k = 0` of the next theorem, without the depth restriction): every vertex and every point of
the convex hull of the pentagon of a valid position is within `√(0.705765·area) < 0.8402·√area` of its centre. -/
theorem cell_pentagon_reach (n o s : Nat) (hn : n ≤ 30) (hs : s < 4 ^ n) :
    ∃ a, sToAnchor s n o = .ok a ∧
      ∀ p, InHull (pentagonQ a) p → distSq p (centreQ a) ≤ 705765 / 1000000 * (areaG 0 (pentagonQ a) / 2) := by
  refine ⟨_, sToAnchor_eq s n o hn hs, ?_⟩
  have hF := finalAnchor_isFlip _ n (oriInvertJ o) (oriFlipIJ o) (adjustS_lt (oriReverse o) n s hs)
  rewrite [pentagon_area _ hF]
  intro p hp
  have e : ∀ v : ℚ × ℚ, scaleDown 0 v = v := by
    intro v; unfold scaleDown; rewrite [pow_zero, div_one, div_one]; rfl
  have := hull_in_disc 0 _ (centreQ _) _ (fun v hv => by rewrite [e]; exact vertex_circumradius _ hF v hv) p hp
  rewrite [e] at this
  exact this

/-- **Descendant pentagons, vertices.**  For every ancestor position `s` at curve depth `n+1 ≥ 1`, every `k` with
`n+1+k ≤ 30`, every descendant `s·4^k + t`, every orientation: every VERTEX of the descendant's pentagon, scaled into the
ancestor's frame, is within `(1.2982 − 0.458/2^k)·√area < 1.2982·√area` of the ancestor's centre (squared:
`< 1.6854·area`), `area` the area of the ancestor's pentagon. -/
theorem descendant_vertex_reach (n k o s t : Nat) (hn : n + 1 + k ≤ 30) (ho : o < 6) (hs : s < 4 ^ (n + 1))
    (ht : t < 4 ^ k) :
    ∃ ap ad, sToAnchor s (n + 1) o = .ok ap ∧ sToAnchor (s * 4 ^ k + t) (n + 1 + k) o = .ok ad ∧
      ∀ v ∈ pentagonQ ad,
        distSq (scaleDown k v) (centreQ ap) ≤ areaG 0 (pentagonQ ap) / 2 * (descReach k * descReach k) ∧
        distSq (scaleDown k v) (centreQ ap) < 16854 / 10000 * (areaG 0 (pentagonQ ap) / 2) := by
  obtain ⟨ap, ad, h1, h2, hp, hb⟩ := descendant_chain n o s ho hs k t hn ht
  have hd := sToAnchor_isFlip _ _ o hn (desc_lt s (n + 1) k t hs ht) ad h2
  refine ⟨ap, ad, h1, h2, fun v hv => ?_⟩
  rewrite [pentagon_area ap hp]
  have key := reach_of_near k ap ad v hb (vertex_circumradius ad hd v hv)
  refine ⟨key, ?_⟩
  have hlt : descReach k * descReach k < 12982 / 10000 * (12982 / 10000) :=
    mul_self_lt_mul_self (descReach_nonneg k) (descReach_lt k)
  have hP := pentArea_pos
  nlinarith

/-- **Descendant pentagons as sets.**  Same hypotheses: every point of the convex hull of the descendant's pentagon,
scaled into the ancestor's frame, lies in the disc of radius `(1.2982 − 0.458/2^k)·√area < 1.2982·√area` about the
ancestor's centre.  Hence all descendants of a cell, at every depth, lie in one disc of radius `1.2982·√(cell area)`
(cell-frame units) about the cell's centre. -/
theorem descendant_pentagon_reach (n k o s t : Nat) (hn : n + 1 + k ≤ 30) (ho : o < 6) (hs : s < 4 ^ (n + 1))
    (ht : t < 4 ^ k) :
    ∃ ap ad, sToAnchor s (n + 1) o = .ok ap ∧ sToAnchor (s * 4 ^ k + t) (n + 1 + k) o = .ok ad ∧
      ∀ p, InHull (pentagonQ ad) p →
        distSq (scaleDown k p) (centreQ ap) ≤ areaG 0 (pentagonQ ap) / 2 * (descReach k * descReach k) ∧
        distSq (scaleDown k p) (centreQ ap) < 16854 / 10000 * (areaG 0 (pentagonQ ap) / 2) ∧
        planeDist (scaleDown k p) (centreQ ap) < 12982 / 10000 * Real.sqrt ((areaG 0 (pentagonQ ap) / 2 : ℚ) : ℝ) := by
  obtain ⟨ap, ad, h1, h2, hv⟩ := descendant_vertex_reach n k o s t hn ho hs ht
  have hp := sToAnchor_isFlip _ _ o (by omega) hs ap h1
  refine ⟨ap, ad, h1, h2, fun p hp' => ?_⟩
  have key := hull_in_disc k _ (centreQ ap) _ (fun v hv' => (hv v hv').1) p hp'
  rewrite [pentagon_area ap hp] at key ⊢
  have hlt : descReach k * descReach k < 12982 / 10000 * (12982 / 10000) :=
    mul_self_lt_mul_self (descReach_nonneg k) (descReach_lt k)
  have hP := pentArea_pos
  have hle := planeDist_le (le_of_lt hP) (descReach_nonneg k) key
  have hs0 : (0 : ℝ) < Real.sqrt ((pentArea : ℚ) : ℝ) := Real.sqrt_pos.2 (by exact_mod_cast hP)
  have hr : ((descReach k : ℚ) : ℝ) < 12982 / 10000 := by
    have := (Rat.cast_lt (K := ℝ)).2 (descReach_lt k)
    push_cast at this
    exact this
  refine ⟨key, by nlinarith, lt_of_le_of_lt hle (mul_lt_mul_of_pos_right hr hs0)⟩

/-- non-vacuity: orientation 3 (reverse + flipIJ), ancestor 2 at depth 1, descendant `2·4^3 + 57 = 185` at depth 4;
the midpoint of the first two vertices of the descendant's pentagon is in the disc -/
example : ∃ ap ad, sToAnchor 2 1 3 = .ok ap ∧ sToAnchor 185 4 3 = .ok ad ∧
    ∀ v0 v1 rest, pentagonQ ad = v0 :: v1 :: rest →
      distSq (scaleDown 3 ((1 - 1 / 2) * v0.1 + 1 / 2 * v1.1, (1 - 1 / 2) * v0.2 + 1 / 2 * v1.2)) (centreQ ap) <
        16854 / 10000 * (areaG 0 (pentagonQ ap) / 2) := by
  obtain ⟨ap, ad, h1, h2, h3⟩ := descendant_pentagon_reach 0 3 3 2 57 (by decide) (by decide) (by decide) (by decide)
  refine ⟨ap, ad, h1, h2, fun v0 v1 rest e => ?_⟩
  refine (h3 _ (InHull.seg v0 v1 (1 / 2) (.vertex _ ?_) (.vertex _ ?_) (by norm_num) (by norm_num))).2.1
  · rewrite [e]; exact List.mem_cons_self ..
  · rewrite [e]; exact List.mem_cons_of_mem _ (List.mem_cons_self ..)

/-- non-vacuity of `descendant_centre_dist` at the deepest level: ancestor at depth 1, descendant at depth 30 -/
example : ∃ ap ad, sToAnchor 1 1 0 = .ok ap ∧ sToAnchor (1 * 4 ^ 29 + 123456789012345) (0 + 1 + 29) 0 = .ok ad ∧
    planeDist (scaleDown 29 (centreQ ad)) (centreQ ap) <
      2 * Real.sqrt ((4213 / 10000 * (areaG 0 (pentagonQ ap) / 2) : ℚ) : ℝ) := by
  obtain ⟨ap, ad, h1, h2, _, h3⟩ := descendant_centre_dist 0 29 0 1 123456789012345 (by decide) (by decide) (by decide)
    (by decide)
  exact ⟨ap, ad, h1, h2, h3⟩

end A5.DR
