import A5.Lemmas.FloatApiTotal
import A5.Lemmas.MemoLemmas
import A5.Model.MemoFloat
/-! Float API totality, part 2 (core-only): the *memoised* projection.

`A5/Model/Geo.lean` recomputes every triangle; the Rust `DodecahedronProjection` caches them in two
per-thread vectors (30 + 240 slots) that are indexed with computed positions.  `A5/Model/Memo.lean` models
that state machine, `A5/Model/MemoFloat.lean` instantiates it with the float value functions.  Here:

* `memo_call_outcomes`: in every reachable memo state, for every `forward`/`inverse` call with ANY origin
  id and ANY floats, the memoised call returns a value, `crsVertex` (real face only) or `invalidOrigin`
  (exactly for ids ≥ 12): never a panic, never an out-of-bounds slot (`other`).
* `sphTrianglesCompute_of_check`: the hypothesis `SphTrianglesCompute` of the conditional success theorems
  of part 1 is implied by the *finite* boolean `memoSphTotalCheck` that the driver evaluates (240 triangles):
  the float-dependent `crsVertex` event is thereby reduced, for all inputs at once, to one evaluation. -/
namespace A5
open A5.Memo

/-- the triangle computed by the stateless model is the value the memo stores under the key -/
theorem computeSphericalTriangle_eq_memo (i o : Nat) (r : Bool) (hi : i ≤ 9) (ho : o < 12) :
    computeSphericalTriangle i o r = (memoSphFrom (memoParams.faceVal ⟨i, r, true⟩) ⟨o, i, r⟩).1 := by
  have hft : getFaceTriangle i r true = .ok (memoParams.faceVal ⟨i, r, true⟩) := by
    unfold getFaceTriangle
    rewrite [if_neg (by simp only [Gen.FACE_TRIANGLE_MAX]; omega)]
    rfl
  unfold computeSphericalTriangle memoSphFrom
  rewrite [if_neg (by rewrite [origins_length]; omega), hft]
  simp only [Outcome.bind_ok]
  dsimp only [toPolar, gnomonicInverse]
  generalize memoParams.faceVal ⟨i, r, true⟩ = ft
  generalize crsGetVertex (transformQuat (toCartesian _ _) (originAt o).quat) = x
  generalize crsGetVertex (transformQuat (toCartesian _ _) (originAt o).quat) = y
  generalize crsGetVertex (transformQuat (toCartesian _ _) (originAt o).quat) = z
  cases x <;> cases y <;> cases z <;> rfl

theorem memoParams_sphFrom (ft : FaceTriangle) (k : SKey) : memoParams.sphFrom ft k = memoSphFrom ft k := by
  simp only [memoParams]

theorem computeSphericalTriangle_eq_memo' (i o : Nat) (r : Bool) (hi : i ≤ 9) (ho : o < 12) :
    computeSphericalTriangle i o r = (memoParams.sphFrom (memoParams.faceVal ⟨i, r, true⟩) ⟨o, i, r⟩).1 := by
  rewrite [memoParams_sphFrom]
  exact computeSphericalTriangle_eq_memo i o r hi ho

theorem memoParams_faceVal (k : FKey) :
    memoParams.faceVal k =
      if k.reflected then reflectedFaceTriangle k.idx k.squashed else baseFaceTriangle k.idx := Eq.trans rfl rfl

/-- (stated via rewriting, not `rfl`: the kernel would otherwise unfold the float triangle computations) -/
theorem memoParams_wf : memoParams.WF := by
  refine ⟨origins_length, fun i s s' => ?_⟩
  rewrite [memoParams_faceVal, memoParams_faceVal]
  simp only [Bool.false_eq_true, if_false]

theorem memoParams_classify_origin (a : DCall) : (memoParams.classify a).origin = a.origin := by
  show (let (rho, gamma) := a.polar
        (⟨a.origin, faceTriangleIndex gamma, shouldReflect rho gamma⟩ : SKey)).origin = a.origin
  generalize a.polar = rg
  obtain ⟨rho, gamma⟩ := rg
  rfl

theorem memoParams_classify_idx (a : DCall) : (memoParams.classify a).idx ≤ 9 := by
  show (let (rho, gamma) := a.polar
        (⟨a.origin, faceTriangleIndex gamma, shouldReflect rho gamma⟩ : SKey)).idx ≤ 9
  generalize a.polar = rg
  obtain ⟨rho, gamma⟩ := rg
  exact faceTriangleIndex_le gamma

/-- the stateless reference of a memoised call, for every call whatsoever -/
theorem memo_pureCall_outcomes (a : DCall) :
    (pureCall memoParams a).Within (ProjErr a.origin) (fun _ => False) := by
  have hidx := memoParams_classify_idx a
  have hor := memoParams_classify_origin a
  unfold pureCall
  have hn : memoParams.numOrigins = 12 := origins_length
  by_cases ho : (memoParams.classify a).origin ≥ memoParams.numOrigins
  · rewrite [if_pos ho]
    exact (Outcome.Within.err_iff _).2 (Or.inr ⟨rfl, by omega⟩)
  rewrite [if_neg ho]
  generalize hk : memoParams.classify a = k at hidx hor ho ⊢
  obtain ⟨ko, ki, kr⟩ := k
  simp only at hidx hor ho
  rewrite [pureFace_ok memoParams ⟨ki, kr, false⟩ (by simp only [Gen.FACE_TRIANGLE_MAX]; exact hidx)]
  dsimp only
  have hs : pureSph memoParams ⟨ko, ki, kr⟩ = computeSphericalTriangle ki ko kr := by
    unfold pureSph
    rewrite [if_neg (Nat.not_le.mpr (slotS_lt ⟨ko, ki, kr⟩ (by simp only [Gen.FACE_TRIANGLE_MAX]; exact hidx)
      (by simp only [Gen.NUM_ORIGINS_WORLD]; omega))), if_neg ho,
      pureFace_ok memoParams ⟨ki, kr, true⟩ (by simp only [Gen.FACE_TRIANGLE_MAX]; exact hidx)]
    dsimp only
    exact (computeSphericalTriangle_eq_memo' ki ko kr hidx (by omega)).symm
  rewrite [hs]
  have hw := computeSphericalTriangle_okOrCrs ki ko kr hidx (by omega)
  cases hc : computeSphericalTriangle ki ko kr with
  | ok st => exact Outcome.Within.ok _
  | err e =>
    rewrite [hc] at hw
    have he := (Outcome.Within.err_iff (E := (· = ErrKind.crsVertex)) (K := fun _ => False) e).1 hw
    exact (Outcome.Within.err_iff _).2 (Or.inl ⟨he, by omega⟩)
  | panic p =>
    rewrite [hc] at hw
    exact ((Outcome.Within.panic_iff (E := (· = ErrKind.crsVertex)) (K := fun _ => False) p).1 hw).elim

/-- **the memoised projection is total**: from any state reachable from a fresh instance (`Inv`), every
`forward` / `inverse` call - any origin id, any floats - returns a value, `crsVertex` or `invalidOrigin`.
No slot index is ever out of range and the invariant is kept. -/
theorem memo_call_outcomes (s : MemoState FaceTriangle SphTriangle) (hs : Inv memoParams s) (a : DCall) :
    ((call memoParams s a).2).Within (ProjErr a.origin) (fun _ => False) ∧ Inv memoParams (call memoParams s a).1 := by
  refine ⟨?_, call_inv memoParams_wf hs a⟩
  rewrite [call_res memoParams_wf hs a]
  exact memo_pureCall_outcomes a

/-- every history of calls from a fresh instance: all results are of the three kinds -/
theorem memo_history_outcomes (h : List DCall) (a : DCall) :
    ((call memoParams (run memoParams init h) a).2).Within (ProjErr a.origin) (fun _ => False) :=
  (memo_call_outcomes _ (run_inv memoParams_wf h inv_init) a).1

/-! ### the finite check behind `crsVertex`-freeness -/

theorem bool_mem_ft (b : Bool) : b ∈ [false, true] := by
  cases b
  · exact List.mem_cons_self
  · exact List.mem_cons_of_mem _ List.mem_cons_self

/-- the driver's boolean `memoSphTotalCheck` (all 12 · 10 · 2 keys compute) implies that no projection
call, forward or inverse, with a real face can fail -/
theorem sphTrianglesCompute_of_check (h : memoSphTotalCheck = true) : SphTrianglesCompute := by
  intro i o r hi ho
  have hmem : r ∈ [false, true] := bool_mem_ft r
  unfold memoSphTotalCheck at h
  rewrite [List.all_eq_true] at h
  have h1 := h o (List.mem_range.2 (by rewrite [origins_length]; exact ho))
  rewrite [List.all_eq_true] at h1
  have h2 := h1 i (List.mem_range.2 (by omega))
  rewrite [List.all_eq_true] at h2
  have h3 := h2 r hmem
  rewrite [computeSphericalTriangle_eq_memo' i o r hi ho]
  dsimp only at h3
  generalize memoParams.sphFrom (memoParams.faceVal ⟨i, r, true⟩) ⟨o, i, r⟩ = res at h3 ⊢
  obtain ⟨x, n⟩ := res
  cases x with
  | ok st => exact ⟨st, rfl⟩
  | err e => simp only at h3; cases h3
  | panic p => simp only at h3; cases h3

/-- consequently: if the check evaluates to `true`, every decodable id has a centre, and every decodable id
has a boundary unless a longitude loop of `normalize_longitudes` runs out of fuel -/
theorem id_calls_ok_of_check (h : memoSphTotalCheck = true) (id : Nat) (hd : ∃ c, deserialize id = .ok c) :
    (∃ p, cellToLonLat id = .ok p) ∧
    (∀ closed segs, (∃ ring, cellToBoundary id closed segs = .ok ring) ∨
      cellToBoundary id closed segs = .panic .fuel) :=
  ⟨cellToLonLat_ok_of_triangles (sphTrianglesCompute_of_check h) id hd,
   fun closed segs => cellToBoundary_ok_of_triangles (sphTrianglesCompute_of_check h) id closed segs hd⟩

/-! ### non-vacuity -/

example : Inv memoParams (init : MemoState FaceTriangle SphTriangle) := inv_init
example : ((call memoParams init (.inv 0.0 0.0 200)).2).Within (ProjErr 200) (fun _ => False) :=
  (memo_call_outcomes init inv_init (.inv 0.0 0.0 200)).1
example (x y : Float) : (pureCall memoParams (.inv x y 12)) = .err .invalidOrigin := by
  unfold pureCall
  rewrite [if_pos (by rewrite [memoParams_classify_origin]; exact Nat.le_of_eq origins_length)]
  rfl

end A5
