import A5.Lemmas.PentagonDisjoint2
/-! # Two cell pentagons of the same depth, part 3: the neighbour relation is closed under subdivision (planar C03)

The internal anchors of depth `n` are exactly `listAnchor ds` with `k = ds[0]`, `ds` ranging over ALL digit lists of
length `n` (`shiftedDigits` is a bijection; the Hilbert shifting only decides which position gets which list).  For two
digit lists the relative configuration `relT l1 l2 = (O₂ − O₁, F₁, F₂)` of the children `a1 :: l1`, `a2 :: l2` is
`childT (relT l1 l2) a1 a2` — it does not depend on the parents' `k`.

* `closure_table` (kernel evaluation, 15 616 cases): a configuration with `|Δ| ≤ 4` that is not one of the 12 excluded
  ones (`Exc`: the same triangle written with another anchor vertex, or two triangles that overlap), or the
  configuration of a cell with itself and two different digits, has only children that are far (`|Δ| > 4`) or again
  not excluded;  far configurations only have far children (`far_step`).  Hence by induction on the depth
  (`rel_inv`): two DIFFERENT digit lists of the same length are far or not excluded.
* `stage_rel`, `ncfg`: the relative configuration of the two FINAL anchors (after the `flipIJ` / `invertJ` stages) as a
  function of the internal one; `far_cfg`: internal anchors more than 4 apart give final anchors more than 2 apart.
Part 4 (`cfg_table`, `lists_cfg`) shows that every final configuration is far or certified. -/
namespace A5.PD
open A5 A5.HilbertLocate A5.PG A5.CP

/-- `(O₂ − O₁, F₁, F₂)` -/
abbrev Tri := (Int × Int) × (Int × Int) × (Int × Int)

/-- the configuration of child `a1` of the first cell and child `a2` of the second -/
def childT (t : Tri) (a1 a2 : Nat) : Tri :=
  ((2 * t.1.1 + (childIJ a2 t.2.2).1 - (childIJ a1 t.2.1).1, 2 * t.1.2 + (childIJ a2 t.2.2).2 - (childIJ a1 t.2.1).2),
    nextF a1 t.2.1, nextF a2 t.2.2)

/-- the configuration of the internal anchors of two digit lists -/
def relT (l1 l2 : List Nat) : Tri :=
  (((listAnchor l2).1.1 - (listAnchor l1).1.1, (listAnchor l2).1.2 - (listAnchor l1).1.2),
    (listAnchor l1).2, (listAnchor l2).2)

theorem relT_cons (a1 a2 : Nat) (l1 l2 : List Nat) : relT (a1 :: l1) (a2 :: l2) = childT (relT l1 l2) a1 a2 := by
  unfold relT childT
  rewrite [listAnchor_cons a1 l1, listAnchor_cons a2 l2]
  refine Prod.ext (Prod.ext ?_ ?_) rfl <;> (first | rfl | (dsimp only; omega))

theorem relT_self (l : List Nat) : relT l l = ((0, 0), (listAnchor l).2, (listAnchor l).2) :=
  Prod.ext (Prod.ext (Int.sub_self _) (Int.sub_self _)) rfl

theorem relT_flips (l1 l2 : List Nat) (h1 : ∀ x ∈ l1, x < 4) (h2 : ∀ x ∈ l2, x < 4) :
    (relT l1 l2).2.1 ∈ flips4 ∧ (relT l1 l2).2.2 ∈ flips4 :=
  ⟨mem_flips4 _ (listAnchor_isFlip l1 h1), mem_flips4 _ (listAnchor_isFlip l2 h2)⟩

/-! ## the excluded configurations and the invariant -/

/-- configurations with `|Δ| ≤ 4` that never occur for two different cells: `Δ = (0, 0)` with equal first flips (the
same triangle, or two overlapping triangles at one anchor vertex), or `Δ = (0, F₁.1)` with opposite first and equal
second flips (the same triangle written with its other anchor vertex) — 12 of the 976 configurations -/
def Exc (t : Tri) : Prop :=
  t.1.1 = 0 ∧ ((t.1.2 = 0 ∧ t.2.1.1 = t.2.2.1) ∨ (t.1.2 = t.2.1.1 ∧ t.2.2.1 = -t.2.1.1 ∧ t.2.1.2 = t.2.2.2))
instance (t : Tri) : Decidable (Exc t) := by unfold Exc; infer_instance

def Good (t : Tri) : Prop := HexLe 4 t.1 ∧ ¬Exc t
instance (t : Tri) : Decidable (Good t) := by unfold Good; infer_instance

/-- a cell with itself -/
def SameC (t : Tri) : Prop := t.1 = (0, 0) ∧ t.2.1 = t.2.2
instance (t : Tri) : Decidable (SameC t) := by unfold SameC; infer_instance

/-- admissible parents of two different cells `a1 :: l1 ≠ a2 :: l2` whose parents are near -/
def Par (t : Tri) (a1 a2 : Nat) : Prop := Good t ∨ (SameC t ∧ a1 ≠ a2)
instance (t : Tri) (a1 a2 : Nat) : Decidable (Par t a1 a2) := by unfold Par; infer_instance

/-- the invariant: far, or near and not excluded -/
def InvT (t : Tri) : Prop := ¬HexLe 4 t.1 ∨ Good t
instance (t : Tri) : Decidable (InvT t) := by unfold InvT; infer_instance

def mkT (i j : Nat) (F1 F2 : Int × Int) : Tri := (((i : Int) - 4, (j : Int) - 4), F1, F2)

/-- **closure** of the invariant under one subdivision step, all `|Δ| ≤ 4` -/
theorem closure_table : ∀ i ∈ List.range 9, ∀ j ∈ List.range 9, ∀ F1 ∈ flips4, ∀ F2 ∈ flips4,
    ∀ a1 ∈ List.range 4, ∀ a2 ∈ List.range 4,
      Par (mkT i j F1 F2) a1 a2 → InvT (childT (mkT i j F1 F2) a1 a2) := by decide +kernel

/-! ## the orientation stages on a configuration -/

/-- the configuration of the two final anchors as a function of the configuration of the internal ones
(the `2^n` of the `invertJ` stage cancels) -/
def stageRel (inv fl : Bool) (t : Tri) : Tri :=
  ((if inv then
      ((if fl then (t.1.2 + (flipComp t.2.2).1 - (flipComp t.2.1).1, t.1.1 + (flipComp t.2.2).2 - (flipComp t.2.1).2)
          else t.1).1,
        -((if fl then (t.1.2 + (flipComp t.2.2).1 - (flipComp t.2.1).1, t.1.1 + (flipComp t.2.2).2 - (flipComp t.2.1).2)
            else t.1).1 +
          (if fl then (t.1.2 + (flipComp t.2.2).1 - (flipComp t.2.1).1, t.1.1 + (flipComp t.2.2).2 - (flipComp t.2.1).2)
            else t.1).2))
    else (if fl then (t.1.2 + (flipComp t.2.2).1 - (flipComp t.2.1).1, t.1.1 + (flipComp t.2.2).2 - (flipComp t.2.1).2)
      else t.1)),
    stageFlips inv t.2.1, stageFlips inv t.2.2)

theorem stage_rel (n : Nat) (inv fl : Bool) (A B : Anchor) :
    (((stageAnchor n inv fl B).offset.1 - (stageAnchor n inv fl A).offset.1,
      (stageAnchor n inv fl B).offset.2 - (stageAnchor n inv fl A).offset.2),
      (stageAnchor n inv fl A).flips, (stageAnchor n inv fl B).flips) =
    stageRel inv fl ((B.offset.1 - A.offset.1, B.offset.2 - A.offset.2), A.flips, B.flips) := by
  rewrite [stageAnchor_flips, stageAnchor_flips]
  unfold stageAnchor stageRel
  cases fl <;> cases inv <;> simp only [if_true, if_false, Bool.false_eq_true]
  · simp only [invertStage]
    refine Prod.ext (Prod.ext ?_ ?_) rfl <;> (first | rfl | (dsimp only; omega))
  · simp only [flipStage_offset]
    refine Prod.ext (Prod.ext ?_ ?_) rfl <;> (first | rfl | (dsimp only; omega))
  · simp only [invertStage, flipStage_offset]
    refine Prod.ext (Prod.ext ?_ ?_) rfl <;> (first | rfl | (dsimp only; omega))

/-- the relative configuration of the two final pentagons: `u` the configuration of the internal anchors, `a1`, `a2`
their `k`s -/
def ncfg (inv fl : Bool) (u : Tri) (a1 a2 : Nat) : NCfg :=
  ((stageRel inv fl u).1, ((stageRel inv fl u).2.1, reflK a1 (stageRel inv fl u).2.1),
    ((stageRel inv fl u).2.2, reflK a2 (stageRel inv fl u).2.2))

/-- far (no common interior point) or certified (common points at most `mu` deep) -/
def CfgOK (x : NCfg) : Prop := ¬HexLe 2 x.1 ∨ certBit (key x) = true
instance (x : NCfg) : Decidable (CfgOK x) := by unfold CfgOK; infer_instance

/-! ## the steps for arbitrary configurations -/

theorem par_hex {t : Tri} {a1 a2 : Nat} (h : Par t a1 a2) : HexLe 4 t.1 := by
  rcases h with h | h
  · exact h.1
  · rewrite [h.1.1]; decide

theorem mkT_eq (t : Tri) (h : HexLe 4 t.1) :
    mkT (t.1.1 + 4).toNat (t.1.2 + 4).toNat t.2.1 t.2.2 = t ∧ (t.1.1 + 4).toNat < 9 ∧ (t.1.2 + 4).toNat < 9 := by
  obtain ⟨⟨d1, d2⟩, F1, F2⟩ := t
  unfold HexLe at h
  dsimp only at h ⊢
  refine ⟨?_, by omega, by omega⟩
  unfold mkT
  refine Prod.ext (Prod.ext ?_ ?_) rfl <;> (first | rfl | (dsimp only; omega))

theorem closure_step (t : Tri) (a1 a2 : Nat) (h1 : t.2.1 ∈ flips4) (h2 : t.2.2 ∈ flips4) (ha1 : a1 < 4) (ha2 : a2 < 4)
    (hp : Par t a1 a2) : InvT (childT t a1 a2) := by
  obtain ⟨e, b1, b2⟩ := mkT_eq t (par_hex hp)
  have := closure_table _ (List.mem_range.2 b1) _ (List.mem_range.2 b2) _ h1 _ h2 a1 (List.mem_range.2 ha1)
    a2 (List.mem_range.2 ha2)
  rewrite [e] at this
  exact this hp

theorem childIJ_hex : ∀ F ∈ flips4, ∀ a ∈ List.range 4, HexLe 2 (childIJ a F) := by decide

/-- far cells have far children -/
theorem far_step (t : Tri) (a1 a2 : Nat) (h1 : t.2.1 ∈ flips4) (h2 : t.2.2 ∈ flips4) (ha1 : a1 < 4) (ha2 : a2 < 4)
    (hfar : ¬HexLe 4 t.1) : ¬HexLe 4 (childT t a1 a2).1 := by
  have b1 := childIJ_hex _ h1 a1 (List.mem_range.2 ha1)
  have b2 := childIJ_hex _ h2 a2 (List.mem_range.2 ha2)
  unfold HexLe childT at *
  dsimp only at *
  omega

theorem flipComp_hex : ∀ F ∈ flips4, HexLe 1 (flipComp F) ∧ (flipComp F).1 + (flipComp F).2 = 0 := by decide

/-- internal anchors more than 4 apart have final anchors more than 2 apart -/
theorem far_cfg (inv fl : Bool) (u : Tri) (h1 : u.2.1 ∈ flips4) (h2 : u.2.2 ∈ flips4) (hfar : ¬HexLe 4 u.1) :
    ¬HexLe 2 (stageRel inv fl u).1 := by
  obtain ⟨b1, c1⟩ := flipComp_hex _ h1
  obtain ⟨b2, c2⟩ := flipComp_hex _ h2
  unfold HexLe stageRel at *
  cases fl <;> cases inv <;> simp only [if_true, if_false, Bool.false_eq_true] <;> omega

/-- one subdivision step of the invariant -/
theorem step_inv (t : Tri) (a1 a2 : Nat) (h1 : t.2.1 ∈ flips4) (h2 : t.2.2 ∈ flips4) (ha1 : a1 < 4) (ha2 : a2 < 4)
    (h : ¬HexLe 4 t.1 ∨ Par t a1 a2) : InvT (childT t a1 a2) := by
  rcases h with h | h
  · exact Or.inl (far_step t a1 a2 h1 h2 ha1 ha2 h)
  · exact closure_step t a1 a2 h1 h2 ha1 ha2 h

theorem nextF_mem (a : Nat) (ha : a < 4) (F : Int × Int) (hF : F ∈ flips4) : nextF a F ∈ flips4 := by
  refine mem_flips4 _ (isFlip_nextF a ha F ?_)
  simp only [flips4, List.mem_cons, List.not_mem_nil, or_false] at hF
  exact hF

theorem childT_flips (t : Tri) (a1 a2 : Nat) (h1 : t.2.1 ∈ flips4) (h2 : t.2.2 ∈ flips4) (ha1 : a1 < 4) (ha2 : a2 < 4) :
    (childT t a1 a2).2.1 ∈ flips4 ∧ (childT t a1 a2).2.2 ∈ flips4 :=
  ⟨nextF_mem a1 ha1 _ h1, nextF_mem a2 ha2 _ h2⟩

/-! ## induction on the depth -/

/-- the parents of two different cells are far, or near and not excluded, or equal with different digits -/
theorem parent_status_of (m1 m2 : List Nat) (a1 a2 : Nat) (hne : a1 :: m1 ≠ a2 :: m2)
    (ih : m1 ≠ m2 → InvT (relT m1 m2)) : ¬HexLe 4 (relT m1 m2).1 ∨ Par (relT m1 m2) a1 a2 := by
  by_cases e : m1 = m2
  · subst e
    refine Or.inr (Or.inr ⟨?_, fun h => hne (by rewrite [h]; rfl)⟩)
    rewrite [relT_self]
    exact ⟨rfl, rfl⟩
  · rcases ih e with h | h
    · exact Or.inl h
    · exact Or.inr (Or.inl h)

/-- **the neighbour relation is closed**: two different digit lists of the same length are far or not excluded -/
theorem rel_inv : ∀ (n : Nat) (l1 l2 : List Nat), l1.length = n → l2.length = n → (∀ x ∈ l1, x < 4) →
    (∀ x ∈ l2, x < 4) → l1 ≠ l2 → InvT (relT l1 l2) := by
  intro n
  induction n with
  | zero =>
    intro l1 l2 e1 e2 _ _ hne
    rewrite [List.length_eq_zero_iff] at e1 e2
    exact absurd (e1.trans e2.symm) hne
  | succ n ih =>
    intro l1 l2 e1 e2 d1 d2 hne
    cases l1 with
    | nil => cases e1
    | cons a1 m1 =>
      cases l2 with
      | nil => cases e2
      | cons a2 m2 =>
        have hm1 : ∀ x ∈ m1, x < 4 := fun x hx => d1 x (List.mem_cons_of_mem _ hx)
        have hm2 : ∀ x ∈ m2, x < 4 := fun x hx => d2 x (List.mem_cons_of_mem _ hx)
        obtain ⟨f1, f2⟩ := relT_flips m1 m2 hm1 hm2
        rewrite [relT_cons]
        refine step_inv _ a1 a2 f1 f2 (d1 a1 (List.mem_cons_self ..)) (d2 a2 (List.mem_cons_self ..)) ?_
        exact parent_status_of m1 m2 a1 a2 hne
          (ih m1 m2 (by simpa using e1) (by simpa using e2) hm1 hm2)

/-- the anchor (with its `k`) of a digit list -/
def listAnchorK (l : List Nat) : Anchor := ⟨l.getD 0 0, (listAnchor l).1, (listAnchor l).2⟩

theorem anchorCfg_stage (n : Nat) (inv fl : Bool) (a1 a2 : Nat) (m1 m2 : List Nat) :
    anchorCfg (stageAnchor n inv fl (listAnchorK (a1 :: m1))) (stageAnchor n inv fl (listAnchorK (a2 :: m2))) =
      ncfg inv fl (relT (a1 :: m1) (a2 :: m2)) a1 a2 := by
  have hS := stage_rel n inv fl (listAnchorK (a1 :: m1)) (listAnchorK (a2 :: m2))
  have e1 := congrArg Prod.fst hS
  have e2 := congrArg (fun z => z.2.1) hS
  have e3 := congrArg (fun z => z.2.2) hS
  dsimp only at e1 e2 e3
  unfold anchorCfg ncfg
  rewrite [stageAnchor_k, stageAnchor_k, e1, e2, e3]
  rfl

end A5.PD
