import A5.Lemmas.RuntimeTriangles2
/-! # The spherical triangles the library actually uses (part 3: the sub-triangle areas of the twin-level round trip)

`C15.polyhedral_roundtrip_twin` (T9) needs, besides H, that the three triangles whose areas `polyhedralForward` computes -
`(a, b, c)`, `(a, P, c)`, `(a, b, P)` with `P = slerp(b, c, q)` - are on the `asin` branch of `get_triangle_area`
(`AreaAgreesG`).  `RuntimeTriangles2.runtime_area_on_asin_branch` settles `(a, b, c)`.  Here:

* `sub_triangles_on_asin`: for a triangle satisfying `TriHyp` and `10⁻⁴ ≤ q ≤ 1 - 10⁻⁴` both sub-triangles are on the
  `asin` branch (their triple products are `w·V` with `w = sin(qγ)/sin γ` resp. `sin((1-q)γ)/sin γ ≥ 8.8e-6`, `V ≥ 1/20`);
* `runtime_roundtrip_twin_mid`: hence, for every table triangle and every `q ∈ [10⁻⁴, 1 - 10⁻⁴]`, `0 < s ≤ 1`, the
  conclusion of T9 holds with ONLY the three no-snap conditions left as hypotheses.

NOT proved: the no-snap conditions themselves (they fail near the vertices, where the code returns the vertex and no theorem
applies), and `q` within `10⁻⁴` of an end point of the edge (there the sub-triangle area may be computed on the `2·s`
branch, which differs from `2·asin s` by a relative `s²/6 < 2e-17`; the exact statements do not transfer). -/
namespace A5.RuntimeTriangles
open A5 A5.RadialRoundTrip A5.AngularRoundTrip A5.Gen.Runtime A5.GP A5.PolyTies

theorem tripleR_comb_mid (a b c : R3) (wa wb : ℝ) :
    tripleR a (addR (scaleR b wa) (scaleR c wb)) c = wa * tripleR a b c := by
  simp only [tripleR, dotR, crossR, addR, scaleR]; ring

/-- `sin x ≥ 8.8e-6` for `1.4e-5 ≤ x ≤ π/2` (Jordan's inequality) -/
theorem sin_lower {x : ℝ} (h0 : 14 / 10 ^ 6 ≤ x) (h1 : x ≤ Real.pi / 2) : 88 / 10 ^ 7 ≤ Real.sin x := by
  have hpi := Real.pi_pos
  have hpi' := Real.pi_lt_d2
  have hj := Real.mul_le_sin (by linarith : (0 : ℝ) ≤ x) h1
  have h2 : 88 / 10 ^ 7 ≤ 2 / Real.pi * x := by
    rw [div_mul_eq_mul_div, le_div_iff₀ hpi]
    nlinarith
  linarith

/-- **sub-triangles.**  For a triangle satisfying `TriHyp` and `q` at least `10⁻⁴` away from both ends of the edge, the
triangles `(a, P, c)` and `(a, b, P)`, `P = slerp b c q`, are on the `asin` branch of `get_triangle_area`. -/
theorem sub_triangles_on_asin {a b c : R3} (H : TriHyp a b c) {q : ℝ} (hq0 : 1 / 10 ^ 4 ≤ q)
    (hq1 : q ≤ 1 - 1 / 10 ^ 4) :
    OnAsinBranch a (slerpR b c q) c ∧ OnAsinBranch a b (slerpR b c q) := by
  have hq0' : 0 ≤ q := by linarith
  have hq1' : q ≤ 1 := by linarith
  have hpi := Real.pi_pos
  obtain ⟨_, hcos, g0, g1⟩ := angleR_unit H.hb H.hc
  have hπ := angle_bc_lt_pi H.ha H.hb H.hc H.hV
  have hpos : 0 < angleR b c := lt_of_lt_of_le slerpSwitch_pos H.hγ
  have hS : 0 < Real.sin (angleR b c) := Real.sin_pos_of_pos_of_lt_pi hpos hπ
  have hS1 : Real.sin (angleR b c) ≤ 1 := Real.sin_le_one _
  -- the edge is shorter than a quarter circle and longer than 0.14 rad
  have hγ2 : angleR b c ≤ Real.pi / 2 := by
    by_contra hlt
    rw [not_le] at hlt
    have := Real.cos_neg_of_pi_div_two_lt_of_lt hlt (by linarith)
    rw [hcos] at this
    linarith [H.hbc]
  have hγlo : 14 / 100 ≤ angleR b c := by
    by_contra hlt
    rw [not_le] at hlt
    have hc := Real.one_sub_sq_div_two_le_cos (x := angleR b c)
    rw [hcos] at hc
    have := H.hbcU
    nlinarith
  obtain ⟨hu, _, hcP⟩ := slerpR_spec q H.hb H.hc H.hγ hπ
  -- the two weights
  have hwb : 88 / 10 ^ 7 ≤ Real.sin (q * angleR b c) / Real.sin (angleR b c) := by
    have h1 : 14 / 10 ^ 6 ≤ q * angleR b c := by nlinarith
    have h2 : q * angleR b c ≤ Real.pi / 2 := by nlinarith
    have := sin_lower h1 h2
    rw [le_div_iff₀ hS]
    nlinarith
  have hwa : 88 / 10 ^ 7 ≤ Real.sin ((1 - q) * angleR b c) / Real.sin (angleR b c) := by
    have h1 : 14 / 10 ^ 6 ≤ (1 - q) * angleR b c := by nlinarith
    have h2 : (1 - q) * angleR b c ≤ Real.pi / 2 := by nlinarith
    have := sin_lower h1 h2
    rw [le_div_iff₀ hS]
    nlinarith
  have hsw := triAreaSwitch_le
  have hV' := H.hV'
  -- triple products of the sub-triangles
  have hT1 : 4 * triAreaSwitch ≤ tripleR a (slerpR b c q) c := by
    rw [slerpR_unfold q H.hγ, tripleR_comb_mid]
    have : 88 / 10 ^ 7 * (1 / 20) ≤
        Real.sin ((1 - q) * angleR b c) / Real.sin (angleR b c) * tripleR a b c :=
      mul_le_mul hwa hV' (by norm_num) (by linarith)
    norm_num at this hsw ⊢
    linarith
  have hT2 : 4 * triAreaSwitch ≤ tripleR a b (slerpR b c q) := by
    rw [slerpR_unfold q H.hγ, (comb_facts a b c _ _).2.1]
    have : 88 / 10 ^ 7 * (1 / 20) ≤
        Real.sin (q * angleR b c) / Real.sin (angleR b c) * tripleR a b c :=
      mul_le_mul hwb hV' (by norm_num) (by linarith)
    norm_num at this hsw ⊢
    linarith
  -- Eriksson denominators of the sub-triangles
  have hD2 := abp_D_pos H.ha H.hb H.hc H.hV H.hD H.hγ hq0' hq1'
  have hD1 : 0 < 1 + dotR a (slerpR b c q) + dotR (slerpR b c q) c + dotR c a := by
    have e1 : 0 ≤ dotR a (slerpR b c q) := by
      rw [slerpR_unfold q H.hγ, dotR_comb_right]
      have := mul_nonneg (le_trans (by norm_num) hwa) H.hab0
      have := mul_nonneg (le_trans (by norm_num) hwb) H.hca0
      linarith
    have e2 : 0 ≤ dotR (slerpR b c q) c := by
      rw [dotR_comm, hcP]
      refine Real.cos_nonneg_of_neg_pi_div_two_le_of_le ?_ ?_ <;> nlinarith
    linarith [H.hca0]
  exact ⟨onAsinBranch_of_triple H.ha hu H.hc hD1 hT1, onAsinBranch_of_triple H.ha H.hb hu hD2 hT2⟩

/-- the same for the table, on the twins -/
theorem runtime_sub_triangles : ∀ t ∈ SPH_TRIANGLES, ∀ q : ℝ, 1 / 10 ^ 4 ≤ q → q ≤ 1 - 1 / 10 ^ 4 →
    AreaAgreesG (toTR (entryA t)) (slerpG realKit (toTR (entryB t)) (toTR (entryC t)) q) (toTR (entryC t)) ∧
    AreaAgreesG (toTR (entryA t)) (toTR (entryB t)) (slerpG realKit (toTR (entryB t)) (toTR (entryC t)) q) := by
  intro t ht q hq0 hq1
  obtain ⟨h1, h2⟩ := sub_triangles_on_asin (runtime_hyp t ht) hq0 hq1
  rw [← slerpR_tie]
  exact ⟨(areaAgrees_tie _ _ _).mp h1.agrees, (areaAgrees_tie _ _ _).mp h2.agrees⟩

/-- **`runtime_roundtrip_twin_mid`**: the conclusion of `C15.polyhedral_roundtrip_twin` (T9) for every table triangle,
every `q ∈ [10⁻⁴, 1 - 10⁻⁴]` and `0 < s ≤ 1`, with only the three no-snap conditions left as hypotheses. -/
theorem runtime_roundtrip_twin_mid : ∀ t ∈ SPH_TRIANGLES, ∀ q s : ℝ, 1 / 10 ^ 4 ≤ q → q ≤ 1 - 1 / 10 ^ 4 →
    0 < s → s ≤ 1 →
    ¬ (forwardBaryG realKit (toTR (entryA t)) (toTR (entryB t)) (toTR (entryC t))
        (slerpG realKit (toTR (entryA t)) (slerpG realKit (toTR (entryB t)) (toTR (entryC t)) q) s)).1
      > realKit.one - realKit.snapEps →
    ¬ (forwardBaryG realKit (toTR (entryA t)) (toTR (entryB t)) (toTR (entryC t))
        (slerpG realKit (toTR (entryA t)) (slerpG realKit (toTR (entryB t)) (toTR (entryC t)) q) s)).2.1
      > realKit.one - realKit.snapEps →
    ¬ (forwardBaryG realKit (toTR (entryA t)) (toTR (entryB t)) (toTR (entryC t))
        (slerpG realKit (toTR (entryA t)) (slerpG realKit (toTR (entryB t)) (toTR (entryC t)) q) s)).2.2
      > realKit.one - realKit.snapEps →
    dotG (inverseBaryG realKit (toTR (entryA t)) (toTR (entryB t)) (toTR (entryC t))
          (forwardBaryG realKit (toTR (entryA t)) (toTR (entryB t)) (toTR (entryC t))
            (slerpG realKit (toTR (entryA t)) (slerpG realKit (toTR (entryB t)) (toTR (entryC t)) q) s)))
        (inverseBaryG realKit (toTR (entryA t)) (toTR (entryB t)) (toTR (entryC t))
          (forwardBaryG realKit (toTR (entryA t)) (toTR (entryB t)) (toTR (entryC t))
            (slerpG realKit (toTR (entryA t)) (slerpG realKit (toTR (entryB t)) (toTR (entryC t)) q) s))) = 1 ∧
    lengthG realKit (subG (inverseBaryG realKit (toTR (entryA t)) (toTR (entryB t)) (toTR (entryC t))
          (forwardBaryG realKit (toTR (entryA t)) (toTR (entryB t)) (toTR (entryC t))
            (slerpG realKit (toTR (entryA t)) (slerpG realKit (toTR (entryB t)) (toTR (entryC t)) q) s)))
        (slerpG realKit (toTR (entryA t)) (slerpG realKit (toTR (entryB t)) (toTR (entryC t)) q) s)) ≤ 5e-16 := by
  intro t ht q s hq0 hq1 hs0 hs1 hn1 hn2 hn3
  obtain ⟨hE2, hE3⟩ := runtime_sub_triangles t ht q hq0 hq1
  exact runtime_roundtrip_twin t ht q s (by linarith) (by linarith) hs0 hs1 hE2 hE3 hn1 hn2 hn3

/-- non-vacuity: `q = 1/3` is in the range -/
example : ∀ t ∈ SPH_TRIANGLES,
    AreaAgreesG (toTR (entryA t)) (slerpG realKit (toTR (entryB t)) (toTR (entryC t)) (1 / 3)) (toTR (entryC t)) :=
  fun t ht => (runtime_sub_triangles t ht (1 / 3) (by norm_num) (by norm_num)).1

end A5.RuntimeTriangles
