import A5.Lemmas.LookupSkel
import A5.Lemmas.BoundarySkel
import A5.Lemmas.Total3
/-! Outcome-level totality of the float-valued public calls (`cell_to_lonlat`, `cell_to_boundary`,
`a5cell_contains_point`, `get_pentagon`, `DodecahedronProjection::forward/inverse`, `cell_area`).

Every `Float` is treated as an arbitrary value: the lemmas only use the control / list / `Outcome`
structure of the model.  For every input they list exactly which `err` kinds and which `panic` kinds
the model can produce.  Float-dependent events that cannot be excluded at this level are named:

* `crsVertex` (error): `CRS::get_vertex` finds no stored vertex within tolerance;
* `notCCW` (panic): the winding assertion of `contains_point` (only on the containment path);
* `fuel` (panic = non-termination): the two `while` loops of `normalize_longitudes` (only in
  `cell_to_boundary`; they terminate as soon as the longitude is a finite number).

Core-only. -/
namespace A5

/-! ### 0. helpers on `Outcome.Within` -/

theorem Outcome.Within.elim {α : Type} {E : ErrKind → Prop} {K : PanicKind → Prop} {x : Outcome α}
    (h : x.Within E K) : (∃ v, x = .ok v) ∨ (∃ e, x = .err e ∧ E e) ∨ (∃ k, x = .panic k ∧ K k) := by
  cases x with
  | ok v => exact Or.inl ⟨v, rfl⟩
  | err e => exact Or.inr (Or.inl ⟨e, rfl, (Outcome.Within.err_iff e).1 h⟩)
  | panic k => exact Or.inr (Or.inr ⟨k, rfl, (Outcome.Within.panic_iff k).1 h⟩)

theorem Outcome.Within.not_panic {α : Type} {E : ErrKind → Prop} {x : Outcome α}
    (h : x.Within E (fun _ => False)) : x.isPanic = false := by
  cases x with
  | ok v => rfl
  | err e => rfl
  | panic k => exact ((Outcome.Within.panic_iff k).1 h).elim

theorem mapOutcome'_within {α β : Type} {E : ErrKind → Prop} {K : PanicKind → Prop} (f : α → Outcome β)
    (hf : ∀ a, (f a).Within E K) : ∀ l : List α, (mapOutcome' f l).Within E K := by
  intro l
  induction l with
  | nil => exact Outcome.Within.ok _
  | cons a as ih =>
    simp only [mapOutcome']
    refine Outcome.Within.bind (hf a) fun b _ => ?_
    refine Outcome.Within.bind ih fun bs _ => ?_
    exact Outcome.Within.ok _

theorem mapOutcomeF_within {α β : Type} {E : ErrKind → Prop} {K : PanicKind → Prop} (f : α → Outcome β)
    (hf : ∀ a, (f a).Within E K) : ∀ l : List α, (normalizeLongitudes.mapOutcomeF f l).Within E K := by
  intro l
  induction l with
  | nil => exact Outcome.Within.ok _
  | cons a as ih =>
    simp only [normalizeLongitudes.mapOutcomeF]
    refine Outcome.Within.bind (hf a) fun b _ => ?_
    refine Outcome.Within.bind ih fun bs _ => ?_
    exact Outcome.Within.ok _

/-! ### 1. `deserialize`, validity -/

/-- the decoder: a record, or `badOrigin`; nothing else -/
theorem deserialize_within (id : Nat) : (deserialize id).Within (· = .badOrigin) (fun _ => False) := by
  rcases deserialize_cases id with ⟨c, h⟩ | h
  · rewrite [h]; exact Outcome.Within.ok _
  · rewrite [h]; exact (Outcome.Within.err_iff _).2 rfl

/-! ### 2. `s_to_anchor` and `get_pentagon` on arbitrary records -/

/-- `s_to_anchor` never reports an error -/
theorem sToAnchor_not_err (s n : Nat) (o : Orientation) (e : ErrKind) : sToAnchor s n o ≠ .err e := by
  unfold sToAnchor
  generalize oriReverse o = rev
  generalize oriInvertJ o = inv
  generalize oriFlipIJ o = flip
  dsimp only
  cases rev
  · simp only [Bool.false_eq_true, if_false, Outcome.bind_ok]
    cases inv
    · simp only [Bool.false_eq_true, if_false]; intro h; cases h
    · simp only [if_true]; split <;> (intro h; cases h)
  · simp only [if_true]
    split
    · simp only [Outcome.bind_panic]; intro h; cases h
    · split
      · simp only [Outcome.bind_panic]; intro h; cases h
      · simp only [Outcome.bind_ok]
        cases inv
        · simp only [Bool.false_eq_true, if_false]; intro h; cases h
        · simp only [if_true]; split <;> (intro h; cases h)

/-- EXACT panic set of `s_to_anchor` (model of the overflow-checked build): the reversed orientations
compute `(1u64 << 2n) - s - 1`, the `j`-inverting orientations compute `1 << n` -/
theorem sToAnchor_isPanic_iff (s n : Nat) (o : Orientation) :
    (sToAnchor s n o).isPanic = true ↔
      (oriReverse o = true ∧ (32 ≤ n ∨ 4 ^ n ≤ s)) ∨ (oriInvertJ o = true ∧ 31 ≤ n) := by
  unfold sToAnchor
  generalize oriReverse o = rev
  generalize oriInvertJ o = inv
  generalize oriFlipIJ o = flip
  dsimp only
  cases rev
  · simp only [Bool.false_eq_true, if_false, Outcome.bind_ok, false_and, false_or]
    cases inv
    · simp only [Bool.false_eq_true, if_false, false_and]
      exact ⟨(fun h => by cases h), fun h => h.elim⟩
    · simp only [if_true, true_and]
      by_cases h31 : n ≥ 31
      · rewrite [if_pos h31]; exact ⟨fun _ => h31, fun _ => rfl⟩
      · rewrite [if_neg h31]; exact ⟨(fun h => by cases h), fun h => absurd h h31⟩
  · simp only [if_true, true_and]
    by_cases h64 : 2 * n ≥ 64
    · rewrite [if_pos h64]
      simp only [Outcome.bind_panic]
      exact ⟨fun _ => Or.inl (Or.inl (by omega)), fun _ => rfl⟩
    · rewrite [if_neg h64]
      by_cases hs : s + 1 > 4 ^ n
      · rewrite [if_pos hs]
        simp only [Outcome.bind_panic]
        exact ⟨fun _ => Or.inl (Or.inr (by omega)), fun _ => rfl⟩
      · rewrite [if_neg hs]
        simp only [Outcome.bind_ok]
        cases inv
        · simp only [Bool.false_eq_true, if_false, false_and, or_false]
          exact ⟨(fun h => by cases h), fun h => by omega⟩
        · simp only [if_true, true_and]
          by_cases h31 : n ≥ 31
          · rewrite [if_pos h31]; exact ⟨fun _ => Or.inr h31, fun _ => rfl⟩
          · rewrite [if_neg h31]
            exact ⟨(fun h => by cases h), fun h => by omega⟩

/-- `get_pentagon` on a record that the decoder can produce (other than the world record): always a polygon -/
theorem getPentagon_valid (c : Cell) (hv : c.Valid) (hr : c.res ≠ -1) : ∃ p, getPentagon c = .ok p := by
  have hF : Gen.FIRST_HILBERT_RESOLUTION = 2 := rfl
  have ho := hv.origin_lt
  unfold getPentagon
  rewrite [if_neg (by rewrite [origins_length]; omega)]
  generalize segmentToQuintant c.segment (originAt c.origin) = qo
  obtain ⟨q, o⟩ := qo
  dsimp only
  rcases hv with ⟨h, _⟩ | ⟨h1, _, _, _⟩ | ⟨h1, _, _, _⟩ | ⟨h2, h29, _, _, hS⟩
  · exact absurd h hr
  · rewrite [if_neg (by omega), if_pos (by omega)]
    exact ⟨_, rfl⟩
  · rewrite [if_pos (by omega)]
    exact ⟨_, rfl⟩
  · rewrite [if_neg (by omega), if_neg (by omega), if_neg (by omega)]
    have e : (c.res - Gen.FIRST_HILBERT_RESOLUTION + 1).toNat = (c.res - 1).toNat := by omega
    rewrite [e]
    obtain ⟨a, ha⟩ := sToAnchor_ok c.s (c.res - 1).toNat o (by omega) hS
    rewrite [ha]
    exact ⟨_, rfl⟩

/-- `get_pentagon` never returns `Err` (its only `map_err` is a `u64 → string → u64` round trip) -/
theorem getPentagon_not_err (c : Cell) (e : ErrKind) : getPentagon c ≠ .err e := by
  unfold getPentagon
  split
  · intro h; cases h
  · generalize segmentToQuintant c.segment (originAt c.origin) = qo
    obtain ⟨q, o⟩ := qo
    dsimp only
    split
    · intro h; cases h
    · split
      · intro h; cases h
      · split
        · intro h; cases h
        · intro h
          cases hs : sToAnchor c.s (c.res - Gen.FIRST_HILBERT_RESOLUTION + 1).toNat o with
          | ok a => rewrite [hs] at h; simp only [Outcome.bind_ok] at h; cases h
          | err e' => exact sToAnchor_not_err _ _ _ _ hs
          | panic k => rewrite [hs] at h; simp only [Outcome.bind_panic] at h; cases h

/-- EXACT success condition of `get_pentagon` on an ARBITRARY record (the struct `A5Cell` has public
fields, `get_pentagon` is `pub`): it returns a polygon iff the origin names a face and either the
resolution is 0 or 1, or it is ≥ 2 and `s_to_anchor` does not overflow.  In every other case the model
panics (`getPentagon_not_err`): origin ≥ 12 is an index out of bounds, a negative resolution makes the
curve depth `(res - 1) as usize` astronomically large. -/
theorem getPentagon_isOk_iff (c : Cell) :
    (getPentagon c).isOk = true ↔
      c.origin < 12 ∧ (c.res = 0 ∨ c.res = 1 ∨
        (2 ≤ c.res ∧ (sToAnchor c.s (c.res - 1).toNat
            (segmentToQuintant c.segment (originAt c.origin)).2).isPanic = false)) := by
  have hF : Gen.FIRST_HILBERT_RESOLUTION = 2 := rfl
  unfold getPentagon
  by_cases ho : c.origin ≥ origins.length
  · rewrite [if_pos ho]
    rewrite [origins_length] at ho
    exact ⟨(fun h => by cases h), fun h => by omega⟩
  rewrite [if_neg ho]
  rewrite [origins_length] at ho
  generalize segmentToQuintant c.segment (originAt c.origin) = qo
  obtain ⟨q, o⟩ := qo
  dsimp only
  by_cases h1 : c.res = Gen.FIRST_HILBERT_RESOLUTION - 1
  · rewrite [if_pos h1]
    exact ⟨fun _ => ⟨by omega, Or.inr (Or.inl (by omega))⟩, fun _ => rfl⟩
  rewrite [if_neg h1]
  by_cases h0 : c.res = Gen.FIRST_HILBERT_RESOLUTION - 2
  · rewrite [if_pos h0]
    exact ⟨fun _ => ⟨by omega, Or.inl (by omega)⟩, fun _ => rfl⟩
  rewrite [if_neg h0]
  by_cases hneg : c.res - Gen.FIRST_HILBERT_RESOLUTION + 1 < 0
  · rewrite [if_pos hneg]
    exact ⟨(fun h => by cases h), fun h => by omega⟩
  rewrite [if_neg hneg]
  have e : (c.res - Gen.FIRST_HILBERT_RESOLUTION + 1).toNat = (c.res - 1).toNat := by omega
  rewrite [e]
  cases hs : sToAnchor c.s (c.res - 1).toNat o with
  | ok a =>
    simp only [Outcome.bind_ok]
    exact ⟨fun _ => ⟨by omega, Or.inr (Or.inr ⟨by omega, rfl⟩)⟩, fun _ => rfl⟩
  | err e' => exact absurd hs (sToAnchor_not_err _ _ _ _)
  | panic k =>
    simp only [Outcome.bind_panic]
    refine ⟨(fun h => by cases h), fun h => ?_⟩
    rcases h with ⟨_, h | h | ⟨_, h⟩⟩
    · omega
    · omega
    · cases h

/-- the record of the world cell (which `deserialize` returns for `0` and for every id without a
resolution marker) is NOT accepted by `get_pentagon`: the model reports non-termination -/
theorem getPentagon_negative_res (c : Cell) (ho : c.origin < 12) (hr : c.res < 0) :
    getPentagon c = .panic .fuel := by
  have hF : Gen.FIRST_HILBERT_RESOLUTION = 2 := rfl
  unfold getPentagon
  rewrite [if_neg (by rewrite [origins_length]; omega)]
  generalize segmentToQuintant c.segment (originAt c.origin) = qo
  obtain ⟨q, o⟩ := qo
  dsimp only
  rewrite [if_neg (by omega), if_neg (by omega), if_pos (by omega)]
  rfl

theorem getPentagon_bad_origin (c : Cell) (ho : 12 ≤ c.origin) : getPentagon c = .panic .indexOOB := by
  unfold getPentagon
  rewrite [if_pos (by rewrite [origins_length]; exact ho)]
  rfl

/-! ### 3. the projection, every origin id -/

theorem dodecaInverse_okOrCrs (f : V2) (o : Nat) (ho : o < 12) : OkOrCrs (dodecaInverse f o) := by
  unfold dodecaInverse
  rewrite [if_neg (by rewrite [origins_length]; omega)]
  dsimp only [toPolar]
  obtain ⟨ft, hft⟩ := getFaceTriangle_ok _ (faceTriangleIndex_le _) _ false
  rewrite [hft]
  simp only [Outcome.bind_ok]
  refine Outcome.Within.bind (computeSphericalTriangle_okOrCrs _ _ _ (faceTriangleIndex_le _) ho) fun st _ => ?_
  exact Outcome.Within.ok _

theorem dodecaInverse_bad_origin (f : V2) (o : Nat) (ho : 12 ≤ o) : dodecaInverse f o = .err .invalidOrigin := by
  unfold dodecaInverse
  rewrite [if_pos (by rewrite [origins_length]; exact ho)]
  rfl

theorem dodecaForward_bad_origin (theta phi : Float) (o : Nat) (ho : 12 ≤ o) :
    dodecaForward theta phi o = .err .invalidOrigin := by
  unfold dodecaForward
  rewrite [if_pos (by rewrite [origins_length]; exact ho)]
  rfl

/-- error kinds of a projection call with origin id `o` -/
def ProjErr (o : Nat) (e : ErrKind) : Prop := (e = .crsVertex ∧ o < 12) ∨ (e = .invalidOrigin ∧ 12 ≤ o)

/-- **`forward`, every origin id, every pair of floats**: a face point, `crsVertex` (only for a real
face) or `invalidOrigin` (exactly for ids ≥ 12).  No panic; never `other` (the face-triangle index and
the memo slots are always in range). -/
theorem dodecaForward_outcomes (theta phi : Float) (o : Nat) :
    (dodecaForward theta phi o).Within (ProjErr o) (fun _ => False) := by
  by_cases ho : o < 12
  · exact (dodecaForward_okOrCrs theta phi o ho).mono (fun e h => Or.inl ⟨h, ho⟩) (fun _ h => h)
  · rewrite [dodecaForward_bad_origin theta phi o (by omega)]
    exact (Outcome.Within.err_iff _).2 (Or.inr ⟨rfl, by omega⟩)

/-- **`inverse`, every origin id, every face point** -/
theorem dodecaInverse_outcomes (f : V2) (o : Nat) :
    (dodecaInverse f o).Within (ProjErr o) (fun _ => False) := by
  by_cases ho : o < 12
  · exact (dodecaInverse_okOrCrs f o ho).mono (fun e h => Or.inl ⟨h, ho⟩) (fun _ h => h)
  · rewrite [dodecaInverse_bad_origin f o (by omega)]
    exact (Outcome.Within.err_iff _).2 (Or.inr ⟨rfl, by omega⟩)

/-! ### 4. `cell_to_lonlat` -/

/-- error kinds of the id-based float calls -/
def IdErr (e : ErrKind) : Prop := e = .badOrigin ∨ e = .crsVertex

/-- on an id that decodes, only `crsVertex` can go wrong -/
theorem cellToLonLat_decoded (id : Nat) (c : Cell) (hc : deserialize id = .ok c) : OkOrCrs (cellToLonLat id) := by
  have hv := deserialize_ok_valid' id c hc
  unfold cellToLonLat
  by_cases h0 : id = Gen.WORLD_CELL
  · rewrite [if_pos h0]; exact Outcome.Within.ok _
  rewrite [if_neg h0, hc]
  simp only [Outcome.bind_ok]
  by_cases hr : c.res = -1
  · rewrite [if_pos hr]; exact Outcome.Within.ok _
  rewrite [if_neg hr]
  obtain ⟨p, hp⟩ := getPentagon_valid c hv hr
  rewrite [hp]
  simp only [Outcome.bind_ok]
  refine Outcome.Within.bind (dodecaInverse_okOrCrs _ c.origin hv.origin_lt) fun tp _ => ?_
  obtain ⟨t, ph⟩ := tp
  exact Outcome.Within.ok _

theorem cellToLonLat_undecodable (id : Nat) (h : deserialize id = .err .badOrigin) :
    cellToLonLat id = .err .badOrigin := by
  have h0 : id ≠ Gen.WORLD_CELL := by
    intro h0
    have : id = 0 := h0
    subst this
    rewrite [deserialize_world 0 getResolution_zero'] at h
    cases h
  unfold cellToLonLat
  rewrite [if_neg h0, h]
  simp only [Outcome.bind_err]

/-- **`cell_to_lonlat`, every id**: a coordinate pair, `badOrigin` (the id does not decode) or
`crsVertex`.  No panic of any kind: the curve depth `res - 2 + 1` is never negative because the
resolution `-1` is answered before `get_pentagon`, `s_to_anchor` does not overflow because the decoder
only produces positions below `4^(res-1)` with `res ≤ 29`, the origin is one of the twelve faces. -/
theorem cellToLonLat_within (id : Nat) : (cellToLonLat id).Within IdErr (fun _ => False) := by
  rcases deserialize_cases id with ⟨c, hc⟩ | hc
  · exact (cellToLonLat_decoded id c hc).mono (fun _ h => Or.inr h) (fun _ h => h)
  · rewrite [cellToLonLat_undecodable id hc]
    exact (Outcome.Within.err_iff _).2 (Or.inl rfl)

/-! ### 5. `cell_to_boundary` -/

theorem unwrapLonUp_within : ∀ (fuel : Nat) (lon center : Float),
    (unwrapLon.unwrapLonUp fuel lon center).Within (fun _ => False) (· = .fuel) := by
  intro fuel
  induction fuel with
  | zero => intro lon center; exact (Outcome.Within.panic_iff _).2 rfl
  | succ n ih =>
    intro lon center
    unfold unwrapLon.unwrapLonUp
    split
    · exact ih _ _
    · exact Outcome.Within.ok _

theorem unwrapLon_within : ∀ (fuel : Nat) (lon center : Float),
    (unwrapLon fuel lon center).Within (fun _ => False) (· = .fuel) := by
  intro fuel
  induction fuel with
  | zero => intro lon center; exact (Outcome.Within.panic_iff _).2 rfl
  | succ n ih =>
    intro lon center
    unfold unwrapLon
    split
    · exact ih _ _
    · split
      · exact unwrapLonUp_within _ _ _
      · exact Outcome.Within.ok _

/-- `normalize_longitudes` never reports an error; the only panic of the model is the fuel of the two
`while` loops (64 iterations each) -/
theorem normalizeLongitudes_within (l : List (Float × Float)) :
    (normalizeLongitudes l).Within (fun _ => False) (· = .fuel) := by
  cases l with
  | nil => exact Outcome.Within.ok _
  | cons a as =>
    simp only [normalizeLongitudes]
    refine mapOutcomeF_within _ (fun p => ?_) _
    obtain ⟨lon, lat⟩ := p
    refine Outcome.Within.bind (unwrapLon_within _ _ _) fun l _ => ?_
    exact Outcome.Within.ok _

theorem polySplitEdges_pos (p : Poly) (n : Nat) (hp : 0 < p.length) : 0 < (polySplitEdges p n).length := by
  by_cases hn : n ≤ 1
  · rewrite [polySplitEdges_le_one p n hn]; exact hp
  · rewrite [polySplitEdges_length p n (by omega)]
    exact Nat.mul_pos hp (by omega)

theorem corners_pos (r : Int) : 0 < corners r := by
  unfold corners; split <;> omega

/-- on an id that decodes: a ring, `crsVertex`, or the loop fuel of `normalize_longitudes`.  In particular
the `normalized_boundary[0]` of the closed ring never indexes an empty vector (the split polygon has
`corners · max(segments, 1) ≥ 3` points and no stage drops a point). -/
theorem cellToBoundary_decoded (id : Nat) (closed : Bool) (segs : Option Nat) (c : Cell)
    (hc : deserialize id = .ok c) : (cellToBoundary id closed segs).Within (· = .crsVertex) (· = .fuel) := by
  have hv := deserialize_ok_valid' id c hc
  unfold cellToBoundary
  by_cases h0 : id = Gen.WORLD_CELL
  · rewrite [if_pos h0]; exact Outcome.Within.ok _
  rewrite [if_neg h0, hc]
  simp only [Outcome.bind_ok]
  by_cases hr : c.res = -1
  · rewrite [if_pos hr]; exact Outcome.Within.ok _
  rewrite [if_neg hr]
  obtain ⟨p, hp⟩ := getPentagon_valid c hv hr
  have hplen : 0 < p.length := by rewrite [getPentagon_length c p hp]; exact corners_pos _
  rewrite [hp]
  simp only [Outcome.bind_ok]
  refine Outcome.Within.bind
    ((mapOutcome'_within _ (fun v => dodecaInverse_okOrCrs v c.origin hv.origin_lt) _).mono
      (fun _ h => h) (fun _ h => h.elim)) fun sph hsph => ?_
  refine Outcome.Within.bind ((normalizeLongitudes_within _).mono (fun _ h => h.elim) (fun _ h => h))
    fun nb hnb => ?_
  have hlen := normalizeLongitudes_length _ _ hnb
  rewrite [List.length_map, mapOutcome'_length _ _ _ hsph] at hlen
  cases nb with
  | nil =>
    have hpos : 0 < ([] : List (Float × Float)).length := by
      rewrite [hlen]; exact polySplitEdges_pos p _ hplen
    exact absurd hpos (Nat.lt_irrefl 0)
  | cons first rest => exact Outcome.Within.ok _

theorem cellToBoundary_undecodable (id : Nat) (closed : Bool) (segs : Option Nat)
    (h : deserialize id = .err .badOrigin) : cellToBoundary id closed segs = .err .badOrigin := by
  have h0 : id ≠ Gen.WORLD_CELL := by
    intro h0
    have : id = 0 := h0
    subst this
    rewrite [deserialize_world 0 getResolution_zero'] at h
    cases h
  unfold cellToBoundary
  rewrite [if_neg h0, h]
  simp only [Outcome.bind_err]

/-- **`cell_to_boundary`, every id, both values of `closed_ring`, every `segments` (including `Some(0)`)**:
a ring, `badOrigin`, `crsVertex`, or the loop fuel of `normalize_longitudes`. -/
theorem cellToBoundary_within (id : Nat) (closed : Bool) (segs : Option Nat) :
    (cellToBoundary id closed segs).Within IdErr (· = .fuel) := by
  rcases deserialize_cases id with ⟨c, hc⟩ | hc
  · exact (cellToBoundary_decoded id closed segs c hc).mono (fun _ h => Or.inr h) (fun _ h => h)
  · rewrite [cellToBoundary_undecodable id closed segs hc]
    exact (Outcome.Within.err_iff _).2 (Or.inl rfl)

/-! ### 6. `a5cell_contains_point` -/

/-- containment test on ANY record whose origin is a face and for which `get_pentagon` returns a polygon
(this covers the decoder's records and the estimates of `lonlat_to_cell`, whose unused fields are not
normalised): a signed distance, `crsVertex` (projection) or `notCCW` (winding assertion); nothing else -/
theorem cellContainsPoint_of_pentagon (c : Cell) (ho : c.origin < 12) (p : Poly) (hp : getPentagon c = .ok p)
    (lon lat : Float) : Benign (cellContainsPoint c lon lat) := by
  unfold cellContainsPoint
  generalize fromLonLat lon lat = tp
  obtain ⟨theta, phi⟩ := tp
  dsimp only
  refine Outcome.Within.bind (dodecaForward_okOrCrs theta phi c.origin ho).benign fun pp _ => ?_
  rewrite [if_neg (by rewrite [origins_length]; omega)]
  generalize segmentToQuintant c.segment (originAt c.origin) = qo
  obtain ⟨q, o⟩ := qo
  dsimp only
  split
  · exact polyContains_benign _ pp
  · split
    · exact polyContains_benign _ pp
    · rewrite [hp]
      simp only [Outcome.bind_ok]
      exact polyContains_benign p pp

/-- if `get_pentagon` panics on the record, so does the containment test (unless the projection failed first) -/
theorem cellContainsPoint_of_pentagon_panic (c : Cell) (ho : c.origin < 12) (k : PanicKind)
    (hp : getPentagon c = .panic k) (lon lat : Float) :
    cellContainsPoint c lon lat = .err .crsVertex ∨ cellContainsPoint c lon lat = .panic k := by
  have hF : Gen.FIRST_HILBERT_RESOLUTION = 2 := rfl
  have hnot : ¬ (c.res = 0 ∨ c.res = 1) := by
    intro h01
    have : (getPentagon c).isOk = true :=
      (getPentagon_isOk_iff c).2 ⟨ho, h01.elim Or.inl (fun h => Or.inr (Or.inl h))⟩
    rewrite [hp] at this
    cases this
  unfold cellContainsPoint
  generalize fromLonLat lon lat = tp
  obtain ⟨theta, phi⟩ := tp
  dsimp only
  rcases (dodecaForward_okOrCrs theta phi c.origin ho).cases with h | ⟨pp, h⟩
  · rewrite [h]; exact Or.inl rfl
  · rewrite [h]
    simp only [Outcome.bind_ok]
    rewrite [if_neg (by rewrite [origins_length]; omega)]
    generalize segmentToQuintant c.segment (originAt c.origin) = qo
    obtain ⟨q, o⟩ := qo
    dsimp only
    rewrite [if_neg (by omega), if_neg (by omega), hp]
    exact Or.inr rfl

/-- **containment test on a record the decoder can produce (not the world record)** -/
theorem cellContainsPoint_valid (c : Cell) (hv : c.Valid) (hr : c.res ≠ -1) (lon lat : Float) :
    Benign (cellContainsPoint c lon lat) := by
  obtain ⟨p, hp⟩ := getPentagon_valid c hv hr
  exact cellContainsPoint_of_pentagon c hv.origin_lt p hp lon lat

/-- an origin id that is not a face is rejected by the projection before any table is indexed -/
theorem cellContainsPoint_bad_origin (c : Cell) (ho : 12 ≤ c.origin) (lon lat : Float) :
    cellContainsPoint c lon lat = .err .invalidOrigin := by
  unfold cellContainsPoint
  generalize fromLonLat lon lat = tp
  obtain ⟨theta, phi⟩ := tp
  dsimp only
  rewrite [dodecaForward_bad_origin theta phi c.origin ho]
  simp only [Outcome.bind_err]

/-- FINDING (model = Rust): on a record with a negative resolution - in particular on the record
`{origin 0, segment 0, s 0, resolution -1}` that `deserialize` itself returns for the world cell -
`a5cell_contains_point` does not return normally unless the projection already failed: it reaches
`get_pentagon` with curve depth `-2 as usize`. -/
theorem cellContainsPoint_negative_res (c : Cell) (ho : c.origin < 12) (hr : c.res < 0) (lon lat : Float) :
    cellContainsPoint c lon lat = .err .crsVertex ∨ cellContainsPoint c lon lat = .panic .fuel :=
  cellContainsPoint_of_pentagon_panic c ho .fuel (getPentagon_negative_res c ho hr) lon lat

/-! ### 7. `cell_area` -/

/-- **`cell_area`, every integer resolution**: the model is a total function (no `Outcome`): the
authalic area below 0, a table entry for `0 ..= 29`, else the area divided by the *saturating* cell
count, which always fits a `u64` (so the `u64 → f64` cast and the division are ordinary operations). -/
theorem cellArea_cases (r : Int) :
    (r < 0 ∧ cellArea r = fc Gen.AUTHALIC_AREA) ∨
    (0 ≤ r ∧ ∃ c, Gen.CELL_AREA_TABLE[r.toNat]? = some c ∧ cellArea r = fc c) ∨
    (0 ≤ r ∧ Gen.CELL_AREA_TABLE[r.toNat]? = none ∧
      cellArea r = fc Gen.AUTHALIC_AREA / Float.ofNat (getNumCells r) ∧ getNumCells r < 2 ^ 64) := by
  unfold cellArea
  by_cases h : r < 0
  · rewrite [if_pos h]; exact Or.inl ⟨h, rfl⟩
  · rewrite [if_neg h]
    cases ht : Gen.CELL_AREA_TABLE[r.toNat]? with
    | some c => exact Or.inr (Or.inl ⟨by omega, c, rfl, rfl⟩)
    | none => exact Or.inr (Or.inr ⟨by omega, rfl, rfl, getNumCells_lt r⟩)

/-! ### 8. the statements in explicit form -/

/-- **1. `cell_to_lonlat`**, every id -/
theorem cellToLonLat_outcomes (id : Nat) :
    (∃ p, cellToLonLat id = .ok p) ∨ cellToLonLat id = .err .badOrigin ∨ cellToLonLat id = .err .crsVertex := by
  rcases (cellToLonLat_within id).elim with h | ⟨e, h, he | he⟩ | ⟨k, _, hk⟩
  · exact Or.inl h
  · subst he; exact Or.inr (Or.inl h)
  · subst he; exact Or.inr (Or.inr h)
  · exact hk.elim

/-- `badOrigin` is reported exactly for the ids that do not decode -/
theorem cellToLonLat_badOrigin_iff (id : Nat) :
    cellToLonLat id = .err .badOrigin ↔ deserialize id = .err .badOrigin := by
  constructor
  · intro h
    rcases deserialize_cases id with ⟨c, hc⟩ | hc
    · have hw := cellToLonLat_decoded id c hc
      rewrite [h] at hw
      cases (Outcome.Within.err_iff _).1 hw
    · exact hc
  · exact cellToLonLat_undecodable id

/-- **2. `cell_to_boundary`**, every id, every option value -/
theorem cellToBoundary_outcomes (id : Nat) (closed : Bool) (segs : Option Nat) :
    (∃ ring, cellToBoundary id closed segs = .ok ring) ∨ cellToBoundary id closed segs = .err .badOrigin ∨
    cellToBoundary id closed segs = .err .crsVertex ∨ cellToBoundary id closed segs = .panic .fuel := by
  rcases (cellToBoundary_within id closed segs).elim with h | ⟨e, h, he | he⟩ | ⟨k, h, hk⟩
  · exact Or.inl h
  · subst he; exact Or.inr (Or.inl h)
  · subst he; exact Or.inr (Or.inr (Or.inl h))
  · subst hk; exact Or.inr (Or.inr (Or.inr h))

/-- **3. `a5cell_contains_point`** on EVERY record and every point - an exhaustive classification
(`get_pentagon` never returns `Err`: `getPentagon_not_err`).  The record type is public, so all situations
are reachable by a caller; the library's own `lonlat_to_cell` only reaches the second one. -/
theorem cellContainsPoint_outcomes (c : Cell) (lon lat : Float) :
    (12 ≤ c.origin → cellContainsPoint c lon lat = .err .invalidOrigin) ∧
    (c.origin < 12 → ∀ p, getPentagon c = .ok p →
      (∃ d, cellContainsPoint c lon lat = .ok d) ∨ cellContainsPoint c lon lat = .err .crsVertex ∨
        cellContainsPoint c lon lat = .panic .notCCW) ∧
    (c.origin < 12 → ∀ k, getPentagon c = .panic k →
      cellContainsPoint c lon lat = .err .crsVertex ∨ cellContainsPoint c lon lat = .panic k) ∧
    (c.Valid → c.res ≠ -1 →
      (∃ d, cellContainsPoint c lon lat = .ok d) ∨ cellContainsPoint c lon lat = .err .crsVertex ∨
        cellContainsPoint c lon lat = .panic .notCCW) ∧
    (c.origin < 12 → c.res < 0 →
      cellContainsPoint c lon lat = .err .crsVertex ∨ cellContainsPoint c lon lat = .panic .fuel) := by
  have key : ∀ (ho : c.origin < 12) (p : Poly), getPentagon c = .ok p →
      (∃ d, cellContainsPoint c lon lat = .ok d) ∨ cellContainsPoint c lon lat = .err .crsVertex ∨
        cellContainsPoint c lon lat = .panic .notCCW := by
    intro ho p hp
    rcases (cellContainsPoint_of_pentagon c ho p hp lon lat).elim with h | ⟨e, h, he⟩ | ⟨k, h, hk⟩
    · exact Or.inl h
    · subst he; exact Or.inr (Or.inl h)
    · subst hk; exact Or.inr (Or.inr h)
  refine ⟨fun ho => cellContainsPoint_bad_origin c ho lon lat, key,
    fun ho k hp => cellContainsPoint_of_pentagon_panic c ho k hp lon lat, fun hv hr => ?_,
    fun ho hr => cellContainsPoint_negative_res c ho hr lon lat⟩
  obtain ⟨p, hp⟩ := getPentagon_valid c hv hr
  exact key hv.origin_lt p hp

/-- the same for an id: decode, then test -/
theorem cellContainsPoint_id_outcomes (id : Nat) (c : Cell) (hd : deserialize id = .ok c) (hr : getResolution id ≠ -1)
    (lon lat : Float) :
    (∃ d, cellContainsPoint c lon lat = .ok d) ∨ cellContainsPoint c lon lat = .err .crsVertex ∨
      cellContainsPoint c lon lat = .panic .notCCW :=
  (cellContainsPoint_outcomes c lon lat).2.2.2.1 (deserialize_ok_valid' id c hd)
    (by rewrite [deserialize_res id c hd]; exact hr)

/-! ### 9. conditional success: the float-dependent events, and nothing else, stand between a
decodable id and an `ok` result -/

/-- the 240 spherical triangles of the projection all compute (a closed, finite fact about the float
constants; the driver evaluates it as `memoSphTotalCheck`, see `FloatApiTotal2.lean`) -/
def SphTrianglesCompute : Prop :=
  ∀ (idx o : Nat) (refl : Bool), idx ≤ 9 → o < 12 → ∃ st, computeSphericalTriangle idx o refl = .ok st

theorem dodecaInverse_ok_of (hT : SphTrianglesCompute) (f : V2) (o : Nat) (ho : o < 12) :
    ∃ r, dodecaInverse f o = .ok r := by
  unfold dodecaInverse
  rewrite [if_neg (by rewrite [origins_length]; omega)]
  dsimp only [toPolar]
  obtain ⟨ft, hft⟩ := getFaceTriangle_ok _ (faceTriangleIndex_le _) _ false
  rewrite [hft]
  simp only [Outcome.bind_ok]
  obtain ⟨st, hst⟩ := hT _ o _ (faceTriangleIndex_le _) ho
  rewrite [hst]
  exact ⟨_, rfl⟩

theorem dodecaForward_ok_of (hT : SphTrianglesCompute) (theta phi : Float) (o : Nat) (ho : o < 12) :
    ∃ r, dodecaForward theta phi o = .ok r := by
  unfold dodecaForward
  rewrite [if_neg (by rewrite [origins_length]; omega)]
  dsimp only [toSpherical, gnomonicForward]
  obtain ⟨ft, hft⟩ := getFaceTriangle_ok _ (faceTriangleIndex_le _) _ false
  rewrite [hft]
  simp only [Outcome.bind_ok]
  obtain ⟨st, hst⟩ := hT _ o _ (faceTriangleIndex_le _) ho
  rewrite [hst]
  exact ⟨_, rfl⟩

/-- if the id decodes and no `crsVertex` event occurs, `cell_to_lonlat` succeeds -/
theorem cellToLonLat_ok_of_no_event (id : Nat) (hd : ∃ c, deserialize id = .ok c)
    (hcrs : cellToLonLat id ≠ .err .crsVertex) : ∃ p, cellToLonLat id = .ok p := by
  rcases cellToLonLat_outcomes id with h | h | h
  · exact h
  · obtain ⟨c, hc⟩ := hd
    rewrite [(cellToLonLat_badOrigin_iff id).1 h] at hc
    cases hc
  · exact absurd h hcrs

/-- stronger form: once the 240 triangles compute, EVERY decodable id has a centre -/
theorem cellToLonLat_ok_of_triangles (hT : SphTrianglesCompute) (id : Nat) (hd : ∃ c, deserialize id = .ok c) :
    ∃ p, cellToLonLat id = .ok p := by
  obtain ⟨c, hc⟩ := hd
  have hv := deserialize_ok_valid' id c hc
  unfold cellToLonLat
  by_cases h0 : id = Gen.WORLD_CELL
  · rewrite [if_pos h0]; exact ⟨_, rfl⟩
  rewrite [if_neg h0, hc]
  simp only [Outcome.bind_ok]
  by_cases hr : c.res = -1
  · rewrite [if_pos hr]; exact ⟨_, rfl⟩
  rewrite [if_neg hr]
  obtain ⟨p, hp⟩ := getPentagon_valid c hv hr
  rewrite [hp]
  simp only [Outcome.bind_ok]
  obtain ⟨tp, hi⟩ := dodecaInverse_ok_of hT (polyCenter p) c.origin hv.origin_lt
  rewrite [hi]
  exact ⟨_, rfl⟩

theorem cellToBoundary_badOrigin_iff (id : Nat) (closed : Bool) (segs : Option Nat) :
    cellToBoundary id closed segs = .err .badOrigin ↔ deserialize id = .err .badOrigin := by
  constructor
  · intro h
    rcases deserialize_cases id with ⟨c, hc⟩ | hc
    · have hw := cellToBoundary_decoded id closed segs c hc
      rewrite [h] at hw
      cases (Outcome.Within.err_iff _).1 hw
    · exact hc
  · exact cellToBoundary_undecodable id closed segs

/-- if the id decodes and neither a `crsVertex` nor a loop-fuel event occurs, `cell_to_boundary` succeeds -/
theorem cellToBoundary_ok_of_no_event (id : Nat) (closed : Bool) (segs : Option Nat)
    (hd : ∃ c, deserialize id = .ok c) (hcrs : cellToBoundary id closed segs ≠ .err .crsVertex)
    (hfuel : cellToBoundary id closed segs ≠ .panic .fuel) : ∃ ring, cellToBoundary id closed segs = .ok ring := by
  rcases cellToBoundary_outcomes id closed segs with h | h | h | h
  · exact h
  · obtain ⟨c, hc⟩ := hd
    rewrite [(cellToBoundary_badOrigin_iff id closed segs).1 h] at hc
    cases hc
  · exact absurd h hcrs
  · exact absurd h hfuel

/-- if no `crsVertex` / `notCCW` event occurs, the containment test of a decodable non-world cell succeeds -/
theorem cellContainsPoint_ok_of_no_event (c : Cell) (hv : c.Valid) (hr : c.res ≠ -1) (lon lat : Float)
    (hcrs : cellContainsPoint c lon lat ≠ .err .crsVertex) (hccw : cellContainsPoint c lon lat ≠ .panic .notCCW) :
    ∃ d, cellContainsPoint c lon lat = .ok d := by
  rcases (cellContainsPoint_outcomes c lon lat).2.2.2.1 hv hr with h | h | h
  · exact h
  · exact absurd h hcrs
  · exact absurd h hccw

/-- stronger form: the triangles compute and the cell's own polygon passes the winding test -/
theorem cellContainsPoint_ok_of_triangles (hT : SphTrianglesCompute) (c : Cell) (hv : c.Valid) (hr : c.res ≠ -1)
    (hw : ∀ p, getPentagon c = .ok p → windingCorrect p = true) (lon lat : Float) :
    ∃ d, cellContainsPoint c lon lat = .ok d := by
  have hF : Gen.FIRST_HILBERT_RESOLUTION = 2 := rfl
  have ho := hv.origin_lt
  obtain ⟨p, hp⟩ := getPentagon_valid c hv hr
  have hwp := hw p hp
  have hpc : ∀ pp, ∃ d, polyContains p pp = .ok d := by
    intro pp
    unfold polyContains
    rewrite [hwp]
    exact ⟨_, rfl⟩
  unfold cellContainsPoint
  generalize fromLonLat lon lat = tp
  obtain ⟨theta, phi⟩ := tp
  dsimp only
  obtain ⟨pp, hpp⟩ := dodecaForward_ok_of hT theta phi c.origin ho
  rewrite [hpp]
  simp only [Outcome.bind_ok]
  rewrite [if_neg (by rewrite [origins_length]; omega)]
  have hp0 := hp
  unfold getPentagon at hp
  rewrite [if_neg (by rewrite [origins_length]; omega)] at hp
  generalize segmentToQuintant c.segment (originAt c.origin) = qo at hp ⊢
  obtain ⟨q, o⟩ := qo
  dsimp only at hp ⊢
  by_cases h1 : c.res = Gen.FIRST_HILBERT_RESOLUTION - 1
  · rewrite [if_pos h1] at hp ⊢
    cases Outcome.ok.inj hp
    exact hpc pp
  rewrite [if_neg h1] at hp ⊢
  by_cases h0 : c.res = Gen.FIRST_HILBERT_RESOLUTION - 2
  · rewrite [if_pos h0] at hp ⊢
    cases Outcome.ok.inj hp
    exact hpc pp
  rewrite [if_neg h0, hp0]
  simp only [Outcome.bind_ok]
  exact hpc pp

/-- with the triangles: a decodable id has a boundary unless a longitude loop runs out of fuel -/
theorem cellToBoundary_ok_of_triangles (hT : SphTrianglesCompute) (id : Nat) (closed : Bool) (segs : Option Nat)
    (hd : ∃ c, deserialize id = .ok c) :
    (∃ ring, cellToBoundary id closed segs = .ok ring) ∨ cellToBoundary id closed segs = .panic .fuel := by
  obtain ⟨c, hc⟩ := hd
  have hv := deserialize_ok_valid' id c hc
  have hm : ∀ l : List V2, ∃ sph, mapOutcome' (fun v => dodecaInverse v c.origin) l = .ok sph := by
    intro l
    induction l with
    | nil => exact ⟨[], rfl⟩
    | cons a as ih =>
      obtain ⟨b, hb⟩ := dodecaInverse_ok_of hT a c.origin hv.origin_lt
      obtain ⟨bs, hbs⟩ := ih
      refine ⟨b :: bs, ?_⟩
      simp only [mapOutcome']
      rewrite [hb]; simp only [Outcome.bind_ok]
      rewrite [hbs]; simp only [Outcome.bind_ok]
  rcases cellToBoundary_outcomes id closed segs with h | h | h | h
  · exact Or.inl h
  · rewrite [(cellToBoundary_badOrigin_iff id closed segs).1 h] at hc; cases hc
  · exfalso
    unfold cellToBoundary at h
    by_cases h0 : id = Gen.WORLD_CELL
    · rewrite [if_pos h0] at h; cases h
    rewrite [if_neg h0, hc] at h
    simp only [Outcome.bind_ok] at h
    by_cases hr : c.res = -1
    · rewrite [if_pos hr] at h; cases h
    rewrite [if_neg hr] at h
    obtain ⟨p, hp⟩ := getPentagon_valid c hv hr
    rewrite [hp] at h
    simp only [Outcome.bind_ok] at h
    generalize polySplitEdges p _ = split at h
    obtain ⟨sph, hs⟩ := hm split
    rewrite [hs] at h
    simp only [Outcome.bind_ok] at h
    rcases (normalizeLongitudes_within (sph.map (fun x => toLonLat x.1 x.2))).elim with
      ⟨nb, hn⟩ | ⟨e, _, he⟩ | ⟨k, hn, _⟩
    · rewrite [hn] at h
      simp only [Outcome.bind_ok] at h
      cases nb with
      | nil => cases h
      | cons first rest => cases h
    · exact he
    · rewrite [hn] at h; simp only [Outcome.bind_panic] at h; cases h
  · exact Or.inr h

/-! ### 10. where the `fuel` panic of `cell_to_boundary` comes from -/

theorem Outcome.bind_ok_eq_panic {α β : Type} {x : Outcome α} {g : α → β} {k : PanicKind}
    (h : (x >>= fun v => Outcome.ok (g v)) = .panic k) : x = .panic k := by
  cases x with
  | ok v => simp only [Outcome.bind_ok] at h; cases h
  | err e => simp only [Outcome.bind_err] at h; cases h
  | panic k' => simp only [Outcome.bind_panic] at h; cases h; rfl

theorem mapOutcomeF_panic {α β : Type} (f : α → Outcome β) (k : PanicKind) :
    ∀ l : List α, normalizeLongitudes.mapOutcomeF f l = .panic k → ∃ a ∈ l, f a = .panic k := by
  intro l
  induction l with
  | nil => intro h; simp only [normalizeLongitudes.mapOutcomeF] at h; cases h
  | cons a as ih =>
    intro h
    simp only [normalizeLongitudes.mapOutcomeF] at h
    cases ha : f a with
    | ok b =>
      rewrite [ha] at h; simp only [Outcome.bind_ok] at h
      cases hr : normalizeLongitudes.mapOutcomeF f as with
      | ok bs => rewrite [hr] at h; simp only [Outcome.bind_ok] at h; cases h
      | err e => rewrite [hr] at h; simp only [Outcome.bind_err] at h; cases h
      | panic k' =>
        rewrite [hr] at h; simp only [Outcome.bind_panic] at h
        cases h
        obtain ⟨x, hx, hfx⟩ := ih hr
        exact ⟨x, List.mem_cons_of_mem _ hx, hfx⟩
    | err e => rewrite [ha] at h; simp only [Outcome.bind_err] at h; cases h
    | panic k' =>
      rewrite [ha] at h; simp only [Outcome.bind_panic] at h
      cases h
      exact ⟨a, List.mem_cons_self, ha⟩

/-- a panic of `normalize_longitudes` is a panic of one of its longitude loops -/
theorem normalizeLongitudes_panic (l : List (Float × Float)) (k : PanicKind) (h : normalizeLongitudes l = .panic k) :
    ∃ lon center, unwrapLon 64 lon center = .panic k := by
  cases l with
  | nil => simp only [normalizeLongitudes] at h; cases h
  | cons a as =>
    simp only [normalizeLongitudes] at h
    obtain ⟨⟨lon, lat⟩, _, hx⟩ := mapOutcomeF_panic _ k _ h
    exact ⟨lon, _, Outcome.bind_ok_eq_panic hx⟩

/-- **the only panic of `cell_to_boundary`**: one of the two `while` loops of `normalize_longitudes`
fails to bring a longitude within 180° of the centre longitude in 64 steps of 360° -/
theorem cellToBoundary_panic (id : Nat) (closed : Bool) (segs : Option Nat) (k : PanicKind)
    (h : cellToBoundary id closed segs = .panic k) :
    k = .fuel ∧ ∃ lon center, unwrapLon 64 lon center = .panic .fuel := by
  have hk : k = .fuel := by
    have hw := cellToBoundary_within id closed segs
    rewrite [h] at hw
    have hk' := (Outcome.Within.panic_iff (E := IdErr) (K := (· = PanicKind.fuel)) k).1 hw
    exact hk'
  subst hk
  refine ⟨rfl, ?_⟩
  rcases deserialize_cases id with ⟨c, hc⟩ | hc
  · have hv := deserialize_ok_valid' id c hc
    unfold cellToBoundary at h
    by_cases h0 : id = Gen.WORLD_CELL
    · rewrite [if_pos h0] at h; cases h
    rewrite [if_neg h0, hc] at h
    simp only [Outcome.bind_ok] at h
    by_cases hr : c.res = -1
    · rewrite [if_pos hr] at h; cases h
    rewrite [if_neg hr] at h
    obtain ⟨p, hp⟩ := getPentagon_valid c hv hr
    rewrite [hp] at h
    simp only [Outcome.bind_ok] at h
    generalize polySplitEdges p _ = split at h
    rcases (mapOutcome'_within (E := (· = .crsVertex)) (K := fun _ => False) _
        (fun v => dodecaInverse_okOrCrs v c.origin hv.origin_lt) split).elim with ⟨sph, hs⟩ | ⟨e, hs, _⟩ | ⟨k, _, hk⟩
    · rewrite [hs] at h
      simp only [Outcome.bind_ok] at h
      cases hn : normalizeLongitudes (sph.map (fun x => toLonLat x.1 x.2)) with
      | ok nb =>
        rewrite [hn] at h
        simp only [Outcome.bind_ok] at h
        cases nb with
        | nil => cases h
        | cons first rest => cases h
      | err e => rewrite [hn] at h; simp only [Outcome.bind_err] at h; cases h
      | panic k' =>
        rewrite [hn] at h; simp only [Outcome.bind_panic] at h
        cases h
        exact normalizeLongitudes_panic _ _ hn
    · rewrite [hs] at h; simp only [Outcome.bind_err] at h; cases h
    · exact hk.elim
  · rewrite [cellToBoundary_undecodable id closed segs hc] at h; cases h

/-! ### 11. explicit projection statements and the summary -/

/-- **4a. `DodecahedronProjection::forward`**, every origin id and all floats -/
theorem dodecaForward_cases (theta phi : Float) (o : Nat) :
    (∃ v, dodecaForward theta phi o = .ok v) ∨ (dodecaForward theta phi o = .err .crsVertex ∧ o < 12) ∨
    (dodecaForward theta phi o = .err .invalidOrigin ∧ 12 ≤ o) := by
  rcases (dodecaForward_outcomes theta phi o).elim with h | ⟨e, h, ⟨he, ho⟩ | ⟨he, ho⟩⟩ | ⟨k, _, hk⟩
  · exact Or.inl h
  · subst he; exact Or.inr (Or.inl ⟨h, ho⟩)
  · subst he; exact Or.inr (Or.inr ⟨h, ho⟩)
  · exact hk.elim

/-- **4b. `DodecahedronProjection::inverse`**, every origin id and every face point -/
theorem dodecaInverse_cases (f : V2) (o : Nat) :
    (∃ v, dodecaInverse f o = .ok v) ∨ (dodecaInverse f o = .err .crsVertex ∧ o < 12) ∨
    (dodecaInverse f o = .err .invalidOrigin ∧ 12 ≤ o) := by
  rcases (dodecaInverse_outcomes f o).elim with h | ⟨e, h, ⟨he, ho⟩ | ⟨he, ho⟩⟩ | ⟨k, _, hk⟩
  · exact Or.inl h
  · subst he; exact Or.inr (Or.inl ⟨h, ho⟩)
  · subst he; exact Or.inr (Or.inr ⟨h, ho⟩)
  · exact hk.elim

/-- the id-based centre call and both projection directions never panic, for any input at all -/
theorem float_calls_never_panic :
    (∀ id : Nat, (cellToLonLat id).isPanic = false) ∧
    (∀ (theta phi : Float) (o : Nat), (dodecaForward theta phi o).isPanic = false) ∧
    (∀ (f : V2) (o : Nat), (dodecaInverse f o).isPanic = false) :=
  ⟨fun id => (cellToLonLat_within id).not_panic, fun t p o => (dodecaForward_outcomes t p o).not_panic,
   fun f o => (dodecaInverse_outcomes f o).not_panic⟩

/-- **`float_api_total`**: outcome-level totality of the float-valued public calls, for every 64-bit (indeed
every natural) id, every `Float` (NaN and infinities included), every option value, every origin id and
every integer resolution.  Float-dependent events that remain: the error `crsVertex`, the panic `notCCW`
(containment path only) and the loop fuel of `normalize_longitudes` (boundary only). -/
theorem float_api_total :
    -- 1. cell_to_lonlat
    (∀ id : Nat, (∃ p, cellToLonLat id = .ok p) ∨ cellToLonLat id = .err .badOrigin ∨
        cellToLonLat id = .err .crsVertex) ∧
    -- 2. cell_to_boundary
    (∀ (id : Nat) (closed : Bool) (segs : Option Nat),
        (∃ ring, cellToBoundary id closed segs = .ok ring) ∨ cellToBoundary id closed segs = .err .badOrigin ∨
        cellToBoundary id closed segs = .err .crsVertex ∨ cellToBoundary id closed segs = .panic .fuel) ∧
    -- 3. a5cell_contains_point on the record of a decodable non-world id
    (∀ (id : Nat) (c : Cell) (lon lat : Float), deserialize id = .ok c → getResolution id ≠ -1 →
        (∃ d, cellContainsPoint c lon lat = .ok d) ∨ cellContainsPoint c lon lat = .err .crsVertex ∨
        cellContainsPoint c lon lat = .panic .notCCW) ∧
    -- 4. the projection, both directions
    (∀ (theta phi : Float) (o : Nat),
        (∃ v, dodecaForward theta phi o = .ok v) ∨ (dodecaForward theta phi o = .err .crsVertex ∧ o < 12) ∨
        (dodecaForward theta phi o = .err .invalidOrigin ∧ 12 ≤ o)) ∧
    (∀ (f : V2) (o : Nat),
        (∃ v, dodecaInverse f o = .ok v) ∨ (dodecaInverse f o = .err .crsVertex ∧ o < 12) ∨
        (dodecaInverse f o = .err .invalidOrigin ∧ 12 ≤ o)) ∧
    -- get_pentagon on the record of a decodable non-world id
    (∀ (id : Nat) (c : Cell), deserialize id = .ok c → getResolution id ≠ -1 → ∃ p, getPentagon c = .ok p) ∧
    -- cell_area: the saturating count always fits a u64
    (∀ r : Int, getNumCells r < 2 ^ 64) :=
  ⟨cellToLonLat_outcomes, cellToBoundary_outcomes,
   fun id c lon lat hd hr => cellContainsPoint_id_outcomes id c hd hr lon lat,
   dodecaForward_cases, dodecaInverse_cases,
   fun id c hd hr => getPentagon_valid c (deserialize_ok_valid' id c hd) (by rewrite [deserialize_res id c hd]; exact hr),
   getNumCells_lt⟩

/-- the record-level calls are NOT total on hand-made records (public struct, public fields) -/
theorem record_api_findings :
    (∀ c : Cell, 12 ≤ c.origin → getPentagon c = .panic .indexOOB) ∧
    (∀ c : Cell, c.origin < 12 → c.res < 0 → getPentagon c = .panic .fuel) ∧
    (∀ (c : Cell) (lon lat : Float), c.origin < 12 → c.res < 0 →
        cellContainsPoint c lon lat = .err .crsVertex ∨ cellContainsPoint c lon lat = .panic .fuel) ∧
    (∀ (c : Cell) (lon lat : Float), 12 ≤ c.origin → cellContainsPoint c lon lat = .err .invalidOrigin) :=
  ⟨getPentagon_bad_origin, getPentagon_negative_res,
   fun c lon lat ho hr => cellContainsPoint_negative_res c ho hr lon lat,
   fun c lon lat ho => cellContainsPoint_bad_origin c ho lon lat⟩

/-! ### non-vacuity -/

-- a resolution-4 cell, a stray-bit alias of it, a non-cell, the world cell
example : deserialize 0x92d8000000000000 = .ok ⟨7, 3, 0x2d, 4⟩ := by decide
example : (⟨7, 3, 0x2d, 4⟩ : Cell).Valid := by decide
example : ∃ p, getPentagon ⟨7, 3, 0x2d, 4⟩ = .ok p := getPentagon_valid _ (by decide) (by decide)
example : OkOrCrs (cellToLonLat 0x92d8000000000001) :=
  cellToLonLat_decoded _ ⟨7, 3, 0x2d, 4⟩ (by decide)
example : (cellToBoundary 0x92d8000000000000 true (some 0)).Within (· = .crsVertex) (· = .fuel) :=
  cellToBoundary_decoded _ _ _ ⟨7, 3, 0x2d, 4⟩ (by decide)
example : (cellToBoundary 0x92d8000000000000 false none).Within (· = .crsVertex) (· = .fuel) :=
  cellToBoundary_decoded _ _ _ ⟨7, 3, 0x2d, 4⟩ (by decide)
example : cellToLonLat 0xf200000000000000 = .err .badOrigin := cellToLonLat_undecodable _ (by decide)
example : cellToBoundary 0xf200000000000000 true (some 7) = .err .badOrigin :=
  cellToBoundary_undecodable _ _ _ (by decide)
example (lon lat : Float) : Benign (cellContainsPoint ⟨7, 3, 0x2d, 4⟩ lon lat) :=
  cellContainsPoint_valid _ (by decide) (by decide) lon lat
-- the world record is what `deserialize` returns for id 0 (and for id 1, 2, 3, …: no marker bit)
example : deserialize 1 = .ok ⟨0, 0, 0, -1⟩ := by decide
example : getPentagon ⟨0, 0, 0, -1⟩ = .panic .fuel := getPentagon_negative_res _ (by decide) (by decide)
example : getPentagon ⟨12, 0, 0, 0⟩ = .panic .indexOOB := getPentagon_bad_origin _ (by decide)
-- `s_to_anchor` with a position that does not fit its depth, reversed orientation 1: subtraction overflow
example : (sToAnchor 16 2 1).isPanic = true := (sToAnchor_isPanic_iff 16 2 1).2 (Or.inl ⟨by decide, Or.inr (by decide)⟩)
example : dodecaInverse ⟨0.0, 0.0⟩ 12 = .err .invalidOrigin := dodecaInverse_bad_origin _ _ (by decide)
example : (cellArea (-7) = fc Gen.AUTHALIC_AREA) := by
  rcases cellArea_cases (-7) with ⟨_, h⟩ | ⟨h, _⟩ | ⟨h, _⟩
  · exact h
  · omega
  · omega

end A5
