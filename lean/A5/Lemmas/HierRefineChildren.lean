import A5.Lemmas.HierRefineParent
/-! `cellToChildren` refines `Path.descendantsOrdered` on every canonical id (core-only).

Structure: (1) the sequential maps, (2) `cellToChildren` restated with the triple loop as one function
`childLoop`, (3) the innermost loop enumerates `descend n` of a deep path (digits of the counter, most
significant first), (4) the three source levels (world, face, deeper), (5) the closed form. -/
namespace A5

/-! ### 1. sequential maps -/

theorem mapOutcome_ok {α β : Type} (f : α → Outcome β) (g : α → β) (l : List α)
    (h : ∀ a ∈ l, f a = .ok (g a)) : mapOutcome f l = .ok (l.map g) := by
  induction l with
  | nil => rfl
  | cons a l ih =>
    simp only [mapOutcome]
    rewrite [h a (List.mem_cons_self ..), ih (fun b hb => h b (List.mem_cons_of_mem _ hb))]
    simp only [Outcome.bind_ok, List.map_cons]

theorem flatMapOutcome_ok {α β : Type} (f : α → Outcome (List β)) (g : α → List β) (l : List α)
    (h : ∀ a ∈ l, f a = .ok (g a)) : flatMapOutcome f l = .ok (l.flatMap g) := by
  induction l with
  | nil => rfl
  | cons a l ih =>
    simp only [flatMapOutcome]
    rewrite [h a (List.mem_cons_self ..), ih (fun b hb => h b (List.mem_cons_of_mem _ hb))]
    simp only [Outcome.bind_ok, List.flatMap_cons]

theorem mapOutcome_err {α β : Type} (f : α → Outcome β) (e : ErrKind) (l : List α) (hne : l ≠ [])
    (h : ∀ a ∈ l, f a = .err e) : mapOutcome f l = .err e := by
  cases l with
  | nil => exact absurd rfl hne
  | cons a l =>
    simp only [mapOutcome]
    rewrite [h a (List.mem_cons_self ..)]
    simp only [Outcome.bind_err]

theorem flatMapOutcome_err {α β : Type} (f : α → Outcome (List β)) (e : ErrKind) (l : List α) (hne : l ≠ [])
    (h : ∀ a ∈ l, f a = .err e) : flatMapOutcome f l = .err e := by
  cases l with
  | nil => exact absurd rfl hne
  | cons a l =>
    simp only [flatMapOutcome]
    rewrite [h a (List.mem_cons_self ..)]
    simp only [Outcome.bind_err]

theorem flatMapOutcome_append {α β : Type} (f : α → Outcome (List β)) (l₁ l₂ : List α) (a b : List β)
    (h1 : flatMapOutcome f l₁ = .ok a) (h2 : flatMapOutcome f l₂ = .ok b) :
    flatMapOutcome f (l₁ ++ l₂) = .ok (a ++ b) := by
  induction l₁ generalizing a with
  | nil => cases Outcome.ok.inj h1; exact h2
  | cons x l ih =>
    simp only [flatMapOutcome, List.cons_append] at h1 ⊢
    cases hx : f x with
    | ok v =>
      rewrite [hx] at h1; simp only [Outcome.bind_ok] at h1 ⊢
      cases hl : flatMapOutcome f l with
      | ok w =>
        rewrite [hl] at h1; simp only [Outcome.bind_ok] at h1
        cases Outcome.ok.inj h1
        rewrite [ih w hl]; simp only [Outcome.bind_ok, List.append_assoc]
      | err e => rewrite [hl] at h1; simp only [Outcome.bind_err] at h1; cases h1
      | panic k => rewrite [hl] at h1; simp only [Outcome.bind_panic] at h1; cases h1
    | err e => rewrite [hx] at h1; simp only [Outcome.bind_err] at h1; cases h1
    | panic k => rewrite [hx] at h1; simp only [Outcome.bind_panic] at h1; cases h1

/-! ### 2. `cellToChildren` with the triple loop named -/

/-- the three nested `for` loops of `cell_to_children` -/
def childLoop (origins segments : List Nat) (sh cnt : Nat) (new : Int) : Outcome (List Nat) :=
  flatMapOutcome (fun o =>
    flatMapOutcome (fun seg =>
      mapOutcome (fun i => u64Add sh i >>= fun ns => serialize ⟨o, seg, ns, new⟩) (List.range cnt))
      segments) origins

theorem childLoop_ok (origins segments : List Nat) (sh cnt : Nat) (new : Int) (g : Nat → Nat → List Nat)
    (h : ∀ o ∈ origins, ∀ seg ∈ segments,
      mapOutcome (fun i => u64Add sh i >>= fun ns => serialize ⟨o, seg, ns, new⟩) (List.range cnt) = .ok (g o seg)) :
    childLoop origins segments sh cnt new = .ok (origins.flatMap (fun o => segments.flatMap (g o))) := by
  unfold childLoop
  exact flatMapOutcome_ok _ _ _ (fun o ho => flatMapOutcome_ok _ _ _ (fun seg hs => h o ho seg hs))

theorem childLoop_err (origins segments : List Nat) (sh cnt : Nat) (new : Int) (e : ErrKind)
    (ho : origins ≠ []) (hs : segments ≠ [])
    (h : ∀ o ∈ origins, ∀ seg ∈ segments,
      mapOutcome (fun i => u64Add sh i >>= fun ns => serialize ⟨o, seg, ns, new⟩) (List.range cnt) = .err e) :
    childLoop origins segments sh cnt new = .err e := by
  unfold childLoop
  exact flatMapOutcome_err _ _ _ ho (fun o ho' => flatMapOutcome_err _ _ _ hs (fun seg hs' => h o ho' seg hs'))

theorem cellToChildren_of_deserialize (id : Nat) (c : Cell) (h : deserialize id = .ok c) (r' : Int) :
    cellToChildren id (some r') =
      if r' < c.res then .err .targetCoarser
      else if r' > 30 then .err .exceedsMax
      else if r' = c.res then serialize c >>= fun x => .ok [x]
      else if r' - max c.res 1 > 20 then .err .diffTooLarge
      else (if r' - max c.res 1 > 0 then u64Shl c.s (2 * (r' - max c.res 1).toNat) else .ok c.s) >>= fun shifted =>
        childLoop (if c.res = -1 then List.range 12 else [c.origin])
          (if (c.res = -1 ∧ r' > 0) ∨ c.res = 0 then [0, 1, 2, 3, 4] else [c.segment])
          shifted (if r' - max c.res 1 ≤ 0 then 1 else 4 ^ (r' - max c.res 1).toNat) r' := by
  unfold cellToChildren
  rewrite [h]
  simp only [Outcome.bind_ok]
  rfl

theorem count_eq (d : Int) : (if d ≤ 0 then 1 else 4 ^ d.toNat) = 4 ^ d.toNat := by
  by_cases h : d ≤ 0
  · rewrite [if_pos h, Int.toNat_of_nonpos h]; rfl
  · rewrite [if_neg h]; rfl

theorem shifted_eq (s : Nat) (d : Int) (h1 : d ≤ 20) (h2 : s * 4 ^ d.toNat < 2 ^ 64) :
    (if d > 0 then u64Shl s (2 * d.toNat) else .ok s) = .ok (s * 4 ^ d.toNat) := by
  by_cases h : d > 0
  · rewrite [if_pos h, u64Shl_ok _ _ (by omega) (by rewrite [Path.two_pow_two_mul]; exact h2), Path.two_pow_two_mul]
    rfl
  · rewrite [if_neg h, Int.toNat_of_nonpos (by omega), Nat.pow_zero, Nat.mul_one]; rfl

/-- the loop form, once the range checks have passed -/
theorem cellToChildren_loop (id : Nat) (c : Cell) (h : deserialize id = .ok c) (r' : Int)
    (h1 : c.res < r') (h2 : r' ≤ 30) (h3 : r' - max c.res 1 ≤ 20)
    (hs : c.s * 4 ^ (r' - max c.res 1).toNat < 2 ^ 64) :
    cellToChildren id (some r') =
      childLoop (if c.res = -1 then List.range 12 else [c.origin])
        (if (c.res = -1 ∧ r' > 0) ∨ c.res = 0 then [0, 1, 2, 3, 4] else [c.segment])
        (c.s * 4 ^ (r' - max c.res 1).toNat) (4 ^ (r' - max c.res 1).toNat) r' := by
  rewrite [cellToChildren_of_deserialize id c h, if_neg (by omega), if_neg (by omega), if_neg (by omega),
    if_neg (by omega), shifted_eq _ _ h3 hs, count_eq]
  simp only [Outcome.bind_ok]

namespace Path

/-! ### 3. the innermost loop -/

/-- the `4^n` descendants `n` levels below a deep cell, in order: append the digits of `i` -/
theorem descend_deep_eq (f k : Nat) (n : Nat) (ds : List Nat) :
    descend n (deep f k ds) = (List.range (4 ^ n)).map (fun i => deep f k (ds ++ digits n i)) := by
  induction n generalizing ds with
  | zero => simp [descend, digits]
  | succ n ih =>
    rewrite [Nat.pow_succ, Nat.mul_comm, range_mul_map]
    simp only [descend, children, List.flatMap_map]
    refine flatMap_congr' (fun d _ => ?_)
    rewrite [ih]
    refine List.map_congr_left (fun i hi => ?_)
    rewrite [digits_succ_block n d i (List.mem_range.1 hi), List.append_assoc]
    rfl

theorem pow_bound (s a n : Nat) (hs : s < 4 ^ a) (h : a + n ≤ 29) : s * 4 ^ n + 4 ^ n ≤ 2 ^ 58 := by
  have h1 : (s + 1) * 4 ^ n ≤ 4 ^ a * 4 ^ n := Nat.mul_le_mul_right _ hs
  rewrite [← Nat.pow_add, Nat.add_mul, Nat.one_mul] at h1
  have h2 := four_pow_le_of_le h
  rewrite [four_pow_29] at h2
  omega

theorem wf_append_digits (f k : Nat) (ds : List Nat) (n i : Nat) (hf : f < 12) (hk : k < 5)
    (hd : ∀ d ∈ ds, d < 4) (hl : ds.length + n ≤ 28) (hi : i < 4 ^ n) : WF (deep f k (ds ++ digits n i)) := by
  refine ⟨hf, hk, ?_, by rewrite [List.length_append, length_digits]; exact hl⟩
  intro d hd'
  rcases List.mem_append.1 hd' with h | h
  · exact hd d h
  · exact digits_lt n i hi d h

theorem inner_ok (f k : Nat) (ds : List Nat) (n : Nat) (hf : f < 12) (hk : k < 5) (hd : ∀ d ∈ ds, d < 4)
    (hl : ds.length + n ≤ 28) (sh : Nat) (hsh : sh = value ds * 4 ^ n)
    (seg : Nat) (hseg : seg = (k + firstQuintant f) % 5) (r : Int) (hr : r = 1 + (ds.length : Int) + (n : Int)) :
    mapOutcome (fun i => u64Add sh i >>= fun ns => serialize ⟨f, seg, ns, r⟩) (List.range (4 ^ n))
      = .ok ((descend n (deep f k ds)).map enc) := by
  subst hsh hseg hr
  have e : (descend n (deep f k ds)).map enc =
      (List.range (4 ^ n)).map (fun i => enc (deep f k (ds ++ digits n i))) := by
    rewrite [descend_deep_eq, List.map_map]; rfl
  rewrite [e]
  refine mapOutcome_ok _ _ _ (fun i hi => ?_)
  have hi' := List.mem_range.1 hi
  have hb := pow_bound (value ds) ds.length n (value_lt ds hd) (by omega)
  rewrite [u64Add_ok _ _ (by omega)]
  simp only [Outcome.bind_ok]
  have hw := wf_append_digits f k ds n i hf hk hd hl hi'
  rewrite [← serialize_toCell hw]
  refine congrArg serialize ?_
  simp only [toCell, Cell.mk.injEq, true_and]
  refine ⟨?_, ?_⟩
  · rewrite [value_append, length_digits, value_digits n i hi']; rfl
  · rewrite [List.length_append, length_digits]; omega

theorem range_pow_ne_nil (n : Nat) : List.range (4 ^ n) ≠ [] := by
  intro h
  have := congrArg List.length h
  rewrite [List.length_range, List.length_nil] at this
  have hp : 0 < 4 ^ n := Nat.pow_pos (by omega)
  omega

theorem inner_err30 (o seg sh n : Nat) (hb : sh + 4 ^ n ≤ 2 ^ 64) :
    mapOutcome (fun i => u64Add sh i >>= fun ns => serialize ⟨o, seg, ns, 30⟩) (List.range (4 ^ n))
      = .err .resTooLarge := by
  refine mapOutcome_err _ _ _ (range_pow_ne_nil n) (fun i hi => ?_)
  have hi' := List.mem_range.1 hi
  rewrite [u64Add_ok _ _ (by omega)]
  simp only [Outcome.bind_ok]
  simp [serialize, Gen.MAX_RESOLUTION]

/-! ### 4. the three source levels -/

theorem descendantsAt_quint (f k n : Nat) : descendantsAt (deep f k []) (1 + (n : Int)) = descend n (deep f k []) := by
  rewrite [descendantsAt_of_le (by simp only [res, List.length_nil]; omega)]
  have : (1 + (n : Int) - res (deep f k [])).toNat = n := by simp only [res, List.length_nil]; omega
  rewrite [this]; rfl

/-- what the two inner loops produce below face `f`, `n` levels below the quintants -/
def quintChildren (f n : Nat) : List Nat :=
  [0, 1, 2, 3, 4].flatMap (fun seg => (descend n (deep f ((seg + 5 - firstQuintant f) % 5) [])).map enc)

theorem quintChildren_eq (f n : Nat) :
    quintChildren f n = ((quintsOrdered f).flatMap (fun q => descendantsAt q (1 + (n : Int)))).map enc := by
  have e : List.range 5 = [0, 1, 2, 3, 4] := by decide
  simp only [quintChildren, quintsOrdered, List.flatMap_map, List.map_flatMap, descendantsAt_quint, e]

theorem quint_loop (f n : Nat) (hf : f < 12) (hn : n ≤ 28) (seg : Nat) (hs : seg ∈ [0, 1, 2, 3, 4]) :
    mapOutcome (fun i => u64Add (0 * 4 ^ n) i >>= fun ns => serialize ⟨f, seg, ns, 1 + (n : Int)⟩) (List.range (4 ^ n))
      = .ok ((descend n (deep f ((seg + 5 - firstQuintant f) % 5) [])).map enc) := by
  have hq := firstQuintant_lt f hf
  have hs5 : seg < 5 := by
    simp only [List.mem_cons, List.not_mem_nil, or_false] at hs; omega
  exact inner_ok f _ [] n hf (Nat.mod_lt _ (by omega)) (by simp) (by simp only [List.length_nil]; omega)
    _ (by rewrite [value_nil]; rfl) seg (by omega) _ (by simp only [List.length_nil]; omega)

theorem flatMap_pure_eq_map {α β : Type} (l : List α) (g : α → β) : l.flatMap (fun a => [g a]) = l.map g := by
  induction l with
  | nil => rfl
  | cons a l ih => simp only [List.flatMap_cons, List.map_cons, ih, List.singleton_append]

/-- from the world cell to resolution 0 -/
theorem children_world_zero : cellToChildren (enc world) (some 0) = .ok ((descendantsOrdered world 0).map enc) := by
  rewrite [cellToChildren_loop _ _ (deserialize_enc_path (p := world) trivial) 0
    (by decide) (by decide) (by decide) (by decide)]
  have e : childLoop (List.range 12) [0] (0 * 4 ^ 0) (4 ^ 0) 0
      = .ok ((List.range 12).flatMap (fun o => [0].flatMap (fun _ => [o * 2 ^ 58 + 2 ^ 57]))) := by
    refine childLoop_ok _ _ _ _ _ (fun o _ => [o * 2 ^ 58 + 2 ^ 57]) (fun o ho seg hs => ?_)
    have ho' := List.mem_range.1 ho
    simp only [List.mem_singleton] at hs
    subst hs
    refine (mapOutcome_ok _ (fun _ => o * 2 ^ 58 + 2 ^ 57) _ (fun i _ => ?_)).trans ?_
    · rewrite [u64Add_ok _ _ (by simp only [Nat.pow_zero, List.mem_range] at *; omega)]
      simp only [Outcome.bind_ok]
      exact serialize_res0_any o 0 _ ho' (by omega)
    · rfl
  refine Eq.trans ?_ (e.trans ?_)
  · rfl
  · refine congrArg Outcome.ok ?_
    have hd : descendantsOrdered world 0 = (List.range 12).map face := by
      have : descendantsOrdered world 0 = descendantsAt world 0 := by simp [descendantsOrdered]
      rewrite [this]
      exact descendantsAt_succ world
    rewrite [hd, List.map_map]
    simp only [List.flatMap_cons, List.flatMap_nil, List.append_nil]
    exact flatMap_pure_eq_map _ _

/-- from the world cell to resolution `1 + n` -/
theorem children_world_succ (n : Nat) (hn : n ≤ 20) :
    cellToChildren (enc world) (some (1 + (n : Int))) = .ok ((descendantsOrdered world (1 + (n : Int))).map enc) := by
  have hd : (1 + (n : Int) - max (toCell world).res 1).toNat = n := by
    show (1 + (n : Int) - max (-1) 1).toNat = n
    omega
  rewrite [cellToChildren_loop _ _ (deserialize_enc_path (p := world) trivial) _
    (by show (-1 : Int) < _; omega) (by omega) (by show 1 + (n : Int) - max (-1) 1 ≤ 20; omega)
    (by show 0 * _ < _; omega), hd]
  have e : childLoop (List.range 12) [0, 1, 2, 3, 4] (0 * 4 ^ n) (4 ^ n) (1 + (n : Int))
      = .ok ((List.range 12).flatMap (fun o => quintChildren o n)) :=
    childLoop_ok _ _ _ _ _ _ (fun o ho seg hs => quint_loop o n (List.mem_range.1 ho) (by omega) seg hs)
  refine Eq.trans ?_ (e.trans ?_)
  · refine congrArg (fun l => childLoop (List.range 12) l (0 * 4 ^ n) (4 ^ n) (1 + (n : Int))) ?_
    show (if ((-1 : Int) = -1 ∧ 1 + (n : Int) > 0) ∨ (-1 : Int) = 0 then [0, 1, 2, 3, 4] else [0]) = _
    rewrite [if_pos (by omega)]; rfl
  · refine congrArg Outcome.ok ?_
    simp only [descendantsOrdered]
    rewrite [if_neg (by omega), List.map_flatMap]
    exact flatMap_congr' (fun f _ => quintChildren_eq f n)

/-- from a face to resolution `1 + n` -/
theorem children_face_succ (f : Nat) (hf : f < 12) (n : Nat) (hn : n ≤ 20) :
    cellToChildren (enc (face f)) (some (1 + (n : Int))) =
      .ok ((descendantsOrdered (face f) (1 + (n : Int))).map enc) := by
  have hd : (1 + (n : Int) - max (toCell (face f)).res 1).toNat = n := by
    show (1 + (n : Int) - max 0 1).toNat = n
    omega
  rewrite [cellToChildren_loop _ _ (deserialize_enc_path (p := face f) hf) _
    (by show (0 : Int) < _; omega) (by omega) (by show 1 + (n : Int) - max 0 1 ≤ 20; omega)
    (by show 0 * _ < _; omega), hd]
  have e : childLoop [f] [0, 1, 2, 3, 4] (0 * 4 ^ n) (4 ^ n) (1 + (n : Int))
      = .ok ([f].flatMap (fun o => quintChildren o n)) :=
    childLoop_ok _ _ _ _ _ _ (fun o ho seg hs => by
      simp only [List.mem_singleton] at ho; subst ho
      exact quint_loop o n hf (by omega) seg hs)
  refine Eq.trans ?_ (e.trans ?_)
  · rfl
  · refine congrArg Outcome.ok ?_
    simp only [descendantsOrdered]
    rewrite [if_neg (by omega), List.flatMap_cons, List.flatMap_nil, List.append_nil]
    exact quintChildren_eq f n

/-- from a deeper cell, `n ≥ 1` levels down -/
theorem children_deep (f k : Nat) (ds : List Nat) (hp : WF (deep f k ds)) (n : Nat) (hn1 : 1 ≤ n) (hn : n ≤ 20)
    (hl : ds.length + n ≤ 28) :
    cellToChildren (enc (deep f k ds)) (some (1 + (ds.length : Int) + (n : Int))) =
      .ok ((descendantsOrdered (deep f k ds) (1 + (ds.length : Int) + (n : Int))).map enc) := by
  obtain ⟨hf, hk, hd, hl'⟩ := id hp
  have hdn : (1 + (ds.length : Int) + (n : Int) - max (toCell (deep f k ds)).res 1).toNat = n := by
    show (1 + (ds.length : Int) + (n : Int) - max (1 + (ds.length : Int)) 1).toNat = n
    omega
  have hb := pow_bound (value ds) ds.length n (value_lt ds hd) (by omega)
  have hp4 : 0 < 4 ^ n := Nat.pow_pos (by omega)
  rewrite [cellToChildren_loop _ _ (deserialize_enc_path hp) _
    (by show (1 + (ds.length : Int)) < _; omega) (by omega)
    (by show 1 + (ds.length : Int) + (n : Int) - max (1 + (ds.length : Int)) 1 ≤ 20; omega)
    (by rewrite [hdn]; show value ds * 4 ^ n < _; omega), hdn]
  have e : childLoop [f] [(k + firstQuintant f) % 5] (value ds * 4 ^ n) (4 ^ n) (1 + (ds.length : Int) + (n : Int))
      = .ok ([f].flatMap (fun _ => [(k + firstQuintant f) % 5].flatMap
          (fun _ => (descend n (deep f k ds)).map enc))) :=
    childLoop_ok _ _ _ _ _ (fun _ _ => (descend n (deep f k ds)).map enc) (fun o ho seg hs => by
      simp only [List.mem_singleton] at ho hs; subst ho hs
      exact inner_ok o k ds n hf hk hd hl _ rfl _ rfl _ rfl)
  refine Eq.trans ?_ (e.trans ?_)
  · have e1 : (if (toCell (deep f k ds)).res = -1 then List.range 12 else [(toCell (deep f k ds)).origin]) = [f] := by
      show (if (1 + (ds.length : Int)) = -1 then List.range 12 else [f]) = [f]
      rewrite [if_neg (by omega)]; rfl
    have e2 : (if ((toCell (deep f k ds)).res = -1 ∧ 1 + (ds.length : Int) + (n : Int) > 0) ∨
        (toCell (deep f k ds)).res = 0 then [0, 1, 2, 3, 4] else [(toCell (deep f k ds)).segment])
        = [(k + firstQuintant f) % 5] := by
      show (if ((1 + (ds.length : Int)) = -1 ∧ 1 + (ds.length : Int) + (n : Int) > 0) ∨
        (1 + (ds.length : Int)) = 0 then [0, 1, 2, 3, 4] else [(k + firstQuintant f) % 5]) = _
      rewrite [if_neg (by omega)]; rfl
    rewrite [e1, e2]; rfl
  · refine congrArg Outcome.ok ?_
    simp only [descendantsOrdered, List.flatMap_cons, List.flatMap_nil, List.append_nil]
    rewrite [descendantsAt_of_le (by simp only [res]; omega)]
    have : (1 + (ds.length : Int) + (n : Int) - res (deep f k ds)).toNat = n := by simp only [res]; omega
    rewrite [this]; rfl

/-! ### 5. closed form -/

theorem descendantsOrdered_self (p : Path) : descendantsOrdered p (res p) = [p] := by
  cases p with
  | world => simp [descendantsOrdered, res, descendantsAt, descend]
  | face f => simp [descendantsOrdered, res, descendantsAt, descend]
  | deep f k ds => exact descendantsAt_self _

/-- `cell_to_children(id, Some(r'))` at a legal target: exactly the descendants at `r'`, in the library's order -/
theorem cellToChildren_enc_ok {p : Path} (hp : WF p) (r' : Int) (h1 : res p ≤ r') (h2 : r' ≤ 29)
    (h3 : r' - max (res p) 1 ≤ 20) :
    cellToChildren (enc p) (some r') = .ok ((descendantsOrdered p r').map enc) := by
  by_cases heq : r' = res p
  · rewrite [heq, descendantsOrdered_self, cellToChildren_of_deserialize _ _ (deserialize_enc_path hp), res_toCell,
      if_neg (by omega), if_neg (by have := res_le hp; omega), if_pos rfl, serialize_toCell hp]
    rfl
  cases p with
  | world =>
    simp only [res] at h1 h3 heq
    by_cases h0 : r' = 0
    · subst h0; exact children_world_zero
    · obtain ⟨n, rfl⟩ : ∃ n : Nat, r' = 1 + (n : Int) := ⟨(r' - 1).toNat, by omega⟩
      exact children_world_succ n (by omega)
  | face f =>
    simp only [res] at h1 h3 heq
    obtain ⟨n, rfl⟩ : ∃ n : Nat, r' = 1 + (n : Int) := ⟨(r' - 1).toNat, by omega⟩
    exact children_face_succ f hp n (by omega)
  | deep f k ds =>
    simp only [res] at h1 h3 heq
    obtain ⟨n, rfl⟩ : ∃ n : Nat, r' = 1 + (ds.length : Int) + (n : Int) :=
      ⟨(r' - 1 - (ds.length : Int)).toNat, by omega⟩
    exact children_deep f k ds hp n (by omega) (by omega) (by omega)

/-- at target 30 (one past the finest resolution) with at most 20 levels: the encoder rejects the first child -/
theorem cellToChildren_enc_30 {p : Path} (hp : WF p) (h3 : 30 - max (res p) 1 ≤ 20) :
    cellToChildren (enc p) (some 30) = .err .resTooLarge := by
  have hr := res_le hp
  have hg := res_ge p
  have hs : (toCell p).s * 4 ^ (30 - max (res p) 1).toNat + 4 ^ (30 - max (res p) 1).toNat ≤ 2 ^ 58 := by
    cases p with
    | world => simp only [res] at h3; omega
    | face f => simp only [res] at h3; omega
    | deep f k ds =>
      obtain ⟨hf, hk, hd, hl'⟩ := hp
      simp only [res] at h3 ⊢
      exact pow_bound (value ds) ds.length _ (value_lt ds hd) (by omega)
  have hp4 : 0 < 4 ^ (30 - max (res p) 1).toNat := Nat.pow_pos (by omega)
  rewrite [cellToChildren_loop _ _ (deserialize_enc_path hp) 30 (by rewrite [res_toCell]; omega) (by omega)
    (by rewrite [res_toCell]; exact h3) (by rewrite [res_toCell]; omega), res_toCell]
  refine childLoop_err _ _ _ _ _ _ ?_ ?_ (fun o _ seg _ => inner_err30 o seg _ _ (by omega))
  · split
    · decide
    · exact List.cons_ne_nil _ _
  · split
    · decide
    · exact List.cons_ne_nil _ _

/-- **children / descendants.**  The complete behaviour of `cell_to_children(id, Some(r'))` on the id of any
cell `p`: error "coarser" below `res p`; error "exceeds maximum" above 30; `[id]` at `res p`; error "difference
too large" beyond 20 levels (counted from resolution 1 for the world and base cells); at `r' = 30` the encoder's
error "resolution too large"; otherwise the ids of the descendants of `p` at `r'`, in `descendantsOrdered`. -/
theorem cellToChildren_enc {p : Path} (hp : WF p) (r' : Int) :
    cellToChildren (enc p) (some r') =
      if r' < res p then .err .targetCoarser
      else if r' > 30 then .err .exceedsMax
      else if r' = res p then .ok [enc p]
      else if r' - max (res p) 1 > 20 then .err .diffTooLarge
      else if r' = 30 then .err .resTooLarge
      else .ok ((descendantsOrdered p r').map enc) := by
  have hr := res_le hp
  by_cases h1 : r' < res p
  · rewrite [if_pos h1, cellToChildren_of_deserialize _ _ (deserialize_enc_path hp), res_toCell, if_pos h1]; rfl
  rewrite [if_neg h1]
  by_cases h2 : r' > 30
  · rewrite [if_pos h2, cellToChildren_of_deserialize _ _ (deserialize_enc_path hp), res_toCell, if_neg h1, if_pos h2]
    rfl
  rewrite [if_neg h2]
  by_cases h3 : r' = res p
  · rewrite [if_pos h3, cellToChildren_enc_ok hp r' (by omega) (by omega) (by omega), h3, descendantsOrdered_self]
    rfl
  rewrite [if_neg h3]
  by_cases h4 : r' - max (res p) 1 > 20
  · rewrite [if_pos h4, cellToChildren_of_deserialize _ _ (deserialize_enc_path hp), res_toCell, if_neg h1, if_neg h2,
      if_neg h3, if_pos h4]
    rfl
  rewrite [if_neg h4]
  by_cases h5 : r' = 30
  · rewrite [if_pos h5, h5]; exact cellToChildren_enc_30 hp (by omega)
  · rewrite [if_neg h5]; exact cellToChildren_enc_ok hp r' (by omega) (by omega) (by omega)

/-- with the default argument the target is `res p + 1` -/
theorem cellToChildren_none {p : Path} (hp : WF p) :
    cellToChildren (enc p) none = cellToChildren (enc p) (some (res p + 1)) := by
  have h1 := res_ge p
  have h2 := res_le hp
  simp only [cellToChildren, deserialize_enc_path hp, Outcome.bind_ok, res_toCell]
  rewrite [i32Add_ok _ _ (by omega)]
  rfl

/-- `cell_to_children(id, None)` below the finest resolution: the ids of the tree children, in the library's order -/
theorem cellToChildren_none_enc {p : Path} (hp : WF p) (h : res p ≤ 28) :
    cellToChildren (enc p) none = .ok ((descendantsOrdered p (res p + 1)).map enc) := by
  have h1 := res_ge p
  rewrite [cellToChildren_none hp]
  exact cellToChildren_enc_ok hp _ (by omega) (by omega) (by omega)

/-- at the finest resolution the default target is 30, which the encoder rejects -/
theorem cellToChildren_none_29 {p : Path} (hp : WF p) (h : res p = 29) :
    cellToChildren (enc p) none = .err .resTooLarge := by
  rewrite [cellToChildren_none hp, h]
  exact cellToChildren_enc_30 hp (by omega)

theorem getRes0Cells_eq : getRes0Cells = .ok ((List.range 12).map (fun f => enc (face f))) := by
  have e : getRes0Cells = cellToChildren (enc world) (some 0) := rfl
  rewrite [e, children_world_zero]
  have hd : descendantsOrdered world 0 = (List.range 12).map face := by
    have : descendantsOrdered world 0 = descendantsAt world 0 := by simp [descendantsOrdered]
    rewrite [this]
    exact descendantsAt_succ world
  rewrite [hd, List.map_map]
  rfl

end Path
end A5
