import Mathlib.Analysis.SpecialFunctions.Trigonometric.Inverse
import A5.Model.OriginInt
/-! The distance measure of `find_nearest_origin` over the reals, and the argmin loop over a linear order.

`haversine(point, axis)` in `origin.rs` carries the comment "TODO figure out derivation!".  Here is the
derivation: for *all* real angles it equals `(1 - ⟪p, a⟫) / 2 = sin²(δ/2)` where `p`, `a` are the unit
vectors `to_cartesian` assigns to the two spherical points and `δ` is their great-circle distance.
So minimising it is maximising the dot product, i.e. minimising the great-circle distance. -/
namespace A5
open Real

/-! ## T2: the measure -/

/-- `haversine` with real arithmetic -/
noncomputable def haversineR (θ φ θ₂ φ₂ : ℝ) : ℝ :=
  sin ((φ₂ - φ) / 2) ^ 2 + sin ((θ₂ - θ) / 2) ^ 2 * sin φ * sin φ₂

/-- it is the generic-scalar `haversineG` (whose `Float` instance is the model, by `rfl`) at `Real.sin` -/
theorem haversineR_eq_haversineG (θ φ θ₂ φ₂ : ℝ) :
    haversineR θ φ θ₂ φ₂ = haversineG Real.sin 2 θ φ θ₂ φ₂ := by
  unfold haversineR haversineG; ring

/-- `to_cartesian`: `(sin φ cos θ, sin φ sin θ, cos φ)` -/
noncomputable def toCartesianR (θ φ : ℝ) : ℝ × ℝ × ℝ := (sin φ * cos θ, sin φ * sin θ, cos φ)

def dot3 (a b : ℝ × ℝ × ℝ) : ℝ := a.1 * b.1 + a.2.1 * b.2.1 + a.2.2 * b.2.2

theorem toCartesianR_unit (θ φ : ℝ) : dot3 (toCartesianR θ φ) (toCartesianR θ φ) = 1 := by
  unfold dot3 toCartesianR
  have h1 := sin_sq_add_cos_sq θ
  have h2 := sin_sq_add_cos_sq φ
  simp only
  nlinarith [h1, h2]

/-- Cauchy–Schwarz for unit vectors of ℝ³ -/
theorem dot3_mem_Icc (u v : ℝ × ℝ × ℝ) (hu : dot3 u u = 1) (hv : dot3 v v = 1) :
    dot3 u v ∈ Set.Icc (-1 : ℝ) 1 := by
  unfold dot3 at *
  constructor
  · nlinarith [sq_nonneg (u.1 + v.1), sq_nonneg (u.2.1 + v.2.1), sq_nonneg (u.2.2 + v.2.2)]
  · nlinarith [sq_nonneg (u.1 - v.1), sq_nonneg (u.2.1 - v.2.1), sq_nonneg (u.2.2 - v.2.2)]

theorem sin_sq_half (x : ℝ) : sin (x / 2) ^ 2 = 1 / 2 - cos x / 2 := by
  have h : 2 * (x / 2) = x := by ring
  rw [sin_sq_eq_half_sub, h]

/-- **T2.** For all real angles the measure is `(1 - ⟪p, a⟫) / 2`. -/
theorem haversine_is_chord (θ φ θ₂ φ₂ : ℝ) :
    haversineR θ φ θ₂ φ₂ = (1 - dot3 (toCartesianR θ φ) (toCartesianR θ₂ φ₂)) / 2 := by
  unfold haversineR dot3 toCartesianR
  rw [sin_sq_half, sin_sq_half, cos_sub, cos_sub]
  simp only
  ring

/-- great-circle distance between two spherical points -/
noncomputable def gcDist (θ φ θ₂ φ₂ : ℝ) : ℝ := arccos (dot3 (toCartesianR θ φ) (toCartesianR θ₂ φ₂))

theorem dot3_toCartesianR_mem (θ φ θ₂ φ₂ : ℝ) :
    dot3 (toCartesianR θ φ) (toCartesianR θ₂ φ₂) ∈ Set.Icc (-1 : ℝ) 1 :=
  dot3_mem_Icc _ _ (toCartesianR_unit θ φ) (toCartesianR_unit θ₂ φ₂)

/-- the measure is the haversine `sin²(δ/2)` of the great-circle distance `δ` -/
theorem haversine_is_hav_gcDist (θ φ θ₂ φ₂ : ℝ) :
    haversineR θ φ θ₂ φ₂ = sin (gcDist θ φ θ₂ φ₂ / 2) ^ 2 := by
  have h := dot3_toCartesianR_mem θ φ θ₂ φ₂
  rw [haversine_is_chord, sin_sq_half, gcDist, cos_arccos h.1 h.2]
  ring

theorem haversineR_mem (θ φ θ₂ φ₂ : ℝ) : haversineR θ φ θ₂ φ₂ ∈ Set.Icc (0 : ℝ) 1 := by
  have h := dot3_toCartesianR_mem θ φ θ₂ φ₂
  rw [haversine_is_chord]
  constructor <;> [linarith [h.2]; linarith [h.1]]

/-- smaller measure ⇔ larger dot product -/
theorem haversine_le_iff_dot (θ φ θa φa θb φb : ℝ) :
    haversineR θ φ θa φa ≤ haversineR θ φ θb φb ↔
      dot3 (toCartesianR θ φ) (toCartesianR θb φb) ≤ dot3 (toCartesianR θ φ) (toCartesianR θa φa) := by
  rw [haversine_is_chord, haversine_is_chord]
  constructor <;> intro h <;> linarith

/-- smaller measure ⇔ smaller great-circle distance -/
theorem haversine_le_iff_gcDist (θ φ θa φa θb φb : ℝ) :
    haversineR θ φ θa φa ≤ haversineR θ φ θb φb ↔ gcDist θ φ θa φa ≤ gcDist θ φ θb φb := by
  rw [haversine_le_iff_dot]
  exact (strictAntiOn_arccos.le_iff_ge (dot3_toCartesianR_mem θ φ θa φa)
    (dot3_toCartesianR_mem θ φ θb φb)).symm

theorem haversine_lt_iff_gcDist (θ φ θa φa θb φb : ℝ) :
    haversineR θ φ θa φa < haversineR θ φ θb φb ↔ gcDist θ φ θa φa < gcDist θ φ θb φb := by
  rw [← not_le, ← not_le, haversine_le_iff_gcDist]

/-! ## T3: the loop returns the first minimiser -/

/-- **T3.** Over a linear order, `argminGo f l m b` (the loop of `find_nearest_origin` started with running
minimum `m` and candidate `b`) either finds no value below `m` and returns `b`, or returns the *first*
element of `l` at which `f` attains its minimum over `l` (strictly smaller than everything before it,
at most everything after it), and that minimum is below `m`. -/
theorem argminGo_spec {α β : Type} [LinearOrder β] (f : α → β) :
    ∀ (l : List α) (m : β) (b : α),
      ((∀ y ∈ l, m ≤ f y) ∧ argminGo f l m b = b) ∨
      (∃ pre x post, l = pre ++ x :: post ∧ argminGo f l m b = x ∧ f x < m ∧
          (∀ y ∈ pre, f x < f y) ∧ (∀ y ∈ post, f x ≤ f y)) := by
  intro l
  induction l with
  | nil => intro m b; exact Or.inl ⟨by simp, rfl⟩
  | cons a l ih =>
    intro m b
    by_cases h : f a < m
    · have hgo : argminGo f (a :: l) m b = argminGo f l (f a) a := by
        simp only [argminGo]; rw [if_pos h]
      rw [hgo]
      rcases ih (f a) a with ⟨hall, hres⟩ | ⟨pre, x, post, hl, hres, hlt, hpre, hpost⟩
      · exact Or.inr ⟨[], a, l, rfl, hres, h, by simp, hall⟩
      · refine Or.inr ⟨a :: pre, x, post, by rw [hl]; rfl, hres, lt_trans hlt h, ?_, hpost⟩
        intro y hy
        rcases List.mem_cons.1 hy with rfl | hy
        · exact hlt
        · exact hpre y hy
    · have hgo : argminGo f (a :: l) m b = argminGo f l m b := by
        simp only [argminGo]; rw [if_neg h]
      rw [hgo]
      have hma : m ≤ f a := not_lt.1 h
      rcases ih m b with ⟨hall, hres⟩ | ⟨pre, x, post, hl, hres, hlt, hpre, hpost⟩
      · refine Or.inl ⟨?_, hres⟩
        intro y hy
        rcases List.mem_cons.1 hy with rfl | hy
        · exact hma
        · exact hall y hy
      · refine Or.inr ⟨a :: pre, x, post, by rw [hl]; rfl, hres, hlt, ?_, hpost⟩
        intro y hy
        rcases List.mem_cons.1 hy with rfl | hy
        · exact lt_of_lt_of_le hlt hma
        · exact hpre y hy

/-- consequence: if some element is below the initial bound, the result is in the list and is a global
minimiser -/
theorem argminGo_min {α β : Type} [LinearOrder β] (f : α → β) (l : List α) (m : β) (b : α)
    (h : ∃ y ∈ l, f y < m) :
    argminGo f l m b ∈ l ∧ ∀ y ∈ l, f (argminGo f l m b) ≤ f y := by
  rcases argminGo_spec f l m b with ⟨hall, _⟩ | ⟨pre, x, post, hl, hres, _, hpre, hpost⟩
  · obtain ⟨y, hy, hlt⟩ := h
    exact absurd (hall y hy) (not_le.2 hlt)
  · rw [hres, hl]
    refine ⟨by simp, ?_⟩
    intro y hy
    rcases List.mem_append.1 hy with hy | hy
    · exact le_of_lt (hpre y hy)
    · rcases List.mem_cons.1 hy with rfl | hy
      · exact le_refl _
      · exact hpost y hy

/-! ## T2 + T3: the real-arithmetic reading of `find_nearest_origin` -/

/-- Run the loop of `find_nearest_origin` with exact real arithmetic on a list of axes `(θ, φ)`, starting
from a bound above the largest possible value (the measure is `≤ 1`; the code starts at `+∞`): the axis
returned is one of the list and no axis of the list is closer by great-circle distance. -/
theorem nearest_real (θ φ : ℝ) (axes : List (ℝ × ℝ)) (b : ℝ × ℝ) (hne : axes ≠ []) :
    let r := argminGo (fun a : ℝ × ℝ => haversineR θ φ a.1 a.2) axes 2 b
    r ∈ axes ∧ ∀ a ∈ axes, gcDist θ φ r.1 r.2 ≤ gcDist θ φ a.1 a.2 := by
  intro r
  obtain ⟨a0, l, rfl⟩ := List.exists_cons_of_ne_nil hne
  have h := argminGo_min (fun a : ℝ × ℝ => haversineR θ φ a.1 a.2) (a0 :: l) 2 b
    ⟨a0, by simp, by have := (haversineR_mem θ φ a0.1 a0.2).2; linarith⟩
  refine ⟨h.1, fun a ha => ?_⟩
  exact (haversine_le_iff_gcDist θ φ r.1 r.2 a.1 a.2).1 (h.2 a ha)

end A5
