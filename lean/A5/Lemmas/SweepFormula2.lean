import A5.Lemmas.SweepFormula
import A5.Props.C16Core
/-! # C16 — the polar area-sweep formula and the pointwise equal-area identity (part 2 of 3)

Part 1 (`SweepFormula.lean`) differentiates the code's area `E(q) = area(a, b, p(q))` and the apex angle `ψ(q)`
along the edge.  Here the edge is re-parametrised by the apex angle itself:

* `edgeArcR a b d ψ = arctan (sin ψ (1 − u²) / (T cos ψ + u w sin ψ))` is the arc `q` at which the great circle
  `p(q) = cos q · b + sin q · d` meets the meridian of apex angle `ψ` (`azimuth_edgeArc`: the apex angle of
  `p (edgeArcR ψ)` is `ψ`; `edgeArc_azimuth`: conversely `edgeArcR (ψ(q)) = q` for `|q| < π/2`);
* (3) `sweep_formula` : `W(ψ) = area(a, b, p(edgeArcR ψ))` has `W′(ψ) = 1 − cos ∠(a, p(edgeArcR ψ))` —
  the hypothesis `hsweep` of `A5.C16.equal_area_jacobian_polar`, for the code's own area function `triAreaR`;
* (4) `equal_area_pointwise` : the conclusion of `equal_area_jacobian_polar` with that hypothesis discharged;
  `equal_area_pointwise_edge` : the same at every point `slerp b c t` of the far edge of a triangle `a b c`
  whose edge `b c` is shorter than a quarter circle, in terms of the triangle alone.

Exact real arithmetic; nothing is claimed about floating-point rounding. -/
namespace A5.SweepFormula
open A5 Real Set Filter Topology A5.RadialRoundTrip A5.AngularRoundTrip

/-! ## 1. the edge parametrised by the apex angle -/

/-- arc from `b` to the point of the great circle `(b, d)` whose apex angle (about `a`, from `a b`) is `ψ` -/
noncomputable def edgeArcR (a b d : R3) (ψ : ℝ) : ℝ :=
  Real.arctan (Real.sin ψ * (1 - dotR a b ^ 2) /
    (Real.cos ψ * tripleR a b d + Real.sin ψ * (dotR a b * dotR a d)))

/-- `cos q = k M`, `sin q = k N` with `k > 0` for `q = arctan (N/M)`, `M > 0` -/
theorem arctan_div_polar {N M : ℝ} (hM : 0 < M) :
    ∃ k : ℝ, 0 < k ∧ Real.cos (Real.arctan (N / M)) = k * M ∧ Real.sin (Real.arctan (N / M)) = k * N ∧
      k ^ 2 * (M ^ 2 + N ^ 2) = 1 := by
  have hc : 0 < Real.cos (Real.arctan (N / M)) := Real.cos_arctan_pos _
  have ht : Real.tan (Real.arctan (N / M)) = N / M := Real.tan_arctan _
  rw [Real.tan_eq_sin_div_cos, div_eq_div_iff hc.ne' hM.ne'] at ht
  have hsc := Real.sin_sq_add_cos_sq (Real.arctan (N / M))
  refine ⟨Real.cos (Real.arctan (N / M)) / M, div_pos hc hM, by field_simp, ?_, ?_⟩
  · field_simp; linarith
  · field_simp
    linear_combination M ^ 2 * hsc
      - (Real.cos (Real.arctan (N / M)) * N + Real.sin (Real.arctan (N / M)) * M) * ht

/-- the polynomial identity behind the sweep formula:
`M² + N² − (M u + N w)² = (1 − u²) T²` for `M = T cos ψ + u w sin ψ`, `N = (1 − u²) sin ψ`, `T² = 1 − u² − w²` -/
theorem edge_core {u w T s c : ℝ} (hT2 : T ^ 2 = 1 - u ^ 2 - w ^ 2) (hsc : s ^ 2 + c ^ 2 = 1) :
    (c * T + s * (u * w)) ^ 2 + (s * (1 - u ^ 2)) ^ 2 - ((c * T + s * (u * w)) * u + s * (1 - u ^ 2) * w) ^ 2
      = (1 - u ^ 2) * T ^ 2 := by
  linear_combination (-(1 - u ^ 2) * s ^ 2) * hT2 + (1 - u ^ 2) * T ^ 2 * hsc

/-- `u² < 1` when `T ≠ 0` -/
theorem one_sub_u_sq_pos {a b d : R3} (ha : dotR a a = 1) (hb : dotR b b = 1) (hd : dotR d d = 1)
    (hbd : dotR b d = 0) (hT : tripleR a b d ≠ 0) : 0 < 1 - dotR a b ^ 2 := by
  have h := triple_sq_frame ha hb hd hbd
  have h1 : 0 < tripleR a b d ^ 2 := by positivity
  nlinarith [sq_nonneg (dotR a d)]

/-- the apex never lies on the great circle `(b, d)` when `T ≠ 0`: `(a·p)² < 1` -/
theorem gc_dot_sq_lt_one {a b d : R3} (ha : dotR a a = 1) (hb : dotR b b = 1) (hd : dotR d d = 1)
    (hbd : dotR b d = 0) (hT : tripleR a b d ≠ 0) (q : ℝ) : dotR a (gcPoint b d q) ^ 2 < 1 := by
  obtain ⟨_, hap, _, _⟩ := gcPoint_facts a hb hd hbd q
  have h := triple_sq_frame ha hb hd hbd
  have h1 : 0 < tripleR a b d ^ 2 := by positivity
  have hsc := Real.sin_sq_add_cos_sq q
  rw [hap]
  have e : (Real.cos q * dotR a b + Real.sin q * dotR a d) ^ 2
      = (dotR a b ^ 2 + dotR a d ^ 2) - (Real.cos q * dotR a d - Real.sin q * dotR a b) ^ 2 := by
    linear_combination (dotR a b ^ 2 + dotR a d ^ 2) * hsc
  rw [e]
  nlinarith [sq_nonneg (Real.cos q * dotR a d - Real.sin q * dotR a b)]

/-- **the apex angle of `p (edgeArcR ψ)` is `ψ`** (counter-clockwise frame `T > 0`, `−π < ψ ≤ π`, and the
meridian `ψ` meets the great circle within a quarter circle of `b`: `T cos ψ + u w sin ψ > 0`). -/
theorem azimuth_edgeArc {a b d : R3} (ha : dotR a a = 1) (hb : dotR b b = 1) (hd : dotR d d = 1)
    (hbd : dotR b d = 0) (hT : 0 < tripleR a b d) {ψ : ℝ} (hψ1 : -π < ψ) (hψ2 : ψ ≤ π)
    (hMq : 0 < Real.cos ψ * tripleR a b d + Real.sin ψ * (dotR a b * dotR a d)) :
    azimuthR a b (gcPoint b d (edgeArcR a b d ψ)) = ψ := by
  obtain ⟨_, hap, hbp, htr⟩ := gcPoint_facts a hb hd hbd (edgeArcR a b d ψ)
  have hu2 := one_sub_u_sq_pos ha hb hd hbd hT.ne'
  obtain ⟨k, hk, hc, hs, _⟩ := arctan_div_polar (N := Real.sin ψ * (1 - dotR a b ^ 2)) hMq
  unfold azimuthR
  rw [hbp, hap, htr]
  unfold edgeArcR
  rw [hc, hs]
  have e1 : k * (Real.sin ψ * (1 - dotR a b ^ 2)) * tripleR a b d
      = (k * (1 - dotR a b ^ 2) * tripleR a b d) * Real.sin ψ := by ring
  have e2 : k * (Real.cos ψ * tripleR a b d + Real.sin ψ * (dotR a b * dotR a d)) - dotR a b *
      (k * (Real.cos ψ * tripleR a b d + Real.sin ψ * (dotR a b * dotR a d)) * dotR a b
        + k * (Real.sin ψ * (1 - dotR a b ^ 2)) * dotR a d)
      = (k * (1 - dotR a b ^ 2) * tripleR a b d) * Real.cos ψ := by ring
  rw [e1, e2]
  exact atan2R_polar (by positivity) hψ1 hψ2

/-- `d(edgeArcR)/dψ = (1 − u²) T / (M² + N²)` -/
theorem hasDerivAt_edgeArc (a b d : R3) {ψ : ℝ}
    (hMq : 0 < Real.cos ψ * tripleR a b d + Real.sin ψ * (dotR a b * dotR a d)) :
    HasDerivAt (edgeArcR a b d)
      ((1 - dotR a b ^ 2) * tripleR a b d /
        ((Real.cos ψ * tripleR a b d + Real.sin ψ * (dotR a b * dotR a d)) ^ 2
          + (Real.sin ψ * (1 - dotR a b ^ 2)) ^ 2)) ψ := by
  have hN : HasDerivAt (fun x => Real.sin x * (1 - dotR a b ^ 2)) (Real.cos ψ * (1 - dotR a b ^ 2)) ψ :=
    (Real.hasDerivAt_sin ψ).mul_const _
  have hM : HasDerivAt (fun x => Real.cos x * tripleR a b d + Real.sin x * (dotR a b * dotR a d))
      (-Real.sin ψ * tripleR a b d + Real.cos ψ * (dotR a b * dotR a d)) ψ :=
    ((Real.hasDerivAt_cos ψ).mul_const _).add ((Real.hasDerivAt_sin ψ).mul_const _)
  have h := hasDerivAt_arctan_div hN hM hMq.ne'
  have hsc := Real.sin_sq_add_cos_sq ψ
  refine h.congr_deriv ?_
  congr 1
  linear_combination (1 - dotR a b ^ 2) * tripleR a b d * hsc

/-! ## 2. (3) the sweep formula -/

/-- **(3) The polar area-sweep formula for the code's area function.**  `a b d` unit, `b ⟂ d`, `T = a·(b×d)`.
`W(ψ) = area(a, b, P(ψ))`, `P(ψ) = p(edgeArcR ψ)` the point of the edge at apex angle `ψ`.  Then
`W′(ψ) = 1 − cos ∠(a, P(ψ))`.  Positivity hypotheses: `T cos ψ + u w sin ψ > 0` (`P(ψ)` within a quarter circle
of `b`) and Eriksson's denominator of `a b P(ψ)` positive (area `< π`). -/
theorem sweep_formula {a b d : R3} (ha : dotR a a = 1) (hb : dotR b b = 1) (hd : dotR d d = 1)
    (hbd : dotR b d = 0) {ψ : ℝ}
    (hMq : 0 < Real.cos ψ * tripleR a b d + Real.sin ψ * (dotR a b * dotR a d))
    (hD : 0 < 1 + dotR a b + dotR b (gcPoint b d (edgeArcR a b d ψ)) + dotR (gcPoint b d (edgeArcR a b d ψ)) a) :
    HasDerivAt (fun x => triAreaR a b (gcPoint b d (edgeArcR a b d x)))
      (1 - Real.cos (angleR a (gcPoint b d (edgeArcR a b d ψ)))) ψ := by
  obtain ⟨hu, hap, _, _⟩ := gcPoint_facts a hb hd hbd (edgeArcR a b d ψ)
  obtain ⟨_, _, hX⟩ := one_add_dots_pos_of_D ha hb hu hD
  rw [dotR_comm (gcPoint b d (edgeArcR a b d ψ)) a] at hX
  have hE := hasDerivAt_triArea_gc ha hb hd hbd hD
  have hq := hasDerivAt_edgeArc a b d hMq
  have hcomp := hE.comp ψ hq
  rw [(angleR_unit ha hu).2.1]
  refine hcomp.congr_deriv ?_
  -- the value
  have hT2 := triple_sq_frame ha hb hd hbd
  have hsc := Real.sin_sq_add_cos_sq ψ
  have hcore := edge_core hT2 hsc
  obtain ⟨k, hk, hc, hs, hk2⟩ := arctan_div_polar (N := Real.sin ψ * (1 - dotR a b ^ 2)) hMq
  have hc' : Real.cos (edgeArcR a b d ψ)
      = k * (Real.cos ψ * tripleR a b d + Real.sin ψ * (dotR a b * dotR a d)) := hc
  have hs' : Real.sin (edgeArcR a b d ψ) = k * (Real.sin ψ * (1 - dotR a b ^ 2)) := hs
  rw [hap, hc', hs'] at hX ⊢
  set u := dotR a b
  set w := dotR a d
  set T := tripleR a b d
  set M := Real.cos ψ * T + Real.sin ψ * (u * w) with hM_def
  set N := Real.sin ψ * (1 - u ^ 2) with hN_def
  have hR : 0 < M ^ 2 + N ^ 2 := by positivity
  rw [div_mul_div_comm, div_eq_iff (mul_pos hX hR).ne']
  linear_combination (-1 : ℝ) * hcore + (M * u + N * w) ^ 2 * hk2

/-! ## 3. (4) the pointwise equal-area identity -/

/-- `sin (∠(a,p)/2) ≠ 0` for unit vectors with `a·p < 1` -/
theorem sin_half_angle_ne_zero {a p : R3} (ha : dotR a a = 1) (hp : dotR p p = 1) (h : dotR a p < 1) :
    Real.sin (angleR a p / 2) ≠ 0 := by
  obtain ⟨hang, _, _, hle⟩ := angleR_unit ha hp
  have hpos : 0 < angleR a p := by rw [hang]; exact Real.arccos_pos.mpr h
  exact (Real.sin_pos_of_pos_of_lt_pi (by linarith) (by linarith [Real.pi_pos])).ne'

/-- **(4) The face projection is area-preserving at every point — polar form, no sweep hypothesis.**
`a` apex, `b` unit, `d` unit tangent of the far edge at `b`, `T = a·(b×d) > 0`.  Polar coordinates about `a`:
`ψ` = apex angle from the side `a b`, `θ` = arc distance from `a`.  `P = P(ψ)` is the point of the far edge on
the meridian `ψ` and `ρ = ∠(a, P)`.  The code's coordinates of the point `(θ, ψ)` are
`h = sin (θ/2) / sin (ρ/2)` (radial) and `β = area(a, b, P(ψ)) / Ω` (angular); `β` does not depend on `θ`, so the
Jacobian determinant of `(θ, ψ) ↦ (h, β)` is `∂h/∂θ · β′(ψ)`; the planar area element in `(h, β)` is `h · S`
(`A5.C16.planar_wedge_area`).  Conclusion: `h S · ∂h/∂θ · β′(ψ) = S/(2Ω) · sin θ`, a constant times the area
element `sin θ dθ dψ` of the sphere, for every `θ`. -/
theorem equal_area_pointwise {a b d : R3} (ha : dotR a a = 1) (hb : dotR b b = 1) (hd : dotR d d = 1)
    (hbd : dotR b d = 0) (hT : 0 < tripleR a b d) {ψ : ℝ} (hψ1 : -π < ψ) (hψ2 : ψ ≤ π)
    (hMq : 0 < Real.cos ψ * tripleR a b d + Real.sin ψ * (dotR a b * dotR a d))
    (hD : 0 < 1 + dotR a b + dotR b (gcPoint b d (edgeArcR a b d ψ)) + dotR (gcPoint b d (edgeArcR a b d ψ)) a)
    (S Ω θ : ℝ) (hΩ : Ω ≠ 0) :
    let P := gcPoint b d (edgeArcR a b d ψ)
    let ρ := angleR a P
    dotR P P = 1 ∧ azimuthR a b P = ψ ∧ Real.sin (ρ / 2) ≠ 0 ∧
    ∃ hθ βψ : ℝ,
      HasDerivAt (fun t => Real.sin (t / 2) / Real.sin (ρ / 2)) hθ θ ∧
      HasDerivAt (fun x => triAreaR a b (gcPoint b d (edgeArcR a b d x)) / Ω) βψ ψ ∧
      (Real.sin (θ / 2) / Real.sin (ρ / 2)) * S * (hθ * βψ) = S / (2 * Ω) * Real.sin θ := by
  intro P ρ
  obtain ⟨hu, _, _, _⟩ := gcPoint_facts a hb hd hbd (edgeArcR a b d ψ)
  have hX2 := gc_dot_sq_lt_one ha hb hd hbd hT.ne' (edgeArcR a b d ψ)
  have hX1 : dotR a P < 1 := by
    have := (abs_lt.mp ((sq_lt_one_iff_abs_lt_one _).mp hX2)).2
    exact this
  have hρ : Real.sin (ρ / 2) ≠ 0 := sin_half_angle_ne_zero ha hu hX1
  refine ⟨hu, azimuth_edgeArc ha hb hd hbd hT hψ1 hψ2 hMq, hρ, ?_⟩
  exact A5.C16.equal_area_jacobian_polar
    (fun x => triAreaR a b (gcPoint b d (edgeArcR a b d x))) ρ Ω S θ ψ
    (sweep_formula ha hb hd hbd hMq hD) hρ hΩ

/-! ## 4. the inverse relation `edgeArcR (ψ(q)) = q`, and the statement on the edge of a triangle -/

/-- `atan2` returns the polar angle: for `(x, y) ≠ (0, 0)` there is `r > 0` with `y = r sin φ`, `x = r cos φ`,
`φ = atan2R y x ∈ (−π, π]` -/
theorem atan2R_decomp {x y : ℝ} (h : 0 < x ^ 2 + y ^ 2) :
    ∃ r : ℝ, 0 < r ∧ y = r * Real.sin (atan2R y x) ∧ x = r * Real.cos (atan2R y x) ∧
      -π < atan2R y x ∧ atan2R y x ≤ π := by
  have hπ := Real.pi_pos
  unfold atan2R
  rcases lt_trichotomy x 0 with hx | hx | hx
  · -- `x < 0`
    obtain ⟨k, hk, hc, hs, _⟩ := arctan_div_polar (N := -y) (M := -x) (by linarith)
    rw [neg_div_neg_eq] at hc hs
    have hlo := Real.neg_pi_div_two_lt_arctan (y / x)
    have hhi := Real.arctan_lt_pi_div_two (y / x)
    rw [if_neg (not_lt.mpr hx.le), if_pos hx]
    rcases le_or_gt 0 y with hy | hy
    · rw [if_pos hy, Real.sin_add_pi, Real.cos_add_pi, hc, hs]
      have hle : Real.arctan (y / x) ≤ 0 := by
        rw [← Real.arctan_zero]
        exact Real.arctan_strictMono.monotone (div_nonpos_of_nonneg_of_nonpos hy hx.le)
      refine ⟨1 / k, by positivity, by field_simp, by field_simp, by linarith, by linarith⟩
    · rw [if_neg (not_le.mpr hy), Real.sin_sub_pi, Real.cos_sub_pi, hc, hs]
      have hge : 0 < Real.arctan (y / x) := Real.arctan_pos.mpr (div_pos_of_neg_of_neg hy hx)
      refine ⟨1 / k, by positivity, by field_simp, by field_simp, by linarith, by linarith⟩
  · -- `x = 0`
    subst hx
    rw [if_neg (lt_irrefl _), if_neg (lt_irrefl _)]
    rcases lt_trichotomy y 0 with hy | hy | hy
    · rw [if_neg (not_lt.mpr hy.le), if_pos hy, Real.sin_neg, Real.cos_neg, Real.sin_pi_div_two, Real.cos_pi_div_two]
      exact ⟨-y, by linarith, by ring, by ring, by linarith, by linarith⟩
    · subst hy; simp at h
    · rw [if_pos hy, Real.sin_pi_div_two, Real.cos_pi_div_two]
      exact ⟨y, hy, by ring, by ring, by linarith, by linarith⟩
  · -- `x > 0`
    obtain ⟨k, hk, hc, hs, _⟩ := arctan_div_polar (N := y) (M := x) hx
    have hlo := Real.neg_pi_div_two_lt_arctan (y / x)
    have hhi := Real.arctan_lt_pi_div_two (y / x)
    rw [if_pos hx, hc, hs]
    refine ⟨1 / k, by positivity, by field_simp, by field_simp, by linarith, by linarith⟩

/-- **`edgeArcR` inverts the apex angle along the edge**: for `|q| < π/2` and `T > 0`, with `ψ₀` the apex angle
of `p(q)`: `ψ₀ ∈ (−π, π]`, the positivity hypothesis of `azimuth_edgeArc` / `sweep_formula` holds at `ψ₀`, and
`edgeArcR ψ₀ = q`. -/
theorem edgeArc_azimuth {a b d : R3} (ha : dotR a a = 1) (hb : dotR b b = 1) (hd : dotR d d = 1)
    (hbd : dotR b d = 0) (hT : 0 < tripleR a b d) {q : ℝ} (hq1 : -(π / 2) < q) (hq2 : q < π / 2) :
    let ψ0 := azimuthR a b (gcPoint b d q)
    ψ0 ≤ π ∧ -π < ψ0 ∧
    0 < Real.cos ψ0 * tripleR a b d + Real.sin ψ0 * (dotR a b * dotR a d) ∧
    edgeArcR a b d ψ0 = q := by
  intro ψ0
  obtain ⟨_, hap, hbp, htr⟩ := gcPoint_facts a hb hd hbd q
  have hT2 := triple_sq_frame ha hb hd hbd
  have hu2 := one_sub_u_sq_pos ha hb hd hbd hT.ne'
  have hX2 := gc_dot_sq_lt_one ha hb hd hbd hT.ne' q
  have hsc := Real.sin_sq_add_cos_sq q
  have hc : 0 < Real.cos q := Real.cos_pos_of_mem_Ioo ⟨hq1, hq2⟩
  have hden : (dotR b (gcPoint b d q) - dotR a b * dotR a (gcPoint b d q)) ^ 2 + tripleR a b (gcPoint b d q) ^ 2
      = (1 - dotR a b ^ 2) * (1 - dotR a (gcPoint b d q) ^ 2) := by
    rw [hbp, hap, htr]
    linear_combination Real.sin q ^ 2 * hT2 + (1 - dotR a b ^ 2) * hsc
  have hpos : 0 < (dotR b (gcPoint b d q) - dotR a b * dotR a (gcPoint b d q)) ^ 2
      + tripleR a b (gcPoint b d q) ^ 2 := by
    rw [hden]; exact mul_pos hu2 (by linarith)
  obtain ⟨r, hr, hN, hM, hψ1, hψ2⟩ := atan2R_decomp hpos
  change tripleR a b (gcPoint b d q) = r * Real.sin ψ0 at hN
  change dotR b (gcPoint b d q) - dotR a b * dotR a (gcPoint b d q) = r * Real.cos ψ0 at hM
  change -π < ψ0 at hψ1
  change ψ0 ≤ π at hψ2
  rw [htr] at hN
  rw [hbp, hap] at hM
  have hrel : r * (Real.cos ψ0 * tripleR a b d + Real.sin ψ0 * (dotR a b * dotR a d))
      = tripleR a b d * Real.cos q * (1 - dotR a b ^ 2) := by
    linear_combination (-tripleR a b d) * hM - (dotR a b * dotR a d) * hN
  have hMq : 0 < Real.cos ψ0 * tripleR a b d + Real.sin ψ0 * (dotR a b * dotR a d) := by
    have : 0 < r * (Real.cos ψ0 * tripleR a b d + Real.sin ψ0 * (dotR a b * dotR a d)) := by
      rw [hrel]; positivity
    exact (mul_pos_iff_of_pos_left hr).mp this
  refine ⟨hψ2, hψ1, hMq, ?_⟩
  unfold edgeArcR
  have hfrac : Real.sin ψ0 * (1 - dotR a b ^ 2) /
      (Real.cos ψ0 * tripleR a b d + Real.sin ψ0 * (dotR a b * dotR a d)) = Real.tan q := by
    rw [Real.tan_eq_sin_div_cos, div_eq_div_iff hMq.ne' hc.ne']
    have : r * (Real.sin ψ0 * (1 - dotR a b ^ 2) * Real.cos q)
        = r * (Real.sin q * (Real.cos ψ0 * tripleR a b d + Real.sin ψ0 * (dotR a b * dotR a d))) := by
      linear_combination (-(1 - dotR a b ^ 2) * Real.cos q) * hN - Real.sin q * hrel
    exact mul_left_cancel₀ hr.ne' this
  rw [hfrac, Real.arctan_tan hq1 hq2]

/-- **(4) on the far edge of a triangle.**  `a b c` unit, counter-clockwise (`V > 0`), area `< π`, the edge `b c`
not in the small-angle branch of `slerp` and shorter than a quarter circle (`b·c > 0`).  For every point
`P = slerp b c t`, `0 ≤ t ≤ 1`, of the far edge, with `ψ₀` its apex angle, `ρ = ∠(a, P)`, `Ω = area(a, b, c)` and
`d = edgeDirR b c`: the point of the edge on the meridian `ψ₀` is `P`, and in the polar coordinates `(θ, ψ)` about
`a` the code's coordinates `h = sin (θ/2)/sin (ρ/2)`, `β(ψ) = area(a, b, P(ψ))/Ω` satisfy
`h S · ∂h/∂θ · β′(ψ₀) = S/(2Ω) · sin θ` for every `θ`: along the whole meridian through `P` the planar area
element is the constant `S/(2Ω)` times the spherical one. -/
theorem equal_area_pointwise_edge {a b c : R3} (ha : dotR a a = 1) (hb : dotR b b = 1) (hc : dotR c c = 1)
    (hV : 0 < tripleR a b c) (hD : 0 < 1 + dotR a b + dotR b c + dotR c a)
    (hγ : slerpSwitch ≤ angleR b c) (hbc : 0 < dotR b c) {t : ℝ} (ht0 : 0 ≤ t) (ht1 : t ≤ 1) (S θ : ℝ) :
    let P := slerpR b c t
    let d := edgeDirR b c
    let ψ0 := azimuthR a b P
    let ρ := angleR a P
    let Ω := triAreaR a b c
    gcPoint b d (edgeArcR a b d ψ0) = P ∧ Real.sin (ρ / 2) ≠ 0 ∧ 0 < Ω ∧
    ∃ hθ βψ : ℝ,
      HasDerivAt (fun x => Real.sin (x / 2) / Real.sin (ρ / 2)) hθ θ ∧
      HasDerivAt (fun x => triAreaR a b (gcPoint b d (edgeArcR a b d x)) / Ω) βψ ψ0 ∧
      (Real.sin (θ / 2) / Real.sin (ρ / 2)) * S * (hθ * βψ) = S / (2 * Ω) * Real.sin θ := by
  intro P d ψ0 ρ Ω
  have hpi := Real.pi_pos
  have hπ := angle_bc_lt_pi ha hb hc hV
  have hθ0 : 0 < angleR b c := lt_of_lt_of_le slerpSwitch_pos hγ
  have hθ2 : angleR b c < π / 2 := by
    rw [(angleR_unit hb hc).1]; exact Real.arccos_lt_pi_div_two.mpr hbc
  have hS : 0 < Real.sin (angleR b c) := Real.sin_pos_of_pos_of_lt_pi hθ0 hπ
  obtain ⟨hd, hbd, htr, _⟩ := edgeDirR_facts a hb hc hθ0 hπ
  have hT : 0 < tripleR a b d := by rw [htr]; exact div_pos hV hS
  have hP : P = gcPoint b d (t * angleR b c) := slerpR_eq_gcPoint t hγ hπ
  have hq0 : 0 ≤ t * angleR b c := by positivity
  have hq1 : t * angleR b c ≤ angleR b c := by
    have := mul_le_mul_of_nonneg_right ht1 hθ0.le; linarith
  obtain ⟨hψ2, hψ1, hMq, hq⟩ := edgeArc_azimuth ha hb hd hbd hT (q := t * angleR b c) (by linarith) (by linarith)
  rw [← hP] at hψ1 hψ2 hMq hq
  have hDP : 0 < 1 + dotR a b + dotR b P + dotR P a := abp_D_pos ha hb hc hV hD hγ ht0 ht1
  have hΩ : 0 < Ω := (triAreaR_mem ha hb hc hV hD).1
  have hDP' : 0 < 1 + dotR a b + dotR b (gcPoint b d (edgeArcR a b d ψ0))
      + dotR (gcPoint b d (edgeArcR a b d ψ0)) a := by
    rw [hq, ← hP]; exact hDP
  obtain ⟨_, _, hρ, hJ⟩ := equal_area_pointwise ha hb hd hbd hT hψ1 hψ2 hMq hDP' S Ω θ hΩ.ne'
  have hPP : gcPoint b d (edgeArcR a b d ψ0) = P := by rw [hq, ← hP]
  rw [hPP] at hρ hJ
  exact ⟨hPP, hρ, hΩ, hJ⟩

/-! ## non-vacuity

The octant triangle `a = e₃`, `b = e₁`, `c = e₂` does not satisfy `b·c > 0`; take instead `c = (3/5, 4/5, 0)`
(same frame `d = e₂`, `u = w = 0`, `T = 1`). -/

theorem example_triangle_hyps :
    dotR ⟨0, 0, 1⟩ ⟨0, 0, 1⟩ = 1 ∧ dotR ⟨1, 0, 0⟩ ⟨1, 0, 0⟩ = 1 ∧ dotR ⟨3 / 5, 4 / 5, 0⟩ ⟨3 / 5, 4 / 5, 0⟩ = 1 ∧
    0 < tripleR ⟨0, 0, 1⟩ ⟨1, 0, 0⟩ ⟨3 / 5, 4 / 5, 0⟩ ∧
    0 < 1 + dotR ⟨0, 0, 1⟩ ⟨1, 0, 0⟩ + dotR ⟨1, 0, 0⟩ ⟨3 / 5, 4 / 5, 0⟩ + dotR ⟨3 / 5, 4 / 5, 0⟩ ⟨0, 0, 1⟩ ∧
    0 < dotR ⟨1, 0, 0⟩ ⟨3 / 5, 4 / 5, 0⟩ := by
  norm_num [dotR, tripleR, crossR]

/-- the edge of the example triangle is far above `SLERP_SWITCH`: `∠(b,c) = arccos (3/5) ≥ arccos (√2/2)… ≥ 1/2` -/
theorem example_triangle_switch : slerpSwitch ≤ angleR ⟨1, 0, 0⟩ ⟨3 / 5, 4 / 5, 0⟩ := by
  obtain ⟨_, hb, hc, _, _, _⟩ := example_triangle_hyps
  have h : slerpSwitchQ ≤ 1 / 2 := by decide +kernel
  have h1 : slerpSwitch ≤ 1 / 2 := by
    unfold slerpSwitch
    have : ((slerpSwitchQ : ℚ) : ℝ) ≤ ((1 / 2 : ℚ) : ℝ) := Rat.cast_le.mpr h
    simpa using this
  refine h1.trans ?_
  rw [(angleR_unit hb hc).1]
  have hd : dotR ⟨1, 0, 0⟩ ⟨3 / 5, 4 / 5, 0⟩ = 3 / 5 := by norm_num [dotR]
  rw [hd]
  -- `cos (1/2) ≥ 1 − (1/2)²/2 = 7/8 > 3/5`
  have hcos : (3 / 5 : ℝ) ≤ Real.cos (1 / 2) := by
    have := Real.one_sub_sq_div_two_le_cos (x := 1 / 2)
    norm_num at this ⊢
    linarith
  have := Real.arccos_le_arccos hcos
  rwa [Real.arccos_cos (by norm_num) (by linarith [Real.pi_gt_three])] at this

example (S θ : ℝ) :
    let a : R3 := ⟨0, 0, 1⟩
    let b : R3 := ⟨1, 0, 0⟩
    let c : R3 := ⟨3 / 5, 4 / 5, 0⟩
    let P := slerpR b c (1 / 3)
    let d := edgeDirR b c
    ∃ hθ βψ : ℝ,
      HasDerivAt (fun x => Real.sin (x / 2) / Real.sin (angleR a P / 2)) hθ θ ∧
      HasDerivAt (fun x => triAreaR a b (gcPoint b d (edgeArcR a b d x)) / triAreaR a b c) βψ (azimuthR a b P) ∧
      (Real.sin (θ / 2) / Real.sin (angleR a P / 2)) * S * (hθ * βψ) = S / (2 * triAreaR a b c) * Real.sin θ := by
  obtain ⟨ha, hb, hc, hV, hD, hbc⟩ := example_triangle_hyps
  exact (equal_area_pointwise_edge ha hb hc hV hD example_triangle_switch hbc
    (by norm_num) (by norm_num) S θ).2.2.2

/-- the sweep formula on the octant frame at `ψ = π/3`: `W′ = 1 − cos (π/2) = 1` -/
example : HasDerivAt (fun x => triAreaR ⟨0, 0, 1⟩ ⟨1, 0, 0⟩
    (gcPoint ⟨1, 0, 0⟩ ⟨0, 1, 0⟩ (edgeArcR ⟨0, 0, 1⟩ ⟨1, 0, 0⟩ ⟨0, 1, 0⟩ x)))
    (1 - Real.cos (angleR ⟨0, 0, 1⟩
      (gcPoint ⟨1, 0, 0⟩ ⟨0, 1, 0⟩ (edgeArcR ⟨0, 0, 1⟩ ⟨1, 0, 0⟩ ⟨0, 1, 0⟩ (π / 3))))) (π / 3) := by
  obtain ⟨ha, hb, hd, hbd, hab, had, hT⟩ := octant_gc_hyps
  refine sweep_formula ha hb hd hbd ?_ ?_
  · rw [hT, hab, Real.cos_pi_div_three]; norm_num
  · rw [gc_denominator _ hb hd hbd, hab, had]
    have := Real.cos_arctan_pos (Real.sin (π / 3) * (1 - (0 : ℝ) ^ 2) /
      (Real.cos (π / 3) * tripleR ⟨0, 0, 1⟩ ⟨1, 0, 0⟩ ⟨0, 1, 0⟩ + Real.sin (π / 3) * ((0 : ℝ) * 0)))
    unfold edgeArcR
    rw [hab, had]
    linarith

end A5.SweepFormula
