import A5.Lemmas.Order
import A5.Model.Hier
import A5.Lemmas.Serialize
/-! # Siblings: strides, first children, parent between its children (core-only)

* `child p j`: the `j`-th child in `Path.children` order (`children_eq_map_child`).
* `getStride_eq`, `isFirstChild_low`, `isFirstChild_hilbert`: closed forms of the model functions
  `getStride`, `isFirstChild` (`A5/Model/Hier.lean`, Rust `get_stride`, `is_first_child`).
* `enc_child_stride`: `enc (child p j) = enc (child p 0) + j · stride (res p + 1)`.
* `isFirstChild_child`: the model's `isFirstChild` answers `true` exactly for `j = 0`.
* `mem_children_of_between`: a same-resolution id between the first and the last child is a child.
* `enc_children_order_deep` / `_quintant` / `_face`: where the parent id sits among its children. -/
namespace A5.Order
open A5 A5.Path

/-! ### the `j`-th child -/

def child : Path → Nat → Path
  | world, j => face j
  | face f, j => deep f j []
  | deep f k ds, j => deep f k (ds ++ [j])

theorem fan_world : fan (res world) = 12 := by decide
theorem fan_face (f : Nat) : fan (res (face f)) = 5 := Eq.trans rfl rfl
theorem fan_deep (f k : Nat) (ds : List Nat) : fan (res (deep f k ds)) = 4 := by
  rw [res_deep]; simp only [fan]; rw [if_neg (by omega), if_neg (by omega)]

theorem children_eq_map_child (p : Path) : children p = (List.range (fan (res p))).map (child p) := by
  cases p with
  | world => rw [fan_world]; rfl
  | face f => rw [fan_face]; rfl
  | deep f k ds => rw [fan_deep]; rfl

theorem mem_children_iff (p c : Path) : c ∈ children p ↔ ∃ j, j < fan (res p) ∧ c = child p j := by
  rw [children_eq_map_child]
  simp only [List.mem_map, List.mem_range]
  constructor
  · rintro ⟨j, hj, rfl⟩; exact ⟨j, hj, rfl⟩
  · rintro ⟨j, hj, rfl⟩; exact ⟨j, hj, rfl⟩

theorem child_mem_children (p : Path) (j : Nat) (hj : j < fan (res p)) : child p j ∈ children p :=
  (mem_children_iff p _).2 ⟨j, hj, rfl⟩

theorem res_child (p : Path) (j : Nat) : res (child p j) = res p + 1 := by
  cases p with
  | world => simp [child, res]
  | face f => simp [child, res]
  | deep f k ds => simp only [child, res, List.length_append, List.length_singleton]; omega

theorem fan_le (r : Int) : 4 ≤ fan r ∧ fan r ≤ 12 := by
  unfold fan; split
  · omega
  · split <;> omega

/-! ### ids of the children -/

theorem enc_child_world (j : Nat) : enc (child world j) = j * 2 ^ 58 + 2 ^ 57 := Eq.trans rfl rfl

theorem enc_child_face (f j : Nat) : enc (child (face f) j) = (5 * f + j) * 2 ^ 58 + 2 ^ 56 := by
  simp only [child]
  rw [enc_deep, value_nil, List.length_nil, mark_zero]
  omega

theorem enc_quintant (f k : Nat) : enc (deep f k []) = (5 * f + k) * 2 ^ 58 + 2 ^ 56 := enc_child_face f k

theorem enc_face (f : Nat) : enc (face f) = f * 2 ^ 58 + 2 ^ 57 := Eq.trans rfl rfl

theorem enc_child_deep (f k : Nat) (ds : List Nat) (j : Nat) (hl : ds.length ≤ 28) :
    enc (child (deep f k ds) j) = blockBase f k ds + j * W (ds.length + 1) + mark (ds.length + 1) := by
  simp only [child]
  rw [enc_append f k ds [j] (by simp only [List.length_singleton]; omega)]
  have : value [j] = j := by simp [value]
  rw [this, List.length_singleton]
  omega

/-! ### closed forms of the model's `getStride` and `isFirstChild` -/

theorem i32Sub_ok (a b : Int) (h1 : -2147483648 ≤ a - b) (h2 : a - b ≤ 2147483647) :
    i32Sub a b = .ok (a - b) := by
  simp [i32Sub, i32InRange, h1, h2]

/-- the documented sibling distance at resolution `r` -/
def stride (r : Int) : Nat := if r < 2 then 2 ^ 58 else 2 ^ (2 * (30 - r).toNat)

/-- `get_stride` never fails for `r ≤ 30` and returns `2^58` below resolution 2, else `2^(2(30-r))` -/
theorem getStride_eq (r : Int) (h30 : r ≤ 30) (hlo : -2147483617 ≤ r) : getStride r = .ok (stride r) := by
  unfold getStride stride
  by_cases h : r < 2
  · rewrite [if_pos h, if_pos h]
    simp only [Gen.HILBERT_START_BIT]
    rewrite [u64Shl_ok 1 58 (by omega) (by omega)]
    refine congrArg Outcome.ok ?_
    omega
  · rewrite [if_neg h, if_neg h]
    simp only [Gen.MAX_RESOLUTION]
    rewrite [i32Sub_ok 30 r (by omega) (by omega)]
    simp only [Outcome.bind_ok]
    rewrite [if_neg (by omega)]
    have hn : 2 * (30 - r).toNat < 64 := by omega
    have hm : 2 * (30 - r).toNat % 2 ^ 32 = 2 * (30 - r).toNat := Nat.mod_eq_of_lt (by omega)
    rewrite [hm]
    have hp : 1 * 2 ^ (2 * (30 - r).toNat) < 2 ^ 64 := by
      rw [Nat.one_mul]; exact Nat.pow_lt_pow_right (by omega) hn
    rewrite [u64Shl_ok 1 _ hn hp, Nat.one_mul]
    rfl

theorem stride_low (r : Int) (h : r < 2) : stride r = 2 ^ 58 := by
  unfold stride; rw [if_pos h]

/-- for a cell with `n ≥ 1` digits (resolution `1 + n ≥ 2`) the stride is the block width -/
theorem stride_eq_W (n : Nat) (h1 : 1 ≤ n) (h29 : n ≤ 29) : stride (1 + (n : Int)) = W n := by
  unfold stride W
  rw [if_neg (by omega)]
  have : 2 * (30 - (1 + (n : Int))).toNat = 58 - 2 * n := by omega
  rw [this]

theorem and_three_shift (x n : Nat) : x &&& (3 * 2 ^ n) = (x / 2 ^ n % 4) * 2 ^ n := by
  have h1 : (x &&& (3 * 2 ^ n)) % 2 ^ n = 0 := by
    rw [Nat.and_mod_two_pow, Nat.mul_mod_left, Nat.and_zero]
  have h2 : (x &&& (3 * 2 ^ n)) / 2 ^ n = x / 2 ^ n % 4 := by
    rw [← Nat.shiftRight_eq_div_pow, Nat.shiftRight_and_distrib, Nat.shiftRight_eq_div_pow,
      Nat.shiftRight_eq_div_pow, Nat.mul_div_cancel _ (Nat.pow_pos (by omega))]
    exact Nat.and_two_pow_sub_one_eq_mod _ 2
  have h3 := Nat.div_add_mod (x &&& (3 * 2 ^ n)) (2 ^ n)
  rw [h1, h2, Nat.add_zero, Nat.mul_comm] at h3
  exact h3.symm

/-- `is_first_child` below resolution 2: a test on the six leading bits -/
theorem isFirstChild_low (id : Nat) (r : Int) (h : r < 2) :
    isFirstChild id r = .ok ((id / 2 ^ 58) % (if r = 0 then 12 else 5) == 0) := by
  unfold isFirstChild
  rewrite [if_pos h]
  simp only [Gen.HILBERT_START_BIT, Gen.FIRST_CHILD_COUNT_RES0, Gen.FIRST_CHILD_COUNT_RES1,
    Nat.shiftRight_eq_div_pow]

/-- `is_first_child` for a cell with `n ≥ 1` digits: the last digit (two bits above the marker) is 0 -/
theorem isFirstChild_hilbert (id n : Nat) (h1 : 1 ≤ n) (h29 : n ≤ 29) :
    isFirstChild id (1 + (n : Int)) = .ok ((id / W n % 4) * W n == 0) := by
  unfold isFirstChild
  rewrite [if_neg (by omega)]
  simp only [Gen.MAX_RESOLUTION]
  rewrite [i32Sub_ok 30 _ (by omega) (by omega)]
  simp only [Outcome.bind_ok]
  rewrite [if_neg (by omega)]
  have he : 2 * (30 - (1 + (n : Int))).toNat = 58 - 2 * n := by omega
  rewrite [he]
  have hm : (58 - 2 * n) % 2 ^ 32 = 58 - 2 * n := Nat.mod_eq_of_lt (by omega)
  rewrite [hm]
  have hp : 3 * 2 ^ (58 - 2 * n) < 2 ^ 64 := by
    have : 2 ^ (58 - 2 * n) ≤ 2 ^ 56 := Nat.pow_le_pow_right (by omega) (by omega)
    omega
  rewrite [u64Shl_ok 3 _ (by omega) hp]
  simp only [Outcome.bind_ok]
  have := and_three_shift id (58 - 2 * n)
  have e : (id &&& 3 * 2 ^ (58 - 2 * n)) = (id / W n % 4) * W n := this
  rewrite [e]
  rfl

theorem mul_beq_zero (j S : Nat) (hS : 0 < S) : (j * S == 0) = (j == 0) := by
  by_cases hj : j = 0
  · subst hj; simp
  · have : j * S ≠ 0 := Nat.mul_ne_zero hj (by omega)
    rw [beq_eq_false_iff_ne.2 this, beq_eq_false_iff_ne.2 hj]

/-! ### T4 ingredients -/

/-- siblings are equally spaced by the stride of their resolution -/
theorem enc_child_stride (p : Path) (hp : WF p) (hr : res p ≤ 28) (j : Nat) :
    enc (child p j) = enc (child p 0) + j * stride (res p + 1) := by
  cases p with
  | world =>
    rw [enc_child_world, enc_child_world, stride_low _ (by simp only [res]; omega)]; omega
  | face f =>
    rw [enc_child_face, enc_child_face, stride_low _ (by simp only [res]; omega)]; omega
  | deep f k ds =>
    obtain ⟨_, _, _, hl⟩ := hp
    have e : res (deep f k ds) + 1 = 1 + ((ds.length + 1 : Nat) : Int) := by simp only [res]; omega
    rw [e, stride_eq_W _ (by omega) (by omega), enc_child_deep _ _ _ _ hl, enc_child_deep _ _ _ _ hl]
    omega

/-- the model's `isFirstChild` is `true` exactly on child number 0 -/
theorem isFirstChild_child (p : Path) (hp : WF p) (hr : res p ≤ 28) (j : Nat) (hj : j < fan (res p)) :
    isFirstChild (enc (child p j)) (res p + 1) = .ok (j == 0) := by
  cases p with
  | world =>
    rw [fan_world] at hj
    simp only [res]
    rewrite [isFirstChild_low _ _ (by omega), enc_child_world, if_pos (by omega)]
    have : (j * 2 ^ 58 + 2 ^ 57) / 2 ^ 58 % 12 = j := by omega
    rewrite [this]; rfl
  | face f =>
    rw [fan_face] at hj
    simp only [res]
    rewrite [isFirstChild_low _ _ (by omega), enc_child_face, if_neg (by omega)]
    have : ((5 * f + j) * 2 ^ 58 + 2 ^ 56) / 2 ^ 58 % 5 = j := by omega
    rewrite [this]; rfl
  | deep f k ds =>
    obtain ⟨_, _, hd, hl⟩ := hp
    rw [fan_deep] at hj
    rw [res_deep] at hr
    have e : res (deep f k ds) + 1 = 1 + ((ds.length + 1 : Nat) : Int) := by simp only [res]; omega
    rewrite [e, isFirstChild_hilbert _ _ (by omega) (by omega), enc_child_deep _ _ _ _ hl]
    -- id = (4·c + j)·S + m with m < S
    have hS := W_pos (ds.length + 1)
    have hW := W_succ ds.length hl
    have hm1 := two_mark_le_W (ds.length + 1) (by omega)
    have h58 := pow4_mul_W (ds.length + 1) (by omega)
    have hid : blockBase f k ds + j * W (ds.length + 1) + mark (ds.length + 1) =
        (4 * ((5 * f + k) * 4 ^ ds.length + value ds) + j) * W (ds.length + 1) + mark (ds.length + 1) := by
      rw [blockBase, hW, ← h58, Nat.pow_succ]; grind
    have hdiv : (blockBase f k ds + j * W (ds.length + 1) + mark (ds.length + 1)) / W (ds.length + 1) =
        4 * ((5 * f + k) * 4 ^ ds.length + value ds) + j := by
      rw [hid]
      apply Nat.div_eq_of_lt_le
      · omega
      · have e := Nat.add_mul (4 * ((5 * f + k) * 4 ^ ds.length + value ds) + j) 1 (W (ds.length + 1))
        omega
    rewrite [hdiv]
    have : (4 * ((5 * f + k) * 4 ^ ds.length + value ds) + j) % 4 = j := by omega
    rewrite [this, mul_beq_zero j _ hS]
    rfl

/-- no other cell of the children's resolution has an id between the first and the last child -/
theorem mem_children_of_between (p : Path) (hp : WF p) (hr : res p ≤ 28) (q : Path) (hq : WF q)
    (hres : res q = res p + 1) (h1 : enc (child p 0) ≤ enc q)
    (h2 : enc q ≤ enc (child p (fan (res p) - 1))) : q ∈ children p := by
  cases p with
  | world =>
    cases q with
    | world => simp only [res] at hres; omega
    | face f' => exact List.mem_map.2 ⟨f', List.mem_range.2 hq, rfl⟩
    | deep f' k' es => simp only [res] at hres; omega
  | face f =>
    cases q with
    | world => simp only [res] at hres; omega
    | face f' => simp only [res] at hres; omega
    | deep f' k' es =>
      simp only [res] at hres
      have hes : es = [] := List.eq_nil_of_length_eq_zero (by omega)
      subst hes
      obtain ⟨_, hk', _, _⟩ := hq
      rw [fan_face] at h2
      rw [enc_child_face] at h1 h2
      rw [enc_quintant] at h1 h2
      have : f' = f := by omega
      subst this
      exact List.mem_map.2 ⟨k', List.mem_range.2 hk', rfl⟩
  | deep f k ds =>
    have hp' := hp
    obtain ⟨_, _, hd, hl⟩ := hp
    rw [fan_deep] at h2
    rw [enc_child_deep _ _ _ _ hl] at h1 h2
    have hW := W_succ ds.length hl
    have hm1 := two_mark_le_W (ds.length + 1) (by rw [res_deep] at hr; omega)
    have hm2 := two_le_mark (ds.length + 1) (by rw [res_deep] at hr; omega)
    have h1p : 1 ≤ res (deep f k ds) := by rw [res_deep]; omega
    have ha := ancestor_of_enc_bounds hp' hq h1p (by omega)
      (by simp only [lo]; omega) (by simp only [hi]; omega)
    have := mem_descend_of_ancestor (n := 1) hq (res_ge _) (by omega) ha.2
    rwa [descend_one] at this

/-! ### the parent id among its children -/

/-- a cell with at least one digit (resolution ≥ 2): `c₀ < c₁ < parent < c₂ < c₃`, the parent exactly in
the middle: `c₁ + mark = parent`, `parent + mark = c₂` (mark = marker of the children) -/
theorem enc_children_order_deep (f k : Nat) (ds : List Nat) (h1 : 1 ≤ ds.length) (hl : ds.length ≤ 27) :
    enc (child (deep f k ds) 0) < enc (child (deep f k ds) 1) ∧
    enc (child (deep f k ds) 1) + mark (ds.length + 1) = enc (deep f k ds) ∧
    enc (deep f k ds) + mark (ds.length + 1) = enc (child (deep f k ds) 2) ∧
    enc (child (deep f k ds) 2) < enc (child (deep f k ds) 3) := by
  rw [enc_child_deep _ _ _ _ (by omega), enc_child_deep _ _ _ _ (by omega), enc_child_deep _ _ _ _ (by omega),
    enc_child_deep _ _ _ _ (by omega), enc_eq_base_add_mark]
  have h2 := mark_pos_eq ds.length h1 (by omega)
  have h3 := two_mark_eq_W (ds.length + 1) (by omega) (by omega)
  have h4 := W_pos (ds.length + 1)
  omega

/-- a quintant (resolution 1): `c₀ < parent < c₁ < c₂ < c₃`, `c₀ + mark = parent`, `parent + mark = c₁` -/
theorem enc_children_order_quintant (f k : Nat) :
    enc (child (deep f k []) 0) + mark 1 = enc (deep f k []) ∧
    enc (deep f k []) + mark 1 = enc (child (deep f k []) 1) ∧
    enc (child (deep f k []) 1) < enc (child (deep f k []) 2) ∧
    enc (child (deep f k []) 2) < enc (child (deep f k []) 3) := by
  rw [enc_child_deep _ _ _ _ (by simp), enc_child_deep _ _ _ _ (by simp), enc_child_deep _ _ _ _ (by simp),
    enc_child_deep _ _ _ _ (by simp), enc_eq_base_add_mark]
  simp only [List.length_nil, Nat.zero_add]
  have h2 := mark_zero_W
  have h3 := two_mark_eq_W 1 (by omega) (by omega)
  have h4 := W_pos 1
  omega

/-- every cell of resolution 1..28 lies strictly between its first and its last child -/
theorem parent_between_children (p : Path) (hp : WF p) (h1 : 1 ≤ res p) (hr : res p ≤ 28) :
    enc (child p 0) < enc p ∧ enc p < enc (child p 3) := by
  obtain ⟨f, k, ds, rfl⟩ := exists_deep_of_res h1
  rw [res_deep] at hr
  by_cases h0 : ds.length = 0
  · have : ds = [] := List.eq_nil_of_length_eq_zero h0
    subst this
    have := enc_children_order_quintant f k
    have := two_le_mark 1 (by omega)
    omega
  · have := enc_children_order_deep f k ds (by omega) (by omega)
    have := two_le_mark (ds.length + 1) (by omega)
    omega

/-- a face: face 0 lies between its quintants 0 and 1; every other face precedes all of its quintants -/
theorem enc_children_order_face (f : Nat) :
    (f = 0 → enc (child (face f) 0) < enc (face f) ∧ enc (face f) < enc (child (face f) 1)) ∧
    (1 ≤ f → enc (face f) < enc (child (face f) 0)) := by
  rw [enc_child_face, enc_child_face, enc_face]
  constructor
  · intro h; subst h; omega
  · intro h; omega

theorem child_inj (p : Path) (j j' : Nat) (h : child p j = child p j') : j = j' := by
  cases p with
  | world => simp only [child] at h; injection h
  | face f => simp only [child] at h; injection h
  | deep f k ds =>
    simp only [child] at h
    injection h with _ _ h
    have := List.append_cancel_left h
    injection this

/-! ### the interval of a face, faces versus blocks, extreme leaves -/

/-- among cells of resolution ≥ 1 the subtree of a face is the id interval `[lo, hi]` as well -/
theorem face_interval (f : Nat) (q : Path) (hq : WF q) (hq1 : 1 ≤ res q) :
    ancestorAt q 0 = face f ↔ (lo (face f) ≤ enc q ∧ enc q ≤ hi (face f)) := by
  obtain ⟨f', k', es, rfl⟩ := exists_deep_of_res hq1
  obtain ⟨_, hk', hd', hl'⟩ := hq
  have hq58 := tail_bounds 0 es hd' (by omega)
  rw [Nat.zero_add, W_zero] at hq58
  have ha : ancestorAt (deep f' k' es) 0 = face f' := by simp [ancestorAt]
  rw [ha, enc_deep]
  simp only [lo, hi]
  constructor
  · intro h; injection h with h; subst h; omega
  · intro h
    have : f' = f := by omega
    rw [this]

/-- a base cell never lies in the interval of a cell of resolution ≥ 2 -/
theorem face_not_in_block (f k : Nat) (ds : List Nat) (hp : WF (deep f k ds)) (h1 : 1 ≤ ds.length) (f' : Nat) :
    ¬ (lo (deep f k ds) ≤ enc (face f') ∧ enc (face f') ≤ hi (deep f k ds)) := by
  obtain ⟨_, _, hd, hl⟩ := hp
  rintro ⟨h2, h3⟩
  simp only [lo, hi, blockBase] at h2 h3
  rw [enc_face] at h2 h3
  have hW := four_le_W ds.length hl
  have hp58 := value_mul_W_le ds hd (by omega)
  have hT : 5 * f + k = f' := by omega
  subst hT
  -- 2^57 = 2·W 1 is a multiple of W |ds|
  have hc := W_add 1 (ds.length - 1) (by omega)
  have e1 : 1 + (ds.length - 1) = ds.length := by omega
  rw [e1] at hc
  have h57 : 2 ^ 57 = (2 * 4 ^ (ds.length - 1)) * W ds.length := by
    rw [Nat.mul_assoc, ← hc]; exact Eq.trans rfl rfl
  have a1 : value ds * W ds.length < (2 * 4 ^ (ds.length - 1)) * W ds.length := by omega
  have a2 : (2 * 4 ^ (ds.length - 1)) * W ds.length < (value ds + 1) * W ds.length := by
    rw [Nat.add_mul, Nat.one_mul]; omega
  have := Nat.lt_of_mul_lt_mul_right a1
  have := Nat.lt_of_mul_lt_mul_right a2
  omega

theorem value_replicate_zero (m : Nat) : value (List.replicate m 0) = 0 := by
  induction m with
  | zero => rfl
  | succ m ih => rw [List.replicate_succ, value_cons, ih]; simp

theorem value_replicate_three (m : Nat) : value (List.replicate m 3) + 1 = 4 ^ m := by
  induction m with
  | zero => rfl
  | succ m ih => rw [List.replicate_succ, value_cons, List.length_replicate, Nat.pow_succ]; omega

theorem mark_28 : mark 28 = 2 := Eq.trans rfl rfl
theorem W_28 : W 28 = 4 := Eq.trans rfl rfl

/-- `lo` is attained: it is the id of the resolution-29 descendant with all further digits 0 -/
theorem lo_attained (f k : Nat) (ds : List Nat) (hl : ds.length ≤ 28) :
    enc (deep f k (ds ++ List.replicate (28 - ds.length) 0)) = lo (deep f k ds) := by
  rw [enc_append f k ds _ (by rw [List.length_replicate]; omega), value_replicate_zero, List.length_replicate]
  have : ds.length + (28 - ds.length) = 28 := by omega
  rw [this, mark_28]
  simp only [lo]; omega

/-- `hi` is attained: it is the id of the resolution-29 descendant with all further digits 3 -/
theorem hi_attained (f k : Nat) (ds : List Nat) (hl : ds.length ≤ 28) :
    enc (deep f k (ds ++ List.replicate (28 - ds.length) 3)) = hi (deep f k ds) := by
  rw [enc_append f k ds _ (by rw [List.length_replicate]; omega), List.length_replicate]
  have e : ds.length + (28 - ds.length) = 28 := by omega
  have h1 := value_replicate_three (28 - ds.length)
  have h2 := W_add ds.length (28 - ds.length) (by omega)
  rw [e] at h2 ⊢
  rw [mark_28, W_28]
  rw [W_28, ← h1, Nat.add_mul] at h2
  simp only [hi]; omega

end A5.Order
